package main

import (
	"archive/tar"
	"bytes"
	"context"
	"crypto/rand"
	"crypto/rsa"
	"crypto/sha256"
	"encoding/base64"
	"encoding/hex"
	"encoding/json"
	"errors"
	"fmt"
	"io"
	"math/big"
	"net/http"
	"net/url"
	"os"
	"path/filepath"
	"sort"
	"strings"
	"syscall"
	"time"

	"chainguard.dev/apko/pkg/apk/apk"
	apkfs "chainguard.dev/apko/pkg/apk/fs"

	"verifharness/gal"
)

func fmtViolation(tag string, desc map[string]any) {
	b, _ := json.Marshal(desc)
	fmt.Printf("IMPL-VIOLATION tag=%s %s\n", tag, b)
}

// ---- the canary tree ------------------------------------------------------------

// The designated directories live in <outer>/n1/../n7/T, so that a name climbing out
// of root/ (or a key name climbing out of root/etc/apk/keys, or a cache name climbing
// out of cache/<repo>/<arch>) by up to nine levels still lands inside <outer>, which is
// snapshotted as a whole: nothing the experiments feed the implementation climbs further.
type canary struct {
	outer string // the temporary directory; abstract name /O
	top   string // <outer>/n1/.../n7/T; abstract name T
	snap  map[string]string
}

const nest = "n1/n2/n3/n4/n5/n6/n7"

// T is the abstract name of the directory that holds the designated directories.
const T = "/O/" + nest + "/T"

var designated = []string{"root", "cache", "tmp", "out"}

// wall time per experiment class (a STAT line at the end of the stage)
var (
	classTime  = map[string]float64{}
	caseStart  time.Time
	classOrder []string
)

func clock(class string) {
	if _, ok := classTime[class]; !ok {
		classOrder = append(classOrder, class)
	}
	classTime[class] += time.Since(caseStart).Seconds()
}

func newCanary() *canary {
	caseStart = time.Now()
	base := os.Getenv("C18_TMP")
	outer, err := os.MkdirTemp(base, "c18canary")
	if err != nil {
		fmt.Fprintln(os.Stderr, err)
		os.Exit(1)
	}
	outer, _ = filepath.EvalSymlinks(outer)
	top := filepath.Join(outer, nest, "T")
	c := &canary{outer: outer, top: top}
	for _, d := range append(append([]string{}, designated...), "host", "host/sub", "root2", "cachefoo", "outside/deep", "../sib2", "../../sib3") {
		_ = os.MkdirAll(filepath.Join(top, d), 0o755)
	}
	for _, f := range []string{"decoy.txt", "host/file.txt", "root2/secret", "cachefoo/b", "outside/deep/file", "root/existing.txt", "out/existing.txt",
		"../up2.txt", "../sib2/f", "../../up3.txt", "../../sib3/f"} {
		_ = os.WriteFile(filepath.Join(top, f), []byte("decoy "+f), 0o644)
	}
	_ = os.Symlink("host", filepath.Join(top, "hostlink"))
	os.Setenv("TMPDIR", filepath.Join(top, "tmp"))
	c.snap = c.snapshot()
	return c
}

func (c *canary) close() {
	os.Unsetenv("TMPDIR")
	_ = filepath.Walk(c.outer, func(p string, fi os.FileInfo, err error) error {
		if err == nil && fi.IsDir() {
			_ = os.Chmod(p, 0o755)
		}
		return nil
	})
	_ = os.RemoveAll(c.outer)
}

// snapshot: path -> type, permission bits, link count and content hash (or link target)
func (c *canary) snapshot() map[string]string {
	m := map[string]string{}
	_ = filepath.Walk(c.outer, func(p string, fi os.FileInfo, err error) error {
		if err != nil {
			return nil
		}
		rel, _ := filepath.Rel(c.outer, p)
		var d string
		switch {
		case fi.Mode()&os.ModeSymlink != 0:
			t, _ := os.Readlink(p)
			d = "link:" + t
		case fi.IsDir():
			d = fmt.Sprintf("dir:%o", fi.Mode().Perm())
		case fi.Mode().IsRegular():
			b, _ := os.ReadFile(p)
			h := sha256.Sum256(b)
			nlink := uint64(0)
			if st, ok := fi.Sys().(*syscall.Stat_t); ok {
				nlink = uint64(st.Nlink)
			}
			d = fmt.Sprintf("file:%o:%d:%s", fi.Mode().Perm(), nlink, hex.EncodeToString(h[:8]))
		default:
			d = "other:" + fi.Mode().String()
		}
		m[rel] = d
		return nil
	})
	return m
}

// outsideChanges: paths (abstract, /O/...) created, modified or deleted outside the four
// designated directories, sorted.
func (c *canary) outsideChanges() []string {
	after := c.snapshot()
	set := map[string]bool{}
	for p, d := range after {
		if c.snap[p] != d {
			set[p] = true
		}
	}
	for p := range c.snap {
		if _, ok := after[p]; !ok {
			set[p] = true
		}
	}
	var out []string
	for p := range set {
		if p == "." {
			continue
		}
		inside := false
		for _, d := range designated {
			dd := filepath.Join(nest, "T", d)
			if p == dd || strings.HasPrefix(p, dd+"/") {
				inside = true
			}
		}
		if !inside {
			out = append(out, "/O/"+p)
		}
	}
	sort.Strings(out)
	return out
}

func (c *canary) abstract(s string) string {
	s = strings.ReplaceAll(s, c.outer, "/O")
	return strings.ReplaceAll(s, url.QueryEscape(c.outer), url.QueryEscape("/O")) // as a cache directory name
}
func (c *canary) concrete(s string) string {
	if s == "/O" || strings.HasPrefix(s, "/O/") {
		return c.outer + s[2:]
	}
	return s
}

var rootsTerm = gal.StrList([]string{T + "/root", T + "/cache", T + "/tmp", T + "/out"})

// ---- operations on the directory-backed filesystem -------------------------------

type dop struct {
	Op     string `json:"op"`
	Name   string `json:"name"`
	Target string `json:"target,omitempty"` // symlink target / hard link source, abstract (/T/...)
}

func (o dop) term() string {
	switch o.Op {
	case "OSymlink", "OLink":
		return gal.App(o.Op, gal.Str(o.Target), gal.Str(o.Name))
	}
	return gal.App(o.Op, gal.Str(o.Name))
}

func applyOp(c *canary, f apkfs.FullFS, o dop) (err error) {
	defer func() {
		if r := recover(); r != nil {
			err = fmt.Errorf("panic: %v", r)
		}
	}()
	switch o.Op {
	case "OWriteFile":
		return f.WriteFile(o.Name, []byte("written by apko"), 0o644)
	case "OMkdirAll":
		return f.MkdirAll(o.Name, 0o755)
	case "OMkdir":
		return f.Mkdir(o.Name, 0o755)
	case "OCreate":
		fl, err := f.Create(o.Name)
		if err == nil {
			_, _ = fl.Write([]byte("created by apko"))
			_ = fl.Close()
		}
		return err
	case "OSymlink":
		return f.Symlink(c.concrete(o.Target), o.Name)
	case "OLink":
		return f.Link(c.concrete(o.Target), o.Name)
	case "ORemove":
		return f.Remove(o.Name)
	case "OChmod":
		return f.Chmod(o.Name, 0o600)
	case "OMknod":
		return f.Mknod(o.Name, 0o644|syscall.S_IFCHR, 0x0103)
	}
	return errors.New("unknown op")
}

func emitCanary(w *gal.Writer, class string, ops []dop, exact bool, changed []string, extra map[string]any) {
	var ts []string
	for _, o := range ops {
		ts = append(ts, o.term())
	}
	desc := map[string]any{"kind": "canary", "experiment": class, "ops": ops, "changed_outside": changed}
	for k, v := range extra {
		desc[k] = v
	}
	term := fmt.Sprintf("(CCanary {| k_base := %s; k_roots := %s; k_ops := %s; k_exact := %s; k_changed := %s |})",
		gal.Str(T+"/root"), rootsTerm, gal.List(ts), gal.Bool(exact), gal.StrList(changed))
	w.Add(gal.Case{Term: term, Desc: desc, Class: class, Trivial: len(ops) == 0})
	clock(class)
}

func runDirfsCase(w *gal.Writer, class string, ops []dop, exact bool) {
	c := newCanary()
	defer c.close()
	f := apkfs.DirFS(filepath.Join(c.top, "root"))
	var errs []string
	for _, o := range ops {
		errs = append(errs, errStr(applyOp(c, f, o)))
	}
	emitCanary(w, class, ops, exact, c.outsideChanges(), map[string]any{"errors": errs})
}

var upNames = []string{"../escaped.txt", "../host/new.txt", "../../c18-should-not-exist", "../host/sub/n", "../root2/n", "../outside/deep/n", "../decoy.txt",
	"../host/file.txt", "../root2/secret", "a/../../x", "./../y", "..//z", "../out/../q",
	"../../sib2/n", "../../../c18-up3", "../c18-nd/sub/n", "../../../../../../c18-up6"}
var inNames = []string{"a", "a/b", "etc/x", "/abs", "/etc/passwd", "..a", "...", "a/../b", "existing.txt", "l/x", "l", "l2/y", "%2e%2e/x", "a\x00b"}

func randomOp(r *gal.Rand) dop {
	name := gal.Pick(r, inNames)
	if r.Chance(1, 2) {
		name = gal.Pick(r, upNames)
	}
	switch r.Intn(10) {
	case 0, 1:
		return dop{Op: "OWriteFile", Name: name}
	case 2:
		return dop{Op: "OMkdirAll", Name: name}
	case 3:
		return dop{Op: "OMkdir", Name: name}
	case 4:
		return dop{Op: "OCreate", Name: name}
	case 5:
		return dop{Op: "OSymlink", Name: gal.Pick(r, []string{"l", "l2", "a/l", "../sl", "l/l3"}),
			Target: gal.Pick(r, []string{T+"/host", "../host", T+"/root2", "..", T+"/outside/deep", "a", T+"/root/a", "../../n7"})}
	case 6:
		return dop{Op: "OLink", Name: gal.Pick(r, []string{"stolen", "../stolen", "a/h"}),
			Target: gal.Pick(r, []string{"../root2/secret", "../host/file.txt", "existing.txt", "../decoy.txt", T+"/decoy.txt", "../root/existing.txt", "../rootx"})}
	case 7:
		return dop{Op: "ORemove", Name: name}
	case 8:
		return dop{Op: "OChmod", Name: name}
	default:
		return dop{Op: "OMknod", Name: name}
	}
}

// ---- hostile packages through the installer ----------------------------------------

type entry struct {
	Type byte   `json:"type"`
	Name string `json:"name"`
	Link string `json:"link,omitempty"`
	Data string `json:"data,omitempty"`
	Sum  bool   `json:"checksum_header"`
}

func buildTar(c *canary, es []entry) []byte {
	var buf bytes.Buffer
	tw := tar.NewWriter(&buf)
	for _, e := range es {
		h := &tar.Header{Name: e.Name, Typeflag: e.Type, Mode: 0o644, Linkname: c.concrete(e.Link), Format: tar.FormatPAX}
		switch e.Type {
		case tar.TypeDir:
			h.Mode = 0o755
		case tar.TypeReg:
			h.Size = int64(len(e.Data))
			if e.Sum {
				h.PAXRecords = map[string]string{"APK-TOOLS.checksum.SHA1": "da39a3ee5e6b4b0d3255bfef95601890afd80709"}
			}
		}
		if err := tw.WriteHeader(h); err != nil {
			continue
		}
		if e.Type == tar.TypeReg {
			_, _ = tw.Write([]byte(e.Data))
		}
	}
	_ = tw.Close()
	return buf.Bytes()
}

func entryOps(es []entry) []dop {
	var ops []dop
	for _, e := range es {
		switch e.Type {
		case tar.TypeDir:
			ops = append(ops, dop{Op: "OMkdirAll", Name: e.Name})
		case tar.TypeReg:
			ops = append(ops, dop{Op: "OCreate", Name: e.Name})
		case tar.TypeSymlink:
			ops = append(ops, dop{Op: "OSymlink", Name: e.Name, Target: e.Link})
		case tar.TypeLink:
			ops = append(ops, dop{Op: "OLink", Name: e.Name, Target: e.Link})
		}
	}
	return ops
}

func runInstallCase(w *gal.Writer, class, backend string, es []entry) {
	runInstallCaseX(w, class, backend, es, false)
}

func runInstallCaseX(w *gal.Writer, class, backend string, es []entry, exact bool) {
	c := newCanary()
	defer c.close()
	var f apkfs.FullFS
	switch backend {
	case "dirfs":
		f = apkfs.DirFS(filepath.Join(c.top, "root"))
	default:
		f = apkfs.NewMemFS()
	}
	var ierr error
	func() {
		defer func() {
			if r := recover(); r != nil {
				ierr = fmt.Errorf("panic: %v", r)
			}
		}()
		a, err := apk.New(apk.WithFS(f), apk.WithArch("x86_64"), apk.WithIgnoreMknodErrors(true))
		if err != nil {
			ierr = err
			return
		}
		_, ierr = apk.VerifInstallAPKFiles(context.Background(), a, bytes.NewReader(buildTar(c, es)), &apk.Package{Name: "hostile", Version: "1.0-r0", Origin: "hostile"})
	}()
	ops := entryOps(es)
	if backend != "dirfs" {
		ops = nil // an in-memory backend has no business touching the host at all
	}
	emitCanary(w, class+"-"+backend, ops, exact && backend == "dirfs", c.outsideChanges(),
		map[string]any{"entries": es, "backend": backend, "install_error": c.abstract(errStr(ierr)), "through": "installAPKFiles"})
}

func randomEntries(r *gal.Rand) []entry {
	n := 1 + r.Intn(4)
	var es []entry
	for i := 0; i < n; i++ {
		name := gal.Pick(r, inNames)
		if r.Chance(1, 2) {
			name = gal.Pick(r, upNames)
		}
		if strings.ContainsRune(name, 0) {
			name = "nul"
		}
		switch r.Intn(6) {
		case 0:
			es = append(es, entry{Type: tar.TypeDir, Name: name})
		case 1, 2:
			es = append(es, entry{Type: tar.TypeReg, Name: name, Data: "pkg data", Sum: r.Bool()})
		case 3, 4:
			es = append(es, entry{Type: tar.TypeSymlink, Name: gal.Pick(r, []string{"l", "l2", "a/l", "../sl"}),
				Link: gal.Pick(r, []string{T+"/host", "../host", T+"/root2", "..", T+"/outside/deep", "a"})})
		default:
			es = append(es, entry{Type: tar.TypeLink, Name: gal.Pick(r, []string{"stolen", "../stolen", "h"}),
				Link: gal.Pick(r, []string{"../root2/secret", "../host/file.txt", "existing.txt", "../decoy.txt", T+"/decoy.txt"})})
		}
	}
	return es
}

// ---- hostile URLs / ETags / key names through cache and keyring ----------------------

func runCacheCase(w *gal.Writer, keyURL string, etag []string) {
	c := newCanary()
	defer c.close()
	rt := &cannedRT{body: "KEY", etag: etag}
	var ierr error
	func() {
		defer func() {
			if r := recover(); r != nil {
				ierr = fmt.Errorf("panic: %v", r)
			}
		}()
		a, err := apk.New(apk.WithFS(apkfs.NewMemFS()), apk.WithArch("x86_64"), apk.WithTransport(rt),
			apk.WithCache(filepath.Join(c.top, "cache"), false, apk.NewCache(true)))
		if err != nil {
			ierr = err
			return
		}
		ierr = a.InitKeyring(context.Background(), []string{keyURL}, nil)
	}()
	changed := c.outsideChanges()
	ustr, path := "", ""
	if len(rt.seen) > 0 {
		ustr, _ = u2String(*rt.seen[0])
		path = rt.seen[0].Path
	}
	desc := map[string]any{"kind": "cache", "key_url": keyURL, "etag_header": etag, "request_path": path, "changed_outside": changed, "error": errStr(ierr)}
	term := fmt.Sprintf("(CCache {| q_root := %s; q_roots := %s; q_ustr := %s; q_path := %s; q_etag := %s; q_changed := %s |})",
		gal.Str(T+"/cache"), rootsTerm, gal.Str(ustr), gal.Str(path), gal.Opt(etag != nil, gal.StrList(etag)), gal.StrList(changed))
	w.Add(gal.Case{Term: term, Desc: desc, Class: "cache-keyring", Trivial: false})
	clock("cache-keyring")
}

var jwkN, jwkE string

func jwks(kid string) string {
	if jwkN == "" {
		k, err := rsa.GenerateKey(rand.Reader, 2048)
		if err != nil {
			panic(err)
		}
		jwkN = base64.RawURLEncoding.EncodeToString(k.N.Bytes())
		jwkE = base64.RawURLEncoding.EncodeToString(big.NewInt(int64(k.E)).Bytes())
	}
	b, _ := json.Marshal(map[string]any{"keys": []map[string]any{{"kty": "RSA", "kid": kid, "use": "sig", "alg": "RS256", "n": jwkN, "e": jwkE}}})
	return string(b)
}

// key discovery: the key id comes from the repository's JWKS document
func runDiscoveryCase(w *gal.Writer, backend, kid string) {
	c := newCanary()
	defer c.close()
	rt := &cannedRT{handler: func(req *http.Request) *http.Response {
		body := ""
		switch {
		case strings.HasSuffix(req.URL.Path, "/apk-configuration"):
			body = `{"jwks_uri":"https://repo.example/jwks"}`
		case req.URL.Path == "/jwks":
			body = jwks(kid)
		default:
			return nil
		}
		return &http.Response{StatusCode: 200, Status: "200 OK", Proto: "HTTP/1.1", ProtoMajor: 1, ProtoMinor: 1, Header: http.Header{},
			Body: io.NopCloser(strings.NewReader(body)), ContentLength: int64(len(body)), Request: req}
	}}
	var f apkfs.FullFS
	if backend == "dirfs" {
		f = apkfs.DirFS(filepath.Join(c.top, "root"))
		_ = f.MkdirAll("etc/apk/keys", 0o755)
	} else {
		f = apkfs.NewMemFS()
	}
	var ierr error
	func() {
		defer func() {
			if r := recover(); r != nil {
				ierr = fmt.Errorf("panic: %v", r)
			}
		}()
		a, err := apk.New(apk.WithFS(f), apk.WithArch("x86_64"), apk.WithTransport(rt))
		if err != nil {
			ierr = err
			return
		}
		ierr = apk.VerifFetchChainguardKeys(context.Background(), a, "https://repo.example/os")
	}()
	var ops []dop
	if backend == "dirfs" {
		// fetchChainguardKeys: a.fs.WriteFile(filepath.Join(keysDirPath, kid+".rsa.pub"), ...)
		ops = []dop{{Op: "OMkdirAll", Name: "etc/apk/keys"}, {Op: "OWriteFile", Name: filepath.Join("etc/apk/keys", kid+".rsa.pub")}}
	}
	emitCanary(w, "key-discovery-"+backend, ops, false, c.outsideChanges(), map[string]any{"kid": kid, "backend": backend, "error": errStr(ierr)})
}

// InitKeyring on the directory-backed filesystem: the key is stored under the
// base name of its location
func runKeyringDirfsCase(w *gal.Writer, element string) {
	c := newCanary()
	defer c.close()
	f := apkfs.DirFS(filepath.Join(c.top, "root"))
	_, err := initKeyringOn(f, element)
	emitKeyring(w, "keyring-dirfs", c, element, err, nil)
}

func stageCanary(w *gal.Writer, r *gal.Rand) {
	// -- corpus: the recorded findings and their confined neighbours --------------
	runDirfsCase(w, "dirfs-op", []dop{{Op: "OWriteFile", Name: "../escaped.txt"}}, true)                                    // C18-F1
	runDirfsCase(w, "dirfs-op", []dop{{Op: "OSymlink", Name: "l", Target: T+"/host"}, {Op: "OWriteFile", Name: "l/x"}}, false) // C18-F2
	runDirfsCase(w, "dirfs-op", []dop{{Op: "OSymlink", Name: "l2", Target: "../host"}, {Op: "OWriteFile", Name: "l2/y"}}, false)
	runDirfsCase(w, "dirfs-op", []dop{{Op: "OLink", Name: "stolen", Target: "../root2/secret"}}, false) // C18-F3
	runDirfsCase(w, "dirfs-op", []dop{{Op: "OLink", Name: "stolen", Target: "../host/file.txt"}}, false)
	runDirfsCase(w, "dirfs-op", []dop{{Op: "OMkdirAll", Name: "../d/e"}}, true)
	runDirfsCase(w, "dirfs-op", []dop{{Op: "OMkdir", Name: "../m"}}, true)
	runDirfsCase(w, "dirfs-op", []dop{{Op: "OSymlink", Name: "../sl", Target: "/etc/passwd"}}, true)
	runDirfsCase(w, "dirfs-op", []dop{{Op: "OChmod", Name: "../root2/secret"}}, true)
	runDirfsCase(w, "dirfs-op", []dop{{Op: "OCreate", Name: "../g"}}, false)
	runDirfsCase(w, "dirfs-op", []dop{{Op: "OMkdirAll", Name: "../d"}, {Op: "OCreate", Name: "../d/f"}}, false)
	runDirfsCase(w, "dirfs-op", []dop{{Op: "ORemove", Name: "../decoy.txt"}}, false)
	runDirfsCase(w, "dirfs-op", []dop{{Op: "OWriteFile", Name: "/etc-canary"}, {Op: "OWriteFile", Name: "a"}, {Op: "OMkdirAll", Name: "/x/y"}}, true)
	runDirfsCase(w, "dirfs-op", []dop{{Op: "OMknod", Name: "../node"}}, false)
	for i := 0; i < scale(40, 400); i++ {
		n := 1 + r.Intn(4)
		var ops []dop
		for j := 0; j < n; j++ {
			ops = append(ops, randomOp(r))
		}
		runDirfsCase(w, "dirfs-op", ops, false)
	}

	// -- hostile packages -----------------------------------------------------------
	corpus := [][]entry{
		{{Type: tar.TypeReg, Name: "../escaped.txt", Data: "x", Sum: true}},
		{{Type: tar.TypeReg, Name: "../escaped.txt", Data: "x"}},
		{{Type: tar.TypeDir, Name: "../d/e"}},
		{{Type: tar.TypeDir, Name: "../d"}, {Type: tar.TypeReg, Name: "../d/f", Data: "x", Sum: true}},
		{{Type: tar.TypeReg, Name: "/etc/c18-abs", Data: "x", Sum: true}},
		{{Type: tar.TypeDir, Name: "/abs-dir"}},
		{{Type: tar.TypeSymlink, Name: "l", Link: T+"/host"}, {Type: tar.TypeReg, Name: "l/x", Data: "x", Sum: true}},
		{{Type: tar.TypeSymlink, Name: "l", Link: T+"/host"}, {Type: tar.TypeDir, Name: "l/newdir"}},
		{{Type: tar.TypeSymlink, Name: "l2", Link: "../host"}, {Type: tar.TypeDir, Name: "l2/newdir"}},
		{{Type: tar.TypeSymlink, Name: "../sl", Link: "/etc/passwd"}},
		{{Type: tar.TypeLink, Name: "stolen", Link: "../root2/secret"}},
		{{Type: tar.TypeLink, Name: "stolen", Link: "../host/file.txt"}},
		{{Type: tar.TypeLink, Name: "stolen", Link: T+"/decoy.txt"}},
		{{Type: tar.TypeLink, Name: "../stolen", Link: "existing.txt"}},
		{{Type: tar.TypeDir, Name: "usr"}, {Type: tar.TypeReg, Name: "usr/ok", Data: "fine", Sum: true}},
	}
	for _, es := range corpus {
		runInstallCase(w, "install", "dirfs", es)
		runInstallCase(w, "install", "memfs", es)
	}
	for i := 0; i < scale(30, 300); i++ {
		es := randomEntries(r)
		runInstallCase(w, "install", "dirfs", es)
		if i%3 == 0 {
			runInstallCase(w, "install", "memfs", es)
		}
	}

	// -- hostile URLs, ETags and key names -------------------------------------------
	keyURLs := []string{"https://keys.example/keys/k.rsa.pub", "https://keys.example/..", "https://keys.example/../..", "https://keys.example/a/b/..",
		"https://keys.example/%2e%2e", "https://keys.example", "https://keys.example/", "https://keys.example/a/../../../../k.pub",
		"https://keys.example/a%2F..%2F..%2F..%2Fx", "https://keys.example/k?x=/../../y", "https://keys.example//", "https://keys.example/a/b/c/d/../../../.."}
	etags := [][]string{{`"abc"`}, {`"../../../out-of-cache"`}, {"/abs/etag"}, {".."}, {`"../APKINDEXfoo/x"`}, {long300}, nil, {""}, {"a\x00b"}, {"../../../../../../../../tmp/c18-etag"}}
	for _, ku := range keyURLs {
		for _, et := range etags[:scale(5, len(etags))] {
			runCacheCase(w, ku, et)
		}
	}
	for i := 0; i < scale(10, 150); i++ {
		hp := hostilePath(r)
		if strings.ContainsAny(hp, "\x00 ") {
			continue
		}
		if !strings.HasPrefix(hp, "/") {
			hp = "/" + hp
		}
		runCacheCase(w, "https://keys.example"+hp, gal.Pick(r, etags))
	}
	for _, tail := range []string{"/keys/k.rsa.pub", "/..", "/a/b/..", "/../../../../../k.pub", "/../../../../../../../../c18-key-escape", "/%2e%2e", "/k?x=/../../../../../../../y"} {
		runKeyringDirfsCase(w, "https://keys.example"+tail)
	}
	for _, kid := range []string{"good-key", "../../../../c18-kid", "../../../../host/kid", "/abs-kid", "..", "a/b", "x/../../../../../decoy"} {
		runDiscoveryCase(w, "dirfs", kid)
		runDiscoveryCase(w, "memfs", kid)
	}
	stageCanary2(w, r)
	stageCanary3(w, r)
	tb, _ := json.Marshal(classTime)
	fmt.Printf("STAT {\"seconds_per_experiment\": %s}\n", tb)
	fmt.Printf("STAT %s\n", `{"canary":"root/ cache/ tmp/ out/ + decoys (host/, root2/, cachefoo/, outside/, decoy.txt, hostlink); snapshot = path, type, permission bits, link count, content hash"}`)
}
