package main

// canary experiments, second part: hostile packages whose entry names climb out of the
// root (every entry type, through installAPKFiles and through the whole
// InstallPackages pipeline on the directory-backed, the in-memory and the lazy
// tar-backed filesystem), hostile key locations served by a real HTTP server and read
// from local paths, hostile package / index URLs through the disk cache, and the
// cache member named by a cached control section's datahash.

import (
	"archive/tar"
	"context"
	"crypto/sha1" //nolint:gosec
	"encoding/hex"
	"encoding/json"
	"fmt"
	"io"
	"net/http"
	"net/http/httptest"
	"os"
	"path/filepath"
	"strings"
	"sync"

	"chainguard.dev/apko/pkg/apk/apk"
	apkfs "chainguard.dev/apko/pkg/apk/fs"
	"chainguard.dev/apko/pkg/tarfs"

	"verifharness/gal"
	"verifharness/synthrepo"
)

// ---- names that climb ------------------------------------------------------------------

type hname struct {
	Name         string
	ParentExists bool // the directory the name lands in exists on the host
}

// nothing exists at any of these targets before the install
var climbNames = []hname{
	{"../c18-e1", true},
	{"../../c18-e2", true},
	{"../../../c18-e3", true},
	{"../../../../../c18-e5", true},
	{"../host/c18-new", true},        // an existing outside directory
	{"../root2/c18-new", true},       // the sibling whose name starts with the root's
	{"../../sib2/c18-new", true},     // a sibling two levels up
	{"../../../sib3/c18-new", true},  // ... three levels up
	{"../c18-newdir/sub/c18-new", false}, // a new outside directory
	{"../../c18-newdir2/c18-new", false},
	{"..//c18-e", true},
	{"./../c18-e", true},
	{".//..//c18-e", true},
	{"usr/../../c18-e", true},
	{"a/b/../../../c18-e", true},
	{"../root/../c18-e", true},
	{"../out/../../c18-e2", true},
}

// names that look hostile and stay inside
var stayNames = []hname{
	{"/c18-abs", true},
	{"/etc/c18-abs", false},
	{"//c18-dslash", true},
	{"/../c18-abs-up", true},
	{"../root/c18-back-in", true},
	{"usr/./../c18-ok", true},
	{"..a/c18-ok", false},
	{".../c18-ok", false},
}

func oneEntry(kind string, name string) []entry {
	switch kind {
	case "dir":
		return []entry{{Type: tar.TypeDir, Name: name}}
	case "reg":
		return []entry{{Type: tar.TypeReg, Name: name, Data: "package content", Sum: true}}
	case "reg-nosum":
		return []entry{{Type: tar.TypeReg, Name: name, Data: "package content"}}
	case "symlink":
		return []entry{{Type: tar.TypeSymlink, Name: name, Link: "existing.txt"}}
	default:
		return []entry{{Type: tar.TypeLink, Name: name, Link: "existing.txt"}}
	}
}

var entryKinds = []string{"reg", "reg-nosum", "dir", "symlink", "hardlink"}

// ---- the whole installer -------------------------------------------------------------------

type handle struct{ url, name, chk string }

func (h handle) URL() string            { return h.url }
func (h handle) PackageName() string    { return h.name }
func (h handle) ChecksumString() string { return h.chk }

func toFiles(c *canary, es []entry) []synthrepo.File {
	var fs []synthrepo.File
	for _, e := range es {
		f := synthrepo.File{Name: e.Name, Type: e.Type, Mode: 0o644, Linkname: c.concrete(e.Link), Content: []byte(e.Data), NoChecksum: !e.Sum}
		if e.Type == tar.TypeDir {
			f.Mode = 0o755
		}
		fs = append(fs, f)
	}
	return fs
}

func backendFS(c *canary, backend string) apkfs.FullFS {
	switch backend {
	case "dirfs":
		return apkfs.DirFS(filepath.Join(c.top, "root"))
	case "tarfs":
		return tarfs.New()
	default:
		return apkfs.NewMemFS()
	}
}

// installOps: the directory entries get a trailing slash from the tar writer
func pipelineOps(es []entry) []dop {
	ops := entryOps(es)
	for i := range ops {
		if ops[i].Op == "OMkdirAll" && !strings.HasSuffix(ops[i].Name, "/") {
			ops[i].Name += "/"
		}
	}
	return ops
}

// runPipelineCase: a signed-less .apk built from the entries, fetched from a local
// path, expanded (through the disk cache when cache is set: the second install is a
// cache hit and goes through cachedPackage) and installed by InstallPackages.
func runPipelineCase(w *gal.Writer, class, backend string, es []entry, cache bool, exact bool) {
	c := newCanary()
	defer c.close()
	p := &synthrepo.Pkg{Name: "hostile", Version: "1.0-r0", Origin: "hostile", Files: toFiles(c, es)}
	built, err := p.Build(nil)
	if err != nil {
		return // the tar writer refused the header (e.g. a NUL in the name): not an input apko can meet
	}
	src := filepath.Join(c.top, "tmp", "in", "x86_64")
	_ = os.MkdirAll(src, 0o755)
	apkPath := filepath.Join(src, built.Filename())
	_ = os.WriteFile(apkPath, built.Bytes, 0o644)
	rounds := 1
	if cache {
		rounds = 2
	}
	var errs []string
	for i := 0; i < rounds; i++ {
		var ierr error
		func() {
			defer func() {
				if r := recover(); r != nil {
					ierr = fmt.Errorf("panic: %v", r)
				}
			}()
			opts := []apk.Option{apk.WithFS(backendFS(c, backend)), apk.WithArch("x86_64"), apk.WithIgnoreMknodErrors(true)}
			if cache {
				opts = append(opts, apk.WithCache(filepath.Join(c.top, "cache"), false, apk.NewCache(false)))
			}
			a, err := apk.New(opts...)
			if err != nil {
				ierr = err
				return
			}
			ctx := context.Background()
			if ierr = a.InitDB(ctx); ierr != nil {
				return
			}
			// a fresh handle URL per round would defeat the process-wide expansion memo; the
			// second round of a cached case is meant to hit it or the disk cache
			_, ierr = a.InstallPackages(ctx, nil, []apk.InstallablePackage{handle{apkPath, "hostile", built.Checksum()}})
		}()
		errs = append(errs, c.abstract(errStr(ierr)))
		if backend == "dirfs" {
			break // a second install onto the same directory meets its own files
		}
	}
	ops := pipelineOps(es)
	if backend != "dirfs" {
		ops = nil // an in-memory backend has no business touching the host at all
	}
	emitCanary(w, class+"-"+backend, ops, exact && backend == "dirfs", c.outsideChanges(),
		map[string]any{"entries": es, "backend": backend, "disk_cache": cache, "install_errors": errs, "through": "InstallPackages"})
}

// ---- key locations ---------------------------------------------------------------------------

// one HTTP server for the stage: every path answers with a key body; the ETag header
// (raw, possibly several values) is set per case
var (
	srvOnce sync.Once
	srv     *httptest.Server
	srvMu   sync.Mutex
	srvEtag []string
	srvBody = []byte("KEY served by the canary")
	srvSeen []string
)

func server() *httptest.Server {
	srvOnce.Do(func() {
		srv = httptest.NewServer(http.HandlerFunc(func(rw http.ResponseWriter, req *http.Request) {
			srvMu.Lock()
			et, body := srvEtag, srvBody
			srvSeen = append(srvSeen, req.Method+" "+req.URL.EscapedPath())
			srvMu.Unlock()
			if et != nil {
				rw.Header()["Etag"] = et
			}
			rw.WriteHeader(200)
			if req.Method != http.MethodHead {
				_, _ = rw.Write(body)
			}
		}))
	})
	return srv
}

func serve(etag []string, body []byte) {
	srvMu.Lock()
	srvEtag, srvBody, srvSeen = etag, body, nil
	srvMu.Unlock()
}

// the server's address differs from run to run: cases name it keys.test
func abstractURL(s string) string {
	return strings.ReplaceAll(s, strings.TrimPrefix(server().URL, "http://"), "keys.test")
}

// last segments of key locations: percent-encoded separators and dot-dots, query
// strings, fragments, trailing slashes, backslashes. From etc/apk/keys four levels up
// is the parent of the root.
var keySegments = []string{
	"k.rsa.pub",
	"alpine-devel%40lists.alpinelinux.org-4a6a0840.rsa.pub",
	"..%2F..%2F..%2F..%2Fc18-k.rsa.pub",
	"..%2f..%2f..%2f..%2f..%2fc18-k.rsa.pub",
	"%2e%2e%2F%2e%2e%2F%2e%2e%2F%2e%2e%2Fc18-k.rsa.pub",
	"%2E%2E%2f%2E%2E%2f%2E%2E%2f%2E%2E%2f%2E%2E%2f%2E%2E%2fc18-k6.rsa.pub",
	"..%2F..%2F..%2F..%2Fhost%2Fc18-k.rsa.pub",
	"..%2F..%2F..%2F..%2Froot2%2Fc18-k.rsa.pub",
	"..%2F..%2F..%2F..%2Fc18-newkeys%2Fc18-k.rsa.pub",
	"%2Fc18-abs.rsa.pub",
	"%2F..%2F..%2F..%2F..%2Fc18-k.rsa.pub",
	"..%2F..%2F..%2Fc18-in-root.rsa.pub",
	"..%252F..%252F..%252F..%252Fc18-k.rsa.pub",
	"..%5C..%5C..%5C..%5Cc18-k.rsa.pub",
	`..\..\..\..\c18-k.rsa.pub`,
	"..%2F..%2F..%2F..%2Fc18-k.rsa.pub/",
	"keys/",
	"k.rsa.pub?x=/../../../../../c18-q",
	"k.rsa.pub?x=%2F..%2F..%2F..%2F..%2Fc18-q",
	"k.rsa.pub?..%2F..%2F..%2F..%2Fc18-q",
	"k.rsa.pub#/../../../../../c18-frag",
	"k.rsa.pub#..%2F..%2F..%2F..%2Fc18-frag",
	"..;/..;/..;/..;/c18-k.rsa.pub",
	"%2e%2e",
	"..%00%2F..%2F..%2F..%2Fc18-k",
	"...%2F...%2Fc18-k",
}

func emitKeyring(w *gal.Writer, class string, c *canary, element string, err error, extra map[string]any) {
	changed := c.outsideChanges()
	el := abstractURL(c.abstract(element))
	desc := map[string]any{"kind": "keyring", "experiment": class, "element": el, "changed_outside": changed, "error": abstractURL(c.abstract(errStr(err)))}
	for k, v := range extra {
		desc[k] = v
	}
	term := fmt.Sprintf("(CKeyring {| y_base := %s; y_roots := %s; y_element := %s; y_changed := %s |})",
		gal.Str(T+"/root"), rootsTerm, gal.Str(el), gal.StrList(changed))
	w.Add(gal.Case{Term: term, Desc: desc, Class: class, Trivial: false})
	clock(class)
}

func keyringOn(c *canary, f apkfs.FullFS, element string, cache bool) (err error) {
	defer func() {
		if r := recover(); r != nil {
			err = fmt.Errorf("panic: %v", r)
		}
	}()
	opts := []apk.Option{apk.WithFS(f), apk.WithArch("x86_64")}
	if cache {
		opts = append(opts, apk.WithCache(filepath.Join(c.top, "cache"), false, apk.NewCache(true)))
	}
	a, err := apk.New(opts...)
	if err != nil {
		return err
	}
	return a.InitKeyring(context.Background(), []string{element}, nil)
}

// a key URL served over HTTP, stored on the directory-backed filesystem
func runKeyURLCase(w *gal.Writer, seg string, etag []string, cache bool) {
	c := newCanary()
	defer c.close()
	serve(etag, []byte("KEY served by the canary"))
	element := server().URL + "/keys/" + seg
	err := keyringOn(c, apkfs.DirFS(filepath.Join(c.top, "root")), element, cache)
	emitKeyring(w, "keyring-url-dirfs", c, element, err, map[string]any{"etag_header": etag, "disk_cache": cache})
}

// a key read from a local path whose last segment is the hostile text itself
func runKeyFileCase(w *gal.Writer, seg string) {
	if strings.ContainsAny(seg, "/\x00") || seg == "" {
		return
	}
	c := newCanary()
	defer c.close()
	dir := filepath.Join(c.top, "tmp", "keysrc")
	_ = os.MkdirAll(dir, 0o755)
	element := filepath.Join(dir, seg)
	if seg != "." && seg != ".." {
		if err := os.WriteFile(element, []byte("KEY from a local path"), 0o644); err != nil {
			return
		}
	}
	element = dir + "/" + seg // filepath.Join would clean "%2e%2e"-free dot-dots away
	err := keyringOn(c, apkfs.DirFS(filepath.Join(c.top, "root")), element, false)
	emitKeyring(w, "keyring-file-dirfs", c, element, err, nil)
}

// key URLs published in alpine's releases.json (fetchAlpineKeys, reached through InitDB
// with an alpine build repository): the file name is url.PathUnescape(filepath.Base(url)),
// written with OpenFile — which asks the in-memory tree first
func runAlpineKeysCase(w *gal.Writer, backend, seg string) {
	c := newCanary()
	defer c.close()
	keyURL := "https://alpinelinux.org/keys/" + seg
	rel, _ := json.Marshal(map[string]any{"release_branches": []map[string]any{{"rel_branch": "v3.18",
		"keys": map[string]any{"x86_64": []map[string]any{{"url": keyURL}}}}}})
	rt := &cannedRT{handler: func(req *http.Request) *http.Response {
		body, st := "", 404
		switch {
		case req.URL.String() == "https://alpinelinux.org/releases.json":
			body, st = string(rel), 200
		case strings.HasPrefix(req.URL.Path, "/keys/"):
			body, st = "ALPINE KEY", 200
		}
		return &http.Response{StatusCode: st, Status: http.StatusText(st), Proto: "HTTP/1.1", ProtoMajor: 1, ProtoMinor: 1, Header: http.Header{},
			Body: io.NopCloser(strings.NewReader(body)), ContentLength: int64(len(body)), Request: req}
	}}
	var ierr error
	func() {
		defer func() {
			if r := recover(); r != nil {
				ierr = fmt.Errorf("panic: %v", r)
			}
		}()
		a, err := apk.New(apk.WithFS(backendFS(c, backend)), apk.WithArch("x86_64"), apk.WithIgnoreMknodErrors(true), apk.WithTransport(rt))
		if err != nil {
			ierr = err
			return
		}
		ierr = a.InitDB(context.Background(), "https://dl-cdn.alpinelinux.org/alpine/v3.18/main")
	}()
	emitCanary(w, "alpine-keys-"+backend, nil, false, c.outsideChanges(),
		map[string]any{"key_url": keyURL, "backend": backend, "error": c.abstract(errStr(ierr)), "requests": len(rt.seen)})
}

// ---- package and index URLs through the disk cache ----------------------------------------

var urlTails = []string{
	"/repo/x86_64/p-1.0-r0.apk",
	"/repo/x86_64/..%2F..%2F..%2F..%2Fc18-p.apk",
	"/repo/x86_64/../../../../c18-p.apk",
	"/repo/x86_64/%2e%2e/%2e%2e/%2e%2e/c18-p.apk",
	"/repo/..%2F..%2F../x86_64/c18-p.apk",
	"/..%2F..%2F..%2F..%2Fc18-p.apk",
	"/../../c18-p.apk",
	"/repo/x86_64/c18-p.apk?x=/../../../../../c18-q.apk",
	"/repo/x86_64/c18-p.apk#/../../../../../c18-f.apk",
	"/repo/x86_64/c18-p.apk/",
	"/repo/x86_64//c18-p.apk",
	`/repo/x86_64/..\..\..\..\c18-p.apk`,
	"/repo/x86_64/..%5C..%5C..%5Cc18-p.apk",
	"/repo/x86_64/.apk",
	"/repo/x86_64/...apk",
	"/..",
	"/../..",
}

func runFetchCase(w *gal.Writer, tail string, etag []string) {
	c := newCanary()
	defer c.close()
	serve(etag, []byte("not a package"))
	u := server().URL + tail
	var ierr error
	func() {
		defer func() {
			if r := recover(); r != nil {
				ierr = fmt.Errorf("panic: %v", r)
			}
		}()
		a, err := apk.New(apk.WithFS(apkfs.NewMemFS()), apk.WithArch("x86_64"),
			apk.WithCache(filepath.Join(c.top, "cache"), false, apk.NewCache(true)))
		if err != nil {
			ierr = err
			return
		}
		ctx := context.Background()
		rc, err := a.FetchPackage(ctx, fakePkg(u))
		if err == nil {
			_ = rc.Close()
		}
		ierr = err
		if ierr == nil {
			// and the whole expansion: cacheDirForPackage, ExpandApk into the cache directory
			_ = a.InitDB(ctx)
			_, ierr = a.InstallPackages(ctx, nil, []apk.InstallablePackage{handle{u, "p", "Q1" + "2jmj7l5rSw0yVb/vlWAYkK/YBwk="}})
		}
	}()
	emitCanary(w, "fetch-url-cache", nil, false, c.outsideChanges(),
		map[string]any{"url": abstractURL(u), "etag_header": etag, "error": abstractURL(c.abstract(errStr(ierr)))})
}

var repoTails = []string{
	"/repo",
	"/repo/../../..",
	"/repo%2F..%2F..%2F..%2F..",
	"/..%2F..%2F..%2F..%2Fc18-repo",
	"/repo?x=/../../../..",
	"/repo#/../../../..",
	"/repo/",
	"/repo//",
	`/repo\..\..\..`,
	"/..",
	"",
}

// an index fetched from a hostile repository URL (signature checking off: the index
// archive is a valid unsigned one), through the disk cache with ETags
func runIndexCase(w *gal.Writer, tail string, etag []string, index []byte) {
	c := newCanary()
	defer c.close()
	serve(etag, index)
	repo := server().URL + tail
	var ierr error
	func() {
		defer func() {
			if r := recover(); r != nil {
				ierr = fmt.Errorf("panic: %v", r)
			}
		}()
		a, err := apk.New(apk.WithFS(apkfs.NewMemFS()), apk.WithArch("x86_64"), apk.WithIgnoreIndexSignatures(true),
			apk.WithCache(filepath.Join(c.top, "cache"), false, apk.NewCache(true)))
		if err != nil {
			ierr = err
			return
		}
		ctx := context.Background()
		if ierr = a.InitDB(ctx); ierr != nil {
			return
		}
		if ierr = a.SetRepositories(ctx, []string{repo}); ierr != nil {
			return
		}
		_, ierr = a.GetRepositoryIndexes(ctx, true)
	}()
	emitCanary(w, "index-url-cache", nil, false, c.outsideChanges(),
		map[string]any{"repository": abstractURL(repo), "etag_header": etag, "error": abstractURL(c.abstract(errStr(ierr)))})
}

// ---- cachedPackage: the member named by the cached control section's datahash -----------------

// runMemberCase plants a control section whose .PKGINFO carries the given datahash in
// the package's cache directory, and (plant) a gzip'ed data section at the path
// cachedPackage will join from it — wherever that is — before the snapshot is taken.
// The package file itself is absent, so a cache miss ends in a failed fetch.
func runMemberCase(w *gal.Writer, datahash string, plant bool, fresh bool) {
	c := newCanary()
	defer c.close()
	p := &synthrepo.Pkg{Name: "member", Version: "1.0-r0", Origin: "member", NoDatahash: true,
		PkginfoExtra: "datahash = " + datahash + "\n",
		Files:        []synthrepo.File{{Name: "usr", Type: tar.TypeDir, Mode: 0o755}, {Name: "usr/member.txt", Mode: 0o644, Content: []byte("member")}}}
	if datahash == "<real>" {
		p.NoDatahash, p.PkginfoExtra = false, ""
	}
	built, err := p.Build(nil)
	if err != nil {
		return
	}
	if datahash == "<real>" {
		datahash = hex.EncodeToString(built.DataSHA256)
	} else if datahash == "<REAL>" {
		datahash = strings.ToUpper(hex.EncodeToString(built.DataSHA256))
		p.PkginfoExtra = "datahash = " + datahash + "\n"
		if built, err = p.Build(nil); err != nil {
			return
		}
	}
	src := filepath.Join(c.top, "tmp", "in", "x86_64")
	_ = os.MkdirAll(src, 0o755)
	apkPath := filepath.Join(src, built.Filename())
	h := handle{apkPath, "member", built.Checksum()}
	cacheDir, err := apk.VerifCacheDirForPackage(filepath.Join(c.top, "cache"), h)
	if err != nil {
		return
	}
	dat := filepath.Join(cacheDir, datahash+".dat.tar.gz")
	if fresh {
		_ = os.WriteFile(apkPath, built.Bytes, 0o644)
	} else {
		_ = os.MkdirAll(cacheDir, 0o755)
		sum := sha1.Sum(built.Control) //nolint:gosec
		_ = os.WriteFile(filepath.Join(cacheDir, hex.EncodeToString(sum[:])+".ctl.tar.gz"), built.Control, 0o644)
	}
	if plant && strings.HasPrefix(dat, c.outer+"/") {
		if os.MkdirAll(filepath.Dir(dat), 0o755) == nil {
			_ = os.WriteFile(dat, built.Data, 0o644)
		}
	}
	_, derr := os.Stat(dat)
	datExists := derr == nil
	tarFile := strings.TrimSuffix(dat, ".gz")
	_, terr := os.Lstat(tarFile)
	tarBefore := terr == nil
	c.snap = c.snapshot() // what was planted is part of the "before" picture
	var ierr error
	func() {
		defer func() {
			if r := recover(); r != nil {
				ierr = fmt.Errorf("panic: %v", r)
			}
		}()
		a, err := apk.New(apk.WithFS(apkfs.NewMemFS()), apk.WithArch("x86_64"), apk.WithIgnoreMknodErrors(true),
			apk.WithCache(filepath.Join(c.top, "cache"), false, apk.NewCache(false)))
		if err != nil {
			ierr = err
			return
		}
		ctx := context.Background()
		if ierr = a.InitDB(ctx); ierr != nil {
			return
		}
		_, ierr = a.InstallPackages(ctx, nil, []apk.InstallablePackage{h})
	}()
	_, terr = os.Lstat(tarFile)
	tarCreated := terr == nil && !tarBefore
	changed := c.outsideChanges()
	class := "cache-member-planted"
	if fresh {
		class = "cache-member-fresh"
	}
	desc := map[string]any{"kind": "cache-member", "experiment": class, "datahash": datahash, "member_path": c.abstract(dat), "member_planted": datExists,
		"tar_created": tarCreated, "changed_outside": changed, "error": c.abstract(errStr(ierr))}
	freshTerm := "None"
	if fresh {
		// accepted by verifyExpanded = cachePackage moved the control section into the cache
		// (the error text is no guide: InstallPackages reports either the expansion's own error
		// or the installer goroutine's "expansion of .. failed", whichever comes first)
		csum := sha1.Sum(built.Control) //nolint:gosec
		_, aerr := os.Stat(filepath.Join(cacheDir, hex.EncodeToString(csum[:])+".ctl.tar.gz"))
		accepted := aerr == nil
		desc["verify_accepted"] = accepted
		freshTerm = fmt.Sprintf("(Some (%s, %s))", gal.Str(hex.EncodeToString(built.DataSHA256)), gal.Bool(accepted))
	}
	term := fmt.Sprintf("(CMember {| m_cachedir := %s; m_roots := %s; m_datahash := %s; m_dat_exists := %s; m_tar_created := %s; m_fresh := %s; m_changed := %s |})",
		gal.Str(c.abstract(cacheDir)), rootsTerm, gal.Str(datahash), gal.Bool(datExists && !fresh), gal.Bool(tarCreated), freshTerm, gal.StrList(changed))
	w.Add(gal.Case{Term: term, Desc: desc, Class: class, Trivial: false})
	clock(class)
}

func stageCanary2(w *gal.Writer, r *gal.Rand) {
	// -- every entry type under every climbing name, one entry per package -------------
	for _, n := range append(append([]hname{}, climbNames...), stayNames...) {
		for _, k := range entryKinds {
			es := oneEntry(k, n.Name)
			exact := k == "dir" || (k == "symlink" && n.ParentExists)
			runInstallCaseX(w, "install-climb", "dirfs", es, exact)
		}
	}
	// the same through the whole pipeline: InstallPackages on the directory-backed
	// filesystem (streaming installer), on tarfs (lazy installer) and in memory
	names := append(append([]hname{}, climbNames...), stayNames...)
	for i, n := range names {
		for j, k := range entryKinds {
			if !thorough() && (i+j)%3 != 0 {
				continue
			}
			es := oneEntry(k, n.Name)
			exact := k == "dir" || (k == "symlink" && n.ParentExists)
			runPipelineCase(w, "pipeline-climb", "dirfs", es, (i+j)%2 == 0, exact)
			if thorough() || (i+j)%6 == 0 {
				runPipelineCase(w, "pipeline-climb", "tarfs", es, (i+j)%4 == 0, false)
				runPipelineCase(w, "pipeline-climb", "memfs", es, (i+j)%4 != 0, false)
			}
		}
	}
	// packages of several hostile entries
	for i := 0; i < scale(12, 400); i++ {
		es := randomEntries(r)
		runPipelineCase(w, "pipeline", gal.Pick(r, []string{"dirfs", "dirfs", "tarfs", "memfs"}), es, r.Bool(), false)
	}

	// -- key locations ---------------------------------------------------------------------
	etags := [][]string{{`"abc"`}, nil, {`"../../../../../c18-etag"`}, {"..%2F..%2F..%2Fc18-etag"}, {`W/"..\..\c18-etag"`},
		{"/abs/c18-etag"}, {`"a"`, `"../../../../c18-second"`}, {"..", "."}, {long300 + "/../../../../c18-etag"}, {`"%2e%2e%2f%2e%2e%2fc18-etag"`}}
	// (a header value with a NUL is not something an HTTP server can send: the canned-transport cases above carry that one)
	for i, seg := range keySegments {
		runKeyURLCase(w, seg, etags[i%len(etags)], false)
		runKeyFileCase(w, seg)
		for j, et := range etags {
			if thorough() || j == (i+1)%len(etags) {
				runKeyURLCase(w, seg, et, true)
			}
		}
	}
	for _, seg := range keySegments {
		runAlpineKeysCase(w, "dirfs", seg)
	}
	runAlpineKeysCase(w, "memfs", keySegments[2])
	// -- package and index URLs through the disk cache -------------------------------------
	for i, t := range urlTails {
		runFetchCase(w, t, etags[i%len(etags)])
	}
	whole, _, err := synthrepo.IndexArchive("", nil, "")
	if err != nil || whole == nil {
		whole = []byte{}
	}
	for i, t := range repoTails {
		runIndexCase(w, t, etags[i%len(etags)], whole)
	}

	// -- the cache member named by a cached datahash ------------------------------------------
	up := "../../../../" // <cache>/<repo>/<arch>/<name-version> is four levels below T
	for _, dh := range []string{"<real>", "<REAL>", "", "00", "0", "zz", "abcdef", "ABCDEF0123", up + "outside/deep/c18", up + "outside/deep/file", up + "decoy.txt",
		"../sibling", "..", ".", "../../../cachefoo/b", "/abs", "a/b", "ab/cd", "..%2F..%2Fx", `..\..\x`, "00/../../../../../outside/deep/c18", up + "host/00", up + "../up2"} {
		runMemberCase(w, dh, true, false)
		runMemberCase(w, dh, false, false)
		if dh != "<real>" { // a fresh install of a well-formed package is what the pipeline cases do
			runMemberCase(w, dh, true, true)
		}
	}
}
