package main

// canary experiments, third part: dirFS on a host that has a parent directory, judged
// by the operational model Model/ConfineHost.v (overlay + kernel path resolution).
//
// The class of histories: a relative symbolic link, made at depth 0..2 below the root,
// whose target climbs 0..3 levels above the root ("../"*(depth+k) + "victim"), with host
// directories called "victim" at EVERY place such a target can name in the canary tree
// (T/victim, n7/victim, n6/victim, n5/victim — and root/victim when asked for), with and
// without an in-root directory at the place the in-memory tree's lexical reading of the
// target names, reached directly or through a detour (d1/d2/up -> ../..) that makes the
// names traversed longer than the physical depth, with clean and unclean (a/../..) and
// absolute targets, followed by every kind of operation beneath the link: regular file
// (Create), Remove, directory, hard link (new and old name beneath), WriteFile, Chmod,
// Mknod, Symlink.  As direct dirFS operation sequences (answers compared one by one)
// and as package entries through the installer.

import (
	"archive/tar"
	"bytes"
	"context"
	"fmt"
	"os"
	"path/filepath"
	"sort"
	"strings"

	"chainguard.dev/apko/pkg/apk/apk"
	apkfs "chainguard.dev/apko/pkg/apk/fs"

	"verifharness/gal"
)

// victims: a host directory (with a file to remove / link / chmod) at every level a
// climbing target can reach
func (c *canary) addVictims() {
	for _, d := range []string{"victim", "../victim", "../../victim", "../../../victim"} {
		_ = os.MkdirAll(filepath.Join(c.top, d), 0o755)
		_ = os.WriteFile(filepath.Join(c.top, d, "keep.txt"), []byte("host data "+d), 0o644)
	}
	c.snap = c.snapshot()
}

// allChanges: every path (abstract) whose snapshot entry differs
func (c *canary) allChanges() []string {
	after := c.snapshot()
	set := map[string]bool{}
	for p, d := range after {
		if c.snap[p] != d {
			set[p] = true
		}
	}
	for p := range c.snap {
		if _, ok := after[p]; !ok {
			set[p] = true
		}
	}
	// a mirror of the canary's own absolute path below the root is called O/... there
	mirror := filepath.Join(nest, "T", "root") + c.outer
	var out []string
	for p := range set {
		if p == "." {
			continue
		}
		if strings.HasPrefix(mirror, p+"/") && strings.HasPrefix(p, filepath.Join(nest, "T", "root")+"/") {
			continue // the directories above the mirror: one directory, O, in abstract terms
		}
		if p == mirror || strings.HasPrefix(p, mirror+"/") {
			p = filepath.Join(nest, "T", "root", "O") + p[len(mirror):]
		}
		out = append(out, "/O/"+p)
	}
	sort.Strings(out)
	return out
}

// dumpHost prints the directory as a tnode term (names sorted; link targets abstract)
func (c *canary) dumpHost(dir string) string {
	es, err := os.ReadDir(dir)
	if err != nil {
		return "(TDir [])"
	}
	var items []string
	for _, e := range es {
		p := filepath.Join(dir, e.Name())
		fi, err := os.Lstat(p)
		if err != nil {
			continue
		}
		var t string
		switch {
		case fi.Mode()&os.ModeSymlink != 0:
			target, _ := os.Readlink(p)
			t = "(TLink " + gal.Str(c.abstract(target)) + ")"
		case fi.IsDir():
			t = c.dumpHost(p)
		default:
			t = "TFile"
		}
		items = append(items, gal.Pair(gal.Str(e.Name()), t))
	}
	return "(TDir " + gal.List(items) + ")"
}

// a name that starts with "O/" mirrors the canary's own absolute path below the root
func (c *canary) concreteName(n string) string {
	if strings.HasPrefix(n, "O/") {
		return strings.TrimPrefix(c.outer, "/") + n[1:]
	}
	return n
}

// hostCtor: CHost (the model must give the same answers and changes) or CHostCI (the
// case-insensitive mode: the host calls are a subset of the model's)
var hostCtor = "CHost"

// hostView: the fresh DirFS's own picture of the root ("None": not looked at)
var hostView = "None"

func emitHost(w *gal.Writer, class string, c *canary, tree string, stop bool, ops []dop, answers []bool, changed []string, extra map[string]any) {
	var ts []string
	for _, o := range ops {
		ts = append(ts, o.term())
	}
	var outside []string
	for _, p := range changed {
		in := false
		for _, d := range designated {
			dd := T + "/" + d
			if p == dd || strings.HasPrefix(p, dd+"/") {
				in = true
			}
		}
		if !in {
			outside = append(outside, p)
		}
	}
	desc := map[string]any{"kind": "canary-host-model", "experiment": class, "ops": ops, "changed_outside": outside, "changed": changed}
	for k, v := range extra {
		desc[k] = v
	}
	ans := "None"
	if answers != nil {
		var bs []string
		for _, a := range answers {
			bs = append(bs, gal.Bool(a))
		}
		ans = "(Some " + gal.List(bs) + ")"
		desc["answers"] = answers
	}
	term := fmt.Sprintf("("+hostCtor+" {| hc_base := %s; hc_roots := %s; hc_tree := %s; hc_stop := %s; hc_ops := %s; hc_answers := %s; hc_view := %s; hc_changed := %s |})",
		gal.Str(T+"/root"), rootsTerm, tree, gal.Bool(stop), gal.List(ts), ans, hostView, gal.StrList(changed))
	w.Add(gal.Case{Term: term, Desc: desc, Class: class, Trivial: len(ops) == 0})
	clock(class)
}

// direct operations on DirFS(root)
func runHostCase(w *gal.Writer, class string, ops []dop, opts ...apkfs.DirFSOption) {
	c := newCanary()
	defer c.close()
	c.addVictims()
	tree := c.dumpHost(c.outer)
	f := apkfs.DirFS(filepath.Join(c.top, "root"), opts...)
	var answers []bool
	var errs []string
	for _, o := range ops {
		oo := o
		oo.Name = c.concreteName(o.Name)
		err := applyOp(c, f, oo)
		answers = append(answers, err == nil)
		errs = append(errs, c.abstract(errStr(err)))
	}
	emitHost(w, class, c, tree, false, ops, answers, c.allChanges(), map[string]any{"errors": errs})
}

// the same history as package entries through installAPKFiles
func runHostInstallCase(w *gal.Writer, class string, es []entry) {
	c := newCanary()
	defer c.close()
	c.addVictims()
	tree := c.dumpHost(c.outer)
	f := apkfs.DirFS(filepath.Join(c.top, "root"))
	var ierr error
	func() {
		defer func() {
			if r := recover(); r != nil {
				ierr = fmt.Errorf("panic: %v", r)
			}
		}()
		a, err := apk.New(apk.WithFS(f), apk.WithArch("x86_64"), apk.WithIgnoreMknodErrors(true))
		if err != nil {
			ierr = err
			return
		}
		real := append([]entry{}, es...)
		for i := range real {
			real[i].Name = c.concreteName(real[i].Name)
		}
		_, ierr = apk.VerifInstallAPKFiles(context.Background(), a, bytes.NewReader(buildTar(c, real)), &apk.Package{Name: "hostile", Version: "1.0-r0", Origin: "hostile"})
	}()
	emitHost(w, class, c, tree, true, entryOps(es), nil, c.allChanges(),
		map[string]any{"entries": es, "install_error": c.abstract(errStr(ierr)), "through": "installAPKFiles"})
}

// ---- a DirFS opened on a root that already has content ---------------------------------------

// dumpView prints what a filesystem says about itself: ReadDir recursively (the entry types
// of a dirFS come from its in-memory tree), Readlink for links; never through a link
func (c *canary) dumpView(f apkfs.FullFS, dir string) string {
	es, err := f.ReadDir(dir)
	if err != nil {
		return "(TDir [])"
	}
	var items []string
	for _, e := range es {
		p := filepath.Join(dir, e.Name())
		var t string
		switch {
		case e.Type()&os.ModeSymlink != 0:
			target, _ := f.Readlink(p)
			t = "(TLink " + gal.Str(c.abstract(target)) + ")"
		case e.Type()&os.ModeDir != 0:
			t = c.dumpView(f, p)
		default:
			t = "TFile"
		}
		items = append(items, gal.Pair(gal.Str(e.Name()), t))
	}
	return "(TDir " + gal.List(items) + ")"
}

// what an earlier run (or an unpacked rootfs) left in the root: links of every kind of the
// climb-link class, directories, files, a hard link
var preContent = []dop{
	{Op: "OMkdirAll", Name: "usr/lib"}, {Op: "OMkdirAll", Name: "opt/sub"}, {Op: "OMkdirAll", Name: "var/spool"},
	{Op: "OWriteFile", Name: "usr/f"}, {Op: "OLink", Name: "usr/fh", Target: "usr/f"},
	{Op: "OSymlink", Name: "labs", Target: T + "/victim"},         // absolute, to a host directory
	{Op: "OSymlink", Name: "lrel", Target: "../victim"},           // relative, climbing from depth 0
	{Op: "OSymlink", Name: "opt/lrel2", Target: "../../victim"},   // ... from depth 1
	{Op: "OSymlink", Name: "opt/sub/lrel3", Target: "../../../../victim"}, // ... two levels above the root
	{Op: "OSymlink", Name: "var/spool/job", Target: "../../../victim/keep.txt"}, // to a host FILE
	{Op: "OSymlink", Name: "ldang", Target: "nowhere/x"},          // dangling
	{Op: "OSymlink", Name: "lin", Target: "usr"},                  // to an in-root directory
	{Op: "OSymlink", Name: "usr/lib64", Target: "lib"},
	{Op: "OSymlink", Name: "lfile", Target: "existing.txt"},       // to an in-root file
	{Op: "OSymlink", Name: "lloop", Target: "lloop"},
	{Op: "OSymlink", Name: "opt/lup", Target: ".."},               // to the root itself
}

var preLinks = []string{"labs", "lrel", "opt/lrel2", "opt/sub/lrel3", "ldang", "lin", "usr/lib64", "opt/lup", "lloop"}

// populate the root with plain os calls (how == "os") or through an earlier DirFS session
// of the same experiment (how == "dirfs"), optionally with an in-root /victim
func (c *canary) populate(how string, content []dop, inRootVictim bool) {
	root := filepath.Join(c.top, "root")
	if inRootVictim {
		content = append([]dop{{Op: "OMkdirAll", Name: "victim"}, {Op: "OWriteFile", Name: "victim/keep.txt"}}, content...)
	}
	if how == "dirfs" {
		f := apkfs.DirFS(root)
		for _, o := range content {
			_ = applyOp(c, f, o)
		}
	} else {
		for _, o := range content {
			p := filepath.Join(root, o.Name)
			switch o.Op {
			case "OMkdirAll":
				_ = os.MkdirAll(p, 0o755)
			case "OWriteFile":
				_ = os.WriteFile(p, []byte("left by an earlier run"), 0o644)
			case "OSymlink":
				_ = os.Symlink(c.concrete(o.Target), p)
			case "OLink":
				_ = os.Link(filepath.Join(root, o.Target), p)
			}
		}
	}
	c.snap = c.snapshot()
}

// operations (or package entries) through a FRESH DirFS on the populated root
func runPreCase(w *gal.Writer, class, how string, content []dop, inRootVictim bool, ops []dop, install bool) {
	c := newCanary()
	defer c.close()
	c.addVictims()
	c.populate(how, content, inRootVictim)
	tree := c.dumpHost(c.outer)
	f := apkfs.DirFS(filepath.Join(c.top, "root"))
	hostView = "(Some " + c.dumpView(f, ".") + ")"
	defer func() { hostView = "None" }()
	extra := map[string]any{"populated_by": how, "in_root_victim": inRootVictim, "content_before_the_fresh_dirfs": content}
	if install {
		var es []entry
		for _, o := range ops {
			switch o.Op {
			case "OMkdirAll":
				es = append(es, entry{Type: tar.TypeDir, Name: o.Name})
			case "OCreate":
				es = append(es, entry{Type: tar.TypeReg, Name: o.Name, Data: "package content", Sum: true})
			case "OSymlink":
				es = append(es, entry{Type: tar.TypeSymlink, Name: o.Name, Link: o.Target})
			case "OLink":
				es = append(es, entry{Type: tar.TypeLink, Name: o.Name, Link: o.Target})
			}
		}
		var ierr error
		func() {
			defer func() {
				if r := recover(); r != nil {
					ierr = fmt.Errorf("panic: %v", r)
				}
			}()
			a, err := apk.New(apk.WithFS(f), apk.WithArch("x86_64"), apk.WithIgnoreMknodErrors(true))
			if err != nil {
				ierr = err
				return
			}
			_, ierr = apk.VerifInstallAPKFiles(context.Background(), a, bytes.NewReader(buildTar(c, es)), &apk.Package{Name: "second-run", Version: "1.0-r0", Origin: "second-run"})
		}()
		extra["entries"], extra["install_error"], extra["through"] = es, c.abstract(errStr(ierr)), "installAPKFiles"
		emitHost(w, class+"-install", c, tree, true, entryOps(es), nil, c.allChanges(), extra)
		return
	}
	var answers []bool
	var errs []string
	for _, o := range ops {
		err := applyOp(c, f, o)
		answers = append(answers, err == nil)
		errs = append(errs, c.abstract(errStr(err)))
	}
	extra["errors"] = errs
	emitHost(w, class, c, tree, false, ops, answers, c.allChanges(), extra)
}

// what a second run does beneath and at a name left by the first (the hard-linked pair usr/f, usr/fh is
// mirrored and looked at but not written: the model keeps no link counts, a hard link is a copy there)
func preOps(r *gal.Rand, treeFirstOnly bool) []dop {
	n := 1 + r.Intn(4)
	var ops []dop
	for i := 0; i < n; i++ {
		l := gal.Pick(r, preLinks)
		k := r.Intn(12)
		if treeFirstOnly {
			k = r.Intn(4)
		}
		switch k {
		case 0, 1:
			ops = append(ops, dop{Op: "OCreate", Name: l + "/job"})
		case 2:
			ops = append(ops, dop{Op: "ORemove", Name: l + "/keep.txt"})
		case 3:
			ops = append(ops, dop{Op: "OCreate", Name: gal.Pick(r, []string{"var/spool/job", "lfile", "ldang", "usr/lib64/x"})})
		case 4:
			ops = append(ops, dop{Op: "OMkdirAll", Name: l + "/newdir"})
		case 5:
			ops = append(ops, dop{Op: "OWriteFile", Name: l + "/w.txt"})
		case 6:
			ops = append(ops, dop{Op: "ORemove", Name: l})
		case 7:
			ops = append(ops, dop{Op: "OSymlink", Name: l, Target: "usr"})
		case 8:
			ops = append(ops, dop{Op: "OLink", Name: "stolen", Target: l + "/keep.txt"})
		case 9:
			ops = append(ops, dop{Op: "OChmod", Name: l + "/keep.txt"})
		case 10:
			ops = append(ops, dop{Op: "OMkdir", Name: l + "/d"})
		default:
			ops = append(ops, dop{Op: "OWriteFile", Name: gal.Pick(r, []string{"var/spool/job", "lfile", "usr/new"})})
		}
	}
	return ops
}

func stagePreexisting(w *gal.Writer, r *gal.Rand) {
	// the shape of seeded C18-7: a link to a host directory left in the root, a file beneath it
	for _, how := range []string{"os", "dirfs"} {
		runPreCase(w, "preexisting", how, []dop{{Op: "OMkdirAll", Name: "var"}, {Op: "OSymlink", Name: "var/spool", Target: T + "/victim"}}, false,
			[]dop{{Op: "OCreate", Name: "var/spool/job"}}, false)
		runPreCase(w, "preexisting", how, []dop{{Op: "OMkdirAll", Name: "var"}, {Op: "OSymlink", Name: "var/spool", Target: "../../victim"}}, false,
			[]dop{{Op: "OCreate", Name: "var/spool/job"}}, true)
		// every link of the content, a file beneath it and a removal beneath it
		for _, in := range []bool{false, true} {
			var ops []dop
			for _, l := range preLinks {
				ops = append(ops, dop{Op: "OCreate", Name: l + "/job"}, dop{Op: "ORemove", Name: l + "/keep.txt"})
			}
			ops = append(ops, dop{Op: "OCreate", Name: "var/spool/job"}, dop{Op: "OCreate", Name: "lfile"}, dop{Op: "OCreate", Name: "ldang"})
			runPreCase(w, "preexisting", how, preContent, in, ops, false)
		}
		for i, l := range preLinks {
			if !thorough() && i%3 != 0 {
				continue // quick tier: a third of the links as package entries (all of them directly, above)
			}
			runPreCase(w, "preexisting", how, preContent, true, []dop{{Op: "OCreate", Name: l + "/job"}}, true)
		}
	}
	// the host-first methods beneath a link left there are finding C18-F2, as beneath one made in the session
	runPreCase(w, "preexisting-beneath", "os", preContent, true, []dop{{Op: "OWriteFile", Name: "labs/w.txt"}, {Op: "OMkdirAll", Name: "lrel/newdir"},
		{Op: "OLink", Name: "stolen", Target: "opt/lrel2/keep.txt"}, {Op: "OWriteFile", Name: "var/spool/job"}}, false)
	runPreCase(w, "preexisting-beneath", "os", preContent, true, []dop{{Op: "ORemove", Name: "labs"}, {Op: "OMkdirAll", Name: "labs"}, {Op: "OCreate", Name: "labs/job"},
		{Op: "OSymlink", Name: "lrel", Target: "usr"}, {Op: "OCreate", Name: "usr/lib64/x"}, {Op: "OCreate", Name: "opt/lup/usr/y"}}, false)
	for i := 0; i < scale(16, 400); i++ {
		how := gal.Pick(r, []string{"os", "dirfs"})
		runPreCase(w, "preexisting", how, preContent, r.Bool(), preOps(r, i%4 != 0), i%5 == 4)
	}
}

// ---- the class ----------------------------------------------------------------------------

type climb struct {
	Depth   int    // the link's directory: "", opt, opt/sub
	K       int    // levels above the root the target climbs (0: stays inside)
	InRoot  bool   // a directory (with keep.txt) where the in-memory tree's reading of the target lands
	Detour  bool   // reached through d1/d2/up -> ../..
	Shape   string // clean | unclean (a/../.. with a -> ..) | absolute
	Beneath []string
}

var linkDirs = []string{"", "opt", "opt/sub"}

var beneathKinds = []string{"create", "remove", "mkdirall", "mkdir", "write", "link-new", "link-old", "chmod", "mknod", "symlink", "create-final", "write-final"}

// tree-checked methods only: on the unchanged code these are refused whenever the link climbs
// (create-final: the link is the LAST component and names a file: memFS.openFile's own join)
var beneathTreeFirst = []string{"create", "remove", "create", "remove", "create-final"}

func (s climb) ops() []dop {
	var ops []dop
	ld := linkDirs[s.Depth]
	if ld != "" {
		ops = append(ops, dop{Op: "OMkdirAll", Name: ld})
	}
	link := filepath.Join(ld, "data")
	access := link
	if s.Detour {
		ops = append(ops, dop{Op: "OMkdirAll", Name: "d1/d2"}, dop{Op: "OSymlink", Name: "d1/d2/up", Target: "../.."})
		access = "d1/d2/up/" + link
	}
	up := strings.Repeat("../", s.Depth+s.K)
	target := up + "victim"
	switch s.Shape {
	case "unclean":
		// a -> .. is the link directory's parent; the kernel takes a/.. from THERE
		ops = append(ops, dop{Op: "OSymlink", Name: filepath.Join(ld, "a"), Target: ".."})
		target = "a/" + up + "victim"
	case "absolute":
		target = T + "/" + strings.Repeat("../", max(s.K-1, 0)) + "victim"
		target = filepath.Clean(target)
	}
	// where the in-memory tree's reading of the target lands: filepath.Join of the names
	// traversed and the target, from the root (absolute: the same path below the root)
	var mem string
	if s.Shape == "absolute" {
		mem = "O" + strings.TrimPrefix(target, "/O")
	} else {
		mem = strings.TrimPrefix(filepath.Clean("/"+filepath.Join(filepath.Dir(access), target)), "/")
	}
	if s.InRoot && mem != "" {
		ops = append(ops, dop{Op: "OMkdirAll", Name: mem}, dop{Op: "OWriteFile", Name: mem + "/keep.txt"})
	}
	ops = append(ops, dop{Op: "OSymlink", Name: link, Target: target})
	for _, b := range s.Beneath {
		switch b {
		case "create":
			ops = append(ops, dop{Op: "OCreate", Name: access + "/pwned.txt"})
		case "remove":
			ops = append(ops, dop{Op: "ORemove", Name: access + "/keep.txt"})
		case "mkdirall":
			ops = append(ops, dop{Op: "OMkdirAll", Name: access + "/newdir/sub"})
		case "mkdir":
			ops = append(ops, dop{Op: "OMkdir", Name: access + "/onedir"})
		case "write":
			ops = append(ops, dop{Op: "OWriteFile", Name: access + "/w.txt"})
		case "link-new":
			ops = append(ops, dop{Op: "OLink", Name: access + "/h", Target: "existing.txt"})
		case "link-old":
			ops = append(ops, dop{Op: "OLink", Name: "stolen", Target: access + "/keep.txt"})
		case "chmod":
			ops = append(ops, dop{Op: "OChmod", Name: access + "/keep.txt"})
		case "mknod":
			ops = append(ops, dop{Op: "OMknod", Name: access + "/node"})
		case "symlink":
			ops = append(ops, dop{Op: "OSymlink", Name: access + "/sl", Target: "existing.txt"})
		case "create-final", "write-final":
			// a second link next to the first, to the FILE keep.txt in the same place
			flink := filepath.Join(ld, "datafile")
			ops = append(ops, dop{Op: "OSymlink", Name: flink, Target: target + "/keep.txt"})
			op := "OCreate"
			if b == "write-final" {
				op = "OWriteFile"
			}
			ops = append(ops, dop{Op: op, Name: filepath.Join(filepath.Dir(access), "datafile")})
		}
	}
	return ops
}

// the same history as package entries (the kinds a package can carry)
func (s climb) entries() []entry {
	var es []entry
	for _, o := range s.ops() {
		switch o.Op {
		case "OMkdirAll", "OMkdir":
			es = append(es, entry{Type: tar.TypeDir, Name: o.Name})
		case "OWriteFile", "OCreate":
			if strings.HasSuffix(o.Name, "datafile") {
				// a regular-file entry whose name already resolves is not opened at all by the
				// installer (writeOneFile's Stat comes first): not this model's business
				continue
			}
			es = append(es, entry{Type: tar.TypeReg, Name: o.Name, Data: "package content", Sum: true})
		case "OSymlink":
			es = append(es, entry{Type: tar.TypeSymlink, Name: o.Name, Link: o.Target})
		case "OLink":
			es = append(es, entry{Type: tar.TypeLink, Name: o.Name, Link: o.Target})
		}
	}
	return es
}

func (s climb) class() string {
	c := "climb-link"
	if s.Detour {
		c += "-detour"
	}
	if s.Shape != "clean" {
		c += "-" + s.Shape
	}
	return c
}

func randomClimb(r *gal.Rand) climb {
	s := climb{Depth: r.Intn(3), K: r.Intn(4), InRoot: r.Chance(2, 3), Detour: r.Chance(1, 5), Shape: "clean"}
	switch r.Intn(12) {
	case 0:
		s.Shape = "unclean"
	case 1:
		s.Shape = "absolute"
		s.K = 1 + r.Intn(3)
	}
	n := 1 + r.Intn(3)
	for i := 0; i < n; i++ {
		if r.Chance(1, 8) {
			s.Beneath = append(s.Beneath, gal.Pick(r, beneathKinds))
		} else {
			s.Beneath = append(s.Beneath, gal.Pick(r, beneathTreeFirst))
		}
	}
	return s
}

func stageCanary3(w *gal.Writer, r *gal.Rand) {
	// -- corpus --------------------------------------------------------------------------------
	// the shape of seeded C18-4: opt/data -> ../../victim, an in-root /victim, a file beneath
	runHostCase(w, "climb-link", climb{Depth: 1, K: 1, InRoot: true, Shape: "clean", Beneath: []string{"create"}}.ops())
	runHostCase(w, "climb-link", climb{Depth: 1, K: 1, InRoot: true, Shape: "clean", Beneath: []string{"remove"}}.ops())
	runHostCase(w, "climb-link", climb{Depth: 1, K: 1, InRoot: false, Shape: "clean", Beneath: []string{"create", "remove"}}.ops())
	runHostInstallCase(w, "climb-link-install", climb{Depth: 1, K: 1, InRoot: true, Shape: "clean", Beneath: []string{"create"}}.entries())
	// every depth x every height, tree-checked operations beneath
	for d := 0; d < 3; d++ {
		for k := 0; k < 4; k++ {
			for _, in := range []bool{true, false} {
				if !thorough() && !in && (d+k)%2 == 1 {
					continue
				}
				runHostCase(w, "climb-link", climb{Depth: d, K: k, InRoot: in, Shape: "clean", Beneath: []string{"create", "remove"}}.ops())
			}
			if thorough() || (d+k)%2 == 0 {
				runHostInstallCase(w, "climb-link-install", climb{Depth: d, K: k, InRoot: true, Shape: "clean", Beneath: []string{"create"}}.entries())
			}
		}
	}
	// every kind of operation beneath a link one level above the root (the host-first ones
	// are finding C18-F2 today: the link names a host directory and the kernel follows it)
	for _, b := range beneathKinds {
		runHostCase(w, "climb-link-beneath", climb{Depth: 1, K: 1, InRoot: true, Shape: "clean", Beneath: []string{b}}.ops())
	}
	// the link as the LAST component, naming a file (memFS.openFile follows it with its own join)
	for k := 0; k < 3; k++ {
		runHostCase(w, "climb-link-final", climb{Depth: 1, K: k, InRoot: true, Shape: "clean", Beneath: []string{"create-final"}}.ops())
	}
	runHostCase(w, "climb-link-final", climb{Depth: 1, K: 1, InRoot: true, Shape: "clean", Beneath: []string{"write-final"}}.ops())
	runHostCase(w, "climb-link-final", climb{Depth: 0, K: 2, InRoot: true, Detour: true, Shape: "clean", Beneath: []string{"create-final"}}.ops())
	// what the in-memory tree accepts although the kernel leaves the base (finding C18-F6):
	// the detour makes the names traversed longer than the physical depth ...
	runHostCase(w, "climb-link-detour", climb{Depth: 0, K: 3, InRoot: true, Detour: true, Shape: "clean", Beneath: []string{"create"}}.ops())
	runHostCase(w, "climb-link-detour", climb{Depth: 0, K: 3, InRoot: true, Detour: true, Shape: "clean", Beneath: []string{"remove"}}.ops())
	runHostCase(w, "climb-link-detour", climb{Depth: 0, K: 2, InRoot: false, Detour: true, Shape: "clean", Beneath: []string{"create"}}.ops())
	runHostInstallCase(w, "climb-link-install", climb{Depth: 0, K: 3, InRoot: true, Detour: true, Shape: "clean", Beneath: []string{"create"}}.entries())
	// ... an unclean target cancels a name that is itself a link ...
	runHostCase(w, "climb-link-unclean", climb{Depth: 1, K: 0, InRoot: true, Shape: "unclean", Beneath: []string{"create"}}.ops())
	runHostCase(w, "climb-link-unclean", climb{Depth: 1, K: 0, InRoot: false, Shape: "unclean", Beneath: []string{"create"}}.ops())
	// ... an absolute target is taken from the tree's root in memory and from "/" by the kernel
	runHostCase(w, "climb-link-absolute", climb{Depth: 0, K: 1, InRoot: true, Shape: "absolute", Beneath: []string{"create"}}.ops())
	runHostCase(w, "climb-link-absolute", climb{Depth: 0, K: 1, InRoot: false, Shape: "absolute", Beneath: []string{"create", "write"}}.ops())
	// links that stay inside, and ordinary trees: the model agrees on every answer
	runHostCase(w, "climb-link", []dop{{Op: "OMkdirAll", Name: "usr/lib"}, {Op: "OSymlink", Name: "usr/lib64", Target: "lib"}, {Op: "OCreate", Name: "usr/lib64/x.so"},
		{Op: "OSymlink", Name: "lib", Target: "usr/lib"}, {Op: "OWriteFile", Name: "lib/y.so"}, {Op: "ORemove", Name: "usr/lib64/x.so"}, {Op: "OLink", Name: "usr/h", Target: "lib/y.so"}})
	runHostCase(w, "climb-link", []dop{{Op: "OSymlink", Name: "dangling", Target: "nowhere/x"}, {Op: "OCreate", Name: "dangling"}, {Op: "OMkdirAll", Name: "dangling/sub"},
		{Op: "OMkdir", Name: "existing.txt/d"}, {Op: "ORemove", Name: "existing.txt"}, {Op: "ORemove", Name: "existing.txt"}})
	runHostCase(w, "climb-link", []dop{{Op: "OSymlink", Name: "loop", Target: "loop"}, {Op: "OCreate", Name: "loop/x"}, {Op: "OWriteFile", Name: "loop"}, {Op: "OMkdirAll", Name: "a/b/c"},
		{Op: "OSymlink", Name: "a/b/up", Target: "../.."}, {Op: "OCreate", Name: "a/b/up/a/b/c/f"}, {Op: "OChmod", Name: "a/b/up/existing.txt"}})

	// -- the witnesses of Properties/C18.v (c18_dirfs_confined_refuted_operational), on the real dirFS
	runHostCase(w, "witness", []dop{{Op: "OWriteFile", Name: "../escaped.txt"}})
	runHostCase(w, "witness", []dop{{Op: "OSymlink", Name: "l", Target: T + "/victim"}, {Op: "OWriteFile", Name: "l/x"}})
	runHostCase(w, "witness", []dop{{Op: "OMkdirAll", Name: "p/victim"}, {Op: "OSymlink", Name: "p/a", Target: ".."}, {Op: "OSymlink", Name: "p/l", Target: "a/../victim"}, {Op: "OCreate", Name: "p/l/pwned.txt"}})
	runHostCase(w, "witness", []dop{{Op: "OMkdirAll", Name: "d1/d2"}, {Op: "OSymlink", Name: "d1/d2/up", Target: "../.."}, {Op: "OMkdirAll", Name: "d1/victim"},
		{Op: "OSymlink", Name: "d1/d2/up/l3", Target: "../../victim"}, {Op: "OCreate", Name: "d1/d2/up/l3/pwned.txt"}})
	runHostCase(w, "witness", []dop{{Op: "OMkdirAll", Name: "d1/d2"}, {Op: "OSymlink", Name: "d1/d2/up", Target: "../.."}, {Op: "OMkdirAll", Name: "d1/victim"}, {Op: "OWriteFile", Name: "d1/victim/keep.txt"},
		{Op: "OSymlink", Name: "d1/d2/up/l3", Target: "../../victim"}, {Op: "ORemove", Name: "d1/d2/up/l3/keep.txt"}})
	// a hard link to a symbolic link carries the target text into a shallower directory
	runHostCase(w, "witness", []dop{{Op: "OMkdirAll", Name: "usr/lib"}, {Op: "OMkdirAll", Name: "victim"}, {Op: "OWriteFile", Name: "victim/keep.txt"},
		{Op: "OSymlink", Name: "usr/lib/e", Target: "../../victim/keep.txt"}, {Op: "OLink", Name: "usr/h", Target: "usr/lib/e"}, {Op: "OCreate", Name: "usr/h"}, {Op: "OWriteFile", Name: "usr/h"}})
	// unclean names that stay inside (a/../b): the widened c18_dirfs_confined_operational
	runHostCase(w, "witness", []dop{{Op: "OMkdirAll", Name: "a/b"}, {Op: "OWriteFile", Name: "a/../c.txt"}, {Op: "OMkdir", Name: "a/b/../../d"}, {Op: "OCreate", Name: "a/./b/../e"},
		{Op: "OSymlink", Name: "a/../l", Target: "a"}, {Op: "ORemove", Name: "a/../c.txt"}, {Op: "OLink", Name: "a/b/../h", Target: "x/../d/../a/e"}})

	// -- the case-insensitive mode (caseMap), selected explicitly ------------------------------
	hostCtor = "CHostCI"
	ci := apkfs.DirFSWithCaseSensitive(false)
	runHostCase(w, "case-insensitive", climb{Depth: 1, K: 1, InRoot: true, Shape: "clean", Beneath: []string{"create", "remove"}}.ops(), ci)
	runHostCase(w, "case-insensitive", climb{Depth: 0, K: 3, InRoot: true, Detour: true, Shape: "clean", Beneath: []string{"create"}}.ops(), ci)
	runHostCase(w, "case-insensitive", []dop{{Op: "OWriteFile", Name: "../escaped.txt"}, {Op: "OWriteFile", Name: "../ESCAPED.txt"}, {Op: "OMkdirAll", Name: "../D/e"}, {Op: "OMkdirAll", Name: "../d/E"}}, ci)
	runHostCase(w, "case-insensitive", []dop{{Op: "OSymlink", Name: "l", Target: T + "/victim"}, {Op: "OWriteFile", Name: "l/x"}, {Op: "OWriteFile", Name: "L/x"}, {Op: "OWriteFile", Name: "l/X"},
		{Op: "OCreate", Name: "l/c"}, {Op: "OCreate", Name: "l/C"}, {Op: "ORemove", Name: "l/KEEP.txt"}, {Op: "ORemove", Name: "l/keep.txt"}}, ci)
	runHostCase(w, "case-insensitive", []dop{{Op: "OMkdirAll", Name: "Victim"}, {Op: "OMkdirAll", Name: "victim"}, {Op: "OSymlink", Name: "data", Target: "../victim"}, {Op: "OSymlink", Name: "DATA", Target: "../victim"},
		{Op: "OCreate", Name: "data/a"}, {Op: "OCreate", Name: "DATA/a"}, {Op: "OLink", Name: "stolen", Target: "data/keep.txt"}, {Op: "OLink", Name: "STOLEN", Target: "DATA/keep.txt"}, {Op: "OChmod", Name: "DATA/keep.txt"}}, ci)
	for i := 0; i < scale(12, 250); i++ {
		s := randomClimb(r)
		ops := s.ops()
		// some names again in another spelling: those go to memory only
		for j := range ops {
			if r.Chance(1, 5) {
				o := ops[j]
				o.Name = strings.ToUpper(o.Name)
				ops = append(ops, o)
			}
		}
		runHostCase(w, "case-insensitive", ops, ci)
	}
	hostCtor = "CHost"

	// -- a DirFS opened on a root that already has content ----------------------------------------
	stagePreexisting(w, r)

	// -- generated -----------------------------------------------------------------------------
	for i := 0; i < scale(45, 900); i++ {
		s := randomClimb(r)
		if i%4 == 3 {
			runHostInstallCase(w, s.class()+"-install", s.entries())
		} else {
			runHostCase(w, s.class(), s.ops())
		}
	}
}
