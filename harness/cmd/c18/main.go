// c18 harness — "nothing is written outside the designated roots".
//
//	-stage paths   runs the real path functions (filepath.*, sanitizePath,
//	               sanitizeArchivePath, etagFromResponse, cacheFileFromEtag,
//	               cachePathFromURL, cacheDirForPackage, InitKeyring's key naming,
//	               the key-name check, both in-memory trees) on hostile inputs and
//	               prints inputs + observed outputs for the Coq model/validators.
//	-stage canary  the canary-tree experiment: a temp directory holding
//	               root/ cache/ tmp/ out/ plus decoys is snapshotted before and
//	               after hostile operations on the directory-backed filesystem,
//	               hostile synthetic packages through the installer, and hostile
//	               URLs / ETags / key names through the cache and keyring code.
package main

import (
	"flag"
	"fmt"
	"os"
	"path/filepath"
	"strings"
	"time"

	"verifharness/gal"
)

var (
	outDir = flag.String("out", "", "cases directory")
	seed   = flag.Uint64("seed", 1, "seed")
	tier   = flag.String("tier", "quick", "quick|thorough")
	stage  = flag.String("stage", "paths", "paths|canary")
	replay = flag.String("replay", "", "unused")
)

func main() {
	flag.Parse()
	if *outDir == "" {
		fmt.Fprintln(os.Stderr, "need -out")
		os.Exit(2)
	}
	// a hanging implementation must not hang the check: report and stop
	limit := 150 * time.Second
	if thorough() {
		limit = 25 * time.Minute
	}
	go func() {
		time.Sleep(limit)
		fmtViolation("harness-watchdog/implementation-call-did-not-return", map[string]any{"stage": *stage, "limit_s": limit.Seconds()})
		os.Stdout.Sync()
		os.Exit(0)
	}()
	w := &gal.Writer{Dir: *outDir, Require: "From Apko Require Import Corr.C18.", Type: "c18case", Check: "check_c18", Shard: 400}
	r := gal.NewRand(*seed)
	switch *stage {
	case "paths":
		stagePaths(w, r)
	case "canary":
		stageCanary(w, r)
	case "canary3": // the host-model part of the canary stage alone (development aid)
		stageCanary3(w, r)
	default:
		fmt.Fprintln(os.Stderr, "unknown stage")
		os.Exit(2)
	}
	if err := w.Flush(); err != nil {
		fmt.Fprintln(os.Stderr, err)
		os.Exit(1)
	}
}

func thorough() bool { return *tier == "thorough" }

func scale(quick, thor int) int {
	if thorough() {
		return thor
	}
	return quick
}

// ---- hostile text -----------------------------------------------------------

var long300 = strings.Repeat("A", 300)

var pieces = []string{
	"..", "..", "..", ".", "", "a", "b", "c", "r", "r2", "etc", "x.apk", "APKINDEX.tar.gz", "APKINDEX",
	"%2e%2e", "%2F", "%00", "a b", "...", "..a", "a..", ".a", " ", "~", "-", "_", "+", "a:b", "a?b", "a#b",
	"\x00", "a\x00b", "\xc3\xa9", "\xff\xfe", "\xe2\x80\xa5", "keys", "cache", "cachefoo", "root2", "host", "*",
}

// hostilePath builds a '/'-separated name out of hostile pieces.
func hostilePath(r *gal.Rand) string {
	n := 1 + r.Intn(5)
	var sb strings.Builder
	if r.Chance(1, 4) {
		sb.WriteString("/")
		if r.Chance(1, 5) {
			sb.WriteString("/")
		}
	}
	for i := 0; i < n; i++ {
		if i > 0 {
			sb.WriteString("/")
			if r.Chance(1, 8) {
				sb.WriteString("/")
			}
		}
		if r.Chance(1, 40) {
			sb.WriteString(long300)
		} else {
			sb.WriteString(gal.Pick(r, pieces))
		}
	}
	switch r.Intn(10) {
	case 0:
		sb.WriteString("/")
	case 1:
		sb.WriteString("/.")
	case 2:
		sb.WriteString("/..")
	case 3:
		sb.WriteString(".")
	}
	return sb.String()
}

// climbing builds a name that goes up k levels and comes back down.
func climbing(r *gal.Rand) string {
	k := 1 + r.Intn(4)
	s := strings.Repeat("../", k)
	down := []string{"r2/x", "r/x", "x", "", "etc/passwd", "root2/secret", "cachefoo/b", "r", "rr"}
	return s + gal.Pick(r, down)
}

var roots = []string{"/r", "/r/", "/r2", "/", "", ".", "r", "/a/b", "/a/b/../c", "/t/cache", "//r", "/r/.", "/r//", "/a/..", "../r", "/r/x/.."}

func cornerPaths() []string {
	return []string{
		"", ".", "..", "/", "//", "///", "/.", "/..", "/../..", "a", "a/", "a//", "/a", "a/b", "a/./b", "a/../b", "a/b/..", "a/b/../..",
		"a/b/../../..", "../a", "../../a", "./a", "/a/../..", "/a/b/../../../c", "a//b", "a/b/", "a/b/.", "a/b/./", ".a", "..a", "a..", "...",
		"a/.../b", "/..a", "\x00", "a\x00/../b", "\xff/..", "x.apk", ".apk", "a.b/c", "a.b/c.d.e", "a/b.", "a/.", "/r2/x", "../r2/x",
		"/etc/passwd", "etc/apk/keys/..", long300 + "/../" + long300,
	}
}

func addCase(w *gal.Writer, ctor string, class string, desc map[string]any, trivial bool, args ...string) {
	desc["kind"] = ctor
	w.Add(gal.Case{Term: "(CPath " + gal.App(ctor, args...) + ")", Desc: desc, Class: class, Trivial: trivial})
}

func optStr(s string, err error) string { return gal.Opt(err == nil, gal.Str(s)) }

func errStr(err error) string {
	if err == nil {
		return ""
	}
	return err.Error()
}

func cleanEq(s string) bool { return filepath.Clean(s) == s }
