package main

import (
	"context"
	"encoding/hex"
	"errors"
	"io"
	"io/fs"
	"net/http"
	"net/url"
	"os"
	"path/filepath"
	"sort"
	"strings"

	"chainguard.dev/apko/pkg/apk/apk"
	apkfs "chainguard.dev/apko/pkg/apk/fs"
	"chainguard.dev/apko/pkg/tarfs"
	"go.lsp.dev/uri"

	"verifharness/gal"
)

func stagePaths(w *gal.Writer, r *gal.Rand) {
	// ---- filepath itself (ties Base/C18Path.v to Go's path/filepath) -------
	var names []string
	names = append(names, cornerPaths()...)
	for i := 0; i < scale(250, 3000); i++ {
		names = append(names, hostilePath(r))
	}
	for i := 0; i < scale(40, 400); i++ {
		names = append(names, climbing(r))
	}
	for _, s := range names {
		d := func() map[string]any { return map[string]any{"s": s} }
		addCase(w, "PClean", "filepath", d(), cleanEq(s), gal.Str(s), gal.Str(filepath.Clean(s)))
		addCase(w, "PBase", "filepath", d(), false, gal.Str(s), gal.Str(filepath.Base(s)))
		addCase(w, "PDir", "filepath", d(), false, gal.Str(s), gal.Str(filepath.Dir(s)))
		addCase(w, "PExt", "filepath", d(), false, gal.Str(s), gal.Str(filepath.Ext(s)))
	}
	for i := 0; i < scale(150, 2000); i++ {
		n := r.Intn(4)
		var l []string
		for j := 0; j < n; j++ {
			switch r.Intn(4) {
			case 0:
				l = append(l, "")
			case 1:
				l = append(l, gal.Pick(r, roots))
			default:
				l = append(l, hostilePath(r))
			}
		}
		addCase(w, "PJoin", "filepath", map[string]any{"elems": l}, len(l) == 0, gal.StrList(l), gal.Str(filepath.Join(l...)))
	}
	cwd, _ := os.Getwd()
	for i := 0; i < scale(30, 300); i++ {
		s := hostilePath(r)
		if strings.ContainsRune(s, 0) { // Abs is lexical here, but keep the syscall out of it
			continue
		}
		a, err := filepath.Abs(s)
		if err != nil {
			continue
		}
		addCase(w, "PAbs", "filepath", map[string]any{"cwd": cwd, "s": s}, false, gal.Str(cwd), gal.Str(s), gal.Str(a))
	}

	// filepath.Rel, which the containment tests are built on since the fixes
	relPairs := [][2]string{{"/r", "/r2/x"}, {"/r", "/r/x"}, {"/r", "/r"}, {"/", "/a"}, {"/a", "/"}, {"", ""}, {".", "x"}, {".", "../x"}, {"a", "."}, {"a/b", "."}, {"..", "."},
		{".", ".."}, {"..", "../.."}, {"../..", ".."}, {"a", "/a"}, {"/a", "a"}, {"/r/", "/r/x"}, {"/a/b", "/a/bc"}, {"/a/b", "/a/b/..x"}, {"a", "a/..b"}, {"/a//b/../c", "/a/c/d"}}
	for i := 0; i < scale(300, 4000); i++ {
		b := gal.Pick(r, roots)
		if r.Chance(1, 3) {
			b = hostilePath(r)
		}
		t := hostilePath(r)
		switch r.Intn(4) {
		case 0:
			t = filepath.Join(b, climbing(r))
		case 1:
			t = filepath.Join(b, hostilePath(r))
		case 2:
			t = climbing(r)
		}
		relPairs = append(relPairs, [2]string{b, t})
	}
	for _, bt := range relPairs {
		out, err := filepath.Rel(bt[0], bt[1])
		addCase(w, "PRel", "filepath", map[string]any{"base": bt[0], "targ": bt[1], "out": out, "err": errStr(err)}, false, gal.Str(bt[0]), gal.Str(bt[1]), optStr(out, err))
	}

	// ---- sanitizePath / sanitizeArchivePath ---------------------------------
	type bp struct{ b, p string }
	san := []bp{{"/r", "../r2/x"}, {"/r", "../r/x"}, {"/r", "x"}, {"/r", "../x"}, {"/r/", "../r2/x"}, {"/r", ""}, {"", ""}, {"", "x"}, {"/", "../x"},
		{"/r", "/abs"}, {"/r", "a/../../r2"}, {"/r", ".."}, {"r", "../r2"}, {".", "../x"}, {"/a/b", "../bc"}, {"/a/b", "../b"}, {"/a/b/../c", "x"}}
	for i := 0; i < scale(200, 2500); i++ {
		p := hostilePath(r)
		if r.Chance(1, 2) {
			p = climbing(r)
		}
		san = append(san, bp{gal.Pick(r, roots), p})
	}
	for _, c := range san {
		v, err := apkfs.VerifSanitizePath(c.b, c.p)
		addCase(w, "PSanitize", "sanitize", map[string]any{"base": c.b, "p": c.p, "out": v, "err": errStr(err)}, false, gal.Str(c.b), gal.Str(c.p), optStr(v, err))
		v, err = apk.VerifSanitizeArchivePath(c.b, c.p)
		addCase(w, "PSanitizeArchive", "sanitize", map[string]any{"d": c.b, "t": c.p, "out": v, "err": errStr(err)}, false, gal.Str(c.b), gal.Str(c.p), optStr(v, err))
	}

	// ---- ETag -> file name -----------------------------------------------------
	type hv struct {
		present bool
		vals    []string
	}
	hdrs := []hv{{false, nil}, {true, nil}, {true, []string{""}}, {true, []string{`""`}}, {true, []string{`"abc"`}}, {true, []string{`W/"abc"`}},
		{true, []string{"../../x"}}, {true, []string{`"../../../etc/passwd"`}}, {true, []string{"/abs"}}, {true, []string{".."}}, {true, []string{"a", "b"}},
		{true, []string{"\x00"}}, {true, []string{`"`}}, {true, []string{`"a"b"`}}, {true, []string{long300}}, {true, []string{"\xff\xfe\xfd\xfc\xfb\xfa"}}}
	for i := 0; i < scale(120, 1500); i++ {
		s := hostilePath(r)
		if r.Chance(1, 2) {
			s = `"` + s + `"`
		}
		hdrs = append(hdrs, hv{true, []string{s}})
	}
	cacheFiles := []string{"/t/cache/https%3A%2F%2Fh%2Frepo/x86_64/APKINDEX.tar.gz", "/t/cache/repo/x86_64/pkg-1.0.apk", "/t/cache", "/t/cache/", "/", "/t/cache/k.rsa.pub",
		"/t/cache/a/../b/APKINDEX.tar.gz", "/t/cache/xAPKINDEX.tar.gz", "rel/APKINDEX.tar.gz", "rel/x", "APKINDEX.tar.gz", ""}
	var encoded []string
	for _, h := range hdrs {
		resp := &http.Response{Header: http.Header{}}
		if h.present {
			resp.Header["Etag"] = h.vals
		}
		e, ok := apk.VerifEtagFromResponse(resp)
		out := gal.Opt(ok, gal.Str(e))
		addCase(w, "PEtag", "etag", map[string]any{"present": h.present, "values": h.vals, "etag": e, "ok": ok}, !h.present,
			gal.Opt(h.present, gal.StrList(h.vals)), out)
		if ok {
			encoded = append(encoded, e)
		}
	}
	rawEtags := []string{"../../x", "/abs", "..", "", "a/../../../b", "../APKINDEXfoo/x", "x/../../y"}
	for i, cf := range cacheFiles {
		var ets []string
		ets = append(ets, rawEtags...)
		for j := 0; j < scale(12, 120); j++ {
			ets = append(ets, gal.Pick(r, encoded))
		}
		for _, e := range ets {
			p, err := apk.VerifCacheFileFromEtag(cf, e)
			addCase(w, "PEtagFile", "etag", map[string]any{"cacheFile": cf, "etag": e, "out": p, "err": errStr(err)}, false,
				gal.Str(cwd), gal.Str(cf), gal.Str(e), optStr(p, err))
		}
		_ = i
		addCase(w, "PCacheDirFromFile", "etag", map[string]any{"cacheFile": cf}, false, gal.Str(cf), gal.Str(apk.VerifCacheDirFromFile(cf)))
	}

	// ---- URL -> cache path -----------------------------------------------------
	for _, s := range names[:scale(120, 1500)] {
		addCase(w, "PQEscape", "url", map[string]any{"s": s}, false, gal.Str(s), gal.Str(url.QueryEscape(s)))
	}
	urlRoots := []string{"/t/cache", "/t/cache/", "/", "/t/cache/../c2", "/r"}
	var urls []url.URL
	mk := func(s string) {
		u, err := url.Parse(s)
		if err == nil {
			urls = append(urls, *u)
		}
	}
	for _, s := range []string{"https://h/..", "https://h/../..", "https://h/a/b/c/..", "https://h", "https://h/", "https://h/a", "https://h/x/y/z.apk?q=1#frag",
		"https://h/%2e%2e/%2e%2e", "https://h/a/%2F..%2F../x", "https://h/repo/x86_64/APKINDEX.tar.gz", "https://user:pw@h:8443/repo/x86_64/a-1.0.apk",
		"file:///abs/repo/x86_64/a.apk", "../cachefoo/b", "../../r2/x/y", "a/b", "..", "https://h/a/b/../../../..", "https://h//", "https://h///a//b//",
		"http://h/./x", "https://h/a/b/c.apk/", "https://h/.../.../...", "https://h/a/b/.", "https://h/%2F%2F", "//h/a/b/c"} {
		mk(s)
	}
	for i := 0; i < scale(200, 2500); i++ {
		hp := hostilePath(r)
		switch r.Intn(6) {
		case 0: // not through the parser: any byte sequence as Path
			urls = append(urls, url.URL{Scheme: "https", Host: "h.example", Path: hp})
		case 1:
			urls = append(urls, url.URL{Path: hp})
		case 2:
			urls = append(urls, url.URL{Scheme: "https", Host: "h.example", Path: "/" + hp, Fragment: "f/../../../../../../../../..", RawQuery: "a=/../.."})
		default:
			if !strings.HasPrefix(hp, "/") {
				hp = "/" + hp
			}
			mk("https://h.example" + (&url.URL{Path: hp}).EscapedPath())
		}
	}
	for _, u := range urls {
		root := gal.Pick(r, urlRoots)
		ustr, simple := u2String(u)
		p, err := apk.VerifCachePathFromURL(root, u)
		class := "url-abs"
		if u.Path != "" && !strings.HasPrefix(u.Path, "/") {
			class = "url-relative-path(not produced by callers)"
		}
		addCase(w, "PCachePath", class, map[string]any{"root": root, "url": u.String(), "path": u.Path, "ustr": ustr, "out": p, "err": errStr(err)}, false,
			gal.Str(root), gal.Str(ustr), gal.Str(u.Path), simple, optStr(p, err))
	}
	// cacheDirForPackage goes through packageAsURL first
	for i := 0; i < scale(60, 600); i++ {
		var loc string
		switch r.Intn(4) {
		case 0:
			loc = "https://h.example/" + hostilePath(r) + ".apk"
		case 1:
			loc = "/abs/repo/" + hostilePath(r) + ".apk"
		case 2:
			loc = climbing(r) + ".apk"
		default:
			loc = "https://h.example/repo/x86_64/" + gal.Pick(r, pieces) + "-1.0-r0.apk"
		}
		if strings.ContainsRune(loc, 0) {
			continue
		}
		var asURI uri.URI
		var perr error
		func() {
			defer func() {
				if recover() != nil {
					perr = errors.New("panic")
				}
			}()
			if strings.HasPrefix(loc, "https://") || strings.HasPrefix(loc, "http://") {
				asURI, perr = uri.Parse(loc)
			} else {
				asURI = uri.New(loc)
			}
		}()
		if perr != nil {
			continue
		}
		u, err := url.Parse(string(asURI))
		if err != nil {
			continue
		}
		var p string
		func() {
			defer func() {
				if recover() != nil {
					err = errors.New("panic")
				}
			}()
			p, err = apk.VerifCacheDirForPackage("/t/cache", fakePkg(loc))
		}()
		ustr, _ := u2String(*u)
		addCase(w, "PCacheDirPkg", "url-package", map[string]any{"location": loc, "path": u.Path, "ustr": ustr, "out": p, "err": errStr(err)}, false,
			gal.Str("/t/cache"), gal.Str(ustr), gal.Str(u.Path), optStr(p, err))
	}

	// ---- key files ---------------------------------------------------------------
	keyTails := []string{"/keys/k.rsa.pub", "/a/b/..", "/..", "/", "", "/a/", "/a/.", "/%2e%2e", "/a%2F..%2F..%2Fx", "/k?x=/../../y", "/k#/../../z", "/a/../../../../k.pub",
		"/..%2f..%2fetc%2fpasswd", "/k.rsa.pub/", "/...", "/a b", "//", "/a//b", "/../../../../../k.pub", "/../../../../../../../../c18-key-escape"}
	for _, seg := range keySegments {
		keyTails = append(keyTails, "/keys/"+seg)
	}
	for i := 0; i < scale(40, 400); i++ {
		hp := hostilePath(r)
		if strings.ContainsAny(hp, "\x00 ") {
			continue
		}
		if !strings.HasPrefix(hp, "/") {
			hp = "/" + hp
		}
		keyTails = append(keyTails, hp)
	}
	for _, t := range keyTails {
		element := "https://keys.example" + t
		created, err := initKeyringOn(apkfs.NewMemFS(), element)
		addCase(w, "PKeyPath", "key", map[string]any{"element": element, "created": created, "err": errStr(err)}, false,
			gal.Str(element), gal.Opt(err == nil && len(created) == 1, gal.Str(first(created))))
		if err == nil && len(created) != 1 {
			// a success that stored nothing, or more than one file: not something the model can say
			fmtViolation("key-write-count", map[string]any{"element": element, "created": created})
		}
	}
	for _, k := range append([]string{"k.rsa.pub", "../k", "a/b", "/", "", "..", "a\\b", "%2F"}, names[:scale(40, 400)]...) {
		_, err := apk.VerifParseRepositoryIndex(context.Background(), "https://h.example/repo/x86_64/APKINDEX.tar.gz", map[string][]byte{k: nil}, "x86_64", []byte("not a gzip stream"))
		rejected := err != nil && strings.Contains(err.Error(), "invalid keyname")
		addCase(w, "PKeyName", "key", map[string]any{"name": k, "err": errStr(err)}, false, gal.Str(k), gal.Bool(rejected))
	}

	// ---- cachedPackage: the member named by a datahash ------------------------------
	hexes := []string{"", "0", "00", "0g", "zz", "abcdef", "ABCDEF", "aBcDeF0123456789", "00ff ", " 00ff", "00\x00", "0x00", "+0", "-0", "00/..", "../00", "..", ".", "/",
		"e3b0c44298fc1c149afbf4c8996fb92427ae41e4649b934ca495991b7852b855", "E3B0C44298FC1C149AFBF4C8996FB92427AE41E4649B934CA495991B7852B85", "\xc3\xa9", "\xef\xbc\x90\xef\xbc\x90", "00\n"}
	for i := 0; i < scale(40, 400); i++ {
		n := r.Intn(9)
		var sb strings.Builder
		for j := 0; j < n; j++ {
			sb.WriteString(gal.Pick(r, []string{"0", "9", "a", "f", "A", "F", "g", "G", "/", ".", "..", "@", "`", ":", "\x00", "\xff"}))
		}
		hexes = append(hexes, sb.String())
	}
	for i := 0; i < scale(20, 200); i++ {
		hexes = append(hexes, hostilePath(r), climbing(r))
	}
	for _, h := range hexes {
		_, err := hex.DecodeString(h)
		addCase(w, "PHexOk", "cache-member", map[string]any{"s": h, "err": errStr(err)}, h == "", gal.Str(h), gal.Bool(err == nil))
		for _, dir := range []string{"/t/cache/repo/x86_64/p-1.0-r0", "/", "/t/cache/../c", "rel/cache"} {
			// cachedPackage: filepath.Join(cacheDir, datahash+".dat.tar.gz") and strings.TrimSuffix(.., ".gz")
			dat := filepath.Join(dir, h+".dat.tar.gz")
			addCase(w, "PCacheMember", "cache-member", map[string]any{"cache_dir": dir, "datahash": h, "dat": dat}, false,
				gal.Str(dir), gal.Str(h), gal.Str(dat), gal.Str(strings.TrimSuffix(dat, ".gz")))
		}
	}

	// ---- the in-memory trees ------------------------------------------------------
	for i := 0; i < scale(60, 600); i++ {
		for _, which := range []string{"memfs", "tarfs"} {
			var f apkfs.FullFS
			if which == "memfs" {
				f = apkfs.NewMemFS()
			} else {
				f = tarfs.New()
			}
			rr := gal.NewRand(*seed*7919 + uint64(i))
			script := buildTree(f, rr)
			dumpUnreliable = false
			tree := dumpTree(f, "")
			if dumpUnreliable {
				continue
			}
			for j := 0; j < 6; j++ {
				p := lookupPath(rr)
				kind := lstatKind(f, p)
				w.Add(gal.Case{Term: "(CPath " + gal.App("PLookup", gal.Str(which), tree, gal.Str(p), kind) + ")",
					Desc: map[string]any{"kind": "PLookup", "fs": which, "script": script, "path": p, "observed": kind}, Class: "tree-" + which, Trivial: false})
			}
		}
	}
	stagePaths2(w, r)
}

func first(l []string) string {
	if len(l) == 0 {
		return ""
	}
	return l[0]
}

type fakePkg string

func (f fakePkg) URL() string            { return string(f) }
func (f fakePkg) PackageName() string    { return "p" }
func (f fakePkg) ChecksumString() string { return "" }

func isUnreservedPath(s string) bool {
	for i := 0; i < len(s); i++ {
		c := s[i]
		if !(c >= 'a' && c <= 'z' || c >= 'A' && c <= 'Z' || c >= '0' && c <= '9' || c == '-' || c == '_' || c == '.' || c == '~' || c == '/') {
			return false
		}
	}
	return true
}

// u2String: what cachePathFromURL prints after its three field edits. The
// second result is Some (scheme, host) for the plainest URLs, on which the Coq
// side re-derives the string itself.
func u2String(u url.URL) (string, string) {
	u2 := u
	u2.ForceQuery = false
	u2.RawFragment = ""
	u2.RawQuery = ""
	u2.Path = filepath.Dir(filepath.Dir(u2.Path))
	simple := "None"
	if u.Scheme != "" && u.Host != "" && u.User == nil && u.Opaque == "" && u.Fragment == "" && u.RawPath == "" && !u.OmitHost && isUnreservedPath(u.Path) && isUnreservedPath(u.Host) && !strings.Contains(u.Host, "/") {
		simple = gal.Opt(true, gal.Pair(gal.Str(u.Scheme), gal.Str(u.Host)))
	}
	return u2.String(), simple
}

// ---- keyring through the public API with a canned transport ----------------------

type cannedRT struct {
	etag    []string // nil = no ETag header
	body    string
	status  int
	seen    []*url.URL
	handler func(req *http.Request) *http.Response
}

func (c *cannedRT) RoundTrip(req *http.Request) (*http.Response, error) {
	c.seen = append(c.seen, req.URL)
	if c.handler != nil {
		if resp := c.handler(req); resp != nil {
			return resp, nil
		}
	}
	st := c.status
	if st == 0 {
		st = 200
	}
	h := http.Header{}
	if c.etag != nil {
		h["Etag"] = c.etag
	}
	body := c.body
	if req.Method == http.MethodHead {
		body = ""
	}
	return &http.Response{StatusCode: st, Status: http.StatusText(st), Proto: "HTTP/1.1", ProtoMajor: 1, ProtoMinor: 1, Header: h,
		Body: io.NopCloser(strings.NewReader(body)), ContentLength: int64(len(body)), Request: req}, nil
}

func listFiles(f apkfs.FullFS) []string {
	var out []string
	_ = fs.WalkDir(f, ".", func(p string, d fs.DirEntry, err error) error {
		if err != nil {
			return nil
		}
		if !d.IsDir() {
			out = append(out, p)
		}
		return nil
	})
	sort.Strings(out)
	return out
}

// initKeyringOn runs InitKeyring for one key location on the given filesystem and
// returns the files that appeared in it.
func initKeyringOn(f apkfs.FullFS, element string) (created []string, err error) {
	defer func() {
		if r := recover(); r != nil {
			err = errors.New("panic")
			fmtViolation("panic-in-InitKeyring", map[string]any{"element": element})
		}
	}()
	rt := &cannedRT{body: "KEY"}
	a, err := apk.New(apk.WithFS(f), apk.WithArch("x86_64"), apk.WithTransport(rt))
	if err != nil {
		return nil, err
	}
	before := map[string]bool{}
	for _, p := range listFiles(f) {
		before[p] = true
	}
	err = a.InitKeyring(context.Background(), []string{element}, nil)
	for _, p := range listFiles(f) {
		if !before[p] {
			created = append(created, p)
		}
	}
	return created, err
}

// ---- in-memory trees ---------------------------------------------------------------

var treeNames = []string{"a", "b", "c", "..", "l", "m", "x", "..."}

func treePath(r *gal.Rand) string {
	n := 1 + r.Intn(3)
	var parts []string
	for i := 0; i < n; i++ {
		parts = append(parts, gal.Pick(r, treeNames))
	}
	return strings.Join(parts, "/")
}

var linkTargets = []string{"..", "../..", "../a", "/a", "/", "a", "a/b", "/l", "l", "m", "../m", "/nonexistent", "../../../../etc", ".", "/a/../b", "b/../..", "/.."}

func buildTree(f apkfs.FullFS, r *gal.Rand) []string {
	var script []string
	n := 2 + r.Intn(6)
	for i := 0; i < n; i++ {
		func() {
			defer func() { _ = recover() }()
			switch r.Intn(5) {
			case 0, 1:
				p := treePath(r)
				script = append(script, "mkdirall "+p)
				_ = f.MkdirAll(p, 0o755)
			case 2:
				p := treePath(r)
				script = append(script, "write "+p)
				_ = f.WriteFile(p, []byte("x"), 0o644)
			default:
				p := treePath(r)
				t := gal.Pick(r, linkTargets)
				script = append(script, "symlink "+t+" "+p)
				_ = f.Symlink(t, p)
			}
		}()
	}
	return script
}

func lookupPath(r *gal.Rand) string {
	p := treePath(r)
	switch r.Intn(8) {
	case 0:
		p = "/" + p
	case 1:
		p = "../" + p
	case 2:
		p = p + "/.."
	case 3:
		p = p + "/"
	case 4:
		p = "./" + p
	case 5:
		p = strings.ReplaceAll(p, "/", "//")
	}
	return p
}

func lstatKind(f apkfs.FullFS, p string) (kind string) {
	defer func() {
		if recover() != nil {
			kind = "KOther"
		}
	}()
	fi, err := f.Lstat(p)
	if err != nil {
		if errors.Is(err, fs.ErrNotExist) {
			return "KNotExist"
		}
		return "KOther"
	}
	switch {
	case fi.Mode()&fs.ModeSymlink != 0:
		return "KLink"
	case fi.IsDir():
		return "KDir"
	default:
		return "KFile"
	}
}

// dumpTree prints the real tree as a Corr.C18.tnode from ReadDir's own entries
// (their mode says link / directory / file without another lookup). A link's
// target needs Readlink(path), which cleans the path first: below a directory
// literally named ".." it would read a different entry, so such a tree is
// reported as unreliable and its cases are dropped.
var dumpUnreliable bool

func dumpTree(f apkfs.FullFS, p string) string {
	if strings.Count(p, "/") > 24 { // the scripts build at most a few levels
		if !dumpUnreliable {
			fmtViolation("memtree-walk-unbounded", map[string]any{"path": p})
		}
		dumpUnreliable = true
		return "(TDir [])"
	}
	name := p
	if name == "" {
		name = "/"
	}
	des, err := f.ReadDir(name)
	if err != nil {
		dumpUnreliable = true
		return "(TDir [])"
	}
	var items []string
	for _, de := range des {
		child := p + "/" + de.Name()
		var t string
		switch {
		case de.Type()&fs.ModeSymlink != 0:
			if strings.Contains(child+"/", "/../") || strings.Contains(child+"/", "/./") {
				dumpUnreliable = true
			}
			target, err := f.Readlink(child)
			if err != nil {
				dumpUnreliable = true
			}
			t = "(TLink " + gal.Str(target) + ")"
		case de.IsDir():
			t = dumpTree(f, child)
		default:
			t = "TFile"
		}
		items = append(items, gal.Pair(gal.Str(de.Name()), t))
	}
	return "(TDir " + gal.List(items) + ")"
}
