package main

// paths stage, second part: the names apko makes up itself — url.PathUnescape and the
// file name fetchAlpineKeys builds from a key URL, os.CreateTemp's names, and everything
// expandapk.ExpandApk creates in the directory it is given.

import (
	"archive/tar"
	"bytes"
	"context"
	"encoding/hex"
	"fmt"
	"net/url"
	"os"
	"path/filepath"
	"sort"
	"strings"

	"chainguard.dev/apko/pkg/apk/apk"
	"chainguard.dev/apko/pkg/apk/expandapk"
	apkfs "chainguard.dev/apko/pkg/apk/fs"

	"verifharness/gal"
	"verifharness/synthrepo"
)

var escapes = []string{"%2F", "%2f", "%2e", "%2E", "%00", "%25", "%252F", "%", "%2", "%zz", "%G0", "%5C", "+", "%20", "%C3%A9", "%ff", "..", "/", ".", "a", "k.rsa.pub", "-", "%2e%2e%2F"}

func hostileEscaped(r *gal.Rand) string {
	n := 1 + r.Intn(6)
	var sb strings.Builder
	for i := 0; i < n; i++ {
		sb.WriteString(gal.Pick(r, escapes))
	}
	return sb.String()
}

func stagePaths2(w *gal.Writer, r *gal.Rand) {
	// ---- url.PathUnescape and the alpine key's file name ------------------------------------
	var texts []string
	texts = append(texts, keySegments...)
	texts = append(texts, "", "%", "%2", "%2F", "a%2Fb", "%zz", "100%", "a+b", "%2e%2e", "..%2F..%2F..%2F..%2F..%2F..%2Fx", "%00", "%41%42")
	for i := 0; i < scale(150, 2500); i++ {
		texts = append(texts, hostileEscaped(r))
	}
	for _, s := range texts {
		out, err := url.PathUnescape(s)
		addCase(w, "PUnescape", "unescape", map[string]any{"s": s}, !strings.Contains(s, "%"), gal.Str(s), optStr(out, err))
		// fetchAlpineKeys: filepath.Join(keysDirPath, url.PathUnescape(filepath.Base(u)))
		u := "https://alpinelinux.org/keys/" + s
		name, err := url.PathUnescape(filepath.Base(u))
		file := ""
		if err == nil {
			file = filepath.Join("etc/apk/keys", name)
		}
		addCase(w, "PAlpineKey", "alpine-key", map[string]any{"url": u}, false, gal.Str(u), optStr(file, err))
	}

	// ---- os.CreateTemp / os.MkdirTemp names ------------------------------------------------------
	scratch, err := os.MkdirTemp("", "c18temp")
	if err == nil {
		defer os.RemoveAll(scratch)
		for _, pat := range []string{"*.tmp", "expand-apk", "apk-file", "", "*", "a*b*c", "x*", "*x", "..*", ".", "a/b", "/*", "*/", "**", "pre-*-suf.tar.gz"} {
			f, err := os.CreateTemp(scratch, pat)
			name := ""
			if err == nil {
				name = filepath.Base(f.Name())
				_ = f.Close()
			}
			addCase(w, "PTempName", "temp-name", map[string]any{"pattern": pat, "call": "os.CreateTemp"}, false, gal.Str(pat), optStr(name, err))
			d, err := os.MkdirTemp(scratch, pat)
			name = ""
			if err == nil {
				name = filepath.Base(d)
			}
			addCase(w, "PTempName", "temp-name", map[string]any{"pattern": pat, "call": "os.MkdirTemp"}, false, gal.Str(pat), optStr(name, err))
		}
	}

	// ---- ExpandApk: everything that appears in the directory it is given -------------------------
	key, _ := synthrepo.NewKey("c18expand.rsa.pub")
	for i, signed := range []bool{false, true, true, false} {
		p := &synthrepo.Pkg{Name: "expand", Version: "1.0-r0", Origin: "expand",
			Files: []synthrepo.File{{Name: "usr", Type: tar.TypeDir, Mode: 0o755}, {Name: "usr/x", Mode: 0o644, Content: []byte("x")}}}
		var built *synthrepo.Built
		var err error
		if signed {
			built, err = p.Build(key)
		} else {
			built, err = p.Build(nil)
		}
		if err != nil || scratch == "" {
			continue
		}
		// the directory: plain, with a trailing slash, nested
		sub := []string{"cache/r/x86_64/expand-1.0-r0", "cache/r/x86_64/expand-1.0-r0/", "c", "deep/er/and/deeper/"}[i]
		dir := filepath.Join(scratch, "exp", sub)
		_ = os.MkdirAll(dir, 0o755)
		arg := dir
		if strings.HasSuffix(sub, "/") {
			arg += "/"
		}
		before := listAll(filepath.Join(scratch, "exp"))
		exp, err := expandapk.ExpandApk(context.Background(), bytes.NewReader(built.Bytes), arg)
		after := listAll(filepath.Join(scratch, "exp"))
		var created []string
		for p := range after {
			if !before[p] {
				created = append(created, "/C/"+p)
			}
		}
		sort.Strings(created)
		if exp != nil {
			_ = exp.Close()
		}
		abstractDir := "/C/" + sub
		addCase(w, "PExpand", "expand", map[string]any{"cache_dir": abstractDir, "created": created, "signed": signed, "error": errStr(err)}, false,
			gal.Str(abstractDir), gal.StrList(created))
	}
	stageCacheNames(w)
}

// stageCacheNames: a package installed through a disk cache (cachePackage advertises the expanded
// sections under names made of their hashes): what the package's cache directory holds afterwards
func stageCacheNames(w *gal.Writer) {
	scratch, err := os.MkdirTemp("", "c18cache")
	if err != nil {
		return
	}
	defer os.RemoveAll(scratch)
	key, _ := synthrepo.NewKey("c18cache.rsa.pub")
	for i, signed := range []bool{false, true} {
		p := &synthrepo.Pkg{Name: "cached", Version: fmt.Sprintf("1.%d-r0", i), Origin: "cached",
			Files: []synthrepo.File{{Name: "usr", Type: tar.TypeDir, Mode: 0o755}, {Name: "usr/c", Mode: 0o644, Content: []byte("c")}}}
		var built *synthrepo.Built
		if signed {
			built, err = p.Build(key)
		} else {
			built, err = p.Build(nil)
		}
		if err != nil {
			continue
		}
		src := filepath.Join(scratch, "in", "x86_64")
		_ = os.MkdirAll(src, 0o755)
		apkPath := filepath.Join(src, built.Filename())
		_ = os.WriteFile(apkPath, built.Bytes, 0o644)
		cacheRoot := filepath.Join(scratch, fmt.Sprintf("cache-%d", i))
		h := handle{apkPath, "cached", built.Checksum()}
		cacheDir, err := apk.VerifCacheDirForPackage(cacheRoot, h)
		if err != nil {
			continue
		}
		var ierr error
		func() {
			defer func() {
				if r := recover(); r != nil {
					ierr = fmt.Errorf("panic: %v", r)
				}
			}()
			a, err := apk.New(apk.WithFS(apkfs.NewMemFS()), apk.WithArch("x86_64"), apk.WithIgnoreMknodErrors(true),
				apk.WithCache(cacheRoot, false, apk.NewCache(false)))
			if err != nil {
				ierr = err
				return
			}
			ctx := context.Background()
			if ierr = a.InitDB(ctx); ierr != nil {
				return
			}
			_, ierr = a.InstallPackages(ctx, nil, []apk.InstallablePackage{h})
		}()
		// the direct entries of the package's cache directory, and anything that is not a
		// directory anywhere else below the cache root (nothing is expected there)
		var present []string
		relDir, _ := filepath.Rel(cacheRoot, cacheDir)
		_ = filepath.Walk(cacheRoot, func(q string, fi os.FileInfo, err error) error {
			if err != nil || q == cacheRoot {
				return nil
			}
			rel, _ := filepath.Rel(cacheRoot, q)
			// the directory's own name carries the (escaped) temporary path: it is called pkgdir
			if rel == relDir || strings.HasPrefix(rel, relDir+"/") {
				rel = "pkgdir" + rel[len(relDir):]
			}
			switch {
			case filepath.Dir(q) == cacheDir:
				present = append(present, "/C/"+rel)
				if fi.IsDir() {
					return filepath.SkipDir
				}
			case !fi.IsDir():
				present = append(present, "/C/"+rel)
			}
			return nil
		})
		sort.Strings(present)
		ctl, dat := hex.EncodeToString(built.ControlSHA1), hex.EncodeToString(built.DataSHA256)
		addCase(w, "PCacheNames", "cache-package", map[string]any{"signed": signed, "present": present, "control_sha1": ctl, "data_sha256": dat, "error": errStr(ierr)}, false,
			gal.Str("/C/pkgdir"), gal.Str(ctl), gal.Str(dat), gal.Bool(signed), gal.StrList(present))
	}
}

func listAll(root string) map[string]bool {
	m := map[string]bool{}
	_ = filepath.Walk(root, func(p string, fi os.FileInfo, err error) error {
		if err == nil && p != root {
			rel, _ := filepath.Rel(root, p)
			m[rel] = true
		}
		return nil
	})
	return m
}
