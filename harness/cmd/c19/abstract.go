package main

import (
	"encoding/hex"
	"fmt"
	"os"
	"path"
	"path/filepath"
	"regexp"
	"sort"
	"strings"

	"verifharness/gal"
	"verifharness/synthrepo"
)

// ---- abstraction of real paths / files to the model's terms ---------------
// Relative paths are taken below <cache>/<escaped repo URL>/ (one repository).

const arch = "x86_64"

func h16(b []byte) string { return sha(b)[:16] }

// content term: the model's content of a real file = [] when empty, else one
// chunk naming its hash
func contentOfHash(size int64, hash string) string {
	if size == 0 {
		return "[]"
	}
	return "[" + gal.Str(hash[:16]) + "]"
}
func contentOf(b []byte) string { return contentOfHash(int64(len(b)), sha(b)) }

type absCtx struct {
	w      *world
	tmpIDs map[string]int // random temp name -> small id (per case)
	fixed  int            // if >=0: every temp name maps to this id (trace cases)
}

func (w *world) newCtx() *absCtx { return &absCtx{w: w, tmpIDs: map[string]int{}, fixed: -1} }

func (c *absCtx) tmpID(name string) int {
	if c.fixed >= 0 {
		return c.fixed
	}
	if id, ok := c.tmpIDs[name]; ok {
		return id
	}
	id := 100 + len(c.tmpIDs)
	c.tmpIDs[name] = id
	return id
}

// signedDir: is the package cached in <arch>/<pkgdir> signed? (decides which
// stream file holds which section)
func (w *world) signedDir(pkgdir string) bool {
	for _, r := range w.revs {
		for _, b := range r.repo.Built[arch] {
			if b.Pkg.Name+"-"+b.Pkg.Version == pkgdir {
				return b.Sig != nil
			}
		}
	}
	return true
}

var (
	reTmp    = regexp.MustCompile(`^(\d+)\.tmp$`)
	reExpand = regexp.MustCompile(`^expand-apk(\d+)$`)
	reStream = regexp.MustCompile(`^stream-(\d)\.(tar\.gz|tar)$`)
	reMember = regexp.MustCompile(`^([0-9a-f]+)\.(ctl\.tar\.gz|sig\.tar\.gz|dat\.tar\.gz|dat\.tar)$`)
	reIndex  = regexp.MustCompile(`^([A-Z2-7=]+)\.tar\.gz$`)
)

// pathTerm maps a path relative to the repository's cache directory to a
// Gallina [path]. ok=false: the name fits no pattern of the cache layout.
func (c *absCtx) pathTerm(rel string) (term string, ok bool) {
	parts := strings.Split(rel, "/")
	q := gal.Str
	switch {
	case len(parts) == 1 || (len(parts) == 2 && parts[0] == arch):
		return fmt.Sprintf("(PDir %s)", q(rel)), true
	case len(parts) >= 3 && parts[0] == arch && parts[1] == "APKINDEX":
		dir := arch + "/APKINDEX"
		if len(parts) == 3 {
			if m := reTmp.FindStringSubmatch(parts[2]); m != nil {
				return fmt.Sprintf("(PTmpFile %s %d)", q(dir), c.tmpID(parts[2])), true
			}
			if m := reIndex.FindStringSubmatch(parts[2]); m != nil {
				return fmt.Sprintf("(PIndex %s %s)", q(dir), q(m[1])), true
			}
		}
	case len(parts) >= 3 && parts[0] == arch:
		dir := arch + "/" + parts[1]
		signed := c.w.signedDir(parts[1])
		if len(parts) == 3 {
			if m := reExpand.FindStringSubmatch(parts[2]); m != nil {
				return fmt.Sprintf("(PTmpDir %s %d)", q(dir), c.tmpID(parts[2])), true
			}
			if m := reTmp.FindStringSubmatch(parts[2]); m != nil {
				// PackageData's temporary file for the rebuild of <hash>.dat.tar
				return fmt.Sprintf("(PTmpFile %s %d)", q(dir), c.tmpID(parts[2])), true
			}
			if m := reMember.FindStringSubmatch(parts[2]); m != nil {
				mem := map[string]string{"ctl.tar.gz": "MCtl", "sig.tar.gz": "MSig", "dat.tar.gz": "MDat", "dat.tar": "MTar"}[m[2]]
				return fmt.Sprintf("(PMember %s %s %s)", q(dir), mem, q(m[1])), true
			}
		}
		if len(parts) == 4 {
			if m := reExpand.FindStringSubmatch(parts[2]); m != nil {
				if s := reStream.FindStringSubmatch(parts[3]); s != nil {
					k := int(s[1][0] - '0')
					var mem string
					switch {
					case s[2] == "tar":
						mem = "MTar"
					case signed && k == 0:
						mem = "MSig"
					case (signed && k == 1) || (!signed && k == 0):
						mem = "MCtl"
					case (signed && k == 2) || (!signed && k == 1):
						mem = "MDat"
					}
					if mem != "" {
						return fmt.Sprintf("(PTmpMem %s %d %s)", q(dir), c.tmpID(parts[2]), mem), true
					}
				}
			}
		}
		if len(parts) == 2 {
			return fmt.Sprintf("(PDir %s)", q(dir)), true
		}
	}
	return fmt.Sprintf("(PIndex %s %s)", q("?unclassified"), q(rel)), false
}

// listingTerm abstracts a directory listing (entries below the repo dir).
func (c *absCtx) listingTerm(es []entry) (string, int) {
	var items []string
	unknown := 0
	prefix := c.w.cacheRepoDir() + "/"
	for _, e := range es {
		if e.Path == c.w.cacheRepoDir() {
			continue
		}
		rel := strings.TrimPrefix(e.Path, prefix)
		pt, ok := c.pathTerm(rel)
		if !ok {
			unknown++
		}
		var obj string
		switch e.Kind {
		case "dir":
			obj = "Dir"
		case "file":
			obj = fmt.Sprintf("(File %s true)", contentOfHash(e.Size, e.Hash))
		case "link":
			// link targets are relative to the link's directory
			trel := path.Clean(path.Join(path.Dir(rel), e.Target))
			tt, _ := c.pathTerm(trel)
			obj = fmt.Sprintf("(Link %s)", tt)
		}
		items = append(items, gal.Pair(pt, obj))
	}
	return gal.List(items), unknown
}

func pdirOf(b *synthrepo.Built) string { return arch + "/" + b.Pkg.Name + "-" + b.Pkg.Version }

const idir = arch + "/APKINDEX"

// originTable: what the origin serves for every advertised name of every
// revision, computed from the synthetic packages (never from the cache).
func (w *world) originTable() (tab, gz, dh string) {
	var t, g, d []string
	seen := map[string]bool{}
	add := func(list *[]string, key, item string) {
		if !seen[key] {
			seen[key] = true
			*list = append(*list, item)
		}
	}
	q := gal.Str
	for _, r := range w.revs {
		// the index revision under the name every ETag style gives it
		for _, st := range etagStyles {
			_, b32 := stemOf(r.hdrs[st])
			add(&t, "i"+b32, gal.Pair(fmt.Sprintf("(PIndex %s %s)", q(idir), q(b32)), contentOf(r.index)))
		}
		for _, b := range r.repo.Built[arch] {
			pd := pdirOf(b)
			ch, dhx := hex.EncodeToString(b.ControlSHA1), hex.EncodeToString(b.DataSHA256)
			add(&t, pd+"c"+ch, gal.Pair(fmt.Sprintf("(PMember %s MCtl %s)", q(pd), q(ch)), contentOf(b.Control)))
			if b.Sig != nil {
				add(&t, pd+"s"+ch, gal.Pair(fmt.Sprintf("(PMember %s MSig %s)", q(pd), q(ch)), contentOf(b.Sig)))
			}
			add(&t, pd+"d"+dhx, gal.Pair(fmt.Sprintf("(PMember %s MDat %s)", q(pd), q(dhx)), contentOf(b.Data)))
			add(&t, pd+"t"+dhx, gal.Pair(fmt.Sprintf("(PMember %s MTar %s)", q(pd), q(dhx)), contentOf(gunzip(b.Data))))
			add(&g, "g"+dhx, gal.Pair(contentOf(b.Data), contentOf(gunzip(b.Data))))
			add(&d, "h"+ch, gal.Pair(contentOf(b.Control), q(dhx)))
		}
	}
	return gal.List(t), gal.List(g), gal.List(d)
}

func apkTerm(b *synthrepo.Built) string {
	sig := "None"
	if b.Sig != nil {
		sig = "(Some " + contentOf(b.Sig) + ")"
	}
	return fmt.Sprintf("{| a_sig := %s; a_ctl := %s; a_dat := %s; a_tar := %s; a_ctlh := %s; a_dath := %s |}",
		sig, contentOf(b.Control), contentOf(b.Data), contentOf(gunzip(b.Data)),
		gal.Str(hex.EncodeToString(b.ControlSHA1)), gal.Str(hex.EncodeToString(b.DataSHA256)))
}

func (w *world) built(rev int, name string) *synthrepo.Built {
	for _, b := range w.revs[rev].repo.Built[arch] {
		if b.Pkg.Name == name {
			return b
		}
	}
	return nil
}

// expectedNames: advertised names (relative paths) -> expected sha256, used by
// the Go-side triage of a digest difference.
func (w *world) expectedTar() map[string]string {
	m := map[string]string{}
	for _, r := range w.revs {
		for _, b := range r.repo.Built[arch] {
			m[pdirOf(b)+"/"+hex.EncodeToString(b.DataSHA256)+".dat.tar"] = sha(gunzip(b.Data))
		}
	}
	return m
}

// partialTarUnderFinalName: is there a REGULAR file under a <hash>.dat.tar
// name whose content is not the decompressed data section?
func (w *world) partialTarUnderFinalName(es []entry) []string {
	exp := w.expectedTar()
	prefix := w.cacheRepoDir() + "/"
	var bad []string
	for _, e := range es {
		rel := strings.TrimPrefix(e.Path, prefix)
		if want, ok := exp[rel]; ok && e.Kind == "file" && e.Hash != want {
			bad = append(bad, fmt.Sprintf("%s size=%d", rel, e.Size))
		}
	}
	sort.Strings(bad)
	return bad
}

// ctlWithoutSigOnSharedData: the evidence for finding C19-F3 in a cache directory: for some signed
// package the origin serves, <ctlhash>.ctl.tar.gz is advertised, <ctlhash>.sig.tar.gz is not, and
// <datahash>.dat.tar.gz is advertised by a link into a DIFFERENT expand-apk directory than the
// control section's (the data section was cached by an earlier download of another revision).
func (w *world) ctlWithoutSigOnSharedData(cache string) bool {
	base := filepath.Join(cache, w.cacheRepoDir())
	for _, r := range w.revs {
		for _, b := range r.repo.Built[arch] {
			if b.Sig == nil {
				continue
			}
			dir := filepath.Join(base, pdirOf(b))
			ch, dhx := hex.EncodeToString(b.ControlSHA1), hex.EncodeToString(b.DataSHA256)
			ct, err1 := os.Readlink(filepath.Join(dir, ch+".ctl.tar.gz"))
			_, err2 := os.Lstat(filepath.Join(dir, ch+".sig.tar.gz"))
			dt, err3 := os.Readlink(filepath.Join(dir, dhx+".dat.tar.gz"))
			if err1 == nil && err2 != nil && err3 == nil && filepath.Dir(ct) != filepath.Dir(dt) {
				return true
			}
		}
	}
	return false
}
