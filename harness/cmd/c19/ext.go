package main

// Session-4 extensions of the C19 harness:
//   - shared: several builds in ONE process sharing one apk.Cache object, with a transient fault
//     of the origin during the first one (key discovery, package download, index download);
//   - faildl: an index download that FAILS in a surviving process (connection cut mid-body) and
//     what it leaves behind for an offline build;
//   - offrev: three publications, a caching build after each, then an offline build: it must be
//     the image of the revision downloaded last, for every order of the names in APKINDEX/;
//   - prune: a cache entry whose <datahash>.dat.tar is missing ("old caches without the
//     uncompressed file", PackageData's rebuild) with kills inside the rebuild.

import (
	"archive/tar"
	"bytes"
	"encoding/hex"
	"fmt"
	"io"
	"os"
	"os/exec"
	"path/filepath"
	"sort"
	"strings"
	"syscall"
	"time"

	"verifharness/gal"
	"verifharness/synthrepo"
)

// gateStep lets the driver act between build i-1 and build i of a multi-build process
func gateWait(gate string, i int) bool {
	return waitFor(fmt.Sprintf("%s.%d.reached", gate, i), 30*time.Second)
}
func gateOpen(gate string, i int) { os.WriteFile(fmt.Sprintf("%s.%d", gate, i), nil, 0o644) }

type sharedCase struct {
	name   string
	suffix string // faulted URL suffix
	status int    // HTTP status of the fault (0: body cut after `cut` bytes)
	cut    int
	nfault int // how many matching requests fail
	nokey  bool
	pkgs   []string
	noEtag bool
	// obj: the coalescing object whose key the faulted request is the work of ("" = none is compared in Coq),
	// probe: the URL suffix whose GET means "the work was executed", tag: the violation tag of this mechanism
	obj, probe, tag string
}

// stageShared: N builds in ONE process sharing one apk.Cache object (what apko's multi-architecture
// build and library users do). Build 1 meets a transient fault of the origin; it may fail. Every
// later build of the process runs against a healthy origin and must behave like the build WITHOUT
// cache in the same circumstances (the same multi-build process, the same fault, no cache).
func (d *driver) stageShared() {
	solo := "/x86_64/solo-3.0-r0.apk"
	cases := []sharedCase{
		{name: "discovery-403-once", suffix: "/repo/apk-configuration", status: 403, nfault: 1, nokey: true, pkgs: []string{"solo"},
			obj: "FFlight", probe: "/repo/apk-configuration", tag: "key-discovery-error-memoised-for-the-process"},
		{name: "jwks-403-once", suffix: "/jwks", status: 403, nfault: 1, nokey: true, pkgs: []string{"solo"},
			obj: "FFlight", probe: "/repo/apk-configuration", tag: "key-discovery-error-memoised-for-the-process"},
		{name: "package-403-once", suffix: solo, status: 403, nfault: 1, pkgs: []string{"solo"},
			obj: "FApkOnce", probe: solo, tag: "package-fetch-error-memoised-for-the-process"},
		{name: "package-cut-once", suffix: solo, cut: 700, nfault: 8, pkgs: []string{"solo"},
			obj: "FApkOnce", probe: solo, tag: "package-fetch-error-memoised-for-the-process"},
		// index faults: tag "" = counted, never raised. What keeps such a failure for the process is the parsed-index
		// memo of index.go, which is not part of the cache (it is there, and behaves the same, without one: the 403
		// case); with a cut body the only difference the cache makes is DURING the fault (no Range retry on the
		// caching path), and a misbehaving origin is outside C19's quantifier. See notes/C19.md, "F7".
		{name: "index-get-403-once", suffix: "/x86_64/APKINDEX.tar.gz", status: 403, nfault: 1, pkgs: []string{"solo"}},
		{name: "index-get-cut-once", suffix: "/x86_64/APKINDEX.tar.gz", cut: 300, nfault: 1, pkgs: []string{"solo"}},
	}
	if d.tier != "thorough" {
		cases = []sharedCase{cases[0], cases[2], cases[5]}
	}
	for _, c := range cases {
		d.runShared(c)
	}
}

// multiBuild: n builds in one process; the fault is active during build 1 only. Returns the outcome
// of every build and, per build, whether the origin saw a GET for probe
func (d *driver) multiBuild(c sharedCase, cache string, n int) (runOut, []bool, *fault) {
	d.w.clearFaults()
	d.w.requests()
	gate := filepath.Join(d.w.root, fmt.Sprintf("gate-%d-%d", d.ncache, d.w.nrun))
	f := d.w.faultAt(c.suffix, c.status, c.cut, c.nfault)
	cmd, resf := d.w.command(runSpec{Cache: cache, Pkgs: c.pkgs, N: n, Gate: gate, NoKey: c.nokey, NoEtag: c.noEtag})
	t0 := time.Now()
	seen := make([]bool, n)
	if err := cmd.Start(); err != nil {
		return runOut{Exit: -1}, seen, f
	}
	probe := func(i int) {
		for _, q := range d.w.requests() {
			if c.probe != "" && strings.HasPrefix(q, "GET ") && strings.HasSuffix(q, c.probe) {
				seen[i] = true
			}
		}
	}
	for i := 2; i <= n; i++ {
		if !gateWait(gate, i) {
			break
		}
		probe(i - 2)
		if i == 2 {
			d.w.clearFaults() // the fault is over before the second build starts
		}
		gateOpen(gate, i)
	}
	r := finish(cmd, resf, t0)
	probe(n - 1)
	d.w.clearFaults()
	return r, seen, f
}

func (d *driver) runShared(c sharedCase) {
	d.w.setRev(0)
	d.w.mu.Lock()
	d.w.discovery = c.nokey
	d.w.mu.Unlock()
	defer func() {
		d.w.clearFaults()
		d.w.mu.Lock()
		d.w.discovery = false
		d.w.mu.Unlock()
	}()
	const n = 3
	// the reference: the same process history WITHOUT cache
	ref, _, _ := d.multiBuild(c, "", n)
	if len(ref.All) != n {
		fmt.Fprintf(os.Stderr, "shared %s: reference multi-build process without cache: %+v\n", c.name, ref)
		d.bail()
	}
	if !ref.All[n-1].OK {
		// the failure is permanent for the process WITHOUT a cache too (the parsed-index cache keeps a failed
		// fetch per etag, cache or not): not a difference the cache makes; recorded
		d.count("failure_permanent_without_cache_too", c.name)
	}
	cache := d.newCache()
	r, seen, f := d.multiBuild(c, cache, n)
	outs, refs := []string{}, []string{}
	var calls, obs []string
	for i := 0; i < n && i < len(r.All); i++ {
		br, rr := r.All[i], ref.All[i]
		o, ro := "error", "error"
		if br.OK {
			o = br.Digest
		}
		if rr.OK {
			ro = rr.Digest
		}
		short := func(x string) string {
			if len(x) > 19 {
				return x[7:19]
			}
			return x
		}
		outs, refs = append(outs, short(o)), append(refs, short(ro))
		if i > 0 && o != ro && c.tag == "" {
			d.count("observation_index_failure_kept_by_the_parsed_index_memo_with_cache_only", c.name)
		}
		if i > 0 && o != ro && c.tag != "" {
			slim := br
			slim.InstalledDB = ""
			d.violation(c.tag, map[string]any{"exp": "shared-cache-object", "name": c.name,
				"fault":            map[string]any{"suffix": c.suffix, "status": c.status, "cut": c.cut, "requests": c.nfault, "hits": f.hits},
				"build_in_process": i + 1, "result": slim, "without_cache": ro,
				"what": "builds of ONE process sharing one apk.Cache; the origin fails transiently during build 1 only; a later build differs from the same build of the same process history without cache"})
		}
		// the sequence of calls the coalescing object saw: the work fails while the fault lasts, then succeeds
		sc := "(OOk \"ok\")"
		if i == 0 {
			sc = "(OErr \"fault\")"
		}
		res := "(OErr \"fault\")"
		if br.OK {
			res = "(OOk \"ok\")"
		}
		calls = append(calls, gal.Pair(gal.Str(c.probe), sc))
		obs = append(obs, fmt.Sprintf("{| oc_key := %s; oc_exec := %s; oc_out := %s; oc_res := %s |}", gal.Str(c.probe), gal.Bool(seen[i]), sc, res))
	}
	d.count("shared_cache_object", fmt.Sprintf("%s: with cache %v executed %v / without %v (fault hits %d)", c.name, outs, seen, refs, f.hits))
	if len(r.All) != n {
		d.violation("multi-build-process-died", map[string]any{"exp": "shared-cache-object", "name": c.name, "exit": r.Exit, "killed": r.Killed, "builds_reported": len(r.All)})
	} else if c.obj != "" {
		d.out.Add(gal.Case{
			Term: fmt.Sprintf("(CFlightSeq {| fs_obj := %s; fs_calls := %s; fs_observed := %s |})", c.obj, gal.List(calls), gal.List(obs)),
			Desc: map[string]any{"exp": "shared-cache-object", "name": c.name, "object": c.obj, "builds_ok": outs, "work_executed": seen,
				"what": "three builds in one process sharing one apk.Cache; the origin answers the request that is the work of this object with a fault during build 1 only"},
			Class: "shared/" + c.name,
		})
	}
	// and a fresh process on the same cache directory
	want := ref.All[n-1].Digest
	if !ref.All[n-1].OK {
		want = d.w.run(runSpec{Pkgs: c.pkgs, NoKey: c.nokey}).Res.Digest
	}
	r2 := d.w.run(runSpec{Cache: cache, Pkgs: c.pkgs, NoKey: c.nokey})
	if !r2.Res.OK || r2.Res.Digest != want {
		slim := r2.Res
		slim.InstalledDB = ""
		d.violation("later-process-differs-after-transient-fault", map[string]any{"exp": "shared-cache-object", "name": c.name, "result": slim, "want": want})
	}
	desc := map[string]any{"exp": "shared-cache-object", "name": c.name, "outcomes": outs}
	d.addListing(cache, "shared/"+c.name, desc)
	d.seq = true
	o := d.checkOffline("offline after a transient fault ("+c.name+")", c.pkgs, cache, desc)
	d.seq = false
	d.count("shared_offline", c.name+"="+o)
}

// stageFailedDownload: the index download of a NEWER revision fails in a process that SURVIVES
// (the connection is cut after `off` bytes; io.Copy returns an error) in a cache that holds an older
// revision and every package. Regression replay of finding C19-F5 (fixed by c5d0145): before the fix the
// temporary file stayed, was the newest entry of APKINDEX/ and every offline build opened it and
// failed. Now retrieveAndSaveFile removes it and fetchOffline only looks at advertised names: the
// offline build is the image of the older revision. The real fetchOffline's choice in the directory
// the failure left behind is compared with the model and judged by validate_offline (a partial entry
// opened = viol:offline-opens-partial-entry).
func (d *driver) stageFailedDownload() {
	pk := []string{"plain", "solo"}
	ix := d.w.revs[1].index
	bnd := firstGzipMember(ix)
	offs := []int{0, 1, bnd, bnd + 18, len(ix) - 1}
	if d.tier != "thorough" {
		offs = []int{0, bnd, len(ix) - 1}
	}
	for _, off := range offs {
		cache := d.newCache()
		d.w.setRev(0)
		d.w.clearFaults()
		r0 := d.w.run(runSpec{Cache: cache, Pkgs: pk})
		d.checkBuild("failed-download warm-up", 0, pk, cache, r0, map[string]any{"exp": "failed-download", "offset": off})
		time.Sleep(15 * time.Millisecond)
		d.w.setRev(1)
		f := d.w.faultAt("/x86_64/APKINDEX.tar.gz", 0, off, 1)
		r1 := d.w.run(runSpec{Cache: cache, Pkgs: pk})
		d.w.clearFaults()
		desc := map[string]any{"exp": "failed-download", "offset": off, "first_gzip_member": bnd, "index_bytes": len(ix),
			"failed_build": map[string]any{"ok": r1.Res.OK, "err": r1.Res.Err, "killed": r1.Killed}, "fault_hits": f.hits}
		if r1.Res.OK || r1.Killed {
			d.violation("build-succeeds-on-a-cut-index-download", desc)
		}
		left := d.w.leftoverIndexTmp(cache)
		desc["leftover_tmp_sizes"] = left
		d.addListing(cache, "failed-download/after-failure", desc)
		// what the real fetchOffline opens in the directory the failed download left behind
		d.emitOffline(cache, d.w.indexURL(), "APKINDEX.tar.gz", "failed-download/offline-pick",
			map[string]any{"exp": "failed-download", "offset": off, "name": fmt.Sprintf("cut-at-%d", off)}, d.w.classifyIndex)
		d.seq = true
		o := d.checkOffline("offline after an index download that failed in a surviving process", pk, cache, desc)
		d.seq = false
		d.count("offline_after_failed_index_download", fmt.Sprintf("off=%d leftover=%v -> %s", off, left, o))
		if o == "error" {
			// not a wrong image, and the property allows an offline build to fail; recorded (what is raised is
			// the partial entry being opened, by the validator on the case emitted above)
			d.count("offline_fails_although_a_complete_revision_is_cached", fmt.Sprintf("off=%d", off))
		}
		d.w.setRev(1)
		r2 := d.w.run(runSpec{Cache: cache, Pkgs: pk})
		d.checkBuild("recovery after a failed index download", 1, pk, cache, r2, desc)
		d.seq = true
		d.count("offline_after_recovery_from_failed_download", d.checkOffline("offline after recovery from a failed index download", pk, cache, desc))
		d.seq = false
	}
}

// leftoverIndexTmp: sizes of the regular *.tmp files in APKINDEX/ that no advertised name points at
func (w *world) leftoverIndexTmp(cache string) []int64 {
	dir := filepath.Join(cache, w.cacheRepoDir(), arch, "APKINDEX")
	des, _ := os.ReadDir(dir)
	targets := map[string]bool{}
	for _, de := range des {
		if de.Type()&os.ModeSymlink != 0 {
			if t, err := os.Readlink(filepath.Join(dir, de.Name())); err == nil {
				targets[filepath.Base(t)] = true
			}
		}
	}
	out := []int64{}
	for _, de := range des {
		if de.Type().IsRegular() && !targets[de.Name()] {
			if fi, err := de.Info(); err == nil {
				out = append(out, fi.Size())
			}
		}
	}
	return out
}

// stageOfflineKeys: the keyring is given as two URLs in ONE URL directory (…/keys/a.rsa.pub,
// …/keys/b.rsa.pub). Online builds cache each under <etag>.etag in the same cache directory;
// an offline build must reproduce the image (each key file with ITS bytes) or fail.
func (d *driver) stageOfflineKeys() {
	pk := []string{"solo"}
	d.w.setRev(0)
	keys := []string{d.w.repoURL() + "/keys/" + d.w.key.Name, d.w.repoURL() + "/keys/" + d.w.extraKey.Name}
	for round, ks := range [][]string{keys, {keys[1], keys[0]}} {
		ref := d.w.run(runSpec{Pkgs: pk, Keys: ks})
		if !ref.Res.OK {
			fmt.Fprintf(os.Stderr, "offline-keys: reference build failed: %+v\n", ref.Res)
			d.bail()
		}
		cache := d.newCache()
		r := d.w.run(runSpec{Cache: cache, Pkgs: pk, Keys: ks})
		desc := map[string]any{"exp": "offline-keys", "keyring": []string{"<repo>/keys/" + filepath.Base(ks[0]), "<repo>/keys/" + filepath.Base(ks[1])}, "round": round}
		if !r.Res.OK || r.Res.Digest != ref.Res.Digest {
			d.violation("digest-differs-with-cache", map[string]any{"exp": "offline-keys", "what": "online build with two URL keys", "err": r.Res.Err, "digest": r.Res.Digest, "want": ref.Res.Digest})
		}
		// the two downloads run concurrently inside one build: fix which entry is the newer one (round 0: the
		// repository's key, round 1: the other one) so that both outcomes are seen on every run
		newer := d.w.key.Pub
		if round == 1 {
			newer = d.w.extraKey.Pub
		}
		kdir := offlineDir(cache, ks[0])
		if des, err := os.ReadDir(kdir); err == nil {
			for _, de := range des {
				if b, err := os.ReadFile(filepath.Join(kdir, de.Name())); err == nil && bytes.Equal(b, newer) {
					lutimes(filepath.Join(kdir, de.Name()), time.Now().Unix()+5)
				}
			}
		}
		// (no listing case: the origin table of the validator knows packages and indexes, not key files)
		for _, k := range ks {
			d.emitOffline(cache, k, filepath.Base(k), "offline-keys/offline-pick",
				map[string]any{"exp": "offline-keys", "round": round, "name": "request for " + filepath.Base(k)},
				func(b []byte) (string, string, bool) {
					switch {
					case bytes.Equal(b, d.w.key.Pub):
						return d.w.key.Name, "only", true
					case bytes.Equal(b, d.w.extraKey.Pub):
						return d.w.extraKey.Name, "only", true
					}
					return "", "", false
				})
		}
		o := d.w.run(runSpec{Cache: cache, Pkgs: pk, Keys: ks, Offline: true})
		out := "error"
		if o.Res.OK && o.Res.Digest == ref.Res.Digest {
			out = "same"
		} else if o.Res.OK {
			out = "DIFFERENT"
			desc["offline_digest"], desc["want"] = o.Res.Digest, ref.Res.Digest
			desc["what"] = "offline build with a keyring of two URLs in one directory: fetchOffline answers each request with the newest entry of the shared cache directory"
			d.violation("offline-entry-of-another-file", desc)
		}
		why := ""
		if strings.Contains(o.Res.Err, "signature verification failed") {
			why = " (index signature verification fails: the repository's key file holds the other key)"
		}
		d.count("offline_two_url_keys", out+why)
		// two builds in ONE process sharing one apk.Cache (the HEAD responses of both key files are in its etag
		// cache during the second build): each must equal the build without cache
		c2 := d.newCache()
		r2 := d.w.run(runSpec{Cache: c2, Pkgs: pk, Keys: ks, N: 2})
		for i, br := range r2.All {
			if !br.OK || br.Digest != ref.Res.Digest {
				d.violation("digest-differs-with-cache", map[string]any{"exp": "offline-keys", "what": "build with a keyring of two URLs in one directory, builds of one process sharing one apk.Cache",
					"build_in_process": i + 1, "err": br.Err, "digest": br.Digest, "want": ref.Res.Digest, "round": round})
			}
		}
		if len(r2.All) != 2 {
			d.violation("multi-build-process-died", map[string]any{"exp": "offline-keys", "builds_reported": len(r2.All)})
		}
	}
}

// pruneTar removes <datahash>.dat.tar (the advertised name only) from the package's cache directory
func (w *world) pruneTar(cache string, b *synthrepo.Built) {
	os.Remove(filepath.Join(cache, w.cacheRepoDir(), filepath.FromSlash(pdirOf(b)), hex.EncodeToString(b.DataSHA256)+".dat.tar"))
}

// classifyIndex: which served index revision a file of APKINDEX/ holds (or is a prefix of)
func (w *world) classifyIndex(b []byte) (file, rev string, whole bool) {
	if len(b) == 0 {
		return "APKINDEX.tar.gz", "?", false
	}
	for i, r := range w.revs {
		if len(b) <= len(r.index) && bytes.Equal(b, r.index[:len(b)]) {
			return "APKINDEX.tar.gz", fmt.Sprintf("rev%d", i), len(b) == len(r.index)
		}
	}
	return "", "", false
}

// indexURL of the world's repository
func (w *world) indexURL() string { return w.repoURL() + "/" + arch + "/APKINDEX.tar.gz" }

func permutations(n int) [][]int {
	if n == 1 {
		return [][]int{{0}}
	}
	var out [][]int
	for _, p := range permutations(n - 1) {
		for i := 0; i <= len(p); i++ {
			q := append(append(append([]int{}, p[:i]...), n-1), p[i:]...)
			out = append(out, q)
		}
	}
	return out
}

// stageOfflineRevisions: the repository publishes its revisions in some order, a caching build runs
// after each publication (every one downloads a new index revision into APKINDEX/), then an OFFLINE
// build: it must be the image of the revision downloaded LAST — which is also what an online build
// without cache gives at that moment — or an error; for every order of publication, i.e. for every
// relation between the order of the names <base32 etag>.tar.gz and the order of the downloads.
func (d *driver) stageOfflineRevisions() {
	pk := []string{"solo", "plain"}
	perms := permutations(len(d.w.revs))
	for _, p := range perms {
		cache := d.newCache()
		var names []string
		var seq [][2]string
		for _, rev := range p {
			d.w.setRev(rev)
			seq = append(seq, [2]string{d.w.revs[rev].b32, d.w.revs[rev].b32})
			r := d.w.run(runSpec{Cache: cache, Pkgs: pk})
			d.checkBuild("offline-revisions: caching build", rev, pk, cache, r, map[string]any{"exp": "offline-revisions", "publications": p, "rev": rev})
			names = append(names, d.w.revs[rev].b32)
			time.Sleep(12 * time.Millisecond) // distinct modification times on coarse clocks
		}
		last := p[len(p)-1]
		desc := map[string]any{"exp": "offline-revisions", "publications": p, "index_names_in_download_order": names,
			"what": "a caching build after each publication, then an offline build, compared with the online build without cache"}
		picked := d.emitOffline(cache, d.w.indexURL(), "APKINDEX.tar.gz", "offline-revisions", desc, d.w.classifyIndex)
		d.emitTimes(cache, "index-times/three-publications", seq, map[string]any{"exp": "index-times", "publications": p})
		o := d.w.run(runSpec{Cache: cache, Pkgs: pk, Offline: true})
		want := d.ref(last, pk)
		out := "error"
		switch {
		case o.Res.OK && o.Res.Digest == want:
			out = "last-downloaded"
		case o.Res.OK:
			out = "OTHER"
			which := -1
			for r := range d.w.revs {
				if d.ref(r, pk) == o.Res.Digest {
					which = r
				}
			}
			tag := "offline-digest-differs"
			if which >= 0 {
				tag = "offline-uses-an-older-cached-revision"
			}
			d.violation(tag, map[string]any{"exp": "offline-revisions", "publications": p, "index_names_in_download_order": names,
				"offline_digest": o.Res.Digest, "want": want, "offline_image_is_revision": which, "last_downloaded_revision": last, "fetchOffline_opened": picked,
				"what": "three publications, a caching build after each, then an offline build: not the image of the revision downloaded last (= the online build without cache)"})
		}
		d.count("offline_after_three_publications", out)
		if len(p) == 3 && p[0] == 0 {
			// ... a roll-back to a revision that is cached already downloads nothing and changes no time; then an
			// update that lands between the HEAD and the GET of one build (HEAD: the old etag, GET: the new one)
			d.w.setRev(p[0])
			d.w.run(runSpec{Cache: cache, Pkgs: pk})
			seq = append(seq, [2]string{d.w.revs[p[0]].b32, d.w.revs[p[0]].b32})
			d.emitTimes(cache, "index-times/roll-back", seq, map[string]any{"exp": "index-times", "publications": p, "then": "roll-back to the first"})
			c2 := d.newCache()
			d.w.setRev(p[0])
			d.w.flipAfterHead(p[1])
			d.w.run(runSpec{Cache: c2, Pkgs: pk})
			time.Sleep(12 * time.Millisecond)
			d.w.setRev(p[0])
			d.w.run(runSpec{Cache: c2, Pkgs: pk})
			d.emitTimes(c2, "index-times/update-between-head-and-get", [][2]string{{d.w.revs[p[0]].b32, d.w.revs[p[1]].b32}, {d.w.revs[p[0]].b32, d.w.revs[p[0]].b32}},
				map[string]any{"exp": "index-times", "what": "first build: HEAD old, GET new; second build: old"})
		}
	}
}

// ---- the repository's own CLI binary ------------------------------------------------------

func (d *driver) buildCLI() (string, error) {
	repo := os.Getenv("VERIF_REPO")
	if repo == "" {
		repo = "/repo"
	}
	out := filepath.Join(d.w.root, "apko-cli")
	cmd := exec.Command("go", "build", "-tags", "verif", "-o", out, ".")
	cmd.Dir = repo
	cmd.Env = append(os.Environ(), "GOFLAGS=-mod=mod", "GOPROXY=off", "GOSUMDB=off", "GOTOOLCHAIN=local", "CGO_ENABLED=0")
	if b, err := cmd.CombinedOutput(); err != nil {
		return "", fmt.Errorf("building apko: %v\n%s", err, b)
	}
	return out, nil
}

type cliOut struct {
	ok     bool
	killed bool
	layers string // sha256 over the blobs of the image tarball that are layers (sorted)
	err    string
}

// runCLI: `apko build <cfg> c19:e2e <out.tar> --arch x86_64 --sbom=false --build-date … [--cache-dir D] [--offline]`
// with cacheDir == "" there is NO cache: HOME and XDG_CACHE_HOME are unset, so there is no default directory either
func (d *driver) runCLI(bin, cacheDir string, offline bool, pkgs []string, crashAt string) cliOut {
	d.w.mu.Lock()
	d.w.nrun++
	id := d.w.nrun
	d.w.mu.Unlock()
	wd := filepath.Join(d.w.root, fmt.Sprintf("cli-%d", id))
	os.MkdirAll(wd, 0o755)
	defer os.RemoveAll(wd)
	var sb strings.Builder
	fmt.Fprintf(&sb, "contents:\n  repositories:\n    - %q\n  keyring:\n    - %q\n  packages:\n", d.w.repoURL(), d.w.revs[0].repo.KeyPath())
	for _, p := range pkgs {
		fmt.Fprintf(&sb, "    - %q\n", p)
	}
	sb.WriteString("archs:\n  - x86_64\ncmd: /bin/true\n")
	cfg := filepath.Join(wd, "apko.yaml")
	os.WriteFile(cfg, []byte(sb.String()), 0o644)
	tarp := filepath.Join(wd, "out.tar")
	args := []string{"build", cfg, "c19:e2e", tarp, "--arch", "x86_64", "--sbom=false", "--build-date", "1970-01-01T00:00:00Z"}
	if cacheDir != "" {
		args = append(args, "--cache-dir", cacheDir)
	}
	if offline {
		args = append(args, "--offline")
	}
	cmd := exec.Command(bin, args...)
	cmd.Dir = wd
	cmd.Env = []string{"PATH=" + os.Getenv("PATH"), "TMPDIR=" + wd}
	if crashAt != "" {
		cmd.Env = append(cmd.Env, "VERIF_CRASH_AT="+crashAt)
	}
	cmd.SysProcAttr = &syscall.SysProcAttr{Setpgid: true}
	d.w.mu.Lock()
	d.w.children = append(d.w.children, cmd)
	d.w.mu.Unlock()
	b, err := cmd.CombinedOutput()
	out := cliOut{}
	if ee, ok := err.(*exec.ExitError); ok {
		if ws, ok := ee.Sys().(syscall.WaitStatus); ok && ws.Signaled() {
			out.killed = true
		}
	}
	if err != nil {
		msg := string(b)
		if len(msg) > 400 {
			msg = msg[len(msg)-400:]
		}
		out.err = msg
		return out
	}
	// the image: every blob of the tarball except the config and the manifest (their bytes name the layer too)
	f, err := os.Open(tarp)
	if err != nil {
		out.err = err.Error()
		return out
	}
	defer f.Close()
	tr := tar.NewReader(f)
	var hs []string
	for {
		hdr, err := tr.Next()
		if err != nil {
			break
		}
		bb, _ := io.ReadAll(tr)
		hs = append(hs, hdr.Name+"="+sha(bb))
	}
	sort.Strings(hs)
	out.ok, out.layers = true, sha([]byte(strings.Join(hs, "\n")))
	return out
}

// stageCLI: one scenario through `apko build` itself (the binary built from the repository under
// test, with the verif tag so that the crash-point markers work inside the CLI too): cold, warm,
// repository update, a build killed while populating, recovery, offline — each compared with the
// CLI build without any cache.
func (d *driver) stageCLI() {
	bin, err := d.buildCLI()
	if err != nil {
		fmt.Fprintln(os.Stderr, err)
		d.violation("apko-cli-does-not-build", map[string]any{"exp": "cli", "error": err.Error()})
		return
	}
	pk := []string{"app", "plain", "solo"}
	refs := map[int]string{}
	for r := 0; r < 2; r++ {
		d.w.setRev(r)
		a, b := d.runCLI(bin, "", false, pk, ""), d.runCLI(bin, "", false, pk, "")
		if !a.ok || a.layers != b.layers {
			fmt.Fprintf(os.Stderr, "cli reference build failed or is not reproducible: %+v %+v\n", a, b)
			d.bail()
		}
		refs[r] = a.layers
	}
	cache := d.newCache()
	type st struct {
		name    string
		rev     int
		offline bool
		crash   string
	}
	steps := []st{
		{"cold", 0, false, ""}, {"warm", 0, false, ""}, {"offline", 0, true, ""},
		{"update-killed-after-first-package-link", 1, false, "pkg.post-advertise-dat#1"},
		{"offline-after-kill", 1, true, ""},
		{"recovery", 1, false, ""}, {"offline-after-recovery", 1, true, ""}, {"rollback", 0, false, ""},
	}
	for _, s := range steps {
		d.w.setRev(s.rev)
		o := d.runCLI(bin, cache, s.offline, pk, s.crash)
		desc := map[string]any{"exp": "cli", "step": s.name, "rev": s.rev, "offline": s.offline, "crash_at": s.crash, "ok": o.ok, "killed": o.killed, "err": o.err}
		outcome := "same"
		switch {
		case s.crash != "":
			outcome = fmt.Sprintf("killed=%v", o.killed)
			if !o.killed {
				d.violation("cli-build-not-killed-at-hook", desc)
			}
		case !o.ok && s.offline:
			outcome = "error"
		case !o.ok:
			outcome = "FAILS"
			d.violation("build-with-cache-fails", desc)
		case s.offline && (o.layers == refs[0] || o.layers == refs[1]):
			outcome = "served-revision"
		case o.layers != refs[s.rev]:
			outcome = "DIFFERENT"
			tag := "digest-differs-with-cache"
			if s.offline {
				tag = "offline-digest-differs"
			}
			d.violation(tag, desc)
		}
		d.count("cli_scenario", s.name+"="+outcome)
		d.addListing(cache, "cli/"+s.name, desc)
	}
}

// ---- wave 3 -----------------------------------------------------------------------------------

// stageEtagShapes: the update histories of the crash stage (build, update, build, roll-back, …, offline)
// with the origin naming its index revisions by ETags of other shapes: ~140 bytes that differ only in
// their tail, weak validators with characters that base32 expands. Every build is compared with the build
// WITHOUT cache and the scenario is replayed on the model (the etag is an opaque name there: the file
// name must be an injective function of it, c19_etag_file_name_injective).
func (d *driver) stageEtagShapes() {
	defer d.w.setStyle("default")
	for _, st := range []string{"long-tail", "expanding"} {
		d.w.setStyle(st)
		d.runScenario("update/etag-"+st, "solo", []sbuild{{Rev: 0}, {Rev: 1}, {Rev: 0}, {Rev: 2}, {Rev: 1}})
		if d.tier == "thorough" {
			d.runScenario("update-idx-kill/etag-"+st, "solo", []sbuild{{Rev: 0}, {Rev: 1, Crash: crashSpec{"idx", 4}}, {Rev: 1}, {Rev: 0}})
			d.runScenario("update-between-head-and-get/etag-"+st, "solo", []sbuild{{Rev: 0, Flip: 1}, {Rev: 0}, {Rev: 1}, {Rev: 0}})
		}
		// ... and right after each update an offline build: the revision downloaded last
		pk := []string{"solo", "plain"}
		cache := d.newCache()
		for _, rev := range []int{0, 1, 2} {
			d.w.setRev(rev)
			r := d.w.run(runSpec{Cache: cache, Pkgs: pk})
			desc := map[string]any{"exp": "etag-shapes", "style": st, "rev": rev, "etag_bytes": len(d.w.revs[rev].etag)}
			d.checkBuild("etag-shapes: build after update", rev, pk, cache, r, desc)
			time.Sleep(12 * time.Millisecond)
			o := d.w.run(runSpec{Cache: cache, Pkgs: pk, Offline: true})
			out := "error"
			if o.Res.OK && o.Res.Digest == d.ref(rev, pk) {
				out = "last-downloaded"
			} else if o.Res.OK {
				out = "OTHER"
				d.violation("offline-uses-an-older-cached-revision", map[string]any{"exp": "etag-shapes", "style": st, "rev": rev, "offline_digest": o.Res.Digest, "want": d.ref(rev, pk),
					"what": "build, update, build on one cache directory; the offline build after the update is not the image of the revision downloaded last"})
			}
			d.count("etag_shapes_offline", st+"="+out)
			d.emitOffline(cache, d.w.indexURL(), "APKINDEX.tar.gz", "etag-shapes/offline-pick", map[string]any{"exp": "etag-shapes", "style": st, "name": fmt.Sprintf("after-rev-%d", rev)}, d.w.classifyIndex)
		}
	}
}

// stageEtagTooLong: replay of finding C19-F8. An index revision whose ETag has more than 154 bytes: its base32
// form plus ".tar.gz" exceeds NAME_MAX (255), AdvertiseCachedFile's symlink fails with ENAMETOOLONG, and the build
// WITH the cache fails — every time, there is no fall-back to the response that was just downloaded — while the build
// without cache succeeds.
func (d *driver) stageEtagTooLong() {
	defer d.w.setStyle("default")
	d.w.setStyle("huge")
	pk := []string{"solo"}
	d.w.setRev(0)
	if r0 := d.w.run(runSpec{Pkgs: pk}); !r0.Res.OK || r0.Res.Digest != d.ref(0, pk) {
		fmt.Fprintf(os.Stderr, "etag-too-long: the build without cache fails or differs under a long ETag: %+v\n", r0.Res)
		d.bail()
	}
	cache := d.newCache()
	for i := 0; i < 2; i++ {
		r := d.w.run(runSpec{Cache: cache, Pkgs: pk})
		desc := map[string]any{"exp": "etag-too-long", "etag_bytes": len(d.w.revs[0].etag), "file_name_chars": len(d.w.revs[0].b32) + len(".tar.gz"), "build": i + 1}
		switch {
		case !r.Res.OK && strings.Contains(r.Res.Err, "file name too long"):
			desc["err"] = r.Res.Err[len(r.Res.Err)-min(len(r.Res.Err), 160):]
			desc["what"] = "the build with the cache fails for an index whose ETag does not fit into a file name; the build without cache succeeds"
			d.violation("etag-too-long-for-a-file-name", desc)
			d.count("etag_too_long", "build-with-cache-fails")
		default:
			d.checkBuild("etag-too-long", 0, pk, cache, r, desc)
			d.count("etag_too_long", fmt.Sprintf("ok=%v", r.Res.OK))
		}
	}
}

// stageSharedEtag: TWO repositories behind one shared apk.Cache whose indexes carry the SAME ETag value
// (identical strings; and a weak/strong pair), both entries cold, the two index downloads of the build
// made to overlap by the origin. What each repository's caller gets must be what THAT repository serves:
// every build (cold, warm, offline) is compared with the build WITHOUT cache.
func (d *driver) stageSharedEtag() {
	pk := []string{"app", "solo"}
	repos := []string{d.w.srv.URL + "/repo", d.w.srv.URL + "/repo2"}
	set := func(rev2 int, same string, overlap int) {
		d.w.mu.Lock()
		d.w.repo2rev, d.w.sameEtag, d.w.overlap, d.w.arrived = rev2, same, overlap, 0
		d.w.mu.Unlock()
	}
	defer set(-1, "", 0)
	for _, same := range []string{`"one-etag-for-every-index"`, `W/"one-etag-for-every-index"`} {
		d.w.setRev(0)
		set(1, same, 0)
		ref := d.w.run(runSpec{Pkgs: pk, Repos: repos})
		ref2 := d.w.run(runSpec{Pkgs: pk, Repos: repos})
		if !ref.Res.OK || ref.Res.Digest != ref2.Res.Digest {
			fmt.Fprintf(os.Stderr, "shared-etag: reference build with two repositories failed or is not reproducible: %+v\n", ref.Res)
			d.bail()
		}
		cache := d.newCache()
		for _, step := range []string{"cold-overlapping", "warm", "offline"} {
			ov := 0
			if step == "cold-overlapping" {
				ov = 2
			}
			set(1, same, ov)
			r := d.w.run(runSpec{Cache: cache, Pkgs: pk, Repos: repos, Offline: step == "offline"})
			out := "same"
			desc := map[string]any{"exp": "shared-etag", "etag": same, "step": step, "repositories": []string{"<origin>/repo (revision 0)", "<origin>/repo2 (revision 1)"},
				"err": r.Res.Err, "digest": r.Res.Digest, "want": ref.Res.Digest,
				"what": "two repositories whose indexes carry the same ETag value, one shared apk.Cache, cold cache, overlapping index downloads"}
			switch {
			case !r.Res.OK && step == "offline":
				out = "error"
			case !r.Res.OK:
				out = "FAILS"
				d.violation("build-with-cache-fails", desc)
			case r.Res.Digest != ref.Res.Digest:
				out = "DIFFERENT"
				tag := "digest-differs-with-cache"
				if step == "offline" {
					tag = "offline-digest-differs"
				}
				d.violation(tag, desc)
			}
			d.count("shared_etag_two_repositories", fmt.Sprintf("%s %s=%s", same, step, out))
		}
	}
}

// emitTimes: the advertised names of APKINDEX/ ordered by their REAL modification times (Lstat), next to the
// sequence of builds that produced them (etag at the HEAD, etag at the GET of each): the model orders the same
// names by the step that advertised them (Model/CacheTimes.v, c19_offline_opens_last_advertised)
func (d *driver) emitTimes(cache, class string, builds [][2]string, desc map[string]any) {
	dir := offlineDir(cache, d.w.indexURL())
	des, _ := os.ReadDir(dir)
	type nt struct {
		stem string
		t    int64
	}
	var l []nt
	for _, de := range des {
		if strings.HasSuffix(de.Name(), ".tmp") {
			continue
		}
		if fi, err := de.Info(); err == nil {
			l = append(l, nt{strings.TrimSuffix(de.Name(), ".tar.gz"), fi.ModTime().UnixNano()})
		}
	}
	sort.SliceStable(l, func(i, j int) bool { return l[i].t < l[j].t })
	var obs, bs []string
	for _, x := range l {
		obs = append(obs, gal.Str(x.stem))
	}
	for _, b := range builds {
		bs = append(bs, gal.Pair(gal.Str(b[0]), gal.Str(b[1])))
	}
	desc["index_names_by_mtime"] = len(l)
	d.out.Add(gal.Case{
		Term:  fmt.Sprintf("(CTimes {| tc2_tab := tab; tc2_dir := %s; tc2_builds := %s; tc2_observed := %s |})", gal.Str(idir), gal.List(bs), gal.List(obs)),
		Desc:  desc,
		Class: class,
		Key:   fmt.Sprintf("%s/%v/%v", class, builds, obs),
	})
}
