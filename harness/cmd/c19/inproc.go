package main

// In-process correspondence for the coalescing objects and for fetchOffline: the REAL
// flightCache / Cache / cacheTransport (through pkg/apk/apk/export_c19_verif.go) driven with
// scripted outcomes of fn and forced arrivals; real cache directories with chosen modification
// times handed to the real fetchOffline.

import (
	"bytes"
	"encoding/base32"
	"errors"
	"fmt"
	"io"
	"net/http"
	"net/url"
	"os"
	"path/filepath"
	"sort"
	"strings"
	"sync"
	"time"

	"chainguard.dev/apko/pkg/apk/apk"
	"golang.org/x/sys/unix"

	"verifharness/gal"
)

type scripted struct {
	key string
	ok  bool
	val string
}

func (s scripted) outcome() string {
	if s.ok {
		return "(OOk " + gal.Str(s.val) + ")"
	}
	return "(OErr " + gal.Str(s.val) + ")"
}

type observed struct {
	key  string
	exec bool
	out  scripted
	ok   bool
	val  string
}

func (o observed) term() string {
	res := "(OErr " + gal.Str(o.val) + ")"
	if o.ok {
		res = "(OOk " + gal.Str(o.val) + ")"
	}
	return fmt.Sprintf("{| oc_key := %s; oc_exec := %s; oc_out := %s; oc_res := %s |}", gal.Str(o.key), gal.Bool(o.exec), o.out.outcome(), res)
}

// a coalescing object under test: call(key, fn) runs ONE call of the real code in which the work is fn
type flightObj struct {
	name string // Coq constructor
	call func(key string, fn func() (string, error)) (string, error)
	// onDisk: a success is also remembered on disk (cacheTransport.get): scripts never call a key again after a success
	onDisk bool
}

var errScripted = errors.New("scripted failure")

// scriptedRT: the wrapped client of a cacheTransport; every request runs the current fn
type scriptedRT struct {
	mu sync.Mutex
	fn func() (string, error)
	// etagFor: the ETag header of a response whose body is v (default: the quoted body)
	etagFor func(req *http.Request, v string) string
}

func (rt *scriptedRT) RoundTrip(req *http.Request) (*http.Response, error) {
	rt.mu.Lock()
	fn := rt.fn
	rt.mu.Unlock()
	v, err := fn()
	if err != nil {
		return nil, err
	}
	h := http.Header{}
	if rt.etagFor != nil {
		h["Etag"] = []string{rt.etagFor(req, v)}
	} else {
		h.Set("ETag", `"`+v+`"`)
	}
	return &http.Response{StatusCode: 200, Header: h, Body: io.NopCloser(strings.NewReader(v)), ContentLength: int64(len(v)), Request: req}, nil
}

func unb32(s string) string {
	b, err := base32.StdEncoding.DecodeString(s)
	if err != nil {
		return "?" + s
	}
	return string(b)
}

func flightObjects(base string) []flightObj {
	objs := []flightObj{}
	// flightCache[string]
	f := apk.VerifC19NewFlight()
	objs = append(objs, flightObj{name: "FFlight", call: f.Do})
	// the key-discovery instance inside a Cache
	c := apk.NewCache(true)
	objs = append(objs, flightObj{name: "FFlight", call: func(key string, fn func() (string, error)) (string, error) {
		ks, err := apk.VerifC19DiscoverKeysDo(c, key, func() ([]apk.Key, error) {
			v, err := fn()
			if err != nil {
				return nil, err
			}
			return []apk.Key{{ID: v}}, nil
		})
		if err != nil {
			return "", err
		}
		if len(ks) != 1 {
			return "", fmt.Errorf("unexpected number of keys %d", len(ks))
		}
		return ks[0].ID, nil
	}})
	// cacheTransport.head, with and without an etag cache
	for _, etag := range []bool{true, false} {
		rt := &scriptedRT{}
		dir := filepath.Join(base, fmt.Sprintf("inproc-head-%v", etag))
		cl := apk.VerifC19CacheClient(dir, false, apk.NewCache(etag), &http.Client{Transport: rt}, true)
		name := "FHeadEtag"
		if !etag {
			name = "FHeadNoEtag"
		}
		objs = append(objs, flightObj{name: name, call: func(key string, fn func() (string, error)) (string, error) {
			rt.mu.Lock()
			rt.fn = fn
			rt.mu.Unlock()
			req, _ := http.NewRequest(http.MethodHead, "http://origin.invalid/"+key+"/x86_64/APKINDEX.tar.gz", nil)
			resp, err := cl.Do(req)
			if err != nil {
				return "", err
			}
			return strings.Trim(resp.Header.Get("ETag"), `"`), nil
		}})
	}
	// cacheTransport.head for several FILES OF ONE URL DIRECTORY (keyring entries given as URLs): the keys of
	// the etag cache and of the group must tell them apart
	{
		rt := &scriptedRT{}
		dir := filepath.Join(base, "inproc-head-samedir")
		cl := apk.VerifC19CacheClient(dir, false, apk.NewCache(true), &http.Client{Transport: rt}, true)
		objs = append(objs, flightObj{name: "FHeadEtag", call: func(key string, fn func() (string, error)) (string, error) {
			rt.mu.Lock()
			rt.fn = fn
			rt.mu.Unlock()
			req, _ := http.NewRequest(http.MethodHead, "http://origin.invalid/repo/keys/"+key+".rsa.pub", nil)
			resp, err := cl.Do(req)
			if err != nil {
				return "", err
			}
			return strings.Trim(resp.Header.Get("ETag"), `"`), nil
		}})
	}
	// cacheTransport.get
	{
		rt := &scriptedRT{}
		dir := filepath.Join(base, "inproc-get")
		cl := apk.VerifC19CacheClient(dir, false, apk.NewCache(true), &http.Client{Transport: rt}, true)
		objs = append(objs, flightObj{name: "FGet", onDisk: true, call: func(key string, fn func() (string, error)) (string, error) {
			rt.mu.Lock()
			rt.fn = fn
			rt.mu.Unlock()
			req, _ := http.NewRequest(http.MethodGet, "http://origin.invalid/"+key+"/x86_64/APKINDEX.tar.gz", nil)
			// the etag of an earlier HEAD (a name that is not on disk)
			req.Header.Set("I-Cant-Believe-Its-Not-If-None-Match", base32.StdEncoding.EncodeToString([]byte("head-of-"+key)))
			resp, err := cl.Do(req)
			if err != nil {
				return "", err
			}
			defer resp.Body.Close()
			b, err := io.ReadAll(resp.Body)
			return string(b), err
		}})
	}
	// cacheTransport.get for DIFFERENT index URLs (several repositories behind one shared Cache) whose HEADs reported the
	// SAME etag value and whose GET responses carry the same ETag (identical strings; and a weak/strong pair of one
	// value): the body each URL's caller gets must be the one fetched for THAT URL
	for _, weak := range []bool{false, true} {
		weak := weak
		rt := &scriptedRT{etagFor: func(req *http.Request, v string) string {
			if weak && strings.Contains(req.URL.Path, "/b/") {
				return `W/"one-etag-for-every-index"`
			}
			return `"one-etag-for-every-index"`
		}}
		dir := filepath.Join(base, fmt.Sprintf("inproc-get-same-etag-%v", weak))
		cl := apk.VerifC19CacheClient(dir, false, apk.NewCache(true), &http.Client{Transport: rt}, true)
		objs = append(objs, flightObj{name: "FGet", onDisk: true, call: func(key string, fn func() (string, error)) (string, error) {
			rt.mu.Lock()
			rt.fn = fn
			rt.mu.Unlock()
			req, _ := http.NewRequest(http.MethodGet, "http://origin.invalid/"+key+"/x86_64/APKINDEX.tar.gz", nil)
			req.Header.Set("I-Cant-Believe-Its-Not-If-None-Match", base32.StdEncoding.EncodeToString([]byte("one-etag-for-every-index")))
			resp, err := cl.Do(req)
			if err != nil {
				return "", err
			}
			defer resp.Body.Close()
			b, err := io.ReadAll(resp.Body)
			return string(b), err
		}})
	}
	return objs
}

// runSeq: the calls of one script, one after the other, through the real object
func runSeq(o flightObj, script []scripted) []observed {
	var out []observed
	for _, sc := range script {
		sc := sc
		executed := false
		v, err := o.call(sc.key, func() (string, error) {
			executed = true
			if sc.ok {
				return sc.val, nil
			}
			return "", fmt.Errorf("%s: %w", sc.val, errScripted)
		})
		ob := observed{key: sc.key, exec: executed, out: sc}
		if err == nil {
			ob.ok, ob.val = true, v
		} else {
			ob.val = scriptMsg(err)
		}
		out = append(out, ob)
	}
	return out
}

func (d *driver) stageFlights() {
	nrand := 6
	if d.tier == "thorough" {
		nrand = 150
	}
	mk := func(key string, ok bool, i int) scripted {
		if ok {
			return scripted{key, true, fmt.Sprintf("v%d", i)}
		}
		return scripted{key, false, fmt.Sprintf("e%d", i)}
	}
	corpus := [][]scripted{
		// a failed flight is not memoised: the next call executes again and succeeds; then the success is
		{mk("a", false, 1), mk("a", true, 2), mk("a", true, 3), mk("a", false, 4)},
		{mk("a", false, 1), mk("a", false, 2), mk("a", false, 3), mk("a", true, 4), mk("a", false, 5)},
		{mk("a", true, 1), mk("b", false, 2), mk("a", false, 3), mk("b", true, 4), mk("b", true, 5), mk("a", true, 6)},
		{mk("a", false, 1), mk("b", false, 2), mk("c", true, 3), mk("b", true, 4), mk("a", true, 5), mk("c", false, 6)},
		{},
	}
	round := 0
	for _, mkObj := range []int{0, 1, 2, 3, 4, 5, 6, 7} {
		var scripts [][]scripted
		scripts = append(scripts, corpus...)
		for i := 0; i < nrand; i++ {
			var sc []scripted
			n := 1 + d.rnd.Intn(8)
			for j := 0; j < n; j++ {
				sc = append(sc, mk(gal.Pick(d.rnd, []string{"a", "b", "c"}), d.rnd.Chance(1, 2), j+1))
			}
			scripts = append(scripts, sc)
		}
		for si, sc := range scripts {
			// a fresh object per script
			o := d.flightObjectsAt(mkObj, round)
			round++
			if o.onDisk {
				// never call a key again after its success (the file on disk answers then: Model/Cache.v)
				done := map[string]bool{}
				var f []scripted
				for _, c := range sc {
					if done[c.key] {
						continue
					}
					f = append(f, c)
					if c.ok {
						done[c.key] = true
					}
				}
				sc = f
			}
			obs := runSeq(o, sc)
			var calls, ots []string
			for _, c := range sc {
				calls = append(calls, gal.Pair(gal.Str(c.key), c.outcome()))
			}
			for _, ob := range obs {
				ots = append(ots, ob.term())
			}
			desc := map[string]any{"exp": "flight-seq", "object": o.name, "variant": mkObj, "script": fmt.Sprint(sc), "observed": fmt.Sprint(obs)}
			d.out.Add(gal.Case{
				Term:  fmt.Sprintf("(CFlightSeq {| fs_obj := %s; fs_calls := %s; fs_observed := %s |})", o.name, gal.List(calls), gal.List(ots)),
				Desc:  desc,
				Class: "flight-seq/" + o.name,
				Key:   fmt.Sprintf("fs/%d/%d/%v", mkObj, si, sc),
			})
		}
	}
	// concurrent callers (of one key, and of two keys at the same time) while the leaders' executions are held
	for _, mkObj := range []int{0, 1, 2, 4, 5, 6, 7} {
		ns := []int{2, 5}
		if d.tier == "thorough" {
			ns = []int{1, 2, 3, 5, 9, 17}
		}
		for _, n := range ns {
			for _, ok := range []bool{true, false} {
				for _, keys := range [][]string{{"k"}, {"a", "b"}} {
					if len(keys) > n {
						continue
					}
					o := d.flightObjectsAt(mkObj, round)
					round++
					execs, results := runConc(o, keys, n, ok)
					for _, k := range keys {
						d.out.Add(gal.Case{
							Term: fmt.Sprintf("(CFlightConc {| fc_obj := %s; fc_key := %s; fc_callers := %d; fc_execs := %s; fc_results := %s |})",
								o.name, gal.Str(k), len(results[k]), gal.List(execs[k]), gal.List(results[k])),
							Desc: map[string]any{"exp": "flight-conc", "object": o.name, "variant": mkObj, "callers": n, "keys": keys, "key": k, "fn_succeeds": ok,
								"executions": len(execs[k]), "results": results[k]},
							Class: fmt.Sprintf("flight-conc/%s", o.name),
							Key:   fmt.Sprintf("fc/%d/%d/%v/%v/%s/%v", mkObj, n, ok, keys, k, results[k]),
						})
						d.count("flight_conc_executions", fmt.Sprintf("%s n=%d keys=%d -> %d", o.name, n, len(keys), len(execs[k])))
					}
				}
			}
		}
	}
}

// flightObjectsAt: a FRESH instance of object number i
func (d *driver) flightObjectsAt(i, round int) flightObj {
	sub := filepath.Join(d.w.root, fmt.Sprintf("inproc-%d", round))
	os.MkdirAll(sub, 0o755)
	return flightObjects(sub)[i]
}

// scriptMsg: the scripted message of one of our errors (possibly wrapped by net/http), else the text
func scriptMsg(err error) string {
	msg := err.Error()
	if i := strings.Index(msg, ": "+errScripted.Error()); i >= 0 {
		msg = msg[:i]
		if j := strings.LastIndex(msg, " "); j >= 0 {
			msg = msg[j+1:]
		}
		msg = strings.Trim(msg, `":`)
	}
	return msg
}

// runConc: n callers, caller c asks for keys[c mod len(keys)]; the first execution of fn for each key is held
// until every caller has been started and given time to arrive; execution number i for a key returns
// "v<i>-<key>" (or fails with "e<i>-<key>"). Returns, per key, what the executions returned and what the
// callers of that key were handed.
func runConc(o flightObj, keys []string, n int, ok bool) (execs map[string][]string, results map[string][]string) {
	var mu sync.Mutex
	nexec := map[string]int{}
	execs, results = map[string][]string{}, map[string][]string{}
	release := make(chan struct{})
	mkfn := func(key string) func() (string, error) {
		return func() (string, error) {
			mu.Lock()
			nexec[key]++
			i := nexec[key]
			mu.Unlock()
			<-release
			mu.Lock()
			defer mu.Unlock()
			if ok {
				v := fmt.Sprintf("v%d-%s", i, key)
				execs[key] = append(execs[key], "(OOk "+gal.Str(v)+")")
				return v, nil
			}
			e := fmt.Sprintf("e%d-%s", i, key)
			execs[key] = append(execs[key], "(OErr "+gal.Str(e)+")")
			return "", fmt.Errorf("%s: %w", e, errScripted)
		}
	}
	res := make([]string, n)
	var wg sync.WaitGroup
	for c := 0; c < n; c++ {
		key := keys[c%len(keys)]
		wg.Add(1)
		go func(c int) {
			defer wg.Done()
			v, err := o.call(key, mkfn(key))
			if err == nil {
				res[c] = "(OOk " + gal.Str(v) + ")"
				return
			}
			res[c] = "(OErr " + gal.Str(scriptMsg(err)) + ")"
		}(c)
		if c < len(keys) {
			// the leaders first: wait until the execution for this key has started
			for i := 0; i < 2000; i++ {
				mu.Lock()
				s := nexec[key]
				mu.Unlock()
				if s > 0 {
					break
				}
				time.Sleep(time.Millisecond)
			}
		}
	}
	time.Sleep(40 * time.Millisecond) // let the others reach the group
	close(release)
	wg.Wait()
	for c := 0; c < n; c++ {
		k := keys[c%len(keys)]
		results[k] = append(results[k], res[c])
	}
	return execs, results
}

// ---- fetchOffline on real directories ---------------------------------------------------

type fixEntry struct {
	name  string
	mtime int64  // seconds
	link  string // "" = regular file, else the name it points at
	file  string // which URL's bytes ("" unknown)
	rev   string
	whole bool
	data  []byte
}

func lutimes(path string, sec int64) error {
	ts := []unix.Timespec{{Sec: sec}, {Sec: sec}}
	return unix.UtimesNanoAt(unix.AT_FDCWD, path, ts, unix.AT_SYMLINK_NOFOLLOW)
}

// offlinePick: what the real fetchOffline opens for a request of URL u in cache root
func offlinePick(root, u string) (picked string, clen int64, body []byte, err error) {
	cl := apk.VerifC19CacheClient(root, true, apk.NewCache(false), http.DefaultClient, true)
	req, _ := http.NewRequest(http.MethodGet, u, nil)
	resp, err := cl.Do(req)
	if err != nil {
		return "", 0, nil, err
	}
	defer resp.Body.Close()
	if f, ok := resp.Body.(interface{ Name() string }); ok {
		picked = filepath.Base(f.Name())
	}
	body, _ = io.ReadAll(resp.Body)
	return picked, resp.ContentLength, body, nil
}

// offlineDir: the directory the code under test keeps the cached revisions of URL u in (cachePathFromURL +
// cacheDirFromFile of the source of this run: the layout is not assumed here)
func offlineDir(root, u string) string {
	uu, err := url.Parse(u)
	if err != nil {
		return ""
	}
	cf, err := apk.VerifCachePathFromURL(root, *uu)
	if err != nil {
		return ""
	}
	return apk.VerifCacheDirFromFile(cf)
}

func dentryTerm(name string, mtime int64, adv bool, file, rev string, whole bool) string {
	return fmt.Sprintf("{| de_name := %s; de_mtime := %s; de_adv := %s; de_file := %s; de_rev := %s; de_whole := %s |}",
		gal.Str(name), gal.N(uint64(mtime)), gal.Bool(adv), gal.Str(file), gal.Str(rev), gal.Bool(whole))
}

// emitOffline: list dir as os.ReadDir does, classify every entry with classify(bytes) and compare
// the real pick for URL u with the model / validator
func (d *driver) emitOffline(root, u, reqFile, class string, desc map[string]any, classify func(b []byte) (file, rev string, whole bool)) string {
	dir := offlineDir(root, u)
	des, _ := os.ReadDir(dir)
	// rank the modification times (nanoseconds do not fit the case format; only their order matters)
	var times []int64
	infos := map[string]os.FileInfo{}
	for _, de := range des {
		fi, err := de.Info()
		if err != nil {
			continue
		}
		infos[de.Name()] = fi
		times = append(times, fi.ModTime().UnixNano())
	}
	sort.Slice(times, func(i, j int) bool { return times[i] < times[j] })
	rank := map[int64]int64{}
	for _, t := range times {
		if _, ok := rank[t]; !ok {
			rank[t] = int64(len(rank) + 1)
		}
	}
	var ents []string
	var names []string
	for _, de := range des {
		fi := infos[de.Name()]
		if fi == nil {
			continue
		}
		b, err := os.ReadFile(filepath.Join(dir, de.Name())) // follows the link
		file, rev, whole := "", "", false
		if err == nil {
			file, rev, whole = classify(b)
		}
		// an advertised name: whatever is not a temporary name of os.CreateTemp(dir, "*.tmp")
		ents = append(ents, dentryTerm(de.Name(), rank[fi.ModTime().UnixNano()], !strings.HasSuffix(de.Name(), ".tmp"), file, rev, whole))
		names = append(names, fmt.Sprintf("%s@%d", de.Name(), rank[fi.ModTime().UnixNano()]))
	}
	picked, _, _, err := offlinePick(root, u)
	if err != nil {
		picked = ""
	}
	desc["entries"], desc["picked"], desc["request"] = names, picked, reqFile
	if err != nil {
		desc["error"] = err.Error()
	}
	d.out.Add(gal.Case{
		Term:  fmt.Sprintf("(COffline {| of_req := %s; of_entries := %s; of_picked := %s |})", gal.Str(reqFile), gal.List(ents), gal.Str(picked)),
		Desc:  desc,
		Class: class,
		Key:   fmt.Sprintf("%s/%v/%s/%v", class, names, picked, desc["name"]),
	})
	return picked
}

func (d *driver) stageOfflineFixtures() {
	revs := map[string][]byte{}
	for i := 0; i < 4; i++ {
		revs[fmt.Sprintf("r%d", i)] = bytes.Repeat([]byte{byte('A' + i)}, 200+i)
	}
	classify := func(file string) func(b []byte) (string, string, bool) {
		return func(b []byte) (string, string, bool) {
			if len(b) == 0 {
				return file, "?", false
			}
			for r, full := range revs {
				if len(b) <= len(full) && bytes.Equal(b, full[:len(b)]) {
					return file, r, len(b) == len(full)
				}
			}
			return "", "", false
		}
	}
	type fx struct {
		name string
		ents []fixEntry
	}
	tmp := func(n string, t int64, rev string, cut int) fixEntry {
		b := revs[rev]
		whole := true
		if cut >= 0 {
			b, whole = b[:cut], false
		}
		return fixEntry{name: n + ".tmp", mtime: t, rev: rev, whole: whole, data: b}
	}
	lnk := func(etag string, t int64, target string) fixEntry {
		return fixEntry{name: base32.StdEncoding.EncodeToString([]byte(etag)) + ".tar.gz", mtime: t, link: target + ".tmp"}
	}
	corpus := []fx{
		{"empty", nil},
		{"one-revision", []fixEntry{tmp("100", 10, "r0", -1), lnk("e0", 11, "100")}},
		// three revisions; the newest link's NAME sorts first / in the middle / last
		{"three-revisions-newest-sorts-first", []fixEntry{tmp("1", 10, "r0", -1), tmp("2", 20, "r1", -1), tmp("3", 30, "r2", -1), lnk("zz", 11, "1"), lnk("mm", 21, "2"), lnk("aa", 31, "3")}},
		{"three-revisions-newest-sorts-middle", []fixEntry{tmp("1", 10, "r0", -1), tmp("2", 20, "r1", -1), tmp("3", 30, "r2", -1), lnk("zz", 11, "1"), lnk("aa", 21, "2"), lnk("mm", 31, "3")}},
		{"three-revisions-newest-sorts-last", []fixEntry{tmp("1", 10, "r0", -1), tmp("2", 20, "r1", -1), tmp("3", 30, "r2", -1), lnk("aa", 11, "1"), lnk("mm", 21, "2"), lnk("zz", 31, "3")}},
		{"three-revisions-oldest-sorts-last", []fixEntry{tmp("1", 10, "r0", -1), tmp("2", 20, "r1", -1), tmp("3", 30, "r2", -1), lnk("zz", 11, "1"), lnk("aa", 31, "3"), lnk("mm", 21, "2")}},
		// ties: link and target written within one clock tick; two links with one time
		{"tie-link-and-target", []fixEntry{tmp("7", 10, "r0", -1), lnk("e0", 10, "7")}},
		{"tie-two-links", []fixEntry{tmp("1", 5, "r0", -1), tmp("2", 6, "r1", -1), lnk("bb", 9, "1"), lnk("aa", 9, "2")}},
		// leftovers: a complete temporary file of a killed download (newest), a partial one (newest), an empty one
		{"leftover-complete-tmp-newest", []fixEntry{tmp("1", 10, "r0", -1), lnk("e0", 11, "1"), tmp("9", 20, "r1", -1)}},
		{"leftover-partial-tmp-newest", []fixEntry{tmp("1", 10, "r0", -1), lnk("e0", 11, "1"), tmp("9", 20, "r1", 57)}},
		{"leftover-empty-tmp-newest", []fixEntry{tmp("1", 10, "r0", -1), lnk("e0", 11, "1"), tmp("9", 20, "r1", 0)}},
		{"leftover-partial-tmp-older", []fixEntry{tmp("9", 5, "r1", 57), tmp("1", 10, "r0", -1), lnk("e0", 11, "1")}},
		{"only-a-partial-tmp", []fixEntry{tmp("9", 5, "r1", 57)}},
	}
	nrand := 10
	if d.tier == "thorough" {
		nrand = 400
	}
	for i := 0; i < nrand; i++ {
		var es []fixEntry
		n := d.rnd.Intn(5)
		for j := 0; j < n; j++ {
			rev := fmt.Sprintf("r%d", d.rnd.Intn(4))
			cut := -1
			if d.rnd.Chance(1, 4) {
				cut = d.rnd.Intn(len(revs[rev]))
			}
			t := int64(1 + d.rnd.Intn(4))
			name := fmt.Sprintf("%d", 100+d.rnd.Intn(900)*10+j)
			es = append(es, tmp(name, t, rev, cut))
			if cut < 0 && d.rnd.Chance(2, 3) {
				es = append(es, lnk(fmt.Sprintf("%c%d", 'a'+d.rnd.Intn(26), j), t+int64(d.rnd.Intn(2)), name))
			}
		}
		corpus = append(corpus, fx{fmt.Sprintf("random-%d", i), es})
	}
	for i, f := range corpus {
		root := filepath.Join(d.w.root, fmt.Sprintf("offline-fix-%d", i))
		u := "http://origin.invalid/repo/x86_64/APKINDEX.tar.gz"
		dir := offlineDir(root, u)
		os.MkdirAll(dir, 0o755)
		for _, e := range f.ents {
			p := filepath.Join(dir, e.name)
			if e.link != "" {
				os.Symlink(e.link, p)
			} else {
				os.WriteFile(p, e.data, 0o644)
			}
		}
		for _, e := range f.ents { // times last: creating entries does not touch them any more
			if err := lutimes(filepath.Join(dir, e.name), e.mtime); err != nil {
				fmt.Fprintf(os.Stderr, "lutimes: %v\n", err)
				d.bail()
			}
		}
		d.emitOffline(root, u, "APKINDEX.tar.gz", "offline-fixture", map[string]any{"exp": "offline-fixture", "name": f.name}, classify("APKINDEX.tar.gz"))
		os.RemoveAll(root)
	}
	// a directory shared by the cached copies of TWO files (keys given as URLs): <etag>.etag names
	// do not say which file they belong to
	for i, order := range [][2]string{{"a.rsa.pub", "b.rsa.pub"}, {"b.rsa.pub", "a.rsa.pub"}} {
		root := filepath.Join(d.w.root, fmt.Sprintf("offline-keys-fix-%d", i))
		content := map[string][]byte{"a.rsa.pub": []byte("key A"), "b.rsa.pub": []byte("key B")}
		for j, f := range order {
			dir := offlineDir(root, "http://origin.invalid/repo/keys/"+f)
			os.MkdirAll(dir, 0o755)
			t := fmt.Sprintf("%d.tmp", 100+j)
			os.WriteFile(filepath.Join(dir, t), content[f], 0o644)
			l := base32.StdEncoding.EncodeToString([]byte("etag-of-"+f)) + ".etag"
			os.Symlink(t, filepath.Join(dir, l))
			lutimes(filepath.Join(dir, t), int64(10*(j+1)))
			lutimes(filepath.Join(dir, l), int64(10*(j+1)+1))
		}
		for _, req := range order {
			d.emitOffline(root, "http://origin.invalid/repo/keys/"+req, req, "offline-fixture-shared-directory",
				map[string]any{"exp": "offline-fixture", "name": "two-url-keys-in-one-directory", "downloaded_in_order": order},
				func(b []byte) (string, string, bool) {
					for f, c := range content {
						if bytes.Equal(b, c) {
							return f, "only", true
						}
					}
					return "", "", false
				})
		}
		os.RemoveAll(root)
	}
}

// ---- file names of cached revisions ---------------------------------------------------------

// stageEtagNames: the real etagFromResponse + cacheFileFromEtag on sets of ETags of many shapes for one cache
// file: short ones, 100–300 bytes differing only in their tail / middle / head, characters that base32 expands,
// weak validators, one being a prefix of another. Two different ETags must never get one file name.
func (d *driver) stageEtagNames() {
	long := func(n int, tail string) string {
		p := strings.Repeat("storage.example.invalid/bucket/object-", 10)
		if n > len(p) {
			n = len(p)
		}
		return p[:n] + tail
	}
	sets := [][]string{
		{"a", "b", "ab", "a ", "A"},
		{long(100, "#1"), long(100, "#2"), long(100, ""), long(100, "#10")},
		{long(79, "x"), long(79, "y"), long(80, "x"), long(80, "y"), long(81, "x"), long(81, "y")},
		{long(127, "1"), long(127, "2"), long(128, "1"), long(128, "2"), long(200, "1"), long(200, "2")},
		{long(300, "#generation-1700000000000000001"), long(300, "#generation-1700000000000000002")},
		{"1" + long(150, ""), "2" + long(150, "")},
		{long(60, "") + "M" + long(60, ""), long(60, "") + "N" + long(60, "")},
		{`W/"weak`, "weak", `W/weak`, "é/+ =?&", "é/+ =?", "/../x", "..", "."},
	}
	nrand := 4
	if d.tier == "thorough" {
		nrand = 60
	}
	for i := 0; i < nrand; i++ {
		base := long(d.rnd.Intn(260), "")
		var set []string
		for j := 0; j < 2+d.rnd.Intn(4); j++ {
			set = append(set, base+fmt.Sprintf("%c%d", 'a'+d.rnd.Intn(3), d.rnd.Intn(3)))
		}
		sets = append(sets, set)
	}
	for si, set := range sets {
		for _, index := range []bool{true, false} {
			u := "http://origin.invalid/repo/x86_64/APKINDEX.tar.gz"
			if !index {
				u = "http://origin.invalid/repo/keys/k.rsa.pub"
			}
			uu, _ := url.Parse(u)
			cf, err := apk.VerifCachePathFromURL(filepath.Join(d.w.root, "names"), *uu)
			if err != nil {
				continue
			}
			seen := map[string]bool{}
			var items []string
			var shown []string
			for _, raw := range set {
				if seen[raw] {
					continue
				}
				seen[raw] = true
				resp := &http.Response{Header: http.Header{"Etag": []string{`"` + raw + `"`}}}
				enc, ok := apk.VerifEtagFromResponse(resp)
				if !ok {
					continue
				}
				p, err := apk.VerifCacheFileFromEtag(cf, enc)
				if err != nil {
					continue // refused (containment): C18's subject
				}
				trimmed := strings.Trim(raw, `"`)
				items = append(items, fmt.Sprintf("{| en_raw := %s; en_enc := %s; en_base := %s |}", gal.Str(trimmed), gal.Str(enc), gal.Str(filepath.Base(p))))
				shown = append(shown, fmt.Sprintf("%d bytes …%s -> %d chars", len(trimmed), tailOf(trimmed, 12), len(filepath.Base(p))))
			}
			d.out.Add(gal.Case{
				Term:  fmt.Sprintf("(CNames {| nc_index := %s; nc_items := %s |})", gal.Bool(index), gal.List(items)),
				Desc:  map[string]any{"exp": "etag-names", "set": si, "index": index, "etags": shown},
				Class: "etag-names",
				Key:   fmt.Sprintf("names/%d/%v/%v", si, index, set),
			})
		}
	}
}

func tailOf(s string, n int) string {
	if len(s) <= n {
		return s
	}
	return s[len(s)-n:]
}
