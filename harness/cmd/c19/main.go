// c19 harness: real cache-populating apko builds as separate processes against
// a synthetic signed repository served over HTTP with ETags.
package main

import (
	"fmt"
	"os"
	"path/filepath"
)

func main() {
	if len(os.Args) > 1 && os.Args[1] == "-worker" {
		workerMain(os.Args[2:])
		return
	}
	if len(os.Args) > 1 && os.Args[1] == "-probe" {
		probe()
		return
	}
}

func probe() {
	w, err := newWorld(2)
	if err != nil {
		panic(err)
	}
	defer w.close()
	pk := []string{"app", "plain"}
	ref := w.run(runSpec{Pkgs: pk})
	fmt.Printf("reference (no cache): %+v\n", ref)
	cache := filepath.Join(w.root, "cache")
	r1 := w.run(runSpec{Cache: cache, Pkgs: pk, Trace: filepath.Join(w.root, "trace1")})
	fmt.Printf("cold cache: %+v\n", r1)
	fmt.Println(w.requests())
	es, _ := listCache(cache)
	for _, e := range es {
		fmt.Printf("  %-4s %s -> %s %d %.12s\n", e.Kind, e.Path, e.Target, e.Size, e.Hash)
	}
	b, _ := os.ReadFile(filepath.Join(w.root, "trace1"))
	fmt.Println(string(b))
	r2 := w.run(runSpec{Cache: cache, Pkgs: pk})
	fmt.Printf("warm cache: %+v\n", r2)
	fmt.Println(w.requests())
	r3 := w.run(runSpec{Cache: cache, Pkgs: pk, Offline: true})
	fmt.Printf("offline: %+v\n", r3)
	fmt.Println(w.requests())
	// candidate C19-F1
	c2 := filepath.Join(w.root, "cache2")
	pk = []string{"lib"}
	ref = w.run(runSpec{Pkgs: pk})
	fmt.Printf("F1 reference: %+v\n", ref.Res)
	k1 := w.run(runSpec{Cache: c2, Pkgs: pk, CrashAt: "pkg.post-advertise-dat#1"})
	fmt.Printf("F1 kill1: %+v\n", k1)
	k2 := w.run(runSpec{Cache: c2, Pkgs: pk, CrashAt: "rebuild.created#1"})
	fmt.Printf("F1 kill2: %+v\n", k2)
	es, _ = listCache(c2)
	for _, e := range es {
		if e.Kind != "dir" {
			fmt.Printf("  %-4s %s -> %s %d %.12s\n", e.Kind, e.Path[len(w.cacheRepoDir()):], e.Target, e.Size, e.Hash)
		}
	}
	r4 := w.run(runSpec{Cache: c2, Pkgs: pk})
	fmt.Printf("F1 recovery with cache: %+v\n", r4.Res)
	r5 := w.run(runSpec{Cache: c2, Pkgs: pk, Offline: true})
	fmt.Printf("F1 offline with cache: %+v\n", r5.Res)
	// offline with leftover tmp
	c3 := filepath.Join(w.root, "cache3")
	w.run(runSpec{Cache: c3, Pkgs: pk})
	w.setRev(1)
	k3 := w.run(runSpec{Cache: c3, Pkgs: pk, CrashAt: "index.tmp-created#1"})
	fmt.Printf("O kill: %+v\n", k3)
	r6 := w.run(runSpec{Cache: c3, Pkgs: pk, Offline: true})
	fmt.Printf("O offline after killed index download: %+v\n", r6.Res)
}
