// c19 harness: real cache-populating apko builds as separate PROCESSES against
// a synthetic signed repository served over HTTP with ETags.
//
//   - listing stage: cold / warm / offline builds, repository updates (new index
//     revision, a rebuilt package under the same name-version), k concurrent
//     builders; after each step the cache directory is listed and handed to the
//     verified validator; every digest is compared with a build WITHOUT cache.
//   - crash stage: single-package scenarios in which a build is killed
//     (VERIF_CRASH_AT, SIGKILL) at each hook point; the same scenario is replayed
//     on the model inside Coq and the advertised names are compared; recovery
//     and offline builds are compared with the reference digest.
//   - trace stage: strace of real builds, abstracted to the model's alphabet,
//     `accepts protocol trace` evaluated in Coq.
//   - tamper stage: truncated / swapped / stale entries (exploration).
package main

import (
	"bytes"
	"compress/gzip"
	"encoding/json"
	"flag"
	"fmt"
	"io"
	"os"
	"os/exec"
	"path/filepath"
	"sort"
	"strings"
	"sync"
	"time"

	"verifharness/gal"
)

type driver struct {
	w      *world
	out    *gal.Writer
	tier   string
	rnd    *gal.Rand
	refs   map[string]string // rev|pkgs -> reference digest (build without cache)
	refRes map[string]workerResult
	ncache int
	stats  map[string]any
	tab    string
	gz     string
	dh     string
	nviol  int
	// seq: the build being judged is part of a strictly SEQUENTIAL experiment (no other process
	// is alive); a hit without the signature section then cannot be the lookup race C19-F2
	seq bool
}

// sigTag: the tag for an image that differs from the reference only in S: lines smaller by a
// signature section. Concurrent experiments: the lookup race C19-F2. Sequential experiments: C19-F3
// ONLY with its evidence in the cache directory — a control section advertised without its
// signature section next to a data section that was advertised by ANOTHER download (the links point
// into different expand-apk directories); anything else is a new defect and gets an unlisted tag.
func (d *driver) sigTag(cache string) string {
	if !d.seq {
		return "hit-without-signature-section"
	}
	if d.w.ctlWithoutSigOnSharedData(cache) {
		return "stale-hit-without-signature-section"
	}
	return "hit-without-signature-section-in-sequential-builds"
}

func (d *driver) violation(tag string, desc map[string]any) {
	b, _ := json.Marshal(desc)
	fmt.Printf("IMPL-VIOLATION tag=%s %s\n", tag, b)
	d.nviol++
}

// bail: stop the run; every child process is killed first (os.Exit skips the deferred close)
func (d *driver) bail() {
	d.w.close()
	os.Exit(2)
}

func (d *driver) newCache() string {
	d.ncache++
	return filepath.Join(d.w.root, fmt.Sprintf("cache-%d", d.ncache))
}

// ref = digest of a build with NO cache at repository revision rev
func (d *driver) ref(rev int, pkgs []string) string {
	k := fmt.Sprintf("%d|%s", rev, strings.Join(pkgs, ","))
	if v, ok := d.refs[k]; ok {
		return v
	}
	d.w.setRev(rev)
	r := d.w.run(runSpec{Pkgs: pkgs})
	if !r.Res.OK {
		fmt.Fprintf(os.Stderr, "reference build failed: %+v\n", r)
		d.bail()
	}
	// a build without cache is itself reproducible (otherwise nothing below means anything)
	r2 := d.w.run(runSpec{Pkgs: pkgs})
	if r2.Res.Digest != r.Res.Digest {
		fmt.Fprintf(os.Stderr, "reference build not reproducible: %s vs %s\n", r.Res.Digest, r2.Res.Digest)
		d.bail()
	}
	d.refs[k] = r.Res.Digest
	d.refRes[k] = r.Res
	return r.Res.Digest
}

func (d *driver) anyRef(pkgs []string, dig string) bool {
	for r := range d.w.revs {
		if d.ref(r, pkgs) == dig {
			return true
		}
	}
	return false
}

// triage names the mechanism behind a wrong digest, from the cache listing
func (d *driver) triage(cache string, deflt string) (string, []string) {
	es, _ := listCache(cache)
	if bad := d.w.partialTarUnderFinalName(es); len(bad) > 0 {
		return "partial-tar-under-final-name", bad
	}
	// transient form of the same mechanism: some process of this experiment went
	// through PackageData's in-place rebuild (hook evidence) while others were
	// running; by now the file is complete, so the listing no longer shows it
	if b, err := os.ReadFile(cache + ".hooks"); err == nil && strings.Contains(string(b), " rebuild.created\n") {
		return "read-during-in-place-tar-rebuild", []string{"a process of this experiment hit rebuild.created"}
	}
	return deflt, nil
}

func (d *driver) addListing(cache, class string, desc map[string]any) {
	es, err := listCache(cache)
	if err != nil {
		desc["list_error"] = err.Error()
	}
	ctx := d.w.newCtx()
	lt, unknown := ctx.listingTerm(es)
	desc["entries"] = len(es)
	desc["unclassified"] = unknown
	d.out.Add(gal.Case{
		Term:  fmt.Sprintf("(CListing {| lc_tab := tab; lc_listing := %s |})", lt),
		Desc:  desc,
		Class: class,
	})
}

// checkBuild compares a build WITH the cache against the reference
func (d *driver) checkBuild(what string, rev int, pkgs []string, cache string, r runOut, desc map[string]any) {
	want := d.ref(rev, pkgs)
	d.w.setRev(rev)
	slim := r.Res
	slim.InstalledDB = ""
	desc["result"] = slim
	if !r.Res.OK {
		tag, bad := d.triage(cache, "build-with-cache-fails")
		desc["what"], desc["bad"] = what, bad
		d.violation(tag, desc)
		return
	}
	if r.Res.Digest != want {
		// the exact layer comparison first (rebuild hook hits are normal since fix 90139a3)
		var tag string
		var bad []string
		if sl := d.onlySizeLinesDiffer(rev, pkgs, r.Res); sl != nil {
			tag, bad = d.sigTag(cache), sl
		} else {
			tag, bad = d.triage(cache, "digest-differs-with-cache")
		}
		desc["what"], desc["want"], desc["bad"] = what, want, bad
		r.Res.InstalledDB = ""
		desc["result"] = r.Res
		d.violation(tag, desc)
	}
}

// onlySizeLinesDiffer: the image differs from the reference ONLY in S: lines of
// lib/apk/db/installed, each smaller by exactly the size of that package's
// signature section — what cachedPackage produces when it finds the control
// section, not (yet) the signature section, and then data and tar.
func (d *driver) onlySizeLinesDiffer(rev int, pkgs []string, got workerResult) []string {
	ref := d.refRes[fmt.Sprintf("%d|%s", rev, strings.Join(pkgs, ","))]
	if ref.RestHash == "" || ref.RestHash != got.RestHash {
		return nil
	}
	a, b := strings.Split(ref.InstalledDB, "\n"), strings.Split(got.InstalledDB, "\n")
	if len(a) != len(b) {
		return nil
	}
	sigSizes := map[int]bool{}
	for _, bl := range d.w.revs[rev].repo.Built[arch] {
		if bl.Sig != nil {
			sigSizes[len(bl.Sig)] = true
		}
	}
	var out []string
	for i := range a {
		if a[i] == b[i] {
			continue
		}
		var x, y int
		if _, err := fmt.Sscanf(a[i], "S:%d", &x); err != nil {
			return nil
		}
		if _, err := fmt.Sscanf(b[i], "S:%d", &y); err != nil {
			return nil
		}
		if !sigSizes[x-y] {
			return nil
		}
		out = append(out, fmt.Sprintf("installed db line %d: %s instead of %s (signature section of %d bytes not counted)", i+1, b[i], a[i], x-y))
	}
	if len(out) == 0 {
		return nil
	}
	return out
}

// checkOffline: same digest as SOME served revision (the newest cached index
// decides which), or an error
func (d *driver) checkOffline(what string, pkgs []string, cache string, desc map[string]any) string {
	r := d.w.run(runSpec{Cache: cache, Pkgs: pkgs, Offline: true})
	if !r.Res.OK {
		return "error"
	}
	if !d.anyRef(pkgs, r.Res.Digest) {
		tag, bad := d.triage(cache, "offline-digest-differs")
		for rev := range d.w.revs {
			if sl := d.onlySizeLinesDiffer(rev, pkgs, r.Res); sl != nil {
				tag, bad = d.sigTag(cache), sl
			}
		}
		r.Res.InstalledDB = ""
		dd := map[string]any{"what": what, "offline_result": r.Res, "bad": bad}
		for k, v := range desc {
			dd[k] = v
		}
		d.violation(tag, dd)
		return "wrong"
	}
	return "ok"
}

// ---- listing stage ----------------------------------------------------------
func (d *driver) stageListing() {
	pk := []string{"app", "plain", "solo"}
	cache := d.newCache()
	offl := map[string]int{}
	step := func(name string, rev int, spec runSpec) {
		d.w.setRev(rev)
		spec.Cache, spec.Pkgs = cache, pk
		r := d.w.run(spec)
		desc := map[string]any{"exp": "listing", "step": name, "rev": rev}
		d.checkBuild(name, rev, pk, cache, r, desc)
		d.addListing(cache, "listing/"+name, desc)
	}
	step("cold", 0, runSpec{})
	reqs := d.w.requests()
	step("warm", 0, runSpec{})
	warmReqs := d.w.requests()
	nget := 0
	for _, q := range warmReqs {
		if strings.HasPrefix(q, "GET ") && strings.HasSuffix(q, ".apk") {
			nget++
		}
	}
	d.stats["cold_requests"], d.stats["warm_requests"], d.stats["warm_apk_gets"] = len(reqs), len(warmReqs), nget
	offl[d.checkOffline("offline after warm", pk, cache, map[string]any{"exp": "listing"})]++
	// the repository moves on: new index revision, lib-0.4, app and solo rebuilt under the same name-version
	step("after-update", 1, runSpec{})
	offl[d.checkOffline("offline after update", pk, cache, map[string]any{"exp": "listing"})]++
	// ... and is rolled back: the cached older revision must be used again, not the newer one
	step("after-rollback", 0, runSpec{})
	step("forward-again", 1, runSpec{})
	d.stats["listing_offline"] = offl

	// the repository is updated BETWEEN the HEAD (etag of the old revision) and the
	// GET (body and etag of the new one) of one build: the entry must be filed under
	// the etag of the response the body came with
	{
		c := d.newCache()
		d.w.setRev(0)
		d.w.flipAfterHead(1)
		r := d.w.run(runSpec{Cache: c, Pkgs: pk})
		desc := map[string]any{"exp": "listing", "step": "update-between-head-and-get"}
		d.checkBuild("update between HEAD and GET", 1, pk, c, r, desc)
		d.addListing(c, "listing/update-between-head-and-get", desc)
		for _, rev := range []int{0, 1, 0} {
			d.w.setRev(rev)
			r := d.w.run(runSpec{Cache: c, Pkgs: pk})
			desc := map[string]any{"exp": "listing", "step": "after update-between-head-and-get", "rev": rev}
			d.checkBuild("after update between HEAD and GET", rev, pk, c, r, desc)
			d.addListing(c, "listing/after-update-between-head-and-get", desc)
		}
	}

	// k concurrent builders, one cold cache
	ks := []int{2}
	if d.tier == "thorough" {
		ks = []int{2, 4, 8}
	}
	for _, k := range ks {
		rounds := 2
		if d.tier == "thorough" {
			rounds = 6
		}
		for round := 0; round < rounds; round++ {
			c := d.newCache()
			d.w.setRev(0)
			var wg sync.WaitGroup
			outs := make([]runOut, k)
			for i := 0; i < k; i++ {
				wg.Add(1)
				go func(i int) {
					defer wg.Done()
					outs[i] = d.w.run(runSpec{Cache: c, Pkgs: pk, Trace: c + ".hooks"})
				}(i)
			}
			wg.Wait()
			for i := 0; i < k; i++ {
				d.checkBuild("concurrent", 0, pk, c, outs[i], map[string]any{"exp": "concurrent", "k": k, "round": round, "builder": i})
			}
			d.addListing(c, fmt.Sprintf("concurrent/k=%d", k), map[string]any{"exp": "concurrent", "k": k, "round": round})
			d.checkOffline("offline after concurrent", pk, c, map[string]any{"exp": "concurrent", "k": k})
		}
	}
}

// ---- crash stage ------------------------------------------------------------
type crashSpec struct {
	Kind string `json:"kind"` // "", "idx", "pkg", "rebuild"
	K    int    `json:"k"`
}

func (c crashSpec) term() string {
	switch c.Kind {
	case "idx":
		return fmt.Sprintf("(CrashIdx %d)", c.K)
	case "pkg":
		return fmt.Sprintf("(CrashPkg %d)", c.K)
	case "rebuild":
		return fmt.Sprintf("(CrashRebuild %d)", c.K)
	}
	return "NoCrash"
}

// hookFor translates "killed after k atomic steps of phase X" to the hook
// point and hit number. idxInProc: the index is downloaded by the same
// process first (one more symlink attempt before the package's).
// ctlLast: does cachePackage in the source under test advertise the control section last
// (fixes/C19-F2.patch applied)? Read from the source text like goextract does for the model.
var ctlLast = func() bool {
	src, err := os.ReadFile(filepath.Join(os.Getenv("VERIF_REPO"), "pkg/apk/apk/implementation.go"))
	if err != nil {
		src, err = os.ReadFile("/repo/pkg/apk/apk/implementation.go")
	}
	if err != nil {
		return false
	}
	t := string(src)
	return strings.Index(t, `verifhook.Point("pkg.post-advertise-ctl")`) > strings.Index(t, `verifhook.Point("pkg.post-advertise-tar")`)
}()

// advOrder: the sections in the order cachePackage advertises them
func advOrder(signed bool) []string {
	var o []string
	if !ctlLast {
		o = append(o, "ctl")
	}
	if signed {
		o = append(o, "sig")
	}
	o = append(o, "dat", "tar")
	if ctlLast {
		o = append(o, "ctl")
	}
	return o
}

func hookFor(c crashSpec, signed, idxInProc bool) string {
	base := 0
	if idxInProc {
		base = 1
	}
	switch c.Kind {
	case "idx":
		return map[int]string{2: "index.tmp-created#1", 4: "index.body-copied#1", 5: "advertise.pre-symlink#1", 6: "index.post-advertise#1"}[c.K]
	case "rebuild":
		return map[int]string{2: "rebuild.created#1", 3: "rebuild.copied#1", 4: "rebuild.closed#1"}[c.K]
	case "pkg":
		if signed {
			switch c.K {
			case 2:
				return "expand.tempdir-created#1"
			case 3:
				return "expand.stream-created#1"
			case 6:
				return "expand.stream-created#2"
			case 9:
				return "expand.stream-created#3"
			case 10:
				return "expand.tar-created#1"
			case 13:
				return "expand.tar-closed#1"
			case 14:
				return "expand.streams-closed#1"
			case 15, 17, 19, 21:
				return fmt.Sprintf("advertise.pre-symlink#%d", base+(c.K-13)/2)
			case 16, 18, 20, 22:
				return "pkg.post-advertise-" + advOrder(true)[(c.K-16)/2] + "#1"
			}
		} else {
			switch c.K {
			case 2:
				return "expand.tempdir-created#1"
			case 3:
				return "expand.stream-created#1"
			case 6:
				return "expand.stream-created#2"
			case 7:
				return "expand.tar-created#1"
			case 10:
				return "expand.tar-closed#1"
			case 11:
				return "expand.streams-closed#1"
			case 12, 14, 16:
				return fmt.Sprintf("advertise.pre-symlink#%d", base+(c.K-10)/2)
			case 13, 15, 17:
				return "pkg.post-advertise-" + advOrder(false)[(c.K-13)/2] + "#1"
			}
		}
	}
	return ""
}

type sbuild struct {
	Rev   int       `json:"rev"`
	Crash crashSpec `json:"crash"`
	// Flip > 0: the repository switches to revision Flip right after this build's HEAD of the
	// index has been answered (from revision Rev): the GET brings the etag and body of Flip
	Flip int `json:"flip,omitempty"`
	// Prune: before this build <datahash>.dat.tar is removed from the package's cache directory (an entry
	// as older versions wrote it, "old caches without the uncompressed file"): cachedPackage then goes
	// through PackageData's rebuild
	Prune bool `json:"prune,omitempty"`
}

func (sb sbuild) getRev() int {
	if sb.Flip > 0 {
		return sb.Flip
	}
	return sb.Rev
}

// runScenario runs the builds of one scenario for package pkg on a fresh
// cache; after EVERY build it emits a scenario case (prefix of the scenario)
// so that the state right after each kill is compared with the model too.
func (d *driver) runScenario(name, pkg string, builds []sbuild) {
	cache := d.newCache()
	pk := []string{pkg}
	var terms []string
	var completed []string
	var hooks []string
	for i, sb := range builds {
		d.w.setRev(sb.Rev)
		rev := d.w.revs[sb.Rev]
		// the revision whose index (and packages) this build gets
		grev := d.w.revs[sb.getRev()]
		b := d.w.built(sb.getRev(), pkg)
		signed := b.Sig != nil
		_, err := os.Stat(filepath.Join(cache, d.w.cacheRepoDir(), arch, "APKINDEX", rev.b32+".tar.gz"))
		idxInProc := err != nil
		if sb.Flip > 0 {
			if !idxInProc {
				fmt.Fprintf(os.Stderr, "scenario %s: a flip needs a build that downloads the index\n", name)
				d.bail()
			}
			d.w.flipAfterHead(sb.Flip)
		}
		if sb.Prune {
			d.w.pruneTar(cache, b)
		}
		hook := ""
		if sb.Crash.Kind != "" {
			hook = hookFor(sb.Crash, signed, idxInProc)
			if hook == "" {
				fmt.Fprintf(os.Stderr, "no hook for %+v\n", sb.Crash)
				d.bail()
			}
		}
		hooks = append(hooks, hook)
		r := d.w.run(runSpec{Cache: cache, Pkgs: pk, CrashAt: hook})
		done := !r.Killed && r.Res.OK
		completed = append(completed, gal.Bool(done))
		terms = append(terms, fmt.Sprintf("{| b_idir := %s; b_etag := %s; b_etag_get := %s; b_pdir := %s; b_apk := %s; b_crash := %s; b_prune := %s |}",
			gal.Str(idir), gal.Str(rev.b32), gal.Str(grev.b32), gal.Str(pdirOf(b)), apkTerm(b), sb.Crash.term(), gal.Bool(sb.Prune)))
		desc := map[string]any{"exp": "scenario", "name": name, "pkg": pkg, "builds": builds[:i+1], "hooks": append([]string{}, hooks...),
			"killed": r.Killed, "result": workerResult{OK: r.Res.OK, Digest: r.Res.Digest, DiffID: r.Res.DiffID, Err: r.Res.Err}}
		if done {
			// a build that ran to the end with the cache must equal the build without it
			d.seq = true
			d.checkBuild("scenario "+name, sb.getRev(), pk, cache, r, desc)
			d.seq = false
		} else if !r.Killed {
			tag, bad := d.triage(cache, "build-with-cache-fails")
			desc["bad"] = bad
			d.violation(tag, desc)
		}
		if r.Killed {
			// an offline build on a COPY of what the kill left behind (the copy keeps modification
			// times, which is what fetchOffline chooses by; the scenario's own cache is not touched):
			// an error, or the image of some served revision — never anything else
			cp := cache + fmt.Sprintf("-offline-copy-%d", i)
			if err := exec.Command("cp", "-a", cache, cp).Run(); err == nil {
				d.seq = true
				o := d.checkOffline("offline right after the kill in scenario "+name, pk, cp,
					map[string]any{"exp": "scenario", "name": name, "pkg": pkg, "builds": builds[:i+1], "hooks": append([]string{}, hooks...)})
				d.seq = false
				d.count("offline_right_after_kill", o)
				if sb.Crash.Kind == "idx" {
					d.count("offline_right_after_index_kill", fmt.Sprintf("%s(%s)=%s", name, hook, o))
				}
				os.RemoveAll(cp)
			}
		}
		es, _ := listCache(cache)
		ctx := d.w.newCtx()
		lt, unknown := ctx.listingTerm(es)
		desc["unclassified"] = unknown
		d.out.Add(gal.Case{
			Term: fmt.Sprintf("(CScenario {| sc_tab := tab; sc_gz := gzt; sc_dh := dht; sc_builds := %s; sc_completed := %s; sc_observed := %s |})",
				gal.List(terms), gal.List(completed), lt),
			Desc:  desc,
			Class: "scenario/" + name,
			Key:   fmt.Sprintf("%s/%s/%d/%v", name, pkg, i, builds[:i+1]),
		})
	}
	last := builds[len(builds)-1]
	d.seq = true
	o := d.checkOffline("offline after scenario "+name, pk, cache, map[string]any{"exp": "scenario", "name": name, "pkg": pkg, "builds": builds})
	d.seq = false
	d.count("scenario_offline", o)
	_ = last
}

func (d *driver) count(stat, key string) {
	m, _ := d.stats[stat].(map[string]int)
	if m == nil {
		m = map[string]int{}
	}
	m[key]++
	d.stats[stat] = m
}

func (d *driver) stageCrash() {
	type pk struct {
		name   string
		points []int
	}
	signedPts := []int{2, 3, 6, 9, 10, 13, 14, 15, 16, 17, 18, 19, 20, 21, 22}
	unsignedPts := []int{2, 3, 6, 7, 10, 11, 12, 13, 14, 15, 16, 17}
	pks := []pk{{"solo", signedPts}, {"plain", unsignedPts}}
	for _, p := range pks {
		// every index hook point, then recovery
		if p.name == "solo" {
			for _, k := range []int{2, 4, 5, 6} {
				d.runScenario(fmt.Sprintf("idx-kill-%d", k), p.name, []sbuild{{Rev: 0, Crash: crashSpec{"idx", k}}, {Rev: 0}})
			}
		}
		// every package hook point once, then recovery with the cache
		for _, k := range p.points {
			if p.name == "plain" && d.tier == "quick" && !(k == 7 || k == 13 || k == 15) {
				continue
			}
			d.runScenario(fmt.Sprintf("pkg-kill-%d", k), p.name, []sbuild{{Rev: 0, Crash: crashSpec{"pkg", k}}, {Rev: 0}})
		}
	}
	// killed twice in a row at different points, then recovery
	d.runScenario("two-kills", "solo", []sbuild{{Rev: 0, Crash: crashSpec{"pkg", 16}}, {Rev: 0, Crash: crashSpec{"pkg", 10}}, {Rev: 0}})
	// repository update between builds: new index revision + rebuilt package of the same name-version
	d.runScenario("update", "solo", []sbuild{{Rev: 0}, {Rev: 1}, {Rev: 0}, {Rev: 1}})
	d.runScenario("update-idx-kill", "solo", []sbuild{{Rev: 0}, {Rev: 1, Crash: crashSpec{"idx", 4}}, {Rev: 1}, {Rev: 0}})
	d.runScenario("update-pkg-kill", "solo", []sbuild{{Rev: 0}, {Rev: 1, Crash: crashSpec{"pkg", 18}}, {Rev: 1}, {Rev: 0}})
	d.runScenario("update-pkg-kill-20", "solo", []sbuild{{Rev: 0, Crash: crashSpec{"pkg", 20}}, {Rev: 1}, {Rev: 1}})
	// revision 2: solo's control section changed, its data section did not (same <datahash>.dat.tar.gz name);
	// the build is killed right after advertising the new control section, before its signature section
	// (finding C19-F3: the next build is a HIT without the signature section, for ever)
	d.runScenario("meta-rebuild-kill-after-ctl", "solo", []sbuild{{Rev: 0}, {Rev: 2, Crash: crashSpec{"pkg", 16}}, {Rev: 2}})
	d.runScenario("meta-rebuild", "solo", []sbuild{{Rev: 0}, {Rev: 2}, {Rev: 0}})
	// the repository is updated BETWEEN the HEAD and the GET of the first build: the body of
	// revision 1 must be filed under revision 1's etag (seeded C19-2 files it under revision 0's)
	d.runScenario("update-between-head-and-get", "solo", []sbuild{{Rev: 0, Flip: 1}, {Rev: 0}, {Rev: 1}, {Rev: 0}})
	d.runScenario("update-between-head-and-get-kill", "solo", []sbuild{{Rev: 0, Flip: 1, Crash: crashSpec{"idx", 5}}, {Rev: 0}, {Rev: 1}})
	// PackageData's rebuild of <hash>.dat.tar (findings C19-F1/F1b, fixed by 90139a3: temporary file + rename).
	// Since 6729dee (control section advertised last) no kill of a populating build leaves control + data
	// without the tar, so the rebuild is only reached on entries WITHOUT the uncompressed file (what older
	// versions wrote, or what a cache pruner leaves): the tar is removed before the build (Prune), then the
	// build is killed inside the rebuild at every hook point, then recovery
	for _, rk := range []int{2, 3, 4} {
		d.runScenario(fmt.Sprintf("rebuild-kill-%d", rk), "solo", []sbuild{{Rev: 0}, {Rev: 0, Prune: true, Crash: crashSpec{"rebuild", rk}}, {Rev: 0}})
	}
	d.runScenario("rebuild-complete", "solo", []sbuild{{Rev: 0}, {Rev: 0, Prune: true}, {Rev: 0}})
	d.runScenario("rebuild-kill-2-unsigned", "plain", []sbuild{{Rev: 0}, {Rev: 0, Prune: true, Crash: crashSpec{"rebuild", 2}}, {Rev: 0}})
	d.runScenario("rebuild-killed-twice", "solo", []sbuild{{Rev: 0}, {Rev: 0, Prune: true, Crash: crashSpec{"rebuild", 2}}, {Rev: 0, Crash: crashSpec{"rebuild", 3}}, {Rev: 0}})
	// the old replays (kill between advertising .dat.tar.gz and .dat.tar): a miss today, kept
	sd, ud := 20, 15
	d.runScenario("kill-before-tar-then-kill", "solo", []sbuild{{Rev: 0, Crash: crashSpec{"pkg", sd - 2}}, {Rev: 0, Crash: crashSpec{"pkg", 10}}, {Rev: 0}})
	if d.tier == "thorough" {
		d.runScenario("kill-before-tar-unsigned", "plain", []sbuild{{Rev: 0, Crash: crashSpec{"pkg", ud - 2}}, {Rev: 0}, {Rev: 0}})
		d.runScenario("rebuild-kill-after-update", "solo", []sbuild{{Rev: 0}, {Rev: 1}, {Rev: 0, Prune: true, Crash: crashSpec{"rebuild", 3}}, {Rev: 1, Prune: true, Crash: crashSpec{"rebuild", 2}}, {Rev: 0}, {Rev: 1}})
		for _, k := range signedPts {
			d.runScenario(fmt.Sprintf("update-then-kill-%d", k), "solo", []sbuild{{Rev: 0}, {Rev: 1, Crash: crashSpec{"pkg", k}}, {Rev: 1}, {Rev: 0}})
		}
	}
	// a COMPLETE temporary file left by a killed index download (killed after the last write,
	// before the link) next to an older advertised revision and cached packages: the offline build
	// right after the kill uses it (newest entry) — a complete origin revision
	d.runScenario("update-idx-kill-complete-tmp", "plain", []sbuild{{Rev: 0}, {Rev: 1, Crash: crashSpec{"idx", 4}}, {Rev: 1}})
	d.runScenario("update-idx-kill-pre-symlink", "plain", []sbuild{{Rev: 0}, {Rev: 1, Crash: crashSpec{"idx", 5}}, {Rev: 1}})
	d.runScenario("update-idx-kill-empty-tmp", "plain", []sbuild{{Rev: 0}, {Rev: 1, Crash: crashSpec{"idx", 2}}, {Rev: 1}})
	d.stageStallKill()
	d.stageOfflineTrunc()
	d.stageForced()
	if d.tier == "thorough" {
		d.stageRandomKills()
	}
}

// killed DURING a file write: the origin stalls in the middle of a body, the
// build is killed from outside, then recovery + offline
func (d *driver) stageStallKill() {
	type sk struct {
		suffix string
		after  int
		pkg    string
	}
	cases := []sk{{"/x86_64/APKINDEX.tar.gz", 300, "solo"}, {"/x86_64/solo-3.0-r0.apk", 500, "solo"}, {"/x86_64/solo-3.0-r0.apk", 900, "solo"}}
	for _, c := range cases {
		cache := d.newCache()
		d.w.setRev(0)
		pk := []string{c.pkg}
		st := d.w.stallAt(c.suffix, c.after)
		cmd, resf := d.w.command(runSpec{Cache: cache, Pkgs: pk})
		t0 := time.Now()
		if err := cmd.Start(); err != nil {
			continue
		}
		select {
		case <-st.reached:
			time.Sleep(30 * time.Millisecond) // let the client write what it received
		case <-time.After(20 * time.Second):
		}
		cmd.Process.Kill()
		r := finish(cmd, resf, t0)
		close(st.release)
		desc := map[string]any{"exp": "stall-kill", "path": c.suffix, "after_bytes": c.after, "killed": r.Killed}
		d.addListing(cache, "stall-kill/after-kill", desc)
		o := d.checkOffline("offline after a download killed mid-body", pk, cache, desc)
		r2 := d.w.run(runSpec{Cache: cache, Pkgs: pk})
		desc2 := map[string]any{"exp": "stall-kill", "path": c.suffix, "after_bytes": c.after, "offline_after_kill": o}
		d.checkBuild("recovery after a download killed mid-body", 0, pk, cache, r2, desc2)
		d.addListing(cache, "stall-kill/after-recovery", desc2)
		d.checkOffline("offline after recovery", pk, cache, desc2)
	}
}

// firstGzipMember: the length of the first gzip member of a multi-member stream (the signature
// member of a signed APKINDEX.tar.gz); 0 if there is only one
func firstGzipMember(b []byte) int {
	br := bytes.NewReader(b)
	zr, err := gzip.NewReader(br)
	if err != nil {
		return 0
	}
	zr.Multistream(false)
	if _, err := io.Copy(io.Discard, zr); err != nil {
		return 0
	}
	n := len(b) - br.Len()
	if n >= len(b) {
		return 0
	}
	return n
}

// the index download of a NEWER revision is cut at chosen byte offsets (the origin stalls, the
// build is killed) in a cache that holds an older revision and every package: the leftover *.tmp
// is the newest entry of APKINDEX/ and fetchOffline opens it. The outcome must be an error or the
// image of a served revision; the offsets include the boundary between the two gzip members of the
// signed index (a prefix that IS a well-formed gzip stream: the signature member alone).
func (d *driver) stageOfflineTrunc() {
	pk := []string{"plain", "solo"}
	ix := d.w.revs[1].index
	bnd := firstGzipMember(ix)
	offs := []int{1, 10, bnd - 1, bnd, bnd + 1, bnd + 18, len(ix) / 2, len(ix) - 9, len(ix) - 1}
	if d.tier != "thorough" {
		offs = []int{10, bnd, bnd + 18, len(ix) - 1}
	}
	d.stats["index_first_gzip_member"] = bnd
	for _, off := range offs {
		if off <= 0 || off >= len(ix) {
			continue
		}
		cache := d.newCache()
		d.w.setRev(0)
		r0 := d.w.run(runSpec{Cache: cache, Pkgs: pk})
		d.checkBuild("offline-trunc warm-up", 0, pk, cache, r0, map[string]any{"exp": "offline-trunc", "offset": off})
		d.w.setRev(1)
		st := d.w.stallAt("/x86_64/APKINDEX.tar.gz", off)
		cmd, resf := d.w.command(runSpec{Cache: cache, Pkgs: pk})
		t0 := time.Now()
		if err := cmd.Start(); err != nil {
			continue
		}
		select {
		case <-st.reached:
			time.Sleep(30 * time.Millisecond)
		case <-time.After(20 * time.Second):
		}
		cmd.Process.Kill()
		r := finish(cmd, resf, t0)
		close(st.release)
		desc := map[string]any{"exp": "offline-trunc", "offset": off, "first_gzip_member": bnd, "index_bytes": len(ix), "killed": r.Killed}
		d.addListing(cache, "offline-trunc/after-kill", desc)
		d.seq = true
		o := d.checkOffline("offline with a truncated newest index entry", pk, cache, desc)
		d.seq = false
		d.count("offline_truncated_index", o)
		d.w.setRev(1)
		r2 := d.w.run(runSpec{Cache: cache, Pkgs: pk})
		d.checkBuild("recovery after a truncated index download", 1, pk, cache, r2, desc)
		d.seq = true
		d.count("offline_after_recovery", d.checkOffline("offline after recovery from a truncated index download", pk, cache, desc))
		d.seq = false
	}
}

// two PROCESSES forced into one interleaving with VERIF_WAIT_AT
func (d *driver) stageForced() {
	type fc struct {
		name   string
		waitAt string // where builder A is held
		bCrash string // where builder B is killed ("" = runs to the end)
		bWait  string // alternatively: where builder B is held while A finishes
		pre    string // a preliminary build on the same cache, killed at this point
	}
	cases := []fc{
		// A holds between advertising .dat.tar.gz and .dat.tar; B runs to the end (with the control section
		// advertised last B sees a miss and populates everything itself; before 6729dee it rebuilt the tar)
		{"hold-A-before-tar/B-complete", "pkg.post-advertise-dat#1", "", "", ""},
		// A holds before its first symlink; B populates everything; A then finds every destination present
		{"hold-A-before-first-advertise/B-complete", "expand.streams-closed#1", "", "", ""},
		{"hold-A-at-pre-symlink/B-complete", "advertise.pre-symlink#2", "", "", ""},
		// the entry has no <hash>.dat.tar (pre = "prune": a complete build, then the tar is removed — an entry as
		// older versions wrote it). B is HELD inside the rebuild (its temporary file is empty) while A, a
		// complete build that rebuilds too, finishes: no process is killed (finding C19-F1b before 90139a3)
		{"pruned-tar/A-complete-rebuild/B-held-in-rebuild", "rebuild.closed#1", "", "rebuild.created#1", "prune"},
		// TWO concurrent rebuilders of one <hash>.dat.tar: A is held inside PackageData right after creating its
		// temporary file, B rebuilds and publishes, A goes on and publishes its own copy over it (os.Rename
		// replaces atomically). Each needs its OWN temporary file: with a shared one A's rename finds nothing
		// (mutation rebuild-fixed-tmp); with the final name opened O_EXCL the second one fails or reads a partial file
		{"pruned-tar/A-held-in-rebuild/B-rebuilds-too", "rebuild.created#1", "", "", "prune"},
		// ... A has decompressed everything into its temporary file and is held before close+rename, B has just
		// created its own (empty) temporary file and is held; A publishes; a third build C reads <hash>.dat.tar
		// while B is still inside the rebuild. With a shared temporary name B's os.Create truncates the file A
		// is about to publish: C would read an empty tar under the final name
		{"pruned-tar/A-held-after-copy/B-held-after-create", "rebuild.copied#1", "", "rebuild.created#1", "prune"},
	}
	// needs the hook cached.after-sig-stat (fixes/hooks-c19-b.patch); without it B would not be held
	if src, err := os.ReadFile(filepath.Join(os.Getenv("VERIF_REPO"), "pkg/apk/apk/implementation.go")); err == nil &&
		strings.Contains(string(src), `verifhook.Point("cached.after-sig-stat")`) {
		// A holds after advertising the control section; B's cachedPackage has seen control present and
		// signature absent and is held there; A finishes (signature, data, tar advertised); B goes on: a HIT
		// without the signature section
		cases = append(cases, fc{"hold-A-after-ctl/B-held-after-sig-stat", "pkg.post-advertise-ctl#1", "", "cached.after-sig-stat#1", ""})
		d.stats["forced_sig_race_replayed"] = true
	} else {
		d.stats["forced_sig_race_replayed"] = false
	}
	pk := []string{"solo"}
	for _, c := range cases {
		cache := d.newCache()
		d.w.setRev(0)
		if c.pre == "prune" {
			r0 := d.w.run(runSpec{Cache: cache, Pkgs: pk})
			d.checkBuild("forced "+c.name+" (populating build)", 0, pk, cache, r0, map[string]any{"exp": "forced", "name": c.name, "builder": "populate"})
			d.w.pruneTar(cache, d.w.built(0, "solo"))
		} else if c.pre != "" {
			d.w.run(runSpec{Cache: cache, Pkgs: pk, CrashAt: c.pre})
		}
		wfA := filepath.Join(d.w.root, fmt.Sprintf("waitA-%d", d.ncache))
		wfB := filepath.Join(d.w.root, fmt.Sprintf("waitB-%d", d.ncache))
		cmdA, resA := d.w.command(runSpec{Cache: cache, Pkgs: pk, WaitAt: c.waitAt, WaitF: wfA})
		tA := time.Now()
		if err := cmdA.Start(); err != nil {
			continue
		}
		if !waitFor(wfA+".reached", 10*time.Second) {
			d.violation("forced-interleaving-not-reached", map[string]any{"exp": "forced", "name": c.name, "builder": "A", "wait_at": c.waitAt})
		}
		desc := map[string]any{"exp": "forced", "name": c.name}
		if c.bWait == "" {
			rB := d.w.run(runSpec{Cache: cache, Pkgs: pk, CrashAt: c.bCrash})
			if c.bCrash == "" {
				d.checkBuild("forced "+c.name+" (B)", 0, pk, cache, rB, map[string]any{"exp": "forced", "name": c.name, "builder": "B"})
			}
			d.addListing(cache, "forced/"+c.name+"/A-held", desc)
			os.WriteFile(wfA, nil, 0o644)
			rA := finish(cmdA, resA, tA)
			d.checkBuild("forced "+c.name+" (A)", 0, pk, cache, rA, map[string]any{"exp": "forced", "name": c.name, "builder": "A"})
		} else {
			cmdB, resB := d.w.command(runSpec{Cache: cache, Pkgs: pk, WaitAt: c.bWait, WaitF: wfB})
			tB := time.Now()
			if err := cmdB.Start(); err != nil {
				continue
			}
			if !waitFor(wfB+".reached", 10*time.Second) {
				d.violation("forced-interleaving-not-reached", map[string]any{"exp": "forced", "name": c.name, "builder": "B", "wait_at": c.bWait})
			}
			d.addListing(cache, "forced/"+c.name+"/both-held", desc)
			os.WriteFile(wfA, nil, 0o644)
			rA := finish(cmdA, resA, tA)
			d.checkBuild("forced "+c.name+" (A, finishing while B is inside the rebuild; nobody is killed)", 0, pk, cache, rA,
				map[string]any{"exp": "forced", "name": c.name, "builder": "A"})
			// a third build while B is still held
			rC := d.w.run(runSpec{Cache: cache, Pkgs: pk})
			d.checkBuild("forced "+c.name+" (C, while B is still held)", 0, pk, cache, rC, map[string]any{"exp": "forced", "name": c.name, "builder": "C"})
			os.WriteFile(wfB, nil, 0o644)
			rB := finish(cmdB, resB, tB)
			d.checkBuild("forced "+c.name+" (B)", 0, pk, cache, rB, map[string]any{"exp": "forced", "name": c.name, "builder": "B"})
		}
		d.addListing(cache, "forced/"+c.name+"/end", desc)
		r3 := d.w.run(runSpec{Cache: cache, Pkgs: pk})
		d.checkBuild("forced "+c.name+" (later build)", 0, pk, cache, r3, map[string]any{"exp": "forced", "name": c.name, "builder": "later"})
	}
}

func waitFor(path string, max time.Duration) bool {
	deadline := time.Now().Add(max)
	for time.Now().Before(deadline) {
		if _, err := os.Stat(path); err == nil {
			return true
		}
		time.Sleep(2 * time.Millisecond)
	}
	return false
}

var allHooks = []string{"index.tmp-created", "index.body-copied", "index.pre-advertise", "index.post-advertise",
	"advertise.pre-symlink", "advertise.linked", "advertise.pre-remove",
	"expand.tempdir-created", "expand.stream-created", "expand.tar-created", "expand.tar-closed", "expand.streams-closed",
	"pkg.pre-advertise-ctl", "pkg.post-advertise-ctl", "pkg.pre-advertise-sig", "pkg.post-advertise-sig",
	"pkg.pre-advertise-dat", "pkg.post-advertise-dat", "pkg.pre-advertise-tar", "pkg.post-advertise-tar",
	"rebuild.created", "rebuild.copied", "rebuild.closed"}

// multi-package builds (packages expanded concurrently inside each process),
// several processes, random kills, then recovery — validator + digests only
func (d *driver) stageRandomKills() {
	pk := []string{"app", "plain", "solo"}
	for round := 0; round < 40; round++ {
		cache := d.newCache()
		d.w.setRev(0)
		nkill := 1 + d.rnd.Intn(3)
		var hooks []string
		for i := 0; i < nkill; i++ {
			h := fmt.Sprintf("%s#%d", gal.Pick(d.rnd, allHooks), 1+d.rnd.Intn(4))
			hooks = append(hooks, h)
			if d.rnd.Chance(1, 3) {
				// concurrently with an unkilled builder
				var wg sync.WaitGroup
				var other runOut
				wg.Add(1)
				go func() { defer wg.Done(); other = d.w.run(runSpec{Cache: cache, Pkgs: pk, Trace: cache + ".hooks"}) }()
				d.w.run(runSpec{Cache: cache, Pkgs: pk, CrashAt: h, Trace: cache + ".hooks"})
				wg.Wait()
				d.checkBuild("random-kills (concurrent survivor)", 0, pk, cache, other, map[string]any{"exp": "random-kills", "round": round, "hooks": hooks})
			} else {
				d.w.run(runSpec{Cache: cache, Pkgs: pk, CrashAt: h})
			}
		}
		desc := map[string]any{"exp": "random-kills", "round": round, "hooks": hooks}
		d.addListing(cache, "random-kills/after-kills", desc)
		r := d.w.run(runSpec{Cache: cache, Pkgs: pk})
		d.checkBuild("random-kills recovery", 0, pk, cache, r, desc)
		d.checkOffline("offline after random kills", pk, cache, desc)
		d.addListing(cache, "random-kills/after-recovery", desc)
	}
}

// ---- tamper stage (exploration outside the protocol) --------------------------
func (d *driver) stageTamper() {
	pk := []string{"solo"}
	res := map[string]string{}
	try := func(name string, mutate func(cache string) error) {
		cache := d.newCache()
		d.w.setRev(0)
		d.w.run(runSpec{Cache: cache, Pkgs: pk})
		if err := mutate(cache); err != nil {
			res[name] = "setup failed: " + err.Error()
			return
		}
		r := d.w.run(runSpec{Cache: cache, Pkgs: pk})
		switch {
		case !r.Res.OK:
			res[name] = "error"
		case r.Res.Digest == d.ref(0, pk):
			res[name] = "same-image"
		default:
			res[name] = "DIFFERENT-IMAGE"
		}
	}
	b := d.w.built(0, "solo")
	other := d.w.built(0, "base")
	pdir := func(cache string) string { return filepath.Join(cache, d.w.cacheRepoDir(), pdirOf(b)) }
	target := func(cache, suffix string) (string, error) {
		m, _ := filepath.Glob(filepath.Join(pdir(cache), "*"+suffix))
		if len(m) != 1 {
			return "", fmt.Errorf("no unique %s", suffix)
		}
		return filepath.EvalSymlinks(m[0])
	}
	try("truncate-ctl-to-0", func(c string) error {
		t, err := target(c, ".ctl.tar.gz")
		if err != nil {
			return err
		}
		return os.Truncate(t, 0)
	})
	try("truncate-dat.tar.gz-half", func(c string) error {
		t, err := target(c, ".dat.tar.gz")
		if err != nil {
			return err
		}
		fi, _ := os.Stat(t)
		return os.Truncate(t, fi.Size()/2)
	})
	try("truncate-dat.tar-at-block-boundary", func(c string) error {
		t, err := target(c, ".dat.tar")
		if err != nil {
			return err
		}
		return os.Truncate(t, 1024)
	})
	try("truncate-dat.tar-mid-block", func(c string) error {
		t, err := target(c, ".dat.tar")
		if err != nil {
			return err
		}
		return os.Truncate(t, 700)
	})
	try("swap-dat.tar-with-other-package", func(c string) error {
		t, err := target(c, ".dat.tar")
		if err != nil {
			return err
		}
		return os.WriteFile(t, gunzip(other.Data), 0o644)
	})
	try("swap-ctl-with-other-package", func(c string) error {
		t, err := target(c, ".ctl.tar.gz")
		if err != nil {
			return err
		}
		return os.WriteFile(t, other.Control, 0o644)
	})
	try("stale-etag-entry-holds-other-revision", func(c string) error {
		p := filepath.Join(c, d.w.cacheRepoDir(), arch, "APKINDEX", d.w.revs[0].b32+".tar.gz")
		t, err := filepath.EvalSymlinks(p)
		if err != nil {
			return err
		}
		return os.WriteFile(t, d.w.revs[1].index, 0o644)
	})
	try("truncate-index-entry", func(c string) error {
		p := filepath.Join(c, d.w.cacheRepoDir(), arch, "APKINDEX", d.w.revs[0].b32+".tar.gz")
		t, err := filepath.EvalSymlinks(p)
		if err != nil {
			return err
		}
		return os.Truncate(t, 200)
	})
	d.stats["tamper_exploration"] = res
	keys := []string{}
	for k := range res {
		keys = append(keys, k)
	}
	sort.Strings(keys)
	for _, k := range keys {
		fmt.Fprintf(os.Stderr, "tamper %-45s %s\n", k, res[k])
	}
}

func main() {
	if len(os.Args) > 1 && os.Args[1] == "-worker" {
		workerMain(os.Args[2:])
		return
	}
	if len(os.Args) > 1 && os.Args[1] == "-stress" {
		stress()
		return
	}
	out := flag.String("out", "", "cases dir")
	seed := flag.Uint64("seed", 1, "seed")
	tier := flag.String("tier", "quick", "tier")
	stage := flag.String("stage", "all", "listing|crash|trace|tamper|all")
	flag.String("replay", "", "unused")
	flag.Parse()

	w, err := newWorld(3)
	if err != nil {
		fmt.Fprintln(os.Stderr, err)
		os.Exit(2)
	}
	defer w.close()
	d := &driver{w: w, tier: *tier, rnd: gal.NewRand(*seed), refs: map[string]string{}, refRes: map[string]workerResult{}, stats: map[string]any{}}
	d.tab, d.gz, d.dh = w.originTable()
	d.out = &gal.Writer{Dir: *out, Type: "c19_case", Check: "check_c19", Shard: 40,
		Require: "From Apko Require Import Corr.C19.\nOpen Scope string_scope. Open Scope list_scope.\n" +
			"Definition tab : origin_table := " + d.tab + ".\n" +
			"Definition gzt : list (content * content) := " + d.gz + ".\n" +
			"Definition dht : list (content * string) := " + d.dh + ".\n"}
	t0 := time.Now()
	if *stage == "all" || *stage == "listing" {
		d.stageListing()
	}
	if *stage == "all" || *stage == "crash" {
		d.stageCrash()
	}
	if *stage == "all" || *stage == "shared" {
		d.stageShared()
	}
	if *stage == "all" || *stage == "faildl" {
		d.stageFailedDownload()
	}
	if *stage == "all" || *stage == "offrev" {
		d.stageOfflineRevisions()
	}
	if *stage == "all" || *stage == "offkeys" {
		d.stageOfflineKeys()
	}
	if *stage == "all" || *stage == "flights" {
		d.stageFlights()
	}
	if *stage == "all" || *stage == "offfix" {
		d.stageOfflineFixtures()
	}
	if *stage == "all" || *stage == "names" {
		d.stageEtagNames()
	}
	if *stage == "all" || *stage == "etags" {
		d.stageEtagShapes()
	}
	if *stage == "all" || *stage == "etaglong" {
		d.stageEtagTooLong()
	}
	if *stage == "all" || *stage == "sameetag" {
		d.stageSharedEtag()
	}
	if *stage == "all" || *stage == "cli" {
		d.stageCLI()
	}
	if *stage == "all" || *stage == "trace" {
		d.stageTrace()
	}
	if *stage == "all" || *stage == "tamper" {
		d.stageTamper()
	}
	d.stats["harness_wall_s"] = time.Since(t0).Seconds()
	d.stats["impl_violation_lines"] = d.nviol
	d.stats["exploration_note"] = "crash, concurrency and tamper experiments are exploration supporting the model; the quantification over all crash points and interleavings is carried by c19_invariant"
	if err := d.out.Flush(); err != nil {
		fmt.Fprintln(os.Stderr, err)
		d.bail()
	}
	b, _ := json.Marshal(d.stats)
	fmt.Printf("STAT %s\n", b)
}

// stress: manual diagnosis aid (not part of the check): k concurrent cold builders, many rounds
func stress() {
	w, err := newWorld(1)
	if err != nil {
		panic(err)
	}
	defer w.close()
	pk := []string{"app", "plain", "solo"}
	os.Setenv("C19_DUMP", "")
	ref := w.run(runSpec{Pkgs: pk})
	bad, nohit := 0, 0
	for round := 0; round < 2500 && nohit < 1; round++ {
		c := filepath.Join(w.root, fmt.Sprintf("sc-%d", round))
		var wg sync.WaitGroup
		outs := make([]runOut, 4)
		for i := range outs {
			wg.Add(1)
			go func(i int) {
				defer wg.Done()
				cmd, resf := w.command(runSpec{Cache: c, Pkgs: pk, Trace: c + ".hooks"})
				cmd.Env = append(cmd.Env, "C19_DUMP=/scratch/c19/dump/r"+fmt.Sprint(round))
				t0 := time.Now()
				cmd.Start()
				outs[i] = finish(cmd, resf, t0)
			}(i)
		}
		wg.Wait()
		for i, o := range outs {
			if o.Res.Digest != ref.Res.Digest {
				bad++
				hooks, _ := os.ReadFile(c + ".hooks")
				n := strings.Count(string(hooks), "rebuild.created")
				if n == 0 {
					nohit++
					os.WriteFile("/scratch/c19/dump/nohit.hooks", hooks, 0o644)
					es, _ := listCache(c)
					var sb strings.Builder
					for _, e := range es {
						fmt.Fprintf(&sb, "%s %s %s %d %.12s\n", e.Kind, e.Path, e.Target, e.Size, e.Hash)
					}
					os.WriteFile("/scratch/c19/dump/nohit.listing", []byte(sb.String()), 0o644)
				}
				o.Res.InstalledDB = ""
				fmt.Printf("round %d builder %d: %+v\n  rebuild hits: %d\n", round, i, o.Res, n)
			}
		}
		if nohit == 0 {
			m, _ := filepath.Glob("/scratch/c19/dump/r" + fmt.Sprint(round) + ".*")
			for _, f := range m {
				os.Remove(f)
			}
		}
		os.RemoveAll(c)
	}
	os.Setenv("C19_DUMP", "/scratch/c19/dump/ref")
	cmd, resf := w.command(runSpec{Pkgs: pk})
	cmd.Env = append(cmd.Env, "C19_DUMP=/scratch/c19/dump/ref")
	t0 := time.Now()
	cmd.Start()
	finish(cmd, resf, t0)
	fmt.Println("ref", ref.Res.Digest, "bad", bad)
}
