package main

import (
	"bufio"
	"encoding/hex"
	"fmt"
	"os"
	"path"
	"path/filepath"
	"regexp"
	"sort"
	"strings"
	"time"

	"verifharness/gal"
)

// ---- strace -> the model's trace alphabet ---------------------------------------

var (
	reLine       = regexp.MustCompile(`^(\d+)\s+(.*)$`)
	reUnfinished = regexp.MustCompile(`^(.*) <unfinished \.\.\.>$`)
	reResumed    = regexp.MustCompile(`^<\.\.\. (\w+) resumed>(.*)$`)
	reCall       = regexp.MustCompile(`^(\w+)\((.*)\)\s+= (-?\d+)(.*)$`)
	reQuoted     = regexp.MustCompile(`"((?:[^"\\]|\\.)*)"`)
	reFdPath     = regexp.MustCompile(`^(\d+)<([^>]*)>`)
)

type sysEvent struct {
	kind  string // mkdir create write close stat symlink unlink
	rel   string // path relative to the repository's cache dir
	rel2  string // symlink: destination
	found bool   // stat: success; symlink: false = EEXIST
}

// parseStrace merges unfinished/resumed lines and returns the completed calls
// in completion order.
func parseStrace(file string) ([]string, error) {
	f, err := os.Open(file)
	if err != nil {
		return nil, err
	}
	defer f.Close()
	pending := map[string]string{}
	var out []string
	sc := bufio.NewScanner(f)
	sc.Buffer(make([]byte, 1<<20), 1<<24)
	for sc.Scan() {
		m := reLine.FindStringSubmatch(sc.Text())
		if m == nil {
			continue
		}
		pid, rest := m[1], m[2]
		if u := reUnfinished.FindStringSubmatch(rest); u != nil {
			pending[pid] = u[1]
			continue
		}
		if r := reResumed.FindStringSubmatch(rest); r != nil {
			rest = pending[pid] + r[2]
			delete(pending, pid)
		}
		out = append(out, rest)
	}
	return out, sc.Err()
}

// abstractTrace turns the calls that touch the repository's cache directory
// into events, grouped by cache directory (one protocol instance each).
func (d *driver) abstractTrace(calls []string, cache string) map[string][]sysEvent {
	root := filepath.Join(cache, d.w.cacheRepoDir()) + "/"
	relOf := func(p string) (string, bool) {
		if strings.HasPrefix(p, root) {
			return strings.TrimPrefix(p, root), true
		}
		return "", false
	}
	dirOf := func(rel string) string {
		parts := strings.Split(rel, "/")
		if len(parts) >= 2 {
			return parts[0] + "/" + parts[1]
		}
		return rel
	}
	groups := map[string][]sysEvent{}
	add := func(e sysEvent) { g := dirOf(e.rel); groups[g] = append(groups[g], e) }
	wfd := map[string]bool{}          // fd number -> opened for writing (below the cache)
	lastStat := map[string]sysEvent{} // per directory: last stat of an advertised-looking name
	for _, c := range calls {
		m := reCall.FindStringSubmatch(c)
		if m == nil {
			continue
		}
		name, args, ret, tail := m[1], m[2], m[3], m[4]
		switch name {
		case "mkdirat", "mkdir":
			q := reQuoted.FindStringSubmatch(args)
			if q == nil || ret != "0" {
				continue
			}
			if rel, ok := relOf(q[1]); ok && strings.Contains(path.Base(rel), "expand-apk") {
				add(sysEvent{kind: "mkdir", rel: rel})
			}
		case "openat", "open":
			q := reQuoted.FindStringSubmatch(args)
			if q == nil {
				continue
			}
			rel, ok := relOf(q[1])
			if !ok || strings.HasPrefix(ret, "-") {
				continue
			}
			w := strings.Contains(args, "O_CREAT") || strings.Contains(args, "O_WRONLY") || strings.Contains(args, "O_RDWR")
			// the path actually opened (through a symlink if any) is in the fd annotation;
			// descriptors are keyed by number AND path: with several threads a number can be
			// reused between an unfinished close and its resumption
			if fp := reFdPath.FindStringSubmatch(ret + tail); fp != nil {
				if r2, ok := relOf(fp[2]); ok {
					rel = r2
				}
			}
			wfd[ret+"|"+rel] = w
			if strings.Contains(args, "O_CREAT") {
				add(sysEvent{kind: "create", rel: rel})
			}
		case "write", "pwrite64", "writev":
			fp := reFdPath.FindStringSubmatch(args)
			if fp == nil {
				continue
			}
			if rel, ok := relOf(fp[2]); ok {
				add(sysEvent{kind: "write", rel: rel})
			}
		case "close":
			fp := reFdPath.FindStringSubmatch(args)
			if fp == nil {
				continue
			}
			if rel, ok := relOf(fp[2]); ok {
				if wfd[fp[1]+"|"+rel] {
					add(sysEvent{kind: "close", rel: rel})
				}
				delete(wfd, fp[1]+"|"+rel)
			}
		case "newfstatat", "stat", "lstat", "statx":
			q := reQuoted.FindStringSubmatch(args)
			if q == nil {
				continue
			}
			if rel, ok := relOf(q[1]); ok {
				base := path.Base(rel)
				if reMember.MatchString(base) || reIndex.MatchString(base) {
					lastStat[dirOf(rel)] = sysEvent{kind: "stat", rel: rel, found: ret == "0"}
				}
			}
		case "symlinkat", "symlink":
			qs := reQuoted.FindAllStringSubmatch(args, -1)
			if len(qs) < 2 {
				continue
			}
			dst, ok := relOf(qs[1][1])
			if !ok {
				continue
			}
			src := path.Clean(path.Join(path.Dir(dst), qs[0][1]))
			eexist := strings.Contains(tail, "EEXIST")
			if ret != "0" && !eexist {
				continue
			}
			ls := lastStat[dirOf(dst)]
			if ls.rel == dst {
				add(ls)
			} else {
				add(sysEvent{kind: "stat", rel: "?no-stat-of-destination-before-symlink/" + dst, found: false})
			}
			add(sysEvent{kind: "symlink", rel: src, rel2: dst, found: !eexist})
		case "unlinkat", "unlink":
			q := reQuoted.FindStringSubmatch(args)
			if q == nil {
				continue
			}
			if rel, ok := relOf(q[1]); ok {
				if ls, ok := lastStat[dirOf(rel)]; ok {
					add(ls)
				}
				add(sysEvent{kind: "unlink", rel: rel})
			}
		case "rename", "renameat", "renameat2":
			qs := reQuoted.FindAllStringSubmatch(args, -1)
			if len(qs) < 2 || ret != "0" {
				continue
			}
			src, ok1 := relOf(qs[0][1])
			dst, ok2 := relOf(qs[1][1])
			if ok1 && ok2 {
				add(sysEvent{kind: "rename", rel: src, rel2: dst})
			} else if ok1 || ok2 {
				add(sysEvent{kind: "create", rel: "?rename-across-the-cache-boundary"})
			}
		case "linkat", "link", "ftruncate", "truncate":
			// not part of the protocol: make the trace unacceptable
			qs := reQuoted.FindAllStringSubmatch(args, -1)
			for _, q := range qs {
				if rel, ok := relOf(q[1]); ok {
					add(sysEvent{kind: "create", rel: "?unexpected-" + name + "/" + rel})
					break
				}
			}
		}
	}
	return groups
}

func (d *driver) tevTerm(ctx *absCtx, e sysEvent) string {
	p, _ := ctx.pathTerm(e.rel)
	switch e.kind {
	case "mkdir":
		return "(TMkdir " + p + ")"
	case "create":
		return "(TCreate " + p + ")"
	case "write":
		return "(TWrite " + p + ")"
	case "close":
		return "(TClose " + p + ")"
	case "stat":
		return fmt.Sprintf("(TStat %s %s)", p, gal.Bool(e.found))
	case "unlink":
		return "(TRemove " + p + ")"
	case "rename":
		q, _ := ctx.pathTerm(e.rel2)
		return fmt.Sprintf("(TRename %s %s)", p, q)
	case "symlink":
		q, _ := ctx.pathTerm(e.rel2)
		return fmt.Sprintf("(TSymlink %s %s %s)", p, q, gal.Bool(!e.found))
	}
	return "(TCreate (PDir \"?\"))"
}

// emitTraces writes one trace case per cache directory that saw protocol
// events in this process. Consecutive writes to one file are collapsed (their
// number is not compared anyway).
func (d *driver) emitTraces(what string, rev int, stfile, cache string) int {
	calls, err := parseStrace(stfile)
	if err != nil || len(calls) == 0 {
		fmt.Fprintf(os.Stderr, "strace unusable (%v, %d calls)\n", err, len(calls))
		d.bail()
	}
	groups := d.abstractTrace(calls, cache)
	var dirs []string
	for g := range groups {
		dirs = append(dirs, g)
	}
	sort.Strings(dirs)
	n := 0
	for _, g := range dirs {
		evs := groups[g]
		hasProto := false
		for _, e := range evs {
			if e.kind == "create" || e.kind == "symlink" || e.kind == "unlink" || e.kind == "mkdir" || e.kind == "rename" {
				hasProto = true
			}
		}
		if !hasProto {
			continue
		}
		ctx := d.w.newCtx()
		ctx.fixed = 0
		var builder string
		if g == idir {
			builder = fmt.Sprintf("(TIndex %s %s)", gal.Str(idir), gal.Str(d.w.revs[rev].b32))
		} else {
			var found bool
			// no expand-apk directory but a rename: cachedPackage found control and data and
			// PackageData rebuilt the tar (a reader)
			reader := true
			for _, e := range evs {
				if e.kind == "mkdir" {
					reader = false
				}
			}
			for _, b := range d.w.revs[rev].repo.Built[arch] {
				if pdirOf(b) == g {
					if reader {
						builder = fmt.Sprintf("(TReader %s %s)", gal.Str(g), gal.Str(hex.EncodeToString(b.DataSHA256)))
					} else {
						builder = fmt.Sprintf("(TPackage %s %s)", gal.Str(g), apkTerm(b))
					}
					found = true
				}
			}
			if !found {
				builder = fmt.Sprintf("(TIndex %s %s)", gal.Str("?unknown-directory"), gal.Str(g))
			}
		}
		var terms []string
		nw, kinds := 0, map[string]int{}
		var prev sysEvent
		for _, e := range evs {
			kinds[e.kind]++
			if e.kind == "write" {
				nw++
				if prev.kind == "write" && prev.rel == e.rel {
					continue
				}
			}
			prev = e
			terms = append(terms, d.tevTerm(ctx, e))
		}
		d.out.Add(gal.Case{
			Term:  fmt.Sprintf("(CTrace {| tc_tab := tab; tc_owner := 0; tc_builder := %s; tc_trace := %s |})", builder, gal.List(terms)),
			Desc:  map[string]any{"exp": "trace", "what": what, "dir": g, "events": kinds, "write_calls": nw},
			Class: "trace/" + what,
			Key:   what + "/" + g + fmt.Sprint(n),
		})
		n++
	}
	return n
}

func (d *driver) stageTrace() {
	total := 0
	// a cold multi-package build (index + 5 packages expanded concurrently inside the process)
	pk := []string{"app", "plain", "solo"}
	cache := d.newCache()
	d.w.setRev(0)
	st := filepath.Join(d.w.root, fmt.Sprintf("strace-%d.out", d.ncache))
	r := d.w.run(runSpec{Cache: cache, Pkgs: pk, Strace: st})
	d.checkBuild("strace cold build", 0, pk, cache, r, map[string]any{"exp": "trace"})
	total += d.emitTraces("cold", 0, st, cache)
	// the repository moved on: only what changed is populated again, in the same directories
	st2 := filepath.Join(d.w.root, fmt.Sprintf("strace-%d-b.out", d.ncache))
	d.w.setRev(1)
	r = d.w.run(runSpec{Cache: cache, Pkgs: pk, Strace: st2})
	d.checkBuild("strace build after update", 1, pk, cache, r, map[string]any{"exp": "trace"})
	total += d.emitTraces("after-update", 1, st2, cache)
	// builder A is held before its first AdvertiseCachedFile while B populates
	// everything: A then finds every destination present and removes its copies
	spk := []string{"solo"}
	c2 := d.newCache()
	d.w.setRev(0)
	wf := filepath.Join(d.w.root, fmt.Sprintf("waitT-%d", d.ncache))
	st3 := filepath.Join(d.w.root, fmt.Sprintf("strace-%d.out", d.ncache))
	cmdA, resA := d.w.command(runSpec{Cache: c2, Pkgs: spk, WaitAt: "pkg.pre-advertise-ctl#1", WaitF: wf, Strace: st3})
	tA := time.Now()
	if err := cmdA.Start(); err == nil {
		waitFor(wf+".reached", 30*time.Second)
		rB := d.w.run(runSpec{Cache: c2, Pkgs: spk})
		d.checkBuild("trace: B while A is held", 0, spk, c2, rB, map[string]any{"exp": "trace"})
		os.WriteFile(wf, nil, 0o644)
		rA := finish(cmdA, resA, tA)
		d.checkBuild("trace: A after B populated", 0, spk, c2, rA, map[string]any{"exp": "trace"})
		total += d.emitTraces("loser-removes", 0, st3, c2)
	}
	// a build killed between advertising .dat.tar.gz and .dat.tar; the next build's
	// cachedPackage rebuilds the tar: temporary file, then rename
	c3 := d.newCache()
	d.w.setRev(0)
	d.w.run(runSpec{Cache: c3, Pkgs: spk, CrashAt: "pkg.post-advertise-dat#1"})
	st4 := filepath.Join(d.w.root, fmt.Sprintf("strace-%d.out", d.ncache))
	rR := d.w.run(runSpec{Cache: c3, Pkgs: spk, Strace: st4})
	d.checkBuild("trace: reader that rebuilds the tar", 0, spk, c3, rR, map[string]any{"exp": "trace"})
	total += d.emitTraces("reader-rebuilds", 0, st4, c3)
	d.stats["trace_cases"] = total
}
