package main

func (d *driver) stageTrace() {}
