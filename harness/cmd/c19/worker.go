package main

import (
	"archive/tar"
	"context"
	"crypto/sha256"
	"encoding/hex"
	"encoding/json"
	"flag"
	"fmt"
	"io"
	"log/slog"
	"os"
	"strings"
	"time"

	"github.com/chainguard-dev/clog"

	"chainguard.dev/apko/pkg/apk/apk"
	"chainguard.dev/apko/pkg/build"
	"chainguard.dev/apko/pkg/build/types"
	"chainguard.dev/apko/pkg/tarfs"
)

// workerResult is what one build process reports back to the driver.
type workerResult struct {
	OK     bool   `json:"ok"`
	Digest string `json:"digest,omitempty"`
	DiffID string `json:"diffid,omitempty"`
	Err    string `json:"err,omitempty"`
	// for the triage of a digest difference: the installed database of the image and a
	// hash over every other entry of the layer
	InstalledDB string `json:"installed_db,omitempty"`
	RestHash    string `json:"rest_hash,omitempty"`
}

// splitLayer reads the uncompressed layer: lib/apk/db/installed, and a hash of all the rest
func splitLayer(r io.Reader) (db string, rest string) {
	tr := tar.NewReader(r)
	h := sha256.New()
	for {
		hdr, err := tr.Next()
		if err != nil {
			break
		}
		b, _ := io.ReadAll(tr)
		if hdr.Name == "lib/apk/db/installed" {
			db = string(b)
			continue
		}
		fmt.Fprintf(h, "%s|%d|%o|%d|%d|%s|%d\n", hdr.Name, hdr.Typeflag, hdr.Mode, hdr.Uid, hdr.Gid, hdr.Linkname, len(b))
		h.Write(b)
	}
	return db, hex.EncodeToString(h.Sum(nil))
}

// workerMain performs ONE real apko layer build (pkg/build, the code path of
// `apko build`) in this process. cache == "" means: no cache at all (the
// driver also clears HOME/XDG_CACHE_HOME so that build.New cannot pick the
// system default).
func workerMain(args []string) {
	fs := flag.NewFlagSet("worker", flag.ExitOnError)
	repo := fs.String("repo", "", "repository URL")
	key := fs.String("key", "", "public key file")
	cache := fs.String("cache", "", "cache directory ('' = no cache)")
	offline := fs.Bool("offline", false, "offline build")
	pkgs := fs.String("pkgs", "", "comma separated packages")
	result := fs.String("result", "", "file to write the JSON result to")
	tmp := fs.String("tmp", "", "temp dir")
	dump := fs.String("dump", os.Getenv("C19_DUMP"), "write the uncompressed layer here")
	nb := fs.Int("n", 1, "number of builds in this process, one after the other, sharing ONE apk.Cache object")
	gate := fs.String("gate", "", "before build i >= 2: create <gate>.<i>.reached and wait for <gate>.<i>")
	nokey := fs.Bool("nokey", false, "no keyring in the configuration (the key comes from key discovery)")
	noetag := fs.Bool("noetag", false, "apk.NewCache(false)")
	_ = fs.Parse(args)

	// one Cache object for every build of this process (what apko's own multi-architecture
	// build and library users do: NewCache's documentation)
	shared := apk.NewCache(!*noetag)
	var all []workerResult
	res := workerResult{}
	for i := 1; i <= *nb; i++ {
		if i > 1 && *gate != "" {
			if f, err := os.Create(fmt.Sprintf("%s.%d.reached", *gate, i)); err == nil {
				f.Close()
			}
			deadline := time.Now().Add(60 * time.Second)
			for time.Now().Before(deadline) {
				if _, err := os.Stat(fmt.Sprintf("%s.%d", *gate, i)); err == nil {
					break
				}
				time.Sleep(2 * time.Millisecond)
			}
		}
		res = workerResult{}
		func() {
			defer func() {
				if r := recover(); r != nil {
					res = workerResult{Err: fmt.Sprintf("panic: %v", r)}
				}
			}()
			ctx := clog.WithLogger(context.Background(), clog.New(slog.NewTextHandler(io.Discard, nil)))
			keyring := strings.Split(*key, ",")
			if *nokey {
				keyring = nil
			}
			ic := types.ImageConfiguration{
				Contents: types.ImageContents{
					RuntimeRepositories: strings.Split(*repo, ","),
					Keyring:             keyring,
					Packages:            strings.Split(*pkgs, ","),
				},
				Archs: []types.Architecture{types.ParseArchitecture("amd64")},
			}
			opts := []build.Option{
				build.WithImageConfiguration(ic),
				build.WithArch(types.ParseArchitecture("amd64")),
				build.WithSourceDateEpoch(time.Unix(0, 0).UTC()),
				build.WithTempDir(*tmp),
			}
			if *cache != "" {
				opts = append(opts, build.WithCache(*cache, *offline, shared))
			}
			bc, err := build.New(ctx, tarfs.New(), opts...)
			if err != nil {
				res.Err = "new: " + err.Error()
				return
			}
			layers, err := bc.BuildLayers(ctx)
			if err != nil {
				res.Err = "build: " + err.Error()
				return
			}
			if len(layers) != 1 {
				res.Err = fmt.Sprintf("unexpected number of layers %d", len(layers))
				return
			}
			d, err := layers[0].Digest()
			if err != nil {
				res.Err = "digest: " + err.Error()
				return
			}
			di, err := layers[0].DiffID()
			if err != nil {
				res.Err = "diffid: " + err.Error()
				return
			}
			if *dump != "" {
				if rc, err := layers[0].Uncompressed(); err == nil {
					b, _ := io.ReadAll(rc)
					_ = os.WriteFile(fmt.Sprintf("%s.%d.tar", *dump, os.Getpid()), b, 0o644)
				}
			}
			res = workerResult{OK: true, Digest: d.String(), DiffID: di.String()}
			if rc, err := layers[0].Uncompressed(); err == nil {
				res.InstalledDB, res.RestHash = splitLayer(rc)
				rc.Close()
			}
		}()
		all = append(all, res)
	}
	b, _ := json.Marshal(res)
	if *result != "" && *nb > 1 {
		ba, _ := json.Marshal(all)
		_ = os.WriteFile(*result+".all", ba, 0o644)
	}
	if *result != "" {
		_ = os.WriteFile(*result+".tmp", b, 0o644)
		_ = os.Rename(*result+".tmp", *result)
	} else {
		fmt.Println(string(b))
	}
	if !res.OK {
		os.Exit(3)
	}
}
