package main

import (
	"archive/tar"
	"bytes"
	"compress/gzip"
	"crypto/sha256"
	"encoding/base32"
	"encoding/base64"
	"encoding/hex"
	"encoding/json"
	"fmt"
	"io"
	"math/big"
	"net"
	"net/http"
	"net/http/httptest"
	"net/url"
	"os"
	"os/exec"
	"path/filepath"
	"sort"
	"strings"
	"sync"
	"syscall"
	"time"

	"verifharness/synthrepo"
)

// revision is one state of the origin repository: a signed index plus the
// packages it lists, all under <dir>/x86_64.
type revision struct {
	dir   string
	repo  *synthrepo.Repo
	etag  string // etag value served for the index (unquoted)
	b32   string // base32 of the etag = the cache's index file stem
	index []byte
	// hdrs: ETag header text of the index per etag style (see etagStyles); etag/b32 are those of the current style
	hdrs map[string]string
}

// etagStyles: the shapes of ETag an origin may give its index revisions. "default" = 16 hex digits of the
// content hash; "long-tail" = an object-store style name of ~140 bytes in which only the generation at the END
// differs between revisions; "expanding" = a weak validator with characters that base32 has to expand
// (slash, plus, equals, blank, non-ASCII), differing in the middle; "huge" = 300+ bytes (finding C19-F8: its base32
// form does not fit into a file name).
var etagStyles = []string{"default", "long-tail", "expanding", "huge"}

func etagHeader(style string, rev int, index []byte) string {
	switch style {
	case "long-tail":
		return `"` + "storage.example.invalid/bucket-with-a-long-name-0123456789abcdef0123456789abcdef/packages/os/x86_64/APKINDEX.tar.gz#generation-" + fmt.Sprintf("%019d", 1700000000000000000+rev) + `"`
	case "huge":
		return `"` + strings.Repeat("0123456789", 30) + fmt.Sprintf("#%d", rev) + `"`
	case "expanding":
		return `W/"` + fmt.Sprintf("r%d", rev) + `/é+ =?&` + etagOf(index)[:4] + `"`
	}
	return `"` + etagOf(index) + `"`
}

// stemOf: the cache's file stem for an ETag header: quotes trimmed at both ends, base32 (what etagFromResponse
// does, computed here independently of it)
func stemOf(hdr string) (etag, b32 string) {
	e := strings.Trim(hdr, `"`)
	return e, base32.StdEncoding.EncodeToString([]byte(e))
}

// setStyle switches the ETag shape the origin uses for its index revisions
func (w *world) setStyle(style string) {
	w.mu.Lock()
	defer w.mu.Unlock()
	w.style = style
	for _, r := range w.revs {
		r.etag, r.b32 = stemOf(r.hdrs[style])
	}
}

type stall struct {
	after   int
	reached chan struct{}
	release chan struct{}
}

// world = an origin (HTTP server with ETags over a sequence of repository
// revisions), a key, and scratch space. Every build is a separate PROCESS
// (this binary re-executed with -worker).
type world struct {
	root string
	key  *synthrepo.Key
	// extraKey: a second public key served next to the repository key
	extraKey *synthrepo.Key
	revs     []*revision

	mu     sync.Mutex
	cur    int
	flip   int               // >=0: switch to this revision right after the next HEAD of the index has been answered
	stalls map[string]*stall // URL path suffix -> stall
	faults map[string]*fault // URL path suffix -> transient fault (the next n matching GETs)
	style  string            // current ETag style of the index revisions
	// second repository (/repo2/ serves revision repo2rev), one ETag value for every index of every repository
	// (sameEtag != ""), and a barrier that makes `overlap` index GETs overlap (each waits for the others, 1.5 s at most)
	repo2rev int
	sameEtag string
	overlap  int
	arrived  int
	// discovery: the origin implements chainguard-style key discovery (/repo/apk-configuration -> JWKS)
	discovery bool
	reqs      []string
	srv       *httptest.Server
	self      string
	nrun      int
	// every process ever started, each in its own process group: close() kills whatever is
	// still alive (a held or stalled builder when the driver bails out), so no child survives
	children []*exec.Cmd
}

// fault: the next n GET requests for a path ending in the suffix are answered with an HTTP status
// (status > 0), or get only the first `cut` bytes of the body before the connection is torn down
// (status == 0): a transient failure of the origin or the network which the CLIENT SURVIVES.
type fault struct {
	status int
	cut    int
	n      int
	hits   int
}

func (w *world) faultAt(suffix string, status, cut, n int) *fault {
	f := &fault{status: status, cut: cut, n: n}
	w.mu.Lock()
	w.faults[suffix] = f
	w.mu.Unlock()
	return f
}

func (w *world) clearFaults() { w.mu.Lock(); w.faults = map[string]*fault{}; w.mu.Unlock() }

func etagOf(b []byte) string {
	s := sha256.Sum256(b)
	return hex.EncodeToString(s[:8])
}

func sha(b []byte) string {
	s := sha256.Sum256(b)
	return hex.EncodeToString(s[:])
}

func pkgSet(rev int) []*synthrepo.Pkg {
	// revision 2 = revision 0 with ONE change: the control section of solo differs (a
	// metadata-only rebuild under the same name-version), its data section is byte-identical
	metaOnly := rev == 2
	if metaOnly {
		rev = 0
	}
	dirs := func(names ...string) []synthrepo.File {
		var fs []synthrepo.File
		for _, n := range names {
			fs = append(fs, synthrepo.File{Name: n, Type: tar.TypeDir, Mode: 0o755})
		}
		return fs
	}
	big := bytes.Repeat([]byte("0123456789abcdef"), 1024) // 16 KiB: several tar blocks
	base := &synthrepo.Pkg{Name: "base", Version: "1.0-r0", Origin: "base", Files: append(dirs("etc", "usr", "usr/bin"),
		synthrepo.File{Name: "etc/base.conf", Mode: 0o644, Content: []byte("base\n")},
		synthrepo.File{Name: "usr/bin/tool", Mode: 0o755, Content: []byte("#!/bin/sh\necho tool\n")},
		synthrepo.File{Name: "usr/bin/sym", Type: tar.TypeSymlink, Linkname: "tool", Mode: 0o777})}
	lib := &synthrepo.Pkg{Name: "lib", Version: "0.3-r1", Origin: "lib", Deps: []string{"base"}, Files: append(dirs("usr", "usr/lib"),
		synthrepo.File{Name: "usr/lib/liba.so", Mode: 0o644, Content: big},
		synthrepo.File{Name: "usr/lib/libb.so", Mode: 0o644, Content: big[:5000]})}
	app := &synthrepo.Pkg{Name: "app", Version: "2.1-r3", Origin: "app", Deps: []string{"lib", "base>=1.0"}, Files: append(dirs("usr", "usr/bin", "usr/share"),
		synthrepo.File{Name: "usr/bin/app", Mode: 0o755, Content: []byte("app rev0")},
		synthrepo.File{Name: "usr/share/app.dat", Mode: 0o644, Content: big[:3000]})}
	unsigned := &synthrepo.Pkg{Name: "plain", Version: "1-r0", Origin: "plain", Unsigned: true, Files: append(dirs("opt"),
		synthrepo.File{Name: "opt/plain.txt", Mode: 0o644, Content: []byte("unsigned package\n")})}
	solo := &synthrepo.Pkg{Name: "solo", Version: "3.0-r0", Origin: "solo", Files: append(dirs("srv", "srv/solo"),
		synthrepo.File{Name: "srv/solo/a.bin", Mode: 0o644, Content: big[:9000]},
		synthrepo.File{Name: "srv/solo/b.txt", Mode: 0o644, Content: []byte(fmt.Sprintf("solo data of revision %d\n", rev))},
		synthrepo.File{Name: "srv/solo/c.bin", Mode: 0o600, Content: big[:1234]})}
	if metaOnly {
		solo.Description = "rebuilt: only the metadata changed"
	}
	if rev >= 1 {
		// same name-version, different bytes (a rebuilt package) and a new version of lib
		app.Files[len(app.Files)-2].Content = []byte("app rev1 -- rebuilt")
		lib.Version = "0.4-r0"
		lib.Files[len(lib.Files)-1].Content = big[:7000]
	}
	return []*synthrepo.Pkg{base, lib, app, unsigned, solo}
}

func newWorld(nrev int) (*world, error) {
	root, err := os.MkdirTemp("", "c19-")
	if err != nil {
		return nil, err
	}
	w := &world{root: root, stalls: map[string]*stall{}, faults: map[string]*fault{}, flip: -1, style: "default", repo2rev: -1}
	w.self, err = os.Executable()
	if err != nil {
		return nil, err
	}
	w.key, err = synthrepo.NewKey("c19@verif-0001.rsa.pub")
	if err != nil {
		return nil, err
	}
	for r := 0; r < nrev; r++ {
		d := filepath.Join(root, fmt.Sprintf("origin-rev%d", r))
		rp, err := synthrepo.Write(d, w.key, pkgSet(r))
		if err != nil {
			return nil, err
		}
		// a second public key next to the repository's (keyrings given as URLs: two files in one URL directory)
		if w.extraKey == nil {
			if w.extraKey, err = synthrepo.NewKey("zz-extra@verif-0002.rsa.pub"); err != nil {
				return nil, err
			}
		}
		if err := os.WriteFile(filepath.Join(d, "keys", w.extraKey.Name), w.extraKey.Pub, 0o644); err != nil {
			return nil, err
		}
		ix, err := os.ReadFile(filepath.Join(d, "x86_64", "APKINDEX.tar.gz"))
		if err != nil {
			return nil, err
		}
		e := etagOf(ix)
		rv := &revision{dir: d, repo: rp, etag: e, b32: base32.StdEncoding.EncodeToString([]byte(e)), index: ix, hdrs: map[string]string{}}
		for _, st := range etagStyles {
			rv.hdrs[st] = etagHeader(st, r, ix)
		}
		w.revs = append(w.revs, rv)
	}
	w.srv = httptest.NewUnstartedServer(http.HandlerFunc(w.serve))
	l, err := net.Listen("tcp", "127.0.0.1:0")
	if err != nil {
		return nil, err
	}
	w.srv.Listener = l
	w.srv.Start()
	return w, nil
}

func (w *world) close() {
	w.mu.Lock()
	for _, c := range w.children {
		if c.Process != nil && c.ProcessState == nil {
			_ = syscall.Kill(-c.Process.Pid, syscall.SIGKILL)
		}
	}
	for _, s := range w.stalls {
		select {
		case <-s.release:
		default:
			close(s.release)
		}
	}
	w.mu.Unlock()
	w.srv.CloseClientConnections()
	w.srv.Close()
	os.RemoveAll(w.root)
}

func (w *world) setRev(r int)        { w.mu.Lock(); w.cur = r; w.mu.Unlock() }
func (w *world) flipAfterHead(r int) { w.mu.Lock(); w.flip = r; w.mu.Unlock() }

func (w *world) repoURL() string { return w.srv.URL + "/repo" }

// cacheRepoDir is the directory name the cache derives from the repository URL.
func (w *world) cacheRepoDir() string { return url.QueryEscape(w.repoURL()) }

// stallAt makes the next GET of a path ending in suffix deliver only `after`
// bytes and then hang until release is closed.
func (w *world) stallAt(suffix string, after int) *stall {
	s := &stall{after: after, reached: make(chan struct{}), release: make(chan struct{})}
	w.mu.Lock()
	w.stalls[suffix] = s
	w.mu.Unlock()
	return s
}

func (w *world) serve(rw http.ResponseWriter, req *http.Request) {
	w.mu.Lock()
	rev := w.revs[w.cur]
	w.reqs = append(w.reqs, req.Method+" "+req.URL.Path)
	if req.Method == http.MethodHead && w.flip >= 0 && strings.HasSuffix(req.URL.Path, "/APKINDEX.tar.gz") {
		w.cur, w.flip = w.flip, -1 // this HEAD is still answered from the old revision
	}
	var st *stall
	var ft *fault
	if req.Method == http.MethodGet {
		for suf, f := range w.faults {
			if strings.HasSuffix(req.URL.Path, suf) && f.n > 0 {
				f.n--
				f.hits++
				ft = f
				break
			}
		}
	}
	disc := w.discovery
	isIndex := strings.HasSuffix(req.URL.Path, "/APKINDEX.tar.gz")
	prefix := "/repo/"
	if w.repo2rev >= 0 && strings.HasPrefix(req.URL.Path, "/repo2/") {
		rev, prefix = w.revs[w.repo2rev], "/repo2/"
	}
	etagHdr := ""
	if isIndex {
		etagHdr = rev.hdrs[w.style]
		if w.sameEtag != "" {
			etagHdr = w.sameEtag
		}
	}
	wait := false
	if isIndex && req.Method == http.MethodGet && w.overlap > 0 {
		w.arrived++
		wait = true
	}
	if req.Method == http.MethodGet && ft == nil {
		for suf, s := range w.stalls {
			if strings.HasSuffix(req.URL.Path, suf) {
				st = s
				delete(w.stalls, suf)
				break
			}
		}
	}
	w.mu.Unlock()
	if ft != nil && ft.status > 0 {
		http.Error(rw, "transient fault", ft.status)
		return
	}
	if disc && req.URL.Path == "/repo/apk-configuration" {
		rw.Header().Set("Content-Type", "application/json")
		fmt.Fprintf(rw, `{"jwks_uri": %q}`, w.srv.URL+"/jwks")
		return
	}
	if disc && req.URL.Path == "/jwks" {
		rw.Header().Set("Content-Type", "application/json")
		rw.Write(w.jwks())
		return
	}
	if wait {
		// make the index downloads of one build overlap: nobody is answered before all have arrived
		for i := 0; i < 750; i++ {
			w.mu.Lock()
			ok := w.arrived >= w.overlap
			w.mu.Unlock()
			if ok {
				break
			}
			time.Sleep(2 * time.Millisecond)
		}
	}
	if !strings.HasPrefix(req.URL.Path, prefix) {
		http.NotFound(rw, req)
		return
	}
	p := filepath.Join(rev.dir, filepath.FromSlash(filepath.Clean("/"+strings.TrimPrefix(req.URL.Path, prefix))))
	b, err := os.ReadFile(p)
	if err != nil {
		http.NotFound(rw, req)
		return
	}
	if etagHdr == "" {
		etagHdr = `"` + etagOf(b) + `"`
	}
	rw.Header()["ETag"] = []string{etagHdr}
	if ft != nil {
		// the body is cut: Content-Length promises everything, the connection dies after ft.cut bytes
		rw.Header().Set("Content-Length", fmt.Sprint(len(b)))
		rw.WriteHeader(200)
		n := ft.cut
		if n > len(b) {
			n = len(b)
		}
		rw.Write(b[:n])
		if f, ok := rw.(http.Flusher); ok {
			f.Flush()
		}
		if hj, ok := rw.(http.Hijacker); ok {
			if c, _, err := hj.Hijack(); err == nil {
				c.Close()
			}
		}
		return
	}
	if st == nil {
		http.ServeContent(rw, req, filepath.Base(p), time.Time{}, bytes.NewReader(b))
		return
	}
	rw.Header().Set("Content-Length", fmt.Sprint(len(b)))
	rw.WriteHeader(200)
	n := st.after
	if n > len(b) {
		n = len(b)
	}
	rw.Write(b[:n])
	if f, ok := rw.(http.Flusher); ok {
		f.Flush()
	}
	close(st.reached)
	<-st.release
	// the client is normally dead by now; finish politely otherwise
	rw.Write(b[n:])
}

// jwks: the repository key as a JSON Web Key Set (kid = key file name without ".rsa.pub")
func (w *world) jwks() []byte {
	pub := w.key.Priv.PublicKey
	b64 := base64.RawURLEncoding.EncodeToString
	e := big.NewInt(int64(pub.E)).Bytes()
	kid := strings.TrimSuffix(w.key.Name, ".rsa.pub")
	return []byte(fmt.Sprintf(`{"keys":[{"use":"sig","kty":"RSA","kid":%q,"alg":"RS256","n":%q,"e":%q}]}`, kid, b64(pub.N.Bytes()), b64(e)))
}

func (w *world) requests() []string {
	w.mu.Lock()
	defer w.mu.Unlock()
	out := append([]string{}, w.reqs...)
	w.reqs = nil
	return out
}

// ---- running one build process -------------------------------------------

type runSpec struct {
	Cache   string // "" = no cache
	Offline bool
	Pkgs    []string
	CrashAt string   // VERIF_CRASH_AT
	WaitAt  string   // VERIF_WAIT_AT
	WaitF   string   // VERIF_WAIT_FILE
	Trace   string   // VERIF_TRACE_FILE
	Strace  string   // if set: run under strace -f, output file
	N       int      // > 1: that many builds one after the other in ONE process, sharing one apk.Cache object
	NoKey   bool     // no keyring in the configuration: the key must come from key discovery
	Gate    string   // with N > 1: before build i (1-based, i >= 2) create <Gate>.<i>.reached and wait for <Gate>.<i>
	NoEtag  bool     // apk.NewCache(false): HEAD responses are not memoised in the process
	Keys    []string // keyring entries (paths or URLs) instead of the repository key file
	Repos   []string // repositories instead of the world's one
}

type runOut struct {
	Killed bool
	Exit   int
	Res    workerResult
	All    []workerResult // every build of the process (N > 1)
	Dur    time.Duration
}

func (w *world) command(s runSpec) (*exec.Cmd, string) {
	w.mu.Lock()
	w.nrun++
	id := w.nrun
	w.mu.Unlock()
	resf := filepath.Join(w.root, fmt.Sprintf("result-%d.json", id))
	tmp := filepath.Join(w.root, fmt.Sprintf("tmp-%d", id))
	os.MkdirAll(tmp, 0o755)
	keyArg := w.revs[0].repo.KeyPath()
	if len(s.Keys) > 0 {
		keyArg = strings.Join(s.Keys, ",")
	}
	repoArg := w.repoURL()
	if len(s.Repos) > 0 {
		repoArg = strings.Join(s.Repos, ",")
	}
	args := []string{"-worker", "-repo", repoArg, "-key", keyArg, "-cache", s.Cache,
		"-pkgs", strings.Join(s.Pkgs, ","), "-result", resf, "-tmp", tmp}
	if s.Offline {
		args = append(args, "-offline")
	}
	if s.N > 1 {
		args = append(args, "-n", fmt.Sprint(s.N), "-gate", s.Gate)
	}
	if s.NoKey {
		args = append(args, "-nokey")
	}
	if s.NoEtag {
		args = append(args, "-noetag")
	}
	var cmd *exec.Cmd
	if s.Strace != "" {
		cmd = exec.Command("strace", append([]string{"-f", "-qq", "-y", "-o", s.Strace, "-e", "trace=file,write,close,pwrite64,writev,ftruncate,fchmod", "-e", "signal=none", w.self}, args...)...)
	} else {
		cmd = exec.Command(w.self, args...)
	}
	env := []string{"PATH=" + os.Getenv("PATH"), "TMPDIR=" + tmp, "GOMAXPROCS=4"}
	// no HOME / XDG_CACHE_HOME: without -cache the build has no cache at all
	if s.CrashAt != "" {
		env = append(env, "VERIF_CRASH_AT="+s.CrashAt)
	}
	if s.WaitAt != "" {
		env = append(env, "VERIF_WAIT_AT="+s.WaitAt, "VERIF_WAIT_FILE="+s.WaitF)
	}
	if s.Trace != "" {
		env = append(env, "VERIF_TRACE_FILE="+s.Trace)
	}
	cmd.Env = env
	cmd.Stdout, cmd.Stderr = io.Discard, io.Discard
	cmd.SysProcAttr = &syscall.SysProcAttr{Setpgid: true}
	w.mu.Lock()
	w.children = append(w.children, cmd)
	w.mu.Unlock()
	return cmd, resf
}

func finish(cmd *exec.Cmd, resf string, t0 time.Time) runOut {
	err := cmd.Wait()
	out := runOut{Dur: time.Since(t0)}
	if ee, ok := err.(*exec.ExitError); ok {
		if ws, ok := ee.Sys().(syscall.WaitStatus); ok && ws.Signaled() {
			out.Killed = true
		}
		out.Exit = ee.ExitCode()
	} else if err != nil {
		out.Exit = -2
	}
	if b, err := os.ReadFile(resf); err == nil {
		json.Unmarshal(b, &out.Res)
		if b2, err := os.ReadFile(resf + ".all"); err == nil {
			json.Unmarshal(b2, &out.All)
			os.Remove(resf + ".all")
		}
	} else if !out.Killed {
		out.Res.Err = "no result file"
	}
	os.Remove(resf)
	return out
}

func (w *world) run(s runSpec) runOut {
	cmd, resf := w.command(s)
	t0 := time.Now()
	if err := cmd.Start(); err != nil {
		return runOut{Exit: -1, Res: workerResult{Err: err.Error()}}
	}
	return finish(cmd, resf, t0)
}

// ---- cache directory listing -----------------------------------------------

type entry struct {
	Path   string // relative to the cache root, "/" separated
	Kind   string // "dir" | "file" | "link"
	Target string // link target as stored
	Size   int64
	Hash   string // sha256 of the file content ("" for dirs / links)
}

func listCache(root string) ([]entry, error) {
	var out []entry
	err := filepath.Walk(root, func(p string, fi os.FileInfo, err error) error {
		if err != nil {
			return err
		}
		rel, _ := filepath.Rel(root, p)
		if rel == "." {
			return nil
		}
		e := entry{Path: filepath.ToSlash(rel)}
		switch {
		case fi.Mode()&os.ModeSymlink != 0:
			e.Kind = "link"
			e.Target, _ = os.Readlink(p)
		case fi.IsDir():
			e.Kind = "dir"
		default:
			e.Kind = "file"
			b, err := os.ReadFile(p)
			if err != nil {
				return err
			}
			e.Size, e.Hash = int64(len(b)), sha(b)
		}
		out = append(out, e)
		return nil
	})
	sort.Slice(out, func(i, j int) bool { return out[i].Path < out[j].Path })
	return out, err
}

func gunzip(b []byte) []byte {
	zr, err := gzip.NewReader(bytes.NewReader(b))
	if err != nil {
		return nil
	}
	out, _ := io.ReadAll(zr)
	return out
}
