package main

// The callers stage: the real fetchRepositoryIndex (RoundTrip, status test, io.ReadAll, the decision about
// ReadAll's error) over the scripted transport of the scripted stage, so that every framing (Content-Length,
// no length but framed, close-delimited) meets every way a download can run out of retries, deterministically:
// more failing body reads in a row than the budget, resumptions answered with an error status / a dial error
// after k good ones, a back-end that rejects Range. Verdict: an error, or exactly the server's bytes; compared
// with Model/TransportCallers.v (index_fetch_r) for bodies below io.ReadAll's first buffer size.

import (
	"context"
	"fmt"
	"net/http"

	"chainguard.dev/apko/pkg/apk/apk"
	"verifharness/gal"
)

type kcase struct {
	Kind   string   `json:"kind"`
	Bare   bool     `json:"error_responses_without_body"`
	Seed   int      `json:"data_seed"`
	Len    int      `json:"data_len"`
	Reads  []rdEv   `json:"reads"`
	ConnsT string   `json:"conns_text"`
	NoLen  []bool   `json:"connection_without_content_length"`
	Got    int      `json:"returned_bytes"`
	Err    string   `json:"error,omitempty"`
	Ranges [][]int  `json:"range_values_per_request"`
}

func callerCase(w *gal.Writer, kind int, bare bool, dseed, dlen int, reads []rdEv, conns []int, class string) {
	ebody := make([]byte, (dseed+dlen+len(reads))%4)
	for i := range ebody {
		ebody[i] = byte(200 + (dseed+i)%50)
	}
	e := &env{data: genData(dseed, dlen), ebody: ebody, kind: kind, bare: bare, reads: append([]rdEv(nil), reads...), conns: append([]int(nil), conns...)}
	b, err := apk.VerifFetchRepositoryIndex(context.Background(), "http://scripted.invalid/x86_64/APKINDEX.tar.gz", &http.Client{Transport: e})
	res, es := "None", ""
	if err == nil {
		res = "(Some " + gal.Bytes(b) + ")"
	} else {
		es = err.Error()
		if len(es) > 100 {
			es = es[:100]
		}
	}
	var ranges [][]int
	rs := make([]string, len(e.sent))
	for i, sr := range e.sent {
		vs := make([]string, len(sr.Vals))
		for j, v := range sr.Vals {
			if v < 0 {
				v = 65535
			}
			vs[j] = gal.Nat(v)
		}
		rs[i] = gal.List(vs)
		ranges = append(ranges, sr.Vals)
	}
	noLens := make([]bool, len(conns))
	for i, c := range conns {
		noLens[i] = c&(noLen|closeDelim) != 0
	}
	term := fmt.Sprintf("{| k_kind := %s; k_bare := %s; k_ebody := %s; k_seed := %s; k_len := %s; k_reads := %s; k_conns := %s; k_res := %s; k_ranges := %s |}",
		kindNames[kind], gal.Bool(bare), gal.Bytes(ebody), gal.Nat(dseed), gal.Nat(dlen), galReads(reads), galConns(conns), res, gal.List(rs))
	nf := 0
	for _, r := range reads {
		if r.Fail {
			nf++
		}
	}
	first := "content-length"
	if len(conns) > 0 && conns[0]&closeDelim != 0 {
		first = "close-delimited"
	} else if len(conns) > 0 && conns[0]&noLen != 0 {
		first = "no-length"
	}
	outcome := "error"
	if err == nil {
		outcome = "bytes"
	}
	w.Add(gal.Case{Term: term, Class: fmt.Sprintf("%s/%s/first=%s/faults=%d/%s", class, kindNames[kind], first, min(nf, 4), outcome), Trivial: nf == 0 && len(conns) == 0,
		Desc: kcase{kindNames[kind], bare, dseed, dlen, reads, galConns(conns), noLens, len(b), es, ranges}})
}

func callersStage(dir string, seed uint64, tier string) error {
	w := &gal.Writer{Dir: dir, Require: "From Apko Require Import Corr.C20.", Type: "caller_case", Check: "check_caller", Shard: 400}
	ok := func(k int) rdEv { return rdEv{K: k} }
	fail := func(k int) rdEv { return rdEv{K: k, Fail: true} }
	for kind := 0; kind < 3; kind++ {
		const dlen = 40
		// the first response's framing: Content-Length, none but framed (chunked), close-delimited (closed after everything)
		for fi, first := range []int{cServe, cServe | noLen, cClose(kind, dlen)} {
			bare := (kind+fi)%2 == 0
			callerCase(w, kind, bare, 5, dlen, nil, []int{first}, "exhaust/none")
			for _, k := range []int{0, 7, dlen} {
				var pre []rdEv
				if k > 0 {
					pre = []rdEv{ok(k)}
				}
				// budget, budget+1, budget+2 failing body reads in a row after k bytes
				for nf := 2; nf <= 4; nf++ {
					reads := append([]rdEv(nil), pre...)
					for j := 0; j < nf; j++ {
						reads = append(reads, fail(0))
					}
					callerCase(w, kind, bare, 5, dlen, reads, []int{first}, "exhaust/failures-in-a-row")
					callerCase(w, kind, bare, 5, dlen, reads, []int{first, cServe | noLen, cServe | noLen, cServe | noLen}, "exhaust/failures-in-a-row")
				}
				// a resumption answered 503 / failing at connection level / answered by a back-end that rejects Range, after j good ones
				for j := 0; j <= 2; j++ {
					for _, last := range []int{cStatus, cErr, 5} {
						reads := append([]rdEv(nil), pre...)
						conns := []int{first}
						for g := 0; g < j; g++ {
							reads = append(reads, fail(0), ok(5))
							conns = append(conns, 3) // a Range-honouring back-end, whatever the session's kind
						}
						reads = append(reads, fail(0))
						conns = append(conns, last)
						callerCase(w, kind, bare, 5, dlen, reads, conns, "exhaust/resumption-refused")
						callerCase(w, kind, !bare, 5, dlen, reads, conns, "exhaust/resumption-refused")
					}
				}
			}
		}
		// a body beyond ReadAll's first buffer (validator only), first response without a length, resumption refused
		callerCase(w, kind, false, 6, 3000, []rdEv{ok(1000), ok(700), fail(3)}, []int{cServe | noLen, cStatus}, "exhaust/large")
		callerCase(w, kind, true, 6, 3000, []rdEv{ok(1000), fail(0), fail(0), fail(0)}, []int{cServe | noLen}, "exhaust/large")
	}
	// random scripts, as in the scripted stage, through the caller
	r := gal.NewRand(seed + 909)
	n := 150
	if tier == "thorough" {
		n = 4000
	}
	for i := 0; i < n; i++ {
		kind := r.Intn(3)
		dlen := gal.Pick(r, []int{0, 1, 2, 13, 40, 100, 257, 511})
		if r.Chance(1, 30) {
			dlen = 512 + r.Intn(3000)
		}
		var reads []rdEv
		for j, nev := 0, r.Intn(10); j < nev; j++ {
			reads = append(reads, rdEv{K: r.Intn(dlen + 2), Fail: r.Chance(2, 5), Eager: r.Chance(1, 4)})
		}
		var conns []int
		for j, nc := 0, r.Intn(5); j < nc; j++ {
			c := cServe
			if r.Chance(1, 4) {
				c = 1 + r.Intn(2)
			} else if r.Chance(1, 3) {
				c = 3 + r.Intn(3)
			}
			if r.Chance(1, 2) {
				c |= noLen
			}
			if r.Chance(1, 12) {
				c = cClose(r.Intn(3), r.Intn(dlen+2))
			}
			conns = append(conns, c)
		}
		callerCase(w, kind, r.Chance(1, 3), int(r.Intn(1000)), dlen, reads, conns, "random")
	}
	return w.Flush()
}
