package main

// The index download (fetchRepositoryIndex) against the same cutting server as the http stage:
// without a cache directory (range-retry reader straight on the network) and with one (the etag-keyed
// cache transport stores the body in a file first; the range-retry reader only ever sees that file).
// Every download is followed by a second one from a server that no longer faults, with a fresh
// in-process cache over the same directory: whatever the first one left behind, the second must
// deliver the server's bytes. For the cached path the cache directory is inspected after each
// download (what is advertised under the etag's name, temporary files that no advertised name points
// to) and everything is compared with Model/TransportCache.v (check_index in Corr/C20.v).

import (
	"context"
	"fmt"
	"io/fs"
	"net/http"
	"net/http/httptest"
	"os"
	"path/filepath"
	"strings"
	"time"

	"chainguard.dev/apko/pkg/apk/apk"
	"verifharness/gal"
)

type idesc struct {
	Path    string `json:"path"`
	Kind    string `json:"kind"`
	Len     int    `json:"data_len"`
	Framing string `json:"framing"`
	Fin     bool   `json:"clean_close"`
	Cuts    []int  `json:"cuts"`
	Refuse  int    `json:"get_requests_answered_503_first"`
	GoodRanges int `json:"range_requests_answered_before_403,omitempty"`
	Got1    int    `json:"delivered_by_faulty_download"`
	Err1    string `json:"error_of_faulty_download,omitempty"`
	Mid     int    `json:"advertised_bytes_seen_during_faulty_download"`
	Adv1    int    `json:"advertised_bytes_after_faulty_download"`
	Tmps1   int    `json:"orphan_temporaries_after_faulty_download"`
	Got2    int    `json:"delivered_by_healthy_download"`
	Err2    string `json:"error_of_healthy_download,omitempty"`
	Live    bool   `json:"expected_to_complete"`
	Model   bool   `json:"compared_with_model"`
}

// inspectCache: the content reachable through the advertised name(s) (anything that is not *.tmp; -1 bytes = none),
// and the number of *.tmp files no advertised name resolves to
func inspectCache(dir string) (adv []byte, hasAdv bool, orphans int) {
	targets := map[string]bool{}
	var temps []string
	_ = filepath.WalkDir(dir, func(p string, d fs.DirEntry, err error) error {
		if err != nil || d.IsDir() {
			return nil
		}
		if strings.HasSuffix(d.Name(), ".tmp") {
			temps = append(temps, p)
			return nil
		}
		if b, err := os.ReadFile(p); err == nil {
			adv, hasAdv = b, true
		}
		if t, err := filepath.EvalSymlinks(p); err == nil {
			targets[t] = true
		}
		return nil
	})
	for _, t := range temps {
		rt, err := filepath.EvalSymlinks(t)
		if err != nil || !targets[rt] {
			orphans++
		}
	}
	return
}

func indexStage(dir string, seed uint64, tier string) error {
	w := &gal.Writer{Dir: dir, Require: "From Apko Require Import Corr.C20.", Type: "index_case", Check: "check_index", Shard: 400}
	r := gal.NewRand(seed + 4242)
	n := 40
	if tier == "thorough" {
		n = 500
	}
	type plan struct {
		cached              bool
		kind, dlen, framing int
		fin                 bool
		cuts                []int
		refuse              int // GET requests answered 503 first
		goodRanges          int // > 0: Range requests beyond that many are answered 403
	}
	var plans []plan
	// corners: a drop at every interesting offset while the body streams into the cache file (seeded change C20-6), and the same without a cache
	for _, cached := range []bool{true, false} {
		for _, cut := range []int{0, 1, 150, 299} {
			plans = append(plans, plan{cached, 0, 300, frLength, false, []int{cut}, 0, 0})
			plans = append(plans, plan{cached, 0, 300, frLength, true, []int{cut}, 0, 0})
			plans = append(plans, plan{cached, 0, 300, frChunked, false, []int{cut}, 0, 0})
		}
		plans = append(plans, plan{cached, 0, 300, frChunked, true, []int{300}, 0, 0}) // cut after the last byte, before the terminating chunk
		plans = append(plans, plan{cached, 1, 4097, frLength, true, []int{2000, 3000}, 0, 0})
		plans = append(plans, plan{cached, 2, 4097, frLength, false, []int{2000}, 0, 0})
		plans = append(plans, plan{cached, 0, 4097, frLength, false, nil, 0, 0})
		// close-delimited responses closed cleanly: finding C20-F1 (plain) and C20-F2 (the short body stays in the cache)
		plans = append(plans, plan{cached, 0, 300, frClose, true, []int{150}, 0, 0})
		plans = append(plans, plan{cached, 1, 13, frClose, true, []int{0}, 0, 0})
		plans = append(plans, plan{cached, 0, 300, frClose, true, nil, 0, 0}) // not cut: complete
		// the GET is answered 503 (with a body, without one): the callers' status test / retrieveAndSaveFile's is what refuses it
		plans = append(plans, plan{cached, 0, 300, frLength, false, nil, 1, 0})
		plans = append(plans, plan{cached, 1, 13, frLength, false, nil, 1, 0})
		// retry exhaustion for every framing that reports a cut as an error (seeded change C20-9 needs the chunked ones):
		// more failing reads in a row than the budget, a resumption answered 400 (kind 2) / 416 (cut after the last byte),
		// a resumption refused (403) after one / two good ones
		for _, fr := range []int{frLength, frChunked} {
			for _, fin := range []bool{false, true} {
				plans = append(plans, plan{cached, 0, 300, fr, fin, []int{150, 0, 0, 0, 0}, 0, 0})
				plans = append(plans, plan{cached, 2, 300, fr, fin, []int{150}, 0, 0})
				plans = append(plans, plan{cached, 0, 300, fr, fin, []int{100, 50}, 0, 1})
				plans = append(plans, plan{cached, 0, 300, fr, fin, []int{100, 50, 50}, 0, 2})
			}
		}
	}
	for i := 0; i < n; i++ {
		dlen := gal.Pick(r, []int{1, 13, 300, 4097, 20000})
		var cuts []int
		for j, nc := 0, r.Intn(4); j < nc; j++ {
			cuts = append(cuts, r.Intn(dlen+1))
		}
		fr := gal.Pick(r, []int{frLength, frLength, frChunked})
		fin := r.Chance(1, 2)
		if r.Chance(1, 10) {
			fr, fin = frClose, true
			dlen = min(dlen, 4097)
			for j := range cuts {
				cuts[j] = min(cuts[j], dlen)
			}
		}
		plans = append(plans, plan{r.Chance(2, 3), r.Intn(3), dlen, fr, fin, cuts, 0, 0})
	}
	optBytes := func(present bool, b []byte, dseed, dlen int, data []byte) string {
		if !present {
			return "None"
		}
		if len(b) > 300 && len(b) <= dlen && string(b) == string(data[:len(b)]) {
			return fmt.Sprintf("(Some (firstn %s (gen_data %s %s)))", gal.Nat(len(b)), gal.Nat(dseed), gal.Nat(dlen))
		}
		return "(Some " + gal.Bytes(b) + ")"
	}
	for i, p := range plans {
		dseed := r.Intn(1000)
		data := genData(dseed, p.dlen)
		srv := &cutServer{data: data, kind: p.kind, cuts: append([]int(nil), p.cuts...), framing: p.framing, fin: p.fin, bare: i%2 == 0, refuse: p.refuse, goodRanges: p.goodRanges}
		cdir := ""
		if p.cached {
			srv.etag = fmt.Sprintf("\"rev-%d\"", i)
			d, err := os.MkdirTemp("", "c20index")
			if err != nil {
				return err
			}
			cdir = d
		}
		ts := httptest.NewServer(srv)
		url := ts.URL + "/repo/x86_64/APKINDEX.tar.gz"
		client := func() *http.Client {
			if p.cached {
				return apk.VerifIndexCacheClient(cdir, ts.Client())
			}
			return ts.Client()
		}
		var got [2][]byte
		var ok [2]bool
		var es [2]string
		var adv [2][]byte
		var hasAdv [2]bool
		var tmps [2]int
		var effCuts1 int
		var corner1, unframed1 bool
		// what another process finds under the advertised name WHILE the first download's body streams into the cache:
		// looked at when the server has flushed the bytes before its (first) cut and the connection is still open
		var midAdv []byte
		midHas, midSeen := false, false
		if p.cached {
			srv.atCut = func() {
				if midSeen {
					return
				}
				midSeen = true
				time.Sleep(20 * time.Millisecond) // let the client's copy catch up with what was flushed
				midAdv, midHas, _ = inspectCache(cdir)
			}
		}
		for phase := 0; phase < 2; phase++ {
			if phase == 1 {
				srv.mu.Lock()
				srv.cuts = nil
				srv.mu.Unlock()
			}
			b, err := apk.VerifFetchRepositoryIndex(context.Background(), url, client())
			if err == nil {
				got[phase], ok[phase] = b, true
			} else {
				es[phase] = err.Error()
				if len(es[phase]) > 120 {
					es[phase] = es[phase][:120]
				}
			}
			if p.cached {
				adv[phase], hasAdv[phase], tmps[phase] = inspectCache(cdir)
			}
			if phase == 0 {
				srv.mu.Lock()
				effCuts1, corner1, unframed1 = srv.effCuts, srv.corner, srv.unframed
				srv.mu.Unlock()
			}
		}
		ts.Close()
		if cdir != "" {
			os.RemoveAll(cdir)
		}
		// the first download in the model's alphabet: only the first connection matters on the cached path (no retry there)
		conn, reads, model := "CServe", "[]", p.cached
		firstCut := -1
		if len(p.cuts) > 0 {
			firstCut = p.cuts[0]
		}
		isCut := firstCut >= 0 && (firstCut < p.dlen || (firstCut == p.dlen && p.framing == frChunked && p.dlen > 0))
		switch {
		case p.refuse > 0:
			conn = "CStatus"
		case !isCut:
			if p.framing == frClose {
				conn = fmt.Sprintf("(CCloseDelim %s %s)", kindNames[p.kind], gal.Nat(p.dlen))
			}
		case p.framing == frClose && p.fin:
			conn = fmt.Sprintf("(CCloseDelim %s %s)", kindNames[p.kind], gal.Nat(firstCut))
		case p.framing == frClose:
			model = false // a reset of a close-delimited response may or may not be seen as an error
		default:
			reads = fmt.Sprintf("[{| rk := %s; rfail := true; reager := false |}]", gal.Nat(firstCut))
		}
		// what must complete: the first download without a cache under the http stage's conditions restricted to
		// Range-honouring servers and resets; with a cache only when its one connection is not cut (the cache transport
		// does not retry); an uncut download always
		live := !p.cached && !unframed1 && !corner1 && effCuts1 <= 2 && p.kind == 0 && !p.fin
		if !isCut {
			live = true // the first connection delivers everything
		}
		if p.refuse > 0 || (p.goodRanges > 0 && isCut) {
			live = false
		}
		if unframed1 {
			live = false
		}
		big := false
		for ph := 0; ph < 2; ph++ {
			if len(got[ph]) > 300 && !(len(got[ph]) <= p.dlen && string(got[ph]) == string(data[:len(got[ph])])) {
				big = true
			}
			if len(adv[ph]) > 300 && !(len(adv[ph]) <= p.dlen && string(adv[ph]) == string(data[:len(adv[ph])])) {
				big = true
			}
		}
		if len(midAdv) > 300 && !(len(midAdv) <= p.dlen && string(midAdv) == string(data[:len(midAdv)])) {
			big = true
		}
		path := "plain"
		if p.cached {
			path = "cached"
		}
		if big {
			// long bytes that are not the server's: judged here (Coq would have to parse them as a literal)
			fmt.Printf("IMPL-VIOLATION tag=index-short-or-altered-body {\"path\":%q,\"len\":%d,\"cuts\":%v,\"delivered\":[%d,%d],\"advertised\":[%d,%d]}\n",
				path, p.dlen, p.cuts, len(got[0]), len(got[1]), len(adv[0]), len(adv[1]))
			continue
		}
		term := fmt.Sprintf("{| i_seed := %s; i_len := %s; i_cached := %s; i_model := %s; i_conn := %s; i_reads := %s; i_live := %s; "+
			"o_mid := %s; o_res1 := %s; o_adv1 := %s; o_tmps1 := %s; o_res2 := %s; o_adv2 := %s; o_tmps2 := %s |}",
			gal.Nat(dseed), gal.Nat(p.dlen), gal.Bool(p.cached), gal.Bool(model), conn, reads, gal.Bool(live),
			optBytes(midHas, midAdv, dseed, p.dlen, data),
			optBytes(ok[0], got[0], dseed, p.dlen, data), optBytes(hasAdv[0], adv[0], dseed, p.dlen, data), gal.Nat(tmps[0]),
			optBytes(ok[1], got[1], dseed, p.dlen, data), optBytes(hasAdv[1], adv[1], dseed, p.dlen, data), gal.Nat(tmps[1]))
		advLen := -1
		if hasAdv[0] {
			advLen = len(adv[0])
		}
		midLen := -1
		if midHas {
			midLen = len(midAdv)
		}
		cutClass := "uncut"
		if isCut {
			cutClass = "cut"
		}
		w.Add(gal.Case{Term: term, Class: fmt.Sprintf("index-%s/%s/%s/%s", path, kindNames[p.kind], framingNames[p.framing], cutClass), Trivial: len(p.cuts) == 0 && p.refuse == 0,
			Key:  fmt.Sprintf("%d", i),
			Desc: idesc{path, kindNames[p.kind], p.dlen, framingNames[p.framing], p.fin, p.cuts, p.refuse, p.goodRanges, len(got[0]), es[0], midLen, advLen, tmps[0], len(got[1]), es[1], live, model}})
	}
	return w.Flush()
}
