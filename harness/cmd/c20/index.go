package main

// The index download (fetchRepositoryIndex) against the same cutting server as the http stage:
// without a cache directory (range-retry reader straight on the network) and with one (the etag-keyed
// cache transport stores the body in a file first; the range-retry reader only ever sees that file).
// Every download is followed by a second one from a server that no longer faults, with a fresh
// in-process cache over the same directory: whatever the first one left behind, the second must
// deliver the server's bytes.

import (
	"context"
	"fmt"
	"net/http"
	"net/http/httptest"
	"os"

	"chainguard.dev/apko/pkg/apk/apk"
	"verifharness/gal"
)

type idesc struct {
	Path    string `json:"path"`
	Kind    string `json:"kind"`
	Len     int    `json:"data_len"`
	Framing string `json:"framing"`
	Fin     bool   `json:"clean_close"`
	Cuts    []int  `json:"cuts"`
	Phase   string `json:"phase"`
	Got     int    `json:"delivered"`
	Err     string `json:"error,omitempty"`
	Live    bool   `json:"expected_to_complete"`
}

func indexStage(dir string, seed uint64, tier string) error {
	w := &gal.Writer{Dir: dir, Require: "From Apko Require Import Corr.C20.", Type: "http_case", Check: "check_http", Shard: 400}
	r := gal.NewRand(seed + 4242)
	n := 40
	if tier == "thorough" {
		n = 500
	}
	type plan struct {
		cached             bool
		kind, dlen, framing int
		fin                bool
		cuts               []int
	}
	var plans []plan
	// corners: a drop at every interesting offset while the body streams into the cache file (seeded change C20-6), and the same without a cache
	for _, cached := range []bool{true, false} {
		for _, cut := range []int{0, 1, 150, 299} {
			plans = append(plans, plan{cached, 0, 300, frLength, false, []int{cut}})
			plans = append(plans, plan{cached, 0, 300, frLength, true, []int{cut}})
			plans = append(plans, plan{cached, 0, 300, frChunked, false, []int{cut}})
		}
		plans = append(plans, plan{cached, 1, 4097, frLength, true, []int{2000, 3000}})
		plans = append(plans, plan{cached, 2, 4097, frLength, false, []int{2000}})
		plans = append(plans, plan{cached, 0, 4097, frLength, false, nil})
	}
	for i := 0; i < n; i++ {
		dlen := gal.Pick(r, []int{1, 13, 300, 4097, 20000})
		var cuts []int
		for j, nc := 0, r.Intn(4); j < nc; j++ {
			cuts = append(cuts, r.Intn(dlen+1))
		}
		plans = append(plans, plan{r.Chance(2, 3), r.Intn(3), dlen, gal.Pick(r, []int{frLength, frLength, frChunked}), r.Chance(1, 2), cuts})
	}
	for i, p := range plans {
		dseed := r.Intn(1000)
		data := genData(dseed, p.dlen)
		srv := &cutServer{data: data, kind: p.kind, cuts: append([]int(nil), p.cuts...), framing: p.framing, fin: p.fin, bare: i%2 == 0}
		cdir := ""
		if p.cached {
			srv.etag = fmt.Sprintf("\"rev-%d\"", i)
			d, err := os.MkdirTemp("", "c20index")
			if err != nil {
				return err
			}
			cdir = d
		}
		ts := httptest.NewServer(srv)
		url := ts.URL + "/repo/x86_64/APKINDEX.tar.gz"
		client := func() *http.Client {
			if p.cached {
				return apk.VerifIndexCacheClient(cdir, ts.Client())
			}
			return ts.Client()
		}
		for phase := 0; phase < 2; phase++ {
			if phase == 1 {
				srv.mu.Lock()
				srv.cuts = nil
				srv.mu.Unlock()
			}
			got, err := apk.VerifFetchRepositoryIndex(context.Background(), url, client())
			srv.mu.Lock()
			effCuts, corner, unframed := srv.effCuts, srv.corner, srv.unframed
			srv.mu.Unlock()
			// what must complete: the second, fault-free download always; the first one without a cache under the http
			// stage's conditions restricted to Range-honouring servers and resets (the cache transport below the reader does not retry)
			live := phase == 1 || (!p.cached && !unframed && !corner && effCuts <= 2 && p.kind == 0 && !p.fin)
			if phase == 0 && len(p.cuts) == 0 {
				live = true
			}
			errName, es := "EEOF", ""
			if err != nil {
				errName, es, got = "EFail", err.Error(), nil
				if len(es) > 120 {
					es = es[:120]
				}
			}
			path := "plain"
			if p.cached {
				path = "cached"
			}
			ph := []string{"faulty", "healthy-after"}[phase]
			var term string
			okPrefix := len(got) <= p.dlen && string(got) == string(data[:len(got)])
			if p.dlen > 300 && okPrefix {
				term = fmt.Sprintf("{| h_seed := %s; h_len := %s; h_opened := true; h_got := firstn %s (gen_data %s %s); h_err := %s; h_unframed := %s; h_live := %s |}",
					gal.Nat(dseed), gal.Nat(p.dlen), gal.Nat(len(got)), gal.Nat(dseed), gal.Nat(p.dlen), errName, gal.Bool(unframed), gal.Bool(live))
			} else {
				if len(got) > 3000 {
					fmt.Printf("IMPL-VIOLATION tag=index-short-or-altered-body {\"path\":%q,\"len\":%d,\"cuts\":%v,\"phase\":%q,\"delivered\":%d}\n", path, p.dlen, p.cuts, ph, len(got))
					continue
				}
				term = fmt.Sprintf("{| h_seed := %s; h_len := %s; h_opened := true; h_got := %s; h_err := %s; h_unframed := %s; h_live := %s |}",
					gal.Nat(dseed), gal.Nat(p.dlen), gal.Bytes(got), errName, gal.Bool(unframed), gal.Bool(live))
			}
			w.Add(gal.Case{Term: term, Class: fmt.Sprintf("index-%s/%s/%s/%s", path, kindNames[p.kind], framingNames[p.framing], ph), Trivial: len(p.cuts) == 0,
				Key:  fmt.Sprintf("%d/%d", i, phase),
				Desc: idesc{path, kindNames[p.kind], p.dlen, framingNames[p.framing], p.fin, p.cuts, ph, len(got), es, live}})
		}
		ts.Close()
		if cdir != "" {
			os.RemoveAll(cdir)
		}
	}
	return w.Flush()
}
