// c20 harness: drives the real rangeRetryReader (a) against a scripted fake
// transport whose event alphabet is exactly the model's, comparing every Read,
// and (b) through APK.FetchPackage against a real HTTP server that cuts
// connections at scripted byte offsets.
package main

import (
	"context"
	"errors"
	"flag"
	"fmt"
	"io"
	"net"
	"net/http"
	"net/http/httptest"
	"os"
	"path/filepath"
	"slices"
	"strconv"
	"strings"
	"sync"

	"chainguard.dev/apko/pkg/apk/apk"
	"verifharness/gal"
)

type rdEv struct {
	K     int  `json:"k"`
	Fail  bool `json:"fail"`
	Eager bool `json:"eager"`
}

const (
	cServe = iota
	cErr
	cStatus
)

var kindNames = []string{"HonoursRange", "IgnoresRange", "RejectsRange"}
var connNames = []string{"CServe", "CErr", "CStatus", "(CServeAs HonoursRange)", "(CServeAs IgnoresRange)", "(CServeAs RejectsRange)"}

// noLen marks a connection whose response does not announce its length (ContentLength = -1)
// but is framed (chunked): the current reader ignores the length, so the model has no such notion
const noLen = 1 << 8

// closeDelim marks a close-delimited response (no Content-Length, not chunked) whose
// connection is closed cleanly after n body bytes: cClose(kind, n) = CCloseDelim kind n
const closeDelim = 1 << 9

func cClose(kind, n int) int { return (3 + kind) | closeDelim | n<<12 }

func connText(c int) string {
	if c&closeDelim != 0 {
		return fmt.Sprintf("(CCloseDelim %s %s)", kindNames[c&0xff-3], gal.Nat(c>>12))
	}
	return connNames[c&0xff]
}

func genData(seed, n int) []byte {
	b := make([]byte, n)
	for i := range b {
		b[i] = byte((i*131 + seed*17 + i/251) % 256)
	}
	return b
}

// ---- scripted environment -------------------------------------------------

type sentReq struct {
	P    int   // bytes handed over by the Reads completed before this request
	Vals []int // every value of the Range header, bytes=<n>- parsed (-2 = unparsable)
}

type env struct {
	data      []byte
	ebody     []byte // what error responses carry when they carry a body
	kind      int
	bare      bool // error responses carry no body (net/http: Body == http.NoBody)
	reads     []rdEv
	conns     []int
	reqs      []int // -1 = no Range header
	delivered int   // bytes handed over by completed Reads (kept by runScripted)
	sent      []sentReq
}

type sbody struct {
	e    *env
	rest []byte
	dead bool
}

func (b *sbody) Read(p []byte) (int, error) {
	if b.dead {
		return 0, errors.New("scripted: read on dead body")
	}
	if len(p) == 0 {
		return 0, nil
	}
	ev := rdEv{K: len(p)}
	if len(b.e.reads) > 0 {
		ev = b.e.reads[0]
		b.e.reads = b.e.reads[1:]
	}
	want := ev.K
	if !ev.Fail && want < 1 {
		want = 1
	}
	n := min(want, len(p), len(b.rest))
	copy(p, b.rest[:n])
	wasEmpty := len(b.rest) == 0
	b.rest = b.rest[n:]
	if ev.Fail {
		b.dead = true
		return n, errors.New("scripted: connection reset")
	}
	if wasEmpty {
		return 0, io.EOF
	}
	if len(b.rest) == 0 && ev.Eager {
		return n, io.EOF
	}
	return n, nil
}
func (b *sbody) Close() error { b.dead = true; return nil }

func (e *env) RoundTrip(req *http.Request) (*http.Response, error) {
	off := -1
	if h := req.Header.Get("Range"); h != "" {
		s := strings.TrimSuffix(strings.TrimPrefix(h, "bytes="), "-")
		v, err := strconv.Atoi(s)
		if err != nil {
			v = -2
		}
		off = v
	}
	e.reqs = append(e.reqs, off)
	// the whole header, as the shared Header map holds it at this attempt
	sr := sentReq{P: e.delivered}
	for _, h := range req.Header.Values("Range") {
		v, err := strconv.Atoi(strings.TrimSuffix(strings.TrimPrefix(h, "bytes="), "-"))
		if err != nil {
			v = -2
		}
		sr.Vals = append(sr.Vals, v)
	}
	e.sent = append(e.sent, sr)
	c := cServe
	if len(e.conns) > 0 {
		c = e.conns[0]
		e.conns = e.conns[1:]
	}
	unknownLen := c&(noLen|closeDelim) != 0
	upto := -1
	if c&closeDelim != 0 {
		upto = c >> 12
	}
	c &= 0xff
	kind := e.kind
	if c >= 3 {
		kind = c - 3
		c = cServe
	}
	mk := func(code int, body []byte) *http.Response {
		cl := int64(len(body))
		if unknownLen {
			cl = -1
		}
		if code >= 400 {
			body = e.ebody
		}
		if upto >= 0 && upto < len(body) {
			body = body[:upto] // clean close: the transport reports EOF here
		}
		if e.bare && code >= 400 && upto < 0 {
			// what net/http makes of "Content-Length: 0"
			return &http.Response{StatusCode: code, Status: strconv.Itoa(code), Proto: "HTTP/1.1", ProtoMajor: 1, ProtoMinor: 1,
				Header: http.Header{}, Body: http.NoBody, ContentLength: 0, Request: req}
		}
		return &http.Response{StatusCode: code, Status: strconv.Itoa(code), Proto: "HTTP/1.1", ProtoMajor: 1, ProtoMinor: 1,
			Header: http.Header{}, Body: &sbody{e: e, rest: body}, ContentLength: cl, Request: req}
	}
	switch c {
	case cErr:
		return nil, errors.New("scripted: dial error")
	case cStatus:
		return mk(503, nil), nil
	}
	if off == -1 {
		return mk(200, e.data), nil
	}
	switch kind {
	case 0:
		if off >= 0 && off < len(e.data) {
			return mk(206, e.data[off:]), nil
		}
		return mk(416, nil), nil
	case 1:
		return mk(200, e.data), nil
	default:
		return mk(400, nil), nil
	}
}

type obsRead struct {
	bytes []byte
	err   int // 0 none 1 eof 2 fail
}

func errClass(err error) int {
	if err == nil {
		return 0
	}
	if err == io.EOF {
		return 1
	}
	return 2
}

func runScripted(e *env, bufs []int) (opened bool, outs []obsRead) {
	e.delivered = 0
	client := &http.Client{Transport: e}
	rt := apk.VerifNewRangeRetryTransport(context.Background(), client)
	req, _ := http.NewRequest(http.MethodGet, "http://scripted.invalid/x", nil)
	resp, err := rt.RoundTrip(req)
	if err != nil {
		return false, nil
	}
	if resp.StatusCode != http.StatusOK {
		// what FetchPackage and fetchRepositoryIndex do with it
		resp.Body.Close()
		return false, nil
	}
	for _, n := range bufs {
		p := make([]byte, n)
		k, err := resp.Body.Read(p)
		e.delivered += k
		outs = append(outs, obsRead{bytes: append([]byte(nil), p[:k]...), err: errClass(err)})
	}
	return true, outs
}

// ---- Gallina --------------------------------------------------------------

func galReads(rs []rdEv) string {
	it := make([]string, len(rs))
	for i, r := range rs {
		it[i] = fmt.Sprintf("{| rk := %s; rfail := %s; reager := %s |}", gal.Nat(r.K), gal.Bool(r.Fail), gal.Bool(r.Eager))
	}
	return gal.List(it)
}
func galConns(cs []int) string {
	it := make([]string, len(cs))
	for i, c := range cs {
		it[i] = connText(c)
	}
	return gal.List(it)
}
func galNats(ns []int) string {
	it := make([]string, len(ns))
	for i, n := range ns {
		it[i] = gal.Nat(n)
	}
	return gal.List(it)
}
func galOuts(os []obsRead) string {
	it := make([]string, len(os))
	for i, o := range os {
		it[i] = gal.Pair(gal.Bytes(o.bytes), []string{"ENone", "EEOF", "EFail"}[o.err])
	}
	return gal.List(it)
}
func galSent(rs []sentReq) string {
	it := make([]string, len(rs))
	for i, r := range rs {
		vs := make([]string, len(r.Vals))
		for j, v := range r.Vals {
			if v < 0 {
				v = 65535 // an unparsable value: bodies of the scripted stage are shorter, so never equal to a progress
			}
			vs[j] = gal.Nat(v)
		}
		it[i] = gal.Pair(gal.Nat(r.P), gal.List(vs))
	}
	return gal.List(it)
}

type scase struct {
	Kind   string `json:"kind"`
	Bare   bool   `json:"error_responses_without_body"`
	EBody  []int  `json:"error_response_body"`
	Seed   int    `json:"data_seed"`
	Len    int    `json:"data_len"`
	Reads  []rdEv `json:"reads"`
	Conns  []int  `json:"conns"`
	ConnsT string `json:"conns_text"`
	Bufs   []int  `json:"bufs"`
	Opened bool   `json:"opened"`
	NReads int    `json:"observed_reads"`
	Live   bool   `json:"tolerated"`
	Sent   []sentReq `json:"requests_progress_and_range_values"`
}

// tolerated mirrors Spec/TransportSpec.v (tolerated) for the distribution
// buckets only; the judgement is made in Coq.
func skipOK(left int, evs []rdEv) ([]rdEv, bool) {
	for left > 0 {
		if len(evs) == 0 {
			return nil, true
		}
		ev := evs[0]
		if ev.Fail {
			return nil, false
		}
		left -= min(max(1, ev.K), min(8192, left))
		evs = evs[1:]
	}
	return evs, true
}

func toleratedGo(dlen, kind int, bufs []int, evs []rdEv, conns []int) bool {
	for _, c := range conns {
		if c != cServe {
			return false
		}
	}
	if len(bufs) <= dlen {
		return false
	}
	p := 0
	for _, lenp := range bufs {
		if lenp == 0 {
			return false
		}
		done := false
		for _, retry := range []bool{true, true, false} {
			if len(evs) == 0 {
				p += min(lenp, dlen-p)
				done = true
				break
			}
			ev := evs[0]
			evs = evs[1:]
			if !ev.Fail {
				p += min(max(1, ev.K), min(lenp, dlen-p))
				done = true
				break
			}
			if !retry {
				return false
			}
			if p != 0 {
				switch kind {
				case 0:
					if p >= dlen {
						return false
					}
				case 1:
					var ok bool
					if evs, ok = skipOK(p, evs); !ok {
						return false
					}
				default:
					return false
				}
			}
		}
		if !done {
			return false
		}
	}
	return true
}

func scriptedCase(w *gal.Writer, kind, dseed, dlen int, reads []rdEv, conns []int, bufs []int) {
	scriptedCaseB(w, kind, false, dseed, dlen, reads, conns, bufs)
}

func scriptedCaseB(w *gal.Writer, kind int, bare bool, dseed, dlen int, reads []rdEv, conns []int, bufs []int) {
	// the bytes of the error responses (never the server's own: if they reach the consumer the validator sees it)
	ebody := make([]byte, (dseed+dlen+len(reads))%4)
	for i := range ebody {
		ebody[i] = byte(200 + (dseed+i)%50)
	}
	e := &env{data: genData(dseed, dlen), ebody: ebody, kind: kind, bare: bare, reads: append([]rdEv(nil), reads...), conns: append([]int(nil), conns...)}
	opened, outs := runScripted(e, bufs)
	term := fmt.Sprintf("{| c_kind := %s; c_bare := %s; c_ebody := %s; c_seed := %s; c_len := %s; c_reads := %s; c_conns := %s; c_bufs := %s; o_opened := %s; o_outs := %s; o_sent := %s |}",
		kindNames[kind], gal.Bool(bare), gal.Bytes(ebody), gal.Nat(dseed), gal.Nat(dlen), galReads(reads), galConns(conns), galNats(bufs), gal.Bool(opened), galOuts(outs), galSent(e.sent))
	nf := 0
	for _, r := range reads {
		if r.Fail {
			nf++
		}
	}
	mixed := ""
	for _, c := range conns {
		if c&0xff >= 3 {
			mixed = "/mixed-backends"
		}
	}
	for _, c := range conns {
		if c&closeDelim != 0 {
			mixed += "/close-delimited"
			break
		}
	}
	eb := make([]int, len(ebody))
	for i, b := range ebody {
		eb[i] = int(b)
	}
	live := toleratedGo(dlen, kind, bufs, reads, conns)
	if live {
		mixed += "/tolerated"
	}
	if bare {
		mixed += "/bare-errors"
	}
	class := fmt.Sprintf("%s/faults=%d/conn-events=%d%s", kindNames[kind], min(nf, 4), min(len(conns), 3), mixed)
	w.Add(gal.Case{Term: term, Class: class, Trivial: nf == 0 && len(conns) == 0,
		Desc: scase{kindNames[kind], bare, eb, dseed, dlen, reads, conns, galConns(conns), bufs, opened, len(outs), live, e.sent}})
}

func fill(n, v int) []int {
	r := make([]int, n)
	for i := range r {
		r[i] = v
	}
	return r
}

func scriptedStage(dir string, seed uint64, tier string) error {
	w := &gal.Writer{Dir: dir, Require: "From Apko Require Import Corr.C20.", Type: "scripted_case", Check: "check_scripted", Shard: 400}
	// corpus: hand-picked corners first
	for kind := 0; kind < 3; kind++ {
		scriptedCase(w, kind, 1, 13, nil, nil, fill(4, 7))
		scriptedCase(w, kind, 1, 13, []rdEv{{3, true, false}}, nil, fill(6, 7))
		scriptedCase(w, kind, 1, 13, []rdEv{{13, true, false}}, nil, fill(4, 16))                                        // cut exactly after the last byte
		scriptedCase(w, kind, 1, 13, []rdEv{{2, true, false}, {0, true, false}, {1, true, false}}, nil, fill(8, 5))     // three failures in one Read
		scriptedCase(w, kind, 1, 13, []rdEv{{2, false, false}, {1, true, false}}, []int{cServe, cErr}, fill(8, 5))      // reset fails, read again afterwards
		scriptedCase(w, kind, 1, 13, []rdEv{{2, false, false}, {1, true, false}}, []int{cServe, cStatus}, fill(8, 5))   // 503 on resume
		scriptedCase(w, kind, 1, 0, nil, nil, fill(2, 4))                                                                // empty body
		scriptedCase(w, kind, 1, 13, nil, []int{cErr}, fill(2, 4))                                                       // open fails
		scriptedCase(w, kind, 1, 13, []rdEv{{13, false, true}}, nil, fill(3, 32))                                        // eager EOF
		// a 200 restart whose discard is cut, followed by a 206 resume (backends of different kinds)
		scriptedCase(w, kind, 4, 40, []rdEv{{10, false, false}, {0, true, false}, {4, true, false}, {0, true, false}}, []int{cServe, 4, 3, 3}, fill(8, 10))
		scriptedCase(w, kind, 4, 40, []rdEv{{10, false, false}, {0, true, false}, {4, true, false}}, []int{cServe | noLen, 4, 3 | noLen}, fill(8, 10))
		// unknown length on the first response, two faults, the second late
		scriptedCase(w, kind, 4, 40, []rdEv{{12, false, false}, {0, true, false}, {20, false, false}, {0, true, false}}, []int{cServe | noLen, cServe, cServe}, fill(8, 20))
		scriptedCase(w, kind, 4, 40, []rdEv{{30, false, false}, {0, true, false}, {5, false, false}, {0, true, false}}, []int{cServe | noLen, cServe | noLen, cServe}, fill(8, 40))
		scriptedCase(w, kind, 2, 9000, []rdEv{{8500, false, false}, {0, true, false}, {100, false, false}, {8192, false, false}}, nil, fill(4, 8600)) // discard > 8192
		scriptedCase(w, kind, 2, 9000, []rdEv{{8500, false, false}, {0, true, false}, {100, false, false}, {50, true, false}}, nil, fill(4, 8600))   // failure while discarding
		// c20_live_416_corner_refuted: ONE fault, after the last byte was handed over and before EOF was seen
		scriptedCase(w, kind, 1, 3, []rdEv{{3, false, false}, {0, true, false}}, nil, fill(4, 3))
		scriptedCase(w, kind, 1, 13, []rdEv{{13, false, false}, {0, true, false}}, nil, fill(14, 13))
		scriptedCase(w, kind, 1, 13, []rdEv{{6, false, false}, {7, false, false}, {0, true, false}}, nil, fill(14, 7))
		// the same against a server whose 416 has no body: reset returns before it looks at the status, every retry is spent
		scriptedCaseB(w, kind, true, 1, 3, []rdEv{{3, false, false}, {0, true, false}}, nil, fill(4, 3))
		scriptedCaseB(w, kind, true, 1, 13, []rdEv{{2, false, false}, {1, true, false}}, []int{cServe, cStatus}, fill(8, 5)) // 503 without body on resume
		scriptedCaseB(w, kind, true, 1, 13, []rdEv{{2, false, false}, {1, true, false}}, []int{cServe, cStatus, cServe}, fill(8, 5)) // ... then a healthy connection
		scriptedCaseB(w, kind, true, 1, 13, nil, []int{cStatus}, fill(2, 4))                                                  // 503 without body on open: the callers refuse the status
		scriptedCaseB(w, kind, true, 1, 13, []rdEv{{3, true, false}}, nil, fill(6, 7))
		// a drop before the first byte was handed over (progress 0: no Range header), the re-connection answered 503 with a
		// body of its own bytes / without one (seeded change C20-7: the status of a resumption tested only when progress != 0)
		scriptedCaseB(w, kind, false, 2, 13, []rdEv{{0, true, false}}, []int{cServe, cStatus}, fill(6, 7))
		scriptedCaseB(w, kind, false, 2, 13, []rdEv{{0, true, false}, {0, true, false}}, []int{cServe, cStatus, cStatus}, fill(6, 7))
		scriptedCaseB(w, kind, true, 2, 13, []rdEv{{0, true, false}}, []int{cServe, cStatus}, fill(6, 7))
		// c20_live_restart_cut_refuted: the second fault hits the restarted connection while it discards
		scriptedCase(w, kind, 1, 5, []rdEv{{2, false, false}, {1, true, false}, {1, true, false}}, nil, fill(6, 2))
		scriptedCase(w, kind, 1, 13, []rdEv{{6, false, false}, {0, true, false}, {3, false, false}, {0, true, false}}, nil, fill(14, 6))
		// ... and the one the accounting is stricter about: the fault arrives with the last byte to discard (io.CopyN swallows it)
		scriptedCase(w, kind, 1, 5, []rdEv{{2, false, false}, {1, true, false}, {1, false, false}, {1, true, false}}, nil, fill(6, 2))
		// c20_live: two faults inside one Read, survived (resume / restart), and two faults in each of two Reads
		scriptedCase(w, kind, 1, 5, []rdEv{{2, false, false}, {1, true, false}, {0, true, false}}, nil, fill(6, 2))
		scriptedCase(w, kind, 1, 5, []rdEv{{2, false, false}, {1, true, false}, {2, false, false}, {0, true, false}, {1, false, false}, {1, false, false}}, nil, fill(6, 2))
		scriptedCase(w, kind, 1, 13, []rdEv{{0, true, false}, {0, true, false}, {5, false, false}, {2, true, false}, {5, false, false}, {0, true, false}, {5, false, false}}, nil, fill(14, 5))
		// finding C20-F1 (c20_short_body_unframed_refuted): close-delimited response closed cleanly early
		scriptedCase(w, kind, 1, 5, nil, []int{cClose(kind, 2)}, fill(2, 4))
		scriptedCase(w, kind, 1, 13, nil, []int{cClose(kind, 0)}, fill(3, 7))
		scriptedCase(w, kind, 1, 13, nil, []int{cClose(kind, 12)}, fill(4, 7))
		scriptedCase(w, kind, 1, 13, nil, []int{cClose(kind, 13)}, fill(4, 7))                                          // closed after everything: complete
		scriptedCase(w, kind, 1, 13, []rdEv{{3, false, false}, {0, true, false}}, []int{cServe, cClose(kind, 4)}, fill(6, 7)) // first response announced 13 bytes, the resumed one is cut cleanly
		scriptedCase(w, kind, 1, 13, []rdEv{{6, false, false}, {0, true, false}}, []int{cServe, cClose(1, 4)}, fill(6, 6))    // a close-delimited restart too short to reach progress: the discard meets EOF
	}
	// enumerated: all single- and double-fault scripts over a 13-byte body
	bufsizes := []int{1, 7, 64}
	for kind := 0; kind < 3; kind++ {
		for _, bs := range bufsizes {
			nb := 13/bs + 4
			for a := 0; a <= 13; a++ {
				scriptedCaseB(w, kind, a%2 == 1, 3, 13, []rdEv{{a, true, false}}, nil, fill(nb, bs))
				if tier == "thorough" || (a%3 == 0) {
					for b := 0; b <= 13; b += 2 {
						scriptedCaseB(w, kind, b%4 == 2, 3, 13, []rdEv{{a, true, false}, {b, true, false}}, nil, fill(nb, bs))
						scriptedCaseB(w, kind, b%4 == 0, 3, 13, []rdEv{{a, false, false}, {b, true, false}, {1, true, true}}, nil, fill(nb, bs))
					}
				}
			}
		}
	}
	// random
	r := gal.NewRand(seed)
	n := 800
	if tier == "thorough" {
		n = 9000
	}
	for i := 0; i < n; i++ {
		kind := r.Intn(3)
		dlen := gal.Pick(r, []int{0, 1, 2, 13, 40, 64, 100, 257})
		if r.Chance(1, 40) {
			dlen = 8192 + r.Intn(3000)
		}
		nev := r.Intn(10)
		var reads []rdEv
		for j := 0; j < nev; j++ {
			reads = append(reads, rdEv{K: r.Intn(dlen + 2), Fail: r.Chance(2, 5), Eager: r.Chance(1, 4)})
		}
		var conns []int
		for j, nc := 0, r.Intn(5); j < nc; j++ {
			c := cServe
			if r.Chance(1, 4) {
				c = 1 + r.Intn(2)
			} else if r.Chance(1, 3) {
				c = 3 + r.Intn(3)
			}
			if r.Chance(1, 4) {
				c |= noLen
			}
			if r.Chance(1, 12) {
				c = cClose(r.Intn(3), r.Intn(dlen+2))
			}
			conns = append(conns, c)
		}
		bs := gal.Pick(r, []int{1, 3, 7, 16, 64, 300, 9000})
		nb := min(dlen/bs+2+r.Intn(6), 60)
		if i%3 == 0 {
			// leaning towards the hypotheses of c20_live: short bodies, every connection served
			// by the session's kind, sparse faults, more Reads than bytes
			kind = r.Intn(2)
			dlen = gal.Pick(r, []int{0, 1, 2, 5, 13, 40})
			conns = nil
			reads = nil
			for j, nev := 0, r.Intn(14); j < nev; j++ {
				reads = append(reads, rdEv{K: r.Intn(dlen + 2), Fail: r.Chance(1, 4), Eager: r.Chance(1, 4)})
			}
			bs = gal.Pick(r, []int{1, 3, 7, 64})
			nb = dlen + 1 + r.Intn(3)
		}
		bufs := fill(nb, bs)
		if r.Chance(1, 3) {
			for j := range bufs {
				bufs[j] = 1 + r.Intn(bs)
			}
		}
		if r.Chance(1, 20) && nb > 0 {
			bufs[r.Intn(nb)] = 0
		}
		scriptedCaseB(w, kind, r.Chance(1, 3), int(r.Intn(1000)), dlen, reads, conns, bufs)
	}
	return w.Flush()
}

// ---- real HTTP: APK.FetchPackage against a server that cuts connections ----

const (
	frLength = iota // Content-Length
	frChunked       // Transfer-Encoding: chunked
	frClose         // neither: the body ends where the connection ends
)

var framingNames = []string{"content-length", "chunked", "close-delimited"}

type cutServer struct {
	mu      sync.Mutex
	data    []byte
	kind    int
	cuts    []int // per connection: bytes of body to send before closing; -1 = all
	reqs    []int
	framing int
	fin     bool // cut by a clean close (FIN) instead of a reset (RST)
	bare    bool // error responses without a body (Content-Length: 0)
	etag    string // when set: sent as ETag on every 200/206 and answered to HEAD requests (the cache's index path)
	refuse  int    // the first `refuse` GET requests are answered 503 (with or without a body, see bare)
	atCut      func() // called when a connection is about to be cut: its bytes are flushed, it is still open
	goodRanges int // when > 0: Range requests beyond the first goodRanges ones are answered 403 (a resumption refused after k good ones)
	rangeSeen  int
	// what happened, for the expectations handed to Coq
	effCuts  int  // connections actually cut
	corner   bool // a connection cut after its last body byte, before the end marker
	unframed bool // a close-delimited response closed cleanly before its end
}

func (s *cutServer) ServeHTTP(w http.ResponseWriter, r *http.Request) {
	if r.Method == http.MethodHead {
		if s.etag != "" {
			w.Header().Set("ETag", s.etag)
		}
		w.Header().Set("Content-Length", strconv.Itoa(len(s.data)))
		return
	}
	s.mu.Lock()
	off := -1
	if h := r.Header.Get("Range"); h != "" {
		v, err := strconv.Atoi(strings.TrimSuffix(strings.TrimPrefix(h, "bytes="), "-"))
		if err == nil {
			off = v
		}
	}
	s.reqs = append(s.reqs, off)
	cut := -1
	if len(s.cuts) > 0 {
		cut = s.cuts[0]
		s.cuts = s.cuts[1:]
	}
	refused := s.refuse > 0
	if refused {
		s.refuse--
	}
	forbidden := false
	if off >= 0 && s.goodRanges > 0 {
		s.rangeSeen++
		forbidden = s.rangeSeen > s.goodRanges
	}
	s.mu.Unlock()
	status, body := 200, s.data
	if refused {
		status, body = 503, nil
	} else if forbidden {
		status, body = 403, nil
	} else if off >= 0 {
		switch s.kind {
		case 0:
			if off < len(s.data) {
				status, body = 206, s.data[off:]
			} else {
				status, body = 416, nil
			}
		case 2:
			status, body = 400, nil
		}
	}
	hj, ok := w.(http.Hijacker)
	if !ok {
		panic("no hijack")
	}
	conn, buf, err := hj.Hijack()
	if err != nil {
		return
	}
	defer conn.Close()
	framing := s.framing
	if status != 200 && status != 206 {
		framing = frLength
		if !s.bare {
			body = []byte("refused\n")
		}
		cut = -1
	}
	et := ""
	if s.etag != "" && (status == 200 || status == 206) {
		et = "ETag: " + s.etag + "\r\n"
	}
	switch framing {
	case frLength:
		fmt.Fprintf(buf, "HTTP/1.1 %d X\r\n%sContent-Length: %d\r\nConnection: close\r\n\r\n", status, et, len(body))
	case frChunked:
		fmt.Fprintf(buf, "HTTP/1.1 %d X\r\n%sTransfer-Encoding: chunked\r\nConnection: close\r\n\r\n", status, et)
	case frClose:
		fmt.Fprintf(buf, "HTTP/1.1 %d X\r\n%sConnection: close\r\n\r\n", status, et)
	}
	send := func(b []byte) {
		if framing != frChunked {
			buf.Write(b)
			return
		}
		for len(b) > 0 {
			k := min(len(b), 1000)
			fmt.Fprintf(buf, "%x\r\n", k)
			buf.Write(b[:k])
			buf.WriteString("\r\n")
			b = b[k:]
		}
	}
	// a chunked body can also be cut after its last byte, before the terminating chunk
	isCut := cut >= 0 && (cut < len(body) || (cut == len(body) && framing == frChunked && len(body) > 0))
	if isCut {
		send(body[:cut])
		buf.Flush()
		s.mu.Lock()
		s.effCuts++
		if cut == len(body) {
			s.corner = true
		}
		if s.fin && framing == frClose {
			s.unframed = true
		}
		s.mu.Unlock()
		if s.atCut != nil {
			s.atCut()
		}
		if !s.fin {
			if tc, ok := conn.(*net.TCPConn); ok {
				tc.SetLinger(0) // RST, so the client sees an error rather than a clean close
			}
		}
		return
	}
	send(body)
	if framing == frChunked {
		buf.WriteString("0\r\n\r\n")
	}
	buf.Flush()
}

type fpkg struct{ url string }

func (f fpkg) URL() string         { return f.url }
func (f fpkg) PackageName() string { return "pkg" }

type hcorner struct {
	kind, dlen, framing int
	fin                 bool
	cuts                []int
	goodRanges          int
}

func httpStage(dir string, seed uint64, tier string) error {
	w := &gal.Writer{Dir: dir, Require: "From Apko Require Import Corr.C20.", Type: "http_case", Check: "check_http", Shard: 400}
	r := gal.NewRand(seed + 77)
	a, err := apk.New()
	if err != nil {
		return err
	}
	n := 60
	if tier == "thorough" {
		n = 600
	}
	type hdesc struct {
		Kind    string `json:"kind"`
		Len     int    `json:"data_len"`
		Framing string `json:"framing"`
		Fin     bool   `json:"clean_close"`
		Bare    bool   `json:"error_responses_without_body"`
		Cuts    []int  `json:"cuts"`
		Got     int    `json:"delivered"`
		Err     int    `json:"err"`
		Reqs    []int  `json:"range_requests"`
		Live    bool   `json:"expected_to_complete"`
	}
	// hand-picked corners beyond the six cut patterns below
	var corners []hcorner
	for kind := 0; kind < 3; kind++ {
		corners = append(corners,
			hcorner{kind, 13, frClose, true, []int{5}, 0},           // finding C20-F1: short body, EOF
			hcorner{kind, 300, frClose, true, []int{0}, 0},          // ... nothing at all
			hcorner{kind, 300, frClose, true, []int{150, 10}, 0},    // (the second cut is never reached)
			hcorner{kind, 300, frClose, false, []int{150}, 0},       // same response reset instead: retried
			hcorner{kind, 300, frLength, true, []int{150, 200}, 0},  // clean close of a response that announced its length
			hcorner{kind, 300, frChunked, true, []int{150, 200}, 0}, // ... of a chunked response
			hcorner{kind, 300, frChunked, false, []int{150, 200}, 0},
			hcorner{kind, 13, frChunked, true, []int{13}, 0},      // c20_live_416_corner_refuted through net/http: cut after the last byte, before the terminating chunk
			hcorner{kind, 300, frChunked, true, []int{100, 200}, 0}, // second cut after the last byte of the 206 body (Range-honouring server)
		)
		// retry exhaustion, every framing that reports a cut as an error: more failing reads in a row than the budget
		// (the resumed connections deliver nothing), and a resumption refused (403) after one / two good ones
		for _, fr := range []int{frLength, frChunked} {
			for _, fin := range []bool{false, true} {
				corners = append(corners,
					hcorner{kind, 300, fr, fin, []int{150, 0, 0, 0, 0}, 0},
					hcorner{kind, 300, fr, fin, []int{100, 50}, 1},
					hcorner{kind, 300, fr, fin, []int{100, 50, 50}, 2},
				)
			}
		}
	}
	goJudged := 0
	for i := 0; i < n+len(corners); i++ {
		kind := r.Intn(3)
		dlen := gal.Pick(r, []int{1, 13, 300, 4097, 20000})
		if r.Chance(1, 8) {
			dlen = 70000
		}
		if tier == "thorough" && r.Chance(1, 20) {
			dlen = 1 << 20
		}
		dseed := r.Intn(1000)
		goodRanges := 0
		var cuts []int
		for j, nc := 0, r.Intn(5); j < nc; j++ {
			c := r.Intn(dlen + 1)
			if r.Chance(1, 5) {
				c = -1
			}
			cuts = append(cuts, c)
		}
		framing, fin := frLength, false
		if i >= 6 {
			framing = gal.Pick(r, []int{frLength, frLength, frChunked, frClose})
			fin = r.Chance(1, 2)
			if framing == frClose && fin && dlen > 4097 {
				dlen = 4097 // judged in Coq, where the finding's tag is narrowed
			}
			if r.Chance(1, 2) && len(cuts) > 2 {
				cuts = cuts[:2] // more sessions inside the completion theorem's hypotheses
			}
			if r.Chance(1, 3) {
				slices.Sort(cuts)
			}
		}
		if i < 6 { // fixed corners: cut at 0, at the last byte, after everything
			cuts = [][]int{{0}, {dlen - 1}, {dlen / 2, 0}, {dlen / 2, dlen / 4, 1}, {1, 1, 1, 1}, {}}[i]
		} else if i < 6+len(corners) {
			c := corners[i-6]
			kind, dlen, framing, fin, cuts = c.kind, c.dlen, c.framing, c.fin, c.cuts
			goodRanges = c.goodRanges
		}
		bare := i%2 == 0
		srv := &cutServer{data: genData(dseed, dlen), kind: kind, cuts: append([]int(nil), cuts...), framing: framing, fin: fin, bare: bare, goodRanges: goodRanges}
		ts := httptest.NewServer(srv)
		rc, err := a.FetchPackage(context.Background(), fpkg{ts.URL + "/p.apk"})
		var got []byte
		ec := 2
		if err == nil {
			buf := make([]byte, gal.Pick(r, []int{1, 512, 32768}))
			if dlen > 5000 && len(buf) == 1 {
				buf = make([]byte, 97)
			}
			for {
				k, rerr := rc.Read(buf)
				got = append(got, buf[:k]...)
				if rerr != nil {
					ec = errClass(rerr)
					break
				}
			}
			rc.Close()
		}
		ts.Close()
		srv.mu.Lock()
		reqs := append([]int(nil), srv.reqs...)
		effCuts, corner, unframed := srv.effCuts, srv.corner, srv.unframed
		srv.mu.Unlock()
		// expected to complete (the shape of c20_live seen from the server): every response framed, at
		// most two connections cut in the whole download (so no Read meets more), none after its last
		// byte, and the server either honours Range, or restarts with every cut a clean close (all
		// bytes sent before it arrive) at or after the previous cut (the discard reaches progress)
		live := !unframed && !corner && effCuts <= 2 && goodRanges == 0
		switch kind {
		case 0:
		case 1:
			prev := 0
			for j := 0; j < effCuts && j < len(cuts); j++ {
				if !fin || cuts[j] < prev {
					live = false
				}
				prev = cuts[j]
			}
		default:
			live = live && effCuts == 0
		}
		if framing == frClose && !fin {
			live = live && effCuts == 0 // a reset of a close-delimited response may or may not be seen as an error
		}
		errName := []string{"ENone", "EEOF", "EFail"}[ec]
		term := fmt.Sprintf("{| h_seed := %s; h_len := %s; h_opened := %s; h_got := %s; h_err := %s; h_unframed := %s; h_live := %s |}",
			gal.Nat(dseed), gal.Nat(dlen), gal.Bool(err == nil), gal.Bytes(got), errName, gal.Bool(unframed), gal.Bool(live))
		if dlen > 300 {
			// larger bodies: the delivered bytes are compared with the server's
			// here and handed to Coq as "the first k bytes of gen_data" when they
			// agree; bodies above 20000 bytes are judged here only (Coq's VM
			// overflows its stack on lists that long)
			okPrefix := len(got) <= dlen && string(got) == string(srv.data[:len(got)])
			okEOF := ec != 1 || len(got) == dlen
			if dlen > 20000 || !okPrefix {
				if !okPrefix || !okEOF {
					fmt.Printf("IMPL-VIOLATION tag=http-short-or-altered-body {\"kind\":%q,\"len\":%d,\"framing\":%q,\"clean_close\":%v,\"cuts\":%v,\"delivered\":%d,\"err\":%q}\n", kindNames[kind], dlen, framingNames[framing], fin, cuts, len(got), errName)
				}
				if live && !(err == nil && ec == 1 && len(got) == dlen) {
					fmt.Printf("IMPL-VIOLATION tag=tolerable-faults-not-survived {\"kind\":%q,\"len\":%d,\"framing\":%q,\"clean_close\":%v,\"cuts\":%v,\"delivered\":%d,\"err\":%q}\n", kindNames[kind], dlen, framingNames[framing], fin, cuts, len(got), errName)
				}
			}
			if dlen > 20000 {
				goJudged++
				continue
			}
			if okPrefix {
				term = fmt.Sprintf("{| h_seed := %s; h_len := %s; h_opened := %s; h_got := firstn %s (gen_data %s %s); h_err := %s; h_unframed := %s; h_live := %s |}",
					gal.Nat(dseed), gal.Nat(dlen), gal.Bool(err == nil), gal.Nat(len(got)), gal.Nat(dseed), gal.Nat(dlen), errName, gal.Bool(unframed), gal.Bool(live))
			}
		}
		class := fmt.Sprintf("%s/%s/cuts=%d/len=%d", kindNames[kind], framingNames[framing], effCuts, dlen)
		if live {
			class += "/expected-to-complete"
		}
		w.Add(gal.Case{Term: term, Class: class, Trivial: len(cuts) == 0,
			Key: fmt.Sprintf("%d/%d/%d/%d/%v/%v/%d", kind, dseed, dlen, framing, fin, cuts, goodRanges),
			Desc: hdesc{kindNames[kind], dlen, framingNames[framing], fin, bare, cuts, len(got), ec, reqs, live}})
	}
	fmt.Printf("STAT {\"large_bodies_judged_in_go_only\": %d}\n", goJudged)
	return w.Flush()
}

func main() {
	out := flag.String("out", "", "cases directory")
	seed := flag.Uint64("seed", 1, "seed")
	tier := flag.String("tier", "quick", "tier")
	stage := flag.String("stage", "scripted", "scripted|http|index|callers")
	_ = flag.String("replay", "", "unused: cases are regenerated from the seed")
	flag.Parse()
	var err error
	switch *stage {
	case "scripted":
		err = scriptedStage(*out, *seed, *tier)
	case "http":
		err = httpStage(*out, *seed, *tier)
	case "index":
		err = indexStage(*out, *seed, *tier)
	case "callers":
		err = callersStage(*out, *seed, *tier)
	}
	if err != nil {
		fmt.Fprintln(os.Stderr, err)
		os.Exit(1)
	}
	_ = filepath.Join
}
