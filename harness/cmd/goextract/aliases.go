package main

// Alias locals.  A refactoring that "introduces an intermediate variable" gives a name to an expression the function used
// to spell out (`selected := p.selected`, `shared := min(len(a), len(b))`, `name := header.Name`).  The generators read
// the spelled-out form.  In a function whose text differs from the recorded base, a local that is NEW relative to the base
// tree's locals of that function (funclocals.base.json), is defined once by `:=` from a pure expression, is never assigned
// again, and whose operands are not assigned in the rest of its block, is substituted back into its uses and its
// definition dropped.  On the unchanged tree no function is changed, so nothing is rewritten.  (What this can hide: a
// method call between definition and use that changes what the expression denotes.  The differential stages still run
// the real function.)

import (
	"go/ast"
	"go/parser"
	"go/token"
	"sort"
	"strings"
)

var baseLocals map[string][]string
var funcLocalsOut = map[string][]string{}

func funcKey(rel string, fd *ast.FuncDecl) string {
	key := rel + ":"
	if fd.Recv != nil && len(fd.Recv.List) > 0 {
		key += recvName(fd.Recv.List[0].Type) + "."
	}
	return key + fd.Name.Name
}

// localNames: every name a function declares inside its body (`:=`, var, range), sorted
func localNames(fd *ast.FuncDecl) []string {
	seen := map[string]bool{}
	if fd.Body == nil {
		return nil
	}
	ast.Inspect(fd.Body, func(n ast.Node) bool {
		switch x := n.(type) {
		case *ast.AssignStmt:
			if x.Tok == token.DEFINE {
				for _, l := range x.Lhs {
					if id, ok := l.(*ast.Ident); ok {
						seen[id.Name] = true
					}
				}
			}
		case *ast.RangeStmt:
			if x.Tok == token.DEFINE {
				for _, e := range []ast.Expr{x.Key, x.Value} {
					if id, ok := e.(*ast.Ident); ok {
						seen[id.Name] = true
					}
				}
			}
		case *ast.ValueSpec:
			for _, id := range x.Names {
				seen[id.Name] = true
			}
		}
		return true
	})
	var out []string
	for k := range seen {
		out = append(out, k)
	}
	sort.Strings(out)
	return out
}

func pureExpr(e ast.Expr) bool {
	switch x := e.(type) {
	case *ast.Ident, *ast.BasicLit:
		return true
	case *ast.SelectorExpr:
		return pureExpr(x.X)
	case *ast.IndexExpr:
		return pureExpr(x.X) && pureExpr(x.Index)
	case *ast.SliceExpr:
		for _, p := range []ast.Expr{x.X, x.Low, x.High, x.Max} {
			if p != nil && !pureExpr(p) {
				return false
			}
		}
		return true
	case *ast.ParenExpr:
		return pureExpr(x.X)
	case *ast.BinaryExpr:
		return pureExpr(x.X) && pureExpr(x.Y)
	case *ast.UnaryExpr:
		return (x.Op == token.NOT || x.Op == token.SUB || x.Op == token.ADD) && pureExpr(x.X)
	case *ast.CallExpr:
		id, ok := x.Fun.(*ast.Ident)
		if !ok || !(id.Name == "len" || id.Name == "cap" || id.Name == "min" || id.Name == "max") {
			return false
		}
		for _, a := range x.Args {
			if !pureExpr(a) {
				return false
			}
		}
		return true
	}
	return false
}

// written: the printed form of everything assigned, incremented, ranged into or address-taken in the statements
func written(list []ast.Stmt) map[string]bool {
	w := map[string]bool{}
	for _, st := range list {
		ast.Inspect(st, func(n ast.Node) bool {
			switch x := n.(type) {
			case *ast.AssignStmt:
				for _, l := range x.Lhs {
					w[printNode(l)] = true
				}
			case *ast.IncDecStmt:
				w[printNode(x.X)] = true
			case *ast.UnaryExpr:
				if x.Op == token.AND {
					w[printNode(x.X)] = true
				}
			case *ast.RangeStmt:
				for _, e := range []ast.Expr{x.Key, x.Value} {
					if e != nil {
						w[printNode(e)] = true
					}
				}
			case *ast.ValueSpec:
				for _, id := range x.Names {
					w[id.Name] = true
				}
			}
			return true
		})
	}
	return w
}

// operands: the printed form of every sub-expression of e that names storage (identifiers, selector chains, index expressions)
func operands(e ast.Expr) []string {
	var out []string
	var walk func(e ast.Expr)
	walk = func(e ast.Expr) {
		ast.Inspect(e, func(n ast.Node) bool {
			switch x := n.(type) {
			case *ast.Ident:
				out = append(out, x.Name)
			case *ast.SelectorExpr:
				// the selected field's name is not an operand of its own
				out = append(out, printNode(x))
				walk(x.X)
				return false
			case *ast.IndexExpr:
				out = append(out, printNode(x))
			}
			return true
		})
	}
	walk(e)
	return out
}

type aliasEdit struct {
	from, to int
	text     string
}

// substituteNewAliases: c was parsed from "package p\n"+text with positions indexing into that text; nil when nothing changed
func substituteNewAliases(key string, c *ast.FuncDecl) *ast.FuncDecl {
	if baseLocals == nil {
		return nil
	}
	base, known := baseLocals[key]
	if !known {
		return nil
	}
	isBase := map[string]bool{}
	for _, n := range base {
		isBase[n] = true
	}
	changed := false
	for round := 0; round < 24; round++ {
		src := "package p\n" + printNode(c)
		fs := token.NewFileSet()
		f, err := parser.ParseFile(fs, "", src, 0)
		if err != nil || len(f.Decls) != 1 {
			break
		}
		fd := f.Decls[0].(*ast.FuncDecl)
		off := func(p token.Pos) int { return fs.Position(p).Offset }
		var edits []aliasEdit
		var try func(list []ast.Stmt) bool
		try = func(list []ast.Stmt) bool {
			for j, st := range list {
				as, ok := st.(*ast.AssignStmt)
				if ok && as.Tok == token.DEFINE && len(as.Lhs) == len(as.Rhs) && len(as.Lhs) >= 1 {
					rest := list[j+1:]
					w := written(rest)
					okSub := true
					names := map[string]string{}
					for k := range as.Lhs {
						id, isId := as.Lhs[k].(*ast.Ident)
						if !isId || id.Name == "_" || isBase[id.Name] || !pureExpr(as.Rhs[k]) || w[id.Name] {
							okSub = false
							break
						}
						rhs := src[off(as.Rhs[k].Pos()):off(as.Rhs[k].End())]
						if _, bin := as.Rhs[k].(*ast.BinaryExpr); bin {
							rhs = "(" + rhs + ")"
						}
						names[id.Name] = rhs
					}
					if okSub {
						for k := range as.Rhs {
							for _, o := range operands(as.Rhs[k]) {
								if w[o] || names[o] != "" {
									okSub = false
								}
							}
						}
					}
					if okSub {
						good := true
						for _, r := range rest {
							var stack []ast.Node
							ast.Inspect(r, func(n ast.Node) bool {
								if n == nil {
									stack = stack[:len(stack)-1]
									return true
								}
								if u, isU := n.(*ast.Ident); isU && names[u.Name] != "" {
									var parent ast.Node
									if len(stack) > 0 {
										parent = stack[len(stack)-1]
									}
									skip := false
									switch p := parent.(type) {
									case *ast.SelectorExpr:
										skip = p.Sel == u
									case *ast.KeyValueExpr:
										if p.Key == u {
											good = false
										}
									case *ast.Field, *ast.LabeledStmt, *ast.BranchStmt:
										good = false
									}
									if !skip {
										edits = append(edits, aliasEdit{off(u.Pos()), off(u.End()), names[u.Name]})
									}
								}
								stack = append(stack, n)
								return true
							})
						}
						if good {
							edits = append(edits, aliasEdit{off(as.Pos()), off(as.End()), ""})
							return true
						}
						edits = nil
					}
				}
				// descend into nested statement lists
				found := false
				ast.Inspect(st, func(n ast.Node) bool {
					if found {
						return false
					}
					switch x := n.(type) {
					case *ast.BlockStmt:
						if try(x.List) {
							found = true
						}
						return false
					case *ast.CaseClause:
						if try(x.Body) {
							found = true
						}
						return false
					case *ast.CommClause:
						if try(x.Body) {
							found = true
						}
						return false
					case *ast.FuncLit:
						if try(x.Body.List) {
							found = true
						}
						return false
					}
					return true
				})
				if found {
					return true
				}
			}
			return false
		}
		if !try(fd.Body.List) || len(edits) == 0 {
			break
		}
		sort.Slice(edits, func(a, b int) bool { return edits[a].from > edits[b].from })
		out := src
		for _, e := range edits {
			out = out[:e.from] + e.text + out[e.to:]
		}
		nf, err := parser.ParseFile(token.NewFileSet(), "", out, 0)
		if err != nil || len(nf.Decls) != 1 {
			break
		}
		c = nf.Decls[0].(*ast.FuncDecl)
		changed = true
	}
	if !changed {
		return nil
	}
	// positions of c must index into a text normaliseChanged re-parses anyway; hand back a freshly parsed declaration
	text := "package p\n" + printNode(c)
	nf, err := parser.ParseFile(token.NewFileSet(), "", text, 0)
	if err != nil || len(nf.Decls) != 1 {
		return nil
	}
	return nf.Decls[0].(*ast.FuncDecl)
}

// splitMinBounds: `i < min(a, b)` as a loop condition is presented as `i < a && i < b`
func splitMinBounds(c *ast.FuncDecl) {
	ast.Inspect(c, func(n ast.Node) bool {
		fs, ok := n.(*ast.ForStmt)
		if !ok || fs.Cond == nil {
			return true
		}
		b, ok := fs.Cond.(*ast.BinaryExpr)
		if !ok || b.Op != token.LSS {
			return true
		}
		call, ok := b.Y.(*ast.CallExpr)
		if !ok || len(call.Args) != 2 {
			return true
		}
		if id, ok := call.Fun.(*ast.Ident); !ok || id.Name != "min" {
			return true
		}
		fs.Cond = &ast.BinaryExpr{
			X:  &ast.BinaryExpr{X: b.X, Op: token.LSS, Y: call.Args[0]},
			Op: token.LAND,
			Y:  &ast.BinaryExpr{X: b.X, Op: token.LSS, Y: call.Args[1]},
		}
		return true
	})
}

var _ = strings.TrimSpace

// expandSlicesEqualPrefix: `if !slices.Equal(X[:len(Y)], Y) { …; return … }` is presented as the element-wise loop it
// replaces: `for i := 0; i < len(Y); i++ { if X[i] != Y[i] { …; return … } }`
func expandSlicesEqualPrefix(c *ast.FuncDecl) {
	var visit func(list []ast.Stmt)
	visit = func(list []ast.Stmt) {
		for j, st := range list {
			if is, ok := st.(*ast.IfStmt); ok && is.Init == nil && is.Else == nil && len(is.Body.List) > 0 {
				if _, ret := is.Body.List[len(is.Body.List)-1].(*ast.ReturnStmt); ret {
					if u, ok := is.Cond.(*ast.UnaryExpr); ok && u.Op == token.NOT {
						if call, ok := u.X.(*ast.CallExpr); ok && len(call.Args) == 2 && printNode(call.Fun) == "slices.Equal" {
							if se, ok := call.Args[0].(*ast.SliceExpr); ok && se.Low == nil && se.Max == nil && se.High != nil {
								y := printNode(call.Args[1])
								if printNode(se.High) == "len("+y+")" {
									x := printNode(se.X)
									body := printNode(is.Body)
									text := "package p\nfunc _() {\nfor i := 0; i < len(" + y + "); i++ {\nif " + x + "[i] != " + y + "[i] " + body + "\n}\n}\n"
									if f, err := parser.ParseFile(token.NewFileSet(), "", text, 0); err == nil && len(f.Decls) == 1 {
										list[j] = f.Decls[0].(*ast.FuncDecl).Body.List[0]
										continue
									}
								}
							}
						}
					}
				}
			}
			ast.Inspect(st, func(n ast.Node) bool {
				switch x := n.(type) {
				case *ast.BlockStmt:
					visit(x.List)
					return false
				case *ast.CaseClause:
					visit(x.Body)
					return false
				}
				return true
			})
		}
	}
	visit(c.Body.List)
}

// splitSingleExit: a lookup-or-compute written with one exit
//
//	x := F(…); if x == nil { x = G(…); S… }; return R(x)
//
// is presented in the form the sources use (early return on a hit):
//
//	if x := F(…); x != nil { return R(x) }; x := G(…); S…; return R(x)
func splitSingleExit(c *ast.FuncDecl) {
	l := c.Body.List
	n := len(l)
	if n < 3 {
		return
	}
	ret, ok := l[n-1].(*ast.ReturnStmt)
	if !ok {
		return
	}
	is, ok := l[n-2].(*ast.IfStmt)
	if !ok || is.Init != nil || is.Else != nil || len(is.Body.List) == 0 {
		return
	}
	def, ok := l[n-3].(*ast.AssignStmt)
	if !ok || def.Tok != token.DEFINE || len(def.Lhs) != 1 || len(def.Rhs) != 1 {
		return
	}
	id, ok := def.Lhs[0].(*ast.Ident)
	if !ok {
		return
	}
	cond, ok := is.Cond.(*ast.BinaryExpr)
	if !ok || cond.Op != token.EQL || printNode(cond.X) != id.Name || printNode(cond.Y) != "nil" {
		return
	}
	first, ok := is.Body.List[0].(*ast.AssignStmt)
	if !ok || first.Tok != token.ASSIGN || len(first.Lhs) != 1 || printNode(first.Lhs[0]) != id.Name {
		return
	}
	for _, st := range is.Body.List {
		bad := false
		ast.Inspect(st, func(n ast.Node) bool {
			switch n.(type) {
			case *ast.ReturnStmt, *ast.BranchStmt:
				bad = true
			}
			return true
		})
		if bad {
			return
		}
	}
	var b strings.Builder
	b.WriteString("package p\nfunc _() {\n")
	b.WriteString("if " + printNode(def) + "; " + id.Name + " != nil {\n" + printNode(ret) + "\n}\n")
	b.WriteString(id.Name + " := " + printNode(first.Rhs[0]) + "\n")
	for _, st := range is.Body.List[1:] {
		b.WriteString(printNode(st) + "\n")
	}
	b.WriteString(printNode(ret) + "\n}\n")
	f, err := parser.ParseFile(token.NewFileSet(), "", b.String(), 0)
	if err != nil || len(f.Decls) != 1 {
		return
	}
	c.Body.List = append(append([]ast.Stmt{}, l[:n-3]...), f.Decls[0].(*ast.FuncDecl).Body.List...)
}

// defaultAsTrailer: a function that ends in `switch … { case …: return …; default: S }`, every other clause ending in a
// return, is presented as the switch without the default followed by S (the form `switch …{…}; return X`)
func defaultAsTrailer(c *ast.FuncDecl) {
	l := c.Body.List
	if len(l) == 0 {
		return
	}
	sw, ok := l[len(l)-1].(*ast.SwitchStmt)
	if !ok {
		return
	}
	di := -1
	for i, cl := range sw.Body.List {
		cc := cl.(*ast.CaseClause)
		if cc.List == nil {
			di = i
			continue
		}
		if len(cc.Body) == 0 {
			return
		}
		if _, ret := cc.Body[len(cc.Body)-1].(*ast.ReturnStmt); !ret {
			return
		}
	}
	if di < 0 {
		return
	}
	def := sw.Body.List[di].(*ast.CaseClause)
	for _, st := range def.Body {
		bad := false
		ast.Inspect(st, func(n ast.Node) bool {
			if b, ok := n.(*ast.BranchStmt); ok && (b.Tok == token.BREAK || b.Tok == token.FALLTHROUGH) {
				bad = true
			}
			return true
		})
		if bad {
			return
		}
	}
	sw.Body.List = append(append([]ast.Stmt{}, sw.Body.List[:di]...), sw.Body.List[di+1:]...)
	c.Body.List = append(c.Body.List, def.Body...)
}

// ---- case order -----------------------------------------------------------------------------------
// An expression switch over pairwise distinct constant labels without fallthrough means the same in any clause order.  The
// generators emit tables in source order and some proofs pin them.  The base tree's label order of every such switch is
// recorded beside the locals (key "<function>#cases"); in a changed function a switch with the same label set is presented
// in the recorded order (clauses by their earliest label, labels inside a clause likewise).

func literalSwitchLabels(sw *ast.SwitchStmt) ([][]string, bool) {
	if sw.Tag == nil {
		return nil, false
	}
	seen := map[string]bool{}
	var out [][]string
	for _, cl := range sw.Body.List {
		cc := cl.(*ast.CaseClause)
		var ls []string
		for _, e := range cc.List {
			bl, ok := e.(*ast.BasicLit)
			if !ok || seen[bl.Value] {
				return nil, false
			}
			seen[bl.Value] = true
			ls = append(ls, bl.Value)
		}
		for _, st := range cc.Body {
			if b, ok := st.(*ast.BranchStmt); ok && b.Tok == token.FALLTHROUGH {
				return nil, false
			}
		}
		if cc.List != nil {
			out = append(out, ls)
		}
	}
	return out, len(out) > 0
}

func caseOrders(fd *ast.FuncDecl) []string {
	var out []string
	if fd.Body == nil {
		return nil
	}
	ast.Inspect(fd.Body, func(n ast.Node) bool {
		if sw, ok := n.(*ast.SwitchStmt); ok {
			if ls, ok := literalSwitchLabels(sw); ok {
				var flat []string
				for _, l := range ls {
					flat = append(flat, l...)
				}
				out = append(out, strings.Join(flat, "\x1f"))
			}
		}
		return true
	})
	return out
}

func restoreCaseOrder(key string, c *ast.FuncDecl) {
	if baseLocals == nil {
		return
	}
	base := baseLocals[key+"#cases"]
	if len(base) == 0 {
		return
	}
	ast.Inspect(c.Body, func(n ast.Node) bool {
		sw, ok := n.(*ast.SwitchStmt)
		if !ok {
			return true
		}
		ls, ok := literalSwitchLabels(sw)
		if !ok {
			return true
		}
		cur := map[string]bool{}
		cnt := 0
		for _, l := range ls {
			for _, x := range l {
				cur[x] = true
				cnt++
			}
		}
		for _, b := range base {
			labels := strings.Split(b, "\x1f")
			if len(labels) != cnt {
				continue
			}
			pos := map[string]int{}
			same := true
			for i, x := range labels {
				if !cur[x] {
					same = false
					break
				}
				pos[x] = i
			}
			if !same {
				continue
			}
			first := func(cc *ast.CaseClause) int {
				if cc.List == nil {
					return 1 << 30
				}
				m := 1 << 30
				for _, e := range cc.List {
					if p := pos[e.(*ast.BasicLit).Value]; p < m {
						m = p
					}
				}
				return m
			}
			for _, cl := range sw.Body.List {
				cc := cl.(*ast.CaseClause)
				sort.SliceStable(cc.List, func(i, j int) bool {
					return pos[cc.List[i].(*ast.BasicLit).Value] < pos[cc.List[j].(*ast.BasicLit).Value]
				})
			}
			sort.SliceStable(sw.Body.List, func(i, j int) bool {
				return first(sw.Body.List[i].(*ast.CaseClause)) < first(sw.Body.List[j].(*ast.CaseClause))
			})
			break
		}
		return true
	})
}

// expandSlicesCompare: `if c := slices.Compare(X, Y); c > 0 { return G } else if c < 0 { return L }` is presented as the
// element-wise loop and the two length tests it replaces (slices.Compare: first differing element decides, else the shorter is less)
func expandSlicesCompare(c *ast.FuncDecl) {
	oneReturn := func(b *ast.BlockStmt) string {
		if b == nil || len(b.List) != 1 {
			return ""
		}
		if r, ok := b.List[0].(*ast.ReturnStmt); ok {
			return printNode(r)
		}
		return ""
	}
	var visit func(list []ast.Stmt) []ast.Stmt
	visit = func(list []ast.Stmt) []ast.Stmt {
		var out []ast.Stmt
		for _, st := range list {
			done := false
			if is, ok := st.(*ast.IfStmt); ok && is.Init != nil {
				if def, ok := is.Init.(*ast.AssignStmt); ok && def.Tok == token.DEFINE && len(def.Lhs) == 1 && len(def.Rhs) == 1 {
					if call, ok := def.Rhs[0].(*ast.CallExpr); ok && printNode(call.Fun) == "slices.Compare" && len(call.Args) == 2 && pureExpr(call.Args[0]) && pureExpr(call.Args[1]) {
						v := printNode(def.Lhs[0])
						els, _ := is.Else.(*ast.IfStmt)
						g := oneReturn(is.Body)
						if els != nil && els.Init == nil && els.Else == nil && printNode(is.Cond) == v+" > 0" && printNode(els.Cond) == v+" < 0" && g != "" {
							if l := oneReturn(els.Body); l != "" {
								x, y := printNode(call.Args[0]), printNode(call.Args[1])
								text := "package p\nfunc _() {\nfor i := 0; i < len(" + x + ") && i < len(" + y + "); i++ {\nif " + x + "[i] > " + y + "[i] {\n" + g + "\n}\nif " + x + "[i] < " + y + "[i] {\n" + l + "\n}\n}\n" +
									"if len(" + x + ") > len(" + y + ") {\n" + g + "\n}\nif len(" + x + ") < len(" + y + ") {\n" + l + "\n}\n}\n"
								if f, err := parser.ParseFile(token.NewFileSet(), "", text, 0); err == nil && len(f.Decls) == 1 {
									out = append(out, f.Decls[0].(*ast.FuncDecl).Body.List...)
									done = true
								}
							}
						}
					}
				}
			}
			if !done {
				ast.Inspect(st, func(n ast.Node) bool {
					switch x := n.(type) {
					case *ast.BlockStmt:
						x.List = visit(x.List)
						return false
					case *ast.CaseClause:
						x.Body = visit(x.Body)
						return false
					}
					return true
				})
				out = append(out, st)
			}
		}
		return out
	}
	c.Body.List = visit(c.Body.List)
}
