package main

// C01: the canonicalisers proved order-invariant in Proofs/ReproProofs.v are
// only as good as the sort / set calls that implement them in the source.
// This generator CHECKS that those calls are present in the named functions
// (after the map range that fills the slice, with the expected comparator)
// and emits the results as booleans; Properties/C01.v requires all of them to
// be true, so deleting or moving a sort breaks the build of the property file.
// It also extracts the default environment table of BuildImageFromLayers.

import (
	"fmt"
	"go/ast"
	"go/token"
	"os"
	"path/filepath"
	"strings"
)

// c01Call: position of the first call in fd whose function prints as fun and
// whose first argument prints as arg0 ("" = any), starting after position `after`.
func c01Call(fd *ast.FuncDecl, fun, arg0 string, after token.Pos) (*ast.CallExpr, bool) {
	if fd == nil {
		return nil, false
	}
	var found *ast.CallExpr
	ast.Inspect(fd, func(n ast.Node) bool {
		c, ok := n.(*ast.CallExpr)
		if !ok || found != nil {
			return true
		}
		if exprText(c.Fun) != fun || c.Pos() <= after {
			return true
		}
		if arg0 != "" && (len(c.Args) == 0 || exprText(c.Args[0]) != arg0) {
			return true
		}
		found = c
		return true
	})
	return found, found != nil
}

// c01Range: end position of the first `for ... := range <x>` in fd.
func c01Range(fd *ast.FuncDecl, x string) (token.Pos, bool) {
	if fd == nil {
		return 0, false
	}
	var end token.Pos
	ok := false
	ast.Inspect(fd, func(n ast.Node) bool {
		r, isr := n.(*ast.RangeStmt)
		if !isr || ok {
			return true
		}
		if exprText(r.X) == x {
			end, ok = r.End(), true
		}
		return true
	})
	return end, ok
}

// c01Assigned: is there `lhs := fun(...)` / `lhs = fun(...)` in fd?
func c01Assigned(fd *ast.FuncDecl, lhs, fun string) bool {
	if fd == nil {
		return false
	}
	ok := false
	ast.Inspect(fd, func(n ast.Node) bool {
		as, isa := n.(*ast.AssignStmt)
		if !isa || len(as.Lhs) != 1 || len(as.Rhs) != 1 {
			return true
		}
		if exprText(as.Lhs[0]) != lhs {
			return true
		}
		if c, isc := as.Rhs[0].(*ast.CallExpr); isc && exprText(c.Fun) == fun {
			ok = true
		}
		return true
	})
	return ok
}

// c01LessBody: the single returned expression of a `func(i, j int) bool { return X }` literal.
func c01LessBody(e ast.Expr) string {
	fl, ok := e.(*ast.FuncLit)
	if !ok || len(fl.Body.List) != 1 {
		return ""
	}
	rs, ok := fl.Body.List[0].(*ast.ReturnStmt)
	if !ok || len(rs.Results) != 1 {
		return ""
	}
	return strings.Join(strings.Fields(exprText(rs.Results[0])), " ")
}

func c01NoCall(rel, fun string) bool {
	f := load(rel)
	if f == nil {
		return false
	}
	none := true
	ast.Inspect(f, func(n ast.Node) bool {
		if c, ok := n.(*ast.CallExpr); ok && exprText(c.Fun) == fun {
			none = false
		}
		return true
	})
	return none
}

func genC01() {
	g := newGen("C01Calls", "From Coq Require Import String List Bool.\nImport ListNotations.\nOpen Scope string_scope.\n")
	var names []string
	emit := func(name string, ok bool, where ast.Node, what string) {
		v := "false"
		if ok {
			v = "true"
		}
		p := "not found"
		if where != nil {
			p = g.pos(where)
		}
		g.def(name, "bool", v, what+" ["+p+"]")
		names = append(names, name)
	}
	// sorted-after-range pattern
	sortedAfterRange := func(name, rel, recv, fn, rangeX, sortFun, sortArg, less string) {
		fd := findFunc(rel, recv, fn)
		end, okR := c01Range(fd, rangeX)
		call, okC := c01Call(fd, sortFun, sortArg, end)
		ok := okR && okC
		if ok && less != "" {
			ok = len(call.Args) == 2 && c01LessBody(call.Args[1]) == less
		}
		var where ast.Node
		if call != nil {
			where = call
		}
		emit(name, ok, where, fmt.Sprintf("%s %s: %s(%s) after `range %s`%s", rel, fn, sortFun, sortArg, rangeX, map[bool]string{true: " with less = " + less, false: ""}[less != ""]))
	}
	sortedAfterRange("c01_env_sorted", "pkg/build/oci/image.go", "", "BuildImageFromLayers", "env", "sort.Strings", "envs", "")
	sortedAfterRange("c01_index_archs_sorted", "pkg/build/oci/index.go", "", "generateIndexWithMediaType", "imgs", "sort.Slice", "archs", "archs[i].String() < archs[j].String()")
	sortedAfterRange("c01_sbom_archs_sorted", "pkg/build/sbom.go", "", "GenerateIndexSBOM", "imgs", "sort.Slice", "archs", "archs[i].String() < archs[j].String()")
	sortedAfterRange("c01_readdir_sorted", "pkg/tarfs/fs.go", "memFS", "ReadDir", "anode.children", "sort.Slice", "de", "de[i].Name() < de[j].Name()")
	sortedAfterRange("c01_installed_dirs_sorted", "pkg/apk/apk/installed.go", "", "sortTarHeaders", "directoryChildren", "sort.Strings", "dirEntries", "")
	sortedAfterRange("c01_groups_sorted", "pkg/build/layers.go", "", "groupByOriginAndSize", "maps.Values(byOrigin)", "slices.SortFunc", "groups", "")
	{
		fd := findFunc("pkg/build/layers.go", "", "groupByOriginAndSize")
		call, ok := c01Call(fd, "slices.SortFunc", "groups", 0)
		txt := ""
		if ok && len(call.Args) == 2 {
			txt = strings.Join(strings.Fields(exprText(call.Args[1])), " ")
		}
		i1, i2 := strings.Index(txt, "cmp.Compare(b.size, a.size)"), strings.Index(txt, "cmp.Compare(a.tiebreaker, b.tiebreaker)")
		okc := strings.Contains(txt, "cmp.Or(") && i1 >= 0 && i2 > i1
		var where ast.Node
		if call != nil {
			where = call
		}
		emit("c01_groups_comparator", okc, where, "layers.go groupByOriginAndSize: comparator is size descending, then tiebreaker ascending")
		call2, ok2 := c01Call(fd, "slices.SortFunc", "g.pkgs", 0)
		if call2 != nil {
			where = call2
		}
		emit("c01_group_pkgs_sorted", ok2, where, "layers.go groupByOriginAndSize: slices.SortFunc(g.pkgs, by name)")
		// the tiebreaker is the maximum package name
		tb := false
		ast.Inspect(fd, func(n ast.Node) bool {
			as, isa := n.(*ast.AssignStmt)
			if isa && len(as.Lhs) == 1 && exprText(as.Lhs[0]) == "g.tiebreaker" && strings.Join(strings.Fields(exprText(as.Rhs[0])), " ") == "max(g.tiebreaker, pkg.Name)" {
				tb = true
			}
			return true
		})
		emit("c01_group_tiebreaker_is_max_name", tb, fd, "layers.go groupByOriginAndSize: g.tiebreaker = max(g.tiebreaker, pkg.Name)")
	}
	{
		fd := findFunc("pkg/apk/apk/installed.go", "", "sortChildrenTarHeaders")
		call, ok := c01Call(fd, "sort.Strings", "children", 0)
		var where ast.Node
		if call != nil {
			where = call
		}
		emit("c01_installed_children_sorted", ok, where, "installed.go sortChildrenTarHeaders: sort.Strings(children)")
	}
	{
		fd := findFunc("pkg/apk/apk/world.go", "APK", "SetWorld")
		call, ok := c01Call(fd, "sort.Strings", "copied", 0)
		var where ast.Node
		okj := false
		if ok {
			where = call
			_, okj = c01Call(fd, "strings.Join", "copied", call.End())
		}
		emit("c01_world_sorted", ok && okj, where, "world.go SetWorld: sort.Strings(copied) before strings.Join(copied, ...)")
	}
	{
		fd := findFunc("pkg/build/apk.go", "Context", "initializeApk")
		emit("c01_build_repos_set", c01Assigned(fd, "buildRepos", "sets.List"), fd, "apk.go initializeApk: buildRepos := sets.List(...)")
		emit("c01_keyring_set", c01Assigned(fd, "keyring", "sets.List"), fd, "apk.go initializeApk: keyring := sets.List(...)")
		emit("c01_packages_set", c01Assigned(fd, "packages", "sets.List"), fd, "apk.go initializeApk: packages := sets.List(...)")
		fd2 := findFunc("pkg/build/apk.go", "Context", "postBuildSetApk")
		emit("c01_runtime_repos_set", c01Assigned(fd2, "runtimeRepos", "sets.List"), fd2, "apk.go postBuildSetApk: runtimeRepos := sets.List(...)")
	}
	{
		fd := findFunc("pkg/build/build.go", "Context", "GetBuildDateEpoch")
		call, ok := c01Call(fd, "os.LookupEnv", `"SOURCE_DATE_EPOCH"`, 0)
		var where ast.Node
		if call != nil {
			where = call
		}
		_, okAfter := c01Call(fd, "p.BuildTime.After", "bde", 0)
		emit("c01_bde_env_first", ok && okAfter, where, "build.go GetBuildDateEpoch: os.LookupEnv(SOURCE_DATE_EPOCH) decides, otherwise p.BuildTime.After(bde)")
		fd2 := findFunc("internal/cli/build.go", "", "buildImageComponents")
		_, ok2 := c01Call(fd2, "bde.After", "multiArchBDE", 0)
		emit("c01_multiarch_bde_is_max", ok2, fd2, "internal/cli/build.go buildImageComponents: if bde.After(multiArchBDE) { multiArchBDE = bde }")
	}
	{
		fd := findFunc("pkg/apk/apk/implementation.go", "APK", "InstallPackages")
		_, okR := c01Range(fd, "done")
		emit("c01_installer_in_index_order", okR, fd, "implementation.go InstallPackages: the installer goroutine ranges over done[] in index order")
	}
	// no wall clock in the files that produce image bytes
	var clockFiles []string
	for _, pat := range []string{"pkg/build/*.go", "pkg/build/oci/*.go", "pkg/tarfs/*.go", "pkg/apk/apk/installed.go", "pkg/apk/apk/world.go", "pkg/apk/apk/package.go", "pkg/sbom/generator/spdx/*.go", "pkg/lock/*.go", "pkg/s6/*.go", "pkg/passwd/*.go"} {
		ms, _ := filepath.Glob(filepath.Join(*repo, pat))
		for _, m := range ms {
			rel, _ := filepath.Rel(*repo, m)
			if strings.HasSuffix(rel, "_test.go") || strings.HasSuffix(rel, "_verif.go") || rel == "pkg/build/busybox_gen_versions.go" {
				continue
			}
			if _, err := os.Stat(m); err == nil {
				clockFiles = append(clockFiles, rel)
			}
		}
	}
	if len(clockFiles) < 20 {
		fail("C01: only %d source files found for the wall-clock scan", len(clockFiles))
	}
	bad := []string{}
	for _, rel := range clockFiles {
		if !c01NoCall(rel, "time.Now") || !c01NoCall(rel, "time.Since") {
			bad = append(bad, rel)
		}
	}
	g.def("c01_no_wall_clock", "bool", map[bool]string{true: "true", false: "false"}[len(bad) == 0],
		fmt.Sprintf("no call to time.Now / time.Since in %d image-producing source files; offenders: %v", len(clockFiles), bad))
	names = append(names, "c01_no_wall_clock")

	// default environment of BuildImageFromLayers: the composite literal ranged over
	{
		fd := findFunc("pkg/build/oci/image.go", "", "BuildImageFromLayers")
		var pairs []string
		if fd != nil {
			ast.Inspect(fd, func(n ast.Node) bool {
				r, ok := n.(*ast.RangeStmt)
				if !ok || pairs != nil {
					return true
				}
				cl, ok := r.X.(*ast.CompositeLit)
				if !ok {
					return true
				}
				for _, el := range cl.Elts {
					kv, ok := el.(*ast.KeyValueExpr)
					if !ok {
						continue
					}
					k, ok1 := strLit(kv.Key)
					v, ok2 := strLit(kv.Value)
					if ok1 && ok2 {
						pairs = append(pairs, "("+coqStr(k)+", "+coqStr(v)+")")
					}
				}
				return true
			})
		}
		if len(pairs) == 0 {
			fail("C01: default environment literal not found in BuildImageFromLayers")
		}
		g.def("c01_env_defaults", "list (string * string)", "["+strings.Join(pairs, "; ")+"]", "image.go BuildImageFromLayers: defaults added when the configuration does not set them")
	}
	g.def("c01_calls", "list (string * bool)", "["+strings.Join(func() []string {
		out := make([]string, len(names))
		for i, n := range names {
			out[i] = "(" + coqStr(n) + ", " + n + ")"
		}
		return out
	}(), "; ")+"]", "every check above, by name")
	g.write()
}
