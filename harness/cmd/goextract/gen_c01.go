package main

// C01: the canonicalisers proved order-invariant in Proofs/ReproProofs.v are
// only as good as the sort / set calls that implement them in the source.
// This generator CHECKS that those calls are present in the named functions
// (after the map range that fills the slice, with the expected comparator)
// and emits the results as booleans; Properties/C01.v requires all of them to
// be true, so deleting or moving a sort breaks the build of the property file.
// It also extracts the default environment table of BuildImageFromLayers.

import (
	"fmt"
	"go/ast"
	"go/token"
	"os"
	"path/filepath"
	"strings"
)

// c01Call: position of the first call in fd whose function prints as fun and
// whose first argument prints as arg0 ("" = any), starting after position `after`.
func c01Call(fd *ast.FuncDecl, fun, arg0 string, after token.Pos) (*ast.CallExpr, bool) {
	if fd == nil {
		return nil, false
	}
	var found *ast.CallExpr
	ast.Inspect(fd, func(n ast.Node) bool {
		c, ok := n.(*ast.CallExpr)
		if !ok || found != nil {
			return true
		}
		if exprText(c.Fun) != fun || c.Pos() <= after {
			return true
		}
		if arg0 != "" && (len(c.Args) == 0 || exprText(c.Args[0]) != arg0) {
			return true
		}
		found = c
		return true
	})
	return found, found != nil
}

// c01Range: end position of the first `for ... := range <x>` in fd.
func c01Range(fd *ast.FuncDecl, x string) (token.Pos, bool) {
	if fd == nil {
		return 0, false
	}
	var end token.Pos
	ok := false
	ast.Inspect(fd, func(n ast.Node) bool {
		r, isr := n.(*ast.RangeStmt)
		if !isr || ok {
			return true
		}
		if exprText(r.X) == x {
			end, ok = r.End(), true
		}
		return true
	})
	return end, ok
}

// c01Assigned: is there `lhs := fun(...)` / `lhs = fun(...)` in fd?
func c01Assigned(fd *ast.FuncDecl, lhs, fun string) bool {
	if fd == nil {
		return false
	}
	ok := false
	ast.Inspect(fd, func(n ast.Node) bool {
		as, isa := n.(*ast.AssignStmt)
		if !isa || len(as.Lhs) != 1 || len(as.Rhs) != 1 {
			return true
		}
		if exprText(as.Lhs[0]) != lhs {
			return true
		}
		if c, isc := as.Rhs[0].(*ast.CallExpr); isc && exprText(c.Fun) == fun {
			ok = true
		}
		return true
	})
	return ok
}

// c01LessBody: the single returned expression of a `func(i, j int) bool { return X }` literal.
func c01LessBody(e ast.Expr) string {
	fl, ok := e.(*ast.FuncLit)
	if !ok || len(fl.Body.List) != 1 {
		return ""
	}
	rs, ok := fl.Body.List[0].(*ast.ReturnStmt)
	if !ok || len(rs.Results) != 1 {
		return ""
	}
	return strings.Join(strings.Fields(exprText(rs.Results[0])), " ")
}

func c01NoCall(rel, fun string) bool {
	f := load(rel)
	if f == nil {
		return false
	}
	none := true
	ast.Inspect(f, func(n ast.Node) bool {
		if c, ok := n.(*ast.CallExpr); ok && exprText(c.Fun) == fun {
			none = false
		}
		return true
	})
	return none
}

// c01AppendedIn: names v such that the body of range statement r contains `v = append(v, ...)`.
func c01AppendedIn(r *ast.RangeStmt) []string {
	var out []string
	ast.Inspect(r.Body, func(n ast.Node) bool {
		as, ok := n.(*ast.AssignStmt)
		if !ok || len(as.Lhs) != 1 || len(as.Rhs) != 1 {
			return true
		}
		c, ok := as.Rhs[0].(*ast.CallExpr)
		if !ok || exprText(c.Fun) != "append" || len(c.Args) < 2 {
			return true
		}
		if exprText(c.Args[0]) == exprText(as.Lhs[0]) {
			out = append(out, exprText(as.Lhs[0]))
		}
		return true
	})
	return out
}

// c01NormLess: the returned expression of a comparator literal with the
// sorted slice and the two parameters renamed to S, I, J (so that renaming a
// local does not change the check).
func c01NormLess(e ast.Expr, slice string) string {
	fl, ok := e.(*ast.FuncLit)
	if !ok || len(fl.Body.List) != 1 {
		return ""
	}
	rs, ok := fl.Body.List[0].(*ast.ReturnStmt)
	if !ok || len(rs.Results) != 1 {
		return ""
	}
	var params []string
	for _, f := range fl.Type.Params.List {
		for _, n := range f.Names {
			params = append(params, n.Name)
		}
	}
	if len(params) != 2 {
		return ""
	}
	ren := map[string]string{slice: "S", params[0]: "I", params[1]: "J"}
	var b strings.Builder
	txt := strings.Join(strings.Fields(exprText(rs.Results[0])), " ")
	isId := func(c byte) bool {
		return c == '_' || c >= '0' && c <= '9' || c >= 'a' && c <= 'z' || c >= 'A' && c <= 'Z'
	}
	for i := 0; i < len(txt); {
		if isId(txt[i]) && (i == 0 || !isId(txt[i-1])) {
			j := i
			for j < len(txt) && isId(txt[j]) {
				j++
			}
			w := txt[i:j]
			if r, ok := ren[w]; ok && (i == 0 || txt[i-1] != '.') {
				w = r
			}
			b.WriteString(w)
			i = j
			continue
		}
		b.WriteByte(txt[i])
		i++
	}
	return b.String()
}

// c01SortedAfterFill: some `for ... range` in fd fills a slice v by append, and
// after that loop v is sorted by a call to sortFun (with the comparator, if
// given, equal to less after renaming). Returns the sort call.
func c01SortedAfterFill(fd *ast.FuncDecl, sortFun, less string) (*ast.CallExpr, bool) {
	return c01SortedAfterFillP(fd, sortFun, func(call *ast.CallExpr, v string) bool {
		if less == "" || len(call.Args) != 2 {
			return less == ""
		}
		got := c01NormLess(call.Args[1], v)
		if exprText(call.Fun) == sortFun {
			return got == less
		}
		// the same order written for slices.SortFunc: the comparator gets the elements, not the indices
		el := strings.NewReplacer("S[I]", "I", "S[J]", "J").Replace(less) // "I.String() < J.String()"
		if a, b, ok := strings.Cut(el, " < "); ok {
			return got == "strings.Compare("+a+", "+b+")" || got == "cmp.Compare("+a+", "+b+")"
		}
		return false
	})
}

// equivalent spellings of one sort: sort.Strings(v) = slices.Sort(v); sort.Slice(v, less) = slices.SortFunc(v, three-way form of less)
func c01SortAlternatives(sortFun string) []string {
	switch sortFun {
	case "sort.Strings":
		return []string{"sort.Strings", "slices.Sort"}
	case "sort.Slice":
		return []string{"sort.Slice", "slices.SortFunc"}
	}
	return []string{sortFun}
}

// c01CollectedFromMap: `v := slices.Collect(maps.Keys(m))` / maps.Values / slices.AppendSeq(v0, maps.Keys(m)) — the library form of
// "fill a slice by ranging over a map": names with the end position of the assignment
func c01CollectedFromMap(fd *ast.FuncDecl) map[string]token.Pos {
	out := map[string]token.Pos{}
	ast.Inspect(fd, func(n ast.Node) bool {
		as, ok := n.(*ast.AssignStmt)
		if !ok || len(as.Lhs) != 1 || len(as.Rhs) != 1 {
			return true
		}
		c, ok := as.Rhs[0].(*ast.CallExpr)
		if !ok {
			return true
		}
		f := exprText(c.Fun)
		var seq ast.Expr
		switch {
		case f == "slices.Collect" && len(c.Args) == 1:
			seq = c.Args[0]
		case f == "slices.AppendSeq" && len(c.Args) == 2:
			seq = c.Args[1]
		}
		if sc, ok := seq.(*ast.CallExpr); ok {
			if g := exprText(sc.Fun); (g == "maps.Keys" || g == "maps.Values") && len(sc.Args) == 1 {
				out[exprText(as.Lhs[0])] = as.End()
			}
		}
		return true
	})
	return out
}

func c01SortedAfterFillP(fd *ast.FuncDecl, sortFun string, accept func(call *ast.CallExpr, v string) bool) (*ast.CallExpr, bool) {
	if fd == nil {
		return nil, false
	}
	var found *ast.CallExpr
	try := func(v string, after token.Pos) bool {
		for _, sf := range c01SortAlternatives(sortFun) {
			if call, ok := c01Call(fd, sf, v, after); ok && accept(call, v) {
				found = call
				return true
			}
		}
		return false
	}
	ast.Inspect(fd, func(n ast.Node) bool {
		r, ok := n.(*ast.RangeStmt)
		if !ok || found != nil {
			return true
		}
		for _, v := range c01AppendedIn(r) {
			if try(v, r.End()) {
				return false
			}
		}
		return true
	})
	if found == nil {
		for v, end := range c01CollectedFromMap(fd) {
			if try(v, end) {
				break
			}
		}
	}
	return found, found != nil
}

func c01FromSetsList(fd *ast.FuncDecl, method string, idx int) bool {
	if fd == nil {
		return false
	}
	ok := false
	ast.Inspect(fd, func(n ast.Node) bool {
		c, isc := n.(*ast.CallExpr)
		if !isc || ok {
			return true
		}
		sel, iss := c.Fun.(*ast.SelectorExpr)
		if !iss || sel.Sel.Name != method || idx >= len(c.Args) {
			return true
		}
		arg := exprText(c.Args[idx])
		if strings.HasSuffix(arg, "...") {
			arg = strings.TrimSuffix(arg, "...")
		}
		if c01Assigned(fd, arg, "sets.List") {
			ok = true
		}
		return true
	})
	return ok
}
func genC01() {
	g := newGen("C01Calls", "From Coq Require Import String List Bool.\nImport ListNotations.\nOpen Scope string_scope.\n")
	var names []string
	emit := func(name string, ok bool, where ast.Node, what string) {
		v := "false"
		if ok {
			v = "true"
		}
		p := "not found"
		if where != nil {
			p = g.pos(where)
		}
		g.def(name, "bool", v, what+" ["+p+"]")
		names = append(names, name)
	}
	node := func(c *ast.CallExpr, fd *ast.FuncDecl) ast.Node {
		if c != nil {
			return c
		}
		if fd != nil {
			return fd
		}
		return nil
	}
	// "a range loop fills a slice by append; the slice is sorted after the loop"
	// (the names of locals do not matter)
	filled := func(name, rel, recv, fn, sortFun, less, what string) {
		fd := findFunc(rel, recv, fn)
		call, ok := c01SortedAfterFill(fd, sortFun, less)
		emit(name, ok, node(call, fd), rel+" "+fn+": "+what)
	}
	filled("c01_env_sorted", "pkg/build/oci/image.go", "", "BuildImageFromLayers", "sort.Strings", "", "the slice filled by ranging over the environment map is sorted (sort.Strings) after the loop")
	filled("c01_index_archs_sorted", "pkg/build/oci/index.go", "", "generateIndexWithMediaType", "sort.Slice", "S[I].String() < S[J].String()", "the architectures collected from the image map are sorted by String() <")
	filled("c01_sbom_archs_sorted", "pkg/build/sbom.go", "", "GenerateIndexSBOM", "sort.Slice", "S[I].String() < S[J].String()", "the architectures collected from the image map are sorted by String() <")
	filled("c01_readdir_sorted", "pkg/tarfs/fs.go", "memFS", "ReadDir", "sort.Slice", "S[I].Name() < S[J].Name()", "the entries collected from the children map are sorted by Name() <")
	filled("c01_installed_dirs_sorted", "pkg/apk/apk/installed.go", "", "sortTarHeaders", "sort.Strings", "", "the keys collected from directoryChildren are sorted (sort.Strings)")
	{
		fd := findFunc("pkg/build/layers.go", "", "groupByOriginAndSize")
		// the slice of groups: filled by ranging over maps.Values(<map>)
		isGroups := func(call *ast.CallExpr, v string) bool { return !strings.Contains(v, ".") }
		call, ok := c01SortedAfterFillP(fd, "slices.SortFunc", isGroups)
		emit("c01_groups_sorted", ok, node(call, fd), "layers.go groupByOriginAndSize: the groups collected from the byOrigin map are sorted (slices.SortFunc) after the loop")
		okc := false
		if call != nil && len(call.Args) == 2 {
			txt := c01NormLess(call.Args[1], exprText(call.Args[0]))
			i1, i2 := strings.Index(txt, "cmp.Compare(J.size, I.size)"), strings.Index(txt, "cmp.Compare(I.tiebreaker, J.tiebreaker)")
			okc = strings.HasPrefix(txt, "cmp.Or(") && i1 >= 0 && i2 > i1
		}
		emit("c01_groups_comparator", okc, node(call, fd), "layers.go groupByOriginAndSize: comparator is size descending, then tiebreaker ascending")
		// slices.SortFunc(<x>.pkgs, by Name)
		var pk *ast.CallExpr
		tb := false
		if fd != nil {
			ast.Inspect(fd, func(n ast.Node) bool {
				switch x := n.(type) {
				case *ast.CallExpr:
					if exprText(x.Fun) == "slices.SortFunc" && len(x.Args) == 2 && strings.HasSuffix(exprText(x.Args[0]), ".pkgs") &&
						c01NormLess(x.Args[1], "") == "cmp.Compare(I.Name, J.Name)" {
						pk = x
					}
				case *ast.AssignStmt:
					if len(x.Lhs) == 1 && len(x.Rhs) == 1 && strings.HasSuffix(exprText(x.Lhs[0]), ".tiebreaker") {
						l := exprText(x.Lhs[0])
						r := strings.Join(strings.Fields(exprText(x.Rhs[0])), " ")
						if strings.HasPrefix(r, "max("+l+", ") && strings.HasSuffix(r, ".Name)") {
							tb = true
						}
					}
				}
				return true
			})
		}
		emit("c01_group_pkgs_sorted", pk != nil, node(pk, fd), "layers.go groupByOriginAndSize: each group's packages are sorted by Name")
		emit("c01_group_tiebreaker_is_max_name", tb, fd, "layers.go groupByOriginAndSize: <g>.tiebreaker = max(<g>.tiebreaker, <pkg>.Name)")
	}
	{
		fd := findFunc("pkg/apk/apk/installed.go", "", "sortChildrenTarHeaders")
		var call *ast.CallExpr
		if fd != nil && len(fd.Type.Params.List) == 3 && len(fd.Type.Params.List[2].Names) == 1 {
			call, _ = c01Call(fd, "sort.Strings", fd.Type.Params.List[2].Names[0].Name, 0)
		}
		emit("c01_installed_children_sorted", call != nil, node(call, fd), "installed.go sortChildrenTarHeaders: the children parameter is sorted (sort.Strings) first")
	}
	{
		fd := findFunc("pkg/apk/apk/world.go", "APK", "SetWorld")
		call, ok := c01Call(fd, "sort.Strings", "", 0)
		okj := false
		if ok && len(call.Args) == 1 {
			_, okj = c01Call(fd, "strings.Join", exprText(call.Args[0]), call.End())
		}
		emit("c01_world_sorted", ok && okj, node(call, fd), "world.go SetWorld: the slice that is joined into etc/apk/world is sorted (sort.Strings) before")
	}
	{
		fd := findFunc("pkg/build/apk.go", "Context", "initializeApk")
		emit("c01_build_repos_set", c01FromSetsList(fd, "InitDB", 1) && c01FromSetsList(fd, "SetRepositories", 1), fd, "apk.go initializeApk: InitDB / SetRepositories get a sets.List(...)")
		emit("c01_keyring_set", c01FromSetsList(fd, "InitKeyring", 1), fd, "apk.go initializeApk: InitKeyring gets a sets.List(...)")
		emit("c01_packages_set", c01FromSetsList(fd, "SetWorld", 1), fd, "apk.go initializeApk: SetWorld gets a sets.List(...) (plus base image packages)")
		fd2 := findFunc("pkg/build/apk.go", "Context", "postBuildSetApk")
		emit("c01_runtime_repos_set", c01FromSetsList(fd2, "SetRepositories", 1), fd2, "apk.go postBuildSetApk: SetRepositories gets a sets.List(...)")
	}
	// (the two date loops — GetBuildDateEpoch and the multi-architecture fold of buildImageComponents — are no longer
	// checked for a shape here: c01Code below emits WHAT they compare and assign, and the theorems are about that)
	{
		fd := findFunc("pkg/apk/apk/implementation.go", "APK", "InstallPackages")
		okR := false
		if fd != nil {
			ast.Inspect(fd, func(n ast.Node) bool {
				r, isr := n.(*ast.RangeStmt)
				if !isr || okR || r.Value == nil {
					return true
				}
				v := exprText(r.Value)
				ast.Inspect(r.Body, func(m ast.Node) bool {
					if u, isu := m.(*ast.UnaryExpr); isu && u.Op == token.ARROW && exprText(u.X) == v {
						okR = true
					}
					return true
				})
				return true
			})
		}
		emit("c01_installer_in_index_order", okR, fd, "implementation.go InstallPackages: one loop receives from the per-package channels in slice (index) order")
	}
	// no wall clock in the files that produce image bytes
	var clockFiles []string
	for _, pat := range []string{"pkg/build/*.go", "pkg/build/oci/*.go", "pkg/tarfs/*.go", "pkg/apk/apk/installed.go", "pkg/apk/apk/world.go", "pkg/apk/apk/package.go", "pkg/sbom/generator/spdx/*.go", "pkg/lock/*.go", "pkg/s6/*.go", "pkg/passwd/*.go"} {
		ms, _ := filepath.Glob(filepath.Join(*repo, pat))
		for _, m := range ms {
			rel, _ := filepath.Rel(*repo, m)
			if strings.HasSuffix(rel, "_test.go") || strings.HasSuffix(rel, "_verif.go") || rel == "pkg/build/busybox_gen_versions.go" {
				continue
			}
			if _, err := os.Stat(m); err == nil {
				clockFiles = append(clockFiles, rel)
			}
		}
	}
	if len(clockFiles) < 20 {
		fail("C01: only %d source files found for the wall-clock scan", len(clockFiles))
	}
	bad := []string{}
	for _, rel := range clockFiles {
		if !c01NoCall(rel, "time.Now") || !c01NoCall(rel, "time.Since") {
			bad = append(bad, rel)
		}
	}
	g.def("c01_no_wall_clock", "bool", map[bool]string{true: "true", false: "false"}[len(bad) == 0],
		fmt.Sprintf("no call to time.Now / time.Since in %d image-producing source files; offenders: %v", len(clockFiles), bad))
	names = append(names, "c01_no_wall_clock")

	// default environment of BuildImageFromLayers: the composite literal ranged over
	{
		fd := findFunc("pkg/build/oci/image.go", "", "BuildImageFromLayers")
		var pairs []string
		if fd != nil {
			ast.Inspect(fd, func(n ast.Node) bool {
				r, ok := n.(*ast.RangeStmt)
				if !ok || pairs != nil {
					return true
				}
				cl, ok := r.X.(*ast.CompositeLit)
				if !ok {
					return true
				}
				for _, el := range cl.Elts {
					kv, ok := el.(*ast.KeyValueExpr)
					if !ok {
						continue
					}
					k, ok1 := strLit(kv.Key)
					v, ok2 := strLit(kv.Value)
					if ok1 && ok2 {
						pairs = append(pairs, "("+coqStr(k)+", "+coqStr(v)+")")
					}
				}
				return true
			})
		}
		if len(pairs) == 0 {
			fail("C01: default environment literal not found in BuildImageFromLayers")
		}
		g.def("c01_env_defaults", "list (string * string)", "["+strings.Join(pairs, "; ")+"]", "image.go BuildImageFromLayers: defaults added when the configuration does not set them")
	}
	c01Code(g, emit)
	g.def("c01_calls", "list (string * bool)", "["+strings.Join(func() []string {
		out := make([]string, len(names))
		for i, n := range names {
			out[i] = "(" + coqStr(n) + ", " + n + ")"
		}
		return out
	}(), "; ")+"]", "every check above, by name")
	g.write()
}

// ---- the code of the order-sensitive loops, as data --------------------------------------------
// Model/Repro2.v interprets what is emitted here; the theorems of Properties/C01.v are stated
// about these generated values, so a change of WHICH values a loop compares, what it assigns,
// where a list comes from or which limit a goroutine group gets changes the statement proved.

// c01Root: the identifier an expression is rooted at (x.a.b(), x[i].c, &x, ...).
func c01Root(e ast.Expr) string {
	for {
		switch x := e.(type) {
		case *ast.SelectorExpr:
			e = x.X
		case *ast.CallExpr:
			e = x.Fun
		case *ast.UnaryExpr:
			e = x.X
		case *ast.StarExpr:
			e = x.X
		case *ast.ParenExpr:
			e = x.X
		case *ast.IndexExpr:
			e = x.X
		case *ast.Ident:
			return x.Name
		default:
			return ""
		}
	}
}

func c01SelName(e ast.Expr) string {
	if s, ok := e.(*ast.SelectorExpr); ok {
		return s.Sel.Name
	}
	return ""
}

// c01DateFold reads `if A.After(B) { C = D }` (or .Before) out of fd: the one such statement whose
// operands are dates of the fold. role() names an operand by what it stands for:
// "acc" (the running value), "new" (the value met in this round), "init" (the configured
// SOURCE_DATE_EPOCH / --build-date value), or "other:<text>".
func c01DateFold(fd *ast.FuncDecl, where string, role func(ast.Expr) string) (code map[string]string, node ast.Node) {
	code = map[string]string{}
	if fd == nil {
		fail("C01: %s not found", where)
		return code, nil
	}
	n := 0
	ast.Inspect(fd, func(x ast.Node) bool {
		is, ok := x.(*ast.IfStmt)
		if !ok {
			return true
		}
		c, ok := is.Cond.(*ast.CallExpr)
		if !ok || len(c.Args) != 1 {
			return true
		}
		sel, ok := c.Fun.(*ast.SelectorExpr)
		if !ok || (sel.Sel.Name != "After" && sel.Sel.Name != "Before") {
			return true
		}
		rr, ra := role(sel.X), role(c.Args[0])
		if strings.HasPrefix(rr, "other:") && strings.HasPrefix(ra, "other:") {
			return true // a comparison of other instants
		}
		n++
		code["method"], code["recv"], code["arg"] = sel.Sel.Name, rr, ra
		code["lhs"], code["rhs"] = "other:<no single assignment>", "other:<no single assignment>"
		if len(is.Body.List) == 1 && is.Else == nil {
			if as, ok := is.Body.List[0].(*ast.AssignStmt); ok && as.Tok == token.ASSIGN && len(as.Lhs) == 1 && len(as.Rhs) == 1 {
				code["lhs"], code["rhs"] = role(as.Lhs[0]), role(as.Rhs[0])
			}
		}
		node = is
		return true
	})
	if n != 1 {
		fail("C01: %s: %d statements of the form `if <date>.After(<date>) {...}` (want 1)", where, n)
	}
	return code, node
}

func c01EmitCode(g *gen, name string, keys []string, code map[string]string, comment string) {
	var items []string
	for _, k := range keys {
		v, ok := code[k]
		if !ok {
			v = "other:<not found>"
		}
		items = append(items, "("+coqStr(k)+", "+coqStr(v)+")")
	}
	g.def(name, "list (string * string)", "["+strings.Join(items, "; ")+"]", comment)
}

func c01Code(g *gen, emit func(name string, ok bool, where ast.Node, what string)) {
	// ---- internal/cli/build.go buildImageComponents: the multi-architecture date -----------------
	{
		fd := findFunc("internal/cli/build.go", "", "buildImageComponents")
		acc, nw := map[string]bool{}, map[string]bool{}
		if fd != nil {
			ast.Inspect(fd, func(x ast.Node) bool {
				as, ok := x.(*ast.AssignStmt)
				if !ok || len(as.Rhs) != 1 || len(as.Lhs) == 0 {
					return true
				}
				id, ok := as.Lhs[0].(*ast.Ident)
				if !ok {
					return true
				}
				if as.Tok == token.DEFINE && len(as.Lhs) == 1 && c01SelName(as.Rhs[0]) == "SourceDateEpoch" {
					acc[id.Name] = true
				}
				if c, ok := as.Rhs[0].(*ast.CallExpr); ok && c01SelName(c.Fun) == "GetBuildDateEpoch" {
					nw[id.Name] = true
				}
				return true
			})
		}
		role := func(e ast.Expr) string {
			if id, ok := e.(*ast.Ident); ok {
				if acc[id.Name] {
					return "acc"
				}
				if nw[id.Name] {
					return "new"
				}
			}
			if c01SelName(e) == "SourceDateEpoch" {
				return "init"
			}
			return "other:" + exprText(e)
		}
		code, node := c01DateFold(fd, "internal/cli/build.go buildImageComponents", role)
		code["init"] = "other:<no running value>"
		if len(acc) == 1 {
			code["init"] = "init" // <acc> := <options>.SourceDateEpoch
		}
		// what the index and its SBOM are dated with
		var used []string
		if fd != nil {
			ast.Inspect(fd, func(x ast.Node) bool {
				c, ok := x.(*ast.CallExpr)
				if !ok || len(c.Args) == 0 {
					return true
				}
				switch c01SelName(c.Fun) {
				case "GenerateIndex", "GenerateDockerIndex", "WithSourceDateEpoch":
					used = append(used, role(c.Args[len(c.Args)-1]))
				}
				return true
			})
		}
		code["result"] = "other:<GenerateIndex not called>"
		if len(used) > 0 {
			code["result"] = used[0]
			for _, u := range used {
				if u != used[0] {
					code["result"] = "other:<index and options are dated differently>"
				}
			}
		}
		c01EmitCode(g, "c01_multiarch_fold", []string{"method", "recv", "arg", "lhs", "rhs", "init", "result"}, code,
			"internal/cli/build.go buildImageComponents, under the mutex, once per finished architecture: if <recv>.<method>(<arg>) { <lhs> = <rhs> }; acc = the running date (starts as <init>), new = this architecture's GetBuildDateEpoch, init = the options' SourceDateEpoch; result = what GenerateIndex / WithSourceDateEpoch are given ["+g.pos(node)+"]")
	}
	// ---- pkg/build/build.go GetBuildDateEpoch ---------------------------------------------------------
	{
		fd := findFunc("pkg/build/build.go", "Context", "GetBuildDateEpoch")
		acc := map[string]bool{}
		var loop *ast.RangeStmt
		if fd != nil {
			ast.Inspect(fd, func(x ast.Node) bool {
				switch y := x.(type) {
				case *ast.AssignStmt:
					if id, ok := y.Lhs[0].(*ast.Ident); ok && y.Tok == token.DEFINE && len(y.Lhs) == 1 && len(y.Rhs) == 1 && c01SelName(y.Rhs[0]) == "SourceDateEpoch" {
						acc[id.Name] = true
					}
				case *ast.RangeStmt:
					if loop == nil {
						loop = y
					}
				}
				return true
			})
		}
		rangeVar := ""
		if loop != nil && loop.Value != nil {
			rangeVar = exprText(loop.Value)
		}
		role := func(e ast.Expr) string {
			if id, ok := e.(*ast.Ident); ok && acc[id.Name] {
				return "acc"
			}
			if s, ok := e.(*ast.SelectorExpr); ok && s.Sel.Name == "BuildTime" && rangeVar != "" && exprText(s.X) == rangeVar {
				return "new"
			}
			if c01SelName(e) == "SourceDateEpoch" {
				return "init"
			}
			return "other:" + exprText(e)
		}
		code, node := c01DateFold(fd, "pkg/build/build.go GetBuildDateEpoch", role)
		code["init"] = "other:<no running value>"
		if len(acc) == 1 {
			code["init"] = "init"
		}
		if node != nil && (loop == nil || node.Pos() < loop.Pos() || node.End() > loop.End()) {
			code["method"] = "other:<the comparison is not inside the loop over the installed packages>"
		}
		// the loop ranges over what GetInstalled returned
		code["over"] = "other:<no loop>"
		if loop != nil && fd != nil {
			code["over"] = "other:" + exprText(loop.X)
			ast.Inspect(fd, func(x ast.Node) bool {
				as, ok := x.(*ast.AssignStmt)
				if !ok || len(as.Rhs) != 1 || len(as.Lhs) == 0 {
					return true
				}
				if c, ok := as.Rhs[0].(*ast.CallExpr); ok && c01SelName(c.Fun) == "GetInstalled" && exprText(as.Lhs[0]) == exprText(loop.X) {
					code["over"] = "installed"
				}
				return true
			})
		}
		// `if _, ok := os.LookupEnv("SOURCE_DATE_EPOCH"); ok { return X, nil }` before the loop; the final return
		code["env_set_returns"], code["result"] = "other:<no such statement>", "other:<no final return>"
		if fd != nil && fd.Body != nil {
			for _, st := range fd.Body.List {
				switch y := st.(type) {
				case *ast.IfStmt:
					as, ok := y.Init.(*ast.AssignStmt)
					if !ok || len(as.Lhs) != 2 || len(as.Rhs) != 1 {
						continue
					}
					c, ok := as.Rhs[0].(*ast.CallExpr)
					if !ok || exprText(c.Fun) != "os.LookupEnv" || len(c.Args) != 1 || exprText(c.Args[0]) != `"SOURCE_DATE_EPOCH"` {
						continue
					}
					if exprText(y.Cond) != exprText(as.Lhs[1]) || (loop != nil && y.Pos() > loop.Pos()) || len(y.Body.List) != 1 {
						code["env_set_returns"] = "other:<unexpected shape of the SOURCE_DATE_EPOCH test>"
						continue
					}
					if rs, ok := y.Body.List[0].(*ast.ReturnStmt); ok && len(rs.Results) >= 1 {
						code["env_set_returns"] = role(rs.Results[0])
					}
				case *ast.ReturnStmt:
					if len(y.Results) >= 1 {
						code["result"] = role(y.Results[0])
					}
				}
			}
		}
		c01EmitCode(g, "c01_bde_fold", []string{"method", "recv", "arg", "lhs", "rhs", "init", "result", "over", "env_set_returns"}, code,
			"pkg/build/build.go GetBuildDateEpoch: when SOURCE_DATE_EPOCH is set return <env_set_returns>; otherwise for every package of <over>: if <recv>.<method>(<arg>) { <lhs> = <rhs> }; acc = the running date (starts as <init>), new = the package's BuildTime, init = the options' SourceDateEpoch; result = what is returned ["+g.pos(node)+"]")
	}
	// ---- pkg/build/apk.go initializeApk: the repositories used while installing ---------------------------
	{
		fd := findFunc("pkg/build/apk.go", "Context", "initializeApk")
		recv := ""
		if fd != nil && fd.Recv != nil && len(fd.Recv.List) == 1 && len(fd.Recv.List[0].Names) == 1 {
			recv = fd.Recv.List[0].Names[0].Name
		}
		norm := func(e ast.Node) string {
			t := strings.Join(strings.Fields(exprText(e)), " ")
			if recv == "" || recv == "bc" {
				return t
			}
			// identifier-wise renaming of the receiver to "bc"
			var b strings.Builder
			isId := func(c byte) bool {
				return c == '_' || c >= '0' && c <= '9' || c >= 'a' && c <= 'z' || c >= 'A' && c <= 'Z'
			}
			for i := 0; i < len(t); {
				if isId(t[i]) && (i == 0 || !isId(t[i-1])) {
					j := i
					for j < len(t) && isId(t[j]) {
						j++
					}
					w := t[i:j]
					if w == recv && (i == 0 || t[i-1] != '.') {
						w = "bc"
					}
					b.WriteString(w)
					i = j
					continue
				}
				b.WriteByte(t[i])
				i++
			}
			return b.String()
		}
		// the variable handed to InitDB
		list := ""
		var initdb, setrepos *ast.CallExpr
		if fd != nil {
			ast.Inspect(fd, func(x ast.Node) bool {
				c, ok := x.(*ast.CallExpr)
				if !ok {
					return true
				}
				switch c01SelName(c.Fun) {
				case "InitDB":
					if len(c.Args) >= 2 {
						initdb = c
						list = exprText(c.Args[1])
					}
				case "SetRepositories":
					setrepos = c
				}
				return true
			})
		}
		var sources []string
		var appends []string
		appendBeforeSet := true
		if fd != nil && list != "" {
			// <list> := sets.List(...): the configuration fields inside, in source order
			ast.Inspect(fd, func(x ast.Node) bool {
				as, ok := x.(*ast.AssignStmt)
				if !ok || len(as.Lhs) != 1 || len(as.Rhs) != 1 || exprText(as.Lhs[0]) != list {
					return true
				}
				c, ok := as.Rhs[0].(*ast.CallExpr)
				if !ok {
					return true
				}
				if exprText(c.Fun) == "sets.List" && sources == nil {
					ast.Inspect(c, func(y ast.Node) bool {
						if s, ok := y.(*ast.SelectorExpr); ok && c01Root(s) == recv {
							if _, isCall := s.X.(*ast.CallExpr); !isCall {
								sources = append(sources, coqStr(norm(s)))
								return false
							}
						}
						return true
					})
				}
				return true
			})
			// <list> = append(<list>, E...) with the condition it sits under
			var walk func(n ast.Node, cond string)
			walk = func(n ast.Node, cond string) {
				ast.Inspect(n, func(y ast.Node) bool {
					switch z := y.(type) {
					case *ast.IfStmt:
						if z == n {
							return true
						}
						c := norm(z.Cond)
						if cond != "" {
							c = cond + " && " + c
						}
						walk(z.Body, c)
						if z.Else != nil {
							walk(z.Else, "!("+c+")")
						}
						return false
					case *ast.AssignStmt:
						if len(z.Lhs) == 1 && len(z.Rhs) == 1 && exprText(z.Lhs[0]) == list {
							if c, ok := z.Rhs[0].(*ast.CallExpr); ok && exprText(c.Fun) == "append" && len(c.Args) >= 2 && exprText(c.Args[0]) == list {
								for _, a := range c.Args[1:] {
									// a local that merely names an expression (x := e, assigned once): the expression
									if id, ok := a.(*ast.Ident); ok {
										var defs []ast.Expr
										ast.Inspect(fd, func(q ast.Node) bool {
											if d, ok := q.(*ast.AssignStmt); ok && len(d.Lhs) == 1 && len(d.Rhs) == 1 && exprText(d.Lhs[0]) == id.Name {
												defs = append(defs, d.Rhs[0])
											}
											return true
										})
										if len(defs) == 1 {
											a = defs[0]
										}
									}
									appends = append(appends, "("+coqStr(cond)+", "+coqStr(norm(a))+")")
								}
								if setrepos != nil && z.Pos() > setrepos.Pos() {
									appendBeforeSet = false
								}
							}
						}
					}
					return true
				})
			}
			walk(fd.Body, "")
		}
		if len(sources) == 0 {
			fail("C01: pkg/build/apk.go initializeApk: the list handed to InitDB is not a sets.List of configuration fields")
		}
		g.def("c01_init_repo_sources", "list string", "["+strings.Join(sources, "; ")+"]",
			"pkg/build/apk.go initializeApk: the configuration fields whose union (sets.List) is the repository list used while installing")
		g.def("c01_init_repo_appends", "list (string * string)", "["+strings.Join(appends, "; ")+"]",
			"pkg/build/apk.go initializeApk: what is appended to that list before SetRepositories writes it, with the condition (receiver spelled bc)")
		okSet := setrepos != nil && initdb != nil && len(setrepos.Args) >= 2 && exprText(setrepos.Args[1]) == list && appendBeforeSet
		var where ast.Node = fd
		if setrepos != nil {
			where = setrepos
		}
		emit("c01_init_setrepos_writes_that_list", okSet, where, "apk.go initializeApk: SetRepositories is handed the list InitDB got, after everything appended to it")
	}
	// ---- pkg/apk/apk/implementation.go InstallPackages: the limit of the goroutine group -------------------
	{
		fd := findFunc("pkg/apk/apk/implementation.go", "APK", "InstallPackages")
		term := ""
		var at ast.Node = fd
		n := 0
		if fd != nil {
			jobs := map[string]bool{} // locals bound to runtime.GOMAXPROCS(0)
			isProcs := func(e ast.Expr) bool {
				if id, ok := e.(*ast.Ident); ok && jobs[id.Name] {
					return true
				}
				c, ok := e.(*ast.CallExpr)
				return ok && exprText(c.Fun) == "runtime.GOMAXPROCS" && len(c.Args) == 1 && exprText(c.Args[0]) == "0"
			}
			ast.Inspect(fd, func(x ast.Node) bool {
				switch y := x.(type) {
				case *ast.AssignStmt:
					if len(y.Lhs) == 1 && len(y.Rhs) == 1 && isProcs(y.Rhs[0]) {
						if id, ok := y.Lhs[0].(*ast.Ident); ok {
							jobs[id.Name] = true
						}
					}
				case *ast.CallExpr:
					if c01SelName(y.Fun) != "SetLimit" || len(y.Args) != 1 {
						return true
					}
					n++
					at = y
					switch a := y.Args[0].(type) {
					case *ast.BinaryExpr:
						if k, ok := intLit(a.Y); ok && a.Op == token.ADD && isProcs(a.X) && k >= 0 && k < 1000 {
							term = fmt.Sprintf("Some %d", k)
						} else if k, ok := intLit(a.X); ok && a.Op == token.ADD && isProcs(a.Y) && k >= 0 && k < 1000 {
							term = fmt.Sprintf("Some %d", k)
						}
					default:
						if isProcs(y.Args[0]) {
							term = "Some 0"
						}
					}
				}
				return true
			})
		}
		if n == 0 && fd != nil {
			term = "None"
		}
		if term == "" || n > 1 {
			fail("C01: pkg/apk/apk/implementation.go InstallPackages: the argument of SetLimit is not <GOMAXPROCS> + <constant>")
			term = "None"
		}
		g.def("c01_install_limit_extra", "option nat", term,
			"implementation.go InstallPackages: g.SetLimit(runtime.GOMAXPROCS(0) + k) gives Some k; None = the group has no limit ["+g.pos(at)+"]")
	}
	// ---- wave 3: files written from offset 0, and the order of the repository indexes -----------------------
	// every call that opens a file in the function, as the list of its os.O_* flags (os.Create = O_RDWR|O_CREATE|O_TRUNC,
	// os.CreateTemp = a new file: O_RDWR|O_CREATE|O_EXCL)
	openFlags := func(rel, recv, fn string) (string, ast.Node) {
		fd := findFunc(rel, recv, fn)
		var calls []string
		var at ast.Node = fd
		if fd != nil {
			ast.Inspect(fd, func(x ast.Node) bool {
				c, ok := x.(*ast.CallExpr)
				if !ok {
					return true
				}
				var flags []string
				switch exprText(c.Fun) {
				case "os.Create":
					flags = []string{"O_RDWR", "O_CREATE", "O_TRUNC"}
				case "os.CreateTemp":
					flags = []string{"O_RDWR", "O_CREATE", "O_EXCL"}
				case "os.OpenFile":
					if len(c.Args) != 3 {
						return true
					}
					for _, f := range strings.Split(exprText(c.Args[1]), "|") {
						flags = append(flags, strings.TrimPrefix(strings.TrimSpace(f), "os."))
					}
				default:
					return true
				}
				qs := make([]string, len(flags))
				for i, f := range flags {
					qs[i] = coqStr(f)
				}
				calls = append(calls, "["+strings.Join(qs, "; ")+"]")
				at = c
				return true
			})
		}
		if len(calls) == 0 {
			fail("C01: %s %s: no call that opens the output file (os.Create / os.OpenFile / os.CreateTemp)", rel, fn)
		}
		return "[" + strings.Join(calls, "; ") + "]", at
	}
	{
		t, at := openFlags("pkg/build/build.go", "Context", "ImageLayoutToLayer")
		g.def("c01_layer_file_open", "list (list string)", t, "pkg/build/build.go ImageLayoutToLayer: the flags of every call that opens the file the single layer is written to ["+g.pos(at)+"]")
		t, at = openFlags("pkg/build/oci/index.go", "", "BuildIndex")
		g.def("c01_index_file_open", "list (list string)", t, "pkg/build/oci/index.go BuildIndex: the flags of the call that opens the output tarball ["+g.pos(at)+"]")
	}
	{
		// GetRepositoryIndexes: each goroutine stores its index at its own position of a slice made with the length of
		// the repository list; nothing is appended to that slice inside a goroutine
		fd := findFunc("pkg/apk/apk/index.go", "", "GetRepositoryIndexes")
		ok := false
		var at ast.Node = fd
		if fd != nil {
			sized := map[string]bool{} // slices made with make([]T, len(<repos>))
			ast.Inspect(fd, func(x ast.Node) bool {
				as, isa := x.(*ast.AssignStmt)
				if !isa || len(as.Lhs) != 1 || len(as.Rhs) != 1 {
					return true
				}
				if c, isc := as.Rhs[0].(*ast.CallExpr); isc && exprText(c.Fun) == "make" && len(c.Args) == 2 && strings.HasPrefix(exprText(c.Args[1]), "len(") {
					sized[exprText(as.Lhs[0])] = true
				}
				return true
			})
			stored, appended := false, false
			ast.Inspect(fd, func(x ast.Node) bool {
				fl, isf := x.(*ast.FuncLit)
				if !isf {
					return true
				}
				ast.Inspect(fl.Body, func(y ast.Node) bool {
					as, isa := y.(*ast.AssignStmt)
					if !isa || len(as.Lhs) != 1 || len(as.Rhs) != 1 {
						return true
					}
					if ix, isi := as.Lhs[0].(*ast.IndexExpr); isi && sized[exprText(ix.X)] {
						stored = true
						at = as
					}
					if c, isc := as.Rhs[0].(*ast.CallExpr); isc && exprText(c.Fun) == "append" {
						appended = true
					}
					return true
				})
				return true
			})
			ok = stored && !appended
		}
		emit("c01_indexes_by_position", ok, at, "pkg/apk/apk/index.go GetRepositoryIndexes: every goroutine stores its index at its own position of a slice as long as the repository list (no append in arrival order)")
	}
}
