package main

// C01: the canonicalisers proved order-invariant in Proofs/ReproProofs.v are
// only as good as the sort / set calls that implement them in the source.
// This generator CHECKS that those calls are present in the named functions
// (after the map range that fills the slice, with the expected comparator)
// and emits the results as booleans; Properties/C01.v requires all of them to
// be true, so deleting or moving a sort breaks the build of the property file.
// It also extracts the default environment table of BuildImageFromLayers.

import (
	"fmt"
	"go/ast"
	"go/token"
	"os"
	"path/filepath"
	"strings"
)

// c01Call: position of the first call in fd whose function prints as fun and
// whose first argument prints as arg0 ("" = any), starting after position `after`.
func c01Call(fd *ast.FuncDecl, fun, arg0 string, after token.Pos) (*ast.CallExpr, bool) {
	if fd == nil {
		return nil, false
	}
	var found *ast.CallExpr
	ast.Inspect(fd, func(n ast.Node) bool {
		c, ok := n.(*ast.CallExpr)
		if !ok || found != nil {
			return true
		}
		if exprText(c.Fun) != fun || c.Pos() <= after {
			return true
		}
		if arg0 != "" && (len(c.Args) == 0 || exprText(c.Args[0]) != arg0) {
			return true
		}
		found = c
		return true
	})
	return found, found != nil
}

// c01Range: end position of the first `for ... := range <x>` in fd.
func c01Range(fd *ast.FuncDecl, x string) (token.Pos, bool) {
	if fd == nil {
		return 0, false
	}
	var end token.Pos
	ok := false
	ast.Inspect(fd, func(n ast.Node) bool {
		r, isr := n.(*ast.RangeStmt)
		if !isr || ok {
			return true
		}
		if exprText(r.X) == x {
			end, ok = r.End(), true
		}
		return true
	})
	return end, ok
}

// c01Assigned: is there `lhs := fun(...)` / `lhs = fun(...)` in fd?
func c01Assigned(fd *ast.FuncDecl, lhs, fun string) bool {
	if fd == nil {
		return false
	}
	ok := false
	ast.Inspect(fd, func(n ast.Node) bool {
		as, isa := n.(*ast.AssignStmt)
		if !isa || len(as.Lhs) != 1 || len(as.Rhs) != 1 {
			return true
		}
		if exprText(as.Lhs[0]) != lhs {
			return true
		}
		if c, isc := as.Rhs[0].(*ast.CallExpr); isc && exprText(c.Fun) == fun {
			ok = true
		}
		return true
	})
	return ok
}

// c01LessBody: the single returned expression of a `func(i, j int) bool { return X }` literal.
func c01LessBody(e ast.Expr) string {
	fl, ok := e.(*ast.FuncLit)
	if !ok || len(fl.Body.List) != 1 {
		return ""
	}
	rs, ok := fl.Body.List[0].(*ast.ReturnStmt)
	if !ok || len(rs.Results) != 1 {
		return ""
	}
	return strings.Join(strings.Fields(exprText(rs.Results[0])), " ")
}

func c01NoCall(rel, fun string) bool {
	f := load(rel)
	if f == nil {
		return false
	}
	none := true
	ast.Inspect(f, func(n ast.Node) bool {
		if c, ok := n.(*ast.CallExpr); ok && exprText(c.Fun) == fun {
			none = false
		}
		return true
	})
	return none
}

// c01AppendedIn: names v such that the body of range statement r contains `v = append(v, ...)`.
func c01AppendedIn(r *ast.RangeStmt) []string {
	var out []string
	ast.Inspect(r.Body, func(n ast.Node) bool {
		as, ok := n.(*ast.AssignStmt)
		if !ok || len(as.Lhs) != 1 || len(as.Rhs) != 1 {
			return true
		}
		c, ok := as.Rhs[0].(*ast.CallExpr)
		if !ok || exprText(c.Fun) != "append" || len(c.Args) < 2 {
			return true
		}
		if exprText(c.Args[0]) == exprText(as.Lhs[0]) {
			out = append(out, exprText(as.Lhs[0]))
		}
		return true
	})
	return out
}

// c01NormLess: the returned expression of a comparator literal with the
// sorted slice and the two parameters renamed to S, I, J (so that renaming a
// local does not change the check).
func c01NormLess(e ast.Expr, slice string) string {
	fl, ok := e.(*ast.FuncLit)
	if !ok || len(fl.Body.List) != 1 {
		return ""
	}
	rs, ok := fl.Body.List[0].(*ast.ReturnStmt)
	if !ok || len(rs.Results) != 1 {
		return ""
	}
	var params []string
	for _, f := range fl.Type.Params.List {
		for _, n := range f.Names {
			params = append(params, n.Name)
		}
	}
	if len(params) != 2 {
		return ""
	}
	ren := map[string]string{slice: "S", params[0]: "I", params[1]: "J"}
	var b strings.Builder
	txt := strings.Join(strings.Fields(exprText(rs.Results[0])), " ")
	isId := func(c byte) bool {
		return c == '_' || c >= '0' && c <= '9' || c >= 'a' && c <= 'z' || c >= 'A' && c <= 'Z'
	}
	for i := 0; i < len(txt); {
		if isId(txt[i]) && (i == 0 || !isId(txt[i-1])) {
			j := i
			for j < len(txt) && isId(txt[j]) {
				j++
			}
			w := txt[i:j]
			if r, ok := ren[w]; ok && (i == 0 || txt[i-1] != '.') {
				w = r
			}
			b.WriteString(w)
			i = j
			continue
		}
		b.WriteByte(txt[i])
		i++
	}
	return b.String()
}

// c01SortedAfterFill: some `for ... range` in fd fills a slice v by append, and
// after that loop v is sorted by a call to sortFun (with the comparator, if
// given, equal to less after renaming). Returns the sort call.
func c01SortedAfterFill(fd *ast.FuncDecl, sortFun, less string) (*ast.CallExpr, bool) {
	return c01SortedAfterFillP(fd, sortFun, func(call *ast.CallExpr, v string) bool {
		if less == "" || len(call.Args) != 2 {
			return less == ""
		}
		got := c01NormLess(call.Args[1], v)
		if exprText(call.Fun) == sortFun {
			return got == less
		}
		// the same order written for slices.SortFunc: the comparator gets the elements, not the indices
		el := strings.NewReplacer("S[I]", "I", "S[J]", "J").Replace(less) // "I.String() < J.String()"
		if a, b, ok := strings.Cut(el, " < "); ok {
			return got == "strings.Compare("+a+", "+b+")" || got == "cmp.Compare("+a+", "+b+")"
		}
		return false
	})
}

// equivalent spellings of one sort: sort.Strings(v) = slices.Sort(v); sort.Slice(v, less) = slices.SortFunc(v, three-way form of less)
func c01SortAlternatives(sortFun string) []string {
	switch sortFun {
	case "sort.Strings":
		return []string{"sort.Strings", "slices.Sort"}
	case "sort.Slice":
		return []string{"sort.Slice", "slices.SortFunc"}
	}
	return []string{sortFun}
}

// c01CollectedFromMap: `v := slices.Collect(maps.Keys(m))` / maps.Values / slices.AppendSeq(v0, maps.Keys(m)) — the library form of
// "fill a slice by ranging over a map": names with the end position of the assignment
func c01CollectedFromMap(fd *ast.FuncDecl) map[string]token.Pos {
	out := map[string]token.Pos{}
	ast.Inspect(fd, func(n ast.Node) bool {
		as, ok := n.(*ast.AssignStmt)
		if !ok || len(as.Lhs) != 1 || len(as.Rhs) != 1 {
			return true
		}
		c, ok := as.Rhs[0].(*ast.CallExpr)
		if !ok {
			return true
		}
		f := exprText(c.Fun)
		var seq ast.Expr
		switch {
		case f == "slices.Collect" && len(c.Args) == 1:
			seq = c.Args[0]
		case f == "slices.AppendSeq" && len(c.Args) == 2:
			seq = c.Args[1]
		}
		if sc, ok := seq.(*ast.CallExpr); ok {
			if g := exprText(sc.Fun); (g == "maps.Keys" || g == "maps.Values") && len(sc.Args) == 1 {
				out[exprText(as.Lhs[0])] = as.End()
			}
		}
		return true
	})
	return out
}

func c01SortedAfterFillP(fd *ast.FuncDecl, sortFun string, accept func(call *ast.CallExpr, v string) bool) (*ast.CallExpr, bool) {
	if fd == nil {
		return nil, false
	}
	var found *ast.CallExpr
	try := func(v string, after token.Pos) bool {
		for _, sf := range c01SortAlternatives(sortFun) {
			if call, ok := c01Call(fd, sf, v, after); ok && accept(call, v) {
				found = call
				return true
			}
		}
		return false
	}
	ast.Inspect(fd, func(n ast.Node) bool {
		r, ok := n.(*ast.RangeStmt)
		if !ok || found != nil {
			return true
		}
		for _, v := range c01AppendedIn(r) {
			if try(v, r.End()) {
				return false
			}
		}
		return true
	})
	if found == nil {
		for v, end := range c01CollectedFromMap(fd) {
			if try(v, end) {
				break
			}
		}
	}
	return found, found != nil
}

func c01FromSetsList(fd *ast.FuncDecl, method string, idx int) bool {
	if fd == nil {
		return false
	}
	ok := false
	ast.Inspect(fd, func(n ast.Node) bool {
		c, isc := n.(*ast.CallExpr)
		if !isc || ok {
			return true
		}
		sel, iss := c.Fun.(*ast.SelectorExpr)
		if !iss || sel.Sel.Name != method || idx >= len(c.Args) {
			return true
		}
		arg := exprText(c.Args[idx])
		if strings.HasSuffix(arg, "...") {
			arg = strings.TrimSuffix(arg, "...")
		}
		if c01Assigned(fd, arg, "sets.List") {
			ok = true
		}
		return true
	})
	return ok
}
func genC01() {
	g := newGen("C01Calls", "From Coq Require Import String List Bool.\nImport ListNotations.\nOpen Scope string_scope.\n")
	var names []string
	emit := func(name string, ok bool, where ast.Node, what string) {
		v := "false"
		if ok {
			v = "true"
		}
		p := "not found"
		if where != nil {
			p = g.pos(where)
		}
		g.def(name, "bool", v, what+" ["+p+"]")
		names = append(names, name)
	}
	node := func(c *ast.CallExpr, fd *ast.FuncDecl) ast.Node {
		if c != nil {
			return c
		}
		if fd != nil {
			return fd
		}
		return nil
	}
	// "a range loop fills a slice by append; the slice is sorted after the loop"
	// (the names of locals do not matter)
	filled := func(name, rel, recv, fn, sortFun, less, what string) {
		fd := findFunc(rel, recv, fn)
		call, ok := c01SortedAfterFill(fd, sortFun, less)
		emit(name, ok, node(call, fd), rel+" "+fn+": "+what)
	}
	filled("c01_env_sorted", "pkg/build/oci/image.go", "", "BuildImageFromLayers", "sort.Strings", "", "the slice filled by ranging over the environment map is sorted (sort.Strings) after the loop")
	filled("c01_index_archs_sorted", "pkg/build/oci/index.go", "", "generateIndexWithMediaType", "sort.Slice", "S[I].String() < S[J].String()", "the architectures collected from the image map are sorted by String() <")
	filled("c01_sbom_archs_sorted", "pkg/build/sbom.go", "", "GenerateIndexSBOM", "sort.Slice", "S[I].String() < S[J].String()", "the architectures collected from the image map are sorted by String() <")
	filled("c01_readdir_sorted", "pkg/tarfs/fs.go", "memFS", "ReadDir", "sort.Slice", "S[I].Name() < S[J].Name()", "the entries collected from the children map are sorted by Name() <")
	filled("c01_installed_dirs_sorted", "pkg/apk/apk/installed.go", "", "sortTarHeaders", "sort.Strings", "", "the keys collected from directoryChildren are sorted (sort.Strings)")
	{
		fd := findFunc("pkg/build/layers.go", "", "groupByOriginAndSize")
		// the slice of groups: filled by ranging over maps.Values(<map>)
		isGroups := func(call *ast.CallExpr, v string) bool { return !strings.Contains(v, ".") }
		call, ok := c01SortedAfterFillP(fd, "slices.SortFunc", isGroups)
		emit("c01_groups_sorted", ok, node(call, fd), "layers.go groupByOriginAndSize: the groups collected from the byOrigin map are sorted (slices.SortFunc) after the loop")
		okc := false
		if call != nil && len(call.Args) == 2 {
			txt := c01NormLess(call.Args[1], exprText(call.Args[0]))
			i1, i2 := strings.Index(txt, "cmp.Compare(J.size, I.size)"), strings.Index(txt, "cmp.Compare(I.tiebreaker, J.tiebreaker)")
			okc = strings.HasPrefix(txt, "cmp.Or(") && i1 >= 0 && i2 > i1
		}
		emit("c01_groups_comparator", okc, node(call, fd), "layers.go groupByOriginAndSize: comparator is size descending, then tiebreaker ascending")
		// slices.SortFunc(<x>.pkgs, by Name)
		var pk *ast.CallExpr
		tb := false
		if fd != nil {
			ast.Inspect(fd, func(n ast.Node) bool {
				switch x := n.(type) {
				case *ast.CallExpr:
					if exprText(x.Fun) == "slices.SortFunc" && len(x.Args) == 2 && strings.HasSuffix(exprText(x.Args[0]), ".pkgs") &&
						c01NormLess(x.Args[1], "") == "cmp.Compare(I.Name, J.Name)" {
						pk = x
					}
				case *ast.AssignStmt:
					if len(x.Lhs) == 1 && len(x.Rhs) == 1 && strings.HasSuffix(exprText(x.Lhs[0]), ".tiebreaker") {
						l := exprText(x.Lhs[0])
						r := strings.Join(strings.Fields(exprText(x.Rhs[0])), " ")
						if strings.HasPrefix(r, "max("+l+", ") && strings.HasSuffix(r, ".Name)") {
							tb = true
						}
					}
				}
				return true
			})
		}
		emit("c01_group_pkgs_sorted", pk != nil, node(pk, fd), "layers.go groupByOriginAndSize: each group's packages are sorted by Name")
		emit("c01_group_tiebreaker_is_max_name", tb, fd, "layers.go groupByOriginAndSize: <g>.tiebreaker = max(<g>.tiebreaker, <pkg>.Name)")
	}
	{
		fd := findFunc("pkg/apk/apk/installed.go", "", "sortChildrenTarHeaders")
		var call *ast.CallExpr
		if fd != nil && len(fd.Type.Params.List) == 3 && len(fd.Type.Params.List[2].Names) == 1 {
			call, _ = c01Call(fd, "sort.Strings", fd.Type.Params.List[2].Names[0].Name, 0)
		}
		emit("c01_installed_children_sorted", call != nil, node(call, fd), "installed.go sortChildrenTarHeaders: the children parameter is sorted (sort.Strings) first")
	}
	{
		fd := findFunc("pkg/apk/apk/world.go", "APK", "SetWorld")
		call, ok := c01Call(fd, "sort.Strings", "", 0)
		okj := false
		if ok && len(call.Args) == 1 {
			_, okj = c01Call(fd, "strings.Join", exprText(call.Args[0]), call.End())
		}
		emit("c01_world_sorted", ok && okj, node(call, fd), "world.go SetWorld: the slice that is joined into etc/apk/world is sorted (sort.Strings) before")
	}
	{
		fd := findFunc("pkg/build/apk.go", "Context", "initializeApk")
		emit("c01_build_repos_set", c01FromSetsList(fd, "InitDB", 1) && c01FromSetsList(fd, "SetRepositories", 1), fd, "apk.go initializeApk: InitDB / SetRepositories get a sets.List(...)")
		emit("c01_keyring_set", c01FromSetsList(fd, "InitKeyring", 1), fd, "apk.go initializeApk: InitKeyring gets a sets.List(...)")
		emit("c01_packages_set", c01FromSetsList(fd, "SetWorld", 1), fd, "apk.go initializeApk: SetWorld gets a sets.List(...) (plus base image packages)")
		fd2 := findFunc("pkg/build/apk.go", "Context", "postBuildSetApk")
		emit("c01_runtime_repos_set", c01FromSetsList(fd2, "SetRepositories", 1), fd2, "apk.go postBuildSetApk: SetRepositories gets a sets.List(...)")
	}
	{
		fd := findFunc("pkg/build/build.go", "Context", "GetBuildDateEpoch")
		call, ok := c01Call(fd, "os.LookupEnv", `"SOURCE_DATE_EPOCH"`, 0)
		okAfter := false
		if fd != nil {
			ast.Inspect(fd, func(n ast.Node) bool {
				if c, isc := n.(*ast.CallExpr); isc && strings.HasSuffix(exprText(c.Fun), ".BuildTime.After") {
					okAfter = true
				}
				return true
			})
		}
		emit("c01_bde_env_first", ok && okAfter, node(call, fd), "build.go GetBuildDateEpoch: os.LookupEnv(SOURCE_DATE_EPOCH) decides, otherwise the maximum by <p>.BuildTime.After")
		fd2 := findFunc("internal/cli/build.go", "", "buildImageComponents")
		ok2 := false
		if fd2 != nil {
			ast.Inspect(fd2, func(n ast.Node) bool {
				is, isif := n.(*ast.IfStmt)
				if !isif || ok2 {
					return true
				}
				c, isc := is.Cond.(*ast.CallExpr)
				if !isc || len(c.Args) != 1 || !strings.HasSuffix(exprText(c.Fun), ".After") || len(is.Body.List) != 1 {
					return true
				}
				x := strings.TrimSuffix(exprText(c.Fun), ".After")
				y := exprText(c.Args[0])
				if as, isa := is.Body.List[0].(*ast.AssignStmt); isa && len(as.Lhs) == 1 && exprText(as.Lhs[0]) == y && exprText(as.Rhs[0]) == x {
					ok2 = true
				}
				return true
			})
		}
		emit("c01_multiarch_bde_is_max", ok2, fd2, "internal/cli/build.go buildImageComponents: if <bde>.After(<m>) { <m> = <bde> }")
	}
	{
		fd := findFunc("pkg/apk/apk/implementation.go", "APK", "InstallPackages")
		okR := false
		if fd != nil {
			ast.Inspect(fd, func(n ast.Node) bool {
				r, isr := n.(*ast.RangeStmt)
				if !isr || okR || r.Value == nil {
					return true
				}
				v := exprText(r.Value)
				ast.Inspect(r.Body, func(m ast.Node) bool {
					if u, isu := m.(*ast.UnaryExpr); isu && u.Op == token.ARROW && exprText(u.X) == v {
						okR = true
					}
					return true
				})
				return true
			})
		}
		emit("c01_installer_in_index_order", okR, fd, "implementation.go InstallPackages: one loop receives from the per-package channels in slice (index) order")
	}
	// no wall clock in the files that produce image bytes
	var clockFiles []string
	for _, pat := range []string{"pkg/build/*.go", "pkg/build/oci/*.go", "pkg/tarfs/*.go", "pkg/apk/apk/installed.go", "pkg/apk/apk/world.go", "pkg/apk/apk/package.go", "pkg/sbom/generator/spdx/*.go", "pkg/lock/*.go", "pkg/s6/*.go", "pkg/passwd/*.go"} {
		ms, _ := filepath.Glob(filepath.Join(*repo, pat))
		for _, m := range ms {
			rel, _ := filepath.Rel(*repo, m)
			if strings.HasSuffix(rel, "_test.go") || strings.HasSuffix(rel, "_verif.go") || rel == "pkg/build/busybox_gen_versions.go" {
				continue
			}
			if _, err := os.Stat(m); err == nil {
				clockFiles = append(clockFiles, rel)
			}
		}
	}
	if len(clockFiles) < 20 {
		fail("C01: only %d source files found for the wall-clock scan", len(clockFiles))
	}
	bad := []string{}
	for _, rel := range clockFiles {
		if !c01NoCall(rel, "time.Now") || !c01NoCall(rel, "time.Since") {
			bad = append(bad, rel)
		}
	}
	g.def("c01_no_wall_clock", "bool", map[bool]string{true: "true", false: "false"}[len(bad) == 0],
		fmt.Sprintf("no call to time.Now / time.Since in %d image-producing source files; offenders: %v", len(clockFiles), bad))
	names = append(names, "c01_no_wall_clock")

	// default environment of BuildImageFromLayers: the composite literal ranged over
	{
		fd := findFunc("pkg/build/oci/image.go", "", "BuildImageFromLayers")
		var pairs []string
		if fd != nil {
			ast.Inspect(fd, func(n ast.Node) bool {
				r, ok := n.(*ast.RangeStmt)
				if !ok || pairs != nil {
					return true
				}
				cl, ok := r.X.(*ast.CompositeLit)
				if !ok {
					return true
				}
				for _, el := range cl.Elts {
					kv, ok := el.(*ast.KeyValueExpr)
					if !ok {
						continue
					}
					k, ok1 := strLit(kv.Key)
					v, ok2 := strLit(kv.Value)
					if ok1 && ok2 {
						pairs = append(pairs, "("+coqStr(k)+", "+coqStr(v)+")")
					}
				}
				return true
			})
		}
		if len(pairs) == 0 {
			fail("C01: default environment literal not found in BuildImageFromLayers")
		}
		g.def("c01_env_defaults", "list (string * string)", "["+strings.Join(pairs, "; ")+"]", "image.go BuildImageFromLayers: defaults added when the configuration does not set them")
	}
	g.def("c01_calls", "list (string * bool)", "["+strings.Join(func() []string {
		out := make([]string, len(names))
		for i, n := range names {
			out[i] = "(" + coqStr(n) + ", " + n + ")"
		}
		return out
	}(), "; ")+"]", "every check above, by name")
	g.write()
}
