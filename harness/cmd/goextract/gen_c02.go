package main

// C02: Generated/C02Resolver.v — conflictingVersion, pick and disqualifyConflicts
// of pkg/apk/apk/repo.go TRANSLATED statement by statement into Gallina over the
// data types of Model/Resolver.v (cpkg, cstr, constraint, the association lists
// behind `selected`, the name map and the disqualification set).
// Proofs/ResolveGenerated.v proves each translation equal to the hand-written
// model function (conflicting_version, pick, disqualify_conflicts); a change of
// one of these functions in /repo therefore breaks a proof obligation of C02,
// not only the correspondence (seeded changes C02-4, C02-5).
//
// The translator covers the small subset of Go these three functions are written
// in, and resolves identifiers by what they are bound to (parameters by position,
// locals by their defining statement), so renaming, reordering of independent
// statements, else-branches, extra parentheses and the like give a term that is
// still provably equal or — if the behaviour changed — not.  What it cannot
// translate is a broken tie (fail), never skipped:
//   if [v, ok := M[k];] cond { } [else { }]     for _, x := range list { }
//   v, ok := M[k] followed by `if !ok { ... }`   x := cachedResolvePackageNameVersionPin(s)
//   M[k] = v      p.disqualify(dq, x, reason)    return ...   continue   panic(...)
//   ==  !=  &&  ||  !  string literals, field selections on the bound objects.

import (
	"fmt"
	"go/ast"
	"go/token"
	"strings"
)

type c02Kind int

const (
	c02Str c02Kind = iota
	c02Bool
	c02Constraint // a `constraint` record: term of type constraint
	c02Cstr       // a parsed provide: term of type cstr (fields through s_name / s_version, the record through s_c)
	c02Raw        // the raw string of a provide, standing for the cstr it was cooked into
	c02Cpkg       // term of type cpkg
	c02Pid        // term of type pid (fields through getp R)
	c02ListCstr
	c02ListPid
	c02Sel   // p.selected
	c02Names // p.nameMap
	c02Dq    // dq
	c02Err
	c02Nil
	c02Recv
	c02OptBool // result of conflictingVersion
	c02RawDep  // an entry of a dependency list / the world, standing for the cdep it was cooked into
	c02ListDep
	c02Dep  // the operator of a constraint (Z)
	c02Mver // a parsed version
)

type c02Val struct {
	k c02Kind
	t string
	parse string // for a version string: the term of its parse (option mver)
}

type c02Tr struct {
	setAdd  bool // disqualify / dq[x] = ... translate to dq_add (no membership test stands before them)
	fn      string
	env     map[string]c02Val
	ret     string // "bool" | "error" | "none"
	state   string // "" | "sel" | "dq"
	stateTy string
	resTy   string
	nloop   int
	ok      bool
}

func (t *c02Tr) bad(n ast.Node, why string) string {
	if t.ok {
		fail("pkg/apk/apk/repo.go: %s: %s: cannot translate `%s`", t.fn, why, strings.Join(strings.Fields(exprText(n)), " "))
	}
	t.ok = false
	return "BROKEN"
}

func (t *c02Tr) field(x c02Val, sel string, n ast.Node) c02Val {
	switch x.k {
	case c02Constraint:
		switch sel {
		case "Name":
			return c02Val{k: c02Str, t: "(c_name " + x.t + ")"}
		case "version":
			return c02Val{k: c02Str, t: "(c_version " + x.t + ")"}
		}
	case c02Cstr:
		switch sel {
		case "Name":
			return c02Val{k: c02Str, t: "(s_name " + x.t + ")"}
		case "version":
			return c02Val{k: c02Str, t: "(s_version " + x.t + ")", parse: "(s_req " + x.t + ")"}
		case "dep":
			return c02Val{k: c02Dep, t: "(s_dep " + x.t + ")"}
		}
	case c02Cpkg:
		switch sel {
		case "Name":
			return c02Val{k: c02Str, t: "(k_name " + x.t + ")"}
		case "Version":
			return c02Val{k: c02Str, t: "(k_version " + x.t + ")"}
		case "Provides":
			return c02Val{k: c02ListCstr, t: "(k_provs " + x.t + ")"}
		case "RepositoryPackage", "Package":
			return x
		}
	case c02Pid:
		switch sel {
		case "Name":
			return c02Val{k: c02Str, t: "(k_name (getp R " + x.t + "))"}
		case "Version":
			return c02Val{k: c02Str, t: "(k_version (getp R " + x.t + "))", parse: "(k_ver (getp R " + x.t + "))"}
		case "Provides":
			return c02Val{k: c02ListCstr, t: "(k_provs (getp R " + x.t + "))"}
		case "RepositoryPackage", "Package":
			return x
		}
	case c02Recv:
		switch sel {
		case "selected":
			return c02Val{k: c02Sel, t: "sel"}
		case "nameMap":
			return c02Val{k: c02Names, t: "(r_names R)"}
		}
	}
	return c02Val{k: c02Err, t: t.bad(n, "field "+sel)}
}

func c02Rank(t string) int {
	switch {
	case strings.HasPrefix(t, "\""), t == "dep_versionAny":
		return 2
	case t == "i":
		return 1
	}
	return 0
}

func c02IsCall(e ast.Expr, name string) (*ast.CallExpr, bool) {
	c, ok := e.(*ast.CallExpr)
	if !ok {
		return nil, false
	}
	switch f := c.Fun.(type) {
	case *ast.Ident:
		return c, f.Name == name
	case *ast.SelectorExpr:
		return c, f.Sel.Name == name
	}
	return c, false
}

func (t *c02Tr) expr(e ast.Expr) c02Val {
	switch x := e.(type) {
	case *ast.ParenExpr:
		return t.expr(x.X)
	case *ast.BasicLit:
		if s, ok := strLit(x); ok {
			return c02Val{k: c02Str, t: coqStr(s)}
		}
	case *ast.Ident:
		switch x.Name {
		case "nil":
			return c02Val{k: c02Nil, t: ""}
		case "true", "false":
			return c02Val{k: c02Bool, t: x.Name}
		}
		if v, ok := t.env[x.Name]; ok {
			return v
		}
		if x.Name == "versionAny" {
			return c02Val{k: c02Dep, t: "dep_versionAny"}
		}
	case *ast.SliceExpr:
		// dep[1:] under strings.HasPrefix(dep, "!")
		if id, ok := x.X.(*ast.Ident); ok && x.High == nil && x.Max == nil {
			if lo, isLit := intLit(x.Low); isLit && lo == 1 {
				if v, bound := t.env["!rest:"+id.Name]; bound {
					return v
				}
			}
		}
	case *ast.SelectorExpr:
		return t.field(t.expr(x.X), x.Sel.Name, e)
	case *ast.UnaryExpr:
		if x.Op == token.NOT {
			v := t.expr(x.X)
			if v.k == c02Bool {
				return c02Val{k: c02Bool, t: "(negb " + v.t + ")"}
			}
		}
	case *ast.BinaryExpr:
		a, b := t.expr(x.X), t.expr(x.Y)
		switch x.Op {
		case token.EQL, token.NEQ:
			// == is symmetric: one operand order for every way of writing it (literals and the
			// function's own package last, otherwise by text), so `"" == v` and `v == ""` give one term
			if c02Rank(a.t) > c02Rank(b.t) || c02Rank(a.t) == c02Rank(b.t) && a.t < b.t {
				a, b = b, a
			}
			var eq string
			switch {
			case a.k == c02Str && b.k == c02Str:
				eq = "(String.eqb " + a.t + " " + b.t + ")"
			case a.k == c02Pid && b.k == c02Pid:
				eq = "(Nat.eqb " + a.t + " " + b.t + ")"
			case a.k == c02Dep && b.k == c02Dep:
				eq = "(Z.eqb " + a.t + " " + b.t + ")"
			default:
				return c02Val{k: c02Err, t: t.bad(e, "comparison of these operands")}
			}
			if x.Op == token.NEQ {
				eq = "(negb " + eq + ")"
			}
			return c02Val{k: c02Bool, t: eq}
		case token.LAND, token.LOR:
			if a.k == c02Bool && b.k == c02Bool {
				op := "andb"
				if x.Op == token.LOR {
					op = "orb"
				}
				return c02Val{k: c02Bool, t: "(" + op + " " + a.t + " " + b.t + ")"}
			}
		}
	case *ast.CallExpr:
		if c, ok := c02IsCall(e, "cachedResolvePackageNameVersionPin"); ok && len(c.Args) == 1 {
			switch v := t.expr(c.Args[0]); v.k {
			case c02Raw:
				return c02Val{k: c02Cstr, t: v.t}
			case c02RawDep:
				return c02Val{k: c02Cstr, t: "(d_pos " + v.t + ")"}
			}
		}
		if c, ok := c02IsCall(e, "conflictingVersion"); ok && len(c.Args) == 2 {
			a, b := t.expr(c.Args[0]), t.expr(c.Args[1])
			ct := a.t
			if a.k == c02Cstr {
				ct = "(s_c " + a.t + ")"
			} else if a.k != c02Constraint {
				return c02Val{k: c02Err, t: t.bad(e, "first argument of conflictingVersion")}
			}
			kt := b.t
			if b.k == c02Pid {
				kt = "(getp R " + b.t + ")"
			} else if b.k != c02Cpkg {
				return c02Val{k: c02Err, t: t.bad(e, "second argument of conflictingVersion")}
			}
			return c02Val{k: c02OptBool, t: "(gen_conflicting_version " + ct + " " + kt + ")"}
		}
		if c, ok := c02IsCall(e, "satisfies"); ok && len(c.Args) == 2 {
			if f, isSel := c.Fun.(*ast.SelectorExpr); isSel {
				d, a, b := t.expr(f.X), t.expr(c.Args[0]), t.expr(c.Args[1])
				if d.k == c02Dep && a.k == c02Mver && b.k == c02Mver {
					return c02Val{k: c02Bool, t: "(satisfies " + d.t + " " + a.t + " " + b.t + ")"}
				}
			}
		}
		if _, ok := c02IsCall(e, "Errorf"); ok {
			return c02Val{k: c02Err, t: ""}
		}
		if _, ok := c02IsCall(e, "New"); ok {
			return c02Val{k: c02Err, t: ""}
		}
	}
	return c02Val{k: c02Err, t: t.bad(e, "expression")}
}

// v, ok := M[k]  /  _, ok := M[k]
func (t *c02Tr) commaOk(s ast.Stmt) (v, ok string, m, key c02Val, is bool) {
	as, isA := s.(*ast.AssignStmt)
	if !isA || as.Tok != token.DEFINE || len(as.Lhs) != 2 || len(as.Rhs) != 1 {
		return
	}
	ix, isI := as.Rhs[0].(*ast.IndexExpr)
	if !isI {
		return
	}
	a, aok := as.Lhs[0].(*ast.Ident)
	b, bok := as.Lhs[1].(*ast.Ident)
	if !aok || !bok {
		return
	}
	return a.Name, b.Name, t.expr(ix.X), t.expr(ix.Index), true
}

func (t *c02Tr) terminates(l []ast.Stmt) bool {
	if len(l) == 0 {
		return false
	}
	switch s := l[len(l)-1].(type) {
	case *ast.ReturnStmt:
		return true
	case *ast.BranchStmt:
		return s.Tok == token.CONTINUE
	case *ast.ExprStmt:
		_, p := c02IsCall(s.X, "panic")
		return p
	case *ast.IfStmt:
		if s.Else == nil {
			return false
		}
		eb, ok := s.Else.(*ast.BlockStmt)
		return ok && t.terminates(s.Body.List) && t.terminates(eb.List)
	}
	return false
}

func (t *c02Tr) withVar(name string, v c02Val, f func() string) string {
	old, had := t.env[name]
	if name != "_" {
		t.env[name] = v
	}
	r := f()
	if had {
		t.env[name] = old
	} else {
		delete(t.env, name)
	}
	return r
}

// lookup: the match on a map access; some(v) / none give the branches
func (t *c02Tr) lookup(n ast.Node, m, key c02Val, v string, some, none func() string) string {
	switch m.k {
	case c02Sel:
		if key.k != c02Str {
			return t.bad(n, "key of selected")
		}
		nm := "_"
		if v != "_" {
			nm = "g_" + v
		}
		return "(match alookup " + key.t + " sel with Some " + nm + " => " + t.withVar(v, c02Val{k: c02Pid, t: nm}, some) + " | None => " + none() + " end)"
	case c02Names:
		if key.k != c02Str {
			return t.bad(n, "key of nameMap")
		}
		nm := "_"
		if v != "_" {
			nm = "g_" + v
		}
		return "(match alookup " + key.t + " (r_names R) with Some " + nm + " => " + t.withVar(v, c02Val{k: c02ListPid, t: nm}, some) + " | None => " + none() + " end)"
	case c02Dq:
		if key.k != c02Pid || v != "_" {
			return t.bad(n, "use of dq")
		}
		return "(if mem_pid " + key.t + " dq then " + some() + " else " + none() + ")"
	}
	return t.bad(n, "map access")
}

func (t *c02Tr) condIf(n ast.Node, cond ast.Expr, then, els func() string) string {
	// a call of conflictingVersion, possibly negated, as the whole condition
	neg := false
	c := cond
	for {
		if p, ok := c.(*ast.ParenExpr); ok {
			c = p.X
			continue
		}
		if u, ok := c.(*ast.UnaryExpr); ok && u.Op == token.NOT {
			if _, isCV := c02IsCall(u.X, "conflictingVersion"); isCV {
				neg = !neg
				c = u.X
				continue
			}
		}
		break
	}
	if _, isCV := c02IsCall(c, "conflictingVersion"); isCV {
		v := t.expr(c)
		a, b := then(), els()
		if neg {
			a, b = b, a
		}
		return "(match " + v.t + " with None => Panic | Some true => " + a + " | Some false => " + b + " end)"
	}
	if hp, isHP := c02IsCall(c, "HasPrefix"); isHP && len(hp.Args) == 2 {
		if id, isId := hp.Args[0].(*ast.Ident); isId {
			if lit, isLit := strLit(hp.Args[1]); isLit && lit == "!" {
				if d := t.expr(id); d.k == c02RawDep {
					nm := "g_rest_" + id.Name
					th := t.withVar("!rest:"+id.Name, c02Val{k: c02Raw, t: nm}, then)
					return "(match d_neg " + d.t + " with Some " + nm + " => " + th + " | None => " + els() + " end)"
				}
			}
		}
	}
	v := t.expr(cond)
	if v.k != c02Bool {
		return t.bad(n, "condition")
	}
	return "(if " + v.t + " then " + then() + " else " + els() + ")"
}

// tr translates a statement list; k() is the term for falling off its end
func (t *c02Tr) tr(l []ast.Stmt, k func() string) string {
	if len(l) == 0 {
		return k()
	}
	rest := func() string { return t.tr(l[1:], k) }
	switch s := l[0].(type) {
	case *ast.EmptyStmt:
		return rest()
	case *ast.ReturnStmt:
		switch t.ret {
		case "bool":
			if len(s.Results) == 1 {
				if v := t.expr(s.Results[0]); v.k == c02Bool {
					return "(Some " + v.t + ")"
				}
			}
		case "error":
			if len(s.Results) == 1 {
				switch v := t.expr(s.Results[0]); v.k {
				case c02Nil:
					return "(Ok " + t.state + ")"
				case c02Err:
					if v.t == "" {
						return "Err"
					}
				}
			}
		case "none":
			if len(s.Results) == 0 {
				return "(Ok " + t.state + ")"
			}
		}
		return t.bad(s, "return")
	case *ast.BranchStmt:
		if s.Tok == token.CONTINUE && s.Label == nil && t.nloop > 0 {
			return t.env["continue"].t
		}
		return t.bad(s, "branch")
	case *ast.ExprStmt:
		if _, ok := c02IsCall(s.X, "panic"); ok {
			if t.ret == "bool" {
				return "None"
			}
			return "Panic"
		}
		if c, ok := c02IsCall(s.X, "disqualify"); ok && len(c.Args) == 3 && t.state == "dq" {
			d, x := t.expr(c.Args[0]), t.expr(c.Args[1])
			if d.k == c02Dq && x.k == c02Pid {
				if t.setAdd {
					return "(let dq := dq_add " + x.t + " dq in " + rest() + ")"
				}
				return "(let dq := " + x.t + " :: dq in " + rest() + ")"
			}
		}
		if c, ok := c02IsCall(s.X, "disqualifyProviders"); ok && len(c.Args) == 2 && t.state == "dq" {
			x, d := t.expr(c.Args[0]), t.expr(c.Args[1])
			if d.k == c02Dq && x.k == c02Raw {
				return "(let dq := disqualify_providers R " + x.t + " dq in " + rest() + ")"
			}
		}
		return t.bad(s, "statement")
	case *ast.AssignStmt:
		// x := cachedResolvePackageNameVersionPin(raw)
		if s.Tok == token.DEFINE && len(s.Lhs) == 1 && len(s.Rhs) == 1 {
			if id, ok := s.Lhs[0].(*ast.Ident); ok {
				v := t.expr(s.Rhs[0])
				if v.k == c02Cstr || v.k == c02Str || v.k == c02Bool || v.k == c02Pid {
					return t.withVar(id.Name, v, rest)
				}
			}
			return t.bad(s, "definition")
		}
		// M[k] = v
		if s.Tok == token.ASSIGN && len(s.Lhs) == 1 && len(s.Rhs) == 1 {
			if ix, ok := s.Lhs[0].(*ast.IndexExpr); ok && t.state == "dq" && t.setAdd {
				if m, key := t.expr(ix.X), t.expr(ix.Index); m.k == c02Dq && key.k == c02Pid {
					return "(let dq := dq_add " + key.t + " dq in " + rest() + ")"
				}
			}
			if ix, ok := s.Lhs[0].(*ast.IndexExpr); ok && t.state == "sel" {
				m, key, v := t.expr(ix.X), t.expr(ix.Index), t.expr(s.Rhs[0])
				if m.k == c02Sel && key.k == c02Str && v.k == c02Pid {
					return "(let sel := aset " + key.t + " " + v.t + " sel in " + rest() + ")"
				}
			}
			return t.bad(s, "assignment")
		}
		// v, err := cachedParseVersion(s) followed by if err != nil { ... }
		if s.Tok == token.DEFINE && len(s.Lhs) == 2 && len(s.Rhs) == 1 && len(l) > 1 {
			if c, isPV := c02IsCall(s.Rhs[0], "cachedParseVersion"); isPV && len(c.Args) == 1 {
				vid, ok1 := s.Lhs[0].(*ast.Ident)
				eid, ok2 := s.Lhs[1].(*ast.Ident)
				nxt, isIf := l[1].(*ast.IfStmt)
				arg := t.expr(c.Args[0])
				if ok1 && ok2 && isIf && nxt.Init == nil && nxt.Else == nil && arg.k == c02Str && arg.parse != "" {
					if be, isB := nxt.Cond.(*ast.BinaryExpr); isB && be.Op == token.NEQ {
						x, xok := be.X.(*ast.Ident)
						y, yok := be.Y.(*ast.Ident)
						if xok && yok && x.Name == eid.Name && y.Name == "nil" {
							after := func() string { return t.tr(l[2:], k) }
							nm := "g_" + vid.Name
							failed := t.tr(nxt.Body.List, after)
							good := t.withVar(vid.Name, c02Val{k: c02Mver, t: nm}, after)
							return "(match " + arg.parse + " with None => " + failed + " | Some " + nm + " => " + good + " end)"
						}
					}
				}
				return t.bad(s, "use of cachedParseVersion")
			}
		}
		// v, ok := M[k] followed by if !ok { ... } (or if ok { ... })
		if v, okName, m, key, is := t.commaOk(s); is && len(l) > 1 {
			if nxt, isIf := l[1].(*ast.IfStmt); isIf && nxt.Init == nil {
				after := func() string { return t.tr(l[2:], k) }
				body := func() string { return t.tr(nxt.Body.List, after) }
				els := after
				if nxt.Else != nil {
					eb, isB := nxt.Else.(*ast.BlockStmt)
					if !isB {
						return t.bad(nxt, "else-if after a map access")
					}
					els = func() string { return t.tr(eb.List, after) }
				}
				c := nxt.Cond
				if p, isP := c.(*ast.ParenExpr); isP {
					c = p.X
				}
				if u, isU := c.(*ast.UnaryExpr); isU && u.Op == token.NOT {
					if id, isId := u.X.(*ast.Ident); isId && id.Name == okName {
						return t.lookup(s, m, key, v, els, body)
					}
				}
				if id, isId := c.(*ast.Ident); isId && id.Name == okName {
					return t.lookup(s, m, key, v, body, els)
				}
			}
		}
		return t.bad(s, "assignment")
	case *ast.IfStmt:
		then := func() string { return t.tr(s.Body.List, rest) }
		els := rest
		if s.Else != nil {
			switch e := s.Else.(type) {
			case *ast.BlockStmt:
				els = func() string { return t.tr(e.List, rest) }
			case *ast.IfStmt:
				els = func() string { return t.tr([]ast.Stmt{e}, rest) }
			}
		}
		if s.Init != nil {
			v, okName, m, key, is := t.commaOk(s.Init)
			if !is {
				return t.bad(s, "if-initialiser")
			}
			c := s.Cond
			if p, isP := c.(*ast.ParenExpr); isP {
				c = p.X
			}
			if id, isId := c.(*ast.Ident); isId && id.Name == okName {
				return t.lookup(s, m, key, v, then, els)
			}
			if u, isU := c.(*ast.UnaryExpr); isU && u.Op == token.NOT {
				if id, isId := u.X.(*ast.Ident); isId && id.Name == okName {
					return t.lookup(s, m, key, v, els, then)
				}
			}
			return t.bad(s, "condition after a map access")
		}
		return t.condIf(s, s.Cond, then, els)
	case *ast.RangeStmt:
		if s.Tok != token.DEFINE || s.Value == nil {
			return t.bad(s, "range form")
		}
		if kid, ok := s.Key.(*ast.Ident); !ok || kid.Name != "_" {
			return t.bad(s, "range key")
		}
		vid, ok := s.Value.(*ast.Ident)
		if !ok {
			return t.bad(s, "range value")
		}
		lst := t.expr(s.X)
		var elTy string
		var el c02Val
		t.nloop++
		n := t.nloop
		x := fmt.Sprintf("g_%s%d", vid.Name, n)
		switch lst.k {
		case c02ListCstr:
			elTy, el = "cstr", c02Val{k: c02Raw, t: x}
		case c02ListPid:
			elTy, el = "pid", c02Val{k: c02Pid, t: x}
		case c02ListDep:
			elTy, el = "cdep", c02Val{k: c02RawDep, t: x}
		default:
			return t.bad(s, "range over")
		}
		loop, lv := fmt.Sprintf("loop%d", n), fmt.Sprintf("l%d", n)
		cont := "(" + loop + " " + lv + "'"
		sig, arg := "", ""
		if t.state != "" {
			cont += " " + t.state
			sig = " (" + t.state + " : " + t.stateTy + ")"
			arg = " " + t.state
		}
		cont += ")"
		after := rest()
		oldC, hadC := t.env["continue"]
		t.env["continue"] = c02Val{k: c02Err, t: cont}
		body := t.withVar(vid.Name, el, func() string { return t.tr(s.Body.List, func() string { return cont }) })
		if hadC {
			t.env["continue"] = oldC
		} else {
			delete(t.env, "continue")
		}
		return fmt.Sprintf("((fix %s (%s : list %s)%s {struct %s} : %s :=\n    match %s with\n    | [] => %s\n    | %s :: %s' => %s\n    end) %s%s)",
			loop, lv, elTy, sig, lv, t.resTy, lv, after, x, lv, body, lst.t, arg)
	}
	return t.bad(l[0], "statement")
}

func c02Params(fd *ast.FuncDecl) (recv string, params []string) {
	if fd.Recv != nil && len(fd.Recv.List) == 1 && len(fd.Recv.List[0].Names) == 1 {
		recv = fd.Recv.List[0].Names[0].Name
	}
	for _, f := range fd.Type.Params.List {
		for _, n := range f.Names {
			params = append(params, n.Name)
		}
	}
	return
}

func genC02() {
	const rel = "pkg/apk/apk/repo.go"
	g := newGen("C02Resolver", "From Apko Require Import Base.Prelude Generated.VersionConsts Model.Version Model.Resolver.\nOpen Scope string_scope. Open Scope list_scope.")
	emit := func(coq, sig, body, where string) {
		fmt.Fprintf(&g.buf, "(* %s *)\nDefinition %s %s :=\n  %s.\n", where, coq, sig, body)
	}
	// conflictingVersion(constraint ParsedConstraint, conflict *repositoryPackage) bool
	if fd := findFunc(rel, "PkgResolver", "conflictingVersion"); fd != nil && fd.Body != nil {
		recv, ps := c02Params(fd)
		if len(ps) != 2 {
			fail("%s: conflictingVersion: expected two parameters", rel)
		} else {
			t := &c02Tr{fn: "conflictingVersion", ret: "bool", resTy: "option bool", ok: true,
				env: map[string]c02Val{recv: {k: c02Recv}, ps[0]: {k: c02Constraint, t: "c"}, ps[1]: {k: c02Cpkg, t: "k"}}}
			body := t.tr(fd.Body.List, func() string { return t.bad(fd, "function may end without return") })
			emit("gen_conflicting_version", "(c : constraint) (k : cpkg) : option bool", body, rel+" conflictingVersion at "+g.pos(fd)+"; None = panic")
		}
	}
	// pick(pkg *RepositoryPackage) error
	if fd := findFunc(rel, "PkgResolver", "pick"); fd != nil && fd.Body != nil {
		recv, ps := c02Params(fd)
		if len(ps) != 1 {
			fail("%s: pick: expected one parameter", rel)
		} else {
			t := &c02Tr{fn: "pick", ret: "error", state: "sel", stateTy: "list (string * pid)", resTy: "res (list (string * pid))", ok: true,
				env: map[string]c02Val{recv: {k: c02Recv}, ps[0]: {k: c02Pid, t: "i"}}}
			body := t.tr(fd.Body.List, func() string { return t.bad(fd, "function may end without return") })
			emit("gen_pick", "(R : resolver) (i : pid) (sel : list (string * pid)) : res (list (string * pid))", body, rel+" pick at "+g.pos(fd)+"; p.selected = sel")
		}
	}
	// disqualifyConflicts(pkg *RepositoryPackage, dq map[*RepositoryPackage]string)
	if fd := findFunc(rel, "PkgResolver", "disqualifyConflicts"); fd != nil && fd.Body != nil {
		recv, ps := c02Params(fd)
		if len(ps) != 2 {
			fail("%s: disqualifyConflicts: expected two parameters", rel)
		} else {
			t := &c02Tr{fn: "disqualifyConflicts", ret: "none", state: "dq", stateTy: "list pid", resTy: "res (list pid)", ok: true,
				env: map[string]c02Val{recv: {k: c02Recv}, ps[0]: {k: c02Pid, t: "i"}, ps[1]: {k: c02Dq, t: "dq"}}}
			body := t.tr(fd.Body.List, func() string { return "(Ok dq)" })
			emit("gen_disqualify_conflicts", "(R : resolver) (i : pid) (dq : list pid) : res (list pid)", body, rel+" disqualifyConflicts at "+g.pos(fd)+"; Panic = the panic of conflictingVersion")
		}
	}
	// constrain(constraints []string, dq map[*RepositoryPackage]string) error
	if fd := findFunc(rel, "PkgResolver", "constrain"); fd != nil && fd.Body != nil {
		recv, ps := c02Params(fd)
		if len(ps) != 2 {
			fail("%s: constrain: expected two parameters", rel)
		} else {
			t := &c02Tr{fn: "constrain", ret: "error", state: "dq", stateTy: "list pid", resTy: "res (list pid)", ok: true, setAdd: true,
				env: map[string]c02Val{recv: {k: c02Recv}, ps[0]: {k: c02ListDep, t: "cs"}, ps[1]: {k: c02Dq, t: "dq"}}}
			body := t.tr(fd.Body.List, func() string { return t.bad(fd, "function may end without return") })
			emit("gen_constrain", "(R : resolver) (cs : list cdep) (dq : list pid) : res (list pid)", body,
				rel+" constrain at "+g.pos(fd)+"; a list entry is the cdep it is cooked into (d_neg = the rest after '!'), cachedParseVersion of a cooked string is its stored parse, disqualifyProviders is the model's")
		}
	}
	// disqualify(dq, pkg, reason) must be the single map assignment the translation of its calls stands for
	if fd := findFunc(rel, "PkgResolver", "disqualify"); fd != nil && fd.Body != nil {
		_, ps := c02Params(fd)
		okShape := false
		if len(ps) == 3 && len(fd.Body.List) == 1 {
			if as, ok := fd.Body.List[0].(*ast.AssignStmt); ok && as.Tok == token.ASSIGN && len(as.Lhs) == 1 && len(as.Rhs) == 1 {
				if ix, ok := as.Lhs[0].(*ast.IndexExpr); ok {
					m, _ := ix.X.(*ast.Ident)
					k, _ := ix.Index.(*ast.Ident)
					v, _ := as.Rhs[0].(*ast.Ident)
					okShape = m != nil && k != nil && v != nil && m.Name == ps[0] && k.Name == ps[1] && v.Name == ps[2]
				}
			}
		}
		if !okShape {
			fail("%s: disqualify is no longer the single assignment dq[pkg] = reason", rel)
		}
	}
	g.write()
}
