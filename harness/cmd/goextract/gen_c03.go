package main

import (
	"fmt"
	"strings"
)

// genC03: operator table of ResolvePackageNameVersionPin, the satisfies switch,
// endsWithReleaseStr.
func genC03() {
	genC03Ladders()
	const rel = "pkg/apk/apk/version.go"
	g := newGen("C03Version", "From Apko Require Import Base.Prelude Base.Regex.\nOpen Scope Z_scope.\n"+
		"Inductive so_shape := SoCutAt (sep ins : string) | SoOperatorRun (chars ins : string).")
	dep := iotaBlock(rel, "versionAny")
	fd := findFunc(rel, "", "ResolvePackageNameVersionPin")
	// the switch on the operator sub-match: `matcher := parts[0][3]` today; found by what its tag stands for, not by the local's name
	t, node := switchAssignTable(fd, "parts[0][3]")
	if t == nil {
		fail("%s: switch matcher not found in ResolvePackageNameVersionPin", rel)
	}
	var items []string
	def := int64(-1)
	for _, kv := range t {
		v, ok := dep[kv[1]]
		if !ok {
			fail("%s: switch matcher: case %q assigns unknown %s", rel, kv[0], kv[1])
		}
		if kv[0] == "<default>" {
			def = v
			continue
		}
		items = append(items, fmt.Sprintf("(%s, (%d))", coqStr(kv[0]), v))
	}
	g.def("matcher_table", "list (string * Z)", "["+strings.Join(items, "; ")+"]", "switch matcher at "+g.pos(node))
	g.def("matcher_default", "Z", fmt.Sprintf("(%d)", def), "default clause of switch matcher")
	g.regex("ends_with_release_re", rel, "endsWithReleaseStr")
	if term, node := soRewriteShape(fd, rel); term != "" {
		g.def("so_rewrite_shape", "so_shape", term, "how the so: block of ResolvePackageNameVersionPin finds the start of the version, at "+g.pos(node))
	}

	// satisfies: case versionX: return <expr over c, greater, equal, less>
	fs := findFunc(rel, "versionDependency", "satisfies")
	st, snode := switchAssignTable(fs, "v")
	if st == nil {
		fail("%s: switch v not found in versionDependency.satisfies", rel)
	}
	var rows []string
	for _, kv := range st {
		key := kv[0]
		if key == "<default>" {
			continue
		}
		name := strings.TrimPrefix(key, "<expr>")
		code, ok := dep[name]
		if !ok {
			fail("%s: satisfies: unknown case %s", rel, name)
		}
		// encode the returned expression as the set of comparison results accepted
		expr := strings.ReplaceAll(kv[1], " ", "")
		var acc []string
		switch expr {
		case "true":
			acc = []string{"cmp_greater_v", "cmp_equal_v", "cmp_less_v"}
		default:
			for _, part := range strings.Split(expr, "||") {
				switch part {
				case "c==greater":
					acc = append(acc, "cmp_greater_v")
				case "c==equal":
					acc = append(acc, "cmp_equal_v")
				case "c==less":
					acc = append(acc, "cmp_less_v")
				default:
					fail("%s: satisfies: case %s returns unsupported expression %q", rel, name, kv[1])
				}
			}
		}
		rows = append(rows, fmt.Sprintf("((%d), [%s])", code, strings.Join(acc, "; ")))
	}
	cmp := iotaBlock(rel, "greater")
	g.def("cmp_greater_v", "Z", fmt.Sprintf("(%d)", cmp["greater"]), "greater")
	g.def("cmp_equal_v", "Z", fmt.Sprintf("(%d)", cmp["equal"]), "equal")
	g.def("cmp_less_v", "Z", fmt.Sprintf("(%d)", cmp["less"]), "less")
	g.def("satisfies_table", "list (Z * list Z)", "["+strings.Join(rows, "; ")+"]", "switch v in versionDependency.satisfies at "+g.pos(snode)+": dependency code -> accepted CompareVersions results")
	g.write()
}
