package main

import (
	"fmt"
	"go/ast"
	"go/token"
	"strings"
)

// Idiom translator for the two comparison ladders of version.go. Each
// statement of CompareVersions / includesVersion must be one of a few exact
// shapes; anything else is refused (a broken tie). The output is a list of
// rungs interpreted by Model/Version.v, so reordering, dropping or altering a
// rung changes the model the theorems are about.

type ladderCtx struct {
	rel    string
	a, b   string // parameter names
	consts map[string]int64
}

func (c *ladderCtx) field(e ast.Expr) (param, field string, ok bool) {
	se, isSel := e.(*ast.SelectorExpr)
	if !isSel {
		return "", "", false
	}
	id, isId := se.X.(*ast.Ident)
	if !isId {
		return "", "", false
	}
	return id.Name, se.Sel.Name, true
}

func isRet(s ast.Stmt, want string) bool {
	bs, ok := s.(*ast.BlockStmt)
	if !ok || len(bs.List) != 1 {
		return false
	}
	r, ok := bs.List[0].(*ast.ReturnStmt)
	return ok && len(r.Results) == 1 && exprText(r.Results[0]) == want
}

// if X op Y { return val } with no else/init
func ifRet(s ast.Stmt) (x, y ast.Expr, op token.Token, val string, ok bool) {
	is, isIf := s.(*ast.IfStmt)
	if !isIf || is.Init != nil || is.Else != nil || len(is.Body.List) != 1 {
		return
	}
	r, isR := is.Body.List[0].(*ast.ReturnStmt)
	be, isB := is.Cond.(*ast.BinaryExpr)
	if !isR || !isB || len(r.Results) != 1 {
		return
	}
	return be.X, be.Y, be.Op, exprText(r.Results[0]), true
}

func genC03Ladders() {
	const rel = "pkg/apk/apk/version.go"
	g := newGen("C03Ladders", "From Apko Require Import Base.Prelude.\nOpen Scope Z_scope.\n"+
		"Inductive rung := RLoopNums (f : string) | RLen (f : string) | RField (f : string) | RMapped (f : string) (from to : Z).\n"+
		"Inductive irung := ILenLt (f : string) | ILoopPrefix (f : string) | ILenGt (f : string) | IFieldIfSet (f : string) (zero : Z).")
	consts := map[string]int64{}
	for _, first := range []string{"packageVersionPreModifierNone", "packageVersionPostModifierNone", "greater"} {
		for k, v := range iotaBlock(rel, first) {
			consts[k] = v
		}
	}
	genCompareLadder(g, rel, consts)
	genIncludesLadder(g, rel, consts)
	g.write()
}

func paramNames(fd *ast.FuncDecl) (string, string, bool) {
	var names []string
	for _, f := range fd.Type.Params.List {
		for _, n := range f.Names {
			names = append(names, n.Name)
		}
	}
	if len(names) != 2 {
		return "", "", false
	}
	return names[0], names[1], true
}

func genCompareLadder(g *gen, rel string, consts map[string]int64) {
	fd := findFunc(rel, "", "CompareVersions")
	if fd == nil {
		return
	}
	a, b, ok := paramNames(fd)
	if !ok {
		fail("%s: CompareVersions does not have two parameters", rel)
		return
	}
	c := &ladderCtx{rel: rel, a: a, b: b, consts: consts}
	var rungs []string
	mapped := map[string][3]string{} // local -> (param, field) plus rewrite
	rewrite := map[string][2]int64{}
	ss := fd.Body.List
	i := 0
	bad := func(s ast.Stmt, why string) {
		fail("%s: CompareVersions: statement %q is outside the ladder idioms (%s)", rel, strings.SplitN(exprText(s), "\n", 2)[0], why)
	}
	// operand: a.f / b.f / len(a.f) / len(b.f) / mapped local
	operand := func(e ast.Expr) (side, kind, f string) {
		if p, fl, ok := c.field(e); ok {
			return p, "field", fl
		}
		if ce, ok := e.(*ast.CallExpr); ok && exprText(ce.Fun) == "len" && len(ce.Args) == 1 {
			if p, fl, ok := c.field(ce.Args[0]); ok {
				return p, "len", fl
			}
		}
		if id, ok := e.(*ast.Ident); ok {
			if m, ok := mapped[id.Name]; ok {
				return m[0], "mapped:" + id.Name, m[1]
			}
		}
		return "", "", ""
	}
	for i < len(ss) {
		s := ss[i]
		// the numbers loop
		if fs, ok := s.(*ast.ForStmt); ok {
			want := fmt.Sprintf("i < len(%s.numbers) && i < len(%s.numbers)", a, b)
			if fs.Init == nil || exprText(fs.Init) != "i := 0" || exprText(fs.Cond) != want || exprText(fs.Post) != "i++" || len(fs.Body.List) != 2 {
				bad(s, "loop header")
				return
			}
			x1, y1, op1, v1, ok1 := ifRet(fs.Body.List[0])
			x2, y2, op2, v2, ok2 := ifRet(fs.Body.List[1])
			ea, eb := a+".numbers[i]", b+".numbers[i]"
			if !ok1 || !ok2 || exprText(x1) != ea || exprText(y1) != eb || op1 != token.GTR || v1 != "greater" ||
				exprText(x2) != ea || exprText(y2) != eb || op2 != token.LSS || v2 != "less" {
				bad(s, "loop body")
				return
			}
			rungs = append(rungs, `RLoopNums "numbers"`)
			i++
			continue
		}
		// x, y := a.f, b.f
		if as, ok := s.(*ast.AssignStmt); ok && as.Tok == token.DEFINE && len(as.Lhs) == 2 && len(as.Rhs) == 2 {
			p1, f1, ok1 := c.field(as.Rhs[0])
			p2, f2, ok2 := c.field(as.Rhs[1])
			if !ok1 || !ok2 || p1 != a || p2 != b || f1 != f2 {
				bad(s, "paired definition")
				return
			}
			mapped[exprText(as.Lhs[0])] = [3]string{a, f1}
			mapped[exprText(as.Lhs[1])] = [3]string{b, f1}
			i++
			continue
		}
		// if x == C1 { x = C2 }
		if is, ok := s.(*ast.IfStmt); ok && is.Init == nil && is.Else == nil && len(is.Body.List) == 1 {
			if as, ok := is.Body.List[0].(*ast.AssignStmt); ok && as.Tok == token.ASSIGN && len(as.Lhs) == 1 {
				be, okb := is.Cond.(*ast.BinaryExpr)
				name := exprText(as.Lhs[0])
				if _, isMapped := mapped[name]; okb && isMapped && be.Op == token.EQL && exprText(be.X) == name {
					from, ok1 := consts[exprText(be.Y)]
					to, ok2 := consts[exprText(as.Rhs[0])]
					if !ok1 || !ok2 {
						bad(s, "rewrite constants")
						return
					}
					if old, seen := rewrite[mapped[name][1]]; seen && (old[0] != from || old[1] != to) {
						bad(s, "the two sides are rewritten differently")
						return
					}
					rewrite[mapped[name][1]] = [2]int64{from, to}
					m := mapped[name]
					m[2] = "rewritten"
					mapped[name] = m
					i++
					continue
				}
			}
		}
		// pair: if X > Y {return greater}; if X < Y {return less}
		if x1, y1, op1, v1, ok1 := ifRet(s); ok1 && i+1 < len(ss) {
			x2, y2, op2, v2, ok2 := ifRet(ss[i+1])
			if !ok2 || exprText(x1) != exprText(x2) || exprText(y1) != exprText(y2) || op1 != token.GTR || v1 != "greater" || op2 != token.LSS || v2 != "less" {
				bad(s, "comparison pair")
				return
			}
			sa, ka, fa := operand(x1)
			sb, kb, fb := operand(y1)
			if sa != a || sb != b || fa != fb || strings.SplitN(ka, ":", 2)[0] != strings.SplitN(kb, ":", 2)[0] {
				bad(s, "operands")
				return
			}
			switch {
			case ka == "field":
				rungs = append(rungs, fmt.Sprintf("RField %s", coqStr(fa)))
			case ka == "len":
				rungs = append(rungs, fmt.Sprintf("RLen %s", coqStr(fa)))
			default: // mapped local: both sides must have been rewritten (or neither)
				la, lb := strings.TrimPrefix(ka, "mapped:"), strings.TrimPrefix(kb, "mapped:")
				if la == lb {
					bad(s, "same local on both sides")
					return
				}
				if rw, ok := rewrite[fa]; ok {
					if mapped[la][2] != "rewritten" || mapped[lb][2] != "rewritten" {
						bad(s, "only one side rewritten")
						return
					}
					rungs = append(rungs, fmt.Sprintf("RMapped %s (%d) (%d)", coqStr(fa), rw[0], rw[1]))
				} else {
					rungs = append(rungs, fmt.Sprintf("RField %s", coqStr(fa)))
				}
			}
			i += 2
			continue
		}
		if r, ok := s.(*ast.ReturnStmt); ok && i == len(ss)-1 && len(r.Results) == 1 && exprText(r.Results[0]) == "equal" {
			i++
			continue
		}
		bad(s, "unrecognised")
		return
	}
	g.def("compare_ladder", "list rung", "["+strings.Join(rungs, "; ")+"]", "CompareVersions at "+g.pos(fd)+": rungs in source order, final return equal")
}

func genIncludesLadder(g *gen, rel string, consts map[string]int64) {
	fd := findFunc(rel, "", "includesVersion")
	if fd == nil {
		return
	}
	a, b, ok := paramNames(fd)
	if !ok {
		fail("%s: includesVersion does not have two parameters", rel)
		return
	}
	var rungs []string
	bad := func(s ast.Stmt, why string) {
		fail("%s: includesVersion: statement %q is outside the ladder idioms (%s)", rel, strings.SplitN(exprText(s), "\n", 2)[0], why)
	}
	ss := fd.Body.List
	for i, s := range ss {
		if fs, ok := s.(*ast.ForStmt); ok {
			if fs.Init == nil || exprText(fs.Init) != "i := 0" || exprText(fs.Cond) != fmt.Sprintf("i < len(%s.numbers)", b) || exprText(fs.Post) != "i++" || len(fs.Body.List) != 1 {
				bad(s, "loop header")
				return
			}
			x, y, op, v, ok := ifRet(fs.Body.List[0])
			if !ok || exprText(x) != a+".numbers[i]" || exprText(y) != b+".numbers[i]" || op != token.NEQ || v != "false" {
				bad(s, "loop body")
				return
			}
			rungs = append(rungs, `ILoopPrefix "numbers"`)
			continue
		}
		if r, ok := s.(*ast.ReturnStmt); ok && i == len(ss)-1 && len(r.Results) == 1 && exprText(r.Results[0]) == "true" {
			continue
		}
		is, isIf := s.(*ast.IfStmt)
		if !isIf || is.Init != nil || is.Else != nil || len(is.Body.List) != 1 {
			bad(s, "not a guard")
			return
		}
		ret, isRet := is.Body.List[0].(*ast.ReturnStmt)
		if !isRet || len(ret.Results) != 1 {
			bad(s, "guard body")
			return
		}
		val := exprText(ret.Results[0])
		cond := exprText(is.Cond)
		la, lb := fmt.Sprintf("len(%s.numbers)", a), fmt.Sprintf("len(%s.numbers)", b)
		switch {
		case cond == la+" < "+lb && val == "false":
			rungs = append(rungs, `ILenLt "numbers"`)
		case cond == la+" > "+lb && val == "true":
			rungs = append(rungs, `ILenGt "numbers"`)
		default:
			// required.f != ZERO && actual.f != required.f  => return false
			be, okb := is.Cond.(*ast.BinaryExpr)
			if !okb || be.Op != token.LAND || val != "false" {
				bad(s, "guard shape")
				return
			}
			l, okl := be.X.(*ast.BinaryExpr)
			r, okr := be.Y.(*ast.BinaryExpr)
			if !okl || !okr || l.Op != token.NEQ || r.Op != token.NEQ {
				bad(s, "guard operators")
				return
			}
			lf := strings.TrimPrefix(exprText(l.X), b+".")
			if exprText(l.X) != b+"."+lf || exprText(r.X) != a+"."+lf || exprText(r.Y) != b+"."+lf {
				bad(s, "guard operands")
				return
			}
			zero, okz := intLit(l.Y)
			if !okz {
				z, okc := consts[exprText(l.Y)]
				if !okc {
					bad(s, "guard zero value")
					return
				}
				zero = z
			}
			rungs = append(rungs, fmt.Sprintf("IFieldIfSet %s (%d)", coqStr(lf), zero))
		}
	}
	g.def("includes_ladder", "list irung", "["+strings.Join(rungs, "; ")+"]", "includesVersion at "+g.pos(fd)+": guards in source order, final return true")
}
