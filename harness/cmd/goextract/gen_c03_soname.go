package main

import (
	"go/ast"
	"go/token"
)

// soRewriteShape reads HOW ResolvePackageNameVersionPin finds the place where the "0." of the shared-library rescaling
// goes, inside `if strings.HasPrefix(pkgName, "so:") { ... }`:
//
//	strings.IndexAny(pkgName, CHARS) (+ a scan over the run of such characters)  -> SoOperatorRun CHARS INS  (since fix C03-F2)
//	strings.Cut(pkgName, SEP) / strings.Index(pkgName, SEP)                     -> SoCutAt SEP INS          (before)
//
// INS is the one string literal of the assignment that rebuilds pkgName. Anything else is refused.
func soRewriteShape(fd *ast.FuncDecl, rel string) (term string, node ast.Node) {
	if fd == nil || fd.Type.Params == nil || len(fd.Type.Params.List) == 0 || len(fd.Type.Params.List[0].Names) == 0 {
		fail("%s: ResolvePackageNameVersionPin has no named parameter", rel)
		return "", nil
	}
	param := fd.Type.Params.List[0].Names[0].Name
	isParam := func(e ast.Expr) bool { id, ok := e.(*ast.Ident); return ok && id.Name == param }
	stringsCall := func(n ast.Node) (name string, args []ast.Expr) {
		c, ok := n.(*ast.CallExpr)
		if !ok {
			return "", nil
		}
		sel, ok := c.Fun.(*ast.SelectorExpr)
		if !ok {
			return "", nil
		}
		if id, ok := sel.X.(*ast.Ident); ok && id.Name == "strings" {
			return sel.Sel.Name, c.Args
		}
		return "", nil
	}
	// a string literal, or a name bound to one by a const/var declaration or a := anywhere in the file
	lit := func(e ast.Expr) (string, bool) {
		if s, ok := strLit(e); ok {
			return s, true
		}
		id, ok := e.(*ast.Ident)
		if !ok {
			return "", false
		}
		var val ast.Expr
		if f := load(rel); f != nil {
			ast.Inspect(f, func(n ast.Node) bool {
				switch x := n.(type) {
				case *ast.ValueSpec:
					for i, nm := range x.Names {
						if nm.Name == id.Name && i < len(x.Values) {
							val = x.Values[i]
						}
					}
				case *ast.AssignStmt:
					for i, l := range x.Lhs {
						if li, ok := l.(*ast.Ident); ok && li.Name == id.Name && i < len(x.Rhs) && x.Tok == token.DEFINE {
							val = x.Rhs[i]
						}
					}
				}
				return true
			})
		}
		if val == nil {
			return "", false
		}
		return strLit(val)
	}
	var block *ast.IfStmt
	for _, st := range fd.Body.List {
		ifs, ok := st.(*ast.IfStmt)
		if !ok {
			continue
		}
		if name, args := stringsCall(ifs.Cond); name == "HasPrefix" && len(args) == 2 && isParam(args[0]) {
			if lit, ok := strLit(args[1]); ok && lit == "so:" {
				block = ifs
				break
			}
		}
	}
	if block == nil {
		fail("%s: ResolvePackageNameVersionPin: no `if strings.HasPrefix(%s, \"so:\")` block", rel, param)
		return "", nil
	}
	var runChars, cutSeps, scanChars, inserts []string
	release := false
	ast.Inspect(block.Body, func(n ast.Node) bool {
		switch name, args := stringsCall(n); {
		case name == "IndexAny" && len(args) == 2 && isParam(args[0]):
			if s, ok := lit(args[1]); ok {
				runChars = append(runChars, s)
			} else {
				fail("%s: so: block: strings.IndexAny with a non-literal character set", rel)
			}
		case (name == "Cut" || name == "Index") && len(args) == 2 && isParam(args[0]):
			if s, ok := lit(args[1]); ok {
				cutSeps = append(cutSeps, s)
			} else {
				fail("%s: so: block: strings.%s with a non-literal separator", rel, name)
			}
		case (name == "IndexByte" || name == "ContainsRune" || name == "IndexRune" || name == "ContainsAny") && len(args) == 2:
			if s, ok := lit(args[0]); ok {
				scanChars = append(scanChars, s)
			}
		}
		if c, ok := n.(*ast.CallExpr); ok {
			if sel, ok := c.Fun.(*ast.SelectorExpr); ok && sel.Sel.Name == "MatchString" {
				if id, ok := sel.X.(*ast.Ident); ok && id.Name == "endsWithReleaseStr" {
					release = true
				}
			}
		}
		if as, ok := n.(*ast.AssignStmt); ok && as.Tok == token.ASSIGN && len(as.Lhs) == 1 && isParam(as.Lhs[0]) {
			ast.Inspect(as.Rhs[0], func(m ast.Node) bool {
				switch x := m.(type) {
				case *ast.BasicLit:
					if s, ok := strLit(x); ok && x.Kind == token.STRING {
						inserts = append(inserts, s)
					}
				case *ast.SliceExpr, *ast.IndexExpr:
					return false // pkgName[:j], pkgName[j:]
				case *ast.Ident:
					if x.Name != param {
						if s, ok := lit(x); ok {
							inserts = append(inserts, s)
						}
					}
				}
				return true
			})
		}
		return true
	})
	if !release {
		fail("%s: so: block does not consult endsWithReleaseStr.MatchString", rel)
	}
	if len(inserts) != 1 {
		fail("%s: so: block: expected exactly one string literal in the assignment that rebuilds %s, found %d", rel, param, len(inserts))
		return "", block
	}
	switch {
	case len(runChars) == 1 && len(cutSeps) == 0:
		for _, s := range scanChars {
			if s != runChars[0] {
				fail("%s: so: block: the run scan uses the characters %q, the search %q", rel, s, runChars[0])
			}
		}
		if len(scanChars) == 0 {
			fail("%s: so: block: strings.IndexAny without a scan over the run of those characters", rel)
		}
		return "SoOperatorRun " + coqStr(runChars[0]) + " " + coqStr(inserts[0]), block
	case len(cutSeps) == 1 && len(runChars) == 0:
		if len(cutSeps[0]) != 1 {
			fail("%s: so: block: separator %q is not a single byte", rel, cutSeps[0])
		}
		return "SoCutAt " + coqStr(cutSeps[0]) + " " + coqStr(inserts[0]), block
	}
	fail("%s: so: block: neither one strings.IndexAny(%s, chars) nor one strings.Cut/Index(%s, sep)", rel, param, param)
	return "", block
}
