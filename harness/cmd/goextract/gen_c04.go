package main

import (
	"fmt"
	"go/ast"
	"go/token"
	"strings"
)

// genC04 writes Generated/IndexConsts.v: the constants parseRepositoryIndex /
// IndexFromArchive / IndexURL depend on (C04) and the checksum prefix handled by
// verifyExpanded / cachedPackage (C05).
//   - index_filename, apk_index_filename, description_filename
//   - index_url_format: the Sprintf format of IndexURL
//   - sig_type_table: the `switch signatureType` of parseRepositoryIndex, one row
//     per literal case: "continue" (signature skipped), the digest expression
//     assigned (crypto.SHA1 / crypto.SHA256), or "error"
//   - sign_prefix: the literal IndexFromArchive tests entry names against
func genC04() {
	g := newGen("IndexConsts", "From Apko Require Import Base.Prelude.")
	for _, c := range []struct{ coq, rel, name string }{
		{"index_filename", "pkg/apk/apk/const.go", "indexFilename"},
		{"apk_index_filename", "pkg/apk/apk/apkindex.go", "apkIndexFilename"},
		{"description_filename", "pkg/apk/apk/apkindex.go", "descriptionFilename"},
	} {
		e := findValue(c.rel, c.name)
		s, ok := strLit(e)
		if !ok {
			fail("%s: %s is not a string literal", c.rel, c.name)
			continue
		}
		g.def(c.coq, "string", coqStr(s), c.rel+" "+c.name+" at "+g.pos(e))
	}

	// IndexURL: return fmt.Sprintf("<fmt>", repo, arch, indexFilename)
	if fd := findFunc("pkg/apk/apk/index.go", "", "IndexURL"); fd == nil {
		fail("index.go: no function IndexURL")
	} else {
		found := false
		ast.Inspect(fd, func(n ast.Node) bool {
			ce, ok := n.(*ast.CallExpr)
			if !ok || exprText(ce.Fun) != "fmt.Sprintf" || len(ce.Args) != 4 {
				return true
			}
			f, ok := strLit(ce.Args[0])
			if !ok {
				return true
			}
			args := []string{exprText(ce.Args[1]), exprText(ce.Args[2]), exprText(ce.Args[3])}
			g.def("index_url_format", "string", coqStr(f), "IndexURL format at "+g.pos(ce))
			g.def("index_url_args", "list string", coqStrList(args), "IndexURL Sprintf arguments")
			found = true
			return false
		})
		if !found {
			// the same string written as a concatenation: repo + "/" + arch + "/" + indexFilename
			ast.Inspect(fd, func(n ast.Node) bool {
				rs, ok := n.(*ast.ReturnStmt)
				if !ok || found || len(rs.Results) != 1 {
					return true
				}
				if f, args, ok := concatAsFormat(rs.Results[0]); ok && len(args) == 3 {
					g.def("index_url_format", "string", coqStr(f), "IndexURL format (a concatenation read as a format) at "+g.pos(rs))
					g.def("index_url_args", "list string", coqStrList(args), "IndexURL operands")
					found = true
				}
				return true
			})
		}
		if !found {
			fail("index.go: IndexURL is not a single fmt.Sprintf of three arguments")
		}
	}

	// the signature type switch
	fd := findFunc("pkg/apk/apk/index.go", "", "parseRepositoryIndex")
	if fd == nil {
		fail("index.go: no function parseRepositoryIndex")
	} else {
		var rows []string
		var node ast.Node
		ast.Inspect(fd, func(n ast.Node) bool {
			sw, ok := n.(*ast.SwitchStmt)
			if !ok || sw.Tag == nil || exprText(sw.Tag) != "signatureType" || node != nil {
				return true
			}
			node = sw
			for _, c := range sw.Body.List {
				cc := c.(*ast.CaseClause)
				act := "other"
				if len(cc.Body) == 1 {
					switch st := cc.Body[0].(type) {
					case *ast.BranchStmt:
						if st.Tok == token.CONTINUE && st.Label == nil {
							act = "continue"
						}
					case *ast.AssignStmt:
						if len(st.Lhs) == 1 && len(st.Rhs) == 1 && exprText(st.Lhs[0]) == "digestAlgorithm" && st.Tok == token.ASSIGN {
							act = exprText(st.Rhs[0])
						}
					case *ast.ReturnStmt:
						if len(st.Results) == 2 && exprText(st.Results[0]) == "nil" {
							act = "error"
						}
					}
				}
				if cc.List == nil {
					rows = append(rows, fmt.Sprintf("(%s, %s)", coqStr("<default>"), coqStr(act)))
					continue
				}
				for _, e := range cc.List {
					s, ok := strLit(e)
					if !ok {
						fail("index.go: parseRepositoryIndex: non-literal case %s in the signature type switch", exprText(e))
						continue
					}
					rows = append(rows, fmt.Sprintf("(%s, %s)", coqStr(s), coqStr(act)))
				}
			}
			return false
		})
		if node == nil {
			fail("index.go: parseRepositoryIndex: no `switch signatureType`")
		}
		g.def("sig_type_table", "list (string * string)", "["+strings.Join(rows, "; ")+"]", "switch signatureType at "+g.pos(node))
	}

	// IndexFromArchive: strings.HasPrefix(hdr.Name, "<lit>")
	if fd := findFunc("pkg/apk/apk/apkindex.go", "", "IndexFromArchive"); fd == nil {
		fail("apkindex.go: no function IndexFromArchive")
	} else {
		n := 0
		ast.Inspect(fd, func(x ast.Node) bool {
			ce, ok := x.(*ast.CallExpr)
			if !ok || exprText(ce.Fun) != "strings.HasPrefix" || len(ce.Args) != 2 || exprText(ce.Args[0]) != "hdr.Name" {
				return true
			}
			if s, ok := strLit(ce.Args[1]); ok {
				n++
				if n == 1 {
					g.def("sign_prefix", "string", coqStr(s), "IndexFromArchive name prefix test at "+g.pos(ce))
				}
			}
			return true
		})
		if n != 1 {
			fail("apkindex.go: IndexFromArchive: expected exactly one strings.HasPrefix(hdr.Name, literal), found %d", n)
		}
	}

	// indexCache.get: every expression a parsed result is stored or looked up under
	// (i.store / i.load / i.forget arguments, i.modtimes / i.urlToEtag subscripts, the
	// sync.Once key) and whether it depends on verificationContext(...), the
	// verification context of the request (fix C04-F3); and what that function reads.
	if fd := findFunc("pkg/apk/apk/index.go", "indexCache", "get"); fd == nil {
		fail("index.go: no method indexCache.get")
	} else {
		defs := map[string]ast.Expr{}
		ast.Inspect(fd, func(n ast.Node) bool {
			if as, ok := n.(*ast.AssignStmt); ok && as.Tok == token.DEFINE && len(as.Lhs) == 1 && len(as.Rhs) == 1 {
				if id, ok := as.Lhs[0].(*ast.Ident); ok {
					if _, dup := defs[id.Name]; !dup {
						defs[id.Name] = as.Rhs[0]
					}
				}
			}
			return true
		})
		var mentions func(e ast.Expr, depth int) bool
		mentions = func(e ast.Expr, depth int) bool {
			if depth > 6 {
				return false
			}
			found := false
			ast.Inspect(e, func(n ast.Node) bool {
				switch x := n.(type) {
				case *ast.CallExpr:
					if exprText(x.Fun) == "verificationContext" {
						found = true
					}
				case *ast.Ident:
					if d, ok := defs[x.Name]; ok && d != e && mentions(d, depth+1) {
						found = true
					}
				}
				return !found
			})
			return found
		}
		var rows []string
		ast.Inspect(fd, func(n ast.Node) bool {
			switch x := n.(type) {
			case *ast.CallExpr:
				f := exprText(x.Fun)
				if (f == "i.store" || f == "i.load" || f == "i.forget" || f == "i.onces.LoadOrStore") && len(x.Args) >= 1 {
					rows = append(rows, fmt.Sprintf("(%s, %s)", coqStr(f+"("+exprText(x.Args[0])+")"), coqBool(mentions(x.Args[0], 0))))
				}
			case *ast.IndexExpr:
				f := exprText(x.X)
				if f == "i.modtimes" || f == "i.urlToEtag" {
					rows = append(rows, fmt.Sprintf("(%s, %s)", coqStr(f+"["+exprText(x.Index)+"]"), coqBool(mentions(x.Index, 0))))
				}
			}
			return true
		})
		if len(rows) == 0 {
			fail("index.go: indexCache.get: no cache key sites found")
		}
		g.def("index_cache_key_sites", "list (string * bool)", "["+strings.Join(rows, "; ")+"]", "indexCache.get: (site, key depends on verificationContext)")
	}
	if fd := findFunc("pkg/apk/apk/index.go", "", "verificationContext"); fd == nil {
		g.def("index_cache_ctx_reads", "bool * bool", "(false, false)", "no function verificationContext")
	} else {
		chk, keys := false, false
		ast.Inspect(fd, func(n ast.Node) bool {
			switch x := n.(type) {
			case *ast.CallExpr:
				if exprText(x.Fun) == "shouldCheckSignatureForIndex" {
					chk = true
				}
			case *ast.IndexExpr:
				if exprText(x.X) == "keys" {
					keys = true
				}
			}
			return true
		})
		g.def("index_cache_ctx_reads", "bool * bool", "("+coqBool(chk)+", "+coqBool(keys)+")", "verificationContext: (consults shouldCheckSignatureForIndex, reads the contents of the configured keys)")
	}
	g.write()
	genC04Shapes()
}

func coqBool(b bool) string {
	if b {
		return "true"
	}
	return "false"
}
