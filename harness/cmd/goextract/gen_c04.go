package main

import (
	"fmt"
	"go/ast"
	"go/token"
	"strings"
)

// genC04 writes Generated/IndexConsts.v: the constants parseRepositoryIndex /
// IndexFromArchive / IndexURL depend on (C04) and the checksum prefix handled by
// verifyExpanded / cachedPackage (C05).
//   - index_filename, apk_index_filename, description_filename
//   - index_url_format: the Sprintf format of IndexURL
//   - sig_type_table: the `switch signatureType` of parseRepositoryIndex, one row
//     per literal case: "continue" (signature skipped), the digest expression
//     assigned (crypto.SHA1 / crypto.SHA256), or "error"
//   - sign_prefix: the literal IndexFromArchive tests entry names against
func genC04() {
	g := newGen("IndexConsts", "From Apko Require Import Base.Prelude.")
	for _, c := range []struct{ coq, rel, name string }{
		{"index_filename", "pkg/apk/apk/const.go", "indexFilename"},
		{"apk_index_filename", "pkg/apk/apk/apkindex.go", "apkIndexFilename"},
		{"description_filename", "pkg/apk/apk/apkindex.go", "descriptionFilename"},
	} {
		e := findValue(c.rel, c.name)
		s, ok := strLit(e)
		if !ok {
			fail("%s: %s is not a string literal", c.rel, c.name)
			continue
		}
		g.def(c.coq, "string", coqStr(s), c.rel+" "+c.name+" at "+g.pos(e))
	}

	// IndexURL: return fmt.Sprintf("<fmt>", repo, arch, indexFilename)
	if fd := findFunc("pkg/apk/apk/index.go", "", "IndexURL"); fd == nil {
		fail("index.go: no function IndexURL")
	} else {
		found := false
		ast.Inspect(fd, func(n ast.Node) bool {
			ce, ok := n.(*ast.CallExpr)
			if !ok || exprText(ce.Fun) != "fmt.Sprintf" || len(ce.Args) != 4 {
				return true
			}
			f, ok := strLit(ce.Args[0])
			if !ok {
				return true
			}
			args := []string{exprText(ce.Args[1]), exprText(ce.Args[2]), exprText(ce.Args[3])}
			g.def("index_url_format", "string", coqStr(f), "IndexURL format at "+g.pos(ce))
			g.def("index_url_args", "list string", coqStrList(args), "IndexURL Sprintf arguments")
			found = true
			return false
		})
		if !found {
			fail("index.go: IndexURL is not a single fmt.Sprintf of three arguments")
		}
	}

	// the signature type switch
	fd := findFunc("pkg/apk/apk/index.go", "", "parseRepositoryIndex")
	if fd == nil {
		fail("index.go: no function parseRepositoryIndex")
	} else {
		var rows []string
		var node ast.Node
		ast.Inspect(fd, func(n ast.Node) bool {
			sw, ok := n.(*ast.SwitchStmt)
			if !ok || sw.Tag == nil || exprText(sw.Tag) != "signatureType" || node != nil {
				return true
			}
			node = sw
			for _, c := range sw.Body.List {
				cc := c.(*ast.CaseClause)
				act := "other"
				if len(cc.Body) == 1 {
					switch st := cc.Body[0].(type) {
					case *ast.BranchStmt:
						if st.Tok == token.CONTINUE && st.Label == nil {
							act = "continue"
						}
					case *ast.AssignStmt:
						if len(st.Lhs) == 1 && len(st.Rhs) == 1 && exprText(st.Lhs[0]) == "digestAlgorithm" && st.Tok == token.ASSIGN {
							act = exprText(st.Rhs[0])
						}
					case *ast.ReturnStmt:
						if len(st.Results) == 2 && exprText(st.Results[0]) == "nil" {
							act = "error"
						}
					}
				}
				if cc.List == nil {
					rows = append(rows, fmt.Sprintf("(%s, %s)", coqStr("<default>"), coqStr(act)))
					continue
				}
				for _, e := range cc.List {
					s, ok := strLit(e)
					if !ok {
						fail("index.go: parseRepositoryIndex: non-literal case %s in the signature type switch", exprText(e))
						continue
					}
					rows = append(rows, fmt.Sprintf("(%s, %s)", coqStr(s), coqStr(act)))
				}
			}
			return false
		})
		if node == nil {
			fail("index.go: parseRepositoryIndex: no `switch signatureType`")
		}
		g.def("sig_type_table", "list (string * string)", "["+strings.Join(rows, "; ")+"]", "switch signatureType at "+g.pos(node))
	}

	// IndexFromArchive: strings.HasPrefix(hdr.Name, "<lit>")
	if fd := findFunc("pkg/apk/apk/apkindex.go", "", "IndexFromArchive"); fd == nil {
		fail("apkindex.go: no function IndexFromArchive")
	} else {
		n := 0
		ast.Inspect(fd, func(x ast.Node) bool {
			ce, ok := x.(*ast.CallExpr)
			if !ok || exprText(ce.Fun) != "strings.HasPrefix" || len(ce.Args) != 2 || exprText(ce.Args[0]) != "hdr.Name" {
				return true
			}
			if s, ok := strLit(ce.Args[1]); ok {
				n++
				if n == 1 {
					g.def("sign_prefix", "string", coqStr(s), "IndexFromArchive name prefix test at "+g.pos(ce))
				}
			}
			return true
		})
		if n != 1 {
			fail("apkindex.go: IndexFromArchive: expected exactly one strings.HasPrefix(hdr.Name, literal), found %d", n)
		}
	}
	g.write()
}
