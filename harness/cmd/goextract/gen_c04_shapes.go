package main

import (
	"fmt"
	"go/ast"
	"go/token"
	"strings"
)

// genC04Shapes writes Generated/IndexShapes.v: the SHAPE of the statements of
// pkg/apk/apk/index.go that C04's model transcribes by hand, read from the source
// so that a change of what they compute changes a definition the theorems mention.
// Everything is looked up by shape and role (parameters by position, locals by the
// role they play), never by a local name, and printed in a canonical text:
//
//   should_check_shape / exempt_match   shouldCheckSignatureForIndex: the guard on ignoreSignatures and the test that
//                                       exempts an index (a range loop or slices.ContainsFunc over noSignatureIndexes)
//   vctx_*                              verificationContext: guard, the two literals, the hash, what is written into the
//                                       hash per key and in which order of keys
//   no_sig_guard                        parseRepositoryIndex: the test made right after the signature loop
//   verified_*                          the flag tested after the verification loop, its initial value and the condition
//                                       under which the loop sets it
//   verify_call                         the four arguments of RSAVerifyDigest
//   digest_over / parsed_checked / parsed_unchecked / gzip_reads_from
//                                       what is hashed, what is parsed, which reader the gzip reader consumes
//
// A statement that is not found is reported as the value "<unrecognised>" (the theorems that pin the value then fail),
// not as a translator error: the other definitions stay available to the search for a failing input.
func genC04Shapes() {
	const rel = "pkg/apk/apk/index.go"
	const unk = "<unrecognised>"
	g := newGen("IndexShapes", "From Apko Require Import Base.Prelude.")

	// ---- shouldCheckSignatureForIndex ------------------------------------------------
	shape := []string{unk}
	exempt := unk
	if fd := findFunc(rel, "", "shouldCheckSignatureForIndex"); fd != nil && fd.Body != nil {
		ps := c04Params(fd)
		if len(ps) == 3 {
			sub := map[string]string{ps[0]: "$index", ps[1]: "$arch", ps[2]: "$opts"}
			shape, exempt = c04ShouldCheckShape(fd, sub)
		}
	}
	g.def("should_check_shape", "list string", coqStrList(shape), "shouldCheckSignatureForIndex, statement by statement")
	g.def("exempt_match", "string", coqStr(exempt), "the test that exempts an index, $elem ranging over $opts.noSignatureIndexes")

	// ---- verificationContext ---------------------------------------------------------
	v := c04Vctx(findFunc(rel, "", "verificationContext"))
	g.def("vctx_guard", "string", coqStr(v.guard), "verificationContext: condition of the early return")
	g.def("vctx_unverified", "string", coqStr(v.unverified), "what it returns when verification does not apply")
	g.def("vctx_prefix", "string", coqStr(v.prefix), "literal in front of the hex digest")
	g.def("vctx_hash", "string", coqStr(v.hash), "the hash constructor")
	g.def("vctx_encoding", "string", coqStr(v.encoding), "how the digest is rendered")
	g.def("vctx_domain", "string", coqStr(v.domain), "what the loop ranges over")
	g.def("vctx_sorted", "bool", coqBool(v.sorted), "the names are sorted before they are hashed")
	var ws []string
	for _, w := range v.writes {
		ws = append(ws, fmt.Sprintf("(%s, %s)", coqStr(w[0]), coqStrList(w[1:])))
	}
	g.def("vctx_writes", "list (string * list string)", "["+strings.Join(ws, "; ")+"]", "what is written into the hash for one key, in order: (call, arguments)")

	// ---- parseRepositoryIndex --------------------------------------------------------
	p := c04ParseShape(findFunc(rel, "", "parseRepositoryIndex"))
	g.def("no_sig_guard", "string", coqStr(p.noSigGuard), "the test right after the signature loop ($sigs = the slice the loop appends Signature values to)")
	g.def("verified_init", "string", coqStr(p.verifiedInit), "initial value of the flag tested after the verification loop")
	g.def("verified_guard", "string", coqStr(p.verifiedGuard), "the test right after the verification loop")
	g.def("verified_set_when", "string", coqStr(p.verifiedWhen), "path condition of the only assignment flag = true inside the loop")
	g.def("verified_then", "string", coqStr(p.verifiedThen), "how the loop goes on after setting the flag")
	g.def("verify_call", "list string", coqStrList(p.verifyCall), "arguments of RSAVerifyDigest ($digest = the per-algorithm digest map)")
	g.def("digest_over", "string", coqStr(p.digestOver), "what is written into the hash the digest is taken from, locals expanded")
	g.def("parsed_checked", "string", coqStr(p.parsedChecked), "what is parsed when the signature was checked")
	g.def("parsed_unchecked", "string", coqStr(p.parsedUnchecked), "what is parsed otherwise")
	g.def("gzip_reads_from", "string", coqStr(p.gzipFrom), "the reader handed to gzip.NewReader in the signature pass")
	g.def("signature_fill", "string", coqStr(p.sigFill), "the statement after IndexFromArchive that fills in the Signature field")

	// ---- the multi-architecture wiring: who loads which indexes with which ignore argument ----
	own, sib, sibRecv, over := c04ResolveWorldShape(findFunc("pkg/apk/apk/implementation.go", "APK", "ResolveWorld"))
	g.def("resolve_own_ignore_arg", "string", coqStr(own), "ResolveWorld: ignore-signatures argument of the load of the context's own indexes ($a = the receiver)")
	g.def("resolve_sibling_ignore_arg", "string", coqStr(sib), "ResolveWorld: ignore-signatures argument of the load of a sibling's indexes ($other = the ByArch entry)")
	g.def("resolve_sibling_receiver", "string", coqStr(sibRecv), "whose GetRepositoryIndexes loads a sibling's indexes")
	g.def("resolve_sibling_range", "string", coqStr(over), "what the sibling loop ranges over")
	g.def("apk_index_options", "list string", coqStrList(c04ApkIndexOptions(findFunc("pkg/apk/apk/repo.go", "APK", "GetRepositoryIndexes"))),
		"(*APK).GetRepositoryIndexes: the signature-related options handed to GetRepositoryIndexes ($a = the receiver, $ignore = the argument)")
	g.def("rsa_verify_steps", "list string", coqStrList(c04RsaSteps(findFunc("pkg/apk/signature/rsa.go", "", "RSAVerifyDigest"))),
		"RSAVerifyDigest, statement by statement ($digest,$type,$sig,$key = the parameters, $v<n> = locals in order of first assignment, err = any non-nil error)")
	g.write()
}

// c04RsaSteps: the straight-line body of RSAVerifyDigest in canonical text
func c04RsaSteps(fd *ast.FuncDecl) []string {
	const unk = "<unrecognised>"
	if fd == nil || fd.Body == nil {
		return []string{unk}
	}
	ps := c04Params(fd)
	if len(ps) != 4 {
		return []string{unk}
	}
	sub := map[string]string{ps[0]: "$digest", ps[1]: "$type", ps[2]: "$sig", ps[3]: "$key"}
	n := 0
	name := func(e ast.Expr) string {
		id, ok := e.(*ast.Ident)
		if !ok {
			return c04Canon(e, sub)
		}
		if id.Name == "_" {
			return "_"
		}
		if _, ok := sub[id.Name]; !ok {
			n++
			sub[id.Name] = fmt.Sprintf("$v%d", n)
		}
		return sub[id.Name]
	}
	ret := func(rs *ast.ReturnStmt) string {
		if len(rs.Results) == 1 && exprText(rs.Results[0]) == "nil" {
			return "return nil"
		}
		if len(rs.Results) == 1 {
			return "return err"
		}
		return unk
	}
	var out []string
	assign := func(as *ast.AssignStmt) {
		var rhs []string
		for _, r := range as.Rhs {
			rhs = append(rhs, c04Canon(r, sub)) // the right-hand side is read before the left-hand side is named
		}
		var lhs []string
		for _, l := range as.Lhs {
			lhs = append(lhs, name(l))
		}
		out = append(out, strings.Join(lhs, ",")+"="+strings.Join(rhs, ","))
	}
	for _, st := range fd.Body.List {
		switch x := st.(type) {
		case *ast.AssignStmt:
			assign(x)
		case *ast.IfStmt:
			if x.Init != nil {
				if as, ok := x.Init.(*ast.AssignStmt); ok {
					assign(as)
				} else {
					out = append(out, unk)
				}
			}
			if x.Else == nil && len(x.Body.List) == 1 {
				if rs, ok := x.Body.List[0].(*ast.ReturnStmt); ok {
					out = append(out, "if "+c04Canon(x.Cond, sub)+" "+ret(rs))
					continue
				}
			}
			out = append(out, unk+": "+strings.Join(strings.Fields(exprText(st)), " "))
		case *ast.ReturnStmt:
			out = append(out, ret(x))
		default:
			out = append(out, unk+": "+strings.Join(strings.Fields(exprText(st)), " "))
		}
	}
	return out
}

func c04RecvName(fd *ast.FuncDecl) string {
	if fd == nil || fd.Recv == nil || len(fd.Recv.List) != 1 || len(fd.Recv.List[0].Names) != 1 {
		return ""
	}
	return fd.Recv.List[0].Names[0].Name
}

// c04ResolveWorldShape: the second argument of <recv>.GetRepositoryIndexes(ctx, X) outside the ByArch loop, and of
// <v>.GetRepositoryIndexes(ctx, Y) inside `for _, v := range <recv>.ByArch`
func c04ResolveWorldShape(fd *ast.FuncDecl) (own, sib, sibRecv, over string) {
	const unk = "<unrecognised>"
	own, sib, sibRecv, over = unk, unk, unk, unk
	recv := c04RecvName(fd)
	if fd == nil || fd.Body == nil || recv == "" {
		return
	}
	sub := map[string]string{recv: "$a"}
	var loop *ast.RangeStmt
	ast.Inspect(fd, func(n ast.Node) bool {
		if rg, ok := n.(*ast.RangeStmt); ok && loop == nil && strings.HasSuffix(c04Canon(rg.X, sub), ".ByArch") {
			loop = rg
		}
		return true
	})
	calls := func(root ast.Node, skip ast.Node) (out []*ast.CallExpr) {
		ast.Inspect(root, func(n ast.Node) bool {
			if n == skip {
				return false
			}
			if ce, ok := n.(*ast.CallExpr); ok {
				if se, ok := ce.Fun.(*ast.SelectorExpr); ok && se.Sel.Name == "GetRepositoryIndexes" && len(ce.Args) == 2 {
					out = append(out, ce)
				}
			}
			return true
		})
		return out
	}
	var skip ast.Node
	if loop != nil {
		skip = loop
	}
	if cs := calls(fd.Body, skip); len(cs) == 1 {
		if c04Canon(cs[0].Fun.(*ast.SelectorExpr).X, sub) == "$a" {
			own = c04Canon(cs[0].Args[1], sub)
		}
	} else if len(cs) > 1 {
		own = unk + ": several loads outside the sibling loop"
	}
	if loop != nil {
		over = c04Canon(loop.X, sub)
		s2 := map[string]string{recv: "$a"}
		if v, ok := loop.Value.(*ast.Ident); ok {
			s2[v.Name] = "$other"
		}
		if k, ok := loop.Key.(*ast.Ident); ok && k.Name != "_" {
			s2[k.Name] = "$otherArch"
		}
		if cs := calls(loop.Body, nil); len(cs) == 1 {
			sibRecv = c04Canon(cs[0].Fun.(*ast.SelectorExpr).X, s2)
			sib = c04Canon(cs[0].Args[1], s2)
		} else if len(cs) > 1 {
			sib = unk + ": several loads inside the sibling loop"
		}
	}
	return
}

// c04ApkIndexOptions: in (*APK).GetRepositoryIndexes, the WithIgnoreSignatures / WithIgnoreSignatureForIndexes options that
// reach the package-level GetRepositoryIndexes
func c04ApkIndexOptions(fd *ast.FuncDecl) []string {
	const unk = "<unrecognised>"
	recv := c04RecvName(fd)
	if fd == nil || fd.Body == nil || recv == "" {
		return []string{unk}
	}
	ps := c04Params(fd)
	if len(ps) != 2 {
		return []string{unk}
	}
	sub := map[string]string{recv: "$a", ps[1]: "$ignore"}
	var out []string
	ast.Inspect(fd, func(n ast.Node) bool {
		ce, ok := n.(*ast.CallExpr)
		if !ok {
			return true
		}
		if id, ok := ce.Fun.(*ast.Ident); ok && (id.Name == "WithIgnoreSignatures" || id.Name == "WithIgnoreSignatureForIndexes") {
			t := c04Canon(ce, sub)
			if ce.Ellipsis != token.NoPos {
				t = strings.TrimSuffix(t, ")") + "...)"
			}
			out = append(out, t)
		}
		return true
	})
	if len(out) == 0 {
		return []string{unk}
	}
	return out
}

func c04Params(fd *ast.FuncDecl) []string {
	var ps []string
	for _, f := range fd.Type.Params.List {
		for _, n := range f.Names {
			ps = append(ps, n.Name)
		}
	}
	return ps
}

// canonical text of an expression: identifiers substituted, no blanks, no redundant parentheses
func c04Canon(e ast.Expr, sub map[string]string) string {
	switch x := e.(type) {
	case nil:
		return ""
	case *ast.Ident:
		if s, ok := sub[x.Name]; ok {
			return s
		}
		return x.Name
	case *ast.BasicLit:
		return x.Value
	case *ast.ParenExpr:
		return c04Canon(x.X, sub)
	case *ast.SelectorExpr:
		return c04Canon(x.X, sub) + "." + x.Sel.Name
	case *ast.IndexExpr:
		return c04Canon(x.X, sub) + "[" + c04Canon(x.Index, sub) + "]"
	case *ast.SliceExpr:
		return c04Canon(x.X, sub) + "[" + c04Canon(x.Low, sub) + ":" + c04Canon(x.High, sub) + "]"
	case *ast.StarExpr:
		return "*" + c04Canon(x.X, sub)
	case *ast.TypeAssertExpr:
		return c04Canon(x.X, sub) + ".(" + strings.Join(strings.Fields(exprText(x.Type)), "") + ")"
	case *ast.UnaryExpr:
		if x.Op == token.NOT {
			// !(a != b) is a == b, !(a == b) is a != b, !!a is a
			in := x.X
			for {
				p, ok := in.(*ast.ParenExpr)
				if !ok {
					break
				}
				in = p.X
			}
			if b, ok := in.(*ast.BinaryExpr); ok && (b.Op == token.NEQ || b.Op == token.EQL) {
				op := "=="
				if b.Op == token.EQL {
					op = "!="
				}
				return c04Canon(b.X, sub) + op + c04Canon(b.Y, sub)
			}
			if u, ok := in.(*ast.UnaryExpr); ok && u.Op == token.NOT {
				return c04Canon(u.X, sub)
			}
		}
		return x.Op.String() + c04Canon(x.X, sub)
	case *ast.BinaryExpr:
		l, r := c04Canon(x.X, sub), c04Canon(x.Y, sub)
		if (x.Op == token.EQL || x.Op == token.NEQ) && (r != "nil" && r != "0" && r != "true" && r != "false") {
			// a comparison is printed with the call (or the longer operand) on the left
			_, lc := c04Strip(x.X).(*ast.CallExpr)
			_, rc := c04Strip(x.Y).(*ast.CallExpr)
			if (rc && !lc) || l == "nil" || l == "0" {
				l, r = r, l
			}
		}
		return l + x.Op.String() + r
	case *ast.CallExpr:
		var as []string
		for _, a := range x.Args {
			as = append(as, c04Canon(a, sub))
		}
		return c04Canon(x.Fun, sub) + "(" + strings.Join(as, ",") + ")"
	}
	return strings.Join(strings.Fields(exprText(e)), "")
}

func c04Strip(e ast.Expr) ast.Expr {
	for {
		p, ok := e.(*ast.ParenExpr)
		if !ok {
			return e
		}
		e = p.X
	}
}

// locals defined exactly once by `x := e` (and never assigned again) in fd, for expansion
func c04SingleDefs(fd *ast.FuncDecl) map[string]ast.Expr {
	defs := map[string]ast.Expr{}
	count := map[string]int{}
	ast.Inspect(fd, func(n ast.Node) bool {
		switch x := n.(type) {
		case *ast.AssignStmt:
			if len(x.Lhs) == len(x.Rhs) {
				for i, l := range x.Lhs {
					if id, ok := l.(*ast.Ident); ok && id.Name != "_" {
						count[id.Name]++
						if x.Tok == token.DEFINE {
							defs[id.Name] = x.Rhs[i]
						}
					}
				}
			} else {
				for _, l := range x.Lhs {
					if id, ok := l.(*ast.Ident); ok {
						count[id.Name] += 2
					}
				}
			}
		case *ast.IncDecStmt:
			if id, ok := x.X.(*ast.Ident); ok {
				count[id.Name] += 2
			}
		case *ast.RangeStmt:
			for _, e := range []ast.Expr{x.Key, x.Value} {
				if id, ok := e.(*ast.Ident); ok {
					count[id.Name] += 2
				}
			}
		case *ast.ValueSpec:
			for _, id := range x.Names {
				count[id.Name] += 2
			}
		}
		return true
	})
	for n := range defs {
		if count[n] != 1 {
			delete(defs, n)
		}
	}
	return defs
}

// c04Expand: canonical text with single-definition locals replaced by what they stand for
func c04Expand(e ast.Expr, sub map[string]string, defs map[string]ast.Expr) string {
	seen := map[string]string{}
	full := map[string]string{}
	for k, v := range sub {
		full[k] = v
	}
	var expandName func(name string, depth int) string
	expandName = func(name string, depth int) string {
		if s, ok := seen[name]; ok {
			return s
		}
		d, ok := defs[name]
		if !ok || depth > 8 {
			return ""
		}
		seen[name] = name // cycle guard
		// expand the names inside the definition first
		ast.Inspect(d, func(n ast.Node) bool {
			if id, ok := n.(*ast.Ident); ok {
				if _, isSub := full[id.Name]; !isSub {
					if t := expandName(id.Name, depth+1); t != "" {
						full[id.Name] = t
					}
				}
			}
			return true
		})
		s := c04Canon(d, full)
		seen[name] = s
		return s
	}
	ast.Inspect(e, func(n ast.Node) bool {
		if id, ok := n.(*ast.Ident); ok {
			if _, isSub := full[id.Name]; !isSub {
				if t := expandName(id.Name, 0); t != "" {
					full[id.Name] = t
				}
			}
		}
		return true
	})
	return c04Canon(e, full)
}

func c04ReturnsBool(s ast.Stmt, want string) bool {
	rs, ok := s.(*ast.ReturnStmt)
	return ok && len(rs.Results) == 1 && exprText(rs.Results[0]) == want
}

func c04SingleReturnBody(b *ast.BlockStmt, want string) bool {
	return b != nil && len(b.List) == 1 && c04ReturnsBool(b.List[0], want)
}

func c04ShouldCheckShape(fd *ast.FuncDecl, sub map[string]string) (shape []string, exempt string) {
	const unk = "<unrecognised>"
	exempt = unk
	list := fd.Body.List
	containsFunc := func(e ast.Expr) (string, bool) {
		// slices.ContainsFunc(<opts>.noSignatureIndexes, func(v string) bool { return C })
		ce, ok := c04Strip(e).(*ast.CallExpr)
		if !ok || len(ce.Args) != 2 {
			return "", false
		}
		if f := exprText(ce.Fun); f != "slices.ContainsFunc" {
			return "", false
		}
		if c04Canon(ce.Args[0], sub) != "$opts.noSignatureIndexes" {
			return "", false
		}
		fl, ok := ce.Args[1].(*ast.FuncLit)
		if !ok || len(fl.Type.Params.List) != 1 || len(fl.Type.Params.List[0].Names) != 1 || len(fl.Body.List) != 1 {
			return "", false
		}
		rs, ok := fl.Body.List[0].(*ast.ReturnStmt)
		if !ok || len(rs.Results) != 1 {
			return "", false
		}
		s2 := map[string]string{fl.Type.Params.List[0].Names[0].Name: "$elem"}
		for k, v := range sub {
			s2[k] = v
		}
		return c04Canon(rs.Results[0], s2), true
	}
	i := 0
	for i < len(list) {
		st := list[i]
		switch x := st.(type) {
		case *ast.IfStmt:
			if x.Init == nil && x.Else == nil && c04SingleReturnBody(x.Body, "false") {
				shape = append(shape, "if "+c04Canon(x.Cond, sub)+" return false")
				i++
				continue
			}
		case *ast.RangeStmt:
			if v, ok := x.Value.(*ast.Ident); ok && c04Canon(x.X, sub) == "$opts.noSignatureIndexes" && len(x.Body.List) == 1 {
				if is, ok := x.Body.List[0].(*ast.IfStmt); ok && is.Init == nil && is.Else == nil && c04SingleReturnBody(is.Body, "false") {
					s2 := map[string]string{v.Name: "$elem"}
					for k, vv := range sub {
						s2[k] = vv
					}
					exempt = c04Canon(is.Cond, s2)
					shape = append(shape, "if exists $elem in $opts.noSignatureIndexes: "+exempt+" return false")
					i++
					continue
				}
			}
		case *ast.AssignStmt:
			// x := slices.ContainsFunc(...); return !x
			if x.Tok == token.DEFINE && len(x.Lhs) == 1 && len(x.Rhs) == 1 && i+1 < len(list) {
				if id, ok := x.Lhs[0].(*ast.Ident); ok {
					if c, ok := containsFunc(x.Rhs[0]); ok && c04ReturnsBool(list[i+1], "!"+id.Name) && i+2 == len(list) {
						exempt = c
						shape = append(shape, "if exists $elem in $opts.noSignatureIndexes: "+exempt+" return false", "return true")
						return shape, exempt
					}
				}
			}
		case *ast.ReturnStmt:
			if c04ReturnsBool(x, "true") && i+1 == len(list) {
				shape = append(shape, "return true")
				return shape, exempt
			}
			if len(x.Results) == 1 && i+1 == len(list) {
				if u, ok := c04Strip(x.Results[0]).(*ast.UnaryExpr); ok && u.Op == token.NOT {
					if c, ok := containsFunc(u.X); ok {
						exempt = c
						shape = append(shape, "if exists $elem in $opts.noSignatureIndexes: "+exempt+" return false", "return true")
						return shape, exempt
					}
				}
			}
		}
		shape = append(shape, unk+": "+strings.Join(strings.Fields(exprText(st)), " "))
		i++
	}
	return shape, exempt
}

type c04VctxShape struct {
	guard, unverified, prefix, hash, encoding, domain string
	sorted                                            bool
	writes                                            [][]string
}

func c04Vctx(fd *ast.FuncDecl) c04VctxShape {
	const unk = "<unrecognised>"
	r := c04VctxShape{guard: unk, unverified: unk, prefix: unk, hash: unk, encoding: unk, domain: unk}
	if fd == nil || fd.Body == nil {
		return r
	}
	ps := c04Params(fd)
	if len(ps) != 4 {
		return r
	}
	sub := map[string]string{ps[0]: "$u", ps[1]: "$keys", ps[2]: "$arch", ps[3]: "$opts"}
	// the early return
	for _, st := range fd.Body.List {
		if is, ok := st.(*ast.IfStmt); ok && is.Init == nil && is.Else == nil && len(is.Body.List) == 1 {
			if rs, ok := is.Body.List[0].(*ast.ReturnStmt); ok && len(rs.Results) == 1 {
				if s, ok := strLit(rs.Results[0]); ok {
					r.guard = c04Canon(is.Cond, sub)
					r.unverified = s
					break
				}
			}
		}
	}
	// the slice of names: `for n := range keys { X = append(X, n) }`
	namesVar := ""
	ast.Inspect(fd, func(n ast.Node) bool {
		rg, ok := n.(*ast.RangeStmt)
		if !ok || c04Canon(rg.X, sub) != "$keys" || rg.Value != nil || len(rg.Body.List) != 1 {
			return true
		}
		k, ok := rg.Key.(*ast.Ident)
		if !ok {
			return true
		}
		as, ok := rg.Body.List[0].(*ast.AssignStmt)
		if !ok || len(as.Lhs) != 1 || len(as.Rhs) != 1 {
			return true
		}
		ce, ok := as.Rhs[0].(*ast.CallExpr)
		if !ok || exprText(ce.Fun) != "append" || len(ce.Args) != 2 || exprText(ce.Args[0]) != exprText(as.Lhs[0]) || exprText(ce.Args[1]) != k.Name {
			return true
		}
		namesVar = exprText(as.Lhs[0])
		return false
	})
	// … or the library's spelling of that loop: X := maps.Keys(keys) (golang.org/x/exp/maps: a slice in map order),
	// X := slices.Collect(maps.Keys(keys)), X := slices.Sorted(maps.Keys(keys)) (sorted as well)
	if namesVar == "" {
		ast.Inspect(fd, func(n ast.Node) bool {
			as, ok := n.(*ast.AssignStmt)
			if !ok || len(as.Lhs) != 1 || len(as.Rhs) != 1 || namesVar != "" {
				return true
			}
			ce, ok := as.Rhs[0].(*ast.CallExpr)
			if !ok || len(ce.Args) != 1 {
				return true
			}
			keysOf := func(e ast.Expr) bool {
				c, ok := e.(*ast.CallExpr)
				return ok && exprText(c.Fun) == "maps.Keys" && len(c.Args) == 1 && c04Canon(c.Args[0], sub) == "$keys"
			}
			switch f := exprText(ce.Fun); {
			case keysOf(ce):
				namesVar = exprText(as.Lhs[0])
			case (f == "slices.Collect" || f == "slices.Sorted") && keysOf(ce.Args[0]):
				namesVar = exprText(as.Lhs[0])
				if f == "slices.Sorted" {
					r.sorted = true
				}
			}
			return true
		})
	}
	// sorted?
	ast.Inspect(fd, func(n ast.Node) bool {
		ce, ok := n.(*ast.CallExpr)
		if !ok || len(ce.Args) != 1 || namesVar == "" || exprText(ce.Args[0]) != namesVar {
			return true
		}
		if f := exprText(ce.Fun); f == "sort.Strings" || f == "slices.Sort" {
			r.sorted = true
		}
		return true
	})
	// the hash object and the loop that feeds it
	hashVar := ""
	defs := c04SingleDefs(fd)
	for n, d := range defs {
		if ce, ok := d.(*ast.CallExpr); ok && len(ce.Args) == 0 {
			if f := exprText(ce.Fun); strings.HasSuffix(f, ".New") && (strings.HasPrefix(f, "sha") || strings.HasPrefix(f, "md5")) {
				hashVar = n
				r.hash = f
			}
		}
	}
	ast.Inspect(fd, func(n ast.Node) bool {
		rg, ok := n.(*ast.RangeStmt)
		if !ok || namesVar == "" || exprText(rg.X) != namesVar || hashVar == "" {
			return true
		}
		v, ok := rg.Value.(*ast.Ident)
		if !ok {
			return true
		}
		r.domain = "names of $keys"
		s2 := map[string]string{v.Name: "$name", hashVar: "$h"}
		for k, vv := range sub {
			s2[k] = vv
		}
		for _, st := range rg.Body.List {
			es, ok := st.(*ast.ExprStmt)
			if !ok {
				r.writes = append(r.writes, []string{unk, strings.Join(strings.Fields(exprText(st)), " ")})
				continue
			}
			ce, ok := es.X.(*ast.CallExpr)
			if !ok {
				r.writes = append(r.writes, []string{unk, strings.Join(strings.Fields(exprText(st)), " ")})
				continue
			}
			f := c04Canon(ce.Fun, s2)
			var row []string
			switch {
			case f == "fmt.Fprintf" && len(ce.Args) >= 2 && c04Canon(ce.Args[0], s2) == "$h":
				row = []string{"Fprintf"}
				if s, ok := strLit(ce.Args[1]); ok {
					row = append(row, s)
				} else {
					row = append(row, unk)
				}
				for _, a := range ce.Args[2:] {
					row = append(row, c04Canon(a, s2))
				}
			case f == "$h.Write" && len(ce.Args) == 1:
				row = []string{"Write", c04Canon(ce.Args[0], s2)}
			case (f == "io.WriteString" && len(ce.Args) == 2 && c04Canon(ce.Args[0], s2) == "$h"):
				row = []string{"Write", c04Canon(ce.Args[1], s2)}
			case f == "$h.WriteString" && len(ce.Args) == 1:
				row = []string{"Write", c04Canon(ce.Args[0], s2)}
			default:
				row = []string{unk, c04Canon(ce, s2)}
			}
			r.writes = append(r.writes, row)
		}
		return false
	})
	// the result: "lit" + hex.EncodeToString(h.Sum(nil))
	for _, st := range fd.Body.List {
		rs, ok := st.(*ast.ReturnStmt)
		if !ok || len(rs.Results) != 1 {
			continue
		}
		b, ok := c04Strip(rs.Results[0]).(*ast.BinaryExpr)
		if !ok || b.Op != token.ADD {
			continue
		}
		if s, ok := strLit(b.X); ok {
			r.prefix = s
			r.encoding = c04Canon(b.Y, map[string]string{hashVar: "$h"})
		}
	}
	return r
}

type c04ParseShapeT struct {
	noSigGuard, verifiedInit, verifiedGuard, verifiedWhen, verifiedThen string
	verifyCall                                                          []string
	digestOver, parsedChecked, parsedUnchecked, gzipFrom, sigFill       string
}

// terminates: the block's last statement leaves the enclosing loop iteration or the function
func c04Terminates(b *ast.BlockStmt) bool {
	if b == nil || len(b.List) == 0 {
		return false
	}
	switch x := b.List[len(b.List)-1].(type) {
	case *ast.BranchStmt:
		return x.Tok == token.CONTINUE || x.Tok == token.BREAK
	case *ast.ReturnStmt:
		return true
	}
	return false
}

// c04PathTo: the conditions under which control reaches the statement `target` inside list, in canonical text
// (conjuncts in order); ok = false when target is not inside list.
func c04PathTo(list []ast.Stmt, target ast.Stmt, sub map[string]string, defs map[string]ast.Expr) (conds []string, ok bool) {
	for _, st := range list {
		if st == target {
			return conds, true
		}
		switch x := st.(type) {
		case *ast.IfStmt:
			d2 := defs
			if x.Init != nil {
				if as, isAs := x.Init.(*ast.AssignStmt); isAs && as.Tok == token.DEFINE && len(as.Lhs) == len(as.Rhs) {
					d2 = map[string]ast.Expr{}
					for k, v := range defs {
						d2[k] = v
					}
					for i, l := range as.Lhs {
						if id, isId := l.(*ast.Ident); isId {
							d2[id.Name] = as.Rhs[i]
						}
					}
				}
			}
			c := c04Expand(x.Cond, sub, d2)
			nc := c04Expand(&ast.UnaryExpr{Op: token.NOT, X: &ast.ParenExpr{X: x.Cond}}, sub, d2)
			if in, found := c04PathTo(x.Body.List, target, sub, d2); found {
				return append(append(conds, c), in...), true
			}
			if x.Else != nil {
				var els []ast.Stmt
				if b, isB := x.Else.(*ast.BlockStmt); isB {
					els = b.List
				} else {
					els = []ast.Stmt{x.Else}
				}
				if in, found := c04PathTo(els, target, sub, d2); found {
					return append(append(conds, nc), in...), true
				}
				if b, isB := x.Else.(*ast.BlockStmt); isB && c04Terminates(b) && !c04Terminates(x.Body) {
					conds = append(conds, c)
				} else if c04Terminates(x.Body) && !(isB && c04Terminates(b)) {
					conds = append(conds, nc)
				}
			} else if c04Terminates(x.Body) {
				conds = append(conds, nc)
			}
		case *ast.BlockStmt:
			if in, found := c04PathTo(x.List, target, sub, defs); found {
				return append(conds, in...), true
			}
		}
	}
	return nil, false
}

func c04ParseShape(fd *ast.FuncDecl) c04ParseShapeT {
	const unk = "<unrecognised>"
	r := c04ParseShapeT{noSigGuard: unk, verifiedInit: unk, verifiedGuard: unk, verifiedWhen: unk, verifiedThen: unk,
		verifyCall: []string{unk}, digestOver: unk, parsedChecked: unk, parsedUnchecked: unk, gzipFrom: unk, sigFill: unk}
	if fd == nil || fd.Body == nil {
		return r
	}
	ps := c04Params(fd)
	if len(ps) != 6 {
		return r
	}
	sub := map[string]string{ps[0]: "$ctx", ps[1]: "$u", ps[2]: "$keys", ps[3]: "$arch", ps[4]: "$b", ps[5]: "$opts"}
	defs := c04SingleDefs(fd)

	// the block guarded by shouldCheckSignatureForIndex(...)
	var checked *ast.BlockStmt
	for _, st := range fd.Body.List {
		if is, ok := st.(*ast.IfStmt); ok && is.Init == nil && strings.HasPrefix(c04Expand(is.Cond, sub, defs), "shouldCheckSignatureForIndex(") {
			checked = is.Body
		}
	}
	if checked == nil {
		return r
	}
	// the signature loop: `for { ... X = append(X, Signature{...}) ... }`; $sigs = X
	sigsVar := ""
	sigLoopIdx := -1
	for i, st := range checked.List {
		fs, ok := st.(*ast.ForStmt)
		if !ok || fs.Cond != nil {
			continue
		}
		ast.Inspect(fs, func(n ast.Node) bool {
			as, ok := n.(*ast.AssignStmt)
			if !ok || len(as.Lhs) != 1 || len(as.Rhs) != 1 {
				return true
			}
			ce, ok := as.Rhs[0].(*ast.CallExpr)
			if !ok || exprText(ce.Fun) != "append" || len(ce.Args) != 2 || exprText(ce.Args[0]) != exprText(as.Lhs[0]) {
				return true
			}
			if cl, ok := ce.Args[1].(*ast.CompositeLit); ok && exprText(cl.Type) == "Signature" {
				sigsVar = exprText(as.Lhs[0])
				sigLoopIdx = i
			}
			return true
		})
	}
	if sigsVar != "" {
		sub[sigsVar] = "$sigs"
		// the statement right after the loop
		if sigLoopIdx+1 < len(checked.List) {
			if is, ok := checked.List[sigLoopIdx+1].(*ast.IfStmt); ok && is.Init == nil && c04Terminates(is.Body) {
				r.noSigGuard = c04Canon(is.Cond, sub)
			}
		}
	}
	// the verification loop: `for _, s := range $sigs { ... }`
	var vloop *ast.RangeStmt
	vloopIdx := -1
	for i, st := range checked.List {
		if rg, ok := st.(*ast.RangeStmt); ok && sigsVar != "" && exprText(rg.X) == sigsVar {
			vloop, vloopIdx = rg, i
		}
	}
	if vloop != nil {
		sigVar := ""
		if v, ok := vloop.Value.(*ast.Ident); ok {
			sigVar = v.Name
			sub[sigVar] = "$sig"
		}
		// the digest map: M[K] = X.Sum(nil)
		hashObj := ""
		ast.Inspect(vloop, func(n ast.Node) bool {
			as, ok := n.(*ast.AssignStmt)
			if !ok || len(as.Lhs) != 1 || len(as.Rhs) != 1 {
				return true
			}
			ix, ok := as.Lhs[0].(*ast.IndexExpr)
			if !ok {
				return true
			}
			ce, ok := as.Rhs[0].(*ast.CallExpr)
			if !ok {
				return true
			}
			if se, ok := ce.Fun.(*ast.SelectorExpr); ok && se.Sel.Name == "Sum" {
				if id, ok := ix.X.(*ast.Ident); ok {
					sub[id.Name] = "$digest"
				}
				hashObj = exprText(se.X)
			}
			return true
		})
		// what is written into that hash object
		ast.Inspect(vloop, func(n ast.Node) bool {
			ce, ok := n.(*ast.CallExpr)
			if !ok || len(ce.Args) != 1 {
				return true
			}
			if se, ok := ce.Fun.(*ast.SelectorExpr); ok && se.Sel.Name == "Write" && hashObj != "" && exprText(se.X) == hashObj {
				r.digestOver = c04Expand(ce.Args[0], sub, defs)
			}
			return true
		})
		// the call of RSAVerifyDigest
		ast.Inspect(vloop, func(n ast.Node) bool {
			ce, ok := n.(*ast.CallExpr)
			if !ok {
				return true
			}
			if se, ok := ce.Fun.(*ast.SelectorExpr); ok && se.Sel.Name == "RSAVerifyDigest" {
				r.verifyCall = nil
				for _, a := range ce.Args {
					r.verifyCall = append(r.verifyCall, c04Canon(a, sub))
				}
			}
			return true
		})
		// the flag: tested right after the loop
		flag := ""
		if vloopIdx+1 < len(checked.List) {
			if is, ok := checked.List[vloopIdx+1].(*ast.IfStmt); ok && is.Init == nil && c04Terminates(is.Body) {
				cond := c04Strip(is.Cond)
				if u, ok := cond.(*ast.UnaryExpr); ok && u.Op == token.NOT {
					if id, ok := c04Strip(u.X).(*ast.Ident); ok {
						flag = id.Name
					}
				}
				s2 := map[string]string{}
				for k, v := range sub {
					s2[k] = v
				}
				if flag != "" {
					s2[flag] = "$verified"
				}
				r.verifiedGuard = c04Canon(is.Cond, s2)
			}
		}
		if flag != "" {
			// initial value
			for _, st := range checked.List {
				if as, ok := st.(*ast.AssignStmt); ok && as.Tok == token.DEFINE && len(as.Lhs) == 1 && exprText(as.Lhs[0]) == flag {
					r.verifiedInit = c04Canon(as.Rhs[0], sub)
				}
				if ds, ok := st.(*ast.DeclStmt); ok {
					if gd, ok := ds.Decl.(*ast.GenDecl); ok {
						for _, sp := range gd.Specs {
							if vs, ok := sp.(*ast.ValueSpec); ok && len(vs.Names) == 1 && vs.Names[0].Name == flag {
								if len(vs.Values) == 1 {
									r.verifiedInit = c04Canon(vs.Values[0], sub)
								} else if len(vs.Values) == 0 && exprText(vs.Type) == "bool" {
									r.verifiedInit = "false"
								}
							}
						}
					}
				}
			}
			// the assignments to the flag inside the loop
			var sets []*ast.AssignStmt
			ast.Inspect(vloop.Body, func(n ast.Node) bool {
				if as, ok := n.(*ast.AssignStmt); ok {
					for _, l := range as.Lhs {
						if exprText(l) == flag {
							sets = append(sets, as)
						}
					}
				}
				return true
			})
			if len(sets) == 1 && len(sets[0].Lhs) == 1 && exprText(sets[0].Rhs[0]) == "true" {
				ldefs := map[string]ast.Expr{}
				for k, v := range defs {
					ldefs[k] = v
				}
				if conds, ok := c04PathTo(vloop.Body.List, sets[0], sub, ldefs); ok {
					// conditions that only guard the digest cache are not on the path (they sit in their own if without else)
					r.verifiedWhen = strings.Join(conds, " && ")
					if len(conds) == 0 {
						r.verifiedWhen = "true"
					}
				}
				// what follows the assignment in its block: the loop must be left
				r.verifiedThen = "goes on"
				var find func(list []ast.Stmt) bool
				find = func(list []ast.Stmt) bool {
					for i, st := range list {
						if st == ast.Stmt(sets[0]) {
							for _, nx := range list[i+1:] {
								if br, ok := nx.(*ast.BranchStmt); ok && br.Tok == token.BREAK {
									r.verifiedThen = "break"
								}
							}
							return true
						}
						found := false
						ast.Inspect(st, func(n ast.Node) bool {
							if b, ok := n.(*ast.BlockStmt); ok && !found {
								if find(b.List) {
									found = true
								}
								return false
							}
							return !found
						})
						if found {
							return true
						}
					}
					return false
				}
				find(vloop.Body.List)
			} else if len(sets) > 0 {
				r.verifiedWhen = unk + ": the flag is assigned in several places or not to true"
			}
		}
	}
	// what is parsed: `P := $b` at the top, `P = E` inside the checked block, IndexFromArchive(... P ...)
	parsedVar := ""
	ast.Inspect(fd, func(n ast.Node) bool {
		ce, ok := n.(*ast.CallExpr)
		if !ok || exprText(ce.Fun) != "IndexFromArchive" || len(ce.Args) != 1 {
			return true
		}
		// innermost argument of the reader wrappers
		a := ce.Args[0]
		for {
			in, ok := c04Strip(a).(*ast.CallExpr)
			if !ok || len(in.Args) != 1 {
				break
			}
			a = in.Args[0]
		}
		if id, ok := c04Strip(a).(*ast.Ident); ok {
			parsedVar = id.Name
		} else {
			r.parsedChecked = c04Expand(a, sub, defs)
			r.parsedUnchecked = r.parsedChecked
		}
		return true
	})
	if parsedVar != "" {
		for _, st := range fd.Body.List {
			if as, ok := st.(*ast.AssignStmt); ok && as.Tok == token.DEFINE && len(as.Lhs) == 1 && exprText(as.Lhs[0]) == parsedVar {
				r.parsedUnchecked = c04Expand(as.Rhs[0], sub, defs)
			}
		}
		n := 0
		ast.Inspect(checked, func(x ast.Node) bool {
			if as, ok := x.(*ast.AssignStmt); ok && as.Tok == token.ASSIGN && len(as.Lhs) == 1 && exprText(as.Lhs[0]) == parsedVar {
				n++
				r.parsedChecked = c04Expand(as.Rhs[0], sub, defs)
			}
			return true
		})
		if n == 0 {
			r.parsedChecked = r.parsedUnchecked // never reassigned: the same bytes are parsed either way
		} else if n > 1 {
			r.parsedChecked = unk + ": assigned more than once"
		}
	}
	// the gzip reader of the signature pass
	ast.Inspect(checked, func(n ast.Node) bool {
		ce, ok := n.(*ast.CallExpr)
		if ok && exprText(ce.Fun) == "gzip.NewReader" && len(ce.Args) == 1 {
			r.gzipFrom = c04Expand(ce.Args[0], sub, defs)
		}
		return true
	})
	// index.Signature fill-in after IndexFromArchive
	for _, st := range fd.Body.List {
		is, ok := st.(*ast.IfStmt)
		if !ok || is.Init != nil || is.Else != nil || len(is.Body.List) != 1 {
			continue
		}
		as, ok := is.Body.List[0].(*ast.AssignStmt)
		if !ok || len(as.Lhs) != 1 || len(as.Rhs) != 1 {
			continue
		}
		if se, ok := as.Lhs[0].(*ast.SelectorExpr); ok && se.Sel.Name == "Signature" {
			s2 := map[string]string{exprText(se.X): "$index"}
			for k, v := range sub {
				s2[k] = v
			}
			// the variable assigned sig.Signature next to the flag
			ast.Inspect(fd, func(n ast.Node) bool {
				a2, ok := n.(*ast.AssignStmt)
				if ok && len(a2.Lhs) == 1 && len(a2.Rhs) == 1 && c04Canon(a2.Rhs[0], sub) == "$sig.Signature" {
					if id, ok := a2.Lhs[0].(*ast.Ident); ok {
						s2[id.Name] = "$verifiedSignature"
					}
				}
				return true
			})
			r.sigFill = "if " + c04Canon(is.Cond, s2) + " " + c04Canon(as.Lhs[0], s2) + "=" + c04Canon(as.Rhs[0], s2)
		}
	}
	return r
}
