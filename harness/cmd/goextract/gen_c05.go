package main

import (
	"go/ast"
)

// genC05 writes Generated/C05Sum.v: the literals checksumFromHeader
// (pkg/apk/apk/install.go) decides by — the PAX record key of a per-file checksum
// (the constant the function indexes header.PAXRecords with) and the prefix that
// selects the base64 form (the literal of its strings.HasPrefix test).
func genC05() {
	g := newGen("C05Sum", "From Apko Require Import Base.Prelude.\nOpen Scope string_scope.")
	const rel = "pkg/apk/apk/install.go"
	fd := findFunc(rel, "", "checksumFromHeader")
	if fd == nil {
		fail("%s: no function checksumFromHeader", rel)
		g.write()
		return
	}
	// the key: the index expression of the one map lookup `x, ok := m[KEY]`
	var key ast.Expr
	var prefixes []string
	ast.Inspect(fd, func(n ast.Node) bool {
		switch v := n.(type) {
		case *ast.AssignStmt:
			if len(v.Lhs) == 2 && len(v.Rhs) == 1 {
				if ix, ok := v.Rhs[0].(*ast.IndexExpr); ok && key == nil {
					key = ix.Index
				}
			}
		case *ast.CallExpr:
			// the prefix test in any of its library spellings (HasPrefix + TrimPrefix, CutPrefix): one distinct literal
			if f := exprText(v.Fun); (f == "strings.HasPrefix" || f == "strings.CutPrefix" || f == "strings.TrimPrefix") && len(v.Args) == 2 {
				if s, ok := strLit(v.Args[1]); ok {
					dup := false
					for _, p := range prefixes {
						dup = dup || p == s
					}
					if !dup {
						prefixes = append(prefixes, s)
					}
				}
			}
		}
		return true
	})
	keyStr, ok := "", false
	if key != nil {
		if keyStr, ok = strLit(key); !ok {
			if id, isID := key.(*ast.Ident); isID {
				keyStr, ok = strLit(findValue("pkg/apk/apk/const.go", id.Name))
				if !ok {
					keyStr, ok = strLit(findValue(rel, id.Name))
				}
			}
		}
	}
	if !ok {
		fail("%s: checksumFromHeader: the key of the PAX record lookup is not a string literal or constant", rel)
	}
	if len(prefixes) != 1 {
		fail("%s: checksumFromHeader: expected one literal prefix in its strings.HasPrefix / CutPrefix / TrimPrefix calls, found %d", rel, len(prefixes))
		prefixes = []string{""}
	}
	g.def("pax_checksum_key", "string", coqStr(keyStr), "the PAX record checksumFromHeader reads, "+g.pos(fd))
	g.def("checksum_b64_prefix", "string", coqStr(prefixes[0]), "the prefix that selects the base64 form of the record")
	g.write()
}
