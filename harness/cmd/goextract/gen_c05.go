package main

import (
	"go/ast"
	"path/filepath"
	"strings"
)

// genC05 writes Generated/C05Sum.v: the literals checksumFromHeader
// (pkg/apk/apk/install.go) decides by — the PAX record key of a per-file checksum
// (the constant the function indexes header.PAXRecords with) and the prefix that
// selects the base64 form (the literal of its strings.HasPrefix test).
func genC05() {
	g := newGen("C05Sum", "From Apko Require Import Base.Prelude.\nOpen Scope string_scope. Open Scope list_scope.")
	// the three copies of checksumFromHeader: the one checkSums verifies with, the streaming installer's, the lazy installer's
	sites := []struct{ coq, rel string }{
		{"expandapk", "pkg/apk/expandapk/utility.go"},
		{"install", "pkg/apk/apk/install.go"},
		{"tarfs", "pkg/tarfs/fs.go"},
	}
	var rows []string
	for i, st := range sites {
		key, prefix := c05SumLiterals(st.rel)
		if i == 0 {
			g.def("pax_checksum_key", "string", coqStr(key), "the PAX record checksumFromHeader reads ("+st.rel+", the copy checkSums verifies with)")
			g.def("checksum_b64_prefix", "string", coqStr(prefix), "the prefix that selects the base64 form of the record")
		}
		rows = append(rows, "("+coqStr(st.coq)+", ("+coqStr(key)+", "+coqStr(prefix)+"))")
	}
	g.def("checksum_sites", "list (string * (string * string))", "["+strings.Join(rows, "; ")+"]",
		"key and prefix of every copy of checksumFromHeader (expandapk/utility.go, apk/install.go, tarfs/fs.go): the model has ONE function, Properties/C05.v demands that they agree")
	g.write()
}

// c05SumLiterals reads, from the function checksumFromHeader of one file, the key of its one map lookup (a string literal
// or a constant of its package) and the one literal prefix of its strings.HasPrefix / CutPrefix / TrimPrefix calls.
func c05SumLiterals(rel string) (string, string) {
	fd := findFunc(rel, "", "checksumFromHeader")
	if fd == nil {
		fail("%s: no function checksumFromHeader", rel)
		return "", ""
	}
	var key ast.Expr
	var prefixes []string
	ast.Inspect(fd, func(n ast.Node) bool {
		switch v := n.(type) {
		case *ast.AssignStmt:
			if len(v.Lhs) == 2 && len(v.Rhs) == 1 {
				if ix, ok := v.Rhs[0].(*ast.IndexExpr); ok && key == nil {
					key = ix.Index
				}
			}
		case *ast.CallExpr:
			if f := exprText(v.Fun); (f == "strings.HasPrefix" || f == "strings.CutPrefix" || f == "strings.TrimPrefix") && len(v.Args) == 2 {
				if s, ok := strLit(v.Args[1]); ok {
					dup := false
					for _, p := range prefixes {
						dup = dup || p == s
					}
					if !dup {
						prefixes = append(prefixes, s)
					}
				}
			}
		}
		return true
	})
	keyStr, ok := "", false
	if key != nil {
		if keyStr, ok = strLit(key); !ok {
			if id, isID := key.(*ast.Ident); isID {
				// a constant declared in some file of the same package
				dir := rel[:strings.LastIndex(rel, "/")]
				matches, _ := filepath.Glob(filepath.Join(*repo, dir, "*.go"))
				for _, m := range matches {
					if strings.HasSuffix(m, "_test.go") {
						continue
					}
					if f := load(dir + "/" + filepath.Base(m)); f != nil {
						for _, d := range f.Decls {
							gd, isGen := d.(*ast.GenDecl)
							if !isGen {
								continue
							}
							for _, sp := range gd.Specs {
								if vs, isVal := sp.(*ast.ValueSpec); isVal {
									for i, nm := range vs.Names {
										if nm.Name == id.Name && i < len(vs.Values) {
											keyStr, ok = strLit(vs.Values[i])
										}
									}
								}
							}
						}
					}
					if ok {
						break
					}
				}
			}
		}
	}
	if !ok {
		fail("%s: checksumFromHeader: the key of the PAX record lookup is not a string literal or constant", rel)
	}
	if len(prefixes) != 1 {
		fail("%s: checksumFromHeader: expected one literal prefix in its strings.HasPrefix / CutPrefix / TrimPrefix calls, found %d", rel, len(prefixes))
		return keyStr, ""
	}
	return keyStr, prefixes[0]
}
