package main

import (
	"fmt"
	"go/ast"
	"go/token"
	"sort"
	"strings"
)

// genC06 writes Generated/C06Tar.v: what pkg/build/tarball.go fixes about the
// byte-level encoding of a layer (Model/TarBytes.v):
//   - the PAX key prefix under which walkFS stores extended attributes
//     (const xattrTarPAXRecordsPrefix) and the shape of the store
//     `header.PAXRecords[xattrTarPAXRecordsPrefix+name] = string(value)`;
//   - the typeflags for which walkFS copies extended attributes (the guard of
//     that store);
//   - header.Format as walkFS leaves it (0 = never assigned: tar.Writer then
//     rounds ModTime and picks USTAR, else PAX, else GNU);
//   - that walkFS assigns none of the header fields the byte model keeps at
//     their zero value (AccessTime, ChangeTime, Xattrs);
//   - that writeTar closes the tar writer (two zero blocks);
//   - what the fs.WalkDir callback does when the context is cancelled (returns
//     the error or ends the walk) and whether it tests the reported error before
//     or after skipping the root path.
//
// No source positions are printed: moving code must not rebuild the proofs.
func genC06() {
	const rel = "pkg/build/tarball.go"
	g := newGen("C06Tar", "From Apko Require Import Base.Prelude.\nOpen Scope string_scope.")

	// 1. the prefix constant
	pfx, ok := strLit(findValue(rel, "xattrTarPAXRecordsPrefix"))
	if !ok {
		fail("%s: xattrTarPAXRecordsPrefix is not a string literal", rel)
	}
	for i := 0; i < len(pfx); i++ {
		if pfx[i] < 0x20 || pfx[i] > 0x7e || pfx[i] == '"' {
			fail("%s: xattrTarPAXRecordsPrefix has a character the generator does not print", rel)
		}
	}
	g.def("c06_xattr_prefix", "string", fmt.Sprintf("\"%s\"", pfx), rel+" const xattrTarPAXRecordsPrefix")

	typeflags := map[string]int{"TypeReg": '0', "TypeLink": '1', "TypeSymlink": '2', "TypeChar": '3', "TypeBlock": '4',
		"TypeDir": '5', "TypeFifo": '6', "TypeCont": '7', "TypeRegA": 0}
	formats := map[string]int{"FormatUnknown": 0, "FormatUSTAR": 2, "FormatPAX": 4, "FormatGNU": 8}

	walk := findFunc(rel, "", "walkFS")
	// the local that holds the header: the one assigned from tar.FileInfoHeader(...)
	hdr := ""
	if walk != nil {
		ast.Inspect(walk, func(n ast.Node) bool {
			as, ok := n.(*ast.AssignStmt)
			if !ok || hdr != "" || len(as.Rhs) != 1 || len(as.Lhs) < 1 {
				return true
			}
			if c, ok := as.Rhs[0].(*ast.CallExpr); ok && exprText(c.Fun) == "tar.FileInfoHeader" {
				if id, ok := as.Lhs[0].(*ast.Ident); ok {
					hdr = id.Name
				}
			}
			return true
		})
		if hdr == "" {
			fail("%s: walkFS: no `<header>, err := tar.FileInfoHeader(...)`", rel)
		}
	}
	format := 0
	var xattrFlags []int
	storeSeen := false
	if walk != nil {
		// header field assignments
		ast.Inspect(walk, func(n ast.Node) bool {
			as, ok := n.(*ast.AssignStmt)
			if !ok {
				return true
			}
			for i, l := range as.Lhs {
				sel, ok := l.(*ast.SelectorExpr)
				if !ok || exprText(sel.X) != hdr {
					continue
				}
				switch sel.Sel.Name {
				case "Format":
					if as.Tok != token.ASSIGN || i >= len(as.Rhs) {
						fail("%s: walkFS: header.Format is not set by a plain assignment", rel)
						continue
					}
					r := strings.TrimPrefix(exprText(as.Rhs[i]), "tar.")
					v, ok := formats[r]
					if !ok {
						fail("%s: walkFS: header.Format = %s is not one of tar.Format{Unknown,USTAR,PAX,GNU}", rel, exprText(as.Rhs[i]))
						continue
					}
					format = v
				case "AccessTime", "ChangeTime", "Xattrs":
					fail("%s: walkFS assigns header.%s, which the byte model (Model/TarBytes.v) keeps at its zero value", rel, sel.Sel.Name)
				}
			}
			return true
		})
		// the xattr store and its guard
		ast.Inspect(walk, func(n ast.Node) bool {
			ifs, ok := n.(*ast.IfStmt)
			if !ok {
				return true
			}
			found := false
			ast.Inspect(ifs.Body, func(m ast.Node) bool {
				as, ok := m.(*ast.AssignStmt)
				if !ok || len(as.Lhs) != 1 || len(as.Rhs) != 1 {
					return true
				}
				ix, ok := as.Lhs[0].(*ast.IndexExpr)
				if !ok || exprText(ix.X) != hdr+".PAXRecords" {
					return true
				}
				be, ok := ix.Index.(*ast.BinaryExpr)
				if !ok || be.Op != token.ADD || exprText(be.X) != "xattrTarPAXRecordsPrefix" {
					fail("%s: walkFS: a PAX record key is not xattrTarPAXRecordsPrefix+<name>: %s", rel, exprText(ix.Index))
					return true
				}
				if _, isIdent := be.Y.(*ast.Ident); !isIdent {
					fail("%s: walkFS: a PAX record key is not xattrTarPAXRecordsPrefix+<name>: %s", rel, exprText(ix.Index))
				}
				if c, ok := as.Rhs[0].(*ast.CallExpr); !ok || exprText(c.Fun) != "string" || len(c.Args) != 1 {
					fail("%s: walkFS: the PAX record value is not string(<value>): %s", rel, exprText(as.Rhs[0]))
				}
				found = true
				return true
			})
			if !found || storeSeen {
				return true
			}
			// the innermost if with a Typeflag condition is the guard
			var flags []int
			okGuard := true
			var walkCond func(e ast.Expr)
			walkCond = func(e ast.Expr) {
				switch x := e.(type) {
				case *ast.ParenExpr:
					walkCond(x.X)
				case *ast.BinaryExpr:
					if x.Op == token.LOR {
						walkCond(x.X)
						walkCond(x.Y)
						return
					}
					if x.Op == token.EQL && exprText(x.X) == hdr+".Typeflag" {
						if v, ok := typeflags[strings.TrimPrefix(exprText(x.Y), "tar.")]; ok {
							flags = append(flags, v)
							return
						}
					}
					okGuard = false
				default:
					okGuard = false
				}
			}
			if !strings.Contains(exprText(ifs.Cond), "Typeflag") {
				return true
			}
			walkCond(ifs.Cond)
			if !okGuard {
				fail("%s: walkFS: the guard of the xattr copy is not a disjunction of header.Typeflag == tar.TypeX: %s", rel, exprText(ifs.Cond))
				return true
			}
			storeSeen = true
			xattrFlags = flags
			return true
		})
		if !storeSeen {
			fail("%s: walkFS: no guarded store header.PAXRecords[xattrTarPAXRecordsPrefix+name] = string(value)", rel)
		}
	}
	sort.Ints(xattrFlags)
	var fl []string
	for _, v := range xattrFlags {
		fl = append(fl, fmt.Sprintf("%d%%N", v))
	}
	g.def("c06_xattr_typeflags", "list N", "["+strings.Join(fl, "; ")+"]",
		"typeflags (byte values) for which walkFS copies extended attributes into PAX records")
	g.def("c06_header_format", "N", fmt.Sprintf("%d%%N", format),
		"tar.Header.Format as walkFS leaves it (0 FormatUnknown: never assigned; 2 USTAR, 4 PAX, 8 GNU)")

	// 1b. the fs.WalkDir callback of walkFS: what it does with a cancelled
	// context and with an error reported for the root
	ctxReturned, rootChecked := false, false
	if walk != nil {
		var cb *ast.FuncLit
		ast.Inspect(walk, func(n ast.Node) bool {
			c, ok := n.(*ast.CallExpr)
			if !ok || cb != nil || exprText(c.Fun) != "fs.WalkDir" || len(c.Args) != 3 {
				return true
			}
			if fl, ok := c.Args[2].(*ast.FuncLit); ok {
				cb = fl
			}
			return true
		})
		if cb == nil || len(cb.Type.Params.List) != 3 {
			fail("%s: walkFS: no fs.WalkDir(fsys, root, func(path, d, err) error {...})", rel)
		} else {
			pname := func(i int) string {
				if len(cb.Type.Params.List[i].Names) == 1 {
					return cb.Type.Params.List[i].Names[0].Name
				}
				return "_"
			}
			pathVar, errVar := pname(0), pname(2)
			ret := func(ifs *ast.IfStmt) string {
				if len(ifs.Body.List) == 1 {
					if r, ok := ifs.Body.List[0].(*ast.ReturnStmt); ok && len(r.Results) == 1 {
						return exprText(r.Results[0])
					}
				}
				return "<other>"
			}
			iCtx, iRoot, iErr := -1, -1, -1
			for k, st := range cb.Body.List {
				ifs, ok := st.(*ast.IfStmt)
				if !ok || ifs.Else != nil {
					continue
				}
				cond := exprText(ifs.Cond)
				init := ""
				if ifs.Init != nil {
					init = exprText(ifs.Init)
				}
				switch {
				case iCtx < 0 && (strings.Contains(init, "ctx.Err()") || strings.Contains(cond, "ctx.Err()")):
					iCtx = k
					r := ret(ifs)
					v := ""
					if as, ok := ifs.Init.(*ast.AssignStmt); ok && len(as.Lhs) == 1 && exprText(as.Rhs[0]) == "ctx.Err()" {
						v = exprText(as.Lhs[0])
					}
					switch {
					case r == "ctx.Err()" || (v != "" && r == v) || strings.HasPrefix(r, "fmt.Errorf(") || strings.HasPrefix(r, "context.Cause("):
						ctxReturned = true
					case r == "nil" || r == "fs.SkipAll" || r == "fs.SkipDir" || r == "filepath.SkipAll" || r == "filepath.SkipDir":
						ctxReturned = false
					default:
						fail("%s: walkFS: the callback's answer to a cancelled context is not understood: return %s", rel, r)
					}
				case iRoot < 0 && (cond == pathVar+` == "."` || cond == `"." == `+pathVar) && ret(ifs) == "nil":
					iRoot = k
				case iErr < 0 && cond == errVar+" != nil" && ifs.Init == nil && ret(ifs) == errVar:
					iErr = k
				}
			}
			if iCtx < 0 {
				fail("%s: walkFS: the callback does not test ctx.Err()", rel)
			}
			if iRoot < 0 || iErr < 0 {
				fail("%s: walkFS: the callback has no `if %s == \".\" { return nil }` / `if %s != nil { return %s }` pair", rel, pathVar, errVar, errVar)
			}
			rootChecked = iErr >= 0 && iRoot >= 0 && iErr < iRoot
		}
	}
	g.def("c06_ctx_err_returned", "bool", fmt.Sprintf("%v", ctxReturned),
		"the fs.WalkDir callback of walkFS returns the error of a cancelled context (false: it ends the walk without one)")
	g.def("c06_root_err_checked", "bool", fmt.Sprintf("%v", rootChecked),
		"the callback tests the error fs.WalkDir reports BEFORE it skips the root path \".\" (false: an error of Stat/ReadDir of the root is dropped)")

	// 1c. the symlink target: the second argument of tar.FileInfoHeader is a local
	// whose only assignment in walkFS is `<link>, err = <fsys>.Readlink(<path>)`
	linkVerbatim := false
	if walk != nil {
		linkVar := ""
		ast.Inspect(walk, func(n ast.Node) bool {
			if c, ok := n.(*ast.CallExpr); ok && exprText(c.Fun) == "tar.FileInfoHeader" && len(c.Args) == 2 {
				if id, ok := c.Args[1].(*ast.Ident); ok {
					linkVar = id.Name
				} else {
					linkVar = "<expr>"
				}
			}
			return true
		})
		if linkVar == "" {
			fail("%s: walkFS: no tar.FileInfoHeader(info, link)", rel)
		} else if linkVar != "<expr>" {
			assigns, fromReadlink := 0, 0
			ast.Inspect(walk, func(n ast.Node) bool {
				switch x := n.(type) {
				case *ast.AssignStmt:
					for k, l := range x.Lhs {
						if id, ok := l.(*ast.Ident); ok && id.Name == linkVar {
							assigns++
							if len(x.Rhs) == 1 && k == 0 {
								if c, ok := x.Rhs[0].(*ast.CallExpr); ok {
									if sel, ok := c.Fun.(*ast.SelectorExpr); ok && sel.Sel.Name == "Readlink" && len(c.Args) == 1 {
										fromReadlink++
									}
								}
							}
						}
					}
				case *ast.IncDecStmt:
					if id, ok := x.X.(*ast.Ident); ok && id.Name == linkVar {
						assigns++
					}
				}
				return true
			})
			linkVerbatim = assigns == 1 && fromReadlink == 1
		}
	}
	g.def("c06_link_target_verbatim", "bool", fmt.Sprintf("%v", linkVerbatim),
		"the symlink target handed to tar.FileInfoHeader is a local assigned exactly once, from Readlink (false: walkFS computes it some other way)")

	// 2. writeTar closes the tar writer it was given
	wt := findFunc(rel, "", "writeTar")
	closes := false
	if wt != nil {
		tw := ""
		for _, p := range wt.Type.Params.List {
			if exprText(p.Type) == "*tar.Writer" && len(p.Names) == 1 {
				tw = p.Names[0].Name
			}
		}
		if tw == "" {
			fail("%s: writeTar has no *tar.Writer parameter", rel)
		}
		ast.Inspect(wt, func(n ast.Node) bool {
			if c, ok := n.(*ast.CallExpr); ok && exprText(c.Fun) == tw+".Close" {
				closes = true
			}
			return true
		})
	}
	g.def("c06_writer_closes", "bool", fmt.Sprintf("%v", closes), "writeTar calls tw.Close() (flush + two zero blocks)")
	g.write()
}
