package main

// C07: what the install model takes from the source text.
//   pkg/tarfs/fs.go           writeHeader: the ORDER of the tests once the existing node has
//                             a tar entry (same checksum / old replaces new / conflict unless
//                             same origin or new replaces old / overwrite) as rows of
//                             Base.C07Lib (condition, outcome)
//   pkg/apk/apk/install.go    installRegularFile: the same for the streaming path, after
//                             writeOneFile(…, false) failed; writeOneFile: the flags the file
//                             is created with, whether the existence test follows links (Stat),
//                             whether an allowed overwrite removes the old entry first;
//                             installAPKFiles / lazilyInstallAPKFiles: for which tar types
//                             installedFiles is updated
//   pkg/apk/apk/installed.go  AddInstalledPackage: the permission mask and the two default
//                             permissions that are left out of the text
//   maxLinks of both in-memory filesystems comes from Generated/FsConsts.v (C17's generator).
// Local names are not part of what is extracted: the two packages are told apart by where
// they come from (the function's parameter = the package being installed; the tar entry of
// the existing node / installedFiles[...] = the package already there); == and != are read
// symmetrically. A statement that is none of the known shapes is a broken tie (fail).

import (
	"fmt"
	"go/ast"
	"go/token"
	"sort"
	"strings"
)

// selector chain: root identifier and the field names after it
func c07Sel(e ast.Expr) (string, []string) {
	switch x := e.(type) {
	case *ast.Ident:
		return x.Name, nil
	case *ast.SelectorExpr:
		r, p := c07Sel(x.X)
		if r == "" {
			return "", nil
		}
		return r, append(p, x.Sel.Name)
	case *ast.ParenExpr:
		return c07Sel(x.X)
	}
	return "", nil
}

type c07Ctx struct {
	rel   string // the file the function is in (helpers are looked up in its package)
	where string
	role  map[string]string // local name -> "new" | "old"
	pkgAt []string          // fields between the role's root and the package ("pkg" in tarfs, nothing in install.go)
	vars  map[string]string // boolean locals -> Coq condition
	sumOf map[string]bool   // locals / selectors holding a checksum (install.go)
}

// field of which package? returns role and the field name (Origin / Name / Replaces)
func (c *c07Ctx) pkgField(e ast.Expr) (string, string) {
	root, path := c07Sel(e)
	r, ok := c.role[root]
	if !ok || len(path) != len(c.pkgAt)+1 {
		return "", ""
	}
	for i, f := range c.pkgAt {
		if path[i] != f {
			return "", ""
		}
	}
	return r, path[len(path)-1]
}

func (c *c07Ctx) cond(e ast.Expr) string {
	switch x := e.(type) {
	case *ast.ParenExpr:
		return c.cond(x.X)
	case *ast.Ident:
		if v, ok := c.vars[x.Name]; ok {
			return v
		}
	case *ast.UnaryExpr:
		if x.Op == token.NOT {
			return "(CNot " + c.cond(x.X) + ")"
		}
	case *ast.CallExpr:
		if m := c.membership(x); m != "" {
			return m
		}
		switch exprText(x.Fun) {
		case "bytes.Equal":
			if len(x.Args) == 2 && c.isSum(x.Args[0]) && c.isSum(x.Args[1]) {
				return "CSameSum"
			}
		case "errors.As":
			return "(CNot COtherError)"
		}
	case *ast.BinaryExpr:
		switch x.Op {
		case token.LAND:
			return "(CAnd " + c.cond(x.X) + " " + c.cond(x.Y) + ")"
		case token.LOR:
			return "(COr " + c.cond(x.X) + " " + c.cond(x.Y) + ")"
		case token.EQL, token.NEQ:
			t := c.eq(x.X, x.Y)
			if t == "" {
				t = c.eq(x.Y, x.X)
			}
			if t != "" {
				if x.Op == token.NEQ {
					return "(CNot " + t + ")"
				}
				return t
			}
		}
	}
	fail("%s: condition %q is outside the translated fragment", c.where, exprText(e))
	return "CSameSum"
}

func (c *c07Ctx) isSum(e ast.Expr) bool {
	root, path := c07Sel(e)
	if root == "" {
		return false
	}
	if len(path) == 0 {
		return c.sumOf[root]
	}
	last := path[len(path)-1]
	if _, ok := c.role[root]; ok && last == "checksum" {
		return true
	}
	return last == "Sha1" || last == "checksum"
}

func (c *c07Ctx) eq(a, b ast.Expr) string {
	ra, fa := c.pkgField(a)
	rb, fb := c.pkgField(b)
	if fa == "Origin" && fb == "Origin" && ra != "" && rb != "" && ra != rb {
		return "CSameOrigin"
	}
	if fa == "Origin" && ra == "new" {
		if s, ok := strLit(b); ok && s == "" {
			return "CNewOriginEmpty"
		}
	}
	return ""
}

// A membership test "<r> lists <r'>.Name in Replaces" in its other two spellings (the loop is
// rangeReplaces below): slices.Contains(<r>.Replaces, <r'>.Name), or a call of a helper that
// is new relative to the recorded base and whose body is exactly the loop
//
//	for _, v := range p.Replaces { if name == v { return true } }; return false
func (c *c07Ctx) membership(call *ast.CallExpr) string {
	var list, elem ast.Expr
	switch {
	case exprText(call.Fun) == "slices.Contains" && len(call.Args) == 2:
		list, elem = call.Args[0], call.Args[1]
	default:
		id, ok := call.Fun.(*ast.Ident)
		if !ok || c.rel == "" || len(call.Args) != 2 {
			return ""
		}
		fd := packageInfo(c.rel).funcs[id.Name]
		if fd == nil {
			return ""
		}
		pi, ni, ok := c07MembershipHelper(fd)
		if !ok {
			return ""
		}
		list = &ast.SelectorExpr{X: call.Args[pi], Sel: ast.NewIdent("Replaces")}
		elem = call.Args[ni]
	}
	r, f := c.pkgField(list)
	r2, f2 := c.pkgField(elem)
	if r == "" || f != "Replaces" || r2 == "" || f2 != "Name" || r2 == r {
		return ""
	}
	if r == "old" {
		return "COldDeclaresNew"
	}
	return "CNewDeclaresOld"
}

// is fd `func(p, name) bool { for _, v := range p.Replaces { if name == v { return true } }; return false }`?
// returns the positions of the package and of the name among the parameters
func c07MembershipHelper(fd *ast.FuncDecl) (pkgArg, nameArg int, ok bool) {
	if fd == nil || fd.Body == nil || fd.Type.Params == nil || len(fd.Body.List) != 2 {
		return 0, 0, false
	}
	var params []string
	for _, f := range fd.Type.Params.List {
		for _, n := range f.Names {
			params = append(params, n.Name)
		}
	}
	if len(params) != 2 {
		return 0, 0, false
	}
	rs, ok1 := fd.Body.List[0].(*ast.RangeStmt)
	ret, ok2 := fd.Body.List[1].(*ast.ReturnStmt)
	if !ok1 || !ok2 || len(ret.Results) != 1 || exprText(ret.Results[0]) != "false" || len(rs.Body.List) != 1 {
		return 0, 0, false
	}
	v, _ := rs.Value.(*ast.Ident)
	root, path := c07Sel(rs.X)
	if v == nil || len(path) != 1 || path[0] != "Replaces" {
		return 0, 0, false
	}
	is, ok := rs.Body.List[0].(*ast.IfStmt)
	if !ok || is.Init != nil || is.Else != nil || len(is.Body.List) != 1 {
		return 0, 0, false
	}
	r2, ok := is.Body.List[0].(*ast.ReturnStmt)
	if !ok || len(r2.Results) != 1 || exprText(r2.Results[0]) != "true" {
		return 0, 0, false
	}
	be, ok := is.Cond.(*ast.BinaryExpr)
	if !ok || be.Op != token.EQL {
		return 0, 0, false
	}
	other := ""
	switch {
	case exprText(be.X) == v.Name:
		other = exprText(be.Y)
	case exprText(be.Y) == v.Name:
		other = exprText(be.X)
	}
	pkgArg, nameArg = -1, -1
	for i, p := range params {
		if p == root {
			pkgArg = i
		}
		if p == other {
			nameArg = i
		}
	}
	if pkgArg < 0 || nameArg < 0 || pkgArg == nameArg {
		return 0, 0, false
	}
	return pkgArg, nameArg, true
}

// for _, v := range <r>.Replaces { if <r'>.Name == v { BODY } }: returns the
// condition "r declares r'" and BODY
func (c *c07Ctx) rangeReplaces(rs *ast.RangeStmt) (string, []ast.Stmt) {
	r, f := c.pkgField(rs.X)
	v, _ := rs.Value.(*ast.Ident)
	if r == "" || f != "Replaces" || v == nil || len(rs.Body.List) != 1 {
		return "", nil
	}
	is, ok := rs.Body.List[0].(*ast.IfStmt)
	if !ok || is.Init != nil || is.Else != nil {
		return "", nil
	}
	be, ok := is.Cond.(*ast.BinaryExpr)
	if !ok || be.Op != token.EQL {
		return "", nil
	}
	side := func(x, y ast.Expr) bool {
		id, ok := y.(*ast.Ident)
		if !ok || id.Name != v.Name {
			return false
		}
		r2, f2 := c.pkgField(x)
		return f2 == "Name" && r2 != "" && r2 != r
	}
	if !side(be.X, be.Y) && !side(be.Y, be.X) {
		return "", nil
	}
	if r == "old" {
		return "COldDeclaresNew", is.Body.List
	}
	return "CNewDeclaresOld", is.Body.List
}

// what a `return a, b` means
func c07Outcome(rs *ast.ReturnStmt, errVar string) string {
	if len(rs.Results) != 2 {
		return ""
	}
	first, second := exprText(rs.Results[0]), rs.Results[1]
	switch {
	case first == "false" && exprText(second) == "nil":
		return "OKeep"
	case first == "true" && exprText(second) == "nil":
		return "OOverwrite"
	case first == "false" && errVar != "" && exprText(second) == errVar:
		return "OSameError"
	}
	if first != "false" {
		return ""
	}
	if cl, ok := second.(*ast.CompositeLit); ok && strings.HasSuffix(exprText(cl.Type), "FileConflictError") {
		return "OConflict"
	}
	if call, ok := second.(*ast.CallExpr); ok && exprText(call.Fun) == "fmt.Errorf" {
		return "ONewError"
	}
	return ""
}

func c07Rows(c *c07Ctx, list []ast.Stmt, errVar string, isEnd func(ast.Stmt) (bool, string)) (rows []string, def string) {
	oneReturn := func(body []ast.Stmt) string {
		if len(body) == 1 {
			if rs, ok := body[0].(*ast.ReturnStmt); ok {
				return c07Outcome(rs, errVar)
			}
		}
		return ""
	}
	// walk reads a statement list; a block `{ … }` is what goextract's inliner leaves where a
	// single-use helper was called (`if helper(a, b) { … }` becomes
	// `{ <helper body, return v -> inlinedResult = v>; if inlinedResult { … } }`): its statements
	// are read in place
	var walk func(list []ast.Stmt, inlined bool) (bool, string)
	walk = func(list []ast.Stmt, inlined bool) (bool, string) {
		for _, st := range list {
			if end, d := isEnd(st); end {
				return true, d
			}
			switch x := st.(type) {
			case *ast.DeclStmt:
				continue
			case *ast.BlockStmt:
				if end, d := walk(x.List, true); end {
					return true, d
				}
				continue
			case *ast.IfStmt:
				if x.Init == nil && x.Else == nil {
					if o := oneReturn(x.Body.List); o != "" {
						rows = append(rows, "("+c.cond(x.Cond)+", "+o+")")
						continue
					}
				}
			case *ast.RangeStmt:
				if cnd, body := c.rangeReplaces(x); cnd != "" {
					if o := oneReturn(body); o != "" {
						rows = append(rows, "("+cnd+", "+o+")")
						continue
					}
					// flag = true; break
					if len(body) >= 1 {
						if as, ok := body[0].(*ast.AssignStmt); ok && len(as.Lhs) == 1 && len(as.Rhs) == 1 && exprText(as.Rhs[0]) == "true" {
							if id, ok := as.Lhs[0].(*ast.Ident); ok {
								c.vars[id.Name] = cnd
								continue
							}
						}
					}
				}
			case *ast.AssignStmt:
				// flag := false   |   v := a.Origin == b.Origin   |   _, f := replaceMap[old.Name]   |   old, ok := a.installedFiles[...]
				if len(x.Lhs) == 1 && len(x.Rhs) == 1 {
					if id, ok := x.Lhs[0].(*ast.Ident); ok {
						if exprText(x.Rhs[0]) == "false" {
							// flag := false before its loop; after it only as the inliner's rendering of the
							// helper's final `return false` (the loop's `return true` became `flag = true`)
							if _, set := c.vars[id.Name]; set && !inlined {
								fail("%s: %s is reset after it was computed", c.where, id.Name)
							}
							continue
						}
						if r, ok := x.Rhs[0].(*ast.Ident); ok {
							if rl, ok := c.role[r.Name]; ok {
								c.role[id.Name] = rl // another name for the same package
								continue
							}
						}
						if be, ok := x.Rhs[0].(*ast.BinaryExpr); ok && (be.Op == token.EQL || be.Op == token.NEQ) {
							c.vars[id.Name] = c.cond(be)
							continue
						}
						// replaces := slices.Contains(new.Replaces, old.Name)   |   := helper(new, old.Name)
						if call, ok := x.Rhs[0].(*ast.CallExpr); ok {
							if m := c.membership(call); m != "" {
								c.vars[id.Name] = m
								continue
							}
						}
					}
				}
				if len(x.Lhs) == 2 && len(x.Rhs) == 1 {
					if ix, ok := x.Rhs[0].(*ast.IndexExpr); ok {
						l0, _ := x.Lhs[0].(*ast.Ident)
						l1, _ := x.Lhs[1].(*ast.Ident)
						if strings.HasSuffix(exprText(ix.X), ".installedFiles") && l0 != nil && l1 != nil {
							c.role[l0.Name] = "old"
							c.vars[l1.Name] = "(CNot COldUnknown)"
							continue
						}
						if r, f := c.pkgField(ix.Index); r == "old" && f == "Name" && l1 != nil && c.vars["map:"+exprText(ix.X)] == "new.Replaces" {
							c.vars[l1.Name] = "CNewDeclaresOld"
							continue
						}
					}
				}
			}
			fail("%s: statement %q is none of the known shapes of the decision procedure", c.where, firstLine(exprText(st)))
		}
		return false, ""
	}
	if end, d := walk(list, false); end {
		return rows, d
	}
	fail("%s: the decision procedure does not end where expected", c.where)
	return rows, "OKeep"
}

func firstLine(s string) string {
	if i := strings.IndexByte(s, '\n'); i >= 0 {
		return s[:i] + " …"
	}
	return s
}

func genC07() {
	g := newGen("C07Install", "From Apko Require Import Base.Prelude Base.C07Lib.\nOpen Scope string_scope. Open Scope list_scope.")
	// ---- tarfs.writeHeader ---------------------------------------------------
	if fd := findFunc("pkg/tarfs/fs.go", "memFS", "writeHeader"); fd != nil && fd.Type.Params != nil {
		c := &c07Ctx{rel: "pkg/tarfs/fs.go", where: "pkg/tarfs/fs.go:writeHeader", role: map[string]string{}, pkgAt: []string{"pkg"}, vars: map[string]string{}, sumOf: map[string]bool{}}
		// the tar entry parameter is the package being installed
		param := ""
		for _, f := range fd.Type.Params.List {
			if exprText(f.Type) == "tarEntry" && len(f.Names) == 1 {
				param = f.Names[0].Name
			}
		}
		if param == "" {
			fail("%s: no tarEntry parameter", c.where)
		}
		c.role[param] = "new"
		existingVar := "" // the node found under the name: the root of `<x>.te`
		start := -1
		for i, st := range fd.Body.List {
			if as, ok := st.(*ast.AssignStmt); ok && len(as.Lhs) == len(as.Rhs) {
				for k := range as.Lhs {
					id, ok := as.Lhs[k].(*ast.Ident)
					if !ok {
						continue
					}
					if r, ok := as.Rhs[k].(*ast.Ident); ok {
						if r.Name == param {
							c.role[id.Name] = "new"
						} else if rl, ok := c.role[r.Name]; ok {
							c.role[id.Name] = rl // another name for the same entry
						}
					}
					if root, p := c07Sel(as.Rhs[k]); len(p) == 1 && p[0] == "te" {
						c.role[id.Name] = "old"
						existingVar = root
					}
				}
			}
			// if <old> == nil { ... } : the rows start after it
			if is, ok := st.(*ast.IfStmt); ok {
				if be, ok := is.Cond.(*ast.BinaryExpr); ok && be.Op == token.EQL && exprText(be.Y) == "nil" {
					if id, ok := be.X.(*ast.Ident); ok && c.role[id.Name] == "old" {
						start = i + 1
					}
				}
			}
		}
		if start < 0 {
			fail("%s: the test 'existing node has no tar entry' was not found", c.where)
		} else {
			rows, def := c07Rows(c, fd.Body.List[start:], "", func(st ast.Stmt) (bool, string) {
				// the replacement node is built and stored, then `return true, nil`
				if as, ok := st.(*ast.AssignStmt); ok && len(as.Rhs) == 1 {
					if u, ok := as.Rhs[0].(*ast.UnaryExpr); ok && u.Op == token.AND {
						if cl, ok := u.X.(*ast.CompositeLit); ok && exprText(cl.Type) == "node" {
							return true, "OOverwrite"
						}
					}
					// ... or the node found under the name is re-pointed in place
					if root, p := c07Sel(as.Lhs[0]); existingVar != "" && root == existingVar && len(p) == 1 {
						return true, "OOverwrite"
					}
				}
				return false, ""
			})
			last, _ := fd.Body.List[len(fd.Body.List)-1].(*ast.ReturnStmt)
			if last == nil || c07Outcome(last, "") != "OOverwrite" {
				fail("%s: does not end with `return true, nil`", c.where)
			}
			g.def("c07_writeheader_rows", "list (ccond * cout)", "["+strings.Join(rows, "; ")+"]", "tests of writeHeader in source order, from "+g.pos(fd.Body.List[start]))
			g.def("c07_writeheader_default", "cout", def, "when no test fires")
			// how an allowed replacement is carried out: a NEW node stored under the name in the
			// parent's children map, and no field of the node found there assigned to
			fresh, stored := "", false
			var mutated []string
			for _, st := range fd.Body.List[start:] {
				as, ok := st.(*ast.AssignStmt)
				if !ok || len(as.Lhs) != 1 || len(as.Rhs) != 1 {
					continue
				}
				if u, ok := as.Rhs[0].(*ast.UnaryExpr); ok && u.Op == token.AND {
					if cl, ok := u.X.(*ast.CompositeLit); ok && exprText(cl.Type) == "node" {
						if id, ok := as.Lhs[0].(*ast.Ident); ok {
							fresh = id.Name
						}
					}
				}
				if ix, ok := as.Lhs[0].(*ast.IndexExpr); ok && strings.HasSuffix(exprText(ix.X), ".children") {
					if id, ok := as.Rhs[0].(*ast.Ident); ok && fresh != "" && id.Name == fresh {
						stored = true
					}
				}
				if root, p := c07Sel(as.Lhs[0]); existingVar != "" && root == existingVar && len(p) == 1 {
					mutated = append(mutated, p[0])
				}
			}
			sort.Strings(mutated)
			mq := make([]string, len(mutated))
			for i, f := range mutated {
				mq[i] = coqStr(f)
			}
			g.def("c07_lazy_replace_allocates", "bool", map[bool]string{true: "true", false: "false"}[stored && len(mutated) == 0],
				"writeHeader replaces an entry by storing a NEW node under the name (children[base] = &node{...}) and assigns to no field of the node that was there")
			g.def("c07_lazy_replace_mutates", "list string", "["+strings.Join(mq, "; ")+"]", "fields of the node found under the name that writeHeader assigns to")
		}
	}
	// ---- link: the new name is bound to the target's node itself -------------------
	for _, lf := range []struct{ coq, rel, fn string }{{"c07_tarfs_link_binds_target", "pkg/tarfs/fs.go", "link"}, {"c07_memfs_link_binds_target", "pkg/apk/fs/memfs.go", "Link"}} {
		fd := findFunc(lf.rel, "memFS", lf.fn)
		if fd == nil || fd.Type.Params == nil || len(fd.Type.Params.List) == 0 || len(fd.Type.Params.List[0].Names) == 0 {
			fail("%s:%s: not found", lf.rel, lf.fn)
			continue
		}
		oldParam := fd.Type.Params.List[0].Names[0].Name
		targetVar, binds := "", false
		ast.Inspect(fd, func(n ast.Node) bool {
			as, ok := n.(*ast.AssignStmt)
			if !ok || len(as.Rhs) != 1 {
				return true
			}
			// target, err := m.getNode(oldname)
			if call, ok := as.Rhs[0].(*ast.CallExpr); ok && strings.HasSuffix(exprText(call.Fun), ".getNode") && len(call.Args) == 1 && exprText(call.Args[0]) == oldParam {
				if id, ok := as.Lhs[0].(*ast.Ident); ok {
					targetVar = id.Name
				}
			}
			// parent.children[base] = target
			if len(as.Lhs) == 1 {
				if ix, ok := as.Lhs[0].(*ast.IndexExpr); ok && strings.HasSuffix(exprText(ix.X), ".children") {
					if id, ok := as.Rhs[0].(*ast.Ident); ok && targetVar != "" && id.Name == targetVar {
						binds = true
					}
				}
			}
			return true
		})
		g.def(lf.coq, "bool", map[bool]string{true: "true", false: "false"}[binds], lf.rel+":"+lf.fn+" stores the node getNode(oldname) returned under the new name (a second name for one node, not a copy)")
	}
	// ---- installRegularFile ----------------------------------------------------
	if fd := findFunc("pkg/apk/apk/install.go", "APK", "installRegularFile"); fd != nil && fd.Type.Params != nil {
		c := &c07Ctx{rel: "pkg/apk/apk/install.go", where: "pkg/apk/apk/install.go:installRegularFile", role: map[string]string{}, vars: map[string]string{}, sumOf: map[string]bool{}}
		for _, f := range fd.Type.Params.List {
			if exprText(f.Type) == "*Package" && len(f.Names) == 1 {
				c.role[f.Names[0].Name] = "new"
			}
		}
		if len(c.role) != 1 {
			fail("%s: no *Package parameter", c.where)
		}
		var body *ast.IfStmt
		errVar := ""
		ast.Inspect(fd, func(n ast.Node) bool {
			switch x := n.(type) {
			case *ast.AssignStmt:
				// checksum, err := checksumFromHeader(header); checksum = w.Sum(nil)
				if len(x.Rhs) == 1 {
					if call, ok := x.Rhs[0].(*ast.CallExpr); ok {
						if id, ok := x.Lhs[0].(*ast.Ident); ok && (exprText(call.Fun) == "checksumFromHeader" || strings.HasSuffix(exprText(call.Fun), ".Sum")) {
							c.sumOf[id.Name] = true
						}
					}
				}
			case *ast.RangeStmt:
				// for _, r := range new.Replaces { m[r] = struct{}{} }
				if r, f := c.pkgField(x.X); r == "new" && f == "Replaces" && len(x.Body.List) == 1 {
					if as, ok := x.Body.List[0].(*ast.AssignStmt); ok && len(as.Lhs) == 1 {
						if ix, ok := as.Lhs[0].(*ast.IndexExpr); ok {
							if v, ok := x.Value.(*ast.Ident); ok && exprText(ix.Index) == v.Name {
								c.vars["map:"+exprText(ix.X)] = "new.Replaces"
							}
						}
					}
				}
			case *ast.IfStmt:
				if as, ok := x.Init.(*ast.AssignStmt); ok && len(as.Rhs) == 1 && body == nil {
					if call, ok := as.Rhs[0].(*ast.CallExpr); ok && strings.HasSuffix(exprText(call.Fun), ".writeOneFile") &&
						len(call.Args) == 3 && exprText(call.Args[2]) == "false" {
						body = x
						if id, ok := as.Lhs[0].(*ast.Ident); ok {
							errVar = id.Name
						}
					}
				}
			}
			return true
		})
		if body == nil {
			fail("%s: `if err := a.writeOneFile(..., false); err != nil` was not found", c.where)
		} else {
			rows, def := c07Rows(c, body.Body.List, errVar, func(st ast.Stmt) (bool, string) {
				if is, ok := st.(*ast.IfStmt); ok {
					if as, ok := is.Init.(*ast.AssignStmt); ok && len(as.Rhs) == 1 {
						if call, ok := as.Rhs[0].(*ast.CallExpr); ok && strings.HasSuffix(exprText(call.Fun), ".writeOneFile") &&
							len(call.Args) == 3 && exprText(call.Args[2]) == "true" {
							return true, "OOverwrite"
						}
					}
				}
				return false, ""
			})
			g.def("c07_installregular_rows", "list (ccond * cout)", "["+strings.Join(rows, "; ")+"]", "tests of installRegularFile after FileExistsError, in source order, from "+g.pos(body))
			g.def("c07_installregular_default", "cout", def, "when no test fires: writeOneFile(header, r, true)")
		}
	}
	// ---- writeOneFile -----------------------------------------------------------
	if fd := findFunc("pkg/apk/apk/install.go", "APK", "writeOneFile"); fd != nil {
		var flags []string
		exists, removes := "", false
		var openAt ast.Node
		ast.Inspect(fd, func(n ast.Node) bool {
			call, ok := n.(*ast.CallExpr)
			if !ok {
				return true
			}
			fn := exprText(call.Fun)
			switch {
			case strings.HasSuffix(fn, ".fs.OpenFile") && len(call.Args) == 3:
				if openAt != nil {
					fail("pkg/apk/apk/install.go:writeOneFile: more than one OpenFile call")
				}
				openAt = call
				var walk func(e ast.Expr)
				walk = func(e ast.Expr) {
					switch x := e.(type) {
					case *ast.BinaryExpr:
						if x.Op == token.OR {
							walk(x.X)
							walk(x.Y)
							return
						}
					case *ast.ParenExpr:
						walk(x.X)
						return
					case *ast.SelectorExpr:
						if exprText(x.X) == "os" {
							flags = append(flags, x.Sel.Name)
							return
						}
					}
					fail("pkg/apk/apk/install.go:writeOneFile: open flags %q are not an |-list of os.O_* constants", exprText(e))
				}
				walk(call.Args[1])
			case strings.HasSuffix(fn, ".fs.Stat") || strings.HasSuffix(fn, ".fs.Lstat"):
				if exists != "" {
					fail("pkg/apk/apk/install.go:writeOneFile: more than one existence test")
				}
				exists = fn[strings.LastIndexByte(fn, '.')+1:]
			case strings.HasSuffix(fn, ".fs.Remove"):
				removes = true
			}
			return true
		})
		if openAt == nil || exists == "" {
			fail("pkg/apk/apk/install.go:writeOneFile: OpenFile / Stat call not found")
		}
		sort.Strings(flags)
		q := make([]string, len(flags))
		for i, f := range flags {
			q[i] = coqStr(f)
		}
		g.def("c07_wof_open_flags", "list string", "["+strings.Join(q, "; ")+"]", "flags writeOneFile creates the file with (sorted), at "+g.pos(openAt))
		g.def("c07_wof_exists_test", "string", coqStr(exists), "how writeOneFile tests that the name exists")
		g.def("c07_wof_removes_before_create", "bool", map[bool]string{true: "true", false: "false"}[removes], "an allowed overwrite calls fs.Remove on the name first")
	}
	// ---- for which tar types installedFiles is updated ---------------------------
	tracked := func(rel, name string) []string {
		fd := findFunc(rel, "APK", name)
		if fd == nil {
			return nil
		}
		var out []string
		ast.Inspect(fd, func(n ast.Node) bool {
			switch x := n.(type) {
			case *ast.CaseClause: // case tar.TypeX: ... a.installedFiles[...] = pkg
				hit := false
				ast.Inspect(x, func(m ast.Node) bool {
					if as, ok := m.(*ast.AssignStmt); ok && len(as.Lhs) == 1 {
						if ix, ok := as.Lhs[0].(*ast.IndexExpr); ok && strings.HasSuffix(exprText(ix.X), ".installedFiles") {
							hit = true
						}
					}
					return true
				})
				if hit {
					for _, e := range x.List {
						out = append(out, strings.TrimPrefix(exprText(e), "tar."))
					}
					return false
				}
			case *ast.IfStmt: // if installed && hdr.Typeflag == tar.TypeX { a.installedFiles[...] = pkg }
				if len(x.Body.List) == 1 {
					if as, ok := x.Body.List[0].(*ast.AssignStmt); ok && len(as.Lhs) == 1 {
						if ix, ok := as.Lhs[0].(*ast.IndexExpr); ok && strings.HasSuffix(exprText(ix.X), ".installedFiles") {
							found := false
							ast.Inspect(x.Cond, func(m ast.Node) bool {
								if be, ok := m.(*ast.BinaryExpr); ok && be.Op == token.EQL {
									for _, side := range []ast.Expr{be.X, be.Y} {
										if t := exprText(side); strings.HasPrefix(t, "tar.Type") {
											out = append(out, strings.TrimPrefix(t, "tar."))
											found = true
										}
									}
								}
								return true
							})
							if !found {
								out = append(out, "<any>")
							}
						}
					}
				}
			}
			return true
		})
		if len(out) == 0 {
			fail("%s:%s: no update of installedFiles found", rel, name)
		}
		sort.Strings(out)
		return out
	}
	for _, t := range []struct{ coq, fn string }{{"c07_stream_tracked", "installAPKFiles"}, {"c07_lazy_tracked", "lazilyInstallAPKFiles"}} {
		ks := tracked("pkg/apk/apk/install.go", t.fn)
		q := make([]string, len(ks))
		for i, k := range ks {
			q[i] = coqStr(k)
		}
		g.def(t.coq, "list string", "["+strings.Join(q, "; ")+"]", "tar types for which "+t.fn+" records the package in installedFiles")
	}
	// ---- AddInstalledPackage: mask and defaults -----------------------------------
	if fd := findFunc("pkg/apk/apk/installed.go", "APK", "AddInstalledPackage"); fd != nil {
		var mask int64 = -1
		var defaults []int64
		permVar := ""
		ast.Inspect(fd, func(n ast.Node) bool {
			switch x := n.(type) {
			case *ast.AssignStmt:
				if len(x.Lhs) == 1 && len(x.Rhs) == 1 {
					if be, ok := x.Rhs[0].(*ast.BinaryExpr); ok && be.Op == token.AND && strings.HasSuffix(exprText(be.X), ".Mode") {
						if v, ok := intLit(be.Y); ok {
							mask = v
							if id, ok := x.Lhs[0].(*ast.Ident); ok {
								permVar = id.Name
							}
						}
					}
				}
			case *ast.BinaryExpr:
				if x.Op == token.NEQ && permVar != "" && exprText(x.X) == permVar {
					if v, ok := intLit(x.Y); ok {
						defaults = append(defaults, v)
					}
				}
			}
			return true
		})
		if mask < 0 || len(defaults) != 2 {
			fail("pkg/apk/apk/installed.go:AddInstalledPackage: `perm := f.Mode & <mask>` and the two `perm != <default>` tests were not found")
		} else {
			g.def("c07_db_perm_mask", "N", fmt.Sprintf("%d%%N", mask), "perm := f.Mode & mask")
			g.def("c07_db_default_dir_perm", "N", fmt.Sprintf("%d%%N", defaults[0]), "a directory's M: line is left out for this permission (and owner 0:0)")
			g.def("c07_db_default_file_perm", "N", fmt.Sprintf("%d%%N", defaults[1]), "a file's a: line is left out for this permission (and owner 0:0)")
		}
	}
	// ---- sortTarHeaders: one header per name (a later one overwrites), one child per header ----
	// read by shape: in the loop over the header list, directly in its body (not under a
	// condition), a map element is assigned the loop's value (all[name] = header: the LAST
	// header of a name is the one kept) and a map element is appended to itself
	// (children[dir] = append(children[dir], name): once per header, repeats included)
	if fd := findFunc("pkg/apk/apk/installed.go", "", "sortTarHeaders"); fd != nil && fd.Type.Params != nil && len(fd.Type.Params.List) > 0 && len(fd.Type.Params.List[0].Names) > 0 {
		param := fd.Type.Params.List[0].Names[0].Name
		overwrites, perHeader, found := false, false, false
		condAssign, condAppend := false, false
		for _, st := range fd.Body.List {
			rs, ok := st.(*ast.RangeStmt)
			if !ok || exprText(rs.X) != param {
				continue
			}
			found = true
			val, _ := rs.Value.(*ast.Ident)
			classify := func(as *ast.AssignStmt) (isAll, isAppend bool) {
				if len(as.Lhs) != 1 || len(as.Rhs) != 1 {
					return
				}
				ix, ok := as.Lhs[0].(*ast.IndexExpr)
				if !ok {
					return
				}
				if id, ok := as.Rhs[0].(*ast.Ident); ok && val != nil && id.Name == val.Name {
					isAll = true
				}
				if call, ok := as.Rhs[0].(*ast.CallExpr); ok && exprText(call.Fun) == "append" && len(call.Args) == 2 && exprText(call.Args[0]) == exprText(ix) {
					isAppend = true
				}
				return
			}
			for _, b := range rs.Body.List {
				if as, ok := b.(*ast.AssignStmt); ok {
					a, p := classify(as)
					overwrites = overwrites || a
					perHeader = perHeader || p
					continue
				}
				// the same assignments under a condition: a header is kept / a child is listed only sometimes
				ast.Inspect(b, func(n ast.Node) bool {
					if as, ok := n.(*ast.AssignStmt); ok {
						a, p := classify(as)
						condAssign = condAssign || a
						condAppend = condAppend || p
					}
					return true
				})
			}
		}
		if !found {
			fail("pkg/apk/apk/installed.go:sortTarHeaders: no loop over the header list")
		}
		bs := map[bool]string{true: "true", false: "false"}
		g.def("c07_sort_last_header_of_a_name_kept", "bool", bs[overwrites && !condAssign], "sortTarHeaders stores every header under its name unconditionally: a later header of a name overwrites the earlier one")
		g.def("c07_sort_child_listed_per_header", "bool", bs[perHeader && !condAppend], "sortTarHeaders appends the name to its directory's children once per header, unconditionally")
	}
	g.write()
}
