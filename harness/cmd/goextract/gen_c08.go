package main

// C08: the cache-layer model (coq/Model/Caches.v) allocates fresh references
// for exactly what PkgResolver.Clone / maps.Clone copy and shares the rest, and
// assumes the two Get functions hand out clones under their mutex and that the
// memo tables are sync.Maps. This generator reads those SHAPES from the
// source (receiver and local names normalised away, struct fields sorted) and
// emits them as data; Properties/C08.v states what the model assumes about
// them (c08_source_shape), so that e.g. `return pr` instead of
// `return pr.Clone()` breaks the build of the property file.

import (
	"go/ast"
	"go/token"
	"sort"
	"strings"
)

func c08Recv(fd *ast.FuncDecl) string {
	if fd == nil || fd.Recv == nil || len(fd.Recv.List) == 0 || len(fd.Recv.List[0].Names) == 0 {
		return ""
	}
	return fd.Recv.List[0].Names[0].Name
}

// how one field of the struct literal returned by Clone is produced
func c08FieldShape(recv, field string, e ast.Expr) string {
	switch x := e.(type) {
	case *ast.SelectorExpr:
		if exprText(x) == recv+"."+field {
			return "shared"
		}
	case *ast.CallExpr:
		if exprText(x.Fun) == "maps.Clone" && len(x.Args) == 1 && exprText(x.Args[0]) == recv+"."+field {
			return "maps.Clone"
		}
		if exprText(x.Fun) == "slices.Clone" && len(x.Args) == 1 && exprText(x.Args[0]) == recv+"."+field {
			return "slices.Clone"
		}
	case *ast.CompositeLit:
		if len(x.Elts) == 0 {
			return "fresh-empty"
		}
	}
	return "other:" + strings.Join(strings.Fields(exprText(e)), " ")
}

func c08Returns(fd *ast.FuncDecl, classify func(ast.Expr) string) []string {
	var out []string
	if fd == nil {
		return out
	}
	ast.Inspect(fd.Body, func(n ast.Node) bool {
		if _, ok := n.(*ast.FuncLit); ok {
			return false // returns of nested closures (comparators) are not ours
		}
		if r, ok := n.(*ast.ReturnStmt); ok && len(r.Results) == 1 {
			out = append(out, classify(r.Results[0]))
		}
		return true
	})
	return out
}

// first two statements are `<recv>.Lock()` and `defer <recv>.Unlock()`
func c08Locked(fd *ast.FuncDecl) bool {
	if fd == nil || len(fd.Body.List) < 2 {
		return false
	}
	recv := c08Recv(fd)
	es, ok := fd.Body.List[0].(*ast.ExprStmt)
	if !ok || exprText(es.X) != recv+".Lock()" {
		return false
	}
	ds, ok := fd.Body.List[1].(*ast.DeferStmt)
	return ok && exprText(ds.Call) == recv+".Unlock()"
}

func c08VarType(rel, name string) string {
	f := load(rel)
	if f == nil {
		return ""
	}
	for _, d := range f.Decls {
		gd, ok := d.(*ast.GenDecl)
		if !ok || gd.Tok != token.VAR {
			continue
		}
		for _, s := range gd.Specs {
			vs := s.(*ast.ValueSpec)
			for i, id := range vs.Names {
				if id.Name != name {
					continue
				}
				if vs.Type != nil {
					return exprText(vs.Type)
				}
				if i < len(vs.Values) {
					return "value:" + strings.Join(strings.Fields(exprText(vs.Values[i])), " ")
				}
			}
		}
	}
	fail("%s: no package-level var %q", rel, name)
	return ""
}

func c08Bool(b bool) string {
	if b {
		return "true"
	}
	return "false"
}

func genC08() {
	const caches = "pkg/apk/apk/shameful_global_caches.go"
	const repoGo = "pkg/apk/apk/repo.go"
	g := newGen("C08Caches", "From Coq Require Import String List.\nImport ListNotations.\nOpen Scope string_scope.\n")

	// PkgResolver.Clone: a single `return &PkgResolver{...}`
	clone := findFunc(repoGo, "PkgResolver", "Clone")
	var shape []string
	if clone != nil {
		recv := c08Recv(clone)
		var lit *ast.CompositeLit
		ast.Inspect(clone.Body, func(n ast.Node) bool {
			if r, ok := n.(*ast.ReturnStmt); ok && len(r.Results) == 1 {
				if u, ok := r.Results[0].(*ast.UnaryExpr); ok && u.Op == token.AND {
					if c, ok := u.X.(*ast.CompositeLit); ok {
						lit = c
					}
				}
			}
			return true
		})
		if lit == nil {
			fail("%s: PkgResolver.Clone does not return a struct literal", repoGo)
		} else {
			for _, el := range lit.Elts {
				kv, ok := el.(*ast.KeyValueExpr)
				if !ok {
					fail("%s: PkgResolver.Clone: positional struct literal", repoGo)
					continue
				}
				f := exprText(kv.Key)
				shape = append(shape, "("+coqStr(f)+", "+coqStr(c08FieldShape(recv, f, kv.Value))+")")
			}
			sort.Strings(shape)
		}
	}
	g.def("clone_shape", "list (string * string)", "["+strings.Join(shape, "; ")+"]",
		"PkgResolver.Clone, "+g.pos(clone)+": how each field of the returned struct is produced (fields sorted)")

	rget := findFunc(caches, "resolverCache", "Get")
	g.def("resolver_get_returns", "list string", coqStrList(c08Returns(rget, func(e ast.Expr) string {
		if c, ok := e.(*ast.CallExpr); ok && len(c.Args) == 0 {
			if s, ok := c.Fun.(*ast.SelectorExpr); ok && s.Sel.Name == "Clone" {
				if _, ok := s.X.(*ast.Ident); ok {
					return "clone"
				}
			}
		}
		return "other:" + strings.Join(strings.Fields(exprText(e)), " ")
	})), "resolverCache.Get, "+g.pos(rget)+": every return statement")
	g.def("resolver_get_locked", "bool", c08Bool(c08Locked(rget)), "resolverCache.Get starts with Lock / defer Unlock")
	// the key of the resolver trie is the index list AS GIVEN (its order is an input of the resolution): find, fill
	// and newPkgResolver all take Get's own slice parameter
	var rkey []string
	if rget != nil && rget.Type.Params != nil {
		param := ""
		for _, f := range rget.Type.Params.List {
			if strings.HasPrefix(exprText(f.Type), "[]") && len(f.Names) == 1 {
				param = f.Names[0].Name
			}
		}
		recv := c08Recv(rget)
		ast.Inspect(rget.Body, func(n ast.Node) bool {
			c, ok := n.(*ast.CallExpr)
			if !ok {
				return true
			}
			var what string
			var arg ast.Expr
			switch f := exprText(c.Fun); {
			case f == recv+".find" && len(c.Args) == 1:
				what, arg = "find", c.Args[0]
			case f == recv+".fill" && len(c.Args) == 2:
				what, arg = "fill", c.Args[0]
			case f == "newPkgResolver" && len(c.Args) == 2:
				what, arg = "build", c.Args[1]
			default:
				return true
			}
			if param != "" && exprText(arg) == param {
				rkey = append(rkey, what+":the-list-as-given")
			} else {
				rkey = append(rkey, what+":other:"+strings.Join(strings.Fields(exprText(arg)), " "))
			}
			return true
		})
	}
	g.def("resolver_get_key", "list string", coqStrList(rkey), "resolverCache.Get: what find / newPkgResolver / fill are called with")

	dget := findFunc(caches, "disqualifyCache", "Get")
	g.def("dq_get_returns", "list string", coqStrList(c08Returns(dget, func(e ast.Expr) string {
		if c, ok := e.(*ast.CallExpr); ok && exprText(c.Fun) == "maps.Clone" && len(c.Args) == 1 {
			if _, ok := c.Args[0].(*ast.Ident); ok {
				return "maps.Clone"
			}
		}
		return "other:" + strings.Join(strings.Fields(exprText(e)), " ")
	})), "disqualifyCache.Get, "+g.pos(dget)+": every return statement")
	g.def("dq_get_locked", "bool", c08Bool(c08Locked(dget)), "disqualifyCache.Get starts with Lock / defer Unlock")

	g.def("memo_table_types", "list (string * string)",
		"[("+coqStr("parsedConstraints")+", "+coqStr(c08VarType(repoGo, "parsedConstraints"))+"); ("+
			coqStr("parsedVersions")+", "+coqStr(c08VarType(repoGo, "parsedVersions"))+")]",
		"the two memo tables of repo.go")

	// getPackageDependencies: inside `for K, V := range options` a comparison `K < lowest`
	gpd := findFunc(repoGo, "PkgResolver", "getPackageDependencies")
	tie := false
	if gpd != nil {
		ast.Inspect(gpd.Body, func(n ast.Node) bool {
			r, ok := n.(*ast.RangeStmt)
			if !ok || exprText(r.X) != "options" || r.Key == nil {
				return true
			}
			k := exprText(r.Key)
			ast.Inspect(r.Body, func(m ast.Node) bool {
				if b, ok := m.(*ast.BinaryExpr); ok && b.Op == token.LSS && exprText(b.X) == k && exprText(b.Y) == "lowest" {
					tie = true
				}
				return true
			})
			return true
		})
	}
	g.def("lowest_tiebreak_present", "bool", c08Bool(tie), "getPackageDependencies, "+g.pos(gpd)+": `key < lowest` inside the range over options")

	// comparePackages: the comparator's last statement is `return cmp.Compare(A.Name, B.Name)` on its two parameters
	cp := findFunc(repoGo, "PkgResolver", "comparePackages")
	last := false
	if cp != nil {
		ast.Inspect(cp.Body, func(n ast.Node) bool {
			fl, ok := n.(*ast.FuncLit)
			if !ok || fl.Type.Params == nil || len(fl.Body.List) == 0 {
				return true
			}
			var ps []string
			for _, f := range fl.Type.Params.List {
				for _, id := range f.Names {
					ps = append(ps, id.Name)
				}
			}
			if len(ps) != 2 {
				return true
			}
			if r, ok := fl.Body.List[len(fl.Body.List)-1].(*ast.ReturnStmt); ok && len(r.Results) == 1 {
				if exprText(r.Results[0]) == "cmp.Compare("+ps[0]+".Name, "+ps[1]+".Name)" {
					last = true
				}
			}
			return false
		})
	}
	g.def("compare_ends_with_names", "bool", c08Bool(last), "comparePackages, "+g.pos(cp)+": the comparator ends with cmp.Compare on the two names")
	genC08Index(g)
	g.def("dq_cache_node", "list string", coqStrList(c08DqNode()),
		"disqualifyCache.find / fill at a leaf of the trie: what a node holds, how an entry is found, what fill stores")
	g.write()
}

// The index cache and GetRepositoryIndexes (pkg/apk/apk/index.go), as Model/CachesIndex.v transcribes them:
//   - indexCache.get, local branch: the modification time is looked up and recorded under THE SAME key the
//     parsed result is stored and loaded under, and the file is re-read when there is no recorded time or the
//     file's time is After it;
//   - GetRepositoryIndexes: a slice with one slot per repository line, goroutine i writes slot i, nil slots
//     are deleted after Wait, that slice is returned.
func genC08Index(g *gen) {
	const indexGo = "pkg/apk/apk/index.go"
	norm := func(n ast.Node) string { return strings.Join(strings.Fields(exprText(n)), " ") }

	get := findFunc(indexGo, "indexCache", "get")
	var modKeys []string
	cond := "missing"
	if get != nil {
		recv := c08Recv(get)
		// the local branch = the block holding `before, ok := <recv>.modtimes[..]`; the key of the stored results =
		// the first argument of every <recv>.store / <recv>.load in it
		{
			resKeys := map[string]bool{}
			var outer *ast.BlockStmt
			ast.Inspect(get.Body, func(n ast.Node) bool {
				b, ok := n.(*ast.BlockStmt)
				if !ok {
					return true
				}
				uses := false
				for _, st := range b.List {
					if as, ok := st.(*ast.AssignStmt); ok {
						for _, r := range as.Rhs {
							if ix, ok := r.(*ast.IndexExpr); ok && exprText(ix.X) == recv+".modtimes" {
								uses = true
							}
						}
					}
				}
				if uses && outer == nil {
					outer = b
				}
				return true
			})
			if outer == nil {
				// a differently shaped local branch is a changed shape (c08_source_shape_keys_and_index_cache fails),
				// not a broken translator: other properties' checks are not affected
				modKeys = append(modKeys, "other:no lookup in "+recv+".modtimes")
				cond = "other:no lookup in " + recv + ".modtimes"
			} else {
				// from the lookup onwards (when the local branch is not an else block of its own but the rest of the
				// function after a remote branch that always returns, the statements before the lookup are not part of it)
				from := 0
				for i, st := range outer.List {
					if as, ok := st.(*ast.AssignStmt); ok {
						for _, r := range as.Rhs {
							if ix, ok := r.(*ast.IndexExpr); ok && exprText(ix.X) == recv+".modtimes" && from == 0 {
								from = i
							}
						}
					}
				}
				for _, st := range outer.List[from:] {
					ast.Inspect(st, func(n ast.Node) bool {
						if c, ok := n.(*ast.CallExpr); ok && len(c.Args) >= 1 {
							if f := exprText(c.Fun); f == recv+".store" || f == recv+".load" {
								resKeys[norm(c.Args[0])] = true
							}
						}
						return true
					})
				}
				ast.Inspect(outer, func(n ast.Node) bool {
					if ix, ok := n.(*ast.IndexExpr); ok && exprText(ix.X) == recv+".modtimes" {
						k := norm(ix.Index)
						if len(resKeys) == 1 && resKeys[k] {
							modKeys = append(modKeys, "entry-key")
						} else {
							modKeys = append(modKeys, "other:"+k)
						}
					}
					return true
				})
				// the refresh condition: `before, ok := modtimes[K]` ... `if !ok || mod.After(before)` with mod := <x>.ModTime()
				var before, okv, mod string
				for _, st := range outer.List {
					as, ok := st.(*ast.AssignStmt)
					if !ok || len(as.Rhs) != 1 {
						continue
					}
					if ix, ok := as.Rhs[0].(*ast.IndexExpr); ok && exprText(ix.X) == recv+".modtimes" && len(as.Lhs) == 2 {
						before, okv = exprText(as.Lhs[0]), exprText(as.Lhs[1])
					}
					if c, ok := as.Rhs[0].(*ast.CallExpr); ok && len(as.Lhs) == 1 {
						if sel, ok := c.Fun.(*ast.SelectorExpr); ok && sel.Sel.Name == "ModTime" {
							mod = exprText(as.Lhs[0])
						}
					}
				}
				for _, st := range outer.List {
					is, ok := st.(*ast.IfStmt)
					if !ok {
						continue
					}
					writes := false
					ast.Inspect(is.Body, func(n ast.Node) bool {
						if as, ok := n.(*ast.AssignStmt); ok && len(as.Lhs) == 1 {
							if ix, ok := as.Lhs[0].(*ast.IndexExpr); ok && exprText(ix.X) == recv+".modtimes" {
								writes = true
							}
						}
						return true
					})
					if !writes {
						continue
					}
					if norm(is.Cond) == "!"+okv+" || "+mod+".After("+before+")" && before != "" && mod != "" {
						cond = "no-recorded-time-or-file-time-after-recorded"
					} else {
						cond = "other:" + norm(is.Cond)
					}
				}
			}
		}
	}
	g.def("index_modtimes_keys", "list string", coqStrList(modKeys),
		"indexCache.get, "+g.pos(get)+": every index into the modtimes map, compared with the key the parsed results are stored / loaded under")
	g.def("index_refresh_condition", "string", coqStr(cond), "indexCache.get: the condition under which a local index file is read again")

	gri := findFunc(indexGo, "", "GetRepositoryIndexes")
	var collect []string
	if gri != nil {
		var slice, rangeKey, rangeX string
		// indexes := make([]NamedIndex, len(<repos>))
		ast.Inspect(gri.Body, func(n ast.Node) bool {
			as, ok := n.(*ast.AssignStmt)
			if !ok || len(as.Lhs) != 1 || len(as.Rhs) != 1 || slice != "" {
				return true
			}
			if c, ok := as.Rhs[0].(*ast.CallExpr); ok && exprText(c.Fun) == "make" && len(c.Args) == 2 {
				if l, ok := c.Args[1].(*ast.CallExpr); ok && exprText(l.Fun) == "len" && len(l.Args) == 1 {
					slice, rangeX = exprText(as.Lhs[0]), exprText(l.Args[0])
					collect = append(collect, "slots:one-per-line")
				}
			}
			return true
		})
		if slice == "" {
			collect = append(collect, "other:no make(.., len(lines))")
		}
		// for <i>, _ := range <repos> { ... go func: <slice>[<i>] = ... }
		wrote := false
		ast.Inspect(gri.Body, func(n ast.Node) bool {
			rs, ok := n.(*ast.RangeStmt)
			if !ok || exprText(rs.X) != rangeX || rs.Key == nil {
				return true
			}
			rangeKey = exprText(rs.Key)
			ast.Inspect(rs.Body, func(m ast.Node) bool {
				fl, ok := m.(*ast.FuncLit)
				if !ok {
					return true
				}
				ast.Inspect(fl.Body, func(k ast.Node) bool {
					if as, ok := k.(*ast.AssignStmt); ok && len(as.Lhs) == 1 {
						if ix, ok := as.Lhs[0].(*ast.IndexExpr); ok && exprText(ix.X) == slice {
							if exprText(ix.Index) == rangeKey {
								collect = append(collect, "write:slot-of-own-line")
							} else {
								collect = append(collect, "other:write "+norm(as.Lhs[0]))
							}
							wrote = true
						}
					}
					return true
				})
				return false
			})
			return false
		})
		if !wrote {
			collect = append(collect, "other:no goroutine writes a slot")
		}
		// <slice> = slices.DeleteFunc(<slice>, func(x) bool { return x == nil })
		deleted := false
		for _, st := range gri.Body.List {
			as, ok := st.(*ast.AssignStmt)
			if !ok || len(as.Lhs) != 1 || len(as.Rhs) != 1 || exprText(as.Lhs[0]) != slice {
				continue
			}
			if c, ok := as.Rhs[0].(*ast.CallExpr); ok && exprText(c.Fun) == "slices.DeleteFunc" && len(c.Args) == 2 && exprText(c.Args[0]) == slice {
				if fl, ok := c.Args[1].(*ast.FuncLit); ok && len(fl.Body.List) == 1 && fl.Type.Params != nil && len(fl.Type.Params.List) == 1 && len(fl.Type.Params.List[0].Names) == 1 {
					if r, ok := fl.Body.List[0].(*ast.ReturnStmt); ok && len(r.Results) == 1 && norm(r.Results[0]) == fl.Type.Params.List[0].Names[0].Name+" == nil" {
						collect = append(collect, "holes:nil-deleted")
						deleted = true
					}
				}
			}
		}
		if !deleted {
			collect = append(collect, "other:no DeleteFunc(nil)")
		}
		if n := len(gri.Body.List); n > 0 {
			if r, ok := gri.Body.List[n-1].(*ast.ReturnStmt); ok && len(r.Results) == 2 && exprText(r.Results[0]) == slice && exprText(r.Results[1]) == "nil" {
				collect = append(collect, "returns:the-slots")
			} else {
				collect = append(collect, "other:last statement "+norm(gri.Body.List[n-1]))
			}
		}
	}
	g.def("get_indexes_collect", "list string", coqStrList(collect),
		"GetRepositoryIndexes, "+g.pos(gri)+": how the per-repository results are collected into the returned list")
	g.def("index_remote_shape", "list string", coqStrList(c08RemoteShape(get)),
		"indexCache.get, remote branch: what happens without an ETag, the key of a stored result, once per key, what is stored, what is forgotten, what is returned")
}

// c08DqNode describes what a LEAF of the disqualification trie holds and how find / fill use it
// (shameful_global_caches.go).  Since fix 3541d7b (was finding C08-F2) a node keeps one entry per GROUPING of
// the indexes by architecture: find returns the entry whose grouping equals the request's (same architectures,
// the same index objects in the same order), fill appends an entry with a COPY of the grouping.  The former
// shape (one set per node) and anything else are described as such, not refused: the description is pinned by
// c08_source_shape_dq_node / c14_source_shape, so a revert changes a checked statement.
func c08DqNode() []string {
	const caches = "pkg/apk/apk/shameful_global_caches.go"
	norm := func(n ast.Node) string { return strings.Join(strings.Fields(exprText(n)), " ") }
	leaf := func(fd *ast.FuncDecl) (*ast.BlockStmt, string, string) {
		if fd == nil || fd.Type.Params == nil || len(fd.Body.List) == 0 {
			return nil, "", ""
		}
		var ps []string
		for _, f := range fd.Type.Params.List {
			for _, id := range f.Names {
				ps = append(ps, id.Name)
			}
		}
		if len(ps) == 0 {
			return nil, "", ""
		}
		is, ok := fd.Body.List[0].(*ast.IfStmt)
		if !ok || norm(is.Cond) != "len("+ps[0]+") == 0" {
			return nil, "", ""
		}
		second := ""
		if len(ps) >= 2 {
			second = ps[1]
		}
		return is.Body, second, ps[len(ps)-1]
	}
	var out []string

	find := findFunc(caches, "disqualifyCache", "find")
	recv := c08Recv(find)
	if body, grouping, _ := leaf(find); body == nil {
		out = append(out, "find:other")
	} else if len(body.List) == 1 {
		if r, ok := body.List[0].(*ast.ReturnStmt); ok && len(r.Results) == 1 && strings.HasPrefix(norm(r.Results[0]), recv+".") {
			out = append(out, "find:the-one-set-of-the-node")
		} else {
			out = append(out, "find:other:"+norm(body.List[0]))
		}
	} else {
		desc := "find:other"
		equal := "equal:other"
		if rs, ok := body.List[0].(*ast.RangeStmt); ok && strings.HasPrefix(norm(rs.X), recv+".") && rs.Value != nil && len(rs.Body.List) == 1 && len(body.List) == 2 {
			e := exprText(rs.Value)
			last, okLast := body.List[1].(*ast.ReturnStmt)
			if is, ok := rs.Body.List[0].(*ast.IfStmt); ok && okLast && len(last.Results) == 1 && norm(last.Results[0]) == "nil" && is.Else == nil && len(is.Body.List) == 1 {
				if c, ok := is.Cond.(*ast.CallExpr); ok && len(c.Args) == 2 {
					a0, a1 := norm(c.Args[0]), norm(c.Args[1])
					stored := ""
					if strings.HasPrefix(a0, e+".") && a1 == grouping {
						stored = a0
					} else if strings.HasPrefix(a1, e+".") && a0 == grouping {
						stored = a1
					}
					if r, ok := is.Body.List[0].(*ast.ReturnStmt); ok && stored != "" && len(r.Results) == 1 && strings.HasPrefix(norm(r.Results[0]), e+".") && norm(r.Results[0]) != stored {
						desc = "find:entry-with-an-equal-grouping"
						// the comparison: maps.EqualFunc(a, b, func(x, y) bool { return slices.Equal(x, y) }) on the function's two parameters
						if id, ok := c.Fun.(*ast.Ident); ok {
							if f := load(caches); f != nil {
								for _, d := range f.Decls {
									fd, ok := d.(*ast.FuncDecl)
									if !ok || fd.Recv != nil || fd.Name.Name != id.Name || fd.Type.Params == nil || len(fd.Body.List) != 1 {
										continue
									}
									var ps []string
									for _, fl := range fd.Type.Params.List {
										for _, n := range fl.Names {
											ps = append(ps, n.Name)
										}
									}
									if r, ok := fd.Body.List[0].(*ast.ReturnStmt); ok && len(ps) == 2 && len(r.Results) == 1 {
										if ce, ok := r.Results[0].(*ast.CallExpr); ok && norm(ce.Fun) == "maps.EqualFunc" && len(ce.Args) == 3 && norm(ce.Args[0]) == ps[0] && norm(ce.Args[1]) == ps[1] {
											if fl, ok := ce.Args[2].(*ast.FuncLit); ok && len(fl.Body.List) == 1 && fl.Type.Params != nil {
												var qs []string
												for _, p := range fl.Type.Params.List {
													for _, n := range p.Names {
														qs = append(qs, n.Name)
													}
												}
												if rr, ok := fl.Body.List[0].(*ast.ReturnStmt); ok && len(qs) == 2 && len(rr.Results) == 1 && norm(rr.Results[0]) == "slices.Equal("+qs[0]+", "+qs[1]+")" {
													equal = "equal:same-architectures-and-the-same-index-objects-in-the-same-order"
												}
											}
										}
									}
								}
							}
						}
					}
				}
			}
		}
		out = append(out, desc, equal)
	}

	fill := findFunc(caches, "disqualifyCache", "fill")
	frecv := c08Recv(fill)
	if body, grouping, dq := leaf(fill); body == nil {
		out = append(out, "fill:other")
	} else {
		desc := "fill:other"
		if len(body.List) == 2 {
			if as, ok := body.List[0].(*ast.AssignStmt); ok && len(as.Lhs) == 1 && len(as.Rhs) == 1 && strings.HasPrefix(norm(as.Lhs[0]), frecv+".") && norm(as.Rhs[0]) == dq {
				desc = "fill:replaces-the-one-set"
			}
		}
		// X := make(map..., len(grouping)); for k, v := range grouping { X[k] = slices.Clone(v) }; recv.F = append(recv.F, T{..: X, ..: dq})
		var copyVar string
		cloned := false
		for _, st := range body.List {
			switch x := st.(type) {
			case *ast.AssignStmt:
				if len(x.Lhs) == 1 && len(x.Rhs) == 1 {
					if c, ok := x.Rhs[0].(*ast.CallExpr); ok && norm(c.Fun) == "make" && len(c.Args) >= 1 && strings.HasPrefix(norm(c.Args[0]), "map[") {
						copyVar = norm(x.Lhs[0])
					}
					if c, ok := x.Rhs[0].(*ast.CallExpr); ok && norm(c.Fun) == "append" && len(c.Args) == 2 && norm(c.Args[0]) == norm(x.Lhs[0]) && strings.HasPrefix(norm(x.Lhs[0]), frecv+".") {
						if cl, ok := c.Args[1].(*ast.CompositeLit); ok && len(cl.Elts) == 2 {
							var vals []string
							for _, el := range cl.Elts {
								if kv, ok := el.(*ast.KeyValueExpr); ok {
									vals = append(vals, norm(kv.Value))
								}
							}
							switch {
							case len(vals) == 2 && copyVar != "" && cloned && ((vals[0] == copyVar && vals[1] == dq) || (vals[1] == copyVar && vals[0] == dq)):
								desc = "fill:appends-an-entry-with-a-copy-of-the-grouping"
							case len(vals) == 2 && ((vals[0] == grouping && vals[1] == dq) || (vals[1] == grouping && vals[0] == dq)):
								desc = "fill:appends-an-entry-with-the-caller's-own-map"
							}
						}
					}
				}
			case *ast.RangeStmt:
				if norm(x.X) == grouping && x.Key != nil && x.Value != nil && len(x.Body.List) == 1 && copyVar != "" {
					if as, ok := x.Body.List[0].(*ast.AssignStmt); ok && len(as.Lhs) == 1 && len(as.Rhs) == 1 &&
						norm(as.Lhs[0]) == copyVar+"["+norm(x.Key)+"]" && norm(as.Rhs[0]) == "slices.Clone("+norm(x.Value)+")" {
						cloned = true
					}
				}
			}
		}
		out = append(out, desc)
	}
	return out
}

// c08RemoteShape describes the remote branch of indexCache.get as Model/CachesIndex.rc_get transcribes it:
// without an ETag the index is fetched and parsed and NOTHING is stored; with one, the result - index or error - is
// stored once (sync.Once per key) under <entry key>@<etag>, the entry of the ETag recorded before for the entry key is
// forgotten, the ETag is recorded, and what is stored under the key is returned.  Local names are discovered from
// the statements that bind them.
func c08RemoteShape(get *ast.FuncDecl) []string {
	if get == nil {
		return []string{"other:no indexCache.get"}
	}
	norm := func(n ast.Node) string { return strings.Join(strings.Fields(exprText(n)), " ") }
	recv := c08Recv(get)
	var out []string
	// etag, ok := <f>(resp)  where the next use is `if !ok { return <fetch>(etag) }`
	var etagV, okV, fetchF string
	var remote *ast.BlockStmt
	ast.Inspect(get.Body, func(n ast.Node) bool {
		b, isB := n.(*ast.BlockStmt)
		if !isB || remote != nil {
			return true
		}
		for k, st := range b.List {
			as, ok := st.(*ast.AssignStmt)
			if !ok || len(as.Lhs) != 2 || len(as.Rhs) != 1 || k+1 >= len(b.List) {
				continue
			}
			if c, ok := as.Rhs[0].(*ast.CallExpr); !ok || len(c.Args) != 1 || !strings.Contains(strings.ToLower(norm(c.Fun)), "etag") {
				continue
			}
			is, ok := b.List[k+1].(*ast.IfStmt)
			if !ok {
				continue
			}
			etagV, okV, remote = norm(as.Lhs[0]), norm(as.Lhs[1]), b
			if norm(is.Cond) == "!"+okV && is.Else == nil && len(is.Body.List) == 1 {
				if r, ok := is.Body.List[0].(*ast.ReturnStmt); ok && len(r.Results) == 1 {
					if c, ok := r.Results[0].(*ast.CallExpr); ok && len(c.Args) == 1 && norm(c.Args[0]) == etagV {
						if id, ok := c.Fun.(*ast.Ident); ok {
							fetchF = id.Name
						}
					}
				}
			}
			if fetchF != "" {
				out = append(out, "no-etag:fetched-and-parsed-nothing-stored")
			} else {
				out = append(out, "no-etag:other:"+norm(is.Cond))
			}
		}
		return true
	})
	if remote == nil {
		return []string{"other:no `etag, ok := ...(resp)` followed by an if"}
	}
	// key := fmt.Sprintf("%s@%s", <entry key>, etag)
	var keyV, entryKey, keyFmt string
	for _, st := range remote.List {
		if as, ok := st.(*ast.AssignStmt); ok && len(as.Lhs) == 1 && len(as.Rhs) == 1 {
			if c, ok := as.Rhs[0].(*ast.CallExpr); ok && norm(c.Fun) == "fmt.Sprintf" && len(c.Args) == 3 {
				keyV, keyFmt, entryKey = norm(as.Lhs[0]), norm(c.Args[0]), norm(c.Args[1])
				// the entry key is what the local branch stores under
				localKey := ""
				ast.Inspect(get.Body, func(n ast.Node) bool {
					if ix, ok := n.(*ast.IndexExpr); ok && norm(ix.X) == recv+".modtimes" && localKey == "" {
						localKey = norm(ix.Index)
					}
					return true
				})
				if keyFmt == `"%s@%s"` && norm(c.Args[2]) == etagV && entryKey == localKey {
					out = append(out, "key:entry-key@etag")
				} else {
					out = append(out, "key:other:"+norm(as.Rhs[0]))
				}
			}
		}
	}
	if keyV == "" {
		return append(out, "key:other:none")
	}
	// once, _ := <recv>.onces.LoadOrStore(key, &sync.Once{}); once.(*sync.Once).Do(func() { ... })
	var body *ast.BlockStmt
	loaded := false
	ast.Inspect(remote, func(n ast.Node) bool {
		c, ok := n.(*ast.CallExpr)
		if !ok {
			return true
		}
		if strings.HasPrefix(norm(c.Fun), recv+".") && strings.HasSuffix(norm(c.Fun), ".LoadOrStore") && len(c.Args) == 2 && norm(c.Args[0]) == keyV && norm(c.Args[1]) == "&sync.Once{}" {
			loaded = true
		}
		if strings.HasSuffix(norm(c.Fun), ".(*sync.Once).Do") && len(c.Args) == 1 {
			if fl, ok := c.Args[0].(*ast.FuncLit); ok {
				body = fl.Body
			}
		}
		return true
	})
	if loaded && body != nil {
		out = append(out, "once-per-key")
	} else {
		return append(out, "other:no sync.Once per key")
	}
	// inside Do: prev, ok := <recv>.urlToEtag[entryKey]; if ok { prevKey := Sprintf(fmt, entryKey, prev); <recv>.forget(prevKey) }
	//            idx, err := <fetch>(etag); <recv>.store(key, idx, err); <recv>.urlToEtag[entryKey] = etag
	var tab, prevV string
	forgets, stores, records := "forgets:other", "stores:other", "records:other"
	ast.Inspect(body, func(n ast.Node) bool {
		switch x := n.(type) {
		case *ast.AssignStmt:
			if len(x.Lhs) == 2 && len(x.Rhs) == 1 {
				if ix, ok := x.Rhs[0].(*ast.IndexExpr); ok && strings.HasPrefix(norm(ix.X), recv+".") && norm(ix.Index) == entryKey {
					tab, prevV = norm(ix.X), norm(x.Lhs[0])
				}
				if c, ok := x.Rhs[0].(*ast.CallExpr); ok && norm(c.Fun) == fetchF && len(c.Args) == 1 && norm(c.Args[0]) == etagV {
					a, b := norm(x.Lhs[0]), norm(x.Lhs[1])
					ast.Inspect(body, func(m ast.Node) bool {
						if c2, ok := m.(*ast.CallExpr); ok && norm(c2.Fun) == recv+".store" && len(c2.Args) == 3 && norm(c2.Args[0]) == keyV && norm(c2.Args[1]) == a && norm(c2.Args[2]) == b {
							stores = "stores:the-index-or-the-error"
						}
						return true
					})
				}
			}
			if len(x.Lhs) == 1 && len(x.Rhs) == 1 && tab != "" {
				if ix, ok := x.Lhs[0].(*ast.IndexExpr); ok && norm(ix.X) == tab && norm(ix.Index) == entryKey && norm(x.Rhs[0]) == etagV {
					records = "records:the-etag-of-the-entry-key"
				}
			}
		case *ast.IfStmt:
			if tab == "" || prevV == "" {
				return true
			}
			var pk string
			for _, st := range x.Body.List {
				if as, ok := st.(*ast.AssignStmt); ok && len(as.Lhs) == 1 && len(as.Rhs) == 1 {
					if c, ok := as.Rhs[0].(*ast.CallExpr); ok && norm(c.Fun) == "fmt.Sprintf" && len(c.Args) == 3 && norm(c.Args[0]) == keyFmt && norm(c.Args[1]) == entryKey && norm(c.Args[2]) == prevV {
						pk = norm(as.Lhs[0])
					}
				}
				if es, ok := st.(*ast.ExprStmt); ok && pk != "" && norm(es.X) == recv+".forget("+pk+")" {
					forgets = "forgets:the-entry-of-the-previous-etag"
				}
			}
		}
		return true
	})
	out = append(out, forgets, stores, records)
	if n := len(remote.List); n > 0 {
		if r, ok := remote.List[n-1].(*ast.ReturnStmt); ok && len(r.Results) == 1 && norm(r.Results[0]) == recv+".load("+keyV+")" {
			out = append(out, "returns:what-is-stored-under-the-key")
		} else {
			out = append(out, "returns:other:"+norm(remote.List[n-1]))
		}
	}
	return out
}
