package main

// C08: the cache-layer model (coq/Model/Caches.v) allocates fresh references
// for exactly what PkgResolver.Clone / maps.Clone copy and shares the rest, and
// assumes the two Get functions hand out clones under their mutex and that the
// memo tables are sync.Maps. This generator reads those SHAPES from the
// source (receiver and local names normalised away, struct fields sorted) and
// emits them as data; Properties/C08.v states what the model assumes about
// them (c08_source_shape), so that e.g. `return pr` instead of
// `return pr.Clone()` breaks the build of the property file.

import (
	"go/ast"
	"go/token"
	"sort"
	"strings"
)

func c08Recv(fd *ast.FuncDecl) string {
	if fd == nil || fd.Recv == nil || len(fd.Recv.List) == 0 || len(fd.Recv.List[0].Names) == 0 {
		return ""
	}
	return fd.Recv.List[0].Names[0].Name
}

// how one field of the struct literal returned by Clone is produced
func c08FieldShape(recv, field string, e ast.Expr) string {
	switch x := e.(type) {
	case *ast.SelectorExpr:
		if exprText(x) == recv+"."+field {
			return "shared"
		}
	case *ast.CallExpr:
		if exprText(x.Fun) == "maps.Clone" && len(x.Args) == 1 && exprText(x.Args[0]) == recv+"."+field {
			return "maps.Clone"
		}
		if exprText(x.Fun) == "slices.Clone" && len(x.Args) == 1 && exprText(x.Args[0]) == recv+"."+field {
			return "slices.Clone"
		}
	case *ast.CompositeLit:
		if len(x.Elts) == 0 {
			return "fresh-empty"
		}
	}
	return "other:" + strings.Join(strings.Fields(exprText(e)), " ")
}

func c08Returns(fd *ast.FuncDecl, classify func(ast.Expr) string) []string {
	var out []string
	if fd == nil {
		return out
	}
	ast.Inspect(fd.Body, func(n ast.Node) bool {
		if _, ok := n.(*ast.FuncLit); ok {
			return false // returns of nested closures (comparators) are not ours
		}
		if r, ok := n.(*ast.ReturnStmt); ok && len(r.Results) == 1 {
			out = append(out, classify(r.Results[0]))
		}
		return true
	})
	return out
}

// first two statements are `<recv>.Lock()` and `defer <recv>.Unlock()`
func c08Locked(fd *ast.FuncDecl) bool {
	if fd == nil || len(fd.Body.List) < 2 {
		return false
	}
	recv := c08Recv(fd)
	es, ok := fd.Body.List[0].(*ast.ExprStmt)
	if !ok || exprText(es.X) != recv+".Lock()" {
		return false
	}
	ds, ok := fd.Body.List[1].(*ast.DeferStmt)
	return ok && exprText(ds.Call) == recv+".Unlock()"
}

func c08VarType(rel, name string) string {
	f := load(rel)
	if f == nil {
		return ""
	}
	for _, d := range f.Decls {
		gd, ok := d.(*ast.GenDecl)
		if !ok || gd.Tok != token.VAR {
			continue
		}
		for _, s := range gd.Specs {
			vs := s.(*ast.ValueSpec)
			for i, id := range vs.Names {
				if id.Name != name {
					continue
				}
				if vs.Type != nil {
					return exprText(vs.Type)
				}
				if i < len(vs.Values) {
					return "value:" + strings.Join(strings.Fields(exprText(vs.Values[i])), " ")
				}
			}
		}
	}
	fail("%s: no package-level var %q", rel, name)
	return ""
}

func c08Bool(b bool) string {
	if b {
		return "true"
	}
	return "false"
}

func genC08() {
	const caches = "pkg/apk/apk/shameful_global_caches.go"
	const repoGo = "pkg/apk/apk/repo.go"
	g := newGen("C08Caches", "From Coq Require Import String List.\nImport ListNotations.\nOpen Scope string_scope.\n")

	// PkgResolver.Clone: a single `return &PkgResolver{...}`
	clone := findFunc(repoGo, "PkgResolver", "Clone")
	var shape []string
	if clone != nil {
		recv := c08Recv(clone)
		var lit *ast.CompositeLit
		ast.Inspect(clone.Body, func(n ast.Node) bool {
			if r, ok := n.(*ast.ReturnStmt); ok && len(r.Results) == 1 {
				if u, ok := r.Results[0].(*ast.UnaryExpr); ok && u.Op == token.AND {
					if c, ok := u.X.(*ast.CompositeLit); ok {
						lit = c
					}
				}
			}
			return true
		})
		if lit == nil {
			fail("%s: PkgResolver.Clone does not return a struct literal", repoGo)
		} else {
			for _, el := range lit.Elts {
				kv, ok := el.(*ast.KeyValueExpr)
				if !ok {
					fail("%s: PkgResolver.Clone: positional struct literal", repoGo)
					continue
				}
				f := exprText(kv.Key)
				shape = append(shape, "("+coqStr(f)+", "+coqStr(c08FieldShape(recv, f, kv.Value))+")")
			}
			sort.Strings(shape)
		}
	}
	g.def("clone_shape", "list (string * string)", "["+strings.Join(shape, "; ")+"]",
		"PkgResolver.Clone, "+g.pos(clone)+": how each field of the returned struct is produced (fields sorted)")

	rget := findFunc(caches, "resolverCache", "Get")
	g.def("resolver_get_returns", "list string", coqStrList(c08Returns(rget, func(e ast.Expr) string {
		if c, ok := e.(*ast.CallExpr); ok && len(c.Args) == 0 {
			if s, ok := c.Fun.(*ast.SelectorExpr); ok && s.Sel.Name == "Clone" {
				if _, ok := s.X.(*ast.Ident); ok {
					return "clone"
				}
			}
		}
		return "other:" + strings.Join(strings.Fields(exprText(e)), " ")
	})), "resolverCache.Get, "+g.pos(rget)+": every return statement")
	g.def("resolver_get_locked", "bool", c08Bool(c08Locked(rget)), "resolverCache.Get starts with Lock / defer Unlock")

	dget := findFunc(caches, "disqualifyCache", "Get")
	g.def("dq_get_returns", "list string", coqStrList(c08Returns(dget, func(e ast.Expr) string {
		if c, ok := e.(*ast.CallExpr); ok && exprText(c.Fun) == "maps.Clone" && len(c.Args) == 1 {
			if _, ok := c.Args[0].(*ast.Ident); ok {
				return "maps.Clone"
			}
		}
		return "other:" + strings.Join(strings.Fields(exprText(e)), " ")
	})), "disqualifyCache.Get, "+g.pos(dget)+": every return statement")
	g.def("dq_get_locked", "bool", c08Bool(c08Locked(dget)), "disqualifyCache.Get starts with Lock / defer Unlock")

	g.def("memo_table_types", "list (string * string)",
		"[("+coqStr("parsedConstraints")+", "+coqStr(c08VarType(repoGo, "parsedConstraints"))+"); ("+
			coqStr("parsedVersions")+", "+coqStr(c08VarType(repoGo, "parsedVersions"))+")]",
		"the two memo tables of repo.go")

	// getPackageDependencies: inside `for K, V := range options` a comparison `K < lowest`
	gpd := findFunc(repoGo, "PkgResolver", "getPackageDependencies")
	tie := false
	if gpd != nil {
		ast.Inspect(gpd.Body, func(n ast.Node) bool {
			r, ok := n.(*ast.RangeStmt)
			if !ok || exprText(r.X) != "options" || r.Key == nil {
				return true
			}
			k := exprText(r.Key)
			ast.Inspect(r.Body, func(m ast.Node) bool {
				if b, ok := m.(*ast.BinaryExpr); ok && b.Op == token.LSS && exprText(b.X) == k && exprText(b.Y) == "lowest" {
					tie = true
				}
				return true
			})
			return true
		})
	}
	g.def("lowest_tiebreak_present", "bool", c08Bool(tie), "getPackageDependencies, "+g.pos(gpd)+": `key < lowest` inside the range over options")

	// comparePackages: the comparator's last statement is `return cmp.Compare(A.Name, B.Name)` on its two parameters
	cp := findFunc(repoGo, "PkgResolver", "comparePackages")
	last := false
	if cp != nil {
		ast.Inspect(cp.Body, func(n ast.Node) bool {
			fl, ok := n.(*ast.FuncLit)
			if !ok || fl.Type.Params == nil || len(fl.Body.List) == 0 {
				return true
			}
			var ps []string
			for _, f := range fl.Type.Params.List {
				for _, id := range f.Names {
					ps = append(ps, id.Name)
				}
			}
			if len(ps) != 2 {
				return true
			}
			if r, ok := fl.Body.List[len(fl.Body.List)-1].(*ast.ReturnStmt); ok && len(r.Results) == 1 {
				if exprText(r.Results[0]) == "cmp.Compare("+ps[0]+".Name, "+ps[1]+".Name)" {
					last = true
				}
			}
			return false
		})
	}
	g.def("compare_ends_with_names", "bool", c08Bool(last), "comparePackages, "+g.pos(cp)+": the comparator ends with cmp.Compare on the two names")
	g.write()
}
