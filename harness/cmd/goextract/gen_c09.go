package main

// C09: constants, format strings and the range arithmetic of the lock path.
//   pkg/build/lock.go        packageNameRegex (pkg/build's private copy), the two
//       strings.IndexAny delimiter sets of unify, the "index" sentinel key, the
//       Sprintf formats that build a lock entry and append its pin
//   internal/cli/lock.go     LockCmd: per section (Control, Data, Signature) the
//       Range format with its integer arguments as Base.C12Lib.aexp over the
//       APKResolved field names, and the Checksum prefix literal
//   pkg/apk/apk/resolveapk.go NewAPKResolved: which APKExpanded field feeds each
//       APKResolved field (sizes as aexp, hashes as names)

import (
	"fmt"
	"go/ast"
	"go/token"
	"strings"
)

// c09Expr: integer expression over selector / identifier names.
func c09Expr(e ast.Expr, where string) string {
	switch x := e.(type) {
	case *ast.SelectorExpr:
		return "(EVar " + coqStr(x.Sel.Name) + ")"
	case *ast.Ident:
		return "(EVar " + coqStr(x.Name) + ")"
	case *ast.BasicLit:
		if v, ok := intLit(x); ok {
			return fmt.Sprintf("(EConst (%d))", v)
		}
	case *ast.ParenExpr:
		return c09Expr(x.X, where)
	case *ast.CallExpr:
		if id, ok := x.Fun.(*ast.Ident); ok && len(x.Args) == 1 && (strings.HasPrefix(id.Name, "int") || strings.HasPrefix(id.Name, "uint")) {
			return c09Expr(x.Args[0], where)
		}
	case *ast.BinaryExpr:
		ops := map[token.Token]string{token.ADD: "EAdd", token.SUB: "ESub", token.MUL: "EMul", token.QUO: "EQuo", token.REM: "ERem"}
		if c, ok := ops[x.Op]; ok {
			return "(" + c + " " + c09Expr(x.X, where) + " " + c09Expr(x.Y, where) + ")"
		}
	}
	fail("%s: integer expression %q is outside the translated fragment", where, exprText(e))
	return "(EConst 0)"
}

func c09List(items []string) string { return "[" + strings.Join(items, "; ") + "]" }

// c09Section: inside fd, the composite literal assigned to field `field`
// (KeyValueExpr `field: T{Range: Sprintf(..), Checksum: "p" + ..}` or the
// assignment `x.field = T{...}`); returns the Range format, its arguments and
// the checksum prefix.
func c09Section(fd *ast.FuncDecl, field, where string) (format string, args []string, prefix string, node ast.Node) {
	if fd == nil {
		return
	}
	var lit *ast.CompositeLit
	ast.Inspect(fd, func(n ast.Node) bool {
		if lit != nil {
			return false
		}
		switch x := n.(type) {
		case *ast.KeyValueExpr:
			if id, ok := x.Key.(*ast.Ident); ok && id.Name == field {
				if cl, ok := x.Value.(*ast.CompositeLit); ok {
					lit = cl
				}
			}
		case *ast.AssignStmt:
			if len(x.Lhs) == 1 && len(x.Rhs) == 1 {
				if se, ok := x.Lhs[0].(*ast.SelectorExpr); ok && se.Sel.Name == field {
					if cl, ok := x.Rhs[0].(*ast.CompositeLit); ok {
						lit = cl
					}
				}
			}
		}
		return true
	})
	if lit == nil {
		fail("%s: no composite literal for section %s", where, field)
		return
	}
	node = lit
	okR, okC := false, false
	for _, el := range lit.Elts {
		kv, ok := el.(*ast.KeyValueExpr)
		if !ok {
			continue
		}
		id, _ := kv.Key.(*ast.Ident)
		if id == nil {
			continue
		}
		switch id.Name {
		case "Range":
			f, as, ok := sprintfCall(kv.Value)
			if !ok {
				fail("%s: %s.Range is not fmt.Sprintf(literal, ...)", where, field)
				continue
			}
			format = f
			for _, a := range as {
				args = append(args, c09Expr(a, where+":"+field+".Range"))
			}
			okR = true
		case "Checksum":
			be, ok := kv.Value.(*ast.BinaryExpr)
			if !ok || be.Op != token.ADD {
				fail("%s: %s.Checksum is not literal + expr", where, field)
				continue
			}
			p, ok := strLit(be.X)
			if !ok {
				fail("%s: %s.Checksum prefix is not a literal", where, field)
				continue
			}
			prefix = p
			okC = true
		}
	}
	if !okR || !okC {
		fail("%s: section %s lacks Range or Checksum", where, field)
	}
	return
}

func genC09() {
	g := newGen("C09Lock", "From Apko Require Import Base.Prelude Base.Regex Base.C12Lib.\nOpen Scope string_scope.")

	// ---- pkg/build/lock.go -------------------------------------------------
	const lrel = "pkg/build/lock.go"
	g.regex("lock_package_name_regex", lrel, "packageNameRegex")
	uf := findFunc(lrel, "", "unify")
	var anyArgs []string
	var anyNode ast.Node
	var defFmts, asgFmts []string
	sentinel, sentinelSeen := "", false
	if uf != nil {
		ast.Inspect(uf, func(n ast.Node) bool {
			switch x := n.(type) {
			case *ast.CallExpr:
				if exprText(x.Fun) == "strings.IndexAny" && len(x.Args) == 2 {
					if s, ok := strLit(x.Args[1]); ok {
						anyArgs = append(anyArgs, s)
						if anyNode == nil {
							anyNode = x
						}
					} else {
						fail("%s: unify: strings.IndexAny with a non-literal character set", lrel)
					}
				}
			case *ast.AssignStmt:
				if len(x.Lhs) == 1 && len(x.Rhs) == 1 {
					if f, _, ok := sprintfCall(x.Rhs[0]); ok {
						if x.Tok == token.DEFINE {
							defFmts = append(defFmts, f)
						} else {
							asgFmts = append(asgFmts, f)
						}
					}
					if ie, ok := x.Lhs[0].(*ast.IndexExpr); ok {
						if s, ok := strLit(ie.Index); ok {
							if sentinelSeen && s != sentinel {
								fail("%s: unify: two different literal map keys %q and %q", lrel, sentinel, s)
							}
							sentinel, sentinelSeen = s, true
						}
					}
				}
			}
			return true
		})
	}
	if len(anyArgs) != 2 {
		fail("%s: unify: expected two strings.IndexAny calls, found %d", lrel, len(anyArgs))
		anyArgs = append(anyArgs, "", "")
	}
	g.def("unify_constraint_delims", "string", coqStr(anyArgs[0]), "first strings.IndexAny set in unify at "+g.pos(anyNode))
	g.def("unify_pin_delims", "string", coqStr(anyArgs[1]), "second strings.IndexAny set in unify")
	if len(defFmts) != 2 || len(asgFmts) != 2 {
		fail("%s: unify: expected 2 entry formats (x := Sprintf) and 2 pin formats (x = Sprintf), found %d and %d", lrel, len(defFmts), len(asgFmts))
		defFmts = append(defFmts, "", "")
		asgFmts = append(asgFmts, "", "")
	}
	g.def("unify_index_entry_format", "string", coqStr(defFmts[0]), "entry format of the shared list")
	g.def("unify_index_pin_format", "string", coqStr(asgFmts[0]), "pin format of the shared list")
	g.def("unify_arch_entry_format", "string", coqStr(defFmts[1]), "entry format of a per-architecture list")
	g.def("unify_arch_pin_format", "string", coqStr(asgFmts[1]), "pin format of a per-architecture list")
	if !sentinelSeen {
		fail("%s: unify: no literal map key (the \"index\" sentinel)", lrel)
	}
	g.def("unify_index_key", "string", coqStr(sentinel), "sentinel key of the shared list")

	// LockImageConfiguration: in which order the architectures reach unify
	order, onode := c09ArchOrder(findFunc(lrel, "", "LockImageConfiguration"), lrel)
	g.def("lock_archs_order", "string", coqStr(order),
		"order in which LockImageConfiguration hands the per-architecture resolutions to unify (sorted | map-range), loop at "+g.pos(onode))

	// ---- internal/cli/lock.go ---------------------------------------------
	const crel = "internal/cli/lock.go"
	lc := findFunc(crel, "", "LockCmd")
	for _, sec := range []struct{ field, coq string }{{"Control", "control"}, {"Data", "data"}, {"Signature", "signature"}} {
		f, args, prefix, node := c09Section(lc, sec.field, crel+":LockCmd")
		g.def("lock_"+sec.coq+"_range_format", "string", coqStr(f), sec.field+".Range at "+g.pos(node))
		g.def("lock_"+sec.coq+"_range_args", "list aexp", c09List(args), "its integer arguments")
		g.def("lock_"+sec.coq+"_checksum_prefix", "string", coqStr(prefix), sec.field+".Checksum prefix")
	}
	// the guard `if rpkg.SignatureSize != 0`
	guard := ""
	if lc != nil {
		ast.Inspect(lc, func(n ast.Node) bool {
			is, ok := n.(*ast.IfStmt)
			if !ok || guard != "" {
				return true
			}
			be, ok := is.Cond.(*ast.BinaryExpr)
			if !ok || be.Op != token.NEQ {
				return true
			}
			if se, ok := be.X.(*ast.SelectorExpr); ok {
				if v, ok := intLit(be.Y); ok && v == 0 && len(is.Body.List) == 1 {
					if as, ok := is.Body.List[0].(*ast.AssignStmt); ok && len(as.Lhs) == 1 && strings.HasSuffix(exprText(as.Lhs[0]), ".Signature") {
						guard = se.Sel.Name
					}
				}
			}
			return true
		})
	}
	if guard == "" {
		fail("%s: LockCmd: guard `if x.F != 0 { lockPkg.Signature = ... }` not found", crel)
	}
	g.def("lock_signature_guard_field", "string", coqStr(guard), "Signature is emitted only when this field is non-zero")

	// ---- pkg/apk/apk/resolveapk.go ------------------------------------------
	const rrel = "pkg/apk/apk/resolveapk.go"
	nr := findFunc(rrel, "", "NewAPKResolved")
	var sizes, hashes []string
	if nr != nil {
		ast.Inspect(nr, func(n ast.Node) bool {
			cl, ok := n.(*ast.CompositeLit)
			if !ok {
				return true
			}
			for _, el := range cl.Elts {
				kv, ok := el.(*ast.KeyValueExpr)
				if !ok {
					continue
				}
				id, _ := kv.Key.(*ast.Ident)
				if id == nil {
					continue
				}
				switch {
				case strings.HasSuffix(id.Name, "Size"):
					sizes = append(sizes, "("+coqStr(id.Name)+", "+c09Expr(kv.Value, rrel+":NewAPKResolved."+id.Name)+")")
				case strings.HasSuffix(id.Name, "Hash"):
					se, ok := kv.Value.(*ast.SelectorExpr)
					if !ok {
						fail("%s: NewAPKResolved: %s is not a plain field copy", rrel, id.Name)
						continue
					}
					hashes = append(hashes, "("+coqStr(id.Name)+", "+coqStr(se.Sel.Name)+")")
				}
			}
			return false
		})
	}
	if len(sizes) != 3 || len(hashes) != 3 {
		fail("%s: NewAPKResolved: expected 3 size and 3 hash fields, found %d and %d", rrel, len(sizes), len(hashes))
	}
	g.def("apk_resolved_sizes", "list (string * aexp)", c09List(sizes), "APKResolved size fields as expressions over APKExpanded fields")
	g.def("apk_resolved_hashes", "list (string * string)", c09List(hashes), "APKResolved hash fields <- APKExpanded fields")

	g.write()
	genC09Build()
}

// c09ArchOrder: LockImageConfiguration fills the slice it passes to unify in a
// loop; the order of that loop decides which architecture unify starts from
// (finding C09-F3). Recognised: a range over an ascending-sorted key slice
// (sort.Slice / sort.SliceStable with `k[i] < k[j]`, slices.Sort, sort.Strings,
// slices.Sorted(maps.Keys(m)) — as a local or in the range clause itself) =
// "sorted"; a range that takes the KEYS of something directly = "map-range".
// Anything else is a broken tie.
func c09ArchOrder(fd *ast.FuncDecl, rel string) (string, ast.Node) {
	if fd == nil {
		return "sorted", nil
	}
	unparen := func(e ast.Expr) ast.Expr {
		for {
			p, ok := e.(*ast.ParenExpr)
			if !ok {
				return e
			}
			e = p.X
		}
	}
	// the slice handed to unify
	slice := ""
	ast.Inspect(fd, func(n ast.Node) bool {
		if c, ok := n.(*ast.CallExpr); ok && exprText(c.Fun) == "unify" && len(c.Args) == 2 {
			if id, ok := unparen(c.Args[1]).(*ast.Ident); ok {
				slice = id.Name
			}
		}
		return true
	})
	if slice == "" {
		fail("%s: LockImageConfiguration: no call unify(originals, <slice>)", rel)
		return "sorted", fd
	}
	appendsTo := func(body ast.Node) bool {
		found := false
		ast.Inspect(body, func(n ast.Node) bool {
			as, ok := n.(*ast.AssignStmt)
			if !ok || len(as.Lhs) != 1 || len(as.Rhs) != 1 || exprText(as.Lhs[0]) != slice {
				return true
			}
			if c, ok := as.Rhs[0].(*ast.CallExpr); ok && exprText(c.Fun) == "append" && len(c.Args) >= 2 && exprText(c.Args[0]) == slice {
				found = true
			}
			return true
		})
		return found
	}
	var loop *ast.RangeStmt
	ast.Inspect(fd, func(n ast.Node) bool {
		if rs, ok := n.(*ast.RangeStmt); ok && loop == nil && appendsTo(rs.Body) {
			loop = rs
			return false
		}
		return true
	})
	if loop == nil {
		fail("%s: LockImageConfiguration: no range loop appends to %s (the slice handed to unify)", rel, slice)
		return "sorted", fd
	}
	sortedKeys := func(e ast.Expr) bool { // slices.Sorted(maps.Keys(m))
		c, ok := unparen(e).(*ast.CallExpr)
		if !ok || exprText(c.Fun) != "slices.Sorted" || len(c.Args) != 1 {
			return false
		}
		k, ok := unparen(c.Args[0]).(*ast.CallExpr)
		return ok && exprText(k.Fun) == "maps.Keys" && len(k.Args) == 1
	}
	ascending := func(fl *ast.FuncLit, k string) bool { // func(i, j int) bool { return k[i] < k[j] }
		var ps []string
		for _, f := range fl.Type.Params.List {
			for _, nm := range f.Names {
				ps = append(ps, nm.Name)
			}
		}
		if len(ps) != 2 || len(fl.Body.List) != 1 {
			return false
		}
		ret, ok := fl.Body.List[0].(*ast.ReturnStmt)
		if !ok || len(ret.Results) != 1 {
			return false
		}
		be, ok := unparen(ret.Results[0]).(*ast.BinaryExpr)
		if !ok || be.Op != token.LSS {
			return false
		}
		strip := func(e ast.Expr) string { // k[i], string(k[i])
			e = unparen(e)
			if c, ok := e.(*ast.CallExpr); ok && len(c.Args) == 1 && exprText(c.Fun) == "string" {
				e = unparen(c.Args[0])
			}
			return exprText(e)
		}
		return strip(be.X) == k+"["+ps[0]+"]" && strip(be.Y) == k+"["+ps[1]+"]"
	}
	ascendingCmp := func(fl *ast.FuncLit) bool { // func(a, b T) int { return cmp.Compare(a, b) } / strings.Compare(string(a), string(b))
		var ps []string
		for _, f := range fl.Type.Params.List {
			for _, nm := range f.Names {
				ps = append(ps, nm.Name)
			}
		}
		if len(ps) != 2 || len(fl.Body.List) != 1 {
			return false
		}
		ret, ok := fl.Body.List[0].(*ast.ReturnStmt)
		if !ok || len(ret.Results) != 1 {
			return false
		}
		c, ok := unparen(ret.Results[0]).(*ast.CallExpr)
		if !ok || len(c.Args) != 2 || (exprText(c.Fun) != "cmp.Compare" && exprText(c.Fun) != "strings.Compare") {
			return false
		}
		strip := func(e ast.Expr) string {
			e = unparen(e)
			if cc, ok := e.(*ast.CallExpr); ok && len(cc.Args) == 1 && exprText(cc.Fun) == "string" {
				e = unparen(cc.Args[0])
			}
			return exprText(e)
		}
		return strip(c.Args[0]) == ps[0] && strip(c.Args[1]) == ps[1]
	}
	x := unparen(loop.X)
	if sortedKeys(x) {
		return "sorted", loop
	}
	if id, ok := x.(*ast.Ident); ok {
		// the slice may have been handed over by an (inlined) helper: follow plain copies `k = k2` / `k := k2`
		seen := map[string]bool{}
		for k := id.Name; k != "" && !seen[k]; {
			seen[k] = true
			isSorted, next := false, ""
			ast.Inspect(fd, func(n ast.Node) bool {
				if n == nil || n.Pos() >= loop.Pos() {
					return false // statements after (or inside) the loop do not order it
				}
				switch s := n.(type) {
				case *ast.AssignStmt:
					if len(s.Lhs) == 1 && len(s.Rhs) == 1 && exprText(s.Lhs[0]) == k {
						if sortedKeys(s.Rhs[0]) {
							isSorted = true
						} else if src, ok := unparen(s.Rhs[0]).(*ast.Ident); ok && src.Name != "nil" {
							next = src.Name
						}
					}
				case *ast.ExprStmt:
					c, ok := s.X.(*ast.CallExpr)
					if !ok || len(c.Args) == 0 || exprText(c.Args[0]) != k {
						return true
					}
					switch exprText(c.Fun) {
					case "slices.Sort", "sort.Strings":
						isSorted = len(c.Args) == 1
					case "sort.Slice", "sort.SliceStable":
						if len(c.Args) == 2 {
							if fl, ok := c.Args[1].(*ast.FuncLit); ok && ascending(fl, k) {
								isSorted = true
							}
						}
					case "slices.SortFunc", "slices.SortStableFunc":
						if len(c.Args) == 2 {
							if fl, ok := c.Args[1].(*ast.FuncLit); ok && ascendingCmp(fl) {
								isSorted = true
							}
						}
					}
				}
				return true
			})
			if isSorted {
				return "sorted", loop
			}
			k = next
		}
	}
	// `for arch := range m` / `for arch, pkgs := range m`: the keys of a map, in Go's random order
	if key, ok := loop.Key.(*ast.Ident); ok && key.Name != "_" {
		return "map-range", loop
	}
	fail("%s: LockImageConfiguration: cannot tell in which order the loop at %s visits the architectures (range over %s)", rel, fset.Position(loop.Pos()), exprText(loop.X))
	return "sorted", loop
}

// ---- the Lockfile branch of buildImage (session 5) ---------------------------------------------
// c09Cond: a boolean condition over struct fields, by shape: comparisons (== / !=) of a field with a
// string literal or with another field, joined by && / || / !.  A field is named by its LAST selector
// (the struct's field name, not the local that holds the struct); a niladic method call by name+"()".
// [side] may prefix an atom by the loop it comes from (see c09BaseFilter).
func c09Atom(e ast.Expr, side func(ast.Expr) string) (string, bool) {
	for {
		if p, ok := e.(*ast.ParenExpr); ok {
			e = p.X
			continue
		}
		break
	}
	if id, ok := e.(*ast.Ident); ok { // a local that merely holds a field (`want := lock.Config.DeepChecksum`)
		if src, ok := c09Alias[id.Name]; ok {
			e = src
		}
	}
	pre := ""
	if side != nil {
		pre = side(e)
	}
	switch x := e.(type) {
	case *ast.SelectorExpr:
		return pre + x.Sel.Name, true
	case *ast.CallExpr:
		if se, ok := x.Fun.(*ast.SelectorExpr); ok && len(x.Args) == 0 {
			return pre + se.Sel.Name + "()", true
		}
	}
	return "", false
}

// locals bound once (`x := a.b.c`) to a plain field, by name -> that field
var c09Alias = map[string]ast.Expr{}

func c09CollectAliases(n ast.Node) {
	c09Alias = map[string]ast.Expr{}
	if n == nil {
		return
	}
	ast.Inspect(n, func(m ast.Node) bool {
		if as, ok := m.(*ast.AssignStmt); ok && as.Tok == token.DEFINE && len(as.Lhs) == 1 && len(as.Rhs) == 1 {
			if id, ok := as.Lhs[0].(*ast.Ident); ok {
				if se, ok := as.Rhs[0].(*ast.SelectorExpr); ok {
					c09Alias[id.Name] = se
				}
			}
		}
		return true
	})
}

func c09Cond(e ast.Expr, side func(ast.Expr) string, where string) string {
	switch x := e.(type) {
	case *ast.ParenExpr:
		return c09Cond(x.X, side, where)
	case *ast.UnaryExpr:
		if x.Op == token.NOT {
			return "(GNot " + c09Cond(x.X, side, where) + ")"
		}
	case *ast.BinaryExpr:
		switch x.Op {
		case token.LAND:
			return "(GAnd " + c09Cond(x.X, side, where) + " " + c09Cond(x.Y, side, where) + ")"
		case token.LOR:
			return "(GOr " + c09Cond(x.X, side, where) + " " + c09Cond(x.Y, side, where) + ")"
		case token.EQL, token.NEQ:
			l, r := x.X, x.Y
			if _, ok := strLit(l); ok { // literal on the left: swap
				l, r = r, l
			}
			a, ok := c09Atom(l, side)
			if !ok {
				break
			}
			var t string
			if s, ok := strLit(r); ok {
				t = "(GEqLit " + coqStr(a) + " " + coqStr(s) + ")"
			} else if b, ok := c09Atom(r, side); ok {
				if b < a { // == is symmetric: a stable order of the two fields
					a, b = b, a
				}
				t = "(GEq " + coqStr(a) + " " + coqStr(b) + ")"
			} else {
				break
			}
			if x.Op == token.NEQ {
				t = "(GNot " + t + ")"
			}
			return t
		}
	}
	fail("%s: condition %q is outside the translated fragment", where, exprText(e))
	return "(GEqLit \"\" \"\")"
}

func returnsError(b *ast.BlockStmt) bool {
	found := false
	ast.Inspect(b, func(n ast.Node) bool {
		if r, ok := n.(*ast.ReturnStmt); ok && len(r.Results) > 0 {
			found = true
		}
		return true
	})
	return found
}

// epochArg: nil, or the field whose address is passed
func epochArg(e ast.Expr) string {
	if id, ok := e.(*ast.Ident); ok && id.Name == "nil" {
		return "nil"
	}
	if u, ok := e.(*ast.UnaryExpr); ok && u.Op == token.AND {
		if a, ok := c09Atom(u.X, nil); ok {
			return a
		}
	}
	if a, ok := c09Atom(e, nil); ok {
		return "value:" + a
	}
	return "?" + exprText(e)
}

func genC09Build() {
	g := newGen("C09Build", "From Apko Require Import Base.Prelude Base.C09Lib.\nOpen Scope string_scope.")
	const rel = "pkg/build/build_implementation.go"
	bi := findFunc(rel, "Context", "buildImage")
	// the branch `if X.Lockfile != "" { … } else { … }`
	var branch *ast.IfStmt
	if bi != nil {
		ast.Inspect(bi, func(n ast.Node) bool {
			is, ok := n.(*ast.IfStmt)
			if !ok || branch != nil {
				return true
			}
			if be, ok := is.Cond.(*ast.BinaryExpr); ok && be.Op == token.NEQ {
				if a, ok := c09Atom(be.X, nil); ok && a == "Lockfile" {
					if s, ok := strLit(be.Y); ok && s == "" {
						branch = is
					}
				}
			}
			return true
		})
	}
	if branch == nil {
		fail("%s: buildImage: no branch `if X.Lockfile != \"\"`", rel)
		g.write()
		return
	}
	// inside: `if L.Config == nil { (no return) } else if COND { return error }` (or the nil test folded elsewhere)
	var chain *ast.IfStmt
	ast.Inspect(branch.Body, func(n ast.Node) bool {
		is, ok := n.(*ast.IfStmt)
		if !ok || chain != nil {
			return true
		}
		if be, ok := is.Cond.(*ast.BinaryExpr); ok && be.Op == token.EQL {
			if a, ok := c09Atom(be.X, nil); ok && a == "Config" {
				if id, ok := be.Y.(*ast.Ident); ok && id.Name == "nil" {
					chain = is
				}
			}
		}
		return true
	})
	if chain == nil {
		fail("%s: buildImage: no `if lock.Config == nil` in the Lockfile branch", rel)
		g.write()
		return
	}
	g.def("lock_guard_nil_config_refuses", "bool", map[bool]string{true: "true", false: "false"}[returnsError(chain.Body)],
		"a lock file without a config record: refused? (guard at "+g.pos(chain)+")")
	refuse := "(GEqLit \"\" \"never\")"
	c09CollectAliases(branch.Body)
	switch el := chain.Else.(type) {
	case *ast.IfStmt:
		if el.Else != nil {
			fail("%s: buildImage: the stale-lock guard has more than two arms", rel)
		}
		if returnsError(el.Body) {
			refuse = c09Cond(el.Cond, nil, rel+":buildImage(stale-lock guard)")
		} else {
			fail("%s: buildImage: the second arm of the stale-lock guard does not return an error", rel)
		}
	case *ast.BlockStmt:
		if returnsError(el) {
			refuse = "(GNot (GEqLit \"\" \"never\"))"
		}
	case nil:
	}
	g.def("lock_guard_refuse", "gexp", refuse, "with a config record: the build is refused when this holds (fields of the options and of lock.Config)")
	// the epoch handed to the installer on either path
	arg := func(body ast.Node, method string, idx int) string {
		res := ""
		ast.Inspect(body, func(n ast.Node) bool {
			c, ok := n.(*ast.CallExpr)
			if !ok || res != "" {
				return true
			}
			if se, ok := c.Fun.(*ast.SelectorExpr); ok && se.Sel.Name == method && len(c.Args) > idx {
				res = epochArg(c.Args[idx])
			}
			return true
		})
		if res == "" {
			fail("%s: buildImage: no call of %s", rel, method)
		}
		return res
	}
	g.def("locked_install_epoch", "string", coqStr(arg(branch.Body, "InstallPackages", 1)), "second argument of InstallPackages on the Lockfile path")
	if branch.Else != nil {
		g.def("unlocked_install_epoch", "string", coqStr(arg(branch.Else, "FixateWorld", 1)), "second argument of FixateWorld on the other path")
	} else {
		fail("%s: buildImage: the Lockfile branch has no else", rel)
	}
	// ResolveWithBase: which resolved packages count as already in the base image
	c09CollectAliases(nil)
	rb := findFunc(rel, "Context", "ResolveWithBase")
	filter := ""
	if rb != nil {
		var loops []*ast.RangeStmt
		var visit func(n ast.Node, stack []*ast.RangeStmt)
		visit = func(n ast.Node, stack []*ast.RangeStmt) {
			ast.Inspect(n, func(m ast.Node) bool {
				if m == n {
					return true
				}
				switch x := m.(type) {
				case *ast.RangeStmt:
					visit(x.Body, append(append([]*ast.RangeStmt(nil), stack...), x))
					return false
				case *ast.IfStmt:
					if filter == "" && len(stack) >= 2 && len(x.Body.List) == 1 {
						if as, ok := x.Body.List[0].(*ast.AssignStmt); ok && len(as.Rhs) == 1 && exprText(as.Rhs[0]) == "true" {
							loops = stack
							outer, inner := "", ""
							if id, ok := stack[len(stack)-2].Value.(*ast.Ident); ok {
								outer = id.Name
							}
							if id, ok := stack[len(stack)-1].Value.(*ast.Ident); ok {
								inner = id.Name
							}
							side := func(e ast.Expr) string {
								root := e
								for {
									switch y := root.(type) {
									case *ast.SelectorExpr:
										root = y.X
										continue
									case *ast.CallExpr:
										root = y.Fun
										continue
									}
									break
								}
								if id, ok := root.(*ast.Ident); ok {
									switch id.Name {
									case outer:
										return "resolved."
									case inner:
										return "base."
									}
								}
								return "?."
							}
							filter = c09Cond(x.Cond, side, rel+":ResolveWithBase(in-base filter)")
						}
					}
				}
				return true
			})
		}
		visit(rb.Body, nil)
		_ = loops
	}
	if filter == "" {
		fail("%s: ResolveWithBase: no `if COND { flag = true }` inside two nested range loops", rel)
		filter = "(GEqLit \"\" \"\")"
	}
	g.def("in_base_filter", "gexp", filter, "ResolveWithBase: a resolved package is already in the base image when this holds for some package of the base image")

	// InstallPackages: `ok, err := a.isInstalledPackage(ARG) … if ok { continue }` - which property of a package makes the installer skip it
	c09CollectAliases(nil)
	skipArg := ""
	if ip := findFunc("pkg/apk/apk/implementation.go", "APK", "InstallPackages"); ip != nil {
		ast.Inspect(ip, func(n ast.Node) bool {
			var list []ast.Stmt
			switch b := n.(type) {
			case *ast.BlockStmt:
				list = b.List
			case *ast.CaseClause:
				list = b.Body
			case *ast.CommClause:
				list = b.Body
			}
			if list == nil || skipArg != "" {
				return true
			}
			for i, st := range list {
				as, ok := st.(*ast.AssignStmt)
				if !ok || len(as.Rhs) != 1 || len(as.Lhs) < 1 {
					continue
				}
				c, ok := as.Rhs[0].(*ast.CallExpr)
				if !ok || len(c.Args) != 1 {
					continue
				}
				if se, ok := c.Fun.(*ast.SelectorExpr); !ok || se.Sel.Name != "isInstalledPackage" {
					continue
				}
				flag := exprText(as.Lhs[0])
				for _, later := range list[i+1:] {
					if is, ok := later.(*ast.IfStmt); ok && exprText(is.Cond) == flag && len(is.Body.List) == 1 {
						if br, ok := is.Body.List[0].(*ast.BranchStmt); ok && br.Tok == token.CONTINUE {
							if a, ok := c09Atom(c.Args[0], nil); ok {
								skipArg = a
							}
						}
					}
				}
			}
			return true
		})
	}
	if skipArg == "" {
		fail("pkg/apk/apk/implementation.go: InstallPackages: no `ok := isInstalledPackage(x.F) … if ok { continue }`")
	}
	g.def("install_skip_arg", "string", coqStr(skipArg), "InstallPackages skips a package when isInstalledPackage of this is true")
	test := ""
	if fn := findFunc("pkg/apk/apk/installed.go", "APK", "isInstalledPackage"); fn != nil && fn.Type.Params != nil && len(fn.Type.Params.List) == 1 && len(fn.Type.Params.List[0].Names) == 1 {
		param := fn.Type.Params.List[0].Names[0].Name
		ast.Inspect(fn.Body, func(n ast.Node) bool {
			rs, ok := n.(*ast.RangeStmt)
			if !ok || test != "" {
				return true
			}
			v, _ := rs.Value.(*ast.Ident)
			for _, st := range rs.Body.List {
				is, ok := st.(*ast.IfStmt)
				if !ok || len(is.Body.List) != 1 {
					continue
				}
				ret, ok := is.Body.List[0].(*ast.ReturnStmt)
				if !ok || len(ret.Results) < 1 || exprText(ret.Results[0]) != "true" {
					continue
				}
				c09Alias = map[string]ast.Expr{}
				side := func(e ast.Expr) string {
					root := e
					for {
						switch y := root.(type) {
						case *ast.SelectorExpr:
							root = y.X
							continue
						case *ast.CallExpr:
							root = y.Fun
							continue
						}
						break
					}
					if id, ok := root.(*ast.Ident); ok && v != nil && id.Name == v.Name {
						return "installed."
					}
					return "?."
				}
				// the parameter itself is the atom "arg"
				c09Alias[param] = &ast.SelectorExpr{X: ast.NewIdent("?"), Sel: ast.NewIdent("arg")}
				sideP := func(e ast.Expr) string {
					if se, ok := e.(*ast.SelectorExpr); ok && se.Sel.Name == "arg" {
						if id, ok := se.X.(*ast.Ident); ok && id.Name == "?" {
							return ""
						}
					}
					return side(e)
				}
				test = c09Cond(is.Cond, sideP, "pkg/apk/apk/installed.go:isInstalledPackage")
			}
			return true
		})
	}
	if test == "" {
		fail("pkg/apk/apk/installed.go: isInstalledPackage: no `for _, p := range … { if COND { return true, nil } }` over its one parameter")
		test = "(GEqLit \"\" \"\")"
	}
	g.def("is_installed_test", "gexp", test, "isInstalledPackage(arg): true when this holds for some installed package")
	c09CollectAliases(nil)
	g.write()
}
