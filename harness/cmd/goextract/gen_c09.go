package main

// C09: constants, format strings and the range arithmetic of the lock path.
//   pkg/build/lock.go        packageNameRegex (pkg/build's private copy), the two
//       strings.IndexAny delimiter sets of unify, the "index" sentinel key, the
//       Sprintf formats that build a lock entry and append its pin
//   internal/cli/lock.go     LockCmd: per section (Control, Data, Signature) the
//       Range format with its integer arguments as Base.C12Lib.aexp over the
//       APKResolved field names, and the Checksum prefix literal
//   pkg/apk/apk/resolveapk.go NewAPKResolved: which APKExpanded field feeds each
//       APKResolved field (sizes as aexp, hashes as names)

import (
	"fmt"
	"go/ast"
	"go/token"
	"strings"
)

// c09Expr: integer expression over selector / identifier names.
func c09Expr(e ast.Expr, where string) string {
	switch x := e.(type) {
	case *ast.SelectorExpr:
		return "(EVar " + coqStr(x.Sel.Name) + ")"
	case *ast.Ident:
		return "(EVar " + coqStr(x.Name) + ")"
	case *ast.BasicLit:
		if v, ok := intLit(x); ok {
			return fmt.Sprintf("(EConst (%d))", v)
		}
	case *ast.ParenExpr:
		return c09Expr(x.X, where)
	case *ast.CallExpr:
		if id, ok := x.Fun.(*ast.Ident); ok && len(x.Args) == 1 && (strings.HasPrefix(id.Name, "int") || strings.HasPrefix(id.Name, "uint")) {
			return c09Expr(x.Args[0], where)
		}
	case *ast.BinaryExpr:
		ops := map[token.Token]string{token.ADD: "EAdd", token.SUB: "ESub", token.MUL: "EMul", token.QUO: "EQuo", token.REM: "ERem"}
		if c, ok := ops[x.Op]; ok {
			return "(" + c + " " + c09Expr(x.X, where) + " " + c09Expr(x.Y, where) + ")"
		}
	}
	fail("%s: integer expression %q is outside the translated fragment", where, exprText(e))
	return "(EConst 0)"
}

func c09List(items []string) string { return "[" + strings.Join(items, "; ") + "]" }

// c09Section: inside fd, the composite literal assigned to field `field`
// (KeyValueExpr `field: T{Range: Sprintf(..), Checksum: "p" + ..}` or the
// assignment `x.field = T{...}`); returns the Range format, its arguments and
// the checksum prefix.
func c09Section(fd *ast.FuncDecl, field, where string) (format string, args []string, prefix string, node ast.Node) {
	if fd == nil {
		return
	}
	var lit *ast.CompositeLit
	ast.Inspect(fd, func(n ast.Node) bool {
		if lit != nil {
			return false
		}
		switch x := n.(type) {
		case *ast.KeyValueExpr:
			if id, ok := x.Key.(*ast.Ident); ok && id.Name == field {
				if cl, ok := x.Value.(*ast.CompositeLit); ok {
					lit = cl
				}
			}
		case *ast.AssignStmt:
			if len(x.Lhs) == 1 && len(x.Rhs) == 1 {
				if se, ok := x.Lhs[0].(*ast.SelectorExpr); ok && se.Sel.Name == field {
					if cl, ok := x.Rhs[0].(*ast.CompositeLit); ok {
						lit = cl
					}
				}
			}
		}
		return true
	})
	if lit == nil {
		fail("%s: no composite literal for section %s", where, field)
		return
	}
	node = lit
	okR, okC := false, false
	for _, el := range lit.Elts {
		kv, ok := el.(*ast.KeyValueExpr)
		if !ok {
			continue
		}
		id, _ := kv.Key.(*ast.Ident)
		if id == nil {
			continue
		}
		switch id.Name {
		case "Range":
			f, as, ok := sprintfCall(kv.Value)
			if !ok {
				fail("%s: %s.Range is not fmt.Sprintf(literal, ...)", where, field)
				continue
			}
			format = f
			for _, a := range as {
				args = append(args, c09Expr(a, where+":"+field+".Range"))
			}
			okR = true
		case "Checksum":
			be, ok := kv.Value.(*ast.BinaryExpr)
			if !ok || be.Op != token.ADD {
				fail("%s: %s.Checksum is not literal + expr", where, field)
				continue
			}
			p, ok := strLit(be.X)
			if !ok {
				fail("%s: %s.Checksum prefix is not a literal", where, field)
				continue
			}
			prefix = p
			okC = true
		}
	}
	if !okR || !okC {
		fail("%s: section %s lacks Range or Checksum", where, field)
	}
	return
}

func genC09() {
	g := newGen("C09Lock", "From Apko Require Import Base.Prelude Base.Regex Base.C12Lib.\nOpen Scope string_scope.")

	// ---- pkg/build/lock.go -------------------------------------------------
	const lrel = "pkg/build/lock.go"
	g.regex("lock_package_name_regex", lrel, "packageNameRegex")
	uf := findFunc(lrel, "", "unify")
	var anyArgs []string
	var anyNode ast.Node
	var defFmts, asgFmts []string
	sentinel, sentinelSeen := "", false
	if uf != nil {
		ast.Inspect(uf, func(n ast.Node) bool {
			switch x := n.(type) {
			case *ast.CallExpr:
				if exprText(x.Fun) == "strings.IndexAny" && len(x.Args) == 2 {
					if s, ok := strLit(x.Args[1]); ok {
						anyArgs = append(anyArgs, s)
						if anyNode == nil {
							anyNode = x
						}
					} else {
						fail("%s: unify: strings.IndexAny with a non-literal character set", lrel)
					}
				}
			case *ast.AssignStmt:
				if len(x.Lhs) == 1 && len(x.Rhs) == 1 {
					if f, _, ok := sprintfCall(x.Rhs[0]); ok {
						if x.Tok == token.DEFINE {
							defFmts = append(defFmts, f)
						} else {
							asgFmts = append(asgFmts, f)
						}
					}
					if ie, ok := x.Lhs[0].(*ast.IndexExpr); ok {
						if s, ok := strLit(ie.Index); ok {
							if sentinelSeen && s != sentinel {
								fail("%s: unify: two different literal map keys %q and %q", lrel, sentinel, s)
							}
							sentinel, sentinelSeen = s, true
						}
					}
				}
			}
			return true
		})
	}
	if len(anyArgs) != 2 {
		fail("%s: unify: expected two strings.IndexAny calls, found %d", lrel, len(anyArgs))
		anyArgs = append(anyArgs, "", "")
	}
	g.def("unify_constraint_delims", "string", coqStr(anyArgs[0]), "first strings.IndexAny set in unify at "+g.pos(anyNode))
	g.def("unify_pin_delims", "string", coqStr(anyArgs[1]), "second strings.IndexAny set in unify")
	if len(defFmts) != 2 || len(asgFmts) != 2 {
		fail("%s: unify: expected 2 entry formats (x := Sprintf) and 2 pin formats (x = Sprintf), found %d and %d", lrel, len(defFmts), len(asgFmts))
		defFmts = append(defFmts, "", "")
		asgFmts = append(asgFmts, "", "")
	}
	g.def("unify_index_entry_format", "string", coqStr(defFmts[0]), "entry format of the shared list")
	g.def("unify_index_pin_format", "string", coqStr(asgFmts[0]), "pin format of the shared list")
	g.def("unify_arch_entry_format", "string", coqStr(defFmts[1]), "entry format of a per-architecture list")
	g.def("unify_arch_pin_format", "string", coqStr(asgFmts[1]), "pin format of a per-architecture list")
	if !sentinelSeen {
		fail("%s: unify: no literal map key (the \"index\" sentinel)", lrel)
	}
	g.def("unify_index_key", "string", coqStr(sentinel), "sentinel key of the shared list")

	// LockImageConfiguration: in which order the architectures reach unify
	order, onode := c09ArchOrder(findFunc(lrel, "", "LockImageConfiguration"), lrel)
	g.def("lock_archs_order", "string", coqStr(order),
		"order in which LockImageConfiguration hands the per-architecture resolutions to unify (sorted | map-range), loop at "+g.pos(onode))

	// ---- internal/cli/lock.go ---------------------------------------------
	const crel = "internal/cli/lock.go"
	lc := findFunc(crel, "", "LockCmd")
	for _, sec := range []struct{ field, coq string }{{"Control", "control"}, {"Data", "data"}, {"Signature", "signature"}} {
		f, args, prefix, node := c09Section(lc, sec.field, crel+":LockCmd")
		g.def("lock_"+sec.coq+"_range_format", "string", coqStr(f), sec.field+".Range at "+g.pos(node))
		g.def("lock_"+sec.coq+"_range_args", "list aexp", c09List(args), "its integer arguments")
		g.def("lock_"+sec.coq+"_checksum_prefix", "string", coqStr(prefix), sec.field+".Checksum prefix")
	}
	// the guard `if rpkg.SignatureSize != 0`
	guard := ""
	if lc != nil {
		ast.Inspect(lc, func(n ast.Node) bool {
			is, ok := n.(*ast.IfStmt)
			if !ok || guard != "" {
				return true
			}
			be, ok := is.Cond.(*ast.BinaryExpr)
			if !ok || be.Op != token.NEQ {
				return true
			}
			if se, ok := be.X.(*ast.SelectorExpr); ok {
				if v, ok := intLit(be.Y); ok && v == 0 && len(is.Body.List) == 1 {
					if as, ok := is.Body.List[0].(*ast.AssignStmt); ok && len(as.Lhs) == 1 && strings.HasSuffix(exprText(as.Lhs[0]), ".Signature") {
						guard = se.Sel.Name
					}
				}
			}
			return true
		})
	}
	if guard == "" {
		fail("%s: LockCmd: guard `if x.F != 0 { lockPkg.Signature = ... }` not found", crel)
	}
	g.def("lock_signature_guard_field", "string", coqStr(guard), "Signature is emitted only when this field is non-zero")

	// ---- pkg/apk/apk/resolveapk.go ------------------------------------------
	const rrel = "pkg/apk/apk/resolveapk.go"
	nr := findFunc(rrel, "", "NewAPKResolved")
	var sizes, hashes []string
	if nr != nil {
		ast.Inspect(nr, func(n ast.Node) bool {
			cl, ok := n.(*ast.CompositeLit)
			if !ok {
				return true
			}
			for _, el := range cl.Elts {
				kv, ok := el.(*ast.KeyValueExpr)
				if !ok {
					continue
				}
				id, _ := kv.Key.(*ast.Ident)
				if id == nil {
					continue
				}
				switch {
				case strings.HasSuffix(id.Name, "Size"):
					sizes = append(sizes, "("+coqStr(id.Name)+", "+c09Expr(kv.Value, rrel+":NewAPKResolved."+id.Name)+")")
				case strings.HasSuffix(id.Name, "Hash"):
					se, ok := kv.Value.(*ast.SelectorExpr)
					if !ok {
						fail("%s: NewAPKResolved: %s is not a plain field copy", rrel, id.Name)
						continue
					}
					hashes = append(hashes, "("+coqStr(id.Name)+", "+coqStr(se.Sel.Name)+")")
				}
			}
			return false
		})
	}
	if len(sizes) != 3 || len(hashes) != 3 {
		fail("%s: NewAPKResolved: expected 3 size and 3 hash fields, found %d and %d", rrel, len(sizes), len(hashes))
	}
	g.def("apk_resolved_sizes", "list (string * aexp)", c09List(sizes), "APKResolved size fields as expressions over APKExpanded fields")
	g.def("apk_resolved_hashes", "list (string * string)", c09List(hashes), "APKResolved hash fields <- APKExpanded fields")

	g.write()
}

// c09ArchOrder: LockImageConfiguration fills the slice it passes to unify in a
// loop; the order of that loop decides which architecture unify starts from
// (finding C09-F3). Recognised: a range over an ascending-sorted key slice
// (sort.Slice / sort.SliceStable with `k[i] < k[j]`, slices.Sort, sort.Strings,
// slices.Sorted(maps.Keys(m)) — as a local or in the range clause itself) =
// "sorted"; a range that takes the KEYS of something directly = "map-range".
// Anything else is a broken tie.
func c09ArchOrder(fd *ast.FuncDecl, rel string) (string, ast.Node) {
	if fd == nil {
		return "sorted", nil
	}
	unparen := func(e ast.Expr) ast.Expr {
		for {
			p, ok := e.(*ast.ParenExpr)
			if !ok {
				return e
			}
			e = p.X
		}
	}
	// the slice handed to unify
	slice := ""
	ast.Inspect(fd, func(n ast.Node) bool {
		if c, ok := n.(*ast.CallExpr); ok && exprText(c.Fun) == "unify" && len(c.Args) == 2 {
			if id, ok := unparen(c.Args[1]).(*ast.Ident); ok {
				slice = id.Name
			}
		}
		return true
	})
	if slice == "" {
		fail("%s: LockImageConfiguration: no call unify(originals, <slice>)", rel)
		return "sorted", fd
	}
	appendsTo := func(body ast.Node) bool {
		found := false
		ast.Inspect(body, func(n ast.Node) bool {
			as, ok := n.(*ast.AssignStmt)
			if !ok || len(as.Lhs) != 1 || len(as.Rhs) != 1 || exprText(as.Lhs[0]) != slice {
				return true
			}
			if c, ok := as.Rhs[0].(*ast.CallExpr); ok && exprText(c.Fun) == "append" && len(c.Args) >= 2 && exprText(c.Args[0]) == slice {
				found = true
			}
			return true
		})
		return found
	}
	var loop *ast.RangeStmt
	ast.Inspect(fd, func(n ast.Node) bool {
		if rs, ok := n.(*ast.RangeStmt); ok && loop == nil && appendsTo(rs.Body) {
			loop = rs
			return false
		}
		return true
	})
	if loop == nil {
		fail("%s: LockImageConfiguration: no range loop appends to %s (the slice handed to unify)", rel, slice)
		return "sorted", fd
	}
	sortedKeys := func(e ast.Expr) bool { // slices.Sorted(maps.Keys(m))
		c, ok := unparen(e).(*ast.CallExpr)
		if !ok || exprText(c.Fun) != "slices.Sorted" || len(c.Args) != 1 {
			return false
		}
		k, ok := unparen(c.Args[0]).(*ast.CallExpr)
		return ok && exprText(k.Fun) == "maps.Keys" && len(k.Args) == 1
	}
	ascending := func(fl *ast.FuncLit, k string) bool { // func(i, j int) bool { return k[i] < k[j] }
		var ps []string
		for _, f := range fl.Type.Params.List {
			for _, nm := range f.Names {
				ps = append(ps, nm.Name)
			}
		}
		if len(ps) != 2 || len(fl.Body.List) != 1 {
			return false
		}
		ret, ok := fl.Body.List[0].(*ast.ReturnStmt)
		if !ok || len(ret.Results) != 1 {
			return false
		}
		be, ok := unparen(ret.Results[0]).(*ast.BinaryExpr)
		if !ok || be.Op != token.LSS {
			return false
		}
		strip := func(e ast.Expr) string { // k[i], string(k[i])
			e = unparen(e)
			if c, ok := e.(*ast.CallExpr); ok && len(c.Args) == 1 && exprText(c.Fun) == "string" {
				e = unparen(c.Args[0])
			}
			return exprText(e)
		}
		return strip(be.X) == k+"["+ps[0]+"]" && strip(be.Y) == k+"["+ps[1]+"]"
	}
	ascendingCmp := func(fl *ast.FuncLit) bool { // func(a, b T) int { return cmp.Compare(a, b) } / strings.Compare(string(a), string(b))
		var ps []string
		for _, f := range fl.Type.Params.List {
			for _, nm := range f.Names {
				ps = append(ps, nm.Name)
			}
		}
		if len(ps) != 2 || len(fl.Body.List) != 1 {
			return false
		}
		ret, ok := fl.Body.List[0].(*ast.ReturnStmt)
		if !ok || len(ret.Results) != 1 {
			return false
		}
		c, ok := unparen(ret.Results[0]).(*ast.CallExpr)
		if !ok || len(c.Args) != 2 || (exprText(c.Fun) != "cmp.Compare" && exprText(c.Fun) != "strings.Compare") {
			return false
		}
		strip := func(e ast.Expr) string {
			e = unparen(e)
			if cc, ok := e.(*ast.CallExpr); ok && len(cc.Args) == 1 && exprText(cc.Fun) == "string" {
				e = unparen(cc.Args[0])
			}
			return exprText(e)
		}
		return strip(c.Args[0]) == ps[0] && strip(c.Args[1]) == ps[1]
	}
	x := unparen(loop.X)
	if sortedKeys(x) {
		return "sorted", loop
	}
	if id, ok := x.(*ast.Ident); ok {
		// the slice may have been handed over by an (inlined) helper: follow plain copies `k = k2` / `k := k2`
		seen := map[string]bool{}
		for k := id.Name; k != "" && !seen[k]; {
			seen[k] = true
			isSorted, next := false, ""
			ast.Inspect(fd, func(n ast.Node) bool {
				if n == nil || n.Pos() >= loop.Pos() {
					return false // statements after (or inside) the loop do not order it
				}
				switch s := n.(type) {
				case *ast.AssignStmt:
					if len(s.Lhs) == 1 && len(s.Rhs) == 1 && exprText(s.Lhs[0]) == k {
						if sortedKeys(s.Rhs[0]) {
							isSorted = true
						} else if src, ok := unparen(s.Rhs[0]).(*ast.Ident); ok && src.Name != "nil" {
							next = src.Name
						}
					}
				case *ast.ExprStmt:
					c, ok := s.X.(*ast.CallExpr)
					if !ok || len(c.Args) == 0 || exprText(c.Args[0]) != k {
						return true
					}
					switch exprText(c.Fun) {
					case "slices.Sort", "sort.Strings":
						isSorted = len(c.Args) == 1
					case "sort.Slice", "sort.SliceStable":
						if len(c.Args) == 2 {
							if fl, ok := c.Args[1].(*ast.FuncLit); ok && ascending(fl, k) {
								isSorted = true
							}
						}
					case "slices.SortFunc", "slices.SortStableFunc":
						if len(c.Args) == 2 {
							if fl, ok := c.Args[1].(*ast.FuncLit); ok && ascendingCmp(fl) {
								isSorted = true
							}
						}
					}
				}
				return true
			})
			if isSorted {
				return "sorted", loop
			}
			k = next
		}
	}
	// `for arch := range m` / `for arch, pkgs := range m`: the keys of a map, in Go's random order
	if key, ok := loop.Key.(*ast.Ident); ok && key.Name != "_" {
		return "map-range", loop
	}
	fail("%s: LockImageConfiguration: cannot tell in which order the loop at %s visits the architectures (range over %s)", rel, fset.Position(loop.Pos()), exprText(loop.X))
	return "sorted", loop
}
