package main

import (
	"fmt"
	"go/ast"
	"go/token"
	"regexp"
	"sort"
	"strings"
)

// genC10 writes Generated/C10Steps.v: the ORDER of the steps of a build as the
// source has it, for Model/BuildSteps.v (which filesystem state is serialised,
// and what ran before). For each of
//
//	Context.BuildLayers, BuildLayer, BuildImage, ImageLayoutToLayer (build.go),
//	Context.buildLayers (layers.go), Context.buildImage (build_implementation.go),
//	Context.postBuildSetApk (apk.go)
//
// the body is read statement by statement and every RELEVANT call is listed in
// evaluation order together with the conditions it sits under:
//   - a call whose callee is a selector chain rooted at the receiver
//     (bc.apk.FixateWorld, bc.postBuildSetApk, bc.o.TempDir ...), named with the
//     receiver spelled "bc";
//   - a call of a plain package-level function with an argument that mentions
//     the receiver, or a local assigned (transitively) from an expression that
//     does (mutateAccounts(bc.fs, &bc.ic), splitLayers(ctx, bc.fs, groups, ...),
//     groupByOriginAndSize(pkgs, bc.ic.Layering.Budget), writeTar(ctx, lw.w, bc.fs),
//     newLayerWriter(outfile)).
//
// `if x := e; cond` puts its body under (cond with x replaced by e, true) and its
// else branch under (…, false); conditions have one spelling (`X != Y` is
// (`X == Y`, false), `!e` is (e, false)); the statements after an `if` one of whose
// branches always returns run under the other branch's condition, so
// `if c { A; return }; B` and `if !c { B; return }; A` give the same facts; a body guarded by `<err> != nil` is the error
// path and is skipped (the model threads errors through a result monad); a loop
// body is under ("for <header>", true); `return` is listed as the pseudo call
// "return", or "fail" when it returns a fresh error (fmt.Errorf(...), a non-nil
// error expression): that ends the whole build. Local variable names do not appear: a condition is printed with
// if-locals substituted, and the arguments of the three calls the model cares
// about (c10_call_args) name a local by the call that produced it.
//
// Shapes the reader does not understand (a relevant call inside defer, a
// closure, switch or select) are a broken tie, never skipped.
func genC10() {
	g := newGen("C10Steps", "From Apko Require Import Base.Prelude.\nOpen Scope string_scope.")
	type fn struct{ rel, name string }
	fns := []fn{
		{"pkg/build/build.go", "BuildLayers"}, {"pkg/build/build.go", "BuildLayer"}, {"pkg/build/build.go", "BuildImage"},
		{"pkg/build/build.go", "ImageLayoutToLayer"}, {"pkg/build/layers.go", "buildLayers"},
		{"pkg/build/build_implementation.go", "buildImage"}, {"pkg/build/apk.go", "postBuildSetApk"},
	}
	builtins := map[string]bool{"len": true, "cap": true, "append": true, "make": true, "new": true, "max": true, "min": true, "panic": true,
		"string": true, "int": true, "int64": true, "uint64": true, "uint32": true, "copy": true, "delete": true, "close": true, "print": true, "println": true}
	errCond := regexp.MustCompile(`^[A-Za-z_0-9]*[eE]rr[A-Za-z_0-9]* != nil$`)

	var defs []string
	args := map[string][]string{}
	lay := newC10Layering("pkg/build")
	seesLayering := map[string]bool{}
	inspected := map[string]bool{}
	var setReposSources []string

	for _, f := range fns {
		fd := findFunc(f.rel, "Context", f.name)
		if fd == nil || fd.Body == nil {
			continue
		}
		recv := ""
		if fd.Recv != nil && len(fd.Recv.List) == 1 && len(fd.Recv.List[0].Names) == 1 {
			recv = fd.Recv.List[0].Names[0].Name
		}
		if recv == "" {
			fail("%s: %s has no named receiver", f.rel, f.name)
			continue
		}
		ctxParams := map[string]bool{}
		for _, p := range fd.Type.Params.List {
			if exprText(p.Type) == "context.Context" {
				for _, n := range p.Names {
					ctxParams[n.Name] = true
				}
			}
		}
		// rename the receiver to "bc" in a printed expression (identifier-wise)
		identRe := regexp.MustCompile(`\b` + regexp.QuoteMeta(recv) + `\b`)
		norm := func(s string) string { return identRe.ReplaceAllString(s, "bc") }
		rootIdent := func(e ast.Expr) string {
			for {
				switch x := e.(type) {
				case *ast.SelectorExpr:
					e = x.X
				case *ast.CallExpr:
					e = x.Fun
				case *ast.UnaryExpr:
					e = x.X
				case *ast.StarExpr:
					e = x.X
				case *ast.ParenExpr:
					e = x.X
				case *ast.IndexExpr:
					e = x.X
				case *ast.Ident:
					return x.Name
				default:
					return ""
				}
			}
		}
		mentionsRecv := func(e ast.Expr) bool {
			found := false
			ast.Inspect(e, func(n ast.Node) bool {
				if id, ok := n.(*ast.Ident); ok && id.Name == recv {
					found = true
				}
				return !found
			})
			return found
		}
		// locals that carry something of the receiver: assigned from an expression that mentions the
		// receiver or another such local (pkgs, err := bc.buildImage(ctx); budget := bc.ic.Layering.Budget;
		// groups, err := groupByOriginAndSize(pkgs, budget)); error variables and blanks excepted
		tainted := map[string]bool{}
		mentionsTainted := func(e ast.Expr) bool {
			found := false
			ast.Inspect(e, func(n ast.Node) bool {
				if id, ok := n.(*ast.Ident); ok && (id.Name == recv || tainted[id.Name]) {
					found = true
				}
				return !found
			})
			return found
		}
		for changed := true; changed; {
			changed = false
			ast.Inspect(fd.Body, func(n ast.Node) bool {
				as, ok := n.(*ast.AssignStmt)
				if !ok {
					return true
				}
				any := false
				for _, r := range as.Rhs {
					any = any || mentionsTainted(r)
				}
				if !any {
					return true
				}
				for _, l := range as.Lhs {
					if id, ok := l.(*ast.Ident); ok && id.Name != "_" && !strings.Contains(strings.ToLower(id.Name), "err") && !tainted[id.Name] {
						tainted[id.Name] = true
						changed = true
					}
				}
				return true
			})
		}
		// name of a relevant call, "" if the call is not relevant
		callName := func(c *ast.CallExpr) string {
			switch fun := c.Fun.(type) {
			case *ast.SelectorExpr:
				if rootIdent(fun) == recv {
					return norm(exprText(fun))
				}
			case *ast.Ident:
				if builtins[fun.Name] {
					return ""
				}
				for _, a := range c.Args {
					if mentionsTainted(a) {
						return fun.Name
					}
				}
			}
			return ""
		}
		// locals bound from a call: local -> "<callee>"
		boundFrom := map[string]string{}
		// locals bound from any expression (for c10_setrepos_sources)
		boundExpr := map[string]ast.Expr{}
		ast.Inspect(fd.Body, func(n ast.Node) bool {
			as, ok := n.(*ast.AssignStmt)
			if !ok || len(as.Rhs) != 1 {
				return true
			}
			if c, ok := as.Rhs[0].(*ast.CallExpr); ok {
				callee := norm(exprText(c.Fun))
				for _, l := range as.Lhs {
					if id, ok := l.(*ast.Ident); ok && id.Name != "_" && id.Name != "err" {
						if _, seen := boundFrom[id.Name]; !seen {
							boundFrom[id.Name] = "<" + callee + ">"
						}
					}
				}
			}
			if len(as.Lhs) == 1 {
				if id, ok := as.Lhs[0].(*ast.Ident); ok {
					if _, seen := boundExpr[id.Name]; !seen {
						boundExpr[id.Name] = as.Rhs[0]
					}
				}
			}
			return true
		})
		argText := func(a ast.Expr) string {
			t := norm(exprText(a))
			r := rootIdent(a)
			if r != "" && r != recv {
				if id, isIdent := a.(*ast.Ident); isIdent {
					// a local that merely names an expression of the receiver: print the expression
					if be, ok := boundExpr[id.Name]; ok {
						if _, isCall := be.(*ast.CallExpr); !isCall && mentionsRecv(be) {
							return norm(exprText(be))
						}
					}
				}
				if b, ok := boundFrom[r]; ok {
					rr := regexp.MustCompile(`^&?\b` + regexp.QuoteMeta(r) + `\b`)
					t = rr.ReplaceAllString(norm(exprText(a)), b)
				}
			}
			return t
		}

		nres, lastIsError := 0, false
		if fd.Type.Results != nil {
			for _, r := range fd.Type.Results.List {
				k := len(r.Names)
				if k == 0 {
					k = 1
				}
				nres += k
				lastIsError = exprText(r.Type) == "error"
			}
		}
		var items []string
		emit := func(guards []string, name string) {
			items = append(items, fmt.Sprintf("([%s], %s)", strings.Join(guards, "; "), coqStr(name)))
		}
		// calls of an expression in evaluation order (arguments before the call)
		var calls func(guards []string, e ast.Node)
		calls = func(guards []string, e ast.Node) {
			if e == nil {
				return
			}
			switch x := e.(type) {
			case *ast.FuncLit:
				bad := false
				ast.Inspect(x.Body, func(n ast.Node) bool {
					if c, ok := n.(*ast.CallExpr); ok && callName(c) != "" {
						bad = true
					}
					return !bad
				})
				if bad {
					fail("%s: %s: a relevant call inside a closure", f.rel, f.name)
				}
				return
			case *ast.CallExpr:
				calls(guards, x.Fun)
				for _, a := range x.Args {
					calls(guards, a)
				}
				if n := callName(x); n != "" {
					emit(guards, n)
					inspected[n] = true
					if lay.siteSees(x, recv) {
						seesLayering[n] = true
					}
					if n == "groupByOriginAndSize" || n == "splitLayers" || n == "writeTar" || n == "bc.apk.SetRepositories" {
						var as []string
						for _, a := range x.Args {
							if id, ok := a.(*ast.Ident); ok && ctxParams[id.Name] {
								continue
							}
							as = append(as, argText(a))
						}
						if _, dup := args[n]; dup {
							fail("%s: %s: second call of %s", f.rel, f.name, n)
						}
						args[n] = as
						if n == "bc.apk.SetRepositories" {
							// the configuration fields that feed the repository list
							src := map[string]bool{}
							for _, a := range x.Args {
								var ex ast.Expr = a
								if id, ok := a.(*ast.Ident); ok {
									if b, ok := boundExpr[id.Name]; ok {
										ex = b
									}
								}
								ast.Inspect(ex, func(n ast.Node) bool {
									if s, ok := n.(*ast.SelectorExpr); ok && rootIdent(s) == recv {
										if _, isCall := s.X.(*ast.CallExpr); !isCall {
											src[norm(exprText(s))] = true
											return false
										}
									}
									return true
								})
							}
							for k := range src {
								setReposSources = append(setReposSources, k)
							}
							sort.Strings(setReposSources)
						}
					}
				}
				return
			}
			// generic: visit children that are expressions
			ast.Inspect(e, func(n ast.Node) bool {
				if n == e || n == nil {
					return true
				}
				switch n.(type) {
				case *ast.CallExpr, *ast.FuncLit:
					calls(guards, n)
					return false
				}
				return true
			})
		}
		var block func(guards []string, list []ast.Stmt, subst map[string]string)
		condText := func(c ast.Expr, subst map[string]string) string {
			t := exprText(c)
			for k, v := range subst {
				t = regexp.MustCompile(`\b`+regexp.QuoteMeta(k)+`\b`).ReplaceAllString(t, v)
			}
			return norm(t)
		}
		guard := func(c string, pol bool) string { return fmt.Sprintf("(%s, %v)", coqStr(c), pol) }
		// one fact, one spelling: `X != Y` is (`X == Y`, false), `!e` is (e, false)
		var canon func(c ast.Expr, subst map[string]string) (string, bool)
		canon = func(c ast.Expr, subst map[string]string) (string, bool) {
			switch x := c.(type) {
			case *ast.ParenExpr:
				return canon(x.X, subst)
			case *ast.UnaryExpr:
				if x.Op == token.NOT {
					t, pol := canon(x.X, subst)
					return t, !pol
				}
			case *ast.BinaryExpr:
				if x.Op == token.NEQ {
					return condText(&ast.BinaryExpr{X: x.X, Op: token.EQL, Y: x.Y}, subst), false
				}
			}
			return condText(c, subst), true
		}
		isErrCond := func(c ast.Expr) bool {
			return errCond.MatchString(exprText(c)) || strings.HasPrefix(exprText(c), "errors.Is(")
		}
		ifSubst := func(x *ast.IfStmt, subst map[string]string) map[string]string {
			sub := map[string]string{}
			for k, v := range subst {
				sub[k] = v
			}
			if as, ok := x.Init.(*ast.AssignStmt); ok && as.Tok == token.DEFINE && len(as.Lhs) == 1 && len(as.Rhs) == 1 {
				if id, ok := as.Lhs[0].(*ast.Ident); ok {
					if _, isCall := as.Rhs[0].(*ast.CallExpr); !isCall {
						sub[id.Name] = exprText(as.Rhs[0])
					}
				}
			}
			return sub
		}
		// does control never fall out of the end of s?
		var terminates func(s ast.Stmt) bool
		terminates = func(s ast.Stmt) bool {
			switch x := s.(type) {
			case *ast.ReturnStmt:
				return true
			case *ast.BlockStmt:
				return len(x.List) > 0 && terminates(x.List[len(x.List)-1])
			case *ast.IfStmt:
				return x.Else != nil && terminates(x.Body) && terminates(x.Else)
			case *ast.ExprStmt:
				if c, ok := x.X.(*ast.CallExpr); ok {
					if id, ok := c.Fun.(*ast.Ident); ok && id.Name == "panic" {
						return true
					}
				}
			}
			return false
		}
		var stmt func(guards []string, s ast.Stmt, subst map[string]string)
		stmt = func(guards []string, s ast.Stmt, subst map[string]string) {
			switch x := s.(type) {
			case nil:
			case *ast.BlockStmt:
				block(guards, x.List, subst)
			case *ast.IfStmt:
				if x.Init != nil {
					stmt(guards, x.Init, subst)
				}
				sub := ifSubst(x, subst)
				calls(guards, x.Cond)
				if isErrCond(x.Cond) {
					// error path: not part of the step order
					if x.Else != nil {
						stmt(guards, x.Else, sub)
					}
					return
				}
				ct, pol := canon(x.Cond, sub)
				stmt(append(append([]string{}, guards...), guard(ct, pol)), x.Body, sub)
				if x.Else != nil {
					stmt(append(append([]string{}, guards...), guard(ct, !pol)), x.Else, sub)
				}
			case *ast.ForStmt:
				h := "for"
				if x.Cond != nil {
					h = "for " + condText(x.Cond, subst)
				}
				stmt(guards, x.Init, subst)
				stmt(append(append([]string{}, guards...), guard(h, true)), x.Body, subst)
			case *ast.RangeStmt:
				calls(guards, x.X)
				stmt(append(append([]string{}, guards...), guard("for range "+argText(x.X), true)), x.Body, subst)
			case *ast.ReturnStmt:
				for _, r := range x.Results {
					calls(guards, r)
				}
				// a return whose error result is a fresh error ends the build ("fail"); `return nil`-style and
				// `return f(...)` (the callee's own failure propagates through the result monad) leave the function
				kind := "return"
				if nres > 0 && lastIsError && len(x.Results) == nres {
					last := x.Results[len(x.Results)-1]
					if c, ok := last.(*ast.CallExpr); ok {
						if callName(c) == "" {
							kind = "fail"
						}
					} else if exprText(last) != "nil" {
						kind = "fail"
					}
				}
				emit(guards, kind)
			case *ast.DeferStmt:
				if callName(x.Call) != "" {
					fail("%s: %s: a relevant call is deferred: %s", f.rel, f.name, exprText(x.Call))
				}
			case *ast.GoStmt:
				fail("%s: %s: go statement", f.rel, f.name)
			case *ast.SwitchStmt, *ast.TypeSwitchStmt, *ast.SelectStmt:
				bad := false
				ast.Inspect(x, func(n ast.Node) bool {
					if c, ok := n.(*ast.CallExpr); ok && callName(c) != "" {
						bad = true
					}
					if _, ok := n.(*ast.ReturnStmt); ok {
						bad = true
					}
					return !bad
				})
				if bad {
					fail("%s: %s: a relevant call or a return inside switch/select", f.rel, f.name)
				}
			case *ast.LabeledStmt:
				stmt(guards, x.Stmt, subst)
			default:
				calls(guards, s)
			}
		}
		block = func(guards []string, list []ast.Stmt, subst map[string]string) {
			for _, s := range list {
				stmt(guards, s, subst)
				// what follows an `if` one of whose branches never falls through runs under the other branch's condition
				if x, ok := s.(*ast.IfStmt); ok && !isErrCond(x.Cond) {
					ct, pol := canon(x.Cond, ifSubst(x, subst))
					bodyEnds := terminates(x.Body)
					elseEnds := x.Else != nil && terminates(x.Else)
					switch {
					case bodyEnds && !elseEnds:
						guards = append(append([]string{}, guards...), guard(ct, !pol))
					case elseEnds && !bodyEnds:
						guards = append(append([]string{}, guards...), guard(ct, pol))
					}
				}
			}
		}
		block(nil, fd.Body.List, map[string]string{})
		defs = append(defs, fmt.Sprintf("  (%s,\n   [%s])", coqStr("bc."+f.name), strings.Join(items, ";\n    ")))
	}
	g.def("c10_steps", "list (string * list (list (string * bool) * string))", "[\n"+strings.Join(defs, ";\n")+"]",
		"per function: the relevant calls in evaluation order, each with the conditions it sits under (condition text, polarity)")
	var al []string
	for _, n := range []string{"groupByOriginAndSize", "splitLayers", "writeTar", "bc.apk.SetRepositories"} {
		a, ok := args[n]
		if !ok {
			fail("pkg/build: no call of %s in the functions read", n)
			continue
		}
		var qs []string
		for _, x := range a {
			qs = append(qs, coqStr(x))
		}
		al = append(al, fmt.Sprintf("(%s, [%s])", coqStr(n), strings.Join(qs, "; ")))
	}
	g.def("c10_call_args", "list (string * list string)", "["+strings.Join(al, ";\n   ")+"]",
		"arguments (context parameters dropped; a local is named by the call that produced it)")
	var ss []string
	for _, s := range setReposSources {
		ss = append(ss, coqStr(s))
	}
	g.def("c10_setrepos_sources", "list string", "["+strings.Join(ss, "; ")+"]",
		"the configuration fields that feed the list postBuildSetApk hands to SetRepositories")
	// which of the listed calls can see the layering block (gen_c10_layering.go); the functions read above are
	// not steps themselves (the model inlines them)
	for _, f := range fns {
		delete(seesLayering, "bc."+f.name)
		delete(inspected, "bc."+f.name)
	}
	var rs []string
	for _, s := range sortedSet(seesLayering) {
		rs = append(rs, coqStr(s))
	}
	g.def("c10_layering_readers", "list string", "["+strings.Join(rs, "; ")+"]",
		"the listed calls that can see the layering block: `.Layering` in the callee (transitively inside pkg/build) or among the arguments, or the whole image configuration handed outside pkg/build")
	var is []string
	for _, s := range sortedSet(inspected) {
		is = append(is, coqStr(s))
	}
	g.def("c10_layering_inspected", "list string", "["+strings.Join(is, "; ")+"]", "the calls that were inspected for it")
	g.write()
}
