package main

import (
	"go/ast"
	"os"
	"path/filepath"
	"sort"
	"strings"
)

// c10Layering decides, for the call sites genC10 lists, which ones can SEE the
// layering block of the image configuration. By shape, no helper names:
//   - an expression `<x>.Layering` anywhere in the callee (transitively through
//     the functions and Context methods of pkg/build it calls) or among the
//     arguments at the call site;
//   - the image configuration as a whole — `<receiver>.ic`, or a parameter whose
//     type is (a pointer to) ...ImageConfiguration, used other than to select a
//     field — handed to anything outside pkg/build (an encoder, a logger, an
//     assignment): whoever gets the whole value gets the layering block. Handed
//     to a function of pkg/build it is followed into that function instead.
type c10Layering struct {
	funcs map[string]*ast.FuncDecl // "name" for functions, "bc.name" for methods of Context
	memo  map[string]int           // 0 unknown, 1 in progress / no, 2 yes
}

func newC10Layering(dir string) *c10Layering {
	l := &c10Layering{funcs: map[string]*ast.FuncDecl{}, memo: map[string]int{}}
	ents, err := os.ReadDir(filepath.Join(*repo, dir))
	if err != nil {
		fail("%s: %v", dir, err)
		return l
	}
	for _, e := range ents {
		n := e.Name()
		if e.IsDir() || !strings.HasSuffix(n, ".go") || strings.HasSuffix(n, "_test.go") || strings.HasSuffix(n, "_verif.go") {
			continue
		}
		f := load(filepath.Join(dir, n))
		if f == nil {
			continue
		}
		for _, d := range f.Decls {
			fd, ok := d.(*ast.FuncDecl)
			if !ok || fd.Body == nil {
				continue
			}
			if fd.Recv == nil {
				l.funcs[fd.Name.Name] = fd
			} else if len(fd.Recv.List) == 1 && recvName(fd.Recv.List[0].Type) == "Context" {
				l.funcs["bc."+fd.Name.Name] = fd
			}
		}
	}
	return l
}

func stripRefs(e ast.Expr) ast.Expr {
	for {
		switch x := e.(type) {
		case *ast.ParenExpr:
			e = x.X
		case *ast.UnaryExpr:
			e = x.X
		case *ast.StarExpr:
			e = x.X
		default:
			return e
		}
	}
}

// isWholeIC: e (after &, *, parens) is the configuration itself
func isWholeIC(e ast.Expr, recv string, icParams map[string]bool) bool {
	switch x := stripRefs(e).(type) {
	case *ast.Ident:
		return icParams[x.Name]
	case *ast.SelectorExpr:
		if id, ok := x.X.(*ast.Ident); ok && recv != "" && id.Name == recv && x.Sel.Name == "ic" {
			return true
		}
	}
	return false
}

// calleeKey: the pkg/build function a call refers to, "" if none
func (l *c10Layering) calleeKey(c *ast.CallExpr, recv string) string {
	switch f := c.Fun.(type) {
	case *ast.Ident:
		if _, ok := l.funcs[f.Name]; ok {
			return f.Name
		}
	case *ast.SelectorExpr:
		if id, ok := f.X.(*ast.Ident); ok && recv != "" && id.Name == recv {
			if _, ok := l.funcs["bc."+f.Sel.Name]; ok {
				return "bc." + f.Sel.Name
			}
		}
	}
	return ""
}

// exprSees: does the expression tree n (inside a function with receiver recv and
// configuration parameters icParams) see the layering block?
func (l *c10Layering) exprSees(n ast.Node, recv string, icParams map[string]bool) bool {
	sees := false
	var visit func(n ast.Node, selectedFrom bool)
	visit = func(n ast.Node, selectedFrom bool) {
		if n == nil || sees {
			return
		}
		switch x := n.(type) {
		case *ast.SelectorExpr:
			if x.Sel.Name == "Layering" {
				sees = true
				return
			}
			if isWholeIC(x, recv, icParams) {
				if !selectedFrom {
					sees = true // the whole configuration escapes
				}
				return
			}
			visit(x.X, true)
			return
		case *ast.Ident:
			if icParams[x.Name] && !selectedFrom {
				sees = true
			}
			return
		case *ast.CallExpr:
			key := l.calleeKey(x, recv)
			if key != "" {
				if l.funcSees(key) {
					sees = true
					return
				}
				// arguments: the whole configuration handed to a pkg/build function was followed above
				for _, a := range x.Args {
					if isWholeIC(a, recv, icParams) {
						continue
					}
					visit(a, false)
				}
				return
			}
			visit(x.Fun, true) // the callee expression selects a method: not a use of the value as a whole
			for _, a := range x.Args {
				visit(a, false)
			}
			return
		case *ast.AssignStmt:
			// `cfg := ic` gives the configuration another name (collected by funcSees): not an escape
			for i, r := range x.Rhs {
				if _, isIdent := x.Lhs[min(i, len(x.Lhs)-1)].(*ast.Ident); isIdent && len(x.Lhs) == len(x.Rhs) && isWholeIC(r, recv, icParams) {
					continue
				}
				visit(r, false)
			}
			for _, lh := range x.Lhs {
				if _, isIdent := lh.(*ast.Ident); !isIdent {
					visit(lh, true)
				}
			}
			return
		case *ast.ParenExpr:
			visit(x.X, selectedFrom)
			return
		case *ast.StarExpr:
			visit(x.X, selectedFrom)
			return
		case *ast.UnaryExpr:
			visit(x.X, selectedFrom)
			return
		case *ast.KeyValueExpr:
			visit(x.Value, false)
			return
		}
		// generic traversal of children
		first := true
		ast.Inspect(n, func(m ast.Node) bool {
			if first {
				first = false
				return true
			}
			if m != nil {
				visit(m, false)
			}
			return false
		})
	}
	visit(n, false)
	return sees
}

func (l *c10Layering) funcSees(key string) bool {
	switch l.memo[key] {
	case 1:
		return false // in progress (recursion) or known no
	case 2:
		return true
	}
	l.memo[key] = 1
	fd := l.funcs[key]
	recv := ""
	if fd.Recv != nil && len(fd.Recv.List) == 1 && len(fd.Recv.List[0].Names) == 1 {
		recv = fd.Recv.List[0].Names[0].Name
	}
	icParams := map[string]bool{}
	for _, p := range fd.Type.Params.List {
		if strings.HasSuffix(strings.TrimPrefix(exprText(p.Type), "*"), "ImageConfiguration") {
			for _, n := range p.Names {
				icParams[n.Name] = true
			}
		}
	}
	// other names of the configuration: `cfg := ic`, `cfg := &bc.ic`
	for changed := true; changed; {
		changed = false
		ast.Inspect(fd.Body, func(n ast.Node) bool {
			if as, ok := n.(*ast.AssignStmt); ok && len(as.Lhs) == len(as.Rhs) {
				for i, r := range as.Rhs {
					if id, ok := as.Lhs[i].(*ast.Ident); ok && id.Name != "_" && !icParams[id.Name] && isWholeIC(r, recv, icParams) {
						icParams[id.Name] = true
						changed = true
					}
				}
			}
			return true
		})
	}
	if l.exprSees(fd.Body, recv, icParams) {
		l.memo[key] = 2
		return true
	}
	return false
}

// siteSees: a call site inside a Context method with receiver recv
func (l *c10Layering) siteSees(c *ast.CallExpr, recv string) bool {
	if key := l.calleeKey(c, recv); key != "" && l.funcSees(key) {
		return true
	}
	for _, a := range c.Args {
		if isWholeIC(a, recv, nil) {
			if l.calleeKey(c, recv) == "" {
				return true
			}
			continue
		}
		if l.exprSees(a, recv, nil) {
			return true
		}
	}
	return false
}

func sortedSet(m map[string]bool) []string {
	var out []string
	for k := range m {
		out = append(out, k)
	}
	sort.Strings(out)
	return out
}
