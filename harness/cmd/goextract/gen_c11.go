package main

// C11: where pkg/build/sbom.go takes the inputs of the SBOM generator from.
//
// genC11 writes Generated/C11Prov.v in the vocabulary of Base/C11Lib.v:
//   GenerateImageSBOM   the single, unconditional, top-level assignment to each of
//       <opts>.ImageInfo.Layers, <opts>.Packages, <opts>.ImageInfo.ImageDigest,
//       <opts>.OS.Version (with <opts> the local assigned from newSBOM(...)), its
//       right-hand side traced back through single-definition locals to a
//       canonical text in which parameters are named by their types
//       ("$recv", "$oci.SignedImage", ...); the filesystem handed to
//       generator.Generators; the VCS url through newSBOM;
//   GenerateIndexSBOM   the index digest; the loop that collects the keys of the
//       images map; the comparator of sort.Slice; the Digest field of the
//       ArchImageInfo appended per architecture; that the per-architecture loop has
//       no continue/break.
//   spdx.go Generate    the loop that numbers an apk element's id while it is taken by a
//       package of another name or version (fix 7c2586e): its presence, the first
//       number, the format of the numbered id and the predicate of the helper it asks.
// Locals may be renamed and independent statements reordered without changing
// the output.  A shape the tracer does not know is reported as POther "<text>"
// (the theorems about the provenance then fail); a vanished function or field
// is a broken tie (fail).

import (
	"fmt"
	"go/ast"
	"go/token"
	"strings"
)

type c11Fn struct {
	rel    string
	fd     *ast.FuncDecl
	params map[string]string // parameter / receiver name -> placeholder
	env    map[string]string // overrides for locals
}

func c11NewFn(rel, recv, name string) *c11Fn {
	fd := findFunc(rel, recv, name)
	if fd == nil {
		return nil
	}
	f := &c11Fn{rel: rel, fd: fd, params: map[string]string{}, env: map[string]string{}}
	if fd.Recv != nil {
		for _, fl := range fd.Recv.List {
			for _, n := range fl.Names {
				f.params[n.Name] = "$recv"
			}
		}
	}
	seen := map[string]int{}
	for _, fl := range fd.Type.Params.List {
		t := "$" + exprText(fl.Type)
		for _, n := range fl.Names {
			seen[t]++
			if seen[t] > 1 {
				f.params[n.Name] = fmt.Sprintf("%s#%d", t, seen[t])
			} else {
				f.params[n.Name] = t
			}
		}
	}
	return f
}

// the root identifier of x, x.f, x[i], x.f[i].g, &x, *x
func c11Root(e ast.Expr) string {
	switch x := e.(type) {
	case *ast.Ident:
		return x.Name
	case *ast.SelectorExpr:
		return c11Root(x.X)
	case *ast.IndexExpr:
		return c11Root(x.X)
	case *ast.SliceExpr:
		return c11Root(x.X)
	case *ast.StarExpr:
		return c11Root(x.X)
	case *ast.ParenExpr:
		return c11Root(x.X)
	case *ast.UnaryExpr:
		return c11Root(x.X)
	}
	return ""
}

type c11Def struct {
	rhs   ast.Expr // the defining expression (for `a, b := f()` the call, index = position)
	index int
	rng   *ast.RangeStmt // defined as the key (index 0) or value (index 1) of a range statement
}

// every statement that writes the local `name` (as a whole or a part of it)
func (f *c11Fn) defsOf(name string) (defs []c11Def, partial int) {
	ast.Inspect(f.fd.Body, func(n ast.Node) bool {
		switch x := n.(type) {
		case *ast.AssignStmt:
			for i, l := range x.Lhs {
				id, isIdent := l.(*ast.Ident)
				if isIdent && id.Name == name {
					d := c11Def{index: i}
					if len(x.Rhs) == len(x.Lhs) {
						d.rhs, d.index = x.Rhs[i], 0
					} else if len(x.Rhs) == 1 {
						d.rhs = x.Rhs[0]
					}
					if x.Tok != token.DEFINE && x.Tok != token.ASSIGN {
						d.rhs = nil // op-assignment
					}
					defs = append(defs, d)
				} else if !isIdent && c11Root(l) == name {
					partial++
				}
			}
		case *ast.RangeStmt:
			if id, ok := x.Key.(*ast.Ident); ok && id.Name == name {
				defs = append(defs, c11Def{rng: x, index: 0})
			}
			if id, ok := x.Value.(*ast.Ident); ok && id.Name == name {
				defs = append(defs, c11Def{rng: x, index: 1})
			}
		case *ast.ValueSpec:
			for i, id := range x.Names {
				if id.Name == name {
					d := c11Def{index: i}
					if len(x.Values) == len(x.Names) {
						d.rhs, d.index = x.Values[i], 0
					} else if len(x.Values) == 1 {
						d.rhs = x.Values[0]
					}
					defs = append(defs, d)
				}
			}
		case *ast.IncDecStmt:
			if c11Root(x.X) == name {
				partial++
			}
		}
		return true
	})
	return defs, partial
}

// calls that receive the local itself (or its address, or a slice of it) as an argument and
// may therefore change what it holds; len/cap and conversions to string are harmless
func (f *c11Fn) handedTo(name string) (calls []string) {
	ast.Inspect(f.fd.Body, func(n ast.Node) bool {
		c, ok := n.(*ast.CallExpr)
		if !ok {
			return true
		}
		fn := exprText(c.Fun)
		if fn == "len" || fn == "cap" || fn == "string" || fn == "append" { // append never changes what its arguments show
			return true
		}
		for _, a := range c.Args {
			switch x := a.(type) {
			case *ast.Ident:
				if x.Name == name {
					calls = append(calls, fn)
				}
			case *ast.UnaryExpr:
				if x.Op == token.AND && c11Root(x.X) == name {
					if _, whole := x.X.(*ast.Ident); whole {
						calls = append(calls, fn)
					}
				}
			case *ast.SliceExpr:
				if c11Root(x) == name {
					calls = append(calls, fn)
				}
			}
		}
		return true
	})
	return calls
}

// canonical text of an expression: parameters by type, single-definition locals
// replaced by what defines them
func (f *c11Fn) canon(e ast.Expr, depth int) string {
	if depth > 12 {
		return "<too-deep>"
	}
	switch x := e.(type) {
	case *ast.ParenExpr:
		return f.canon(x.X, depth+1)
	case *ast.Ident:
		if v, ok := f.env[x.Name]; ok {
			return v
		}
		if v, ok := f.params[x.Name]; ok {
			return v
		}
		defs, partial := f.defsOf(x.Name)
		if len(defs) == 0 {
			return x.Name // a package-level name
		}
		if len(defs) != 1 || partial != 0 {
			return fmt.Sprintf("<%s: written %d times>", x.Name, len(defs)+partial)
		}
		d := defs[0]
		if d.rng != nil {
			if d.index == 0 {
				return "$key(" + f.canon(d.rng.X, depth+1) + ")"
			}
			return "$elem(" + f.canon(d.rng.X, depth+1) + ")"
		}
		if d.rhs == nil {
			return "<" + x.Name + ": no single defining expression>"
		}
		s := f.canon(d.rhs, depth+1)
		if d.index != 0 {
			s = fmt.Sprintf("%s#%d", s, d.index)
		}
		return s
	case *ast.SelectorExpr:
		return f.canon(x.X, depth+1) + "." + x.Sel.Name
	case *ast.IndexExpr:
		return f.canon(x.X, depth+1) + "[" + f.canon(x.Index, depth+1) + "]"
	case *ast.CallExpr:
		as := make([]string, len(x.Args))
		for i, a := range x.Args {
			as[i] = f.canon(a, depth+1)
		}
		return f.canon(x.Fun, depth+1) + "(" + strings.Join(as, ", ") + ")"
	case *ast.UnaryExpr:
		return x.Op.String() + f.canon(x.X, depth+1)
	case *ast.StarExpr:
		return "*" + f.canon(x.X, depth+1)
	}
	return strings.Join(strings.Fields(exprText(e)), " ")
}

// the local assigned from a call of `callee`, and that call
func (f *c11Fn) localFromCall(callee string) (string, *ast.CallExpr) {
	name, call := "", (*ast.CallExpr)(nil)
	ast.Inspect(f.fd.Body, func(n ast.Node) bool {
		as, ok := n.(*ast.AssignStmt)
		if !ok || name != "" || len(as.Rhs) != 1 || len(as.Lhs) < 1 {
			return true
		}
		if c, ok := as.Rhs[0].(*ast.CallExpr); ok && exprText(c.Fun) == callee {
			if id, ok := as.Lhs[0].(*ast.Ident); ok {
				name, call = id.Name, c
			}
		}
		return true
	})
	return name, call
}

// all assignments whose left-hand side is the field `path` (text), a part of it or a struct containing it
func (f *c11Fn) writesTo(path string) (out []*ast.AssignStmt) {
	ast.Inspect(f.fd.Body, func(n ast.Node) bool {
		as, ok := n.(*ast.AssignStmt)
		if !ok {
			return true
		}
		for _, l := range as.Lhs {
			t := exprText(l)
			if _, bare := l.(*ast.Ident); bare && as.Tok == token.DEFINE {
				continue // the declaration of the options value itself
			}
			if t == path || strings.HasPrefix(t, path+".") || strings.HasPrefix(t, path+"[") || strings.HasPrefix(path, t+".") {
				out = append(out, as)
				break
			}
		}
		return true
	})
	return out
}

func (f *c11Fn) topLevel(s ast.Stmt) bool {
	for _, t := range f.fd.Body.List {
		if t == s {
			return true
		}
	}
	return false
}

// the canonical source of the field: one plain top-level assignment, nothing handed to a mutating call
func (f *c11Fn) fieldSource(path string, needTop bool) string {
	ws := f.writesTo(path)
	if len(ws) == 0 {
		fail("%s: %s: no assignment to %s", f.rel, f.fd.Name.Name, path)
		return "<never assigned>"
	}
	if len(ws) != 1 {
		return fmt.Sprintf("<%d assignments>", len(ws))
	}
	w := ws[0]
	if w.Tok != token.ASSIGN || len(w.Lhs) != 1 || len(w.Rhs) != 1 || exprText(w.Lhs[0]) != path {
		return "<not a plain assignment: " + strings.Join(strings.Fields(exprText(w)), " ") + ">"
	}
	if needTop && !f.topLevel(w) {
		return "<assigned under a condition or in a loop: " + strings.Join(strings.Fields(exprText(w)), " ") + ">"
	}
	s := f.canon(w.Rhs[0], 0)
	if id, ok := w.Rhs[0].(*ast.Ident); ok {
		if cs := f.handedTo(id.Name); len(cs) > 0 {
			s += " <handed to " + strings.Join(cs, ",") + ">"
		}
	}
	return s
}

func c11Prov(canon string, table map[string]string) string {
	if c, ok := table[canon]; ok {
		return c
	}
	return "(POther " + coqStr(canon) + ")"
}

// the VCS url as newSBOM files it: <sopt>.ImageInfo.VCSUrl = <param of type ImageConfiguration>.VCSUrl,
// composed with the argument the caller passes for that parameter
func c11VCS(rel string, caller *c11Fn, call *ast.CallExpr) string {
	nf := c11NewFn(rel, "", "newSBOM")
	if nf == nil || call == nil {
		return "<no newSBOM>"
	}
	// the options value newSBOM returns
	var ret string
	ast.Inspect(nf.fd.Body, func(n ast.Node) bool {
		if r, ok := n.(*ast.ReturnStmt); ok && len(r.Results) == 1 {
			ret = exprText(r.Results[0])
		}
		return true
	})
	if ret == "" {
		fail("%s: newSBOM: no single-value return", rel)
		return "<?>"
	}
	inner := nf.fieldSource(ret+".ImageInfo.VCSUrl", true)
	// substitute the caller's arguments for newSBOM's parameters
	i := 0
	for _, fl := range nf.fd.Type.Params.List {
		for _, n := range fl.Names {
			ph := nf.params[n.Name]
			if i < len(call.Args) && (strings.HasPrefix(inner, ph+".") || inner == ph) {
				return caller.canon(call.Args[i], 0) + strings.TrimPrefix(inner, ph)
			}
			i++
		}
	}
	return inner
}

// c11IDPolicy reads, in the loop of Generate over opts.Packages, what happens to the element's id
// between `<p>.ID = stringToIdentifier(...)` and `doc.Packages = append(doc.Packages, <p>)`:
//
//	nothing                                                              -> IdAsIs
//	for <base>, <n> := <p>.ID, <k>; <taken>(<doc>, &<p>); <n>++ { <p>.ID = fmt.Sprintf("%s-%d", <base>, <n>) }
//	with <taken> returning true exactly for a package q of the document with
//	q.ID == p.ID && (q.Name != p.Name || q.Version != p.Version)       -> IdNumbered k
//	anything else                                                        -> IdOther "<text>"
func c11IDPolicy() string {
	const rel = "pkg/sbom/generator/spdx/spdx.go"
	fd := findFunc(rel, "SPDX", "Generate")
	if fd == nil {
		return "(IdOther \"no Generate\")"
	}
	flat := func(n ast.Node) string { return strings.Join(strings.Fields(exprText(n)), " ") }
	var loop *ast.RangeStmt
	ast.Inspect(fd.Body, func(n ast.Node) bool {
		if rs, ok := n.(*ast.RangeStmt); ok && loop == nil && strings.HasSuffix(exprText(rs.X), ".Packages") && strings.HasPrefix(exprText(rs.X), "opts") {
			loop = rs
		}
		return true
	})
	if loop == nil {
		fail("%s: Generate: no loop over opts.Packages", rel)
		return "(IdOther \"no loop over opts.Packages\")"
	}
	// the element variable: the one appended to doc.Packages
	pv, from, to := "", -1, -1
	for i, st := range loop.Body.List {
		as, ok := st.(*ast.AssignStmt)
		if !ok || len(as.Lhs) != 1 || len(as.Rhs) != 1 {
			continue
		}
		if c, ok := as.Rhs[0].(*ast.CallExpr); ok && exprText(c.Fun) == "append" && len(c.Args) == 2 && exprText(as.Lhs[0]) == exprText(c.Args[0]) && strings.HasSuffix(exprText(as.Lhs[0]), ".Packages") {
			if id, ok := c.Args[1].(*ast.Ident); ok {
				pv, to = id.Name, i
			}
		}
	}
	if pv == "" {
		fail("%s: Generate: the apk loop does not append its element to the document's packages", rel)
		return "(IdOther \"no append\")"
	}
	for i, st := range loop.Body.List[:to] {
		if as, ok := st.(*ast.AssignStmt); ok && len(as.Lhs) == 1 && exprText(as.Lhs[0]) == pv+".ID" && len(as.Rhs) == 1 {
			if c, ok := as.Rhs[0].(*ast.CallExpr); ok && exprText(c.Fun) == "stringToIdentifier" {
				from = i
			}
		}
	}
	if from < 0 {
		fail("%s: Generate: no `%s.ID = stringToIdentifier(...)` before the append", rel, pv)
		return "(IdOther \"no id assignment\")"
	}
	// statements between the two that touch the id
	var touching []ast.Stmt
	for _, st := range loop.Body.List[from+1 : to] {
		if strings.Contains(flat(st), pv+".ID") || strings.Contains(flat(st), "&"+pv) {
			touching = append(touching, st)
		}
	}
	if len(touching) == 0 {
		return "IdAsIs"
	}
	other := func() string {
		var ts []string
		for _, st := range touching {
			ts = append(ts, flat(st))
		}
		return "(IdOther " + coqStr(strings.Join(ts, " ; ")) + ")"
	}
	if len(touching) != 1 {
		return other()
	}
	fs, ok := touching[0].(*ast.ForStmt)
	if !ok || fs.Init == nil || fs.Cond == nil || fs.Post == nil || len(fs.Body.List) != 1 {
		return other()
	}
	init, ok := fs.Init.(*ast.AssignStmt)
	if !ok || init.Tok != token.DEFINE || len(init.Lhs) != 2 || len(init.Rhs) != 2 || exprText(init.Rhs[0]) != pv+".ID" {
		return other()
	}
	base, n := exprText(init.Lhs[0]), exprText(init.Lhs[1])
	first, ok := intLit(init.Rhs[1])
	if !ok || first < 0 {
		return other()
	}
	if post, ok := fs.Post.(*ast.IncDecStmt); !ok || post.Tok != token.INC || exprText(post.X) != n {
		return other()
	}
	if flat(fs.Body.List[0]) != fmt.Sprintf("%s.ID = fmt.Sprintf(\"%%s-%%d\", %s, %s)", pv, base, n) {
		return other()
	}
	cond, ok := fs.Cond.(*ast.CallExpr)
	if !ok || len(cond.Args) != 2 || exprText(cond.Args[1]) != "&"+pv {
		return other()
	}
	helper, ok := cond.Fun.(*ast.Ident)
	if !ok {
		return other()
	}
	hd := findFunc(rel, "", helper.Name)
	if hd == nil || len(hd.Type.Params.List) != 2 || len(hd.Type.Params.List[0].Names) != 1 || len(hd.Type.Params.List[1].Names) != 1 {
		return other()
	}
	docv, pp := hd.Type.Params.List[0].Names[0].Name, hd.Type.Params.List[1].Names[0].Name
	// the helper: one loop over <doc>.Packages whose body binds q (by index or by value) and returns true
	// on the predicate; `return false` after it
	if len(hd.Body.List) != 2 || flat(hd.Body.List[1]) != "return false" {
		return "(IdOther " + coqStr("helper "+helper.Name+": "+flat(hd.Body)) + ")"
	}
	rs, ok := hd.Body.List[0].(*ast.RangeStmt)
	if !ok || exprText(rs.X) != docv+".Packages" {
		return "(IdOther " + coqStr("helper "+helper.Name+": "+flat(hd.Body)) + ")"
	}
	q := ""
	var test *ast.IfStmt
	for _, st := range rs.Body.List {
		switch x := st.(type) {
		case *ast.AssignStmt:
			if len(x.Lhs) == 1 && len(x.Rhs) == 1 && rs.Key != nil {
				r := flat(x.Rhs[0])
				if r == fmt.Sprintf("&%s.Packages[%s]", docv, exprText(rs.Key)) || r == fmt.Sprintf("%s.Packages[%s]", docv, exprText(rs.Key)) {
					q = exprText(x.Lhs[0])
					continue
				}
			}
			return "(IdOther " + coqStr("helper "+helper.Name+": "+flat(hd.Body)) + ")"
		case *ast.IfStmt:
			if test != nil || x.Else != nil || x.Init != nil || len(x.Body.List) != 1 || flat(x.Body.List[0]) != "return true" {
				return "(IdOther " + coqStr("helper "+helper.Name+": "+flat(hd.Body)) + ")"
			}
			test = x
		default:
			return "(IdOther " + coqStr("helper "+helper.Name+": "+flat(hd.Body)) + ")"
		}
	}
	if q == "" && rs.Value != nil {
		q = exprText(rs.Value)
	}
	if test == nil || q == "" {
		return "(IdOther " + coqStr("helper "+helper.Name+": "+flat(hd.Body)) + ")"
	}
	// the predicate with the two names normalised
	canon := func(e ast.Expr) string {
		var rec func(e ast.Expr) string
		rec = func(e ast.Expr) string {
			switch x := e.(type) {
			case *ast.ParenExpr:
				return "(" + rec(x.X) + ")"
			case *ast.BinaryExpr:
				return rec(x.X) + " " + x.Op.String() + " " + rec(x.Y)
			case *ast.SelectorExpr:
				if id, ok := x.X.(*ast.Ident); ok {
					switch id.Name {
					case q:
						return "$q." + x.Sel.Name
					case pp:
						return "$p." + x.Sel.Name
					}
				}
			}
			return flat(e)
		}
		return rec(e)
	}
	pred := canon(test.Cond)
	okPreds := map[string]bool{
		"$q.ID == $p.ID && ($q.Name != $p.Name || $q.Version != $p.Version)": true,
		"$p.ID == $q.ID && ($p.Name != $q.Name || $p.Version != $q.Version)": true,
		"$q.ID == $p.ID && ($q.Version != $p.Version || $q.Name != $p.Name)": true,
	}
	if !okPreds[pred] {
		return "(IdOther " + coqStr("helper "+helper.Name+" tests "+pred) + ")"
	}
	return fmt.Sprintf("(IdNumbered %d%%N)", first)
}

func genC11() {
	const rel = "pkg/build/sbom.go"
	g := newGen("C11Prov", "From Apko Require Import Base.Prelude Base.C11Lib.\nOpen Scope string_scope.")
	def := func(name, term, what string) { g.def(name, "prov", term, what) }
	g.def("apk_id_policy", "id_policy", c11IDPolicy(), "spdx.go Generate: what happens to an apk element's id between stringToIdentifier and the append")

	// ---- GenerateImageSBOM
	if f := c11NewFn(rel, "Context", "GenerateImageSBOM"); f != nil {
		s, call := f.localFromCall("newSBOM")
		if s == "" {
			fail("%s: GenerateImageSBOM: no `<opts> := newSBOM(...)`", rel)
		} else {
			def("image_sbom_layers", c11Prov(f.fieldSource(s+".ImageInfo.Layers", true), map[string]string{
				"$oci.SignedImage.Manifest().Layers": "PManifestLayers"}), "GenerateImageSBOM: <opts>.ImageInfo.Layers")
			def("image_sbom_packages", c11Prov(f.fieldSource(s+".Packages", true), map[string]string{
				"$recv.apk.GetInstalled()": "PInstalled"}), "GenerateImageSBOM: <opts>.Packages")
			def("image_sbom_image_digest", c11Prov(f.fieldSource(s+".ImageInfo.ImageDigest", true), map[string]string{
				"$oci.SignedImage.Digest().String()": "PImageDigestString"}), "GenerateImageSBOM: <opts>.ImageInfo.ImageDigest")
			def("image_sbom_os_version", c11Prov(f.fieldSource(s+".OS.Version", true), map[string]string{
				"readReleaseData($recv.fs).VersionID": "PReleaseVersionID"}), "GenerateImageSBOM: <opts>.OS.Version")
			def("image_sbom_vcs_url", c11Prov(c11VCS(rel, f, call), map[string]string{
				"$recv.ic.VCSUrl": "PConfigVCSUrl"}), "GenerateImageSBOM: <opts>.ImageInfo.VCSUrl through newSBOM")
			// the filesystem the generators read embedded SBOMs from
			_, gc := f.localFromCall("generator.Generators")
			fsSrc := "<no generator.Generators(...)>"
			if gc != nil && len(gc.Args) == 1 {
				fsSrc = f.canon(gc.Args[0], 0)
			}
			def("image_sbom_fs", c11Prov(fsSrc, map[string]string{"$recv.fs": "PBuildFS"}), "GenerateImageSBOM: generator.Generators(<fs>)")
		}
	}

	c11Release(g, rel)

	// ---- GenerateIndexSBOM
	if f := c11NewFn(rel, "", "GenerateIndexSBOM"); f != nil {
		s, call := f.localFromCall("newSBOM")
		if s == "" {
			fail("%s: GenerateIndexSBOM: no `<opts> := newSBOM(...)`", rel)
			g.write()
			return
		}
		def("index_sbom_index_digest", c11Prov(f.fieldSource(s+".ImageInfo.IndexDigest", true), map[string]string{
			"v1.NewHash($name.Digest.DigestStr())": "PIndexDigest"}), "GenerateIndexSBOM: <opts>.ImageInfo.IndexDigest")
		def("index_sbom_vcs_url", c11Prov(c11VCS(rel, f, call), map[string]string{
			"$types.ImageConfiguration.VCSUrl": "PConfigVCSUrl"}), "GenerateIndexSBOM: <opts>.ImageInfo.VCSUrl through newSBOM")

		// the images map parameter
		imgs := ""
		for n, ph := range f.params {
			if strings.HasPrefix(ph, "$map[") {
				imgs = n
			}
		}
		// sort.Slice(<archs>, func(i, j int) bool { return <archs>[i].String() < <archs>[j].String() })
		archs, order := "", "(SortOther \"no sort.Slice call\")"
		ast.Inspect(f.fd.Body, func(n ast.Node) bool {
			c, ok := n.(*ast.CallExpr)
			if !ok || archs != "" || exprText(c.Fun) != "sort.Slice" || len(c.Args) != 2 {
				return true
			}
			id, ok := c.Args[0].(*ast.Ident)
			fl, ok2 := c.Args[1].(*ast.FuncLit)
			if !ok || !ok2 {
				return true
			}
			archs = id.Name
			order = "(SortOther " + coqStr(strings.Join(strings.Fields(exprText(fl.Body)), " ")) + ")"
			var ps []string
			for _, p := range fl.Type.Params.List {
				for _, n := range p.Names {
					ps = append(ps, n.Name)
				}
			}
			if len(ps) == 2 && len(fl.Body.List) == 1 {
				if r, ok := fl.Body.List[0].(*ast.ReturnStmt); ok && len(r.Results) == 1 {
					if be, ok := r.Results[0].(*ast.BinaryExpr); ok {
						l, rr := exprText(be.X), exprText(be.Y)
						wantL, wantR := fmt.Sprintf("%s[%s].String()", archs, ps[0]), fmt.Sprintf("%s[%s].String()", archs, ps[1])
						switch {
						case l == wantL && rr == wantR && be.Op == token.LSS, l == wantR && rr == wantL && be.Op == token.GTR:
							order = "SortByArchStringAsc"
						case l == wantL && rr == wantR && be.Op == token.GTR, l == wantR && rr == wantL && be.Op == token.LSS:
							order = "SortByArchStringDesc"
						}
					}
				}
			}
			return true
		})
		g.def("index_sbom_order", "sort_order", order, "GenerateIndexSBOM: comparator of sort.Slice over the architectures")

		// for <k> := range <imgs> { <archs> = append(<archs>, <k>) } and no other write of <archs> but its make(...)
		keys := "<no sorted architecture slice>"
		if archs != "" && imgs != "" {
			keys = "<the architecture slice is not filled by one unconditional loop over the images map>"
			defs, partial := f.defsOf(archs)
			appends, makes := 0, 0
			ast.Inspect(f.fd.Body, func(n ast.Node) bool {
				rs, ok := n.(*ast.RangeStmt)
				if !ok || exprText(rs.X) != imgs || rs.Value != nil || len(rs.Body.List) != 1 {
					return true
				}
				k, ok := rs.Key.(*ast.Ident)
				as, ok2 := rs.Body.List[0].(*ast.AssignStmt)
				if ok && ok2 && strings.Join(strings.Fields(exprText(as)), " ") == fmt.Sprintf("%s = append(%s, %s)", archs, archs, k.Name) {
					appends++
				}
				return true
			})
			for _, d := range defs {
				if c, ok := d.rhs.(*ast.CallExpr); ok && exprText(c.Fun) == "make" {
					makes++
				}
			}
			if appends == 1 && makes == 1 && len(defs) == 2 && partial == 0 {
				keys = "all keys"
			}
			if cs := f.handedTo(archs); len(cs) != 1 || cs[0] != "sort.Slice" {
				keys += " <handed to " + strings.Join(cs, ",") + ">"
			}
		}
		def("index_sbom_archs", c11Prov(keys, map[string]string{"all keys": "PAllMapKeys"}), "GenerateIndexSBOM: the architectures visited")

		// for _, <a> := range <archs> { ... <infos> = append(<infos>, <info>) } ; <opts>.ImageInfo.Images = <infos>
		digest, skips := "<no per-architecture loop>", "false"
		infosSrc := f.writesTo(s + ".ImageInfo.Images")
		if archs != "" && len(infosSrc) == 1 && len(infosSrc[0].Rhs) == 1 {
			infos := exprText(infosSrc[0].Rhs[0])
			f.env[archs] = "$sortedArchs"
			ast.Inspect(f.fd.Body, func(n ast.Node) bool {
				rs, ok := n.(*ast.RangeStmt)
				if !ok || exprText(rs.X) != archs {
					return true
				}
				skips = "true"
				if v, ok := rs.Value.(*ast.Ident); ok {
					f.env[v.Name] = "$elem($sortedArchs)" // the name may also be used by the loop that collects the keys
					defer delete(f.env, v.Name)
				}
				ast.Inspect(rs.Body, func(m ast.Node) bool {
					switch y := m.(type) {
					case *ast.BranchStmt:
						skips = "false"
					case *ast.AssignStmt:
						if len(y.Lhs) == 1 && exprText(y.Lhs[0]) == infos && len(y.Rhs) == 1 {
							if c, ok := y.Rhs[0].(*ast.CallExpr); ok && exprText(c.Fun) == "append" && len(c.Args) == 2 && exprText(c.Args[0]) == infos {
								if !topOf(rs.Body, y) {
									skips = "false"
								}
								val := c.Args[1]
								if id, ok := val.(*ast.Ident); ok {
									if ds, p := f.defsOf(id.Name); len(ds) == 1 && p == 0 && ds[0].rhs != nil {
										val = ds[0].rhs
									}
								}
								if cl, ok := val.(*ast.CompositeLit); ok {
									for _, el := range cl.Elts {
										if kv, ok := el.(*ast.KeyValueExpr); ok && exprText(kv.Key) == "Digest" {
											digest = f.canon(kv.Value, 0)
										}
									}
								}
							}
						}
					}
					return true
				})
				return false
			})
			delete(f.env, archs)
		}
		def("index_sbom_image_digest", c11Prov(digest, map[string]string{
			"$map[types.Architecture]oci.SignedImage[$elem($sortedArchs)].Digest()": "PArchImageDigest"}), "GenerateIndexSBOM: ArchImageInfo.Digest of the per-architecture loop")
		g.def("index_sbom_skips_none", "bool", skips, "GenerateIndexSBOM: the per-architecture loop appends once per iteration, no continue/break")
	}
	g.write()
}

// c11Release reads the os-release parser by shape: the function is the one whose result's fields
// GenerateImageSBOM assigns to <opts>.OS.{ID,Name,Version}; in it the literal handed to <fs>.Open, the
// keys `<m>["KEY"]` of the fields of the returned
// literal, and the string fields of the literal returned when the file does not exist.
func c11Release(g *gen, rel string) {
	f := c11NewFn(rel, "Context", "GenerateImageSBOM")
	if f == nil {
		return
	}
	s, _ := f.localFromCall("newSBOM")
	if s == "" {
		return
	}
	// <opts>.OS.X = <info>.Field
	fieldOf := map[string]string{}
	parser := ""
	for _, x := range []string{"ID", "Name", "Version"} {
		ws := f.writesTo(s + ".OS." + x)
		if len(ws) != 1 || len(ws[0].Rhs) != 1 {
			fail("%s: GenerateImageSBOM: no single assignment to %s.OS.%s", rel, s, x)
			return
		}
		sel, ok := ws[0].Rhs[0].(*ast.SelectorExpr)
		if !ok {
			fail("%s: GenerateImageSBOM: %s.OS.%s is not assigned from a field", rel, s, x)
			return
		}
		fieldOf[x] = sel.Sel.Name
		if id, ok := sel.X.(*ast.Ident); ok {
			if ds, _ := f.defsOf(id.Name); len(ds) == 1 && ds[0].rhs != nil {
				if c, ok := ds[0].rhs.(*ast.CallExpr); ok {
					if fn, ok := c.Fun.(*ast.Ident); ok {
						parser = fn.Name
					}
				}
			}
		}
	}
	if parser == "" {
		fail("%s: GenerateImageSBOM: the value assigned to %s.OS.* does not come from a call of a package function", rel, s)
		return
	}
	pd := findFunc(rel, "", parser)
	if pd == nil {
		return
	}
	lit1 := func(fun string, argIdx int) (string, bool) {
		res, n := "", 0
		ast.Inspect(pd.Body, func(nd ast.Node) bool {
			c, ok := nd.(*ast.CallExpr)
			if !ok || len(c.Args) <= argIdx {
				return true
			}
			name := exprText(c.Fun)
			if name == fun || (strings.HasPrefix(fun, ".") && strings.HasSuffix(name, fun)) {
				if v, ok := strLit(c.Args[argIdx]); ok {
					res = v
					n++
				}
			}
			return true
		})
		return res, n == 1
	}
	emit := func(name, what string, v string, ok bool) {
		if !ok {
			fail("%s: %s: %s not found exactly once as a string literal", rel, parser, what)
			return
		}
		g.def(name, "string", coqStr(v), parser+": "+what)
	}
	v, ok := lit1(".Open", 0)
	emit("os_release_path", "the path opened", v, ok)
	// the returned literals
	var withKeys, withLits map[string]string
	ast.Inspect(pd.Body, func(nd ast.Node) bool {
		cl, ok := nd.(*ast.CompositeLit)
		if !ok {
			return true
		}
		keys, lits := map[string]string{}, map[string]string{}
		for _, el := range cl.Elts {
			kv, ok := el.(*ast.KeyValueExpr)
			if !ok {
				continue
			}
			if ix, ok := kv.Value.(*ast.IndexExpr); ok {
				if k, ok := strLit(ix.Index); ok {
					keys[exprText(kv.Key)] = k
				}
			} else if l, ok := strLit(kv.Value); ok {
				lits[exprText(kv.Key)] = l
			}
		}
		if len(keys) > 0 && withKeys == nil {
			withKeys = keys
		}
		if len(lits) > 0 && len(keys) == 0 && withLits == nil {
			withLits = lits
		}
		return true
	})
	for _, x := range []struct{ opt, coq string }{{"ID", "id"}, {"Name", "name"}, {"Version", "version"}} {
		k, ok := withKeys[fieldOf[x.opt]]
		emit("os_release_key_"+x.coq, "the key whose value becomes <opts>.OS."+x.opt, k, ok)
		d, ok := withLits[fieldOf[x.opt]]
		emit("os_release_default_"+x.coq, "<opts>.OS."+x.opt+" when the file does not exist", d, ok)
	}
}

func topOf(b *ast.BlockStmt, s ast.Stmt) bool {
	for _, t := range b.List {
		if t == s {
			return true
		}
	}
	return false
}
