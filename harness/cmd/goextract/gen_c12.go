package main

// C12: constants, tables and the append-offset arithmetic of the OCI emitters.
//   pkg/build/oci/index.go  BuildIndex: blockSize, the statements between the
//       header scan loop and f.Seek(<out>, io.SeekStart) as a Base.C12Lib.stmt;
//       annotation keys of generateIndexWithMediaType
//   pkg/build/oci/image.go  BuildImageFromLayers: default env table, env entry
//       format, shell entrypoint prefix, annotation keys, VCS separator,
//       literal config fields
//   pkg/build/types/types.go  architecture constants, AllArchs and the switch
//       tables of ParseArchitecture / ToAPK / ToOCIPlatform

import (
	"fmt"
	"go/ast"
	"go/token"
	"regexp"
	"strings"
)

func c12Expr(e ast.Expr, where string) string {
	switch x := e.(type) {
	case *ast.Ident:
		return "(EVar " + coqStr(x.Name) + ")"
	case *ast.BasicLit:
		if v, ok := intLit(x); ok {
			return fmt.Sprintf("(EConst (%d))", v)
		}
	case *ast.ParenExpr:
		return c12Expr(x.X, where)
	case *ast.CallExpr: // conversions such as int64(x)
		if id, ok := x.Fun.(*ast.Ident); ok && len(x.Args) == 1 && strings.HasPrefix(id.Name, "int") {
			return c12Expr(x.Args[0], where)
		}
	case *ast.BinaryExpr:
		ops := map[token.Token]string{token.ADD: "EAdd", token.SUB: "ESub", token.MUL: "EMul", token.QUO: "EQuo", token.REM: "ERem"}
		if c, ok := ops[x.Op]; ok {
			return "(" + c + " " + c12Expr(x.X, where) + " " + c12Expr(x.Y, where) + ")"
		}
	}
	fail("%s: arithmetic expression %q is outside the translated fragment", where, exprText(e))
	return "(EConst 0)"
}

func c12Seq(ss []string) string {
	if len(ss) == 0 {
		return "SSkip"
	}
	t := ss[len(ss)-1]
	for i := len(ss) - 2; i >= 0; i-- {
		t = "(SSeq " + ss[i] + " " + t + ")"
	}
	return t
}

func c12Block(list []ast.Stmt, where string) string {
	var out []string
	for _, s := range list {
		out = append(out, c12Stmt(s, where))
	}
	return c12Seq(out)
}

func c12Stmt(s ast.Stmt, where string) string {
	switch x := s.(type) {
	case *ast.DeclStmt:
		if gd, ok := x.Decl.(*ast.GenDecl); ok && (gd.Tok == token.CONST || gd.Tok == token.VAR) {
			var out []string
			for _, sp := range gd.Specs {
				vs := sp.(*ast.ValueSpec)
				for i, id := range vs.Names {
					if i < len(vs.Values) {
						out = append(out, "(SAssign "+coqStr(id.Name)+" "+c12Expr(vs.Values[i], where)+")")
					} else {
						out = append(out, "(SAssign "+coqStr(id.Name)+" (EConst 0))")
					}
				}
			}
			return c12Seq(out)
		}
	case *ast.AssignStmt:
		if len(x.Lhs) == 1 && len(x.Rhs) == 1 {
			if id, ok := x.Lhs[0].(*ast.Ident); ok {
				v := "(EVar " + coqStr(id.Name) + ")"
				r := c12Expr(x.Rhs[0], where)
				switch x.Tok {
				case token.DEFINE, token.ASSIGN:
					return "(SAssign " + coqStr(id.Name) + " " + r + ")"
				case token.ADD_ASSIGN:
					return "(SAssign " + coqStr(id.Name) + " (EAdd " + v + " " + r + "))"
				case token.SUB_ASSIGN:
					return "(SAssign " + coqStr(id.Name) + " (ESub " + v + " " + r + "))"
				case token.MUL_ASSIGN:
					return "(SAssign " + coqStr(id.Name) + " (EMul " + v + " " + r + "))"
				case token.QUO_ASSIGN:
					return "(SAssign " + coqStr(id.Name) + " (EQuo " + v + " " + r + "))"
				case token.REM_ASSIGN:
					return "(SAssign " + coqStr(id.Name) + " (ERem " + v + " " + r + "))"
				}
			}
		}
	case *ast.IncDecStmt:
		if id, ok := x.X.(*ast.Ident); ok {
			op := "EAdd"
			if x.Tok == token.DEC {
				op = "ESub"
			}
			return "(SAssign " + coqStr(id.Name) + " (" + op + " (EVar " + coqStr(id.Name) + ") (EConst 1)))"
		}
	case *ast.BlockStmt:
		return c12Block(x.List, where)
	case *ast.IfStmt:
		init := "SSkip"
		if x.Init != nil {
			init = c12Stmt(x.Init, where)
		}
		be, ok := x.Cond.(*ast.BinaryExpr)
		cmps := map[token.Token]string{token.EQL: "CEq", token.NEQ: "CNe", token.LSS: "CLt", token.LEQ: "CLe", token.GTR: "CGt", token.GEQ: "CGe"}
		if ok {
			if c, ok := cmps[be.Op]; ok {
				els := "SSkip"
				if x.Else != nil {
					els = c12Stmt(x.Else, where)
				}
				return "(SIf " + init + " " + c + " " + c12Expr(be.X, where) + " " + c12Expr(be.Y, where) + " " + c12Block(x.Body.List, where) + " " + els + ")"
			}
		}
	}
	fail("%s: statement %q is outside the translated fragment", where, strings.Join(strings.Fields(exprText(s)), " "))
	return "SSkip"
}

// contains a call <x>.Seek(<ident>, io.SeekStart)? returns the ident
func c12SeekTarget(n ast.Node) string {
	res := ""
	ast.Inspect(n, func(m ast.Node) bool {
		c, ok := m.(*ast.CallExpr)
		if !ok || res != "" {
			return true
		}
		se, ok := c.Fun.(*ast.SelectorExpr)
		if !ok || se.Sel.Name != "Seek" || len(c.Args) != 2 || exprText(c.Args[1]) != "io.SeekStart" {
			return true
		}
		if id, ok := c.Args[0].(*ast.Ident); ok {
			res = id.Name
		}
		return true
	})
	return res
}

func c12StrList(ss []string) string {
	it := make([]string, len(ss))
	for i, s := range ss {
		it[i] = coqStr(s)
	}
	return "[" + strings.Join(it, "; ") + "]"
}

func c12Pairs(ps [][2]string) string {
	it := make([]string, len(ps))
	for i, p := range ps {
		it[i] = "(" + coqStr(p[0]) + ", " + coqStr(p[1]) + ")"
	}
	return "[" + strings.Join(it, "; ") + "]"
}

// assignments `<m>["lit"] = rhs` inside fd, in source order
func c12MapStores(fd *ast.FuncDecl, m string) (res [][2]string) {
	if fd == nil {
		return nil
	}
	ast.Inspect(fd, func(n ast.Node) bool {
		as, ok := n.(*ast.AssignStmt)
		if !ok || len(as.Lhs) != 1 || len(as.Rhs) != 1 {
			return true
		}
		ix, ok := as.Lhs[0].(*ast.IndexExpr)
		if !ok || exprText(ix.X) != m {
			return true
		}
		if k, ok := strLit(ix.Index); ok {
			rhs := exprText(as.Rhs[0])
			// <t>.Format("2006-01-02T15:04:05Z07:00") is <t>.Format(time.RFC3339) spelled out
			if ce, ok := as.Rhs[0].(*ast.CallExpr); ok && len(ce.Args) == 1 {
				if se, ok := ce.Fun.(*ast.SelectorExpr); ok && se.Sel.Name == "Format" {
					if lit, ok := strLit(ce.Args[0]); ok && lit == "2006-01-02T15:04:05Z07:00" {
						rhs = exprText(se.X) + ".Format(time.RFC3339)"
					}
				}
			}
			res = append(res, [2]string{k, rhs})
		}
		return true
	})
	return res
}

// c12ScanLoop translates the header scan loop of BuildIndex (list[loop]) into
// Base.C12Lib.scan_op's, in source order, and records whether the file is
// rewound to its start between MultiWrite and the loop and read through an
// unbuffered tar.NewReader(f) on the file whose position the loop asks for.
func c12ScanLoop(g *gen, rel string, list []ast.Stmt, loop int) {
	fs := list[loop].(*ast.ForStmt)
	where := rel + ":BuildIndex scan loop"
	if fs.Init != nil || fs.Cond != nil || fs.Post != nil {
		fail("%s: the loop has a header (%s); expected `for { … }`", where, strings.Join(strings.Fields(exprText(fs)), " ")[:40])
		return
	}
	// the reader: <tr> := tar.NewReader(<f>) before the loop
	trVar, fVar := "", ""
	rewinds := false
	afterWrite := false
	for _, s := range list[:loop] {
		txt := strings.Join(strings.Fields(exprText(s)), " ")
		if strings.Contains(txt, "MultiWrite(") {
			afterWrite, rewinds = true, false
		}
		if as, ok := s.(*ast.AssignStmt); ok && len(as.Lhs) == 1 && len(as.Rhs) == 1 {
			if ce, ok := as.Rhs[0].(*ast.CallExpr); ok && exprText(ce.Fun) == "tar.NewReader" && len(ce.Args) == 1 {
				if id, ok := as.Lhs[0].(*ast.Ident); ok {
					if a, ok := ce.Args[0].(*ast.Ident); ok {
						trVar, fVar = id.Name, a.Name
					} else {
						fail("%s: tar.NewReader(%s): the reader is not put directly on the file", where, exprText(ce.Args[0]))
					}
				}
			}
		}
		if afterWrite && strings.Contains(txt, ".Seek(0, io.SeekStart)") {
			rewinds = true
		}
	}
	if trVar == "" {
		fail("%s: no `tr := tar.NewReader(f)` before the loop", where)
		return
	}
	var ops []string
	hdrVar := ""
	mentions := func(txt string, names ...string) bool {
		for _, n := range names {
			if n != "" && regexp.MustCompile(`\b`+regexp.QuoteMeta(n)+`\b`).MatchString(txt) {
				return true
			}
		}
		return false
	}
	posVar, sizeVar := "", ""
	for _, s := range fs.Body.List {
		txt := strings.Join(strings.Fields(exprText(s)), " ")
		switch x := s.(type) {
		case *ast.AssignStmt:
			if len(x.Rhs) == 1 {
				r := exprText(x.Rhs[0])
				id, isId := x.Lhs[0].(*ast.Ident)
				switch {
				case r == trVar+".Next()" && isId && len(x.Lhs) == 2:
					hdrVar = id.Name
					ops = append(ops, "OpNext")
					continue
				case r == fVar+".Seek(0, io.SeekCurrent)" && isId && len(x.Lhs) == 2:
					posVar = id.Name
					ops = append(ops, "(OpPos "+coqStr(id.Name)+")")
					continue
				case hdrVar != "" && r == hdrVar+".Size" && isId && len(x.Lhs) == 1:
					sizeVar = id.Name
					ops = append(ops, "(OpSize "+coqStr(id.Name)+")")
					continue
				}
			}
		case *ast.IfStmt:
			if x.Init == nil && x.Else == nil {
				c := strings.Join(strings.Fields(exprText(x.Cond)), " ")
				if (c == "errors.Is(err, io.EOF)" || c == "err == io.EOF") && len(x.Body.List) == 1 {
					if b, ok := x.Body.List[0].(*ast.BranchStmt); ok && b.Tok == token.BREAK && b.Label == nil {
						ops = append(ops, "OpBreakEOF")
						continue
					}
				}
				if c == "err != nil" && len(x.Body.List) >= 1 {
					if _, ok := x.Body.List[len(x.Body.List)-1].(*ast.ReturnStmt); ok {
						ops = append(ops, "OpReturnErr")
						continue
					}
				}
			}
		}
		if mentions(txt, trVar, fVar, hdrVar, posVar, sizeVar, "err", "break", "continue", "return", "goto") {
			fail("%s: statement %q is outside the translated fragment", where, txt)
		}
		// anything else (logging, counters) does not touch the reader, the file or the two variables
	}
	g.def("scan_body", "list scan_op", "["+strings.Join(ops, "; ")+"]", "body of the header scan loop of BuildIndex at "+g.pos(fs)+" (reader "+trVar+" on file "+fVar+")")
	g.def("scan_rewinds", "bool", coqBool(rewinds), "the file is rewound with "+fVar+".Seek(0, io.SeekStart) between MultiWrite and the scan loop")
}

func genC12() {
	g := newGen("C12Oci", "From Apko Require Import Base.Prelude Base.C12Lib.\nOpen Scope string_scope. Open Scope list_scope.")

	// ---- BuildIndex: the append-offset arithmetic --------------------------
	const relIdx = "pkg/build/oci/index.go"
	if fd := findFunc(relIdx, "", "BuildIndex"); fd != nil {
		list := fd.Body.List
		loop := -1
		posVar, sizeVar := "", ""
		for i, s := range list {
			fs, ok := s.(*ast.ForStmt)
			if !ok {
				continue
			}
			hasNext := false
			ast.Inspect(fs, func(n ast.Node) bool {
				switch x := n.(type) {
				case *ast.CallExpr:
					if se, ok := x.Fun.(*ast.SelectorExpr); ok && se.Sel.Name == "Next" {
						hasNext = true
					}
				case *ast.AssignStmt:
					if len(x.Rhs) == 1 && len(x.Lhs) >= 1 {
						id, isId := x.Lhs[0].(*ast.Ident)
						r := exprText(x.Rhs[0])
						if isId && strings.HasSuffix(r, ".Seek(0, io.SeekCurrent)") {
							posVar = id.Name
						}
						if isId && strings.HasSuffix(r, ".Size") {
							sizeVar = id.Name
						}
					}
				}
				return true
			})
			if hasNext {
				loop = i
				break
			}
		}
		if loop < 0 || posVar == "" || sizeVar == "" {
			fail("%s: BuildIndex: header scan loop (tr.Next / Seek(0, io.SeekCurrent) / hdr.Size) not found", relIdx)
		} else {
			var prog []string
			outVar := ""
			var first, last ast.Node
			for _, s := range list[loop+1:] {
				if v := c12SeekTarget(s); v != "" {
					outVar = v
					last = s
					break
				}
				if first == nil {
					first = s
				}
				prog = append(prog, c12Stmt(s, relIdx+":BuildIndex"))
			}
			if outVar == "" {
				fail("%s: BuildIndex: no Seek(<offset>, io.SeekStart) after the header scan loop", relIdx)
			}
			g.def("pad_pos_var", "string", coqStr(posVar), "variable holding the stream position after the last header (f.Seek(0, io.SeekCurrent))")
			g.def("pad_size_var", "string", coqStr(sizeVar), "variable holding the last member's size (hdr.Size)")
			g.def("pad_out_var", "string", coqStr(outVar), "offset handed to f.Seek(_, io.SeekStart) at "+g.pos(last))
			g.def("pad_program", "stmt", c12Seq(prog), "statements of BuildIndex from "+g.pos(first)+" up to that Seek")
			c12ScanLoop(g, relIdx, list, loop)
		}
		if e := findValueIn(fd, "blockSize"); e != nil {
			if v, ok := intLit(e); ok {
				g.def("block_size", "Z", fmt.Sprintf("(%d)%%Z", v), "const blockSize in BuildIndex at "+g.pos(e))
			} else {
				fail("%s: blockSize is not an integer literal", relIdx)
			}
		} else {
			fail("%s: BuildIndex: no const blockSize", relIdx)
		}
	}
	// does the per-manifest loop of BuildIndex look at Platform.Variant when it builds the tag key?
	if fd := findFunc(relIdx, "", "BuildIndex"); fd != nil {
		usesVariant, seenLoop := false, false
		ast.Inspect(fd, func(n ast.Node) bool {
			rs, ok := n.(*ast.RangeStmt)
			if !ok || !strings.HasSuffix(exprText(rs.X), ".Manifests") {
				return true
			}
			seenLoop = true
			ast.Inspect(rs.Body, func(m ast.Node) bool {
				if se, ok := m.(*ast.SelectorExpr); ok && se.Sel.Name == "Variant" {
					usesVariant = true
				}
				return true
			})
			return false
		})
		if !seenLoop {
			fail("%s: BuildIndex: loop over manifest.Manifests not found", relIdx)
		}
		g.def("bundle_key_includes_variant", "bool", fmt.Sprint(usesVariant), "BuildIndex's tag key for an image mentions m.Platform.Variant (false: finding C12-F1)")
	}
	fdGen := findFunc(relIdx, "", "generateIndexWithMediaType")
	g.def("index_annotation_stores", "list (string * string)", c12Pairs(c12MapStores(fdGen, "annCopy")), "annCopy[\"key\"] = value stores of generateIndexWithMediaType, in source order")
	if len(c12MapStores(fdGen, "annCopy")) == 0 {
		fail("%s: generateIndexWithMediaType: no annCopy[...] stores", relIdx)
	}

	// ---- BuildImageFromLayers ----------------------------------------------
	const relImg = "pkg/build/oci/image.go"
	fdImg := findFunc(relImg, "", "BuildImageFromLayers")
	if fdImg != nil {
		var defEnv [][2]string
		var defNode ast.Node
		envFmt, sep := "", ""
		rangeKV := map[string]bool{}
		var shell []string
		var shellNode ast.Node
		var lits [][2]string
		ast.Inspect(fdImg, func(n ast.Node) bool {
			switch x := n.(type) {
			case *ast.RangeStmt:
				// a loop with key and value (the one that renders the environment is among them), whatever the names
				if x.Key != nil && x.Value != nil {
					rangeKV[exprText(x.Key)+"\x00"+exprText(x.Value)] = true
				}
				if cl, ok := x.X.(*ast.CompositeLit); ok && defEnv == nil {
					if _, isMap := cl.Type.(*ast.MapType); isMap {
						defNode = x
						for _, el := range cl.Elts {
							kv, ok := el.(*ast.KeyValueExpr)
							if !ok {
								continue
							}
							k, ok1 := strLit(kv.Key)
							v, ok2 := strLit(kv.Value)
							if !ok1 || !ok2 {
								fail("%s: default env entry is not a pair of literals", relImg)
								continue
							}
							defEnv = append(defEnv, [2]string{k, v})
						}
					}
				}
			case *ast.BinaryExpr:
				// `k + "=" + v` for `fmt.Sprintf("%s=%s", k, v)` (both operands are strings: keys and values of a map[string]string)
				if f, args, ok := concatAsFormat(x); ok && len(args) == 2 && rangeKV[args[0]+"\x00"+args[1]] && envFmt == "" {
					envFmt = f
				}
			case *ast.CallExpr:
				t := exprText(x.Fun)
				if t == "fmt.Sprintf" && len(x.Args) == 3 && rangeKV[exprText(x.Args[1])+"\x00"+exprText(x.Args[2])] {
					if s, ok := strLit(x.Args[0]); ok {
						envFmt = s
					}
				}
				if t == "strings.Cut" && len(x.Args) == 2 && strings.Contains(exprText(x.Args[0]), "VCSUrl") {
					if s, ok := strLit(x.Args[1]); ok {
						sep = s
					}
				}
			case *ast.CompositeLit:
				if exprText(x.Type) == "[]string" && len(x.Elts) > 0 && strings.Contains(exprText(x.Elts[len(x.Elts)-1]), "ShellFragment") {
					shellNode = x
					for _, el := range x.Elts[:len(x.Elts)-1] {
						s, ok := strLit(el)
						if !ok {
							fail("%s: shell entrypoint prefix element is not a literal", relImg)
						}
						shell = append(shell, s)
					}
				}
			case *ast.AssignStmt:
				if len(x.Lhs) == 1 && len(x.Rhs) == 1 && strings.HasPrefix(exprText(x.Lhs[0]), "cfg.") {
					if s, ok := strLit(x.Rhs[0]); ok {
						lits = append(lits, [2]string{exprText(x.Lhs[0]), s})
					}
				}
			}
			return true
		})
		if defEnv == nil {
			fail("%s: BuildImageFromLayers: default environment map literal not found", relImg)
		}
		if envFmt == "" {
			fail("%s: BuildImageFromLayers: fmt.Sprintf(<fmt>, k, v) not found", relImg)
		}
		if len(sep) != 1 {
			fail("%s: BuildImageFromLayers: strings.Cut(ic.VCSUrl, <one byte>) not found", relImg)
			sep = "@"
		}
		if shell == nil {
			fail("%s: BuildImageFromLayers: []string{..., ic.Entrypoint.ShellFragment} not found", relImg)
		}
		g.def("default_env", "list (string * string)", c12Pairs(defEnv), "defaults ranged over at "+g.pos(defNode))
		g.def("env_entry_format", "string", coqStr(envFmt), "fmt.Sprintf format of one Env entry")
		g.def("vcs_separator", "ascii", fmt.Sprintf("(ascii_of_N %d)", sep[0]), fmt.Sprintf("strings.Cut(ic.VCSUrl, %q)", sep))
		g.def("shell_entrypoint_prefix", "list string", c12StrList(shell), "prefix of the shell-fragment entrypoint at "+g.pos(shellNode))
		g.def("config_literals", "list (string * string)", c12Pairs(lits), "cfg.<field> = \"literal\" assignments")
		st := c12MapStores(fdImg, "annotations")
		if len(st) == 0 {
			fail("%s: BuildImageFromLayers: no annotations[...] stores", relImg)
		}
		g.def("image_annotation_stores", "list (string * string)", c12Pairs(st), "annotations[\"key\"] = value stores, in source order")
	}

	// ---- BuildImageFromLayers: one history entry per layer -----------------------
	if fdImg != nil {
		single, multi, thr := "", "", int64(-1)
		haveSingle, haveMulti := false, false
		var hist [][2]string
		histCreated := ""
		ast.Inspect(fdImg, func(n ast.Node) bool {
			switch x := n.(type) {
			case *ast.AssignStmt:
				if len(x.Lhs) == 1 && len(x.Rhs) == 1 && exprText(x.Lhs[0]) == "comment" && x.Tok == token.DEFINE {
					if v, ok := strLit(x.Rhs[0]); ok {
						single, haveSingle = v, true
					}
				}
			case *ast.IfStmt:
				be, ok := x.Cond.(*ast.BinaryExpr)
				if !ok || be.Op != token.GTR || exprText(be.X) != "len(layers)" || x.Else != nil || x.Init != nil {
					return true
				}
				for _, st := range x.Body.List {
					if as, ok := st.(*ast.AssignStmt); ok && len(as.Lhs) == 1 && exprText(as.Lhs[0]) == "comment" && as.Tok == token.ASSIGN {
						if v, ok := strLit(as.Rhs[0]); ok {
							if t, ok := intLit(be.Y); ok {
								multi, haveMulti, thr = v, true, t
							}
						}
					}
				}
			case *ast.CompositeLit:
				if exprText(x.Type) != "v1.History" {
					return true
				}
				for _, el := range x.Elts {
					kv, ok := el.(*ast.KeyValueExpr)
					if !ok {
						continue
					}
					k := exprText(kv.Key)
					if v, ok := strLit(kv.Value); ok {
						hist = append(hist, [2]string{k, v})
					} else if k == "Created" {
						histCreated = strings.Join(strings.Fields(exprText(kv.Value)), "")
					} else {
						hist = append(hist, [2]string{k, "<" + exprText(kv.Value) + ">"})
					}
				}
			}
			return true
		})
		if !haveSingle || !haveMulti {
			fail("%s: BuildImageFromLayers: `comment := <literal>` / `if len(layers) > N { comment = <literal> }` not found", relImg)
		}
		if hist == nil {
			fail("%s: BuildImageFromLayers: v1.History{...} literal not found", relImg)
		}
		if histCreated != "v1.Time{Time:created}" {
			fail("%s: BuildImageFromLayers: History.Created is %q, expected v1.Time{Time: created}", relImg, histCreated)
		}
		cfgCreated := ""
		ast.Inspect(fdImg, func(n ast.Node) bool {
			if as, ok := n.(*ast.AssignStmt); ok && len(as.Lhs) == 1 && len(as.Rhs) == 1 && exprText(as.Lhs[0]) == "cfg.Created" {
				cfgCreated = strings.Join(strings.Fields(exprText(as.Rhs[0])), "")
			}
			return true
		})
		if cfgCreated != "v1.Time{Time:created}" {
			fail("%s: BuildImageFromLayers: cfg.Created is assigned %q, expected v1.Time{Time: created}", relImg, cfgCreated)
		}
		g.def("history_single_layer_comment", "string", coqStr(single), "comment := <literal> in BuildImageFromLayers")
		g.def("history_multi_layer_comment", "string", coqStr(multi), "comment = <literal> when len(layers) > history_multi_layer_threshold")
		g.def("history_multi_layer_threshold", "nat", fmt.Sprintf("%d", thr), "if len(layers) > N")
		g.def("history_literals", "list (string * string)", c12Pairs(hist), "fields of the v1.History literal appended per layer (<x> = the variable x); Created is v1.Time{Time: created}, as is cfg.Created")
	}

	// ---- ImageConfiguration.Validate: the service-bundle entrypoint -----------------
	{
		const relCfg = "pkg/build/types/image_configuration.go"
		typ, cmd := "", ""
		if fd := findFunc(relCfg, "ImageConfiguration", "Validate"); fd != nil {
			ast.Inspect(fd, func(n ast.Node) bool {
				is, ok := n.(*ast.IfStmt)
				if !ok {
					return true
				}
				be, ok := is.Cond.(*ast.BinaryExpr)
				if !ok || be.Op != token.EQL || exprText(be.X) != "ic.Entrypoint.Type" {
					return true
				}
				if v, ok := strLit(be.Y); ok && strings.Contains(exprText(is.Body), "ic.ValidateServiceBundle()") {
					typ = v
				}
				return true
			})
		}
		nAssign := 0
		if fd := findFunc(relCfg, "ImageConfiguration", "ValidateServiceBundle"); fd != nil {
			for _, st := range fd.Body.List {
				as, ok := st.(*ast.AssignStmt)
				if !ok || len(as.Lhs) != 1 || len(as.Rhs) != 1 {
					continue
				}
				l := exprText(as.Lhs[0])
				if strings.HasPrefix(l, "ic.Entrypoint.") {
					nAssign++
					if v, ok := strLit(as.Rhs[0]); ok && l == "ic.Entrypoint.Command" {
						cmd = v
					}
				}
			}
		}
		if typ == "" || cmd == "" || nAssign != 1 {
			fail("%s: Validate / ValidateServiceBundle: `if ic.Entrypoint.Type == <literal> { … ic.ValidateServiceBundle() }` and a single `ic.Entrypoint.Command = <literal>` not found", relCfg)
		}
		g.def("service_bundle_type", "string", coqStr(typ), "entrypoint type for which Validate calls ValidateServiceBundle")
		g.def("service_bundle_command", "string", coqStr(cmd), "ic.Entrypoint.Command set by ValidateServiceBundle")
	}

	// ---- build.WithAnnotations: which side is written LAST into the map the build uses ----
	{
		const relOpt = "pkg/build/options.go"
		const cfgMap, clMap = "bc.ic.Annotations", "annotations"
		if fd := findFunc(relOpt, "", "WithAnnotations"); fd != nil {
			writes := map[string][]string{cfgMap: {cfgMap}} // map expression -> sources written into it, in order
			final := cfgMap
			known := true
			var walk func(list []ast.Stmt)
			add := func(dst, src string) {
				if _, ok := writes[dst]; !ok {
					writes[dst] = nil
				}
				writes[dst] = append(writes[dst], writes[src]...)
				if _, isMap := writes[src]; !isMap {
					writes[dst] = append(writes[dst], src)
				}
			}
			writes[clMap] = []string{clMap}
			walk = func(list []ast.Stmt) {
				for _, st := range list {
					switch x := st.(type) {
					case *ast.ReturnStmt:
						if len(x.Results) == 1 {
							if fl, ok := x.Results[0].(*ast.FuncLit); ok {
								walk(fl.Body.List)
							}
						}
					case *ast.IfStmt: // `if m == nil { m = make(...) }` allocations only
						for _, b := range x.Body.List {
							as, ok := b.(*ast.AssignStmt)
							if !ok || len(as.Rhs) != 1 || !strings.HasPrefix(exprText(as.Rhs[0]), "make(") || x.Else != nil {
								known = false
							}
						}
					case *ast.RangeStmt:
						src := exprText(x.X)
						for _, b := range x.Body.List {
							as, ok := b.(*ast.AssignStmt)
							if !ok || len(as.Lhs) != 1 {
								known = false
								continue
							}
							ix, ok := as.Lhs[0].(*ast.IndexExpr)
							if !ok || exprText(ix.Index) != exprText(x.Key) || exprText(as.Rhs[0]) != exprText(x.Value) {
								known = false
								continue
							}
							add(exprText(ix.X), src)
						}
					case *ast.AssignStmt:
						if len(x.Lhs) != 1 || len(x.Rhs) != 1 {
							known = false
							continue
						}
						l, r := exprText(x.Lhs[0]), exprText(x.Rhs[0])
						if ce, ok := x.Rhs[0].(*ast.CallExpr); ok && exprText(ce.Fun) == "maps.Clone" && len(ce.Args) == 1 {
							writes[l] = nil
							add(l, exprText(ce.Args[0]))
						} else if _, isMap := writes[r]; isMap {
							writes[l] = append([]string{}, writes[r]...)
						} else if strings.HasPrefix(r, "make(") {
							writes[l] = nil
						} else {
							known = false
						}
						_ = final
					case *ast.ExprStmt:
						if ce, ok := x.X.(*ast.CallExpr); ok && exprText(ce.Fun) == "maps.Copy" && len(ce.Args) == 2 {
							add(exprText(ce.Args[0]), exprText(ce.Args[1]))
						} else {
							known = false
						}
					default:
						known = false
					}
				}
			}
			walk(fd.Body.List)
			ws := writes[cfgMap]
			last := ""
			for _, w := range ws {
				if w == cfgMap || w == clMap {
					last = w
				}
			}
			seenCl := false
			for _, w := range ws {
				if w == clMap {
					seenCl = true
				}
			}
			if !known || !seenCl || last == "" {
				fail("%s: WithAnnotations: cannot tell in which order %s and %s are written into the build's annotation map (writes: %v)", relOpt, cfgMap, clMap, ws)
			}
			g.def("annotations_cmdline_wins", "bool", fmt.Sprint(last == clMap), "build.WithAnnotations writes the command-line annotations AFTER the configuration's into the map the build uses (writes in order: "+strings.Join(ws, ", ")+")")
		}
	}

	// does the copy BuildImageFromLayers works on carry VCSUrl?
	{
		const relCfg = "pkg/build/types/image_configuration.go"
		copies := false
		scan := func(fd *ast.FuncDecl, lhs string) {
			if fd == nil {
				return
			}
			ast.Inspect(fd, func(n ast.Node) bool {
				if as, ok := n.(*ast.AssignStmt); ok {
					for _, l := range as.Lhs {
						if exprText(l) == lhs {
							copies = true
						}
					}
				}
				return true
			})
		}
		scan(findFunc(relCfg, "ImageConfiguration", "MergeInto"), "target.VCSUrl")
		scan(fdImg, "ic.VCSUrl")
		g.def("merge_into_copies_vcs_url", "bool", fmt.Sprint(copies), "ImageConfiguration.MergeInto assigns target.VCSUrl (or BuildImageFromLayers assigns ic.VCSUrl); false: finding C12-F2")
	}

	// ---- architectures -------------------------------------------------------
	const relT = "pkg/build/types/types.go"
	archConst := func(name string) (string, bool) {
		f := load(relT)
		if f == nil {
			return "", false
		}
		for _, d := range f.Decls {
			gd, ok := d.(*ast.GenDecl)
			if !ok || gd.Tok != token.VAR {
				continue
			}
			for _, sp := range gd.Specs {
				vs := sp.(*ast.ValueSpec)
				for i, id := range vs.Names {
					if id.Name == name && i < len(vs.Values) {
						if c, ok := vs.Values[i].(*ast.CallExpr); ok && exprText(c.Fun) == "Architecture" && len(c.Args) == 1 {
							return strLit(c.Args[0])
						}
					}
				}
			}
		}
		return "", false
	}
	resolve := func(e ast.Expr, what string) string {
		if s, ok := strLit(e); ok {
			return s
		}
		if id, ok := e.(*ast.Ident); ok {
			if s, ok := archConst(id.Name); ok {
				return s
			}
		}
		fail("%s: %s: cannot resolve %q to an architecture string", relT, what, exprText(e))
		return "?"
	}
	// AllArchs
	if e := findValue(relT, "AllArchs"); e != nil {
		cl, ok := e.(*ast.CompositeLit)
		if !ok {
			fail("%s: AllArchs is not a composite literal", relT)
		} else {
			var all []string
			for _, el := range cl.Elts {
				all = append(all, resolve(el, "AllArchs"))
			}
			g.def("all_archs", "list string", c12StrList(all), "AllArchs at "+g.pos(e))
		}
	}
	// the first switch statement of a function; cases -> values; default kind
	type sw struct {
		cases   [][]string   // resolved case labels per clause
		bodies  [][]ast.Stmt // clause bodies
		deflt   []ast.Stmt
		node    ast.Node
		tagText string
		initTxt string
	}
	firstSwitch := func(fd *ast.FuncDecl, what string) *sw {
		if fd == nil {
			return nil
		}
		var s *ast.SwitchStmt
		ast.Inspect(fd, func(n ast.Node) bool {
			if x, ok := n.(*ast.SwitchStmt); ok && s == nil {
				s = x
			}
			return s == nil
		})
		if s == nil || s.Tag == nil {
			fail("%s: %s: no switch with a tag", relT, what)
			return nil
		}
		r := &sw{node: s, tagText: exprText(s.Tag)}
		if s.Init != nil {
			r.initTxt = strings.Join(strings.Fields(exprText(s.Init)), " ")
		}
		for _, c := range s.Body.List {
			cc := c.(*ast.CaseClause)
			if cc.List == nil {
				r.deflt = cc.Body
				continue
			}
			var ls []string
			for _, e := range cc.List {
				ls = append(ls, resolve(e, what))
			}
			r.cases = append(r.cases, ls)
			r.bodies = append(r.bodies, cc.Body)
		}
		return r
	}
	retOf := func(body []ast.Stmt) ast.Expr {
		if len(body) == 1 {
			if rs, ok := body[0].(*ast.ReturnStmt); ok && len(rs.Results) == 1 {
				return rs.Results[0]
			}
		}
		return nil
	}
	// ParseArchitecture: switch s { case "x86": return _386 ... }; return Architecture(s)
	fdP := findFunc(relT, "", "ParseArchitecture")
	if s := firstSwitch(fdP, "ParseArchitecture"); s != nil {
		var tab [][2]string
		if s.tagText != "s" || s.initTxt != "" || s.deflt != nil {
			fail("%s: ParseArchitecture: switch shape changed (tag %q init %q default %v)", relT, s.tagText, s.initTxt, s.deflt != nil)
		}
		for i, ls := range s.cases {
			r := retOf(s.bodies[i])
			if r == nil {
				fail("%s: ParseArchitecture: case %v does not return a single value", relT, ls)
				continue
			}
			v := resolve(r, "ParseArchitecture")
			for _, l := range ls {
				tab = append(tab, [2]string{l, v})
			}
		}
		lastStmt := fdP.Body.List[len(fdP.Body.List)-1]
		if r := retOf([]ast.Stmt{lastStmt}); r == nil || exprText(r) != "Architecture(s)" {
			fail("%s: ParseArchitecture: fallthrough is not `return Architecture(s)`", relT)
		}
		g.def("parse_arch_table", "list (string * string)", c12Pairs(tab), "switch of ParseArchitecture at "+g.pos(s.node)+"; any other string is returned unchanged")
	}
	// switch header by shape: `switch <id> := ParseArchitecture(<receiver>.String()); <id> {`; returns <id>
	// (the local may shadow the receiver or have any other name)
	canonLocal := func(fd *ast.FuncDecl, s *sw, what string) string {
		bad := func() string {
			fail("%s: %s: switch header changed (init %q tag %q)", relT, what, s.initTxt, s.tagText)
			return s.tagText
		}
		if fd == nil || fd.Recv == nil || len(fd.Recv.List) != 1 || len(fd.Recv.List[0].Names) != 1 {
			return bad()
		}
		recv := fd.Recv.List[0].Names[0].Name
		ss := s.node.(*ast.SwitchStmt)
		as, ok := ss.Init.(*ast.AssignStmt)
		if !ok || as.Tok != token.DEFINE || len(as.Lhs) != 1 || len(as.Rhs) != 1 {
			return bad()
		}
		id, ok := as.Lhs[0].(*ast.Ident)
		tag, ok2 := ss.Tag.(*ast.Ident)
		if !ok || !ok2 || tag.Name != id.Name {
			return bad()
		}
		if strings.Join(strings.Fields(exprText(as.Rhs[0])), "") != "ParseArchitecture("+recv+".String())" {
			return bad()
		}
		return id.Name
	}
	// ToAPK
	fdA := findFunc(relT, "Architecture", "ToAPK")
	if s := firstSwitch(fdA, "ToAPK"); s != nil {
		var tab [][2]string
		local := canonLocal(fdA, s, "ToAPK")
		for i, ls := range s.cases {
			r := retOf(s.bodies[i])
			v, ok := "", false
			if r != nil {
				v, ok = strLit(r)
			}
			if !ok {
				fail("%s: ToAPK: case %v does not return a string literal", relT, ls)
				continue
			}
			for _, l := range ls {
				tab = append(tab, [2]string{l, v})
			}
		}
		if r := retOf(s.deflt); r == nil || exprText(r) != "string("+local+")" {
			fail("%s: ToAPK: default is not `return string(a)`", relT)
		}
		g.def("to_apk_table", "list (string * string)", c12Pairs(tab), "switch of ToAPK at "+g.pos(s.node)+" (applied to ParseArchitecture(a)); default: the string itself")
	}
	// ToOCIPlatform, read by shape: a branch either assigns fields of ONE platform variable (defined from a
	// v1.Platform literal before the switch and returned after it; fields not mentioned keep the literal's
	// values) or returns a v1.Platform literal directly (fields not mentioned are empty)
	fdO := findFunc(relT, "Architecture", "ToOCIPlatform")
	if s := firstSwitch(fdO, "ToOCIPlatform"); s != nil {
		local := canonLocal(fdO, s, "ToOCIPlatform")
		type plat struct {
			os, arch, variant string
			archIsSelf        bool
		}
		platLit := func(e ast.Expr) (*ast.CompositeLit, bool) { // v1.Platform{...} or &v1.Platform{...}
			if ue, ok := e.(*ast.UnaryExpr); ok && ue.Op == token.AND {
				e = ue.X
			}
			cl, ok := e.(*ast.CompositeLit)
			return cl, ok && exprText(cl.Type) == "v1.Platform"
		}
		setField := func(p *plat, field string, val ast.Expr, what string) {
			v, isLit := strLit(val)
			switch {
			case field == "OS" && isLit:
				p.os = v
			case field == "Architecture" && isLit:
				p.arch, p.archIsSelf = v, false
			case field == "Architecture" && exprText(val) == "string("+local+")":
				p.arch, p.archIsSelf = "", true
			case field == "Variant" && isLit:
				p.variant = v
			default:
				fail("%s: ToOCIPlatform: %s: unexpected value for %s: %q", relT, what, field, exprText(val))
			}
		}
		fromLit := func(cl *ast.CompositeLit, what string) plat {
			var p plat
			for _, el := range cl.Elts {
				kv, ok := el.(*ast.KeyValueExpr)
				if !ok {
					fail("%s: ToOCIPlatform: %s: positional element in the v1.Platform literal", relT, what)
					continue
				}
				setField(&p, exprText(kv.Key), kv.Value, what)
			}
			return p
		}
		// the platform variable, if there is one: `<pv> := v1.Platform{...}` before the switch, `return &<pv>` after it
		pv, haveVar := "", false
		var dflt plat
		var trailer []ast.Stmt // statements between the switch and the end of the function
		seenSwitch := false
		for _, st := range fdO.Body.List {
			if st == s.node {
				seenSwitch = true
				continue
			}
			if seenSwitch {
				trailer = append(trailer, st)
				continue
			}
			as, ok := st.(*ast.AssignStmt)
			if ok && as.Tok == token.DEFINE && len(as.Lhs) == 1 && len(as.Rhs) == 1 {
				if cl, ok := platLit(as.Rhs[0]); ok {
					pv, haveVar = exprText(as.Lhs[0]), true
					dflt = fromLit(cl, "the literal before the switch")
					continue
				}
			}
			fail("%s: ToOCIPlatform: unexpected statement before the switch: %q", relT, exprText(st))
		}
		returnsVar := func(st ast.Stmt) bool {
			rs, ok := st.(*ast.ReturnStmt)
			if !ok || len(rs.Results) != 1 || !haveVar {
				return false
			}
			t := exprText(rs.Results[0])
			return t == "&"+pv || t == pv
		}
		// evaluate a branch body; ok=false when it falls out of the fragment
		branch := func(body []ast.Stmt, what string) (plat, bool) {
			p := dflt
			for i, st := range body {
				switch x := st.(type) {
				case *ast.AssignStmt:
					if haveVar && len(x.Lhs) == 1 && len(x.Rhs) == 1 && x.Tok == token.ASSIGN {
						if se, ok := x.Lhs[0].(*ast.SelectorExpr); ok && exprText(se.X) == pv {
							setField(&p, se.Sel.Name, x.Rhs[0], what)
							continue
						}
					}
				case *ast.ReturnStmt:
					if i == len(body)-1 && len(x.Results) == 1 {
						if cl, ok := platLit(x.Results[0]); ok {
							if i != 0 {
								fail("%s: ToOCIPlatform: %s: assignments followed by a literal return", relT, what)
							}
							return fromLit(cl, what), true
						}
						if returnsVar(st) {
							return p, true
						}
					}
				}
				fail("%s: ToOCIPlatform: %s: unexpected statement %q", relT, what, exprText(st))
				return p, false
			}
			// falls through to the statements after the switch
			for i, st := range trailer {
				if i == len(trailer)-1 && returnsVar(st) {
					return p, true
				}
				if rs, ok := st.(*ast.ReturnStmt); ok && i == len(trailer)-1 && len(rs.Results) == 1 && len(body) == 0 {
					if cl, ok := platLit(rs.Results[0]); ok {
						return fromLit(cl, what), true
					}
				}
				fail("%s: ToOCIPlatform: %s: unexpected statement after the switch %q", relT, what, exprText(st))
				return p, false
			}
			fail("%s: ToOCIPlatform: %s: the branch does not return a platform", relT, what)
			return p, false
		}
		var items []string
		osLit, osSet := "", false
		noteOS := func(p plat, what string) {
			if !osSet {
				osLit, osSet = p.os, true
			} else if p.os != osLit {
				fail("%s: ToOCIPlatform: %s: OS %q differs from the other branches' %q", relT, what, p.os, osLit)
			}
		}
		for i, ls := range s.cases {
			p, ok := branch(s.bodies[i], fmt.Sprint(ls))
			if !ok {
				continue
			}
			noteOS(p, fmt.Sprint(ls))
			if p.archIsSelf {
				fail("%s: ToOCIPlatform: case %v copies the architecture string (only the default may)", relT, ls)
			}
			for _, l := range ls {
				items = append(items, "("+coqStr(l)+", ("+coqStr(p.arch)+", "+coqStr(p.variant)+"))")
			}
		}
		// the default clause; without one, the default is what follows the switch
		if p, ok := branch(s.deflt, "default"); ok {
			noteOS(p, "default")
			if !p.archIsSelf || p.variant != "" {
				fail("%s: ToOCIPlatform: default is not `plat.Architecture = string(a)`", relT)
			}
		}
		g.def("oci_platform_table", "list (string * (string * string))", "["+strings.Join(items, "; ")+"]",
			"switch of ToOCIPlatform at "+g.pos(s.node)+" (applied to ParseArchitecture(a)): architecture -> (Architecture, Variant); default: (the string itself, \"\")")
		if osLit == "" {
			fail("%s: ToOCIPlatform: v1.Platform{OS: <literal>} not found", relT)
		}
		g.def("oci_platform_os", "string", coqStr(osLit), "v1.Platform{OS: ...} in ToOCIPlatform")
	}
	g.write()
}

// findValueIn: like findValue but restricted to one function.
func findValueIn(fd *ast.FuncDecl, name string) ast.Expr {
	var found ast.Expr
	ast.Inspect(fd, func(n ast.Node) bool {
		if found != nil {
			return false
		}
		if x, ok := n.(*ast.ValueSpec); ok {
			for i, id := range x.Names {
				if id.Name == name && i < len(x.Values) {
					found = x.Values[i]
				}
			}
		}
		return true
	})
	return found
}
