package main

import (
	"fmt"
	"go/ast"
	"go/token"
)

// c13CallArg: in fd, the first call whose selector name is sel (e.g. "MkdirAll");
// returns its idx-th argument.
func c13CallArg(fd *ast.FuncDecl, where, sel string, idx int) ast.Expr {
	if fd == nil {
		return nil
	}
	var found ast.Expr
	ast.Inspect(fd, func(n ast.Node) bool {
		if found != nil {
			return false
		}
		c, ok := n.(*ast.CallExpr)
		if !ok {
			return true
		}
		name := ""
		switch f := c.Fun.(type) {
		case *ast.SelectorExpr:
			name = f.Sel.Name
		case *ast.Ident:
			name = f.Name
		}
		if name == sel && idx < len(c.Args) {
			found = c.Args[idx]
		}
		return true
	})
	if found == nil {
		fail("%s: no call to %s with %d args", where, sel, idx+1)
	}
	return found
}

// c13AssignRHS: in fd, the first plain assignment whose left side prints as lhs.
func c13AssignRHS(fd *ast.FuncDecl, where, lhs string) ast.Expr {
	if fd == nil {
		return nil
	}
	var found ast.Expr
	ast.Inspect(fd, func(n ast.Node) bool {
		as, ok := n.(*ast.AssignStmt)
		if !ok || found != nil || as.Tok != token.ASSIGN || len(as.Lhs) != 1 || len(as.Rhs) != 1 {
			return true
		}
		if exprText(as.Lhs[0]) == lhs {
			found = as.Rhs[0]
		}
		return true
	})
	if found == nil {
		fail("%s: no assignment to %s", where, lhs)
	}
	return found
}

// c13CompareLit: in fd, the string literal compared (==) with the expression printing as lhs.
func c13CompareLit(fd *ast.FuncDecl, where, lhs string) (string, bool) {
	if fd == nil {
		return "", false
	}
	res, ok := "", false
	ast.Inspect(fd, func(n ast.Node) bool {
		be, isb := n.(*ast.BinaryExpr)
		if !isb || ok || be.Op != token.EQL || exprText(be.X) != lhs {
			return true
		}
		res, ok = strLit(be.Y)
		return true
	})
	if !ok {
		fail("%s: no comparison %s == <literal>", where, lhs)
	}
	return res, ok
}

// c13KeyedField: in fd, the value of field `key` in the first composite literal that has it.
func c13KeyedField(fd *ast.FuncDecl, where, key string) ast.Expr {
	if fd == nil {
		return nil
	}
	var found ast.Expr
	ast.Inspect(fd, func(n ast.Node) bool {
		kv, ok := n.(*ast.KeyValueExpr)
		if !ok || found != nil {
			return true
		}
		if id, ok := kv.Key.(*ast.Ident); ok && id.Name == key {
			found = kv.Value
		}
		return true
	})
	if found == nil {
		fail("%s: no composite literal field %s", where, key)
	}
	return found
}

func genC13() {
	g := newGen("C13Consts", "From Apko Require Import Base.Prelude.\nOpen Scope N_scope.")
	str := func(coq string, e ast.Expr, where string) {
		if e == nil {
			return
		}
		s, ok := strLit(e)
		if !ok {
			fail("%s: %s is not a string literal", where, coq)
			return
		}
		g.def(coq, "string", coqStr(s), where+" at "+g.pos(e))
	}
	num := func(coq string, e ast.Expr, where string) {
		if e == nil {
			return
		}
		v, ok := intLit(e)
		if !ok || v < 0 {
			fail("%s: %s is not an integer literal", where, coq)
			return
		}
		g.def(coq, "N", fmt.Sprintf("%d", v), where+" at "+g.pos(e))
	}

	const acc = "pkg/build/accounts.go"
	// The passwd.UserEntry / passwd.GroupEntry literals are found BY TYPE wherever they stand in accounts.go
	// (in the helpers userToUserEntry / appendGroup today, or inlined into mutateAccounts), and the defaults
	// by the shape of their statements in the function that holds the literal — never by helper or local names.
	ueLit, u2e := c13LitOfType(acc, "passwd.UserEntry")
	if ueLit == nil {
		fail("%s: no passwd.UserEntry composite literal", acc)
	}
	str("default_shell", c13FieldDefault(u2e, acc+":userToUserEntry", "Shell"), "default shell")
	if rhs := c13FieldDefault(u2e, acc+":userToUserEntry", "HomeDir"); rhs != nil {
		be, ok := rhs.(*ast.BinaryExpr)
		if !ok || be.Op != token.ADD || !c13IsField(be.Y, "UserName") {
			fail("%s: user.HomeDir default is not <literal> + user.UserName", acc)
		} else {
			str("home_prefix", be.X, "default home prefix")
		}
	}
	str("entry_password", c13LitField(ueLit, acc+":userToUserEntry", "Password"), "password field of created users")
	str("entry_info", c13LitField(ueLit, acc+":userToUserEntry", "Info"), "info field of created users")
	// gid := user.UID ... if user.GID != nil { gid = *user.GID }
	gidDefault := c13FindDefine(u2e, "gid")
	g.def("gid_defaults_to_uid", "bool", fmt.Sprint(gidDefault != nil && c13IsField(gidDefault, "UID")), "gid := user.UID in userToUserEntry")
	if gidDefault == nil || !c13IsField(gidDefault, "UID") {
		fail("%s: userToUserEntry no longer starts from gid := user.UID", acc)
	}
	geLit, _ := c13LitOfType(acc, "passwd.GroupEntry")
	if geLit == nil {
		fail("%s: no passwd.GroupEntry composite literal", acc)
	}
	str("group_password", c13LitField(geLit, acc+":appendGroup", "Password"), "password field of created groups")

	ma := findFunc(acc, "", "mutateAccounts")
	if s, ok := c13CompareLit(ma, acc+":mutateAccounts", "ue.HomeDir"); ok {
		g.def("no_home", "string", coqStr(s), "homeless marker compared with ue.HomeDir")
	}
	// fix 82f3aa3: the home path handed to Stat/Dir/Mkdir/Chown is filepath.Clean(ue.HomeDir)
	th := c13FindDefine(ma, "targetHomedir")
	if th == nil {
		fail("%s: mutateAccounts has no targetHomedir := ...", acc)
	} else {
		txt := exprText(th)
		if txt != "filepath.Clean(ue.HomeDir)" && txt != "ue.HomeDir" {
			fail("%s: targetHomedir is neither ue.HomeDir nor filepath.Clean(ue.HomeDir): %s", acc, txt)
		}
		g.def("home_is_cleaned", "bool", fmt.Sprint(txt == "filepath.Clean(ue.HomeDir)"), "targetHomedir := "+txt+" at "+g.pos(th))
	}
	num("home_parent_perm", c13CallArg(ma, acc+":mutateAccounts", "MkdirAll", 1), "mode of missing parents of a home")
	num("home_perm", c13CallArg(ma, acc+":mutateAccounts", "Mkdir", 1), "mode of a created home")

	const pth = "pkg/build/paths.go"
	epd := findFunc(pth, "", "ensureParentDirectory")
	num("mut_parent_perm", c13CallArg(epd, pth+":ensureParentDirectory", "MkdirAll", 1), "mode of missing parents of a mutated path")
	// mutateEmptyFile: target := filepath.Clean(mut.Path) (fix 10a6051) or mut.Path (was finding C13-F6)
	if tgt := c13FindDefine(findFunc(pth, "", "mutateEmptyFile"), "target"); tgt == nil {
		fail("%s: mutateEmptyFile has no target := ...", pth)
	} else {
		txt := exprText(tgt)
		if txt != "mut.Path" && txt != "filepath.Clean(mut.Path)" {
			fail("%s: mutateEmptyFile's target is neither mut.Path nor filepath.Clean(mut.Path): %s", pth, txt)
		}
		g.def("empty_file_path_cleaned", "bool", fmt.Sprint(txt == "filepath.Clean(mut.Path)"), "mutateEmptyFile: target := "+txt+" at "+g.pos(tgt))
	}
	// the mutator table
	if e := findValue(pth, "pathMutators"); e != nil {
		cl, ok := e.(*ast.CompositeLit)
		if !ok {
			fail("%s: pathMutators is not a composite literal", pth)
		} else {
			var items []string
			for _, el := range cl.Elts {
				kv, ok := el.(*ast.KeyValueExpr)
				if !ok {
					fail("%s: pathMutators element is not key: value", pth)
					continue
				}
				k, ok1 := strLit(kv.Key)
				if !ok1 {
					fail("%s: pathMutators key is not a literal", pth)
				}
				items = append(items, fmt.Sprintf("(%s, %s)", coqStr(k), coqStr(exprText(kv.Value))))
			}
			g.def("path_mutators", "list (string * string)", "["+c13JoinSemi(items)+"]", "pathMutators at "+g.pos(e))
		}
	}

	// passwd / group formats
	const pw = "pkg/passwd/passwd.go"
	const gr = "pkg/passwd/group.go"
	str("passwd_format", c13CallArg(findFunc(pw, "UserEntry", "Write"), pw+":UserEntry.Write", "Fprintf", 1), "UserEntry.Write format")
	str("group_format", c13CallArg(findFunc(gr, "GroupEntry", "Write"), gr+":GroupEntry.Write", "Fprintf", 1), "GroupEntry.Write format")
	str("passwd_sep", c13CallArg(findFunc(pw, "UserEntry", "Parse"), pw+":UserEntry.Parse", "Split", 1), "field separator in UserEntry.Parse")
	str("group_sep", c13CallArg(findFunc(gr, "GroupEntry", "Parse"), gr+":GroupEntry.Parse", "Split", 1), "field separator in GroupEntry.Parse")
	str("members_sep", c13CallArg(findFunc(gr, "GroupEntry", "Write"), gr+":GroupEntry.Write", "Join", 1), "member separator in GroupEntry.Write")
	num("passwd_open_perm", c13CallArg(findFunc(pw, "", "ReadOrCreateUserFile"), pw+":ReadOrCreateUserFile", "OpenFile", 2), "mode of a created etc/passwd")
	num("group_open_perm", c13CallArg(findFunc(gr, "", "ReadOrCreateGroupFile"), gr+":ReadOrCreateGroupFile", "OpenFile", 2), "mode of a created etc/group")
	for _, x := range []struct{ coq, rel, recv string }{{"passwd_fields", pw, "UserEntry"}, {"group_fields", gr, "GroupEntry"}} {
		fd := findFunc(x.rel, x.recv, "Parse")
		var lit ast.Expr
		if fd != nil {
			// the slice of fields: whatever local holds the result of strings.Split (its name does not matter)
			fields := ""
			ast.Inspect(fd, func(n ast.Node) bool {
				if as, ok := n.(*ast.AssignStmt); ok && fields == "" && len(as.Lhs) == 1 && len(as.Rhs) == 1 {
					if c, ok := as.Rhs[0].(*ast.CallExpr); ok && exprText(c.Fun) == "strings.Split" {
						fields = exprText(as.Lhs[0]) // the first split: the line into its fields
					}
				}
				return true
			})
			ast.Inspect(fd, func(n ast.Node) bool {
				be, ok := n.(*ast.BinaryExpr)
				if ok && lit == nil && be.Op == token.NEQ && exprText(be.X) == "len("+fields+")" {
					lit = be.Y
				}
				return true
			})
		}
		if lit == nil {
			fail("%s: %s.Parse has no len(parts) != <n> test", x.rel, x.recv)
		}
		num(x.coq, lit, "number of fields demanded by "+x.recv+".Parse")
	}

	// both in-memory filesystems: symlink nesting limit, Create's mode, Symlink's mode
	for _, x := range []struct{ pre, rel string }{{"memfs", "pkg/apk/fs/memfs.go"}, {"tarfs", "pkg/tarfs/fs.go"}} {
		num(x.pre+"_max_links", findValue(x.rel, "maxLinks"), "maxLinks")
		num(x.pre+"_create_perm", c13CallArg(findFunc(x.rel, "memFS", "Create"), x.rel+":Create", "OpenFile", 2), "mode given by Create")
	}

	// Validate's own copy of the home default
	const ic = "pkg/build/types/image_configuration.go"
	vf := findFunc(ic, "ImageConfiguration", "Validate")
	if rhs := c13AssignRHS(vf, ic+":Validate", "ic.Accounts.Users[i].HomeDir"); rhs != nil {
		be, ok := rhs.(*ast.BinaryExpr)
		if !ok || be.Op != token.ADD || exprText(be.Y) != "u.UserName" {
			fail("%s: Validate's HomeDir default is not <literal> + u.UserName", ic)
		} else {
			str("validate_home_prefix", be.X, "Validate's default home prefix")
		}
	}
	// which characters Validate refuses in which account field: the strings.ContainsAny(<expr>, <literal>)
	// tests inside Validate (fix 3dfd539, was finding C13-F5; none before)
	if vf != nil {
		var items []string
		ast.Inspect(vf, func(n ast.Node) bool {
			c, ok := n.(*ast.CallExpr)
			if !ok || exprText(c.Fun) != "strings.ContainsAny" || len(c.Args) != 2 {
				return true
			}
			lit, ok := strLit(c.Args[1])
			if !ok {
				fail("%s: Validate: strings.ContainsAny with a non-literal character set", ic)
				return true
			}
			items = append(items, fmt.Sprintf("(%s, %s)", coqStr(exprText(c.Args[0])), coqStr(lit)))
			return true
		})
		g.def("validate_forbidden", "list (string * string)", "["+c13JoinSemi(items)+"]", "strings.ContainsAny(field, chars) tests in Validate at "+g.pos(vf))
	}
	// the order of the filesystem-shaping steps of buildImage (after the packages are installed)
	const bi = "pkg/build/build_implementation.go"
	if fd := findFunc(bi, "Context", "buildImage"); fd == nil {
		fail("%s: buildImage not found", bi)
	} else {
		known := map[string]bool{"mutateAccounts": true, "WriteEtcApkoConfig": true, "mutatePaths": true, "WriteSupervisionTree": true, "installBusyboxLinks": true, "installCharDevices": true}
		var steps []string
		seen := map[string]int{}
		ast.Inspect(fd, func(n ast.Node) bool {
			c, ok := n.(*ast.CallExpr)
			if !ok {
				return true
			}
			name := ""
			switch f := c.Fun.(type) {
			case *ast.SelectorExpr:
				name = f.Sel.Name
			case *ast.Ident:
				name = f.Name
			}
			if known[name] {
				steps = append(steps, coqStr(name))
				seen[name]++
			}
			return true
		})
		for _, must := range []string{"mutateAccounts", "mutatePaths", "WriteEtcApkoConfig"} {
			if seen[must] != 1 {
				fail("%s: buildImage calls %s %d times (expected once)", bi, must, seen[must])
			}
		}
		// the guard of the accounts step: `if <cfg>.Contents.BaseImage == nil { ... mutateAccounts(...) ... }` — found by
		// shape (the innermost if whose body holds the call; the condition may be written either way round or through a
		// local boolean); no guard at all is reported as such, any other condition breaks the tie
		guard := "none"
		var stack []ast.Node
		ast.Inspect(fd, func(n ast.Node) bool {
			if n == nil {
				stack = stack[:len(stack)-1]
				return true
			}
			stack = append(stack, n)
			c, ok := n.(*ast.CallExpr)
			if !ok {
				return true
			}
			if id, ok := c.Fun.(*ast.Ident); !ok || id.Name != "mutateAccounts" {
				return true
			}
			for i := len(stack) - 1; i >= 0; i-- {
				is, ok := stack[i].(*ast.IfStmt)
				if !ok || i+1 >= len(stack) || stack[i+1] != ast.Node(is.Body) {
					continue // not in the then-branch of this if (e.g. the `if err := mutateAccounts(...)` itself)
				}
				cond := is.Cond
				if id, ok := cond.(*ast.Ident); ok {
					if d := c13FindDefine(fd, id.Name); d != nil {
						cond = d
					}
				}
				be, ok := cond.(*ast.BinaryExpr)
				x, y := ast.Expr(nil), ast.Expr(nil)
				if ok {
					x, y = be.X, be.Y
					if exprText(x) == "nil" {
						x, y = y, x
					}
				}
				if ok && be.Op == token.EQL && exprText(y) == "nil" && c13IsField(x, "BaseImage") {
					guard = "no-base-image"
				} else {
					fail("%s: buildImage: mutateAccounts is guarded by a condition that is not `<cfg>.Contents.BaseImage == nil`: %s", bi, exprText(is.Cond))
				}
				break
			}
			return true
		})
		g.def("accounts_skipped_with_base_image", "bool", fmt.Sprint(guard == "no-base-image"), "buildImage: mutateAccounts runs only when Contents.BaseImage == nil")
		g.def("build_image_steps", "list string", "["+c13JoinSemi(steps)+"]", "calls of buildImage in source order at "+g.pos(fd))
	}
	// fix 4aa2cd2: GroupEntry.Parse leaves Members nil for an empty member field (guard parts[3] != "")
	if fd := findFunc(gr, "GroupEntry", "Parse"); fd != nil {
		guarded := false
		ast.Inspect(fd, func(n ast.Node) bool {
			be, ok := n.(*ast.BinaryExpr)
			if ok && be.Op == token.NEQ && exprText(be.X) == "parts[3]" {
				if s, ok := strLit(be.Y); ok && s == "" {
					guarded = true
				}
			}
			return true
		})
		g.def("group_empty_members_nil", "bool", fmt.Sprint(guarded), "GroupEntry.Parse: an empty member field gives no members")
	}
	// tarfs: does truncating a file detach it from the tar entry that backs it?
	// (finding C13-F4 / fixes/C13-F4.patch: newMemFile's O_TRUNC branch then sets the entry's header.Size to 0)
	const tfs = "pkg/tarfs/fs.go"
	if fd := findFunc(tfs, "", "newMemFile"); fd == nil {
		fail("%s: newMemFile not found", tfs)
	} else {
		detaches := false
		ast.Inspect(fd, func(n ast.Node) bool {
			as, ok := n.(*ast.AssignStmt)
			if ok && len(as.Lhs) == 1 && len(exprText(as.Lhs[0])) >= 11 && exprText(as.Lhs[0])[len(exprText(as.Lhs[0]))-11:] == "header.Size" {
				if v, ok := intLit(as.Rhs[0]); ok && v == 0 {
					detaches = true
				}
			}
			return true
		})
		g.def("tarfs_trunc_detaches", "bool", fmt.Sprint(detaches), "newMemFile: O_TRUNC zeroes the backing entry's header.Size at "+g.pos(fd))
	}
	wc := findFunc(bi, "Context", "WriteEtcApkoConfig")
	str("apko_config_path", c13CallArg(wc, bi+":WriteEtcApkoConfig", "Create", 0), "file written by WriteEtcApkoConfig")
	num("apko_config_perm", c13CallArg(wc, bi+":WriteEtcApkoConfig", "Chmod", 1), "mode of etc/apko.json")
	g.write()
}

// c13LitOfType: the first composite literal of the given (printed) type in the file, with the function that holds it.
func c13LitOfType(rel, typ string) (*ast.CompositeLit, *ast.FuncDecl) {
	f := load(rel)
	if f == nil {
		return nil, nil
	}
	for _, d := range f.Decls {
		fd, ok := d.(*ast.FuncDecl)
		if !ok || fd.Body == nil {
			continue
		}
		var found *ast.CompositeLit
		ast.Inspect(fd, func(n ast.Node) bool {
			cl, ok := n.(*ast.CompositeLit)
			if ok && found == nil && cl.Type != nil && exprText(cl.Type) == typ {
				found = cl
			}
			return true
		})
		if found != nil {
			return found, fd
		}
	}
	return nil, nil
}

// c13LitField: the value of the keyed field in the literal.
func c13LitField(cl *ast.CompositeLit, where, key string) ast.Expr {
	if cl == nil {
		return nil
	}
	for _, el := range cl.Elts {
		if kv, ok := el.(*ast.KeyValueExpr); ok {
			if id, ok := kv.Key.(*ast.Ident); ok && id.Name == key {
				return kv.Value
			}
		}
	}
	fail("%s: no composite literal field %s", where, key)
	return nil
}

// c13IsField: e is <anything>.<field>
func c13IsField(e ast.Expr, field string) bool {
	se, ok := e.(*ast.SelectorExpr)
	return ok && se.Sel.Name == field
}

// c13FieldDefault: in fd, the right side of the first plain assignment `<x>.<field> = <rhs>`
// guarded by `if <x>.<field> == ""` (the shape of a default), whatever <x> is called.
func c13FieldDefault(fd *ast.FuncDecl, where, field string) ast.Expr {
	if fd == nil {
		return nil
	}
	var found ast.Expr
	ast.Inspect(fd, func(n ast.Node) bool {
		is, ok := n.(*ast.IfStmt)
		if !ok || found != nil {
			return true
		}
		be, ok := is.Cond.(*ast.BinaryExpr)
		if !ok || be.Op != token.EQL || !c13IsField(be.X, field) {
			return true
		}
		if s, ok := strLit(be.Y); !ok || s != "" {
			return true
		}
		for _, st := range is.Body.List {
			as, ok := st.(*ast.AssignStmt)
			if ok && as.Tok == token.ASSIGN && len(as.Lhs) == 1 && len(as.Rhs) == 1 && exprText(as.Lhs[0]) == exprText(be.X) {
				found = as.Rhs[0]
				return false
			}
		}
		return true
	})
	if found == nil {
		fail("%s: no default `if x.%s == \"\" { x.%s = ... }`", where, field, field)
	}
	return found
}

func c13JoinSemi(items []string) string {
	s := ""
	for i, it := range items {
		if i > 0 {
			s += "; "
		}
		s += it
	}
	return s
}

// c13FindDefine: first `name := <expr>` inside fd.
func c13FindDefine(fd *ast.FuncDecl, name string) ast.Expr {
	if fd == nil {
		return nil
	}
	var found ast.Expr
	ast.Inspect(fd, func(n ast.Node) bool {
		as, ok := n.(*ast.AssignStmt)
		if !ok || found != nil || as.Tok != token.DEFINE {
			return true
		}
		for i, l := range as.Lhs {
			if id, ok := l.(*ast.Ident); ok && id.Name == name && i < len(as.Rhs) {
				found = as.Rhs[i]
			}
		}
		return true
	})
	return found
}
