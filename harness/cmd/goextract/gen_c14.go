package main

// C14: the wiring model (coq/Model/MultiArch.v) transcribes by hand what
// pkg/build/multi.go:NewMultiArch, pkg/apk/apk/implementation.go:ResolveWorld,
// pkg/apk/apk/repo.go:disqualifyDifference / GetPackagesWithDependencies and
// pkg/apk/apk/shameful_global_caches.go:disqualifyCache.Get do. This generator
// reads from the source, and emits as data / as a Gallina function:
//   * the expression that keys the ByArch map, evaluated into a function
//     string -> string (types.Architecture is a string type): String() is the
//     identity; methods of the ToAPK shape (a switch over ParseArchitecture of
//     the receiver) become a table with default; anything else is refused;
//   * types.AllArchs and ParseArchitecture's alias table;
//   * the shape of ResolveWorld's sibling loop (what it ranges over, that the
//     resolver's own index list is handed over for the own architecture, that
//     the siblings' lists come from GetRepositoryIndexes, what is passed on);
//   * the shape of disqualifyDifference (early return for one architecture,
//     both loops range over the same per-architecture map = all ordered pairs,
//     the skip test compares the two keys, the lookups go by Name then Version,
//     the message format and its two arguments);
//   * where GetPackagesWithDependencies takes its initial set from and how
//     disqualifyCache.Get builds its key.
// A shape that is not recognised is a broken tie (fail), never skipped.

import (
	"fmt"
	"go/ast"
	"go/token"
	"regexp"
	"strings"
)

func c14Text(n ast.Node) string { return strings.Join(strings.Fields(exprText(n)), " ") }

// rangeOver returns the range statements in body (not inside closures unless deep) whose X prints as x.
func c14Ranges(body ast.Node, x string, deep bool) []*ast.RangeStmt {
	var out []*ast.RangeStmt
	if body == nil {
		return out
	}
	ast.Inspect(body, func(n ast.Node) bool {
		if _, ok := n.(*ast.FuncLit); ok && !deep {
			return false
		}
		if r, ok := n.(*ast.RangeStmt); ok && c14Text(r.X) == x {
			out = append(out, r)
		}
		return true
	})
	return out
}

func c14Ident(e ast.Expr) string {
	if e == nil {
		return ""
	}
	if id, ok := e.(*ast.Ident); ok {
		return id.Name
	}
	return ""
}

// assignments `lhsPrefix[...] = rhs` directly or nested in body
func c14IndexAssigns(body ast.Node, mapName string) []*ast.AssignStmt {
	var out []*ast.AssignStmt
	ast.Inspect(body, func(n ast.Node) bool {
		as, ok := n.(*ast.AssignStmt)
		if !ok || len(as.Lhs) != 1 || len(as.Rhs) != 1 || as.Tok != token.ASSIGN {
			return true
		}
		if ix, ok := as.Lhs[0].(*ast.IndexExpr); ok && c14Text(ix.X) == mapName {
			out = append(out, as)
		}
		return true
	})
	return out
}

// ---- types.Architecture ---------------------------------------------------

const c14Types = "pkg/build/types/types.go"

// Go variable name -> architecture string, from `x = Architecture("...")`
func c14ArchVars() map[string]string {
	res := map[string]string{}
	f := load(c14Types)
	if f == nil {
		return res
	}
	for _, d := range f.Decls {
		gd, ok := d.(*ast.GenDecl)
		if !ok || gd.Tok != token.VAR {
			continue
		}
		for _, s := range gd.Specs {
			vs := s.(*ast.ValueSpec)
			for i, id := range vs.Names {
				if i >= len(vs.Values) {
					continue
				}
				c, ok := vs.Values[i].(*ast.CallExpr)
				if !ok || c14Text(c.Fun) != "Architecture" || len(c.Args) != 1 {
					continue
				}
				if s, ok := strLit(c.Args[0]); ok {
					res[id.Name] = s
				}
			}
		}
	}
	if len(res) == 0 {
		fail("%s: no `x = Architecture(\"...\")` variables found", c14Types)
	}
	return res
}

func c14AllArchs(vars map[string]string) []string {
	e := findValue(c14Types, "AllArchs")
	cl, ok := e.(*ast.CompositeLit)
	if !ok {
		fail("%s: AllArchs is not a composite literal", c14Types)
		return nil
	}
	var out []string
	for _, el := range cl.Elts {
		v, ok := vars[c14Ident(el)]
		if !ok {
			fail("%s: AllArchs element %s is not one of the Architecture variables", c14Types, c14Text(el))
			continue
		}
		out = append(out, v)
	}
	return out
}

// ParseArchitecture: `switch s { case "x86": return _386 ... } return Architecture(s)`
func c14ParseTable(vars map[string]string) [][2]string {
	fd := findFunc(c14Types, "", "ParseArchitecture")
	if fd == nil || fd.Type.Params == nil || len(fd.Type.Params.List) != 1 || len(fd.Type.Params.List[0].Names) != 1 {
		fail("%s: ParseArchitecture: unexpected signature", c14Types)
		return nil
	}
	param := fd.Type.Params.List[0].Names[0].Name
	if len(fd.Body.List) != 2 {
		fail("%s: ParseArchitecture is not `switch %s {...}; return Architecture(%s)`", c14Types, param, param)
		return nil
	}
	sw, ok := fd.Body.List[0].(*ast.SwitchStmt)
	ret, ok2 := fd.Body.List[1].(*ast.ReturnStmt)
	if !ok || !ok2 || sw.Init != nil || c14Text(sw.Tag) != param || len(ret.Results) != 1 || c14Text(ret.Results[0]) != "Architecture("+param+")" {
		fail("%s: ParseArchitecture is not `switch %s {...}; return Architecture(%s)`", c14Types, param, param)
		return nil
	}
	var out [][2]string
	for _, c := range sw.Body.List {
		cc := c.(*ast.CaseClause)
		if cc.List == nil || len(cc.Body) != 1 {
			fail("%s: ParseArchitecture: default clause or multi-statement case", c14Types)
			continue
		}
		rs, ok := cc.Body[0].(*ast.ReturnStmt)
		if !ok || len(rs.Results) != 1 {
			fail("%s: ParseArchitecture: case body is not a return", c14Types)
			continue
		}
		v, ok := vars[c14Ident(rs.Results[0])]
		if !ok {
			fail("%s: ParseArchitecture: case returns %s", c14Types, c14Text(rs.Results[0]))
			continue
		}
		for _, e := range cc.List {
			s, ok := strLit(e)
			if !ok {
				fail("%s: ParseArchitecture: case label %s is not a string literal", c14Types, c14Text(e))
				continue
			}
			out = append(out, [2]string{s, v})
		}
	}
	return out
}

// a method of Architecture evaluated to a Gallina function body over the
// variable `a : string`. field = "" for a method that returns a string;
// otherwise the method returns a pointer to a struct built in a local variable
// and field is the field whose value is wanted.
func c14ArchMethod(name, field string, vars map[string]string) (string, bool) {
	fd := findFunc(c14Types, "Architecture", name)
	if fd == nil {
		return "", false
	}
	recv := c08Recv(fd)
	if field == "" && len(fd.Body.List) == 1 {
		if rs, ok := fd.Body.List[0].(*ast.ReturnStmt); ok && len(rs.Results) == 1 && c14Text(rs.Results[0]) == "string("+recv+")" {
			return "a", true // the identity
		}
	}
	// find the switch `switch X := ParseArchitecture(recv.String()); X {`
	var sw *ast.SwitchStmt
	for _, st := range fd.Body.List {
		if s, ok := st.(*ast.SwitchStmt); ok {
			sw = s
		}
	}
	if sw == nil || sw.Init == nil {
		return "", false
	}
	init, ok := sw.Init.(*ast.AssignStmt)
	if !ok || len(init.Lhs) != 1 || len(init.Rhs) != 1 || c14Text(init.Rhs[0]) != "ParseArchitecture("+recv+".String())" || c14Text(sw.Tag) != c14Text(init.Lhs[0]) {
		return "", false
	}
	sv := c14Text(init.Lhs[0])
	// the String method must be the identity for this reading
	if s, ok := c14ArchMethod("String", "", vars); !ok || s != "a" {
		return "", false
	}
	value := func(body []ast.Stmt) (string, bool) { // "<self>" or a literal
		var e ast.Expr
		if field == "" {
			if len(body) != 1 {
				return "", false
			}
			rs, ok := body[0].(*ast.ReturnStmt)
			if !ok || len(rs.Results) != 1 {
				return "", false
			}
			e = rs.Results[0]
		} else {
			for _, st := range body {
				as, ok := st.(*ast.AssignStmt)
				if !ok || len(as.Lhs) != 1 || len(as.Rhs) != 1 {
					return "", false
				}
				if se, ok := as.Lhs[0].(*ast.SelectorExpr); ok && se.Sel.Name == field {
					e = as.Rhs[0]
				}
			}
			if e == nil {
				return "", false
			}
		}
		if c14Text(e) == "string("+sv+")" {
			return "<self>", true
		}
		if s, ok := strLit(e); ok {
			return s, true
		}
		return "", false
	}
	var items []string
	hasDefault := false
	for _, c := range sw.Body.List {
		cc := c.(*ast.CaseClause)
		v, ok := value(cc.Body)
		if !ok {
			return "", false
		}
		if cc.List == nil {
			if v != "<self>" {
				return "", false
			}
			hasDefault = true
			continue
		}
		for _, e := range cc.List {
			a, ok := vars[c14Ident(e)]
			if !ok || v == "<self>" {
				return "", false
			}
			items = append(items, "("+coqStr(a)+", "+coqStr(v)+")")
		}
	}
	if !hasDefault {
		return "", false
	}
	return "let a := parse_architecture a in match c14_assoc a [" + strings.Join(items, "; ") + "] with Some k => k | None => a end", true
}

// the key expression over the range variable `v`, as a Gallina body over `a`
func c14KeyFunction(e ast.Expr, v string, vars map[string]string) (string, bool) {
	switch x := e.(type) {
	case *ast.CallExpr: // v.Method()
		if se, ok := x.Fun.(*ast.SelectorExpr); ok && len(x.Args) == 0 && c14Ident(se.X) == v {
			return c14ArchMethod(se.Sel.Name, "", vars)
		}
		if c14Text(x.Fun) == "string" && len(x.Args) == 1 && c14Ident(x.Args[0]) == v {
			return "a", true
		}
	case *ast.SelectorExpr: // v.Method().Field
		if c, ok := x.X.(*ast.CallExpr); ok && len(c.Args) == 0 {
			if se, ok := c.Fun.(*ast.SelectorExpr); ok && c14Ident(se.X) == v {
				return c14ArchMethod(se.Sel.Name, x.Sel.Name, vars)
			}
		}
	}
	return "", false
}

func genC14() {
	const multi = "pkg/build/multi.go"
	const impl = "pkg/apk/apk/implementation.go"
	const repoGo = "pkg/apk/apk/repo.go"
	const caches = "pkg/apk/apk/shameful_global_caches.go"
	g := newGen("C14Wiring", "From Coq Require Import String List.\nImport ListNotations.\nOpen Scope string_scope.\n\n"+
		"Fixpoint c14_assoc (k : string) (m : list (string * string)) : option string :=\n"+
		"  match m with [] => None | (k', v) :: t => if String.eqb k' k then Some v else c14_assoc k t end.\n")
	shape := [][2]string{}
	add := func(k, v string) { shape = append(shape, [2]string{k, v}) }

	// ---- types.Architecture ------------------------------------------------
	vars := c14ArchVars()
	all := c14AllArchs(vars)
	g.def("apko_archs", "list string", coqStrList(all), c14Types+" AllArchs (values of the Architecture variables listed)")
	var pt []string
	for _, kv := range c14ParseTable(vars) {
		pt = append(pt, "("+coqStr(kv[0])+", "+coqStr(kv[1])+")")
	}
	g.def("parse_architecture_table", "list (string * string)", "["+strings.Join(pt, "; ")+"]", c14Types+" ParseArchitecture: alias -> architecture; anything else is kept")
	fmt.Fprintf(&g.buf, "Definition parse_architecture (s : string) : string :=\n  match c14_assoc s parse_architecture_table with Some a => a | None => s end.\n")

	// ---- NewMultiArch ---------------------------------------------------------
	nm := findFunc(multi, "", "NewMultiArch")
	if nm != nil {
		// contexts: `for _, arch := range archs { ... m.Contexts[arch] = c }`
		archsParam := ""
		if nm.Type.Params != nil {
			for _, p := range nm.Type.Params.List {
				if c14Text(p.Type) == "[]types.Architecture" && len(p.Names) == 1 {
					archsParam = p.Names[0].Name
				}
			}
		}
		ctxOK := false
		optsOK := false
		for _, r := range c14Ranges(nm.Body, archsParam, false) {
			v := c14Ident(r.Value)
			for _, as := range c14IndexAssigns(r.Body, "m.Contexts") {
				if c14Ident(as.Lhs[0].(*ast.IndexExpr).Index) == v && v != "" {
					ctxOK = true
				}
			}
			// shared options: a clone of opts plus WithArch(arch) is what New receives
			txt := c14Text(r.Body)
			if strings.Contains(txt, "bopts := slices.Clone(opts)") && strings.Contains(txt, "bopts = append(bopts, WithArch("+v+"))") && strings.Contains(txt, "New(ctx, fs, bopts...)") {
				optsOK = true
			}
		}
		if !ctxOK {
			fail("%s: NewMultiArch: `for _, arch := range %s { ... m.Contexts[arch] = c }` not recognised", multi, archsParam)
		}
		add("contexts-keyed-by", "the architecture")
		add("context-options", map[bool]string{true: "clone of the shared options + WithArch(arch)", false: "other"}[optsOK])
		// ByArch: `for arch, bc := range m.Contexts { apks[KEY] = bc.apk }`
		var keyExpr ast.Expr
		keyVar := ""
		mapName := ""
		for _, r := range c14Ranges(nm.Body, "m.Contexts", false) {
			k, v := c14Ident(r.Key), c14Ident(r.Value)
			ast.Inspect(r.Body, func(n ast.Node) bool {
				as, ok := n.(*ast.AssignStmt)
				if !ok || len(as.Lhs) != 1 || len(as.Rhs) != 1 {
					return true
				}
				ix, ok := as.Lhs[0].(*ast.IndexExpr)
				if ok && v != "" && c14Text(as.Rhs[0]) == v+".apk" {
					if keyExpr != nil {
						fail("%s: NewMultiArch: more than one `map[key] = bc.apk` assignment", multi)
					}
					keyExpr, keyVar, mapName = ix.Index, k, c14Text(ix.X)
				}
				return true
			})
		}
		if keyExpr == nil || keyVar == "" {
			fail("%s: NewMultiArch: `for arch, bc := range m.Contexts { apks[<key>] = bc.apk }` not recognised", multi)
		} else {
			src := regexp.MustCompile(`\b`+regexp.QuoteMeta(keyVar)+`\b`).ReplaceAllString(c14Text(keyExpr), "arch")
			body, ok := c14KeyFunction(keyExpr, keyVar, vars)
			if !ok {
				fail("%s: NewMultiArch: the ByArch key `%s` is not an expression this translator can evaluate (String(), string(arch), or a method of the ToAPK shape)", multi, src)
				body = "a"
			}
			g.def("byarch_key_src", "string", coqStr(src), multi+" NewMultiArch at "+g.pos(keyExpr)+": the expression that keys the ByArch map (range variable written `arch`)")
			fmt.Fprintf(&g.buf, "(* the same expression evaluated on an architecture string *)\nDefinition byarch_key (a : string) : string := %s.\n", body)
			// every context receives that very map
			shared := false
			for _, r := range c14Ranges(nm.Body, "m.Contexts", false) {
				v := c14Ident(r.Value)
				ast.Inspect(r.Body, func(n ast.Node) bool {
					if as, ok := n.(*ast.AssignStmt); ok && len(as.Lhs) == 1 && len(as.Rhs) == 1 &&
						c14Text(as.Lhs[0]) == v+".apk.ByArch" && c14Text(as.Rhs[0]) == mapName {
						shared = true
					}
					return true
				})
			}
			if !shared {
				fail("%s: NewMultiArch: `for _, bc := range m.Contexts { bc.apk.ByArch = %s }` not recognised", multi, mapName)
			}
			add("byarch-assigned", "the one map, to every context")
		}
	}

	// ---- ResolveWorld ---------------------------------------------------------
	rw := findFunc(impl, "APK", "ResolveWorld")
	if rw != nil {
		recv := c08Recv(rw)
		own := ""       // the identifier bound to recv.GetRepositoryIndexes(...)
		resolverOf := "" // the argument of NewPkgResolver
		resolverVar := ""
		for _, st := range rw.Body.List {
			as, ok := st.(*ast.AssignStmt)
			if !ok || len(as.Rhs) != 1 {
				continue
			}
			c, ok := as.Rhs[0].(*ast.CallExpr)
			if !ok {
				continue
			}
			switch c14Text(c.Fun) {
			case recv + ".GetRepositoryIndexes":
				own = c14Ident(as.Lhs[0])
			case "NewPkgResolver":
				if len(c.Args) == 2 {
					resolverOf = c14Ident(c.Args[1])
					resolverVar = c14Ident(as.Lhs[0])
				}
			}
		}
		if own == "" || resolverOf != own {
			fail("%s: ResolveWorld: `indexes := a.GetRepositoryIndexes(...)` followed by `NewPkgResolver(ctx, indexes)` not recognised", impl)
		}
		rs := c14Ranges(rw.Body, recv+".ByArch", false)
		if len(rs) != 1 {
			fail("%s: ResolveWorld: expected exactly one loop over %s.ByArch, found %d", impl, recv, len(rs))
		} else {
			r := rs[0]
			k, v := c14Ident(r.Key), c14Ident(r.Value)
			ownShared, sibLoaded := false, false
			mapName := ""
			for _, st := range r.Body.List {
				switch x := st.(type) {
				case *ast.IfStmt: // if otherAPK == a { allArchs[otherArch] = indexes; continue }
					c := c14Text(x.Cond)
					if (c == v+" == "+recv || c == recv+" == "+v) && x.Else == nil {
						for _, s := range x.Body.List {
							if a, ok := s.(*ast.AssignStmt); ok && len(a.Lhs) == 1 && len(a.Rhs) == 1 {
								if ix, ok := a.Lhs[0].(*ast.IndexExpr); ok && c14Ident(ix.Index) == k && c14Ident(a.Rhs[0]) == own {
									mapName = c14Text(ix.X)
									ownShared = true
								}
							}
						}
						if len(x.Body.List) == 0 {
							ownShared = false
						} else if b, ok := x.Body.List[len(x.Body.List)-1].(*ast.BranchStmt); !ok || b.Tok != token.CONTINUE {
							ownShared = false
						}
					}
				case *ast.AssignStmt:
					if len(x.Rhs) == 1 {
						if c, ok := x.Rhs[0].(*ast.CallExpr); ok && c14Text(c.Fun) == v+".GetRepositoryIndexes" && len(x.Lhs) >= 1 {
							loaded := c14Ident(x.Lhs[0])
							// ... and allArchs[otherArch] = <loaded> later in the body
							for _, as := range c14IndexAssigns(r.Body, mapName) {
								if mapName != "" && c14Ident(as.Lhs[0].(*ast.IndexExpr).Index) == k && c14Ident(as.Rhs[0]) == loaded && as.Pos() > x.Pos() {
									sibLoaded = true
								}
							}
						}
					}
				}
			}
			if !ownShared {
				fail("%s: ResolveWorld: inside the loop over %s.ByArch, `if otherAPK == %s { allArchs[otherArch] = %s; continue }` (the resolver's own index objects, fix f441d90) not recognised", impl, recv, recv, own)
			}
			if !sibLoaded {
				fail("%s: ResolveWorld: the siblings' lists are not `otherAPK.GetRepositoryIndexes(...)` stored under the ByArch key", impl)
			}
			add("resolveworld-ranges-over", "ByArch of the receiver")
			add("resolveworld-own-architecture", "the index objects the resolver was built from")
			add("resolveworld-siblings", "GetRepositoryIndexes of the sibling, under the ByArch key")
			// passed on: resolver.GetPackagesWithDependencies(ctx, world, allArchs)
			passed := false
			ast.Inspect(rw.Body, func(n ast.Node) bool {
				if c, ok := n.(*ast.CallExpr); ok && c14Text(c.Fun) == resolverVar+".GetPackagesWithDependencies" && len(c.Args) == 3 && c14Text(c.Args[2]) == mapName {
					passed = true
				}
				return true
			})
			if !passed || mapName == "" {
				fail("%s: ResolveWorld: the collected map is not the third argument of resolver.GetPackagesWithDependencies", impl)
			}
			add("resolveworld-passes", "the collected map as allArchs")
		}
	}
	// ResolveAndCalculateWorld goes through ResolveWorld
	if rc := findFunc(impl, "APK", "ResolveAndCalculateWorld"); rc != nil {
		recv := c08Recv(rc)
		through := false
		ast.Inspect(rc.Body, func(n ast.Node) bool {
			if c, ok := n.(*ast.CallExpr); ok && c14Text(c.Fun) == recv+".ResolveWorld" {
				through = true
			}
			return true
		})
		if !through {
			fail("%s: ResolveAndCalculateWorld does not call ResolveWorld", impl)
		}
		add("resolve-and-calculate-world", "through ResolveWorld")
	}

	// ---- GetPackagesWithDependencies: where the initial set comes from -----------
	if gp := findFunc(repoGo, "PkgResolver", "GetPackagesWithDependencies"); gp != nil {
		third := ""
		if gp.Type.Params != nil {
			var names []string
			for _, p := range gp.Type.Params.List {
				for _, id := range p.Names {
					names = append(names, id.Name)
				}
			}
			if len(names) == 3 {
				third = names[2]
			}
		}
		src := ""
		ast.Inspect(gp.Body, func(n ast.Node) bool {
			as, ok := n.(*ast.AssignStmt)
			if ok && len(as.Lhs) == 1 && len(as.Rhs) == 1 && c14Ident(as.Lhs[0]) == "dq" && as.Tok == token.DEFINE && src == "" {
				if c, ok := as.Rhs[0].(*ast.CallExpr); ok && len(c.Args) == 2 && c14Text(c.Args[1]) == third {
					src = c14Text(c.Fun)
				} else {
					src = "other:" + c14Text(as.Rhs[0])
				}
			}
			return true
		})
		if src != "globalDisqualifyCache.Get" {
			fail("%s: GetPackagesWithDependencies: `dq := globalDisqualifyCache.Get(ctx, allArchs)` on its third parameter not recognised (found %q)", repoGo, src)
		}
		add("initial-set", "globalDisqualifyCache.Get of the allArchs parameter")
	}

	// ---- disqualifyDifference --------------------------------------------------------
	parts := []string{}
	if dd := findFunc(repoGo, "", "disqualifyDifference"); dd != nil {
		byArch := ""
		if dd.Type.Params != nil && len(dd.Type.Params.List) == 2 && len(dd.Type.Params.List[1].Names) == 1 {
			byArch = dd.Type.Params.List[1].Names[0].Name
		}
		// early return: `if len(byArch) == 1 { return dq }`
		early := false
		for _, st := range dd.Body.List {
			if is, ok := st.(*ast.IfStmt); ok && c14Text(is.Cond) == "len("+byArch+") == 1" && len(is.Body.List) == 1 {
				if _, ok := is.Body.List[0].(*ast.ReturnStmt); ok {
					early = true
				}
			}
		}
		if !early {
			fail("%s: disqualifyDifference: `if len(%s) == 1 { return dq }` not recognised", repoGo, byArch)
		}
		add("dq-one-architecture", "returns the empty set")
		// first loop: for arch, indexes := range byArch { ... allowed[pkg.Name] ... versions[pkg.Version] = struct{}{} ... perArch[arch] = allowed }
		perArch := ""
		fields := []string{}
		for _, r := range c14Ranges(dd.Body, byArch, false) {
			k := c14Ident(r.Key)
			txt := c14Text(r.Body)
			ast.Inspect(r.Body, func(n ast.Node) bool {
				as, ok := n.(*ast.AssignStmt)
				if !ok || len(as.Lhs) != 1 {
					return true
				}
				if ix, ok := as.Lhs[0].(*ast.IndexExpr); ok && c14Ident(ix.Index) == k && k != "" {
					perArch = c14Text(ix.X)
				}
				return true
			})
			if strings.Contains(txt, "[pkg.Name]") && strings.Contains(txt, "versions[pkg.Version] = struct{}{}") && strings.Contains(txt, "range index.Packages()") {
				fields = []string{"Name", "Version"}
			}
		}
		if perArch == "" || len(fields) != 2 {
			fail("%s: disqualifyDifference: the loop that records name -> set of versions per architecture is not recognised", repoGo)
		}
		// second loop: both levels range over perArch
		outer := c14Ranges(dd.Body, perArch, false)
		allPairs := false
		for _, o := range outer {
			ok1 := c14Ident(o.Key)
			if ok1 == "" {
				continue
			}
			// the resolver of that architecture is built from byArch[arch]
			if !strings.Contains(c14Text(o.Body), "newPkgResolver(ctx, "+byArch+"["+ok1+"])") {
				continue
			}
			for _, in := range c14Ranges(o.Body, perArch, false) {
				if in == o {
					continue
				}
				ik, iv := c14Ident(in.Key), c14Ident(in.Value)
				if ik == "" || iv == "" || len(in.Body.List) == 0 {
					continue
				}
				// skip test
				is, ok := in.Body.List[0].(*ast.IfStmt)
				if !ok || len(is.Body.List) != 1 {
					continue
				}
				c := c14Text(is.Cond)
				br, isBr := is.Body.List[0].(*ast.BranchStmt)
				if !(c == ik+" == "+ok1 || c == ok1+" == "+ik) || !isBr || br.Tok != token.CONTINUE {
					continue
				}
				// every package of the resolver: range p.nameMap, range pkgVersions
				txt := c14Text(in.Body)
				if !strings.Contains(txt, "range p.nameMap") {
					continue
				}
				// lookups: versions, ok := allowed[pkg.Name]; _, ok := versions[pkg.Version]
				if !strings.Contains(txt, "versions, ok := "+iv+"[pkg.Name]") || !strings.Contains(txt, "_, ok := versions[pkg.Version]; !ok") {
					fail("%s: disqualifyDifference: the comparison is not by `%s[pkg.Name]` then `versions[pkg.Version]`", repoGo, iv)
					continue
				}
				// messages: dq[pkg.RepositoryPackage] = fmt.Sprintf(FMT, pkg.Filename(), otherArch)
				n := 0
				bad := false
				ast.Inspect(in.Body, func(nd ast.Node) bool {
					as, ok := nd.(*ast.AssignStmt)
					if !ok || len(as.Lhs) != 1 || len(as.Rhs) != 1 {
						return true
					}
					if c14Text(as.Lhs[0]) != "dq[pkg.RepositoryPackage]" {
						return true
					}
					n++
					call, ok := as.Rhs[0].(*ast.CallExpr)
					if !ok || c14Text(call.Fun) != "fmt.Sprintf" || len(call.Args) != 3 || c14Text(call.Args[1]) != "pkg.Filename()" || c14Ident(call.Args[2]) != ik {
						bad = true
						return true
					}
					f, ok := strLit(call.Args[0])
					if !ok || strings.Count(f, "%q") != 2 || strings.Count(f, "%") != 2 {
						bad = true
						return true
					}
					p := strings.Split(f, "%q")
					if len(parts) != 0 && strings.Join(parts, "%q") != f {
						bad = true
					}
					parts = p
					return true
				})
				if n != 2 || bad {
					fail("%s: disqualifyDifference: expected two assignments `dq[pkg.RepositoryPackage] = fmt.Sprintf(<two %%q>, pkg.Filename(), %s)` with one format", repoGo, ik)
					continue
				}
				allPairs = true
			}
		}
		if !allPairs {
			fail("%s: disqualifyDifference: the marking loops do not range over all ordered pairs of architectures (`for arch := range %s { for otherArch, allowed := range %s { if otherArch == arch { continue } ...`)", repoGo, perArch, perArch)
		}
		add("dq-loops", "all ordered pairs of distinct architectures")
		add("dq-compares", strings.Join(fields, "+"))
		add("dq-marks", "every package of the architecture's own resolver (nameMap), by package object")
	}
	if len(parts) != 3 {
		parts = []string{"", "", ""}
	}
	g.def("dq_message_parts", "list string", coqStrList(parts), repoGo+" disqualifyDifference: the message format split at its two %q verbs (arguments: pkg.Filename(), the other architecture)")

	// ---- disqualifyCache.Get: the key -----------------------------------------------------
	if dg := findFunc(caches, "disqualifyCache", "Get"); dg != nil {
		recv := c08Recv(dg)
		byArch := ""
		if dg.Type.Params != nil && len(dg.Type.Params.List) == 2 && len(dg.Type.Params.List[1].Names) == 1 {
			byArch = dg.Type.Params.List[1].Names[0].Name
		}
		txt := c14Text(dg.Body)
		key := "other"
		if strings.Contains(txt, "indexes := slices.Concat(slices.Collect(maps.Values("+byArch+"))...)") {
			key = "concatenation of the map's values"
		}
		sortBy := "other"
		ast.Inspect(dg.Body, func(n ast.Node) bool {
			c, ok := n.(*ast.CallExpr)
			if !ok || c14Text(c.Fun) != "slices.SortFunc" || len(c.Args) != 2 || c14Text(c.Args[0]) != "indexes" {
				return true
			}
			fl, ok := c.Args[1].(*ast.FuncLit)
			if !ok || len(fl.Body.List) != 1 || fl.Type.Params == nil {
				return true
			}
			var ps []string
			for _, f := range fl.Type.Params.List {
				for _, id := range f.Names {
					ps = append(ps, id.Name)
				}
			}
			if rs, ok := fl.Body.List[0].(*ast.ReturnStmt); ok && len(ps) == 2 && len(rs.Results) == 1 &&
				c14Text(rs.Results[0]) == "strings.Compare("+ps[0]+".Name(), "+ps[1]+".Name())" {
				sortBy = "Name()"
			}
			return true
		})
		miss := strings.Contains(txt, "dq := disqualifyDifference(ctx, "+byArch+") "+recv+".fill(indexes, dq)")
		hit := strings.Contains(txt, "if dq := "+recv+".find(indexes); dq != nil { return maps.Clone(dq) }")
		trie := ""
		if f := load(caches); f != nil {
			ast.Inspect(f, func(n ast.Node) bool {
				ts, ok := n.(*ast.TypeSpec)
				if !ok || ts.Name.Name != "disqualifyCache" {
					return true
				}
				if st, ok := ts.Type.(*ast.StructType); ok {
					for _, fld := range st.Fields.List {
						for _, id := range fld.Names {
							if id.Name == "children" {
								trie = c14Text(fld.Type)
							}
						}
					}
				}
				return false
			})
		}
		find := findFunc(caches, "disqualifyCache", "find")
		fill := findFunc(caches, "disqualifyCache", "fill")
		byObj := trie == "map[NamedIndex]*disqualifyCache" && find != nil && fill != nil &&
			strings.Contains(c14Text(find.Body), ".children[indexes[0]]") && strings.Contains(c14Text(fill.Body), ".children[indexes[0]]") &&
			!strings.Contains(c14Text(find.Body), "indexes[0].") && !strings.Contains(c14Text(fill.Body), "indexes[0].")
		if key == "other" || sortBy == "other" || !miss || !hit || !byObj {
			fail("%s: disqualifyCache.Get: key = concatenation of the map's values sorted by Name(), looked up by index OBJECT in a trie, hit returns a clone, miss computes disqualifyDifference and fills — not recognised (key=%q sort=%q hit=%v miss=%v trie=%q)", caches, key, sortBy, hit, miss, trie)
		}
		add("dq-cache-key", key+", sorted by "+sortBy+", compared by index object")
		add("dq-cache-hit", "a clone of the stored set")
		add("dq-cache-miss", "disqualifyDifference of the call's own map, stored under the key")
	}

	var items []string
	for _, kv := range shape {
		items = append(items, "("+coqStr(kv[0])+", "+coqStr(kv[1])+")")
	}
	g.def("wiring_shape", "list (string * string)", "["+strings.Join(items, ";\n   ")+"]", "what the source looks like where Model/MultiArch.v transcribes it (in source order)")
	g.write()
}
