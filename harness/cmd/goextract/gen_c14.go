package main

// C14: the wiring model (coq/Model/MultiArch.v) transcribes by hand what
// pkg/build/multi.go:NewMultiArch, pkg/apk/apk/implementation.go:ResolveWorld,
// pkg/apk/apk/repo.go:disqualifyDifference / GetPackagesWithDependencies and
// pkg/apk/apk/shameful_global_caches.go:disqualifyCache.Get do. This generator
// reads from the source, and emits as data / as a Gallina function:
//   * the expression that keys the ByArch map, evaluated into a function
//     string -> string (types.Architecture is a string type): String() is the
//     identity; methods of the ToAPK shape (a switch over ParseArchitecture of
//     the receiver) become a table with default; anything else is refused;
//   * types.AllArchs and ParseArchitecture's alias table;
//   * the shape of ResolveWorld's sibling loop (what it ranges over, that the
//     resolver's own index list is handed over for the own architecture, that
//     the siblings' lists come from GetRepositoryIndexes, what is passed on);
//   * the shape of disqualifyDifference (early return for one architecture,
//     both loops range over the same per-architecture map = all ordered pairs,
//     the skip test compares the two keys, the lookups go by Name then Version,
//     the message format and its two arguments);
//   * where GetPackagesWithDependencies takes its initial set from and how
//     disqualifyCache.Get builds its key.
// A shape that is not recognised is a broken tie (fail), never skipped.

import (
	"fmt"
	"go/ast"
	"go/token"
	"regexp"
	"strings"
)

func c14Text(n ast.Node) string { return strings.Join(strings.Fields(exprText(n)), " ") }

// rangeOver returns the range statements in body (not inside closures unless deep) whose X prints as x.
func c14Ranges(body ast.Node, x string, deep bool) []*ast.RangeStmt {
	var out []*ast.RangeStmt
	if body == nil {
		return out
	}
	ast.Inspect(body, func(n ast.Node) bool {
		if _, ok := n.(*ast.FuncLit); ok && !deep {
			return false
		}
		if r, ok := n.(*ast.RangeStmt); ok && c14Text(r.X) == x {
			out = append(out, r)
		}
		return true
	})
	return out
}

func c14Ident(e ast.Expr) string {
	if e == nil {
		return ""
	}
	if id, ok := e.(*ast.Ident); ok {
		return id.Name
	}
	return ""
}

// assignments `lhsPrefix[...] = rhs` directly or nested in body
func c14IndexAssigns(body ast.Node, mapName string) []*ast.AssignStmt {
	var out []*ast.AssignStmt
	ast.Inspect(body, func(n ast.Node) bool {
		as, ok := n.(*ast.AssignStmt)
		if !ok || len(as.Lhs) != 1 || len(as.Rhs) != 1 || as.Tok != token.ASSIGN {
			return true
		}
		if ix, ok := as.Lhs[0].(*ast.IndexExpr); ok && c14Text(ix.X) == mapName {
			out = append(out, as)
		}
		return true
	})
	return out
}

// the first assignment in body (closures included) whose single right-hand side
// satisfies pred: the names on its left-hand side ("" for a non-identifier)
func c14FindAssign(body ast.Node, pred func(rhs ast.Expr) bool) ([]string, *ast.AssignStmt) {
	var lhs []string
	var node *ast.AssignStmt
	if body == nil {
		return nil, nil
	}
	ast.Inspect(body, func(n ast.Node) bool {
		as, ok := n.(*ast.AssignStmt)
		if !ok || node != nil || len(as.Rhs) != 1 || !pred(as.Rhs[0]) {
			return true
		}
		node = as
		for _, l := range as.Lhs {
			lhs = append(lhs, c14Ident(l))
		}
		return false
	})
	return lhs, node
}

func c14TextIs(want string) func(ast.Expr) bool {
	return func(e ast.Expr) bool { return c14Text(e) == want }
}

// ---- types.Architecture ---------------------------------------------------

const c14Types = "pkg/build/types/types.go"

// Go variable name -> architecture string, from `x = Architecture("...")`
func c14ArchVars() map[string]string {
	res := map[string]string{}
	f := load(c14Types)
	if f == nil {
		return res
	}
	for _, d := range f.Decls {
		gd, ok := d.(*ast.GenDecl)
		if !ok || gd.Tok != token.VAR {
			continue
		}
		for _, s := range gd.Specs {
			vs := s.(*ast.ValueSpec)
			for i, id := range vs.Names {
				if i >= len(vs.Values) {
					continue
				}
				c, ok := vs.Values[i].(*ast.CallExpr)
				if !ok || c14Text(c.Fun) != "Architecture" || len(c.Args) != 1 {
					continue
				}
				if s, ok := strLit(c.Args[0]); ok {
					res[id.Name] = s
				}
			}
		}
	}
	if len(res) == 0 {
		fail("%s: no `x = Architecture(\"...\")` variables found", c14Types)
	}
	return res
}

func c14AllArchs(vars map[string]string) []string {
	e := findValue(c14Types, "AllArchs")
	cl, ok := e.(*ast.CompositeLit)
	if !ok {
		fail("%s: AllArchs is not a composite literal", c14Types)
		return nil
	}
	var out []string
	for _, el := range cl.Elts {
		v, ok := vars[c14Ident(el)]
		if !ok {
			fail("%s: AllArchs element %s is not one of the Architecture variables", c14Types, c14Text(el))
			continue
		}
		out = append(out, v)
	}
	return out
}

// ParseArchitecture: `switch s { case "x86": return _386 ... } return Architecture(s)`
func c14ParseTable(vars map[string]string) [][2]string {
	fd := findFunc(c14Types, "", "ParseArchitecture")
	if fd == nil || fd.Type.Params == nil || len(fd.Type.Params.List) != 1 || len(fd.Type.Params.List[0].Names) != 1 {
		fail("%s: ParseArchitecture: unexpected signature", c14Types)
		return nil
	}
	param := fd.Type.Params.List[0].Names[0].Name
	if len(fd.Body.List) != 2 {
		fail("%s: ParseArchitecture is not `switch %s {...}; return Architecture(%s)`", c14Types, param, param)
		return nil
	}
	sw, ok := fd.Body.List[0].(*ast.SwitchStmt)
	ret, ok2 := fd.Body.List[1].(*ast.ReturnStmt)
	if !ok || !ok2 || sw.Init != nil || c14Text(sw.Tag) != param || len(ret.Results) != 1 || c14Text(ret.Results[0]) != "Architecture("+param+")" {
		fail("%s: ParseArchitecture is not `switch %s {...}; return Architecture(%s)`", c14Types, param, param)
		return nil
	}
	var out [][2]string
	for _, c := range sw.Body.List {
		cc := c.(*ast.CaseClause)
		if cc.List == nil || len(cc.Body) != 1 {
			fail("%s: ParseArchitecture: default clause or multi-statement case", c14Types)
			continue
		}
		rs, ok := cc.Body[0].(*ast.ReturnStmt)
		if !ok || len(rs.Results) != 1 {
			fail("%s: ParseArchitecture: case body is not a return", c14Types)
			continue
		}
		v, ok := vars[c14Ident(rs.Results[0])]
		if !ok {
			fail("%s: ParseArchitecture: case returns %s", c14Types, c14Text(rs.Results[0]))
			continue
		}
		for _, e := range cc.List {
			s, ok := strLit(e)
			if !ok {
				fail("%s: ParseArchitecture: case label %s is not a string literal", c14Types, c14Text(e))
				continue
			}
			out = append(out, [2]string{s, v})
		}
	}
	return out
}

// a method of Architecture evaluated to a Gallina function body over the
// variable `a : string`. field = "" for a method that returns a string;
// otherwise the method returns a pointer to a struct built in a local variable
// and field is the field whose value is wanted.
func c14ArchMethod(name, field string, vars map[string]string) (string, bool) {
	fd := findFunc(c14Types, "Architecture", name)
	if fd == nil {
		return "", false
	}
	recv := c08Recv(fd)
	if field == "" && len(fd.Body.List) == 1 {
		if rs, ok := fd.Body.List[0].(*ast.ReturnStmt); ok && len(rs.Results) == 1 && c14Text(rs.Results[0]) == "string("+recv+")" {
			return "a", true // the identity
		}
	}
	// find the switch `switch X := ParseArchitecture(recv.String()); X {`
	var sw *ast.SwitchStmt
	for _, st := range fd.Body.List {
		if s, ok := st.(*ast.SwitchStmt); ok {
			sw = s
		}
	}
	if sw == nil || sw.Init == nil {
		return "", false
	}
	init, ok := sw.Init.(*ast.AssignStmt)
	if !ok || len(init.Lhs) != 1 || len(init.Rhs) != 1 || c14Text(init.Rhs[0]) != "ParseArchitecture("+recv+".String())" || c14Text(sw.Tag) != c14Text(init.Lhs[0]) {
		return "", false
	}
	sv := c14Text(init.Lhs[0])
	// the String method must be the identity for this reading
	if s, ok := c14ArchMethod("String", "", vars); !ok || s != "a" {
		return "", false
	}
	value := func(body []ast.Stmt) (string, bool) { // "<self>" or a literal
		var e ast.Expr
		if field == "" {
			if len(body) != 1 {
				return "", false
			}
			rs, ok := body[0].(*ast.ReturnStmt)
			if !ok || len(rs.Results) != 1 {
				return "", false
			}
			e = rs.Results[0]
		} else {
			for _, st := range body {
				as, ok := st.(*ast.AssignStmt)
				if !ok || len(as.Lhs) != 1 || len(as.Rhs) != 1 {
					return "", false
				}
				if se, ok := as.Lhs[0].(*ast.SelectorExpr); ok && se.Sel.Name == field {
					e = as.Rhs[0]
				}
			}
			if e == nil {
				return "", false
			}
		}
		if c14Text(e) == "string("+sv+")" {
			return "<self>", true
		}
		if s, ok := strLit(e); ok {
			return s, true
		}
		return "", false
	}
	var items []string
	hasDefault := false
	for _, c := range sw.Body.List {
		cc := c.(*ast.CaseClause)
		v, ok := value(cc.Body)
		if !ok {
			return "", false
		}
		if cc.List == nil {
			if v != "<self>" {
				return "", false
			}
			hasDefault = true
			continue
		}
		for _, e := range cc.List {
			a, ok := vars[c14Ident(e)]
			if !ok || v == "<self>" {
				return "", false
			}
			items = append(items, "("+coqStr(a)+", "+coqStr(v)+")")
		}
	}
	if !hasDefault {
		return "", false
	}
	return "let a := parse_architecture a in match c14_assoc a [" + strings.Join(items, "; ") + "] with Some k => k | None => a end", true
}

// the key expression over the range variable `v`, as a Gallina body over `a`
func c14KeyFunction(e ast.Expr, v string, vars map[string]string) (string, bool) {
	switch x := e.(type) {
	case *ast.CallExpr: // v.Method()
		if se, ok := x.Fun.(*ast.SelectorExpr); ok && len(x.Args) == 0 && c14Ident(se.X) == v {
			return c14ArchMethod(se.Sel.Name, "", vars)
		}
		if c14Text(x.Fun) == "string" && len(x.Args) == 1 && c14Ident(x.Args[0]) == v {
			return "a", true
		}
	case *ast.SelectorExpr: // v.Method().Field
		if c, ok := x.X.(*ast.CallExpr); ok && len(c.Args) == 0 {
			if se, ok := c.Fun.(*ast.SelectorExpr); ok && c14Ident(se.X) == v {
				return c14ArchMethod(se.Sel.Name, x.Sel.Name, vars)
			}
		}
	}
	return "", false
}

func genC14() {
	const multi = "pkg/build/multi.go"
	const impl = "pkg/apk/apk/implementation.go"
	const repoGo = "pkg/apk/apk/repo.go"
	const caches = "pkg/apk/apk/shameful_global_caches.go"
	g := newGen("C14Wiring", "From Coq Require Import String List.\nImport ListNotations.\nOpen Scope string_scope.\n\n"+
		"Fixpoint c14_assoc (k : string) (m : list (string * string)) : option string :=\n"+
		"  match m with [] => None | (k', v) :: t => if String.eqb k' k then Some v else c14_assoc k t end.\n")
	shape := [][2]string{}
	add := func(k, v string) { shape = append(shape, [2]string{k, v}) }

	// ---- types.Architecture ------------------------------------------------
	vars := c14ArchVars()
	all := c14AllArchs(vars)
	g.def("apko_archs", "list string", coqStrList(all), c14Types+" AllArchs (values of the Architecture variables listed)")
	var pt []string
	for _, kv := range c14ParseTable(vars) {
		pt = append(pt, "("+coqStr(kv[0])+", "+coqStr(kv[1])+")")
	}
	g.def("parse_architecture_table", "list (string * string)", "["+strings.Join(pt, "; ")+"]", c14Types+" ParseArchitecture: alias -> architecture; anything else is kept")
	fmt.Fprintf(&g.buf, "Definition parse_architecture (s : string) : string :=\n  match c14_assoc s parse_architecture_table with Some a => a | None => s end.\n")

	// ---- NewMultiArch ---------------------------------------------------------
	nm := findFunc(multi, "", "NewMultiArch")
	if nm != nil {
		// contexts: `for _, arch := range archs { ... m.Contexts[arch] = c }`
		archsParam := ""
		if nm.Type.Params != nil {
			for _, p := range nm.Type.Params.List {
				if c14Text(p.Type) == "[]types.Architecture" && len(p.Names) == 1 {
					archsParam = p.Names[0].Name
				}
			}
		}
		// the MultiArch under construction: `m := &MultiArch{...}`
		mv := ""
		if l, _ := c14FindAssign(nm.Body, func(e ast.Expr) bool {
			u, ok := e.(*ast.UnaryExpr)
			if !ok || u.Op != token.AND {
				return false
			}
			cl, ok := u.X.(*ast.CompositeLit)
			return ok && c14Text(cl.Type) == "MultiArch"
		}); len(l) == 1 {
			mv = l[0]
		}
		if mv == "" {
			fail("%s: NewMultiArch: `m := &MultiArch{...}` not recognised", multi)
		}
		contextsOf := mv + ".Contexts"
		optsParam := ""
		if nm.Type.Params != nil {
			for _, p := range nm.Type.Params.List {
				if _, ok := p.Type.(*ast.Ellipsis); ok && len(p.Names) == 1 {
					optsParam = p.Names[0].Name
				}
			}
		}
		ctxOK := false
		optsOK := false
		for _, r := range c14Ranges(nm.Body, archsParam, false) {
			v := c14Ident(r.Value)
			for _, as := range c14IndexAssigns(r.Body, contextsOf) {
				if c14Ident(as.Lhs[0].(*ast.IndexExpr).Index) == v && v != "" {
					ctxOK = true
				}
			}
			// shared options: New receives a FRESH copy of the options (slices.Clone, or append onto a clone / nil / an
			// empty literal) followed by WithArch(arch) and nothing else, whatever the locals are called
			if optsParam != "" && v != "" {
				env := c14RunSliceAssigns(r.Body.List, map[string]bool{optsParam: true})
				ast.Inspect(r.Body, func(n ast.Node) bool {
					c, ok := n.(*ast.CallExpr)
					if !ok || c14Text(c.Fun) != "New" || len(c.Args) != 3 || !c.Ellipsis.IsValid() {
						return true
					}
					got := c14SliceOf(c.Args[2], env, map[string]bool{optsParam: true})
					if got.known && got.fresh && len(got.elems) == 2 && got.elems[0] == "<"+optsParam+">..." && got.elems[1] == "WithArch("+v+")" {
						optsOK = true
					}
					return true
				})
			}
		}
		if !ctxOK {
			fail("%s: NewMultiArch: `for _, arch := range %s { ... %s[arch] = c }` not recognised", multi, archsParam, contextsOf)
		}
		add("contexts-keyed-by", "the architecture")
		if !optsOK {
			fail("%s: NewMultiArch: every context is not built from a fresh copy of %s + WithArch(arch)", multi, optsParam)
		}
		add("context-options", "clone of the shared options + WithArch(arch)")
		// ByArch: `for arch, bc := range m.Contexts { apks[KEY] = bc.apk }`
		var keyExpr ast.Expr
		keyVar := ""
		mapName := ""
		for _, r := range c14Ranges(nm.Body, contextsOf, false) {
			k, v := c14Ident(r.Key), c14Ident(r.Value)
			ast.Inspect(r.Body, func(n ast.Node) bool {
				as, ok := n.(*ast.AssignStmt)
				if !ok || len(as.Lhs) != 1 || len(as.Rhs) != 1 {
					return true
				}
				ix, ok := as.Lhs[0].(*ast.IndexExpr)
				if ok && v != "" && c14Text(as.Rhs[0]) == v+".apk" {
					if keyExpr != nil {
						fail("%s: NewMultiArch: more than one `map[key] = bc.apk` assignment", multi)
					}
					keyExpr, keyVar, mapName = ix.Index, k, c14Text(ix.X)
				}
				return true
			})
		}
		if keyExpr == nil || keyVar == "" {
			fail("%s: NewMultiArch: `for arch, bc := range m.Contexts { apks[<key>] = bc.apk }` not recognised", multi)
		} else {
			src := regexp.MustCompile(`\b`+regexp.QuoteMeta(keyVar)+`\b`).ReplaceAllString(c14Text(keyExpr), "arch")
			body, ok := c14KeyFunction(keyExpr, keyVar, vars)
			if !ok {
				fail("%s: NewMultiArch: the ByArch key `%s` is not an expression this translator can evaluate (String(), string(arch), or a method of the ToAPK shape)", multi, src)
				body = "a"
			}
			g.def("byarch_key_src", "string", coqStr(src), multi+" NewMultiArch at "+g.pos(keyExpr)+": the expression that keys the ByArch map (range variable written `arch`)")
			fmt.Fprintf(&g.buf, "(* the same expression evaluated on an architecture string *)\nDefinition byarch_key (a : string) : string := %s.\n", body)
			// every context receives that very map
			shared := false
			for _, r := range c14Ranges(nm.Body, contextsOf, false) {
				v := c14Ident(r.Value)
				ast.Inspect(r.Body, func(n ast.Node) bool {
					if as, ok := n.(*ast.AssignStmt); ok && len(as.Lhs) == 1 && len(as.Rhs) == 1 &&
						c14Text(as.Lhs[0]) == v+".apk.ByArch" && c14Text(as.Rhs[0]) == mapName {
						shared = true
					}
					return true
				})
			}
			if !shared {
				fail("%s: NewMultiArch: `for _, bc := range m.Contexts { bc.apk.ByArch = %s }` not recognised", multi, mapName)
			}
			add("byarch-assigned", "the one map, to every context")
		}
	}

	// ---- ResolveWorld ---------------------------------------------------------
	rw := findFunc(impl, "APK", "ResolveWorld")
	if rw != nil {
		recv := c08Recv(rw)
		own := ""        // the identifier bound to recv.GetRepositoryIndexes(...)
		resolverOf := "" // the argument of NewPkgResolver
		resolverVar := ""
		for _, st := range rw.Body.List {
			as, ok := st.(*ast.AssignStmt)
			if !ok || len(as.Rhs) != 1 {
				continue
			}
			c, ok := as.Rhs[0].(*ast.CallExpr)
			if !ok {
				continue
			}
			switch c14Text(c.Fun) {
			case recv + ".GetRepositoryIndexes":
				own = c14Ident(as.Lhs[0])
			case "NewPkgResolver":
				if len(c.Args) == 2 {
					resolverOf = c14Ident(c.Args[1])
					resolverVar = c14Ident(as.Lhs[0])
				}
			}
		}
		if own == "" || resolverOf != own {
			fail("%s: ResolveWorld: `indexes := a.GetRepositoryIndexes(...)` followed by `NewPkgResolver(ctx, indexes)` not recognised", impl)
		}
		rs := c14Ranges(rw.Body, recv+".ByArch", false)
		if len(rs) != 1 {
			fail("%s: ResolveWorld: expected exactly one loop over %s.ByArch, found %d", impl, recv, len(rs))
		} else {
			r := rs[0]
			k, v := c14Ident(r.Key), c14Ident(r.Value)
			ownShared, sibLoaded := false, false
			mapName := ""
			for _, st := range r.Body.List {
				switch x := st.(type) {
				case *ast.IfStmt: // if otherAPK == a { allArchs[otherArch] = indexes; continue }
					c := c14Text(x.Cond)
					if (c == v+" == "+recv || c == recv+" == "+v) && x.Else == nil {
						for _, s := range x.Body.List {
							if a, ok := s.(*ast.AssignStmt); ok && len(a.Lhs) == 1 && len(a.Rhs) == 1 {
								if ix, ok := a.Lhs[0].(*ast.IndexExpr); ok && c14Ident(ix.Index) == k && c14Ident(a.Rhs[0]) == own {
									mapName = c14Text(ix.X)
									ownShared = true
								}
							}
						}
						if len(x.Body.List) == 0 {
							ownShared = false
						} else if b, ok := x.Body.List[len(x.Body.List)-1].(*ast.BranchStmt); !ok || b.Tok != token.CONTINUE {
							ownShared = false
						}
					}
				case *ast.AssignStmt:
					if len(x.Rhs) == 1 {
						if c, ok := x.Rhs[0].(*ast.CallExpr); ok && c14Text(c.Fun) == v+".GetRepositoryIndexes" && len(x.Lhs) >= 1 {
							loaded := c14Ident(x.Lhs[0])
							// ... and allArchs[otherArch] = <loaded> later in the body
							for _, as := range c14IndexAssigns(r.Body, mapName) {
								if mapName != "" && c14Ident(as.Lhs[0].(*ast.IndexExpr).Index) == k && c14Ident(as.Rhs[0]) == loaded && as.Pos() > x.Pos() {
									sibLoaded = true
								}
							}
						}
					}
				}
			}
			if !ownShared {
				fail("%s: ResolveWorld: inside the loop over %s.ByArch, `if otherAPK == %s { allArchs[otherArch] = %s; continue }` (the resolver's own index objects, fix f441d90) not recognised", impl, recv, recv, own)
			}
			if !sibLoaded {
				fail("%s: ResolveWorld: the siblings' lists are not `otherAPK.GetRepositoryIndexes(...)` stored under the ByArch key", impl)
			}
			add("resolveworld-ranges-over", "ByArch of the receiver")
			add("resolveworld-own-architecture", "the index objects the resolver was built from")
			add("resolveworld-siblings", "GetRepositoryIndexes of the sibling, under the ByArch key")
			// passed on: resolver.GetPackagesWithDependencies(ctx, world, allArchs)
			passed := false
			ast.Inspect(rw.Body, func(n ast.Node) bool {
				if c, ok := n.(*ast.CallExpr); ok && c14Text(c.Fun) == resolverVar+".GetPackagesWithDependencies" && len(c.Args) == 3 && c14Text(c.Args[2]) == mapName {
					passed = true
				}
				return true
			})
			if !passed || mapName == "" {
				fail("%s: ResolveWorld: the collected map is not the third argument of resolver.GetPackagesWithDependencies", impl)
			}
			add("resolveworld-passes", "the collected map as allArchs")
		}
	}
	// ResolveAndCalculateWorld goes through ResolveWorld
	if rc := findFunc(impl, "APK", "ResolveAndCalculateWorld"); rc != nil {
		recv := c08Recv(rc)
		through := false
		ast.Inspect(rc.Body, func(n ast.Node) bool {
			if c, ok := n.(*ast.CallExpr); ok && c14Text(c.Fun) == recv+".ResolveWorld" {
				through = true
			}
			return true
		})
		if !through {
			fail("%s: ResolveAndCalculateWorld does not call ResolveWorld", impl)
		}
		add("resolve-and-calculate-world", "through ResolveWorld")
	}

	// ---- GetPackagesWithDependencies: where the initial set comes from -----------
	if gp := findFunc(repoGo, "PkgResolver", "GetPackagesWithDependencies"); gp != nil {
		third := ""
		if gp.Type.Params != nil {
			var names []string
			for _, p := range gp.Type.Params.List {
				for _, id := range p.Names {
					names = append(names, id.Name)
				}
			}
			if len(names) == 3 {
				third = names[2]
			}
		}
		src := ""
		ast.Inspect(gp.Body, func(n ast.Node) bool {
			as, ok := n.(*ast.AssignStmt)
			if ok && len(as.Lhs) == 1 && len(as.Rhs) == 1 && c14Ident(as.Lhs[0]) == "dq" && as.Tok == token.DEFINE && src == "" {
				if c, ok := as.Rhs[0].(*ast.CallExpr); ok && len(c.Args) == 2 && c14Text(c.Args[1]) == third {
					src = c14Text(c.Fun)
				} else {
					src = "other:" + c14Text(as.Rhs[0])
				}
			}
			return true
		})
		if src != "globalDisqualifyCache.Get" {
			fail("%s: GetPackagesWithDependencies: `dq := globalDisqualifyCache.Get(ctx, allArchs)` on its third parameter not recognised (found %q)", repoGo, src)
		}
		add("initial-set", "globalDisqualifyCache.Get of the allArchs parameter")
	}

	// ---- disqualifyDifference --------------------------------------------------------
	// Local names are discovered from the statements that bind them, so that
	// renaming a local is not a change of shape.
	parts := []string{}
	if dd := findFunc(repoGo, "", "disqualifyDifference"); dd != nil {
		byArch := ""
		if dd.Type.Params != nil && len(dd.Type.Params.List) == 2 && len(dd.Type.Params.List[1].Names) == 1 {
			byArch = dd.Type.Params.List[1].Names[0].Name
		}
		// the result: `dq := map[*RepositoryPackage]string{}` ... `return dq`
		dq := ""
		if l, _ := c14FindAssign(dd.Body, func(e ast.Expr) bool {
			cl, ok := e.(*ast.CompositeLit)
			return ok && c14Text(cl.Type) == "map[*RepositoryPackage]string" && len(cl.Elts) == 0
		}); len(l) == 1 {
			dq = l[0]
		}
		if n := len(dd.Body.List); dq == "" || n == 0 {
			fail("%s: disqualifyDifference: `dq := map[*RepositoryPackage]string{}` not recognised", repoGo)
		} else if rs, ok := dd.Body.List[n-1].(*ast.ReturnStmt); !ok || len(rs.Results) != 1 || c14Ident(rs.Results[0]) != dq {
			fail("%s: disqualifyDifference does not end with `return %s`", repoGo, dq)
		}
		// early return: `if len(byArch) == 1 { return dq }`
		early := false
		for _, st := range dd.Body.List {
			if is, ok := st.(*ast.IfStmt); ok && c14Text(is.Cond) == "len("+byArch+") == 1" && len(is.Body.List) == 1 && is.Else == nil {
				if rs, ok := is.Body.List[0].(*ast.ReturnStmt); ok && len(rs.Results) == 1 && c14Ident(rs.Results[0]) == dq {
					early = true
				}
			}
		}
		if !early {
			fail("%s: disqualifyDifference: `if len(%s) == 1 { return %s }` not recognised", repoGo, byArch, dq)
		}
		add("dq-one-architecture", "returns the empty set")
		// first loop: for arch, indexes := range byArch { for _, index := range indexes { for _, pkg := range index.Packages() {
		//   versions := allowed[pkg.Name] ...; versions[pkg.Version] = struct{}{}; allowed[pkg.Name] = versions } }; perArch[arch] = allowed }
		perArch := ""
		recorded := false
		for _, r := range c14Ranges(dd.Body, byArch, false) {
			k, v := c14Ident(r.Key), c14Ident(r.Value)
			if k == "" || v == "" {
				continue
			}
			for _, ri := range c14Ranges(r.Body, v, false) {
				ixv := c14Ident(ri.Value)
				for _, rp := range c14Ranges(ri.Body, ixv+".Packages()", false) {
					pv := c14Ident(rp.Value)
					if pv == "" {
						continue
					}
					// versions[pkg.Version] = struct{}{}
					var vs, allowed string
					ast.Inspect(rp.Body, func(n ast.Node) bool {
						as, ok := n.(*ast.AssignStmt)
						if !ok || len(as.Lhs) != 1 || len(as.Rhs) != 1 || as.Tok != token.ASSIGN {
							return true
						}
						ix, ok := as.Lhs[0].(*ast.IndexExpr)
						if !ok {
							return true
						}
						if c14Text(ix.Index) == pv+".Version" && c14Text(as.Rhs[0]) == "struct{}{}" {
							vs = c14Ident(ix.X)
						}
						if c14Text(ix.Index) == pv+".Name" && vs != "" && c14Ident(as.Rhs[0]) == vs {
							allowed = c14Ident(ix.X)
						}
						return true
					})
					if vs == "" || allowed == "" {
						continue
					}
					// the set written to is the one read from allowed[pkg.Name]
					if l, _ := c14FindAssign(rp.Body, c14TextIs(allowed+"["+pv+".Name]")); len(l) < 1 || l[0] != vs {
						continue
					}
					// perArch[arch] = allowed
					ast.Inspect(r.Body, func(n ast.Node) bool {
						as, ok := n.(*ast.AssignStmt)
						if ok && len(as.Lhs) == 1 && len(as.Rhs) == 1 && c14Ident(as.Rhs[0]) == allowed {
							if ix, ok := as.Lhs[0].(*ast.IndexExpr); ok && c14Ident(ix.Index) == k {
								perArch = c14Text(ix.X)
								recorded = true
							}
						}
						return true
					})
				}
			}
		}
		if !recorded {
			fail("%s: disqualifyDifference: the loop that records, per architecture, name -> set of versions of every package of every index is not recognised", repoGo)
		}
		// second loop: both levels range over perArch
		allPairs := false
		for _, o := range c14Ranges(dd.Body, perArch, false) {
			ok1 := c14Ident(o.Key)
			if ok1 == "" || perArch == "" {
				continue
			}
			// the resolver of that architecture: p := newPkgResolver(ctx, byArch[arch])
			pl, pas := c14FindAssign(o.Body, func(e ast.Expr) bool {
				c, ok := e.(*ast.CallExpr)
				return ok && c14Text(c.Fun) == "newPkgResolver" && len(c.Args) == 2 && c14Text(c.Args[1]) == byArch+"["+ok1+"]"
			})
			if pas == nil || len(pl) != 1 || pl[0] == "" {
				continue
			}
			pr := pl[0]
			for _, in := range c14Ranges(o.Body, perArch, false) {
				if in == o {
					continue
				}
				ik, iv := c14Ident(in.Key), c14Ident(in.Value)
				if ik == "" || iv == "" || len(in.Body.List) != 2 {
					continue
				}
				// skip test, then the marking loop; nothing else (a `break` would stop at the first sibling)
				is, ok := in.Body.List[0].(*ast.IfStmt)
				if !ok || len(is.Body.List) != 1 || is.Else != nil || is.Init != nil {
					continue
				}
				c := c14Text(is.Cond)
				br, isBr := is.Body.List[0].(*ast.BranchStmt)
				if !(c == ik+" == "+ok1 || c == ok1+" == "+ik) || !isBr || br.Tok != token.CONTINUE || br.Label != nil {
					continue
				}
				// every package of the resolver: for _, pkgVersions := range p.nameMap { for _, pkg := range pkgVersions {
				rn, ok := in.Body.List[1].(*ast.RangeStmt)
				if !ok || c14Text(rn.X) != pr+".nameMap" || c14Ident(rn.Value) == "" || len(rn.Body.List) != 1 {
					continue
				}
				rpk, ok := rn.Body.List[0].(*ast.RangeStmt)
				if !ok || c14Ident(rpk.X) != c14Ident(rn.Value) || c14Ident(rpk.Value) == "" {
					continue
				}
				pv := c14Ident(rpk.Value)
				// body: a package is marked (dq[pkg.RepositoryPackage] = <message>) exactly when its name is absent from
				// `allowed` or its version is absent under the name - in whichever control-flow spelling: the body is
				// interpreted on the three cases name-absent / version-absent / both-present
				message := func(rhs ast.Expr) bool { // fmt.Sprintf(FMT, pkg.Filename(), otherArch)
					call, ok := rhs.(*ast.CallExpr)
					if !ok || c14Text(call.Fun) != "fmt.Sprintf" || len(call.Args) != 3 || c14Text(call.Args[1]) != pv+".Filename()" || c14Ident(call.Args[2]) != ik {
						return false
					}
					f, ok := strLit(call.Args[0])
					if !ok || strings.Count(f, "%q") != 2 || strings.Count(f, "%") != 2 {
						return false
					}
					if len(parts) != 0 && strings.Join(parts, "%q") != f {
						return false
					}
					parts = strings.Split(f, "%q")
					return true
				}
				noName, noVer, both, understood, why := c14MarkCases(rpk.Body.List, iv, pv, dq, message)
				if !understood {
					fail("%s: disqualifyDifference: the body of the marking loop is not understood (%s); expected lookups `%s[%s.Name]` / `<versions>[%s.Version]`, boolean tests and `%s[%s.RepositoryPackage] = fmt.Sprintf(<two %%q>, %s.Filename(), %s)`", repoGo, why, iv, pv, pv, dq, pv, pv, ik)
					continue
				}
				if !noName || !noVer || both {
					fail("%s: disqualifyDifference: a package must be marked exactly when its name is absent from the sibling or its version is absent under the name; the loop body marks: name absent=%v, version absent=%v, both present=%v", repoGo, noName, noVer, both)
					continue
				}
				allPairs = true
			}
		}
		if !allPairs {
			fail("%s: disqualifyDifference: the marking loops do not range over all ordered pairs of architectures (`for arch := range %s { p := newPkgResolver(ctx, %s[arch]); for otherArch, allowed := range %s { if otherArch == arch { continue }; <every package of p> } }`)", repoGo, perArch, byArch, perArch)
		}
		add("dq-loops", "all ordered pairs of distinct architectures")
		add("dq-compares", "Name+Version")
		add("dq-marks", "every package of the architecture's own resolver (nameMap), by package object")
	}
	if len(parts) != 3 {
		parts = []string{"", "", ""}
	}
	g.def("dq_message_parts", "list string", coqStrList(parts), repoGo+" disqualifyDifference: the message format split at its two %q verbs (arguments: pkg.Filename(), the other architecture)")

	// ---- disqualifyCache.Get: the key -----------------------------------------------------
	if dg := findFunc(caches, "disqualifyCache", "Get"); dg != nil {
		recv := c08Recv(dg)
		byArch := ""
		if dg.Type.Params != nil && len(dg.Type.Params.List) == 2 && len(dg.Type.Params.List[1].Names) == 1 {
			byArch = dg.Type.Params.List[1].Names[0].Name
		}
		// the concatenation of all the map's value lists: by the library call or by range + append onto an empty slice
		ixs := c14ConcatOfMap(dg.Body, byArch)
		sortBy := "other"
		ast.Inspect(dg.Body, func(n ast.Node) bool {
			c, ok := n.(*ast.CallExpr)
			if !ok || c14Text(c.Fun) != "slices.SortFunc" || len(c.Args) != 2 || c14Ident(c.Args[0]) != ixs {
				return true
			}
			fl, ok := c.Args[1].(*ast.FuncLit)
			if !ok || len(fl.Body.List) != 1 || fl.Type.Params == nil {
				return true
			}
			var ps []string
			for _, f := range fl.Type.Params.List {
				for _, id := range f.Names {
					ps = append(ps, id.Name)
				}
			}
			if rs, ok := fl.Body.List[0].(*ast.ReturnStmt); ok && len(ps) == 2 && len(rs.Results) == 1 &&
				(c14Text(rs.Results[0]) == "strings.Compare("+ps[0]+".Name(), "+ps[1]+".Name())" ||
					c14Text(rs.Results[0]) == "cmp.Compare("+ps[0]+".Name(), "+ps[1]+".Name())") { // the three-way comparison of the two names
				sortBy = "Name()"
			}
			return true
		})
		// hit: `if dq := r.find(indexes); dq != nil { return maps.Clone(dq) }`
		hit := false
		ast.Inspect(dg.Body, func(n ast.Node) bool {
			is, ok := n.(*ast.IfStmt)
			if !ok || is.Init == nil || is.Else != nil || len(is.Body.List) != 1 {
				return true
			}
			ia, ok := is.Init.(*ast.AssignStmt)
			if !ok || len(ia.Lhs) != 1 || len(ia.Rhs) != 1 ||
				(c14Text(ia.Rhs[0]) != recv+".find("+ixs+")" && c14Text(ia.Rhs[0]) != recv+".find("+ixs+", "+byArch+")") {
				return true
			}
			d := c14Ident(ia.Lhs[0])
			if rs, ok := is.Body.List[0].(*ast.ReturnStmt); ok && c14Text(is.Cond) == d+" != nil" && len(rs.Results) == 1 && c14Text(rs.Results[0]) == "maps.Clone("+d+")" {
				hit = true
			}
			return true
		})
		// miss: `dq := disqualifyDifference(ctx, byArch); r.fill(indexes, dq); return maps.Clone(dq)`
		miss := false
		if l, _ := c14FindAssign(dg.Body, func(e ast.Expr) bool {
			c, ok := e.(*ast.CallExpr)
			return ok && c14Text(c.Fun) == "disqualifyDifference" && len(c.Args) == 2 && c14Ident(c.Args[1]) == byArch
		}); len(l) == 1 && l[0] != "" {
			d := l[0]
			filled := false
			ast.Inspect(dg.Body, func(n ast.Node) bool {
				if es, ok := n.(*ast.ExprStmt); ok && (c14Text(es.X) == recv+".fill("+ixs+", "+d+")" || c14Text(es.X) == recv+".fill("+ixs+", "+byArch+", "+d+")") {
					filled = true
				}
				return true
			})
			if n := len(dg.Body.List); n > 0 && filled {
				if rs, ok := dg.Body.List[n-1].(*ast.ReturnStmt); ok && len(rs.Results) == 1 && c14Text(rs.Results[0]) == "maps.Clone("+d+")" {
					miss = true
				}
			}
		}
		trie := ""
		if f := load(caches); f != nil {
			ast.Inspect(f, func(n ast.Node) bool {
				ts, ok := n.(*ast.TypeSpec)
				if !ok || ts.Name.Name != "disqualifyCache" {
					return true
				}
				if st, ok := ts.Type.(*ast.StructType); ok {
					for _, fld := range st.Fields.List {
						for _, id := range fld.Names {
							if id.Name == "children" {
								trie = c14Text(fld.Type)
							}
						}
					}
				}
				return false
			})
		}
		// find / fill descend by the index object itself
		byObj := trie == "map[NamedIndex]*disqualifyCache"
		for _, fn := range []string{"find", "fill"} {
			fd := findFunc(caches, "disqualifyCache", fn)
			if fd == nil || fd.Type.Params == nil || len(fd.Type.Params.List) < 1 || len(fd.Type.Params.List[0].Names) != 1 {
				byObj = false
				continue
			}
			p := fd.Type.Params.List[0].Names[0].Name
			rv := c08Recv(fd)
			t := c14Text(fd.Body)
			if !strings.Contains(t, rv+".children["+p+"[0]]") || strings.Contains(t, p+"[0].") || !strings.Contains(t, "("+p+"[1:]") {
				byObj = false
			}
		}
		if ixs == "" || sortBy == "other" || !miss || !hit || !byObj {
			fail("%s: disqualifyCache.Get: key = concatenation of the map's values sorted by Name(), looked up by index OBJECT in a trie, hit returns a clone, miss computes disqualifyDifference and fills — not recognised (concat=%v sort=%q hit=%v miss=%v trie=%q by-object=%v)", caches, ixs != "", sortBy, hit, miss, trie, byObj)
		}
		add("dq-cache-key", "concatenation of the map's values, sorted by Name(), compared by index object")
		// what a node of the trie holds (one entry per grouping since fix 3541d7b): described, not refused (gen_c08.go)
		add("dq-cache-node", strings.Join(c08DqNode(), "; "))
		add("dq-cache-hit", "a clone of the stored set")
		add("dq-cache-miss", "disqualifyDifference of the call's own map, stored under the key")
		// one critical section: lookup, computation and store of concurrent calls cannot interleave
		// (the model's Get is atomic; an entry is never visible before its set is complete)
		unlocks := 0
		ast.Inspect(dg.Body, func(n ast.Node) bool {
			if c, ok := n.(*ast.CallExpr); ok && c14Text(c.Fun) == recv+".Unlock" {
				unlocks++
			}
			return true
		})
		if !c08Locked(dg) || unlocks != 1 {
			fail("%s: disqualifyCache.Get does not hold its mutex for the whole call (`%s.Lock(); defer %s.Unlock()` first, no other Unlock): an entry could be seen by a concurrent call before its set is complete", caches, recv, recv)
		}
		add("dq-cache-critical-section", "the whole call: Lock, defer Unlock first, no other Unlock")
	}

	var items []string
	for _, kv := range shape {
		items = append(items, "("+coqStr(kv[0])+", "+coqStr(kv[1])+")")
	}
	g.def("wiring_shape", "list (string * string)", "["+strings.Join(items, ";\n   ")+"]", "what the source looks like where Model/MultiArch.v transcribes it (in source order)")
	g.write()
}
