package main

// C14: readers that recognise a CLASS of spellings instead of one text
// (behaviour-preserving rewrites of the source must not break the tie):
//   * c14SliceOf     what a []Option expression holds and whether it is a fresh
//                    copy (slices.Clone, append onto a clone / nil / empty literal),
//                    over the straight-line assignments of a loop body;
//   * c14ConcatOfMap a local that holds the concatenation of all value lists of a
//                    map, built by the library call or by range + append onto an
//                    empty slice;
//   * c14MarkCases   the body of disqualifyDifference's marking loop interpreted
//                    symbolically on the three cases name-absent / version-absent /
//                    both-present.

import (
	"go/ast"
	"go/token"
	"strings"
)

// ---- slices of options ---------------------------------------------------------

type c14Slice struct {
	known bool
	fresh bool     // shares no backing array with a parameter
	elems []string // "<name>..." for all elements of parameter name, otherwise the element's text
}

func c14EmptySliceExpr(e ast.Expr) bool {
	switch x := e.(type) {
	case *ast.Ident:
		return x.Name == "nil"
	case *ast.CompositeLit:
		_, isArr := x.Type.(*ast.ArrayType)
		return isArr && len(x.Elts) == 0
	case *ast.CallExpr:
		if _, isArr := x.Fun.(*ast.ArrayType); isArr && len(x.Args) == 1 { // []T(nil)
			return c14EmptySliceExpr(x.Args[0])
		}
		if c14Ident(x.Fun) == "make" && len(x.Args) >= 2 {
			if _, isArr := x.Args[0].(*ast.ArrayType); isArr {
				if n, ok := intLit(x.Args[1]); ok && n == 0 {
					return true
				}
			}
		}
	case *ast.ParenExpr:
		return c14EmptySliceExpr(x.X)
	}
	return false
}

// c14SliceOf evaluates e under env (locals bound so far); params are slice parameters of the function
func c14SliceOf(e ast.Expr, env map[string]c14Slice, params map[string]bool) c14Slice {
	switch x := e.(type) {
	case *ast.ParenExpr:
		return c14SliceOf(x.X, env, params)
	case *ast.Ident:
		if v, ok := env[x.Name]; ok {
			return v
		}
		if params[x.Name] {
			return c14Slice{known: true, fresh: false, elems: []string{"<" + x.Name + ">..."}}
		}
	case *ast.CallExpr:
		switch c14Text(x.Fun) {
		case "slices.Clone":
			if len(x.Args) == 1 {
				v := c14SliceOf(x.Args[0], env, params)
				if v.known {
					return c14Slice{known: true, fresh: true, elems: append([]string(nil), v.elems...)}
				}
			}
			return c14Slice{}
		case "append":
			if len(x.Args) == 0 {
				return c14Slice{}
			}
			base := c14SliceOf(x.Args[0], env, params)
			if !base.known {
				return c14Slice{}
			}
			out := c14Slice{known: true, fresh: base.fresh, elems: append([]string(nil), base.elems...)}
			if x.Ellipsis.IsValid() {
				if len(x.Args) != 2 {
					return c14Slice{}
				}
				tail := c14SliceOf(x.Args[1], env, params)
				if !tail.known {
					return c14Slice{}
				}
				out.elems = append(out.elems, tail.elems...)
				return out
			}
			for _, a := range x.Args[1:] {
				out.elems = append(out.elems, c14Text(a))
			}
			return out
		}
	}
	if c14EmptySliceExpr(e) {
		return c14Slice{known: true, fresh: true}
	}
	return c14Slice{}
}

// c14RunSliceAssigns walks the statements of a block in order and tracks the slice locals
func c14RunSliceAssigns(list []ast.Stmt, params map[string]bool) map[string]c14Slice {
	env := map[string]c14Slice{}
	for _, st := range list {
		switch x := st.(type) {
		case *ast.AssignStmt:
			if len(x.Lhs) == len(x.Rhs) {
				for i, l := range x.Lhs {
					if id := c14Ident(l); id != "" && id != "_" {
						if v := c14SliceOf(x.Rhs[i], env, params); v.known {
							env[id] = v
						} else {
							delete(env, id)
						}
					} else if ix, ok := l.(*ast.IndexExpr); ok { // an element overwritten: no longer what we computed
						delete(env, c14Ident(ix.X))
					}
				}
			} else {
				for _, l := range x.Lhs {
					delete(env, c14Ident(l))
				}
			}
		case *ast.DeclStmt:
			if gd, ok := x.Decl.(*ast.GenDecl); ok && gd.Tok == token.VAR {
				for _, s := range gd.Specs {
					vs := s.(*ast.ValueSpec)
					for i, id := range vs.Names {
						if i < len(vs.Values) {
							if v := c14SliceOf(vs.Values[i], env, params); v.known {
								env[id.Name] = v
							}
						} else if _, isArr := vs.Type.(*ast.ArrayType); isArr {
							env[id.Name] = c14Slice{known: true, fresh: true}
						}
					}
				}
			}
		}
	}
	return env
}

// ---- concatenation of a map's value lists ------------------------------------------

// c14ConcatOfMap returns the local of body that holds the concatenation of all
// value lists of the map parameter m: `x := slices.Concat(slices.Collect(maps.Values(m))...)`
// or an empty slice followed by `for _, v := range m { x = append(x, v...) }`
// (or `for k := range m { x = append(x, m[k]...) }`), x not written in between.
func c14ConcatOfMap(body *ast.BlockStmt, m string) string {
	if body == nil || m == "" {
		return ""
	}
	if l, _ := c14FindAssign(body, c14TextIs("slices.Concat(slices.Collect(maps.Values("+m+"))...)")); len(l) == 1 && l[0] != "" {
		return l[0]
	}
	empty := map[string]bool{} // locals known to be empty slices at this point
	for _, st := range body.List {
		switch x := st.(type) {
		case *ast.DeclStmt:
			if gd, ok := x.Decl.(*ast.GenDecl); ok && gd.Tok == token.VAR {
				for _, s := range gd.Specs {
					vs := s.(*ast.ValueSpec)
					for i, id := range vs.Names {
						_, isArr := vs.Type.(*ast.ArrayType)
						if (len(vs.Values) == 0 && isArr) || (i < len(vs.Values) && c14EmptySliceExpr(vs.Values[i])) {
							empty[id.Name] = true
						}
					}
				}
			}
		case *ast.AssignStmt:
			for i, l := range x.Lhs {
				id := c14Ident(l)
				if len(x.Lhs) == len(x.Rhs) && c14EmptySliceExpr(x.Rhs[i]) {
					if _, isNil := x.Rhs[i].(*ast.Ident); !isNil || x.Tok == token.ASSIGN {
						empty[id] = true
						continue
					}
				}
				delete(empty, id)
			}
		case *ast.RangeStmt:
			if c14Text(x.X) != m || len(x.Body.List) != 1 {
				continue
			}
			as, ok := x.Body.List[0].(*ast.AssignStmt)
			if !ok || len(as.Lhs) != 1 || len(as.Rhs) != 1 || as.Tok != token.ASSIGN {
				continue
			}
			acc := c14Ident(as.Lhs[0])
			call, ok := as.Rhs[0].(*ast.CallExpr)
			if !ok || acc == "" || !empty[acc] || c14Ident(call.Fun) != "append" || len(call.Args) != 2 || !call.Ellipsis.IsValid() || c14Ident(call.Args[0]) != acc {
				continue
			}
			k, v := c14Ident(x.Key), c14Ident(x.Value)
			src := c14Text(call.Args[1])
			if (v != "" && v != "_" && src == v) || (k != "" && k != "_" && src == m+"["+k+"]") {
				return acc
			}
		}
	}
	return ""
}

// ---- the marking loop, symbolically ----------------------------------------------------

type c14Val struct {
	kind    int  // 0 unknown, 1 bool, 2 the version set found under the package's name
	b       bool // kind 1
	present bool // kind 2: the name is present (otherwise the zero value: a nil map)
}

type c14Scope struct {
	vars map[string]c14Val
	up   *c14Scope
}

func (s *c14Scope) get(n string) (c14Val, bool) {
	for e := s; e != nil; e = e.up {
		if v, ok := e.vars[n]; ok {
			return v, true
		}
	}
	return c14Val{}, false
}
func (s *c14Scope) set(n string, v c14Val, define bool) {
	if n == "" || n == "_" {
		return
	}
	if !define {
		for e := s; e != nil; e = e.up {
			if _, ok := e.vars[n]; ok {
				e.vars[n] = v
				return
			}
		}
	}
	s.vars[n] = v
}

type c14Mark struct {
	allowed, pkg, dq string // the sibling's name->versions map, the package variable, the result map
	nameIn, verIn    bool   // the case
	isMessage        func(rhs ast.Expr) bool
	marked           bool
	bad              string
}

func (m *c14Mark) lookup(e ast.Expr, sc *c14Scope) (val, ok c14Val, is bool) {
	ix, isIx := e.(*ast.IndexExpr)
	if !isIx {
		return
	}
	if c14Text(ix.X) == m.allowed && c14Text(ix.Index) == m.pkg+".Name" {
		return c14Val{kind: 2, present: m.nameIn}, c14Val{kind: 1, b: m.nameIn}, true
	}
	if s := m.eval(ix.X, sc); s.kind == 2 && c14Text(ix.Index) == m.pkg+".Version" {
		return c14Val{}, c14Val{kind: 1, b: s.present && m.verIn}, true
	}
	return
}

func (m *c14Mark) eval(e ast.Expr, sc *c14Scope) c14Val {
	switch x := e.(type) {
	case *ast.ParenExpr:
		return m.eval(x.X, sc)
	case *ast.Ident:
		switch x.Name {
		case "true":
			return c14Val{kind: 1, b: true}
		case "false":
			return c14Val{kind: 1, b: false}
		}
		if v, ok := sc.get(x.Name); ok {
			return v
		}
	case *ast.UnaryExpr:
		if v := m.eval(x.X, sc); x.Op == token.NOT && v.kind == 1 {
			return c14Val{kind: 1, b: !v.b}
		}
	case *ast.BinaryExpr:
		a, b := m.eval(x.X, sc), m.eval(x.Y, sc)
		if a.kind == 1 && b.kind == 1 {
			switch x.Op {
			case token.LAND:
				return c14Val{kind: 1, b: a.b && b.b}
			case token.LOR:
				return c14Val{kind: 1, b: a.b || b.b}
			case token.EQL:
				return c14Val{kind: 1, b: a.b == b.b}
			case token.NEQ:
				return c14Val{kind: 1, b: a.b != b.b}
			}
		}
		// `versions == nil` / `versions != nil`, `len(versions) == 0` are not read: unknown
	case *ast.IndexExpr:
		if v, _, is := m.lookup(x, sc); is {
			return v
		}
	}
	return c14Val{}
}

// exec returns 0 (falls through), 1 (continue) or -1 (not understood)
func (m *c14Mark) exec(list []ast.Stmt, sc *c14Scope) int {
	for _, st := range list {
		switch x := st.(type) {
		case *ast.EmptyStmt:
		case *ast.BlockStmt:
			if r := m.exec(x.List, &c14Scope{vars: map[string]c14Val{}, up: sc}); r != 0 {
				return r
			}
		case *ast.BranchStmt:
			if x.Tok == token.CONTINUE && x.Label == nil {
				return 1
			}
			m.bad = "branch " + c14Text(x)
			return -1
		case *ast.DeclStmt:
			gd, ok := x.Decl.(*ast.GenDecl)
			if !ok || gd.Tok != token.VAR {
				m.bad = c14Text(x)
				return -1
			}
			for _, s := range gd.Specs {
				vs := s.(*ast.ValueSpec)
				for i, id := range vs.Names {
					switch {
					case i < len(vs.Values):
						sc.set(id.Name, m.eval(vs.Values[i], sc), true)
					case c14Text(vs.Type) == "bool":
						sc.set(id.Name, c14Val{kind: 1, b: false}, true)
					default:
						sc.set(id.Name, c14Val{}, true)
					}
				}
			}
		case *ast.AssignStmt:
			def := x.Tok == token.DEFINE
			if x.Tok != token.DEFINE && x.Tok != token.ASSIGN {
				m.bad = c14Text(x)
				return -1
			}
			if len(x.Lhs) == 2 && len(x.Rhs) == 1 {
				v, ok, is := m.lookup(x.Rhs[0], sc)
				if !is {
					m.bad = c14Text(x)
					return -1
				}
				sc.set(c14Ident(x.Lhs[0]), v, def)
				sc.set(c14Ident(x.Lhs[1]), ok, def)
				continue
			}
			if len(x.Lhs) != len(x.Rhs) {
				m.bad = c14Text(x)
				return -1
			}
			for i, l := range x.Lhs {
				if c14Text(l) == m.dq+"["+m.pkg+".RepositoryPackage]" {
					if !m.isMessage(x.Rhs[i]) {
						m.bad = "message " + c14Text(x.Rhs[i])
						return -1
					}
					m.marked = true
					continue
				}
				id := c14Ident(l)
				if id == "" { // a write to anything else (another map, a field) is not the marking we know
					m.bad = c14Text(x)
					return -1
				}
				sc.set(id, m.eval(x.Rhs[i], sc), def)
			}
		case *ast.IfStmt:
			inner := &c14Scope{vars: map[string]c14Val{}, up: sc}
			if x.Init != nil {
				if r := m.exec([]ast.Stmt{x.Init}, inner); r != 0 {
					return -1
				}
			}
			c := m.eval(x.Cond, inner)
			if c.kind != 1 {
				m.bad = "condition " + c14Text(x.Cond)
				return -1
			}
			var r int
			switch {
			case c.b:
				r = m.exec(x.Body.List, &c14Scope{vars: map[string]c14Val{}, up: inner})
			case x.Else != nil:
				r = m.exec([]ast.Stmt{x.Else}, inner)
			}
			if r != 0 {
				return r
			}
		default:
			m.bad = strings.SplitN(c14Text(st), "{", 2)[0]
			return -1
		}
	}
	return 0
}

// c14MarkCases: is a package marked when (its name is / is not) under allowed and (its
// version is / is not) under the name? ok = the body was understood in all three cases
func c14MarkCases(body []ast.Stmt, allowed, pkg, dq string, isMessage func(ast.Expr) bool) (nameAbsent, verAbsent, present bool, ok bool, why string) {
	run := func(nameIn, verIn bool) (bool, bool, string) {
		m := &c14Mark{allowed: allowed, pkg: pkg, dq: dq, nameIn: nameIn, verIn: verIn, isMessage: isMessage}
		r := m.exec(body, &c14Scope{vars: map[string]c14Val{}})
		return m.marked, r >= 0, m.bad
	}
	var o1, o2, o3 bool
	var w1, w2, w3 string
	nameAbsent, o1, w1 = run(false, false)
	verAbsent, o2, w2 = run(true, false)
	present, o3, w3 = run(true, true)
	return nameAbsent, verAbsent, present, o1 && o2 && o3, strings.TrimSpace(w1 + " " + w2 + " " + w3)
}
