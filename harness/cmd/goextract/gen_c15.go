package main

import (
	"fmt"
	"go/ast"
	"go/token"
	"os"
	"path/filepath"
	"regexp"
	"sort"
	"strconv"
	"strings"
)

// genC15 writes Generated/C15Sites.v: for the functions whose index / slice /
// conversion sites Model/Parsers.v transcribes, the sites themselves and the
// length guards in front of them, in a form that does not depend on the names
// of locals (identifiers, selectors and calls print as `_`, integer and string
// literals and len(..) stay), plus the literals and tables the models use:
//
//   - readReleaseData (pkg/build/sbom.go): whether the scanner's buffer is
//     enlarged, whether scanner.Err() is looked at, the Cut separator, the Trim
//     cutset, the comment prefix;
//   - the repository-line splitter of GetRepositoryIndexes (pkg/apk/apk/index.go);
//   - unify's constraint splitter (pkg/build/lock.go) and the provides loop of
//     LockImageConfiguration;
//   - the three copies of checksumFromHeader;
//   - ExpandApk's `switch numGzipStreams` as a table count -> (signature, control,
//     package) index, what its default arm does, the `signed` test and whether the
//     signature indexings sit under it; the stream limits of expandApkWriter;
//   - Split's appends and ParsePackageInfo's use of the parts;
//   - parseInstalledPerms, parseRepositoryIndex's signature-name test,
//     ParseArchitectures.
func genC15() {
	g := newGen("C15Sites", "From Apko Require Import Base.Prelude.\nOpen Scope string_scope.")

	// ---- generic extraction ------------------------------------------------
	var norm func(e ast.Expr) string
	norm = func(e ast.Expr) string {
		switch x := e.(type) {
		case nil:
			return ""
		case *ast.BasicLit:
			return x.Value
		case *ast.Ident, *ast.SelectorExpr:
			return "_"
		case *ast.ParenExpr:
			return "(" + norm(x.X) + ")"
		case *ast.CallExpr:
			if id, ok := x.Fun.(*ast.Ident); ok && id.Name == "len" && len(x.Args) == 1 {
				return "len(" + norm(x.Args[0]) + ")"
			}
			return "_"
		case *ast.IndexExpr:
			return norm(x.X) + "[" + norm(x.Index) + "]"
		case *ast.SliceExpr:
			s := norm(x.X) + "[" + norm(x.Low) + ":" + norm(x.High)
			if x.Slice3 {
				s += ":" + norm(x.Max)
			}
			return s + "]"
		case *ast.BinaryExpr:
			return norm(x.X) + x.Op.String() + norm(x.Y)
		case *ast.UnaryExpr:
			return x.Op.String() + norm(x.X)
		}
		return "_"
	}
	// sites: every slice expression, and every index expression whose index is
	// not a bare name or a string (map lookups and loop indices print as _[_])
	sites := func(n ast.Node) []string {
		var out []string
		if n == nil {
			return out
		}
		ast.Inspect(n, func(m ast.Node) bool {
			switch x := m.(type) {
			case *ast.SliceExpr:
				out = append(out, norm(x))
			case *ast.IndexExpr:
				// kept: an index with a number or a len(..) in it; map lookups, loop
				// indices and generic instantiations print without either
				ix := norm(x.Index)
				if !strings.HasPrefix(ix, "\"") && !strings.HasPrefix(ix, "`") && (strings.ContainsAny(ix, "0123456789") || strings.Contains(ix, "len(")) {
					out = append(out, norm(x))
				}
			}
			return true
		})
		return out
	}
	flip := map[token.Token]token.Token{token.LSS: token.GTR, token.GTR: token.LSS, token.LEQ: token.GEQ, token.GEQ: token.LEQ, token.EQL: token.EQL, token.NEQ: token.NEQ}
	isLen := func(e ast.Expr) bool {
		c, ok := e.(*ast.CallExpr)
		if !ok {
			return false
		}
		id, ok := c.Fun.(*ast.Ident)
		return ok && id.Name == "len" && len(c.Args) == 1
	}
	// lenGuards: comparisons of a len(..) with an integer literal, len on the left
	lenGuards := func(n ast.Node) []string {
		var out []string
		if n == nil {
			return out
		}
		ast.Inspect(n, func(m ast.Node) bool {
			be, ok := m.(*ast.BinaryExpr)
			if !ok {
				return true
			}
			if _, cmp := flip[be.Op]; !cmp {
				return true
			}
			if _, ok := intLit(be.Y); ok && isLen(be.X) {
				out = append(out, norm(be.X)+" "+be.Op.String()+" "+norm(be.Y))
			} else if _, ok := intLit(be.X); ok && isLen(be.Y) {
				out = append(out, norm(be.Y)+" "+flip[be.Op].String()+" "+norm(be.X))
			}
			return true
		})
		return out
	}
	// string literal arguments of calls to pkg.fn inside n, in source order
	callLits := func(n ast.Node, fn string) [][]string {
		var out [][]string
		if n == nil {
			return out
		}
		ast.Inspect(n, func(m ast.Node) bool {
			c, ok := m.(*ast.CallExpr)
			if !ok || exprText(c.Fun) != fn {
				return true
			}
			var lits []string
			for _, a := range c.Args {
				if s, ok := strLit(a); ok {
					lits = append(lits, s)
				}
			}
			out = append(out, lits)
			return true
		})
		return out
	}
	usesSel := func(n ast.Node, sel string) bool {
		r := false
		if n == nil {
			return r
		}
		ast.Inspect(n, func(m ast.Node) bool {
			if c, ok := m.(*ast.CallExpr); ok {
				if se, ok := c.Fun.(*ast.SelectorExpr); ok && se.Sel.Name == sel {
					r = true
				}
			}
			return true
		})
		return r
	}
	firstLit := func(where string, ls [][]string) string {
		if len(ls) == 0 || len(ls[0]) == 0 {
			fail("%s: literal argument not found", where)
			return ""
		}
		return ls[0][len(ls[0])-1]
	}
	// sorted: reordering independent statements of the source does not change the lists
	sorted := func(l []string) []string {
		o := append([]string{}, l...)
		sort.Strings(o)
		return o
	}
	defSites := func(name string, n ast.Node, what string) {
		g.def(name+"_sites", "list string", coqStrList(sorted(sites(n))), "slice / constant-index expressions of "+what+" (names erased, sorted)")
		g.def(name+"_len_guards", "list string", coqStrList(sorted(lenGuards(n))), "comparisons of a len(..) with a constant in "+what+" (sorted)")
	}

	// ---- readReleaseData ------------------------------------------------------
	if fd := findFunc("pkg/build/sbom.go", "", "readReleaseData"); fd != nil {
		g.def("release_sets_scanner_buffer", "bool", fmt.Sprint(usesSel(fd, "Buffer")), "readReleaseData calls Scanner.Buffer (false: bufio.MaxScanTokenSize = 64 KiB applies)")
		g.def("release_checks_scanner_err", "bool", fmt.Sprint(usesSel(fd, "Err")), "readReleaseData looks at scanner.Err()")
		// the pinned facts are the LITERALS and what they are used for, not the names of the calls:
		//   split at the first separator = strings.Cut | strings.Index / IndexByte (+ slices) | strings.SplitN(_, lit, 2)
		//   cutset trimmed from both ends = strings.Trim | TrimLeft + TrimRight | a HasPrefix loop and a HasSuffix loop over the same literal
		//   prefix of skipped lines       = an `if` whose body is `continue`: strings.HasPrefix(_, lit) | _[0] == 'c'
		// an unrecognised spelling becomes "other:…": only C15's own pin (c15_sites_pinned / the proofs that use it) notices
		litText := func(e ast.Expr) (string, bool) {
			if v, ok := strLit(e); ok {
				return v, true
			}
			if bl, ok := e.(*ast.BasicLit); ok && bl.Kind == token.CHAR {
				if r, _, _, err := strconv.UnquoteChar(strings.Trim(bl.Value, "'"), '\''); err == nil {
					return string(r), true
				}
			}
			return "", false
		}
		callLit := func(n ast.Node, fns ...string) (string, bool) {
			found, ok := "", false
			ast.Inspect(n, func(m ast.Node) bool {
				c, isCall := m.(*ast.CallExpr)
				if !isCall || ok {
					return true
				}
				for _, fn := range fns {
					if exprText(c.Fun) == fn {
						for _, a := range c.Args[1:] {
							if v, isLit := litText(a); isLit {
								found, ok = v, true
								return true
							}
						}
					}
				}
				return true
			})
			return found, ok
		}
		sep := "other:no split at a separator literal recognised"
		if v, ok := callLit(fd, "strings.Cut"); ok {
			sep = v
		} else if v, ok := callLit(fd, "strings.Index", "strings.IndexByte", "strings.IndexRune", "strings.SplitN"); ok {
			sep = v
		}
		cutset := "other:no trimming of both ends by a literal recognised"
		if v, ok := callLit(fd, "strings.Trim"); ok {
			cutset = v
		} else {
			l, okl := callLit(fd, "strings.TrimLeft", "strings.TrimPrefix")
			r, okr := callLit(fd, "strings.TrimRight", "strings.TrimSuffix")
			if !okl || !okr {
				// loops `for strings.HasPrefix(v, lit) { … }` / `for strings.HasSuffix(v, lit) { … }`
				ast.Inspect(fd, func(m ast.Node) bool {
					if fs, isFor := m.(*ast.ForStmt); isFor && fs.Cond != nil {
						if v, ok := callLit(fs.Cond, "strings.HasPrefix"); ok {
							l, okl = v, true
						}
						if v, ok := callLit(fs.Cond, "strings.HasSuffix"); ok {
							r, okr = v, true
						}
					}
					return true
				})
			}
			if okl && okr && l == r {
				cutset = l
			}
		}
		comment := "other:no skipped-line prefix recognised"
		ast.Inspect(fd, func(m ast.Node) bool {
			is, isIf := m.(*ast.IfStmt)
			if !isIf || strings.HasPrefix(comment, "other:") == false || len(is.Body.List) != 1 {
				return true
			}
			if bs, isBr := is.Body.List[0].(*ast.BranchStmt); !isBr || bs.Tok != token.CONTINUE {
				return true
			}
			if v, ok := callLit(is.Cond, "strings.HasPrefix"); ok {
				comment = v
			} else if be, isBin := is.Cond.(*ast.BinaryExpr); isBin && be.Op == token.EQL {
				if ie, isIdx := be.X.(*ast.IndexExpr); isIdx {
					if z, isZ := intLit(ie.Index); isZ && z == 0 {
						if v, ok := litText(be.Y); ok {
							comment = v
						}
					}
				}
			}
			return true
		})
		g.def("release_cut_sep", "string", coqStr(sep), "separator of strings.Cut")
		g.def("release_trim_cutset", "string", coqStr(cutset), "cutset of strings.Trim")
		g.def("release_comment_prefix", "string", coqStr(comment), "prefix of skipped lines")
		defSites("release", fd.Body, "readReleaseData")
	}

	// ---- GetRepositoryIndexes: the `@tag url` splitter ------------------------
	if fd := findFunc("pkg/apk/apk/index.go", "", "GetRepositoryIndexes"); fd != nil {
		g.def("repo_line_pin_prefix", "string", coqStr(firstLit("GetRepositoryIndexes: strings.HasPrefix", callLits(fd, "strings.HasPrefix"))), "prefix of a pinned repository line")
		g.def("repo_line_uses_fields", "bool", fmt.Sprint(len(callLits(fd, "strings.Fields")) == 1), "the line is cut with strings.Fields, once")
		defSites("repo_line", fd.Body, "GetRepositoryIndexes")
	}

	// ---- unify / LockImageConfiguration ----------------------------------------
	if fd := findFunc("pkg/build/lock.go", "", "unify"); fd != nil {
		ia := callLits(fd, "strings.IndexAny")
		if len(ia) != 2 || len(ia[0]) != 1 || len(ia[1]) != 1 {
			fail("pkg/build/lock.go: unify: expected two strings.IndexAny(_, literal) calls")
		} else {
			g.def("c15_unify_constraint_delims", "string", coqStr(ia[0][0]), "first strings.IndexAny set in unify")
			g.def("c15_unify_pin_delims", "string", coqStr(ia[1][0]), "second strings.IndexAny set in unify")
		}
		g.def("unify_trim_suffix_calls", "nat", fmt.Sprint(len(callLits(fd, "strings.TrimSuffix"))), "strings.TrimSuffix calls in unify")
		defSites("unify", fd.Body, "unify")
	}
	if fd := findFunc("pkg/build/lock.go", "", "LockImageConfiguration"); fd != nil {
		defSites("lock_provides", fd.Body, "LockImageConfiguration")
	}

	// ---- checksumFromHeader, three copies ----------------------------------------
	{
		var rows []string
		for _, rel := range []string{"pkg/apk/apk/install.go", "pkg/apk/expandapk/utility.go", "pkg/tarfs/fs.go"} {
			fd := findFunc(rel, "", "checksumFromHeader")
			if fd == nil {
				continue
			}
			hp := callLits(fd, "strings.HasPrefix")
			tp := callLits(fd, "strings.TrimPrefix")
			// strings.CutPrefix(s, lit) is the HasPrefix / TrimPrefix pair in one call: test and trim literal are the same
			if cp := callLits(fd, "strings.CutPrefix"); len(hp) == 0 && len(tp) == 0 && len(cp) == 1 && len(cp[0]) == 1 {
				hp, tp = cp, cp
			}
			// ... and so is HasPrefix(s, lit) followed by s[len(lit):] / s[<length of lit>:]
			if len(hp) == 1 && len(hp[0]) == 1 && len(tp) == 0 {
				ast.Inspect(fd, func(m ast.Node) bool {
					se, ok := m.(*ast.SliceExpr)
					if !ok || se.High != nil || se.Low == nil {
						return true
					}
					if v, ok := intLit(se.Low); ok && int(v) == len(hp[0][0]) {
						tp = hp
					} else if c, ok := se.Low.(*ast.CallExpr); ok && exprText(c.Fun) == "len" && len(c.Args) == 1 {
						if l, ok := strLit(c.Args[0]); ok && l == hp[0][0] {
							tp = hp
						}
					}
					return true
				})
			}
			if len(hp) != 1 || len(hp[0]) != 1 || len(tp) != 1 || len(tp[0]) != 1 {
				// an unrecognised spelling: a changed-shape fact that only C15's pin (c15_checksum_header_copies_pinned) notices
				rows = append(rows, fmt.Sprintf("(%s, (%s, %s, %s))", coqStr(rel), coqStr("other:prefix test not recognised"), coqStr("other:prefix removal not recognised"), coqStrList(sorted(sites(fd.Body)))))
				continue
			}
			rows = append(rows, fmt.Sprintf("(%s, (%s, %s, %s))", coqStr(rel), coqStr(hp[0][0]), coqStr(tp[0][0]), coqStrList(sorted(sites(fd.Body)))))
		}
		g.def("checksum_header_copies", "list (string * (string * string * list string))", "["+strings.Join(rows, ";\n  ")+"]",
			"checksumFromHeader: file, HasPrefix literal, TrimPrefix literal, slice / constant-index expressions")
	}

	// ---- ExpandApk ------------------------------------------------------------------
	if fd := findFunc("pkg/apk/expandapk/expandapk.go", "", "ExpandApk"); fd != nil {
		// role of an index variable = the APKExpanded field it selects the file name for
		role := map[string]string{}
		ast.Inspect(fd, func(n ast.Node) bool {
			var key string
			var val ast.Expr
			switch x := n.(type) {
			case *ast.KeyValueExpr:
				if id, ok := x.Key.(*ast.Ident); ok {
					key, val = id.Name, x.Value
				}
			case *ast.AssignStmt:
				if len(x.Lhs) == 1 && len(x.Rhs) == 1 {
					if se, ok := x.Lhs[0].(*ast.SelectorExpr); ok {
						key, val = se.Sel.Name, x.Rhs[0]
					}
				}
			}
			r := map[string]string{"SignatureFile": "sig", "ControlFile": "ctl", "PackageFile": "pkg"}[key]
			if r == "" {
				return true
			}
			if ie, ok := val.(*ast.IndexExpr); ok {
				if id, ok := ie.Index.(*ast.Ident); ok {
					role[id.Name] = r
				}
			}
			return true
		})
		if len(role) != 3 {
			fail("pkg/apk/expandapk/expandapk.go: ExpandApk: the index variables of SignatureFile / ControlFile / PackageFile were not found (%v)", role)
		}
		// the switch that assigns them
		var sw *ast.SwitchStmt
		ast.Inspect(fd, func(n ast.Node) bool {
			s, ok := n.(*ast.SwitchStmt)
			if !ok || sw != nil || s.Tag == nil {
				return true
			}
			for _, c := range s.Body.List {
				for _, st := range c.(*ast.CaseClause).Body {
					if as, ok := st.(*ast.AssignStmt); ok && len(as.Lhs) == 1 {
						if id, ok := as.Lhs[0].(*ast.Ident); ok && role[id.Name] != "" {
							sw = s
						}
					}
				}
			}
			return true
		})
		if sw == nil {
			fail("pkg/apk/expandapk/expandapk.go: ExpandApk: no switch assigns the section indices (the model transcribes `switch numGzipStreams`)")
		} else {
			var rows, guards []string
			defaultErr, hasDefault := false, false
			for _, c := range sw.Body.List {
				cc := c.(*ast.CaseClause)
				if cc.List == nil {
					hasDefault = true
					for _, st := range cc.Body {
						if rs, ok := st.(*ast.ReturnStmt); ok && len(rs.Results) == 2 && exprText(rs.Results[0]) == "nil" && exprText(rs.Results[1]) != "nil" {
							defaultErr = true
						}
					}
					continue
				}
				vals := map[string]int64{"sig": 0, "ctl": 0, "pkg": 0} // Go's zero value when an arm leaves one unassigned
				for _, st := range cc.Body {
					// an arm may begin with `if <x>.maxStreams == N { return nil, <error> }` (fix 3bc1979: a signed
					// package needs three streams): recorded per case label as (count, N)
					if is, ok := st.(*ast.IfStmt); ok && is.Init == nil && is.Else == nil {
						be, okb := is.Cond.(*ast.BinaryExpr)
						var lim int64
						okg := false
						if okb && be.Op == token.EQL {
							if se, ok := be.X.(*ast.SelectorExpr); ok && se.Sel.Name == "maxStreams" {
								lim, okg = intLit(be.Y)
							}
						}
						if okg && len(is.Body.List) == 1 {
							if rs, ok := is.Body.List[0].(*ast.ReturnStmt); ok && len(rs.Results) == 2 && exprText(rs.Results[0]) == "nil" && exprText(rs.Results[1]) != "nil" {
								for _, e := range cc.List {
									if n, ok := intLit(e); ok {
										guards = append(guards, fmt.Sprintf("(%d, %d)%%Z", n, lim))
									}
								}
								continue
							}
						}
						fail("ExpandApk: switch arm with an if that is not `if <x>.maxStreams == N { return nil, err }`: %s", exprText(st))
						continue
					}
					as, ok := st.(*ast.AssignStmt)
					if !ok || len(as.Lhs) != 1 || len(as.Rhs) != 1 {
						fail("ExpandApk: switch arm with a statement that is not a simple assignment: %s", exprText(st))
						continue
					}
					id, ok := as.Lhs[0].(*ast.Ident)
					v, okv := intLit(as.Rhs[0])
					if !ok || role[id.Name] == "" || !okv {
						fail("ExpandApk: switch arm assignment not of the form <index> = <integer>: %s", exprText(st))
						continue
					}
					vals[role[id.Name]] = v
				}
				for _, e := range cc.List {
					n, ok := intLit(e)
					if !ok {
						fail("ExpandApk: switch case label is not an integer: %s", exprText(e))
						continue
					}
					rows = append(rows, fmt.Sprintf("(%d, ((%d), (%d), (%d)))%%Z", n, vals["sig"], vals["ctl"], vals["pkg"]))
				}
			}
			g.def("expand_switch", "list (Z * (Z * Z * Z))", "["+strings.Join(rows, "; ")+"]",
				"ExpandApk's switch on the number of gzip members at "+g.pos(sw)+": count -> (signature, control, package) index")
			g.def("expand_switch_arm_guards", "list (Z * Z)", "["+strings.Join(guards, "; ")+"]",
				"arms that begin with `if maxStreams == N { return error }`: (case label, N)")
			g.def("expand_switch_default_errors", "bool", fmt.Sprint(hasDefault && defaultErr), "the default arm returns an error (false: the indices keep Go's zero values)")
		}
		// signed := <sig> >= 0, and the signature indexings sit under `if signed`
		signedVar, signedCond := "", ""
		ast.Inspect(fd, func(n ast.Node) bool {
			as, ok := n.(*ast.AssignStmt)
			if !ok || len(as.Lhs) != 1 || len(as.Rhs) != 1 {
				return true
			}
			be, ok := as.Rhs[0].(*ast.BinaryExpr)
			if !ok {
				return true
			}
			if id, ok := be.X.(*ast.Ident); ok && role[id.Name] == "sig" {
				if lhs, ok := as.Lhs[0].(*ast.Ident); ok {
					signedVar, signedCond = lhs.Name, "sig "+be.Op.String()+" "+exprText(be.Y)
				}
			}
			return true
		})
		g.def("expand_signed_cond", "string", coqStr(signedCond), "what `signed` is in ExpandApk (sig = the signature index)")
		guarded, unguarded := 0, 0
		var walk func(n ast.Node, under bool)
		walk = func(n ast.Node, under bool) {
			ast.Inspect(n, func(m ast.Node) bool {
				switch x := m.(type) {
				case *ast.IfStmt:
					if id, ok := x.Cond.(*ast.Ident); ok && id.Name == signedVar && signedVar != "" && x != n {
						walk(x.Body, true)
						if x.Else != nil {
							walk(x.Else, under)
						}
						return false
					}
				case *ast.IndexExpr:
					if id, ok := x.Index.(*ast.Ident); ok && role[id.Name] == "sig" {
						if under {
							guarded++
						} else {
							unguarded++
						}
					}
				}
				return true
			})
		}
		walk(fd.Body, false)
		g.def("expand_sig_index_guarded", "nat * nat", fmt.Sprintf("(%d, %d)", guarded, unguarded), "indexings by the signature index: (under `if signed`, elsewhere)")
	}
	// expandApkWriter: maxStreams starts at .., becomes .. after a first member that starts with ..
	{
		rel := "pkg/apk/expandapk/expandapk.go"
		var initMax, signedMax int64 = -1, -1
		prefix := ""
		if fd := findFunc(rel, "", "newExpandApkWriter"); fd != nil {
			ast.Inspect(fd, func(n ast.Node) bool {
				if kv, ok := n.(*ast.KeyValueExpr); ok {
					if id, ok := kv.Key.(*ast.Ident); ok && id.Name == "maxStreams" {
						if v, ok := intLit(kv.Value); ok {
							initMax = v
						}
					}
				}
				return true
			})
		}
		if fd := findFunc(rel, "expandApkWriter", "Next"); fd != nil {
			ast.Inspect(fd, func(n ast.Node) bool {
				if as, ok := n.(*ast.AssignStmt); ok && len(as.Lhs) == 1 && len(as.Rhs) == 1 {
					if se, ok := as.Lhs[0].(*ast.SelectorExpr); ok && se.Sel.Name == "maxStreams" {
						if v, ok := intLit(as.Rhs[0]); ok {
							signedMax = v
						}
					}
				}
				return true
			})
			// the name prefix of a signature entry: the literal of strings.HasPrefix in Next, or — when the test
			// sits in a helper Next calls (one level) — the helper's HasPrefix literal, string constant, or the
			// string literal it compares with
			prefixIn := func(n ast.Node) string {
				if ls := callLits(n, "strings.HasPrefix"); len(ls) > 0 && len(ls[0]) > 0 {
					return ls[0][len(ls[0])-1]
				}
				found := ""
				ast.Inspect(n, func(m ast.Node) bool {
					if found != "" {
						return false
					}
					switch x := m.(type) {
					case *ast.GenDecl:
						if x.Tok == token.CONST {
							for _, sp := range x.Specs {
								if vs, ok := sp.(*ast.ValueSpec); ok {
									for _, v := range vs.Values {
										if l, ok := strLit(v); ok && found == "" {
											found = l
										}
									}
								}
							}
						}
					case *ast.BinaryExpr:
						if x.Op == token.EQL {
							if l, ok := strLit(x.Y); ok {
								found = l
							} else if l, ok := strLit(x.X); ok {
								found = l
							}
						}
					}
					return true
				})
				return found
			}
			prefix = ""
			if ls := callLits(fd, "strings.HasPrefix"); len(ls) > 0 && len(ls[0]) > 0 {
				prefix = ls[0][len(ls[0])-1]
			} else if f := load(rel); f != nil {
				ast.Inspect(fd, func(m ast.Node) bool {
					c, ok := m.(*ast.CallExpr)
					if !ok || prefix != "" {
						return true
					}
					id, ok := c.Fun.(*ast.Ident)
					if !ok {
						return true
					}
					for _, d := range f.Decls {
						if h, ok := d.(*ast.FuncDecl); ok && h.Recv == nil && h.Name.Name == id.Name && h.Body != nil {
							prefix = prefixIn(h.Body)
						}
					}
					return true
				})
			}
			if prefix == "" {
				// goextract's inliner (inline.go) has already expanded a NEW single-use helper in place: a block
				// `{ <helper body, return e -> inlinedResult = e>; if inlinedResult { … maxStreams = N } }`
				assignsMax := func(n ast.Node) bool {
					r := false
					ast.Inspect(n, func(m ast.Node) bool {
						if as, ok := m.(*ast.AssignStmt); ok && len(as.Lhs) == 1 {
							if se, ok := as.Lhs[0].(*ast.SelectorExpr); ok && se.Sel.Name == "maxStreams" {
								r = true
							}
						}
						return true
					})
					return r
				}
				ast.Inspect(fd, func(m ast.Node) bool {
					b, ok := m.(*ast.BlockStmt)
					if !ok || prefix != "" {
						return true
					}
					for _, st := range b.List {
						if is, ok := st.(*ast.IfStmt); ok && strings.Contains(exprText(is.Cond), "inlinedResult") && assignsMax(is.Body) {
							prefix = prefixIn(b)
						}
					}
					return true
				})
			}
			if prefix == "" {
				fail("%s: expandApkWriter.Next: the name prefix of a signature entry was not found (strings.HasPrefix literal in Next or in a helper it calls)", rel)
			}
		}
		if initMax < 0 || signedMax < 0 {
			fail("%s: expandApkWriter: maxStreams literals not found", rel)
		}
		g.def("expand_max_streams", "nat * nat", fmt.Sprintf("(%d, %d)", initMax, signedMax), "expandApkWriter.maxStreams: initially, after a first member whose first entry is a signature")
		g.def("expand_sign_prefix", "string", coqStr(prefix), "name prefix of a signature entry")
	}

	// ---- Split / ParsePackageInfo ------------------------------------------------------
	if fd := findFunc("pkg/apk/expandapk/split.go", "", "Split"); fd != nil {
		top, nested := 0, 0
		isAppend := func(st ast.Stmt) bool {
			as, ok := st.(*ast.AssignStmt)
			if !ok || len(as.Rhs) != 1 {
				return false
			}
			c, ok := as.Rhs[0].(*ast.CallExpr)
			if !ok {
				return false
			}
			id, ok := c.Fun.(*ast.Ident)
			return ok && id.Name == "append"
		}
		for _, st := range fd.Body.List {
			if isAppend(st) {
				top++
			}
		}
		ast.Inspect(fd.Body, func(n ast.Node) bool {
			if st, ok := n.(ast.Stmt); ok && isAppend(st) {
				nested++
			}
			return true
		})
		g.def("split_appends", "nat * nat", fmt.Sprintf("(%d, %d)", top, nested-top), "appends to Split's result: (unconditional, inside a conditional)")
	}
	if fd := findFunc("pkg/apk/apk/package.go", "", "ParsePackageInfo"); fd != nil {
		defSites("pkginfo", fd.Body, "ParsePackageInfo")
	}

	// ---- parseInstalledPerms, parseRepositoryIndex, ParseArchitectures -------------------
	if fd := findFunc("pkg/apk/apk/installed.go", "", "parseInstalledPerms"); fd != nil {
		defSites("perms", fd.Body, "parseInstalledPerms")
	}
	if fd := findFunc("pkg/apk/apk/index.go", "", "parseRepositoryIndex"); fd != nil {
		defSites("repo_index", fd.Body, "parseRepositoryIndex")
	}
	if fd := findFunc("pkg/build/types/types.go", "", "ParseArchitectures"); fd != nil {
		defSites("parse_archs", fd.Body, "ParseArchitectures")
	}

	// ---- session 4: the sites that were exploration-only -----------------------------------
	for _, f := range []struct{ name, rel, recv, fn string }{
		{"alpine_version", "pkg/apk/apk/implementation.go", "", "parseAlpineVersion"},
		{"fetch_offline", "pkg/apk/apk/cache.go", "cacheTransport", "fetchOffline"},
		{"etag", "pkg/apk/apk/cache.go", "", "etagFromResponse"},
		{"resolve_apk", "pkg/apk/apk/resolveapk.go", "", "ResolveApk"},
		{"control_value", "pkg/apk/apk/util.go", "", "controlValue"},
		{"busybox_links", "pkg/build/busybox.go", "", "installBusyboxLinks"},
		{"env_auth", "pkg/apk/auth/auth.go", "EnvAuth", "AddAuth"},
		{"remove_label", "internal/cli/lock.go", "", "RemoveLabel"},
		{"annotations", "internal/cli/publish.go", "", "parseAnnotations"},
		{"constrain", "pkg/apk/apk/repo.go", "PkgResolver", "constrain"},
		{"group_by_origin", "pkg/build/layers.go", "", "groupByOriginAndSize"},
		{"repo_abbr", "pkg/apk/apk/repository.go", "RepositoryWithIndex", "RepoAbbr"},
		{"user_parse", "pkg/passwd/passwd.go", "UserEntry", "Parse"},
		{"group_parse", "pkg/passwd/group.go", "GroupEntry", "Parse"},
		{"index_from_archive", "pkg/apk/apk/apkindex.go", "", "IndexFromArchive"},
		{"parse_installed", "pkg/apk/apk/installed.go", "", "ParseInstalled"},
		{"parse_index", "pkg/apk/apk/apkindex.go", "", "ParsePackageIndex"},
	} {
		if fd := findFunc(f.rel, f.recv, f.fn); fd != nil {
			defSites(f.name, fd.Body, f.fn)
		}
	}
	// how a tar member is read where the size the header declares could be used: calls to make(..) and
	// io.ReadFull in IndexFromArchive (none today: io.ReadAll grows with the bytes actually present)
	if fd := findFunc("pkg/apk/apk/apkindex.go", "", "IndexFromArchive"); fd != nil {
		n := 0
		ast.Inspect(fd, func(m ast.Node) bool {
			if c, ok := m.(*ast.CallExpr); ok {
				if t := exprText(c.Fun); t == "make" || t == "io.ReadFull" || strings.HasSuffix(t, ".Grow") {
					n++
				}
			}
			return true
		})
		g.def("index_archive_sized_reads", "nat", fmt.Sprint(n), "calls to make / io.ReadFull / Grow in IndexFromArchive (a buffer sized before the bytes are there)")
	}
	for _, rx := range []struct{ name, rel, v string }{
		{"alpine_repo_groups", "pkg/apk/apk/implementation.go", "repoRE"},
		{"busybox_semver_groups", "pkg/build/busybox.go", "basicSemverRegex"},
	} {
		if lit, ok := regexLiteral(rx.rel, rx.v); ok {
			re, err := regexp.Compile(lit)
			if err != nil {
				fail("%s: %s does not compile: %v", rx.rel, rx.v, err)
				continue
			}
			g.def(rx.name, "nat", fmt.Sprint(re.NumSubexp()), fmt.Sprintf("capture groups of %s %s = %q", rx.rel, rx.v, lit))
		}
	}
	// ---- wave 3: tarfs (*FS).open — the hop counter is the only thing that bounds the recursion: which
	// type flags are followed, by how much each recursive call raises the counter, the limit and its test
	{
		rel := "pkg/apk/internal/tarfs/tarfs.go"
		if fd := findFunc(rel, "FS", "open"); fd != nil && len(fd.Type.Params.List) == 2 && len(fd.Type.Params.List[1].Names) == 1 {
			hopsName := fd.Type.Params.List[1].Names[0].Name
			incr := map[string]int64{"TypeLink": -1, "TypeSymlink": -1}
			ast.Inspect(fd, func(m ast.Node) bool {
				cc, ok := m.(*ast.CaseClause)
				if !ok {
					return true
				}
				var flags []string
				for _, e := range cc.List {
					if se, ok := e.(*ast.SelectorExpr); ok {
						if _, known := incr[se.Sel.Name]; known {
							flags = append(flags, se.Sel.Name)
						}
					}
				}
				if len(flags) == 0 {
					return true
				}
				// the smallest increase among the recursive calls of this arm
				min, calls := int64(1<<30), 0
				for _, st := range cc.Body {
					ast.Inspect(st, func(k ast.Node) bool {
						c, ok := k.(*ast.CallExpr)
						if !ok || len(c.Args) != 2 {
							return true
						}
						se, ok := c.Fun.(*ast.SelectorExpr)
						if !ok || se.Sel.Name != fd.Name.Name {
							return true
						}
						calls++
						inc := int64(-1)
						switch a := c.Args[1].(type) {
						case *ast.Ident:
							if a.Name == hopsName {
								inc = 0
							}
						case *ast.BinaryExpr:
							if id, ok := a.X.(*ast.Ident); ok && id.Name == hopsName && a.Op == token.ADD {
								if v, ok := intLit(a.Y); ok {
									inc = v
								}
							}
						}
						if inc < 0 {
							fail("%s: FS.open: hop argument of a recursive call not of the form %s or %s+N: %s", rel, hopsName, hopsName, exprText(c.Args[1]))
							inc = 0
						}
						if inc < min {
							min = inc
						}
						return true
					})
				}
				if calls == 0 {
					fail("%s: FS.open: the arm for %v makes no recursive call", rel, flags)
					return true
				}
				for _, f := range flags {
					incr[f] = min
				}
				return true
			})
			if incr["TypeLink"] < 0 || incr["TypeSymlink"] < 0 {
				fail("%s: FS.open: no switch arm follows tar.TypeLink / tar.TypeSymlink (%v)", rel, incr)
			}
			g.def("tarfs_hop_incr", "Z * Z", fmt.Sprintf("(%d, %d)%%Z", incr["TypeLink"], incr["TypeSymlink"]), "FS.open: least increase of the hop counter on the recursive calls that follow a (hard link, symbolic link)")
			guard := ""
			ast.Inspect(fd, func(m ast.Node) bool {
				if is, ok := m.(*ast.IfStmt); ok && guard == "" {
					if be, ok := is.Cond.(*ast.BinaryExpr); ok {
						if id, ok := be.X.(*ast.Ident); ok && id.Name == hopsName {
							guard = "hops " + be.Op.String() + " " + exprText(be.Y)
						}
					}
				}
				return true
			})
			g.def("tarfs_hops_guard", "string", coqStr(guard), "FS.open: the test that ends the chase with an error")
			if e := findValue(rel, "maxHops"); e != nil {
				if v, ok := intLit(e); ok {
					g.def("tarfs_max_hops", "Z", fmt.Sprintf("%d%%Z", v), "tarfs maxHops")
				} else {
					fail("%s: maxHops is not an integer literal", rel)
				}
			}
			defSites("tarfs_open", fd.Body, "FS.open")
		} else if fd != nil {
			fail("%s: FS.open: expected the parameters (name, hops)", rel)
		}
	}
	// ---- final round: the `for { x, err := r.Next() … }` loops over tar entries, found by SHAPE in every
	// non-test file under pkg/: a `for` without condition whose first statement assigns two results of a call
	// `<anything>.Next()`. For each: is there, among the if-statements on the error variable that directly
	// follow, one with the condition `err != nil` (possibly as an else-if) whose body ends in return or break —
	// i.e. does EVERY error of Next (io.EOF included) leave the loop — and is io.EOF tested on its own before it.
	{
		type loopSite struct {
			key            string
			eofOwn, errOut bool
		}
		var loops []loopSite
		leaves := func(b *ast.BlockStmt) bool {
			if b == nil || len(b.List) == 0 {
				return false
			}
			switch x := b.List[len(b.List)-1].(type) {
			case *ast.ReturnStmt:
				return true
			case *ast.BranchStmt:
				return x.Tok == token.BREAK && x.Label == nil
			}
			return false
		}
		mentions := func(e ast.Expr, name string) bool {
			r := false
			ast.Inspect(e, func(m ast.Node) bool {
				if id, ok := m.(*ast.Ident); ok && id.Name == name {
					r = true
				}
				return true
			})
			return r
		}
		var rels []string
		_ = filepath.WalkDir(filepath.Join(*repo, "pkg"), func(p string, d os.DirEntry, err error) error {
			if err != nil || d.IsDir() || !strings.HasSuffix(p, ".go") || strings.HasSuffix(p, "_test.go") || strings.HasSuffix(p, "_verif.go") {
				return nil
			}
			if r, e := filepath.Rel(*repo, p); e == nil {
				rels = append(rels, filepath.ToSlash(r))
			}
			return nil
		})
		sort.Strings(rels)
		for _, rel := range rels {
			f := load(rel)
			if f == nil {
				continue
			}
			for _, d := range f.Decls {
				fd, ok := d.(*ast.FuncDecl)
				if !ok || fd.Body == nil {
					continue
				}
				name := fd.Name.Name
				if fd.Recv != nil && len(fd.Recv.List) > 0 {
					name = recvName(fd.Recv.List[0].Type) + "." + name
				}
				n := 0
				ast.Inspect(fd.Body, func(m ast.Node) bool {
					fs, ok := m.(*ast.ForStmt)
					if !ok || fs.Cond != nil || fs.Init != nil || fs.Post != nil || len(fs.Body.List) == 0 {
						return true
					}
					as, ok := fs.Body.List[0].(*ast.AssignStmt)
					if !ok || len(as.Lhs) != 2 || len(as.Rhs) != 1 {
						return true
					}
					c, ok := as.Rhs[0].(*ast.CallExpr)
					if !ok || len(c.Args) != 0 {
						return true
					}
					se, ok := c.Fun.(*ast.SelectorExpr)
					if !ok || se.Sel.Name != "Next" {
						return true
					}
					ev, ok := as.Lhs[1].(*ast.Ident)
					if !ok {
						return true
					}
					n++
					site := loopSite{key: fmt.Sprintf("%s:%s#%d", rel, name, n)}
					for _, st := range fs.Body.List[1:] {
						is, ok := st.(*ast.IfStmt)
						if !ok || !mentions(is.Cond, ev.Name) || site.errOut {
							break
						}
						for cur := is; cur != nil; {
							txt := exprText(cur.Cond)
							if txt == ev.Name+" != nil" && leaves(cur.Body) {
								site.errOut = true
							} else if strings.Contains(txt, "io.EOF") && leaves(cur.Body) && !site.errOut {
								site.eofOwn = true
							}
							next, _ := cur.Else.(*ast.IfStmt)
							cur = next
						}
					}
					loops = append(loops, site)
					return true
				})
			}
		}
		if len(loops) == 0 {
			fail("no `for { x, err := r.Next() }` loop found under pkg/ (the tar reader sites)")
		}
		var rows []string
		for _, l := range loops {
			rows = append(rows, fmt.Sprintf("(%s, (%v, %v))", coqStr(l.key), l.eofOwn, l.errOut))
		}
		g.def("tar_next_loops", "list (string * (bool * bool))", "["+strings.Join(rows, ";\n  ")+"]",
			"`for { x, err := r.Next() }` loops under pkg/: (file:function#n, (io.EOF tested on its own and leaves, `err != nil` leaves))")
	}
	// lock.FromFile and GroupEntry / UserEntry parsing are pinned above; lock.FromFile's sites:
	if fd := findFunc("pkg/lock/lock.go", "", "FromFile"); fd != nil {
		defSites("lock_from_file", fd.Body, "lock.FromFile")
	}
	// RemoveLabel's loop: the condition and what the body assigns to the loop variable
	if fd := findFunc("internal/cli/lock.go", "", "RemoveLabel"); fd != nil {
		cond, sep, lim := "", "", int64(-1)
		ast.Inspect(fd, func(m ast.Node) bool {
			if fs, ok := m.(*ast.ForStmt); ok && fs.Init == nil && fs.Post == nil {
				cond = norm(fs.Cond)
				if c, ok := fs.Cond.(*ast.CallExpr); ok && exprText(c.Fun) == "strings.HasPrefix" && len(c.Args) == 2 {
					if l, ok := strLit(c.Args[1]); ok {
						cond = "HasPrefix " + l
					}
				}
				ast.Inspect(fs.Body, func(k ast.Node) bool {
					if c, ok := k.(*ast.CallExpr); ok && exprText(c.Fun) == "strings.SplitN" && len(c.Args) == 3 {
						if l, ok := strLit(c.Args[1]); ok {
							sep = l
						}
						if v, ok := intLit(c.Args[2]); ok {
							lim = v
						}
					}
					return true
				})
			}
			return true
		})
		g.def("remove_label_loop_shape", "string * string * Z", fmt.Sprintf("(%s, %s, (%d)%%Z)", coqStr(cond), coqStr(sep), lim), "RemoveLabel: loop condition, SplitN separator and limit")
	}
	g.write()
}
