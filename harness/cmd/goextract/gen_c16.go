package main

// C16/C15: field letters, template rows, fmt formats, separators and scanner
// limits of apko's own text formats -> coq/Generated/FieldLetters.v.

import (
	"fmt"
	"go/ast"
	"go/token"
	"strings"
	"text/template/parse"
)

func coqStrList(ss []string) string {
	it := make([]string, len(ss))
	for i, s := range ss {
		it[i] = coqStr(s)
	}
	return "[" + strings.Join(it, "; ") + "]"
}

// stripRecv rewrites "pkg.Name" to ".Name" for the given receiver/parameter
// identifier, so that renaming the parameter does not change the output.
func stripRecv(s, recv string) string {
	if recv == "" {
		return s
	}
	var out strings.Builder
	for i := 0; i < len(s); {
		if strings.HasPrefix(s[i:], recv+".") && (i == 0 || !isIdentByte(s[i-1])) {
			i += len(recv)
			continue
		}
		out.WriteByte(s[i])
		i++
	}
	return out.String()
}
func isIdentByte(c byte) bool {
	return c == '_' || (c >= '0' && c <= '9') || (c >= 'a' && c <= 'z') || (c >= 'A' && c <= 'Z')
}

// sprintfCall matches fmt.Sprintf(lit, args...) / fmt.Fprintf(w, lit, args...).
func sprintfCall(e ast.Expr) (format string, args []ast.Expr, ok bool) {
	c, isCall := e.(*ast.CallExpr)
	if !isCall {
		return "", nil, false
	}
	switch exprText(c.Fun) {
	case "fmt.Sprintf":
		if len(c.Args) >= 1 {
			if s, ok := strLit(c.Args[0]); ok {
				return s, c.Args[1:], true
			}
		}
	case "fmt.Fprintf":
		if len(c.Args) >= 2 {
			if s, ok := strLit(c.Args[1]); ok {
				return s, c.Args[2:], true
			}
		}
	}
	return "", nil, false
}

// appendSprintf matches `out = append(out, fmt.Sprintf(F, ARG))`.
func appendSprintf(st ast.Stmt) (format, arg string, ok bool) {
	as, isAs := st.(*ast.AssignStmt)
	if !isAs || len(as.Rhs) != 1 {
		return "", "", false
	}
	c, isCall := as.Rhs[0].(*ast.CallExpr)
	if !isCall || exprText(c.Fun) != "append" || len(c.Args) != 2 {
		return "", "", false
	}
	f, args, ok := sprintfCall(c.Args[1])
	if !ok || len(args) != 1 {
		// `"P:" + x` for fmt.Sprintf("P:%s", x): a concatenation only compiles for string operands, for which %s copies the bytes
		if cf, cargs, cok := concatAsFormat(c.Args[1]); cok && len(cargs) == 1 {
			return cf, cargs[0], true
		}
		return "", "", false
	}
	return f, exprText(args[0]), true
}

func firstParam(fd *ast.FuncDecl) string {
	if fd == nil || fd.Type.Params == nil || len(fd.Type.Params.List) == 0 || len(fd.Type.Params.List[0].Names) == 0 {
		return ""
	}
	return fd.Type.Params.List[0].Names[0].Name
}

// readerCases: for the `switch token` of a line reader, per case letter the
// sorted set of assigned field names and the called functions with their
// integer-literal arguments.
func readerCases(g *gen, coq, rel, fn string) {
	fd := findFunc(rel, "", fn)
	if fd == nil {
		return
	}
	var items []string
	found := false
	ast.Inspect(fd, func(n ast.Node) bool {
		sw, ok := n.(*ast.SwitchStmt)
		if !ok || sw.Tag == nil || found {
			return true
		}
		if id, ok := sw.Tag.(*ast.Ident); !ok || id.Name != "token" {
			return true
		}
		found = true
		for _, c := range sw.Body.List {
			cc := c.(*ast.CaseClause)
			var letters []string
			for _, e := range cc.List {
				s, ok := strLit(e)
				if !ok {
					fail("%s: %s: non-literal case in switch token", rel, fn)
				}
				letters = append(letters, s)
			}
			if cc.List == nil {
				letters = []string{"<default>"}
			}
			assigned := map[string]bool{}
			calls := map[string]bool{}
			for _, st := range cc.Body {
				ast.Inspect(st, func(m ast.Node) bool {
					switch x := m.(type) {
					case *ast.AssignStmt:
						for _, l := range x.Lhs {
							if se, ok := l.(*ast.SelectorExpr); ok {
								assigned[se.Sel.Name] = true
							}
						}
					case *ast.KeyValueExpr:
						if id, ok := x.Key.(*ast.Ident); ok {
							v := exprText(x.Value)
							if iv, ok := intLit(x.Value); ok {
								v = fmt.Sprint(iv)
							}
							assigned[id.Name+"="+v] = true
						}
					case *ast.CallExpr:
						name := exprText(x.Fun)
						var lits []string
						for _, a := range x.Args {
							if v, ok := intLit(a); ok {
								lits = append(lits, fmt.Sprint(v))
							}
						}
						if name != "fmt.Errorf" && name != "len" && name != "append" {
							calls[name+"("+strings.Join(lits, ",")+")"] = true
						}
					}
					return true
				})
			}
			for _, l := range letters {
				items = append(items, fmt.Sprintf("(%s, (%s, %s))", coqStr(l), coqStrList(sortedKeys(assigned)), coqStrList(sortedKeys(calls))))
			}
		}
		return false
	})
	if !found {
		fail("%s: %s: switch token not found", rel, fn)
	}
	g.def(coq, "list (string * (list string * list string))", "[\n  "+strings.Join(items, ";\n  ")+"]", "case letters of "+fn+" in "+rel+": (letter, (assigned fields, calls with literal ints))")
}

// lineGuards: conditions of the if statements that guard the slicing of a
// line in a reader (printed source text, whitespace-normalised).
func lineGuards(g *gen, coq, rel, fn string) {
	fd := findFunc(rel, "", fn)
	if fd == nil {
		return
	}
	var conds []string
	ast.Inspect(fd, func(n ast.Node) bool {
		is, ok := n.(*ast.IfStmt)
		if !ok {
			return true
		}
		t := exprText(is.Cond)
		if strings.Contains(t, "line") {
			conds = append(conds, t)
		}
		return true
	})
	g.def(coq, "list string", coqStrList(conds), "conditions on `line` in "+fn+" ("+rel+"), in source order")
}

func genC16() {
	g := newGen("FieldLetters", "From Apko Require Import Base.Prelude.\nOpen Scope string_scope.")
	const idx = "pkg/apk/apk/apkindex.go"
	const pk = "pkg/apk/apk/package.go"
	const inst = "pkg/apk/apk/installed.go"

	// ---- 1. APKINDEX template -> rows (cond, literal prefix, value) ------
	tv := findValue(idx, "apkIndexTemplate")
	var tmplText, joinSep string
	haveTmpl, haveSep := false, false
	if tv != nil {
		ast.Inspect(tv, func(n ast.Node) bool {
			c, ok := n.(*ast.CallExpr)
			if !ok {
				return true
			}
			if se, ok := c.Fun.(*ast.SelectorExpr); ok && se.Sel.Name == "Parse" && len(c.Args) == 1 {
				if s, ok := strLit(c.Args[0]); ok {
					tmplText, haveTmpl = s, true
				}
			}
			if exprText(c.Fun) == "strings.Join" && len(c.Args) == 2 {
				if s, ok := strLit(c.Args[1]); ok {
					joinSep, haveSep = s, true
				}
			}
			return true
		})
	}
	if !haveTmpl {
		fail("%s: apkIndexTemplate: template text literal not found", idx)
	}
	if !haveSep {
		fail("%s: apkIndexTemplate: separator of the join helper not found", idx)
	}
	var rows []string
	trailer := ""
	if haveTmpl {
		tr := parse.New("APKINDEX")
		tr.Mode = parse.SkipFuncCheck
		if _, err := tr.Parse(tmplText, "", "", map[string]*parse.Tree{}); err != nil {
			fail("%s: apkIndexTemplate does not parse: %v", idx, err)
		} else {
			pending := ""
			for _, n := range tr.Root.Nodes {
				switch x := n.(type) {
				case *parse.TextNode:
					pending += string(x.Text)
				case *parse.ActionNode:
					rows = append(rows, fmt.Sprintf("(%s, (%s, %s))", coqStr(""), coqStr(pending), coqStr(x.Pipe.String())))
					pending = ""
				case *parse.IfNode:
					if x.ElseList != nil || x.List == nil || len(x.List.Nodes) != 2 {
						fail("%s: apkIndexTemplate: if-block is not `text action`", idx)
						continue
					}
					t, ok1 := x.List.Nodes[0].(*parse.TextNode)
					a, ok2 := x.List.Nodes[1].(*parse.ActionNode)
					if !ok1 || !ok2 {
						fail("%s: apkIndexTemplate: if-block is not `text action`", idx)
						continue
					}
					if pending != "" {
						fail("%s: apkIndexTemplate: literal text %q directly before an if-block", idx, pending)
					}
					rows = append(rows, fmt.Sprintf("(%s, (%s, %s))", coqStr(x.Pipe.String()), coqStr(string(t.Text)), coqStr(a.Pipe.String())))
				default:
					fail("%s: apkIndexTemplate: unsupported template node %T", idx, n)
				}
			}
			trailer = pending
		}
	}
	g.def("index_template_rows", "list (string * (string * string))", "[\n  "+strings.Join(rows, ";\n  ")+"]",
		"apkIndexTemplate ("+idx+") after Go's own template parser applied the trim markers: (condition, literal text, value pipeline)")
	g.def("index_template_trailer", "string", coqStr(trailer), "literal text after the last action of apkIndexTemplate")
	g.def("index_join_sep", "string", coqStr(joinSep), "separator of the template's join helper")

	// scanner limit: <scanner>.Buffer(buf, max) in a reader; (-1, false) when the
	// function never calls Buffer (bufio's default token limit applies then)
	scannerMax := func(rel, fn string) (int64, bool) {
		fd := findFunc(rel, "", fn)
		if fd == nil {
			fail("%s: %s not found", rel, fn)
		}
		var maxTok int64 = -1
		called := false
		vals := map[string]int64{}
		ast.Inspect(fd, func(n ast.Node) bool {
			switch x := n.(type) {
			case *ast.AssignStmt:
				if x.Tok == token.DEFINE && len(x.Lhs) == 1 && len(x.Rhs) == 1 {
					if id, ok := x.Lhs[0].(*ast.Ident); ok {
						if v, ok := intLit(x.Rhs[0]); ok {
							vals[id.Name] = v
						}
					}
				}
			case *ast.CallExpr:
				if se, ok := x.Fun.(*ast.SelectorExpr); ok && se.Sel.Name == "Buffer" && len(x.Args) == 2 {
					called = true
					if v, ok := intLit(x.Args[1]); ok {
						maxTok = v
					} else if id, ok := x.Args[1].(*ast.Ident); ok {
						if v, ok := vals[id.Name]; ok {
							maxTok = v
						}
					}
				}
			}
			return true
		})
		if called && maxTok < 0 {
			fail("%s: %s: the max argument of scanner Buffer(_, max) is not a constant the translator can evaluate", rel, fn)
		}
		return maxTok, called
	}
	if maxTok, called := scannerMax(idx, "ParsePackageIndex"); called {
		g.def("index_max_token", "N", fmt.Sprintf("%d%%N", maxTok), "max token size given to bufio.Scanner.Buffer in ParsePackageIndex")
	} else {
		fail("%s: ParsePackageIndex: scanner Buffer(_, max) not found", idx)
	}
	if maxTok, called := scannerMax(inst, "ParseInstalled"); called {
		g.def("installed_max_token_src", "N", fmt.Sprintf("%d%%N", maxTok), "max token size given to bufio.Scanner.Buffer in ParseInstalled")
	} else {
		g.def("installed_max_token_src", "N", "65536%N", "ParseInstalled never calls Scanner.Buffer: bufio.MaxScanTokenSize applies")
	}
	usesCall := func(rel, fn, sel string) bool {
		fd := findFunc(rel, "", fn)
		r := false
		if fd != nil {
			ast.Inspect(fd, func(n ast.Node) bool {
				if c, ok := n.(*ast.CallExpr); ok {
					if se, ok := c.Fun.(*ast.SelectorExpr); ok && se.Sel.Name == sel {
						r = true
					}
				}
				return true
			})
		}
		return r
	}
	g.def("index_checks_scanner_err", "bool", fmt.Sprint(usesCall(idx, "ParsePackageIndex", "Err")), "ParsePackageIndex returns indexScanner.Err()")
	g.def("installed_sets_scanner_buffer", "bool", fmt.Sprint(usesCall(inst, "ParseInstalled", "Buffer")), "ParseInstalled calls Scanner.Buffer (false: bufio's default 64 KiB token limit applies)")
	g.def("installed_checks_scanner_err", "bool", fmt.Sprint(usesCall(inst, "ParseInstalled", "Err")), "ParseInstalled looks at Scanner.Err()")

	readerCases(g, "index_reader_cases", idx, "ParsePackageIndex")
	readerCases(g, "installed_reader_cases", inst, "ParseInstalled")
	lineGuards(g, "index_line_guards", idx, "ParsePackageIndex")
	lineGuards(g, "installed_line_guards", inst, "ParseInstalled")

	// ---- 2. PackageToInstalled rows (cond, format, argument) -------------
	if fd := findFunc(pk, "", "PackageToInstalled"); fd != nil {
		recv := firstParam(fd)
		var prow []string
		for _, st := range fd.Body.List {
			switch x := st.(type) {
			case *ast.AssignStmt:
				f, a, ok := appendSprintf(x)
				if !ok {
					fail("%s: PackageToInstalled: statement is not out = append(out, fmt.Sprintf(lit, arg))", pk)
					continue
				}
				prow = append(prow, fmt.Sprintf("(%s, (%s, %s))", coqStr(""), coqStr(f), coqStr(stripRecv(a, recv))))
			case *ast.IfStmt:
				if x.Else != nil || x.Init != nil || len(x.Body.List) != 1 {
					fail("%s: PackageToInstalled: unsupported if shape", pk)
					continue
				}
				f, a, ok := appendSprintf(x.Body.List[0])
				if !ok {
					fail("%s: PackageToInstalled: if body is not an append of fmt.Sprintf", pk)
					continue
				}
				prow = append(prow, fmt.Sprintf("(%s, (%s, %s))", coqStr(stripRecv(exprText(x.Cond), recv)), coqStr(f), coqStr(stripRecv(a, recv))))
			case *ast.ReturnStmt:
			default:
				fail("%s: PackageToInstalled: unsupported statement %T", pk, st)
			}
		}
		g.def("installed_pkg_rows", "list (string * (string * string))", "[\n  "+strings.Join(prow, ";\n  ")+"]",
			"PackageToInstalled ("+pk+"): (condition, fmt format, argument) per appended line, in order")
	}

	// ---- 3. AddInstalledPackage: formats, mask, default modes -------------
	if fd := findFunc(inst, "APK", "AddInstalledPackage"); fd != nil {
		var fmts []string
		var defaults []int64
		var mask int64 = -1
		var trailerLit []string
		var dirTrim []string
		ast.Inspect(fd, func(n ast.Node) bool {
			switch x := n.(type) {
			case *ast.CallExpr:
				if f, _, ok := sprintfCall(x); ok {
					fmts = append(fmts, f)
				}
				// the strings.Trim* call applied to the header's Name (the spelling of a directory on its F: line)
				if fn := exprText(x.Fun); strings.HasPrefix(fn, "strings.Trim") && len(x.Args) >= 1 {
					if se, ok := x.Args[0].(*ast.SelectorExpr); ok && se.Sel.Name == "Name" {
						dirTrim = append(dirTrim, fn)
					}
				}
				if exprText(x.Fun) == "strings.Join" && len(x.Args) == 2 {
					if s, ok := strLit(x.Args[1]); ok {
						trailerLit = append(trailerLit, s)
					}
				}
			case *ast.BinaryExpr:
				if x.Op == token.NEQ {
					// `perm != 0o755` / `perm != 0o644` (whatever the local is called); the uid/gid tests compare with 0
					if _, ok := x.X.(*ast.Ident); ok {
						if v, ok := intLit(x.Y); ok && v != 0 {
							defaults = append(defaults, v)
						}
					}
				}
				if x.Op == token.AND {
					if se, ok := x.X.(*ast.SelectorExpr); ok && se.Sel.Name == "Mode" {
						if v, ok := intLit(x.Y); ok {
							mask = v
						}
					}
				}
				if x.Op == token.ADD {
					if s, ok := strLit(x.Y); ok {
						trailerLit = append(trailerLit, s)
					}
				}
			}
			return true
		})
		if len(defaults) != 2 || mask < 0 {
			fail("%s: AddInstalledPackage: default modes / mode mask not found", inst)
			defaults = append(defaults, 0, 0)
		}
		g.def("installed_file_formats", "list string", coqStrList(fmts), "fmt.Sprintf formats in AddInstalledPackage, in source order")
		g.def("installed_mode_mask", "Z", fmt.Sprintf("%d%%Z", mask), "f.Mode & mask")
		g.def("installed_dir_default_mode", "Z", fmt.Sprintf("%d%%Z", defaults[0]), "directories: M: line written unless perm is this and uid = gid = 0")
		g.def("installed_file_default_mode", "Z", fmt.Sprintf("%d%%Z", defaults[1]), "files: a: line written unless perm is this and uid = gid = 0")
		g.def("installed_join_and_trailer", "list string", coqStrList(trailerLit), "line separator and record trailer of AddInstalledPackage")
		if len(dirTrim) != 1 || (dirTrim[0] != "strings.TrimRight" && dirTrim[0] != "strings.TrimSuffix") {
			fail("%s: AddInstalledPackage: expected one strings.TrimRight / strings.TrimSuffix call on the header's Name, found %v", inst, dirTrim)
			dirTrim = []string{"strings.TrimRight"}
		}
		g.def("installed_dir_trim_fn", "string", coqStr(dirTrim[0]), "how AddInstalledPackage removes the trailing separator(s) of a directory's name: strings.TrimRight (all of them) or strings.TrimSuffix (one)")
	}

	// ---- 3b. C15: the guard in front of groupByOriginAndSize -----------------
	if fd := findFunc("pkg/build/layers.go", "Context", "buildLayers"); fd != nil {
		var conds []string
		ast.Inspect(fd, func(n ast.Node) bool {
			if is, ok := n.(*ast.IfStmt); ok {
				t := exprText(is.Cond)
				if strings.Contains(strings.ToLower(t), "budget") {
					conds = append(conds, t)
				}
			}
			return true
		})
		g.def("layer_budget_guards", "list string", coqStrList(conds), "if-conditions of buildLayers (pkg/build/layers.go) that mention the budget")
	}

	// ---- 4. passwd / group ------------------------------------------------
	pwFormat := func(coq, rel, recv string) {
		fd := findFunc(rel, recv, "Write")
		var f string
		ok := false
		if fd != nil {
			ast.Inspect(fd, func(n ast.Node) bool {
				if c, isCall := n.(*ast.CallExpr); isCall {
					if s, _, o := sprintfCall(c); o {
						f, ok = s, true
					}
				}
				return true
			})
		}
		if !ok {
			fail("%s: %s.Write: Fprintf format not found", rel, recv)
		}
		g.def(coq, "string", coqStr(f), recv+".Write format ("+rel+")")
	}
	pwFormat("passwd_format", "pkg/passwd/passwd.go", "UserEntry")
	pwFormat("group_format", "pkg/passwd/group.go", "GroupEntry")
	pwParse := func(prefix, rel, recv string) {
		fd := findFunc(rel, recv, "Parse")
		var seps []string
		var count int64 = -1
		if fd != nil {
			ast.Inspect(fd, func(n ast.Node) bool {
				switch x := n.(type) {
				case *ast.CallExpr:
					if exprText(x.Fun) == "strings.Split" && len(x.Args) == 2 {
						if s, ok := strLit(x.Args[1]); ok {
							seps = append(seps, s)
						}
					}
				case *ast.BinaryExpr:
					if x.Op == token.NEQ && strings.HasPrefix(exprText(x.X), "len(") {
						if v, ok := intLit(x.Y); ok {
							count = v
						}
					}
				}
				return true
			})
		}
		if count < 0 || len(seps) == 0 {
			fail("%s: %s.Parse: split separator / part count not found", rel, recv)
		}
		g.def(prefix+"_split_seps", "list string", coqStrList(seps), "separators given to strings.Split in "+recv+".Parse")
		g.def(prefix+"_part_count", "nat", fmt.Sprintf("%d", count), "len(parts) != N test in "+recv+".Parse")
	}
	pwParse("passwd", "pkg/passwd/passwd.go", "UserEntry")
	pwParse("group", "pkg/passwd/group.go", "GroupEntry")
	if fd := findFunc("pkg/passwd/group.go", "GroupEntry", "Write"); fd != nil {
		sep, ok := "", false
		ast.Inspect(fd, func(n ast.Node) bool {
			if c, isCall := n.(*ast.CallExpr); isCall && exprText(c.Fun) == "strings.Join" && len(c.Args) == 2 {
				sep, ok = strLit(c.Args[1])
			}
			return true
		})
		if !ok {
			fail("pkg/passwd/group.go: GroupEntry.Write: join separator not found")
		}
		g.def("group_member_sep", "string", coqStr(sep), "separator of GroupEntry.Write's strings.Join")
	}
	g.write()
}
