package main

import (
	"fmt"
	"go/ast"
	"go/token"
)

// genC17 writes Generated/FsConsts.v: the symlink limits of the two in-memory
// filesystems (pkg/apk/fs/memfs.go, pkg/tarfs/fs.go): the constant maxLinks and,
// for each of the two places that test it (getNodeCountLinks, openFile), the
// number of nested link expansions the test lets through (maxLinks for
// `n > maxLinks`, maxLinks-1 for `n >= maxLinks`).
func genC17() {
	g := newGen("FsConsts", "From Apko Require Import Base.Prelude.")
	for _, b := range []struct{ pfx, rel, recv string }{
		{"memfs", "pkg/apk/fs/memfs.go", "memFS"},
		{"tarfs", "pkg/tarfs/fs.go", "memFS"},
	} {
		e := findValue(b.rel, "maxLinks")
		v, ok := intLit(e)
		if e != nil && (!ok || v < 0 || v > 1000) {
			fail("%s: maxLinks is not a small integer literal", b.rel)
			continue
		}
		g.def(b.pfx+"_max_links", "nat", fmt.Sprintf("%d", v), b.rel+" maxLinks at "+g.pos(e))
		for _, fn := range []struct{ coq, name string }{{"getnode", "getNodeCountLinks"}, {"openfile", "openFile"}} {
			fd := findFunc(b.rel, b.recv, fn.name)
			if fd == nil {
				fail("%s: no function %s", b.rel, fn.name)
				continue
			}
			var tests []*ast.BinaryExpr
			ast.Inspect(fd, func(n ast.Node) bool {
				if be, ok := n.(*ast.BinaryExpr); ok {
					if id, ok := be.Y.(*ast.Ident); ok && id.Name == "maxLinks" {
						tests = append(tests, be)
					}
				}
				return true
			})
			if len(tests) != 1 {
				fail("%s: %s: expected exactly one comparison with maxLinks, found %d", b.rel, fn.name, len(tests))
				continue
			}
			allowed := v
			switch tests[0].Op {
			case token.GTR:
			case token.GEQ:
				allowed = v - 1
			default:
				fail("%s: %s: comparison %s with maxLinks is not > or >=", b.rel, fn.name, tests[0].Op)
				continue
			}
			if allowed < 0 {
				allowed = 0
			}
			g.def(fmt.Sprintf("%s_%s_depth", b.pfx, fn.coq), "nat", fmt.Sprintf("%d", allowed),
				fmt.Sprintf("nested symlink expansions allowed by `%s` in %s at %s", exprText(tests[0]), fn.name, g.pos(tests[0])))
		}
	}
	g.write()
}
