package main

// C18: what the confinement model takes from the source text.
//   pkg/apk/apk/cache.go      etagFromResponse: which encoding turns the ETag into a
//                             file name (alphabet + padding); cacheFileFromEtag: the
//                             two extensions, the index suffix/dir and the shape of
//                             the prefix test; cachePathFromURL: shape of the prefix test
//   pkg/apk/apk/common.go     sanitizeArchivePath: shape of the prefix test
//   pkg/apk/fs/rwosfs.go      sanitizePath / dirFS.Link: shape of the prefix test
//   pkg/apk/apk/implementation.go  InitKeyring: the path the key file is written to
//   pkg/apk/apk/index.go      the separator the key-name check looks for
//   pkg/apk/fs/memfs.go, pkg/tarfs/fs.go  maxLinks
// A test that is gone is a broken tie (fail), never silently skipped.

import (
	"fmt"
	"go/ast"
	"go/token"
	"strings"
)

// c18PrefixTest: in fd, the (single) call strings.HasPrefix(a, b); returns
// whether a / b is a direct filepath.Clean(...) call and whether the test sits
// under a '!'. Names of locals are deliberately not part of the shape.
func c18IsClean(e ast.Expr) bool {
	c, ok := e.(*ast.CallExpr)
	return ok && exprText(c.Fun) == "filepath.Clean"
}

// c18Containment describes how a function decides that a path is inside a
// base. Two mechanisms are known:
//
//	"string-prefix"  one strings.HasPrefix(a, b) on the paths themselves;
//	                 flags = (a is filepath.Clean(..), b is filepath.Clean(..), test is negated)
//	"rel"            filepath.Rel(base, p) (directly, or through the helper isWithin of
//	                 the same file) whose result is compared with literals;
//	                 flags = (compared with ".", compared with "..", HasPrefix(rel, ".."+sep))
//
// Names of locals are deliberately not part of the shape. Anything else is a
// broken tie.
func c18Containment(rel, recv, name string) (mech string, f1, f2, f3 bool, node ast.Node) {
	fd := findFunc(rel, recv, name)
	if fd == nil {
		return "", false, false, false, nil
	}
	body := ast.Node(fd)
	// through the helper?
	viaHelper := false
	ast.Inspect(fd, func(y ast.Node) bool {
		if c, ok := y.(*ast.CallExpr); ok && exprText(c.Fun) == "isWithin" && len(c.Args) == 2 {
			viaHelper = true
			node = c
		}
		return true
	})
	if viaHelper {
		h := findFunc(rel, "", "isWithin")
		if h == nil {
			return "", false, false, false, nil
		}
		body = h
	}
	var relCall *ast.CallExpr
	ast.Inspect(body, func(y ast.Node) bool {
		if c, ok := y.(*ast.CallExpr); ok && exprText(c.Fun) == "filepath.Rel" && len(c.Args) == 2 {
			relCall = c
		}
		return true
	})
	if relCall != nil {
		if node == nil {
			node = relCall
		}
		ast.Inspect(body, func(y ast.Node) bool {
			switch x := y.(type) {
			case *ast.BinaryExpr:
				if x.Op == token.EQL || x.Op == token.NEQ {
					for _, side := range []ast.Expr{x.X, x.Y} {
						if s, ok := strLit(side); ok {
							if s == "." {
								f1 = true
							}
							if s == ".." {
								f2 = true
							}
						}
					}
				}
			case *ast.CallExpr:
				if exprText(x.Fun) == "strings.HasPrefix" && len(x.Args) == 2 && strings.HasPrefix(exprText(x.Args[1]), `".."`) {
					f3 = true
				}
			}
			return true
		})
		return "rel", f1, f2, f3, node
	}
	negOperand := map[ast.Node]bool{}
	ast.Inspect(fd, func(y ast.Node) bool {
		if u, ok := y.(*ast.UnaryExpr); ok && u.Op == token.NOT {
			negOperand[u.X] = true
		}
		return true
	})
	n := 0
	ast.Inspect(fd, func(y ast.Node) bool {
		if c, ok := y.(*ast.CallExpr); ok && exprText(c.Fun) == "strings.HasPrefix" && len(c.Args) == 2 {
			n++
			f1, f2, f3, node = c18IsClean(c.Args[0]), c18IsClean(c.Args[1]), negOperand[c], c
		}
		return true
	})
	if n != 1 {
		fail("%s:%s: no containment test found (neither filepath.Rel nor exactly one strings.HasPrefix; %d HasPrefix calls)", rel, name, n)
		return "", false, false, false, nil
	}
	return "string-prefix", f1, f2, f3, node
}

func genC18() {
	g := newGen("C18", "From Apko Require Import Base.Prelude.\nOpen Scope string_scope.")

	// --- etagFromResponse: the encoding -------------------------------------
	const cacheGo = "pkg/apk/apk/cache.go"
	fd := findFunc(cacheGo, "", "etagFromResponse")
	encodings := map[string][2]string{
		"base32.StdEncoding": {"ABCDEFGHIJKLMNOPQRSTUVWXYZ234567", "="},
		"base32.HexEncoding": {"0123456789ABCDEFGHIJKLMNOPQRSTUV", "="},
	}
	var enc string
	var encNode ast.Node
	if fd != nil {
		ast.Inspect(fd, func(n ast.Node) bool {
			c, ok := n.(*ast.CallExpr)
			if !ok {
				return true
			}
			if se, ok := c.Fun.(*ast.SelectorExpr); ok && se.Sel.Name == "EncodeToString" {
				enc, encNode = exprText(se.X), c
			}
			return true
		})
	}
	al, ok := encodings[enc]
	if !ok {
		fail("%s: etagFromResponse does not encode the ETag with a known base32 encoding (found %q)", cacheGo, enc)
		al = [2]string{"", ""}
	}
	// the encoded value must be what is returned: `etag = <enc>.EncodeToString(...)` then `return etag, ...`
	returnsEncoded := false
	if fd != nil && encNode != nil {
		var assigned string
		ast.Inspect(fd, func(n ast.Node) bool {
			if as, ok := n.(*ast.AssignStmt); ok && len(as.Rhs) == 1 && as.Rhs[0] == encNode.(ast.Expr) && len(as.Lhs) == 1 {
				assigned = exprText(as.Lhs[0])
			}
			if rs, ok := n.(*ast.ReturnStmt); ok && len(rs.Results) == 2 && assigned != "" && exprText(rs.Results[0]) == assigned {
				returnsEncoded = true
			}
			return true
		})
	}
	if !returnsEncoded {
		fail("%s: etagFromResponse does not return the encoded ETag", cacheGo)
	}
	g.def("etag_encoding", "string", coqStr(enc), "encoding applied to the ETag at "+g.pos(encNode))
	g.def("etag_alphabet", "string", coqStr(al[0]), "its alphabet")
	g.def("etag_pad", "string", coqStr(al[1]), "its padding character")
	// the cut set of strings.Trim
	trim := ""
	if fd != nil {
		ast.Inspect(fd, func(n ast.Node) bool {
			if c, ok := n.(*ast.CallExpr); ok && exprText(c.Fun) == "strings.Trim" && len(c.Args) == 2 {
				if s, ok := strLit(c.Args[1]); ok {
					trim = s
				}
			}
			return true
		})
	}
	if trim == "" {
		fail("%s: etagFromResponse: strings.Trim cut set not found", cacheGo)
	}
	g.def("etag_trim_cutset", "string", coqStr(trim), "strings.Trim cut set applied to the header value")

	// --- cacheFileFromEtag ----------------------------------------------------
	fd = findFunc(cacheGo, "", "cacheFileFromEtag")
	var exts []string
	var suffix, subdir string
	if fd != nil {
		ast.Inspect(fd, func(n ast.Node) bool {
			switch x := n.(type) {
			case *ast.AssignStmt:
				if len(x.Lhs) == 1 && len(x.Rhs) == 1 && exprText(x.Lhs[0]) == "ext" {
					if s, ok := strLit(x.Rhs[0]); ok {
						exts = append(exts, s)
					}
				}
				if len(x.Lhs) == 1 && len(x.Rhs) == 1 && exprText(x.Lhs[0]) == "cacheDir" {
					if c, ok := x.Rhs[0].(*ast.CallExpr); ok && exprText(c.Fun) == "filepath.Join" && len(c.Args) == 2 {
						if s, ok := strLit(c.Args[1]); ok {
							subdir = s
						}
					}
				}
			case *ast.CallExpr:
				if exprText(x.Fun) == "strings.HasSuffix" && len(x.Args) == 2 {
					if s, ok := strLit(x.Args[1]); ok {
						suffix = s
					}
				}
			}
			return true
		})
	}
	if len(exts) != 2 || suffix == "" || subdir == "" {
		fail("%s: cacheFileFromEtag: extensions / index suffix / index directory not found (%v %q %q)", cacheGo, exts, suffix, subdir)
		exts = append(exts, "", "")
	}
	g.def("etag_ext_default", "string", coqStr(exts[0]), "extension of a cached non-index file")
	g.def("etag_ext_index", "string", coqStr(exts[1]), "extension of a cached index")
	g.def("etag_index_suffix", "string", coqStr(suffix), "file names with this suffix are indexes")
	g.def("etag_index_dir", "string", coqStr(subdir), "sub-directory that holds cached indexes")

	shape := func(coq, rel, recv, name string) {
		mech, a, b, c, node := c18Containment(rel, recv, name)
		g.def(coq, "string * (bool * bool * bool)", fmt.Sprintf("(%s, (%v, %v, %v))", coqStr(mech), a, b, c),
			"containment test of "+name+" at "+g.pos(node)+`: "string-prefix" (a cleaned, b cleaned, negated) or "rel" (compared with ".", with "..", HasPrefix(rel,"../"))`)
	}
	shape("check_cache_file_from_etag", cacheGo, "", "cacheFileFromEtag")
	shape("check_cache_path_from_url", cacheGo, "", "cachePathFromURL")
	shape("check_sanitize_archive_path", "pkg/apk/apk/common.go", "", "sanitizeArchivePath")
	shape("check_sanitize_path", "pkg/apk/fs/rwosfs.go", "", "sanitizePath")
	shape("check_dirfs_link", "pkg/apk/fs/rwosfs.go", "dirFS", "Link")

	// --- cachePathFromURL: the repository component is query-escaped -----------
	fd = findFunc(cacheGo, "", "cachePathFromURL")
	esc := ""
	if fd != nil {
		ast.Inspect(fd, func(n ast.Node) bool {
			if as, ok := n.(*ast.AssignStmt); ok && len(as.Lhs) == 1 && len(as.Rhs) == 1 && exprText(as.Lhs[0]) == "repoDir" {
				if c, ok := as.Rhs[0].(*ast.CallExpr); ok && strings.HasPrefix(exprText(c.Fun), "url.") {
					esc = exprText(c.Fun)
				}
			}
			return true
		})
	}
	if esc == "" {
		fail("%s: cachePathFromURL: repoDir is not assigned from a url.* escaping call", cacheGo)
	}
	g.def("cache_repo_component", "string", coqStr(esc), "how the repository part of the URL becomes one directory name")

	// --- InitKeyring: where a key is written ---------------------------------
	const implGo = "pkg/apk/apk/implementation.go"
	fd = findFunc(implGo, "APK", "InitKeyring")
	var keyDir []string
	keyLast := ""
	if fd != nil {
		ast.Inspect(fd, func(n ast.Node) bool {
			c, ok := n.(*ast.CallExpr)
			if !ok || exprText(c.Fun) != "a.fs.WriteFile" || len(c.Args) < 1 {
				return true
			}
			j, ok := c.Args[0].(*ast.CallExpr)
			if !ok || exprText(j.Fun) != "filepath.Join" || len(j.Args) < 2 {
				fail("%s: InitKeyring: the key path is not a filepath.Join call", implGo)
				return true
			}
			for _, a := range j.Args[:len(j.Args)-1] {
				s, ok := strLit(a)
				if !ok {
					fail("%s: InitKeyring: non-literal directory component %s", implGo, exprText(a))
				}
				keyDir = append(keyDir, coqStr(s))
			}
			keyLast = exprText(j.Args[len(j.Args)-1])
			return true
		})
	}
	if keyLast == "" {
		fail("%s: InitKeyring: a.fs.WriteFile(filepath.Join(...)) not found", implGo)
	}
	g.def("key_dir_elems", "list string", "["+strings.Join(keyDir, "; ")+"]", "literal directory elements of the key path in InitKeyring")
	g.def("key_last_is_base", "bool", fmt.Sprint(strings.HasPrefix(keyLast, "filepath.Base(") && strings.HasSuffix(keyLast, ")")), "the last element of the key path is filepath.Base(<key location>): "+keyLast)

	// --- parseRepositoryIndex: key-name check ---------------------------------
	const indexGo = "pkg/apk/apk/index.go"
	fd = findFunc(indexGo, "", "parseRepositoryIndex")
	sep := ""
	if fd != nil {
		ast.Inspect(fd, func(n ast.Node) bool {
			if c, ok := n.(*ast.CallExpr); ok && exprText(c.Fun) == "strings.Contains" && len(c.Args) == 2 && exprText(c.Args[0]) == "keyName" {
				if s, ok := strLit(c.Args[1]); ok {
					sep = s
				}
			}
			return true
		})
	}
	if sep == "" {
		fail("%s: parseRepositoryIndex: strings.Contains(keyName, <lit>) not found", indexGo)
	}
	g.def("keyname_forbidden", "string", coqStr(sep), "a key name containing this is rejected by parseRepositoryIndex")

	// --- cachedPackage: the member named by the control section's datahash -------
	fd = findFunc(implGo, "APK", "cachedPackage")
	datSuffix, tarTrim := "", ""
	var joinPos, hexPos, dataPos token.Pos
	dhVar := "" // the local that receives a.datahash(..): its name is not part of the shape
	if fd != nil {
		ast.Inspect(fd, func(n ast.Node) bool {
			if as, ok := n.(*ast.AssignStmt); ok && len(as.Rhs) == 1 && len(as.Lhs) >= 1 {
				if c, ok := as.Rhs[0].(*ast.CallExpr); ok && exprText(c.Fun) == "a.datahash" {
					dhVar = exprText(as.Lhs[0])
				}
			}
			return true
		})
		ast.Inspect(fd, func(n ast.Node) bool {
			c, ok := n.(*ast.CallExpr)
			if !ok {
				return true
			}
			switch exprText(c.Fun) {
			case "filepath.Join":
				if len(c.Args) == 2 {
					if b, ok := c.Args[1].(*ast.BinaryExpr); ok && b.Op == token.ADD && dhVar != "" && exprText(b.X) == dhVar {
						if s, ok := strLit(b.Y); ok {
							datSuffix, joinPos = s, c.Pos()
						}
					}
				}
			case "hex.DecodeString":
				if len(c.Args) == 1 && dhVar != "" && exprText(c.Args[0]) == dhVar {
					hexPos = c.Pos()
				}
			case "strings.TrimSuffix":
				if len(c.Args) == 2 && strings.HasSuffix(exprText(c.Args[0]), ".PackageFile") {
					if s, ok := strLit(c.Args[1]); ok {
						tarTrim = s
					}
				}
			}
			if se, ok := c.Fun.(*ast.SelectorExpr); ok && se.Sel.Name == "PackageData" && joinPos != token.NoPos && dataPos == token.NoPos {
				dataPos = c.Pos()
			}
			return true
		})
	}
	if datSuffix == "" || tarTrim == "" || hexPos == token.NoPos || dataPos == token.NoPos {
		fail("%s: cachedPackage: <d> := a.datahash(..) / filepath.Join(_, <d>+<lit>) / strings.TrimSuffix(_.PackageFile, <lit>) / hex.DecodeString(<d>) / _.PackageData() not all found", implGo)
	}
	g.def("cached_dat_suffix", "string", coqStr(datSuffix), "cachedPackage: the data member is <cacheDir>/<datahash><this>")
	g.def("cached_tar_trim", "string", coqStr(tarTrim), "cachedPackage: the uncompressed tar is the member's name without this suffix")
	g.def("cached_hex_before_data", "bool", fmt.Sprint(joinPos < hexPos && hexPos < dataPos), "cachedPackage decodes the datahash as hexadecimal (error = cache miss) after joining it and before exp.PackageData() may create the tar")

	// --- dirFS: which side a mutating method asks first --------------------------
	// true = a call into os/unix on filepath.Join(f.base, ..) comes (textually) before the first f.overrides call
	var order []string
	for _, m := range []string{"WriteFile", "MkdirAll", "Mkdir", "Symlink", "Link", "Chmod", "Chown", "Chtimes", "Mknod", "Create", "OpenFile", "Remove"} {
		md := findFunc("pkg/apk/fs/rwosfs.go", "dirFS", m)
		var hostPos, ovPos token.Pos
		if md != nil {
			ast.Inspect(md, func(n ast.Node) bool {
				c, ok := n.(*ast.CallExpr)
				if !ok {
					return true
				}
				ft := exprText(c.Fun)
				if (strings.HasPrefix(ft, "os.") || strings.HasPrefix(ft, "unix.")) && hostPos == token.NoPos {
					for _, a := range c.Args {
						if strings.Contains(exprText(a), "f.base") || exprText(a) == "target" {
							hostPos = c.Pos()
						}
					}
				}
				if strings.HasPrefix(ft, "f.overrides.") && ovPos == token.NoPos {
					ovPos = c.Pos()
				}
				return true
			})
		}
		if hostPos == token.NoPos || ovPos == token.NoPos {
			fail("pkg/apk/fs/rwosfs.go: dirFS.%s: host call / overlay call not found", m)
		}
		order = append(order, fmt.Sprintf("(%s, %v)", coqStr(m), hostPos < ovPos))
	}
	g.def("dirfs_host_first", "list (string * bool)", "["+strings.Join(order, "; ")+"]", "dirFS methods: the os call on filepath.Join(f.base, name) comes before the first call on the in-memory tree")

	// --- maxLinks of the two in-memory trees ----------------------------------
	for _, it := range [][2]string{{"pkg/apk/fs/memfs.go", "memfs_max_links"}, {"pkg/tarfs/fs.go", "tarfs_max_links"}} {
		v, ok := intLit(findValue(it[0], "maxLinks"))
		if !ok {
			fail("%s: maxLinks is not an integer literal", it[0])
		}
		g.def(it[1], "nat", fmt.Sprintf("%d", v), "maxLinks in "+it[0])
	}
	c18MoreDefs(g)
	g.write()
}
