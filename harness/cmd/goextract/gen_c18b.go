package main

// C18, second part (definitions added to Generated/C18.v by genC18):
//   pkg/apk/fs/memfs.go, pkg/tarfs/fs.go   getNodeCountLinks / MkdirAll: what a relative
//                             link target met on the way is joined to (the shape of the
//                             filepath.Join call: names traversed, the target, a root)
//   pkg/apk/expandapk/*.go, pkg/paths/*.go  every call that creates, renames, links or
//                             removes a file: function, callee and its arguments' text
//   pkg/apk/apk/implementation.go  fetchAlpineKeys: how the key's file name is made and
//                             which filesystem method stores it

import (
	"fmt"
	"go/ast"
	"go/token"
	"os"
	"path/filepath"
	"sort"
	"strings"
)

// c18JoinShape: in fd, the assignment <x> = filepath.Join(..) that sits under
// `if !filepath.IsAbs(<x>)`; each argument is classified (names of locals are not part of
// the shape): strings.Join(<v>, <sep>) -> "traversed", <x> itself -> "target", the
// separator constant or "/" -> "root", another identifier -> "var", anything else: its text
func c18JoinShape(rel, recv, name string, nth int) (shape []string, ok bool) {
	fd := findFunc(rel, recv, name)
	if fd == nil {
		return nil, false
	}
	seen := 0
	ast.Inspect(fd, func(n ast.Node) bool {
		ifs, isIf := n.(*ast.IfStmt)
		if !isIf || ok {
			return true
		}
		u, isU := ifs.Cond.(*ast.UnaryExpr)
		if !isU || u.Op != token.NOT {
			return true
		}
		c, isC := u.X.(*ast.CallExpr)
		if !isC || exprText(c.Fun) != "filepath.IsAbs" || len(c.Args) != 1 {
			return true
		}
		x := exprText(c.Args[0])
		for _, st := range ifs.Body.List {
			as, isA := st.(*ast.AssignStmt)
			if !isA || len(as.Lhs) != 1 || len(as.Rhs) != 1 || exprText(as.Lhs[0]) != x {
				continue
			}
			j, isJ := as.Rhs[0].(*ast.CallExpr)
			if !isJ || exprText(j.Fun) != "filepath.Join" {
				continue
			}
			if seen != nth {
				seen++
				continue
			}
			for _, a := range j.Args {
				t := exprText(a)
				switch {
				case t == x:
					shape = append(shape, "target")
				case t == "pathSep" || t == `"/"` || t == "string(filepath.Separator)" || t == "string(os.PathSeparator)":
					shape = append(shape, "root")
				default:
					if jc, isCall := a.(*ast.CallExpr); isCall && exprText(jc.Fun) == "strings.Join" && len(jc.Args) == 2 {
						shape = append(shape, "traversed")
					} else if _, isId := a.(*ast.Ident); isId {
						shape = append(shape, "var")
					} else {
						shape = append(shape, t)
					}
				}
			}
			ok = true
			return false
		}
		return true
	})
	return shape, ok
}

var c18MutatingCalls = map[string]bool{
	"os.CreateTemp": true, "os.MkdirTemp": true, "os.Rename": true, "os.Link": true, "os.Symlink": true,
	"os.Create": true, "os.OpenFile": true, "os.WriteFile": true, "os.Mkdir": true, "os.MkdirAll": true,
	"os.Remove": true, "os.RemoveAll": true, "os.Chmod": true, "os.Chown": true, "os.Chtimes": true, "os.Truncate": true,
	"ioutil.TempFile": true, "ioutil.TempDir": true, "ioutil.WriteFile": true,
}

// c18Resolver prints an expression of a function with the names of its locals taken
// out: a parameter is $<index>, the receiver $r, a local its (first) defining
// expression, resolved the same way. Renaming a local or a parameter does not change
// the text; computing a path from something else does.
type c18Def struct {
	pos token.Pos
	e   ast.Expr
}

type c18Resolver struct {
	params map[string]string
	defs   map[string][]c18Def // assignments to a local, in source order
}

func newC18Resolver(fd *ast.FuncDecl) *c18Resolver {
	r := &c18Resolver{params: map[string]string{}, defs: map[string][]c18Def{}}
	if fd.Recv != nil {
		for _, f := range fd.Recv.List {
			for _, n := range f.Names {
				r.params[n.Name] = "$r"
			}
		}
	}
	i := 0
	if fd.Type.Params != nil {
		for _, f := range fd.Type.Params.List {
			for _, n := range f.Names {
				r.params[n.Name] = fmt.Sprintf("$%d", i)
				i++
			}
			if len(f.Names) == 0 {
				i++
			}
		}
	}
	ast.Inspect(fd, func(n ast.Node) bool {
		if as, ok := n.(*ast.AssignStmt); ok && len(as.Lhs) >= 1 && len(as.Rhs) == 1 {
			// x := f(..)  /  x, err := f(..): the first name stands for the call
			if id, ok := as.Lhs[0].(*ast.Ident); ok && id.Name != "_" && id.Name != "err" {
				r.defs[id.Name] = append(r.defs[id.Name], c18Def{as.Pos(), as.Rhs[0]})
			} else if se, ok := as.Lhs[0].(*ast.SelectorExpr); ok && len(as.Lhs) == 1 {
				// a field that is assigned in the function (exp.PackageFile = datDst): keyed by its text
				r.defs[exprText(se)] = append(r.defs[exprText(se)], c18Def{as.Pos(), as.Rhs[0]})
			}
		} else if ok && len(as.Lhs) == len(as.Rhs) {
			// a, b := x, y
			for i := range as.Lhs {
				if id, ok := as.Lhs[i].(*ast.Ident); ok && id.Name != "_" && id.Name != "err" {
					r.defs[id.Name] = append(r.defs[id.Name], c18Def{as.Pos(), as.Rhs[i]})
				}
			}
		}
		return true
	})
	return r
}

// text: [at] is where the expression is used; a local stands for the assignments to it
// that come (textually) before that place
func (r *c18Resolver) text(e ast.Expr, depth int, at token.Pos) string {
	switch x := e.(type) {
	case *ast.Ident:
		if p, ok := r.params[x.Name]; ok {
			return p
		}
		if ds, ok := r.defs[x.Name]; ok && depth > 0 {
			// every assignment that comes before the use (no flow analysis: alternatives)
			var alts []string
			for i := range ds {
				if ds[i].pos < at {
					t := r.text(ds[i].e, depth-1, ds[i].pos)
					dup := false
					for _, a := range alts {
						dup = dup || a == t
					}
					if !dup {
						alts = append(alts, t)
					}
				}
			}
			if len(alts) == 1 {
				return alts[0]
			}
			if len(alts) > 1 {
				return "{" + strings.Join(alts, " | ") + "}"
			}
		}
		return x.Name
	case *ast.SelectorExpr:
		if ds, ok := r.defs[exprText(x)]; ok && depth > 0 {
			var alts []string
			for i := range ds {
				if ds[i].pos < at {
					t := r.text(ds[i].e, depth-1, ds[i].pos)
					dup := false
					for _, a := range alts {
						dup = dup || a == t
					}
					if !dup {
						alts = append(alts, t)
					}
				}
			}
			if len(alts) == 1 {
				return alts[0]
			}
			if len(alts) > 1 {
				return "{" + strings.Join(alts, " | ") + "}"
			}
		}
		return r.text(x.X, depth, at) + "." + x.Sel.Name
	case *ast.CallExpr:
		var args []string
		for _, a := range x.Args {
			args = append(args, r.text(a, depth, at))
		}
		return r.text(x.Fun, depth, at) + "(" + strings.Join(args, ", ") + ")"
	case *ast.BinaryExpr:
		return r.text(x.X, depth, at) + " " + x.Op.String() + " " + r.text(x.Y, depth, at)
	case *ast.ParenExpr:
		return "(" + r.text(x.X, depth, at) + ")"
	case *ast.UnaryExpr:
		return x.Op.String() + r.text(x.X, depth, at)
	}
	return exprText(e)
}

// c18FuncSites: in one function, every mutating os call and every call of one of [extra]
func c18FuncSites(rel, recv, name string, extra map[string]bool) (res []string) {
	fd := findFunc(rel, recv, name)
	if fd == nil {
		fail("%s: %s not found", rel, name)
		return nil
	}
	rs := newC18Resolver(fd)
	ast.Inspect(fd, func(nd ast.Node) bool {
		c, isC := nd.(*ast.CallExpr)
		if !isC || !(c18MutatingCalls[exprText(c.Fun)] || extra[exprText(c.Fun)]) {
			return true
		}
		var args []string
		for _, a := range c.Args {
			args = append(args, rs.text(a, 6, c.Pos()))
		}
		res = append(res, fmt.Sprintf("(%s, %s)", coqStr(exprText(c.Fun)), coqStrList(args)))
		return true
	})
	return res
}

// c18Sites: every mutating os call in the non-test files of a package directory
func c18Sites(dir string) (res []string) {
	ents, err := os.ReadDir(filepath.Join(*repo, dir))
	if err != nil {
		fail("%s: cannot list: %v", dir, err)
		return nil
	}
	var names []string
	for _, e := range ents {
		n := e.Name()
		if strings.HasSuffix(n, ".go") && !strings.HasSuffix(n, "_test.go") && !strings.Contains(n, "_verif") {
			names = append(names, n)
		}
	}
	sort.Strings(names)
	for _, n := range names {
		rel := filepath.Join(dir, n)
		f := load(rel)
		if f == nil {
			continue
		}
		for _, d := range f.Decls {
			fd, isF := d.(*ast.FuncDecl)
			if !isF || fd.Body == nil {
				continue
			}
			fn := fd.Name.Name
			if fd.Recv != nil && len(fd.Recv.List) == 1 {
				fn = recvName(fd.Recv.List[0].Type) + "." + fn
			}
			rs := newC18Resolver(fd)
			ast.Inspect(fd, func(nd ast.Node) bool {
				c, isC := nd.(*ast.CallExpr)
				if !isC || !c18MutatingCalls[exprText(c.Fun)] {
					return true
				}
				var args []string
				for _, a := range c.Args {
					args = append(args, rs.text(a, 6, c.Pos()))
				}
				res = append(res, fmt.Sprintf("(%s, %s, %s)", coqStr(fn), coqStr(exprText(c.Fun)), coqStrList(args)))
				return true
			})
		}
	}
	return res
}

func c18MoreDefs(g *gen) {
	// --- what a relative link target is joined to, in both in-memory trees -------------
	for _, it := range []struct{ rel, recv, fn, def string }{
		{"pkg/apk/fs/memfs.go", "memFS", "getNodeCountLinks", "memfs_link_join"},
		{"pkg/apk/fs/memfs.go", "memFS", "MkdirAll", "memfs_mkdirall_link_join"},
		{"pkg/apk/fs/memfs.go", "memFS", "openFile", "memfs_open_link_join"},
		{"pkg/tarfs/fs.go", "memFS", "getNodeCountLinks", "tarfs_link_join"},
	} {
		shape, ok := c18JoinShape(it.rel, it.recv, it.fn, 0)
		if !ok {
			fail("%s: %s: `if !filepath.IsAbs(x) { x = filepath.Join(..) }` not found", it.rel, it.fn)
		}
		g.def(it.def, "list string", coqStrList(shape), it.rel+" "+it.fn+": a relative link target met on the way becomes filepath.Join of these (traversed = strings.Join of the names walked so far, target = the link's text, root = the separator, var = another local)")
	}

	// --- DirFS: which stat classifies the entries of an existing root ----------------------
	// in the fs.WalkDir callback of DirFS: the calls assigned to the variable whose .Mode() decides
	// between Mkdir / Symlink / Mknod / OpenFile ($i = the callback's i-th parameter)
	var mirror []string
	if dfd := findFunc("pkg/apk/fs/rwosfs.go", "", "DirFS"); dfd != nil {
		ast.Inspect(dfd, func(n ast.Node) bool {
			fl, ok := n.(*ast.FuncLit)
			if !ok || fl.Type.Params == nil || len(fl.Type.Params.List) < 2 || mirror != nil {
				return true
			}
			params := map[string]string{}
			i := 0
			for _, f := range fl.Type.Params.List {
				for _, nm := range f.Names {
					params[nm.Name] = fmt.Sprintf("$%d", i)
					i++
				}
			}
			modeVar := ""
			ast.Inspect(fl, func(m ast.Node) bool {
				if c, ok := m.(*ast.CallExpr); ok {
					if se, ok := c.Fun.(*ast.SelectorExpr); ok && se.Sel.Name == "Mode" {
						if id, ok := se.X.(*ast.Ident); ok && modeVar == "" {
							modeVar = id.Name
						}
					}
				}
				return true
			})
			if modeVar == "" {
				return true
			}
			ast.Inspect(fl, func(m ast.Node) bool {
				as, ok := m.(*ast.AssignStmt)
				if !ok || len(as.Lhs) < 1 || len(as.Rhs) != 1 {
					return true
				}
				if id, ok := as.Lhs[0].(*ast.Ident); !ok || id.Name != modeVar {
					return true
				}
				if c, ok := as.Rhs[0].(*ast.CallExpr); ok {
					t := exprText(c.Fun)
					if se, ok := c.Fun.(*ast.SelectorExpr); ok {
						if id, ok := se.X.(*ast.Ident); ok {
							if p, ok := params[id.Name]; ok {
								t = p + "." + se.Sel.Name
							}
						}
					}
					mirror = append(mirror, t)
				}
				return true
			})
			return true
		})
	}
	if len(mirror) == 0 {
		fail("pkg/apk/fs/rwosfs.go: DirFS: the WalkDir callback's `fi, err := <stat>` feeding fi.Mode() not found")
	}
	g.def("dirfs_mirror_stat", "list string", coqStrList(mirror), "DirFS: in the walk that mirrors an existing root into the overlay, the calls whose result's Mode() classifies an entry ($i = the callback's i-th parameter; $1.Info is the DirEntry's own lstat)")

	// --- every file-creating / renaming / removing call of expandapk and paths ----------
	for _, it := range [][2]string{{"pkg/apk/expandapk", "expandapk_sites"}, {"pkg/paths", "paths_sites"}} {
		sites := c18Sites(it[0])
		if len(sites) == 0 {
			fail("%s: no file-creating call found", it[0])
		}
		g.def(it[1], "list (string * string * list string)", "["+strings.Join(sites, "; ")+"]", "mutating os calls in "+it[0]+" (function, callee, arguments as written)")
	}

	// --- cachePackage and retrieveAndSaveFile: what they create, advertise and remove ------------
	adv := map[string]bool{"paths.AdvertiseCachedFile": true}
	cps := c18FuncSites("pkg/apk/apk/implementation.go", "APK", "cachePackage", adv)
	if len(cps) == 0 {
		fail("pkg/apk/apk/implementation.go: cachePackage: no paths.AdvertiseCachedFile call found")
	}
	g.def("cachepackage_sites", "list (string * list string)", "["+strings.Join(cps, "; ")+"]", "cachePackage: every call that creates, links or removes a file (callee, arguments traced to parameters $i and literals)")
	rss := c18FuncSites("pkg/apk/apk/cache.go", "cacheTransport", "retrieveAndSaveFile", adv)
	if len(rss) == 0 {
		fail("pkg/apk/apk/cache.go: retrieveAndSaveFile: no creating call found")
	}
	g.def("retrieve_sites", "list (string * list string)", "["+strings.Join(rss, "; ")+"]", "retrieveAndSaveFile: every call that creates, links or removes a file (cp = the cachePlacer parameter's result)")
	// the suffix literals of the advertised names, in source order: <hex> + <lit> inside filepath.Join(.., ..),
	// and the literal trimmed for the tar
	var sufs []string
	trim := ""
	if cfd := findFunc("pkg/apk/apk/implementation.go", "APK", "cachePackage"); cfd != nil {
		ast.Inspect(cfd, func(n ast.Node) bool {
			c, ok := n.(*ast.CallExpr)
			if !ok {
				return true
			}
			switch exprText(c.Fun) {
			case "filepath.Join":
				if len(c.Args) == 2 {
					if b, ok := c.Args[1].(*ast.BinaryExpr); ok && b.Op == token.ADD {
						if v, ok := strLit(b.Y); ok {
							sufs = append(sufs, v)
						}
					}
				}
			case "strings.TrimSuffix":
				if len(c.Args) == 2 {
					if v, ok := strLit(c.Args[1]); ok && trim == "" {
						trim = v
					}
				}
			}
			return true
		})
	}
	if len(sufs) == 0 || trim == "" {
		fail("pkg/apk/apk/implementation.go: cachePackage: filepath.Join(_, _ + <lit>) / strings.TrimSuffix(_, <lit>) not found")
	}
	g.def("cachepackage_suffixes", "list string", coqStrList(sufs), "cachePackage: the literal suffixes of the advertised names, in source order")
	g.def("cachepackage_tar_trim", "string", coqStr(trim), "cachePackage: the tar's name is the data member's without this suffix")

	// --- the literals those calls are built from ----------------------------------------------
	const expGo = "pkg/apk/expandapk/expandapk.go"
	lit := map[string]string{}
	grab := func(recv, fn string, want func(c *ast.CallExpr) (string, ast.Expr)) {
		fd := findFunc(expGo, recv, fn)
		if fd == nil {
			return
		}
		ast.Inspect(fd, func(n ast.Node) bool {
			if c, ok := n.(*ast.CallExpr); ok {
				if key, e := want(c); key != "" {
					if v, ok := strLit(e); ok {
						if _, dup := lit[key]; !dup {
							lit[key] = v
						}
					}
				}
			}
			return true
		})
	}
	grab("", "ExpandApk", func(c *ast.CallExpr) (string, ast.Expr) {
		if exprText(c.Fun) == "os.MkdirTemp" && len(c.Args) == 2 {
			return "expand_tmpdir_pattern", c.Args[1]
		}
		return "", nil
	})
	grab("", "ExpandApk", func(c *ast.CallExpr) (string, ast.Expr) {
		if exprText(c.Fun) == "newExpandApkWriter" && len(c.Args) == 3 {
			return "expand_stream_base", c.Args[1]
		}
		return "", nil
	})
	grab("", "ExpandApk", func(c *ast.CallExpr) (string, ast.Expr) {
		if exprText(c.Fun) == "newExpandApkWriter" && len(c.Args) == 3 {
			return "expand_stream_ext", c.Args[2]
		}
		return "", nil
	})
	grab("", "ExpandApk", func(c *ast.CallExpr) (string, ast.Expr) {
		if exprText(c.Fun) == "strings.TrimSuffix" && len(c.Args) == 2 && strings.Contains(exprText(c.Args[0]), "CurrentName") {
			return "expand_tar_trim", c.Args[1]
		}
		return "", nil
	})
	grab("expandApkWriter", "Next", func(c *ast.CallExpr) (string, ast.Expr) {
		if exprText(c.Fun) == "fmt.Sprintf" && len(c.Args) == 4 {
			return "expand_stream_format", c.Args[0]
		}
		return "", nil
	})
	grab("APKExpanded", "PackageData", func(c *ast.CallExpr) (string, ast.Expr) {
		if exprText(c.Fun) == "os.CreateTemp" && len(c.Args) == 2 {
			return "packagedata_tmp_pattern", c.Args[1]
		}
		return "", nil
	})
	for _, k := range []string{"expand_tmpdir_pattern", "expand_stream_base", "expand_stream_ext", "expand_tar_trim", "expand_stream_format", "packagedata_tmp_pattern"} {
		v, ok := lit[k]
		if !ok {
			fail("%s: literal for %s not found", expGo, k)
		}
		g.def(k, "string", coqStr(v), "pkg/apk/expandapk: literal in ExpandApk / expandApkWriter.Next / PackageData")
	}

	// --- fetchAlpineKeys: the key's file name --------------------------------------------
	const implGo = "pkg/apk/apk/implementation.go"
	fd := findFunc(implGo, "APK", "fetchAlpineKeys")
	var nameChain []string // from the URL to the name, innermost first
	var joinDir, method, flags string
	if fd != nil {
		defs := map[string]ast.Expr{}
		ast.Inspect(fd, func(n ast.Node) bool {
			if as, ok := n.(*ast.AssignStmt); ok && len(as.Lhs) >= 1 && len(as.Rhs) == 1 {
				if id, ok := as.Lhs[0].(*ast.Ident); ok {
					if _, dup := defs[id.Name]; !dup {
						defs[id.Name] = as.Rhs[0]
					}
				}
			}
			return true
		})
		ast.Inspect(fd, func(n ast.Node) bool {
			c, ok := n.(*ast.CallExpr)
			if !ok || !strings.HasPrefix(exprText(c.Fun), "a.fs.") || len(c.Args) < 1 || method != "" {
				return true
			}
			method = strings.TrimPrefix(exprText(c.Fun), "a.fs.")
			if len(c.Args) >= 2 {
				flags = exprText(c.Args[1])
			}
			// the name argument: follow locals back to the loop variable
			e := c.Args[0]
			for i := 0; i < 8; i++ {
				if id, ok := e.(*ast.Ident); ok {
					if d, ok := defs[id.Name]; ok {
						e = d
						continue
					}
					break
				}
				call, ok := e.(*ast.CallExpr)
				if !ok {
					break
				}
				ft := exprText(call.Fun)
				if ft == "filepath.Join" && len(call.Args) == 2 {
					joinDir = exprText(call.Args[0])
					e = call.Args[1]
					continue
				}
				if len(call.Args) == 1 {
					nameChain = append(nameChain, ft)
					e = call.Args[0]
					continue
				}
				break
			}
			return true
		})
	}
	if method == "" || joinDir == "" || len(nameChain) == 0 {
		fail("%s: fetchAlpineKeys: a.fs.<Method>(filepath.Join(<dir>, f(g(url))), ..) not found", implGo)
	}
	kd, _ := strLit(findValue("pkg/apk/apk/const.go", joinDir))
	if kd == "" {
		if v := findValue(implGo, joinDir); v != nil {
			kd, _ = strLit(v)
		}
	}
	g.def("alpine_key_name_chain", "list string", coqStrList(nameChain), "fetchAlpineKeys: the functions applied to the key URL to get the file name, outermost first")
	g.def("alpine_key_dir", "string", coqStr(kd), "fetchAlpineKeys: the directory the name is joined to ("+joinDir+")")
	g.def("alpine_key_store", "string * string", "("+coqStr(method)+", "+coqStr(flags)+")", "fetchAlpineKeys: the filesystem method that stores the key, and its flags")
}
