package main

import (
	"go/ast"
	"strings"
)

// genC19: the ORDER of the durable file-system calls in the cache population
// code (which call comes before which is what crash safety depends on) and the
// name patterns of temporary and advertised files.
func genC19() {
	g := newGen("C19Cache", "From Apko Require Import Base.Prelude.\nOpen Scope string_scope. Open Scope list_scope.")
	watched := map[string]bool{
		"os.MkdirAll": true, "os.MkdirTemp": true, "os.CreateTemp": true, "os.Create": true, "os.OpenFile": true,
		"os.WriteFile": true, "io.Copy": true, "io.CopyBuffer": true, "os.Rename": true, "os.Symlink": true,
		"os.Link": true, "os.Remove": true, "os.RemoveAll": true, "os.Stat": true, "os.Lstat": true,
		"os.Open": true, "os.Truncate": true, "paths.AdvertiseCachedFile": true,
	}
	skeleton := func(fd *ast.FuncDecl) (calls []string, firstArgs []string, lits []string) {
		if fd == nil || fd.Body == nil {
			return
		}
		ast.Inspect(fd.Body, func(n ast.Node) bool {
			ce, ok := n.(*ast.CallExpr)
			if !ok {
				return true
			}
			name := exprText(ce.Fun)
			if !watched[name] {
				return true
			}
			calls = append(calls, name)
			if len(ce.Args) > 0 {
				// only the selected field is recorded (renaming a local must not matter)
				arg := "_"
				which := ce.Args[0]
				if name == "os.Rename" {
					which = ce.Args[len(ce.Args)-1] // the destination is what matters
				}
				if se, ok := which.(*ast.SelectorExpr); ok {
					arg = se.Sel.Name
				}
				firstArgs = append(firstArgs, name+"("+arg+")")
			}
			for _, a := range ce.Args {
				if s, ok := strLit(a); ok {
					lits = append(lits, name+":"+s)
				}
			}
			return true
		})
		return
	}
	list := func(ss []string) string {
		var items []string
		for _, s := range ss {
			items = append(items, coqStr(s))
		}
		return "[" + strings.Join(items, "; ") + "]"
	}

	fd := findFunc("pkg/apk/apk/cache.go", "cacheTransport", "retrieveAndSaveFile")
	calls, _, lits := skeleton(fd)
	g.def("retrieve_calls", "list string", list(calls), "file-system calls of cacheTransport.retrieveAndSaveFile in source order, "+g.pos(fd))
	g.def("retrieve_literals", "list string", list(lits), "string literals passed to them")

	fd = findFunc("pkg/paths/paths.go", "", "AdvertiseCachedFile")
	calls, _, _ = skeleton(fd)
	g.def("advertise_calls", "list string", list(calls), "file-system calls of paths.AdvertiseCachedFile in source order, "+g.pos(fd))

	fd = findFunc("pkg/apk/apk/implementation.go", "APK", "cachePackage")
	calls, args, _ := skeleton(fd)
	g.def("cache_package_calls", "list string", list(args), "calls of APK.cachePackage with their first argument, "+g.pos(fd))
	_ = calls

	fd = findFunc("pkg/apk/expandapk/expandapk.go", "APKExpanded", "PackageData")
	_, args, _ = skeleton(fd)
	g.def("package_data_calls", "list string", list(args), "calls of APKExpanded.PackageData with their first argument, "+g.pos(fd))

	fd = findFunc("pkg/apk/expandapk/expandapk.go", "", "ExpandApk")
	calls, _, lits = skeleton(fd)
	g.def("expand_calls", "list string", list(calls), "file-system calls of ExpandApk in source order (stream files are created by expandApkWriter.Next), "+g.pos(fd))
	g.def("expand_literals", "list string", list(lits), "string literals passed to them")

	fd = findFunc("pkg/apk/expandapk/expandapk.go", "expandApkWriter", "Next")
	calls, _, _ = skeleton(fd)
	g.def("expand_next_calls", "list string", list(calls), "file-system calls of expandApkWriter.Next, "+g.pos(fd))
	g.write()
}
