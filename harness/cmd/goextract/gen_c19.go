package main

import (
	"go/ast"
	"strings"
)

// genC19: the ORDER of the durable file-system calls in the cache population
// code (which call comes before which is what crash safety depends on) and the
// name patterns of temporary and advertised files.
func genC19() {
	g := newGen("C19Cache", "From Apko Require Import Base.Prelude.\nOpen Scope string_scope. Open Scope list_scope.")
	watched := map[string]bool{
		"os.MkdirAll": true, "os.MkdirTemp": true, "os.CreateTemp": true, "os.Create": true, "os.OpenFile": true,
		"os.WriteFile": true, "io.Copy": true, "io.CopyBuffer": true, "os.Rename": true, "os.Symlink": true,
		"os.Link": true, "os.Remove": true, "os.RemoveAll": true, "os.Stat": true, "os.Lstat": true,
		"os.Open": true, "os.Truncate": true, "paths.AdvertiseCachedFile": true,
	}
	skeleton := func(fd *ast.FuncDecl) (calls []string, firstArgs []string, lits []string) {
		if fd == nil || fd.Body == nil {
			return
		}
		ast.Inspect(fd.Body, func(n ast.Node) bool {
			ce, ok := n.(*ast.CallExpr)
			if !ok {
				return true
			}
			name := exprText(ce.Fun)
			if !watched[name] {
				return true
			}
			calls = append(calls, name)
			if len(ce.Args) > 0 {
				// only the selected field is recorded (renaming a local must not matter)
				arg := "_"
				which := ce.Args[0]
				if name == "os.Rename" {
					which = ce.Args[len(ce.Args)-1] // the destination is what matters
				}
				if se, ok := which.(*ast.SelectorExpr); ok {
					arg = se.Sel.Name
				}
				firstArgs = append(firstArgs, name+"("+arg+")")
			}
			for _, a := range ce.Args {
				if s, ok := strLit(a); ok {
					lits = append(lits, name+":"+s)
				}
			}
			return true
		})
		return
	}
	list := func(ss []string) string {
		var items []string
		for _, s := range ss {
			items = append(items, coqStr(s))
		}
		return "[" + strings.Join(items, "; ") + "]"
	}

	fd := findFunc("pkg/apk/apk/cache.go", "cacheTransport", "retrieveAndSaveFile")
	calls, _, lits := skeleton(fd)
	g.def("retrieve_calls", "list string", list(calls), "file-system calls of cacheTransport.retrieveAndSaveFile in source order, "+g.pos(fd))
	g.def("retrieve_literals", "list string", list(lits), "string literals passed to them")

	fd = findFunc("pkg/paths/paths.go", "", "AdvertiseCachedFile")
	calls, _, _ = skeleton(fd)
	g.def("advertise_calls", "list string", list(calls), "file-system calls of paths.AdvertiseCachedFile in source order, "+g.pos(fd))

	fd = findFunc("pkg/apk/apk/implementation.go", "APK", "cachePackage")
	calls, args, _ := skeleton(fd)
	g.def("cache_package_calls", "list string", list(args), "calls of APK.cachePackage with their first argument, "+g.pos(fd))
	_ = calls

	fd = findFunc("pkg/apk/expandapk/expandapk.go", "APKExpanded", "PackageData")
	_, args, _ = skeleton(fd)
	g.def("package_data_calls", "list string", list(args), "calls of APKExpanded.PackageData with their first argument, "+g.pos(fd))

	fd = findFunc("pkg/apk/expandapk/expandapk.go", "", "ExpandApk")
	calls, _, lits = skeleton(fd)
	g.def("expand_calls", "list string", list(calls), "file-system calls of ExpandApk in source order (stream files are created by expandApkWriter.Next), "+g.pos(fd))
	g.def("expand_literals", "list string", list(lits), "string literals passed to them")

	fd = findFunc("pkg/apk/expandapk/expandapk.go", "expandApkWriter", "Next")
	calls, _, _ = skeleton(fd)
	g.def("expand_next_calls", "list string", list(calls), "file-system calls of expandApkWriter.Next, "+g.pos(fd))

	// ---- which response's ETag names a downloaded index revision -------------------
	fd = findFunc("pkg/apk/apk/cache.go", "cacheTransport", "get")
	g.def("index_name_sources", "list string", list(c19NameSources(fd)),
		"for every non-error return of the cachePlacer callback in cacheTransport.get: where the etag in the file name comes from, "+g.pos(fd))
	fd = findFunc("pkg/apk/apk/cache.go", "cacheTransport", "retrieveAndSaveFile")
	g.def("retrieve_response_flow", "list string", list(c19ResponseFlow(fd)),
		"retrieveAndSaveFile: R = the result of wrapped.Do(request); what the cachePlacer is called with and what io.Copy reads, "+g.pos(fd))

	// ---- how temporary files / directories are created at every download site ---------
	var sites, flows []string
	for _, f := range []struct{ file, recv, name string }{
		{"pkg/apk/apk/cache.go", "cacheTransport", "retrieveAndSaveFile"},
		{"pkg/apk/expandapk/expandapk.go", "APKExpanded", "PackageData"},
		{"pkg/apk/expandapk/expandapk.go", "", "ExpandApk"},
	} {
		fd := findFunc(f.file, f.recv, f.name)
		st, fl := c19TempSites(fd, f.name)
		sites = append(sites, st...)
		flows = append(flows, fl...)
	}
	g.def("temp_sites", "list string", list(sites), "every call that creates a file or directory in the download functions: function:call(pattern literal)")
	g.def("temp_flows", "list string", list(flows), "where the path that is advertised / renamed / written below comes from")
	// ---- request coalescing: flightCache.Do, head, get, apkCache.get (gen_c19_flight.go) -----
	c19FlightShapes(g, list)
	g.write()
}

// funcLitArg returns the function literal among the arguments of the first call to callee in fd.
func funcLitArg(fd *ast.FuncDecl, callee string) *ast.FuncLit {
	var out *ast.FuncLit
	if fd == nil || fd.Body == nil {
		return nil
	}
	ast.Inspect(fd.Body, func(n ast.Node) bool {
		if ce, ok := n.(*ast.CallExpr); ok && out == nil && exprText(ce.Fun) == callee {
			for _, a := range ce.Args {
				if fl, ok := a.(*ast.FuncLit); ok {
					out = fl
				}
			}
		}
		return out == nil
	})
	return out
}

// definedFrom: the right-hand side call that defines identifier name inside body ("" if none).
func definedFrom(body ast.Node, name string) *ast.CallExpr {
	var out *ast.CallExpr
	ast.Inspect(body, func(n ast.Node) bool {
		as, ok := n.(*ast.AssignStmt)
		if !ok || len(as.Lhs) == 0 || len(as.Rhs) != 1 {
			return true
		}
		if id, ok := as.Lhs[0].(*ast.Ident); ok && id.Name == name {
			if ce, ok := as.Rhs[0].(*ast.CallExpr); ok && out == nil {
				out = ce
			}
		}
		return true
	})
	return out
}

// c19NameSources classifies every non-error return of the cachePlacer callback.
func c19NameSources(fd *ast.FuncDecl) []string {
	fl := funcLitArg(fd, "t.retrieveAndSaveFile")
	if fl == nil || fl.Type.Params == nil || len(fl.Type.Params.List) != 1 || len(fl.Type.Params.List[0].Names) != 1 {
		fail("C19: cacheTransport.get no longer passes a one-parameter callback to t.retrieveAndSaveFile")
		return nil
	}
	param := fl.Type.Params.List[0].Names[0].Name
	var out []string
	ast.Inspect(fl.Body, func(n ast.Node) bool {
		if _, ok := n.(*ast.FuncLit); ok {
			return false
		}
		rs, ok := n.(*ast.ReturnStmt)
		if !ok || len(rs.Results) == 0 {
			return true
		}
		if s, ok := strLit(rs.Results[0]); ok && s == "" {
			return true // an error return
		}
		ce, ok := rs.Results[0].(*ast.CallExpr)
		if !ok || exprText(ce.Fun) != "cacheFileFromEtag" || len(ce.Args) != 2 {
			out = append(out, "not-computed-in-the-callback:"+exprText(rs.Results[0]))
			return true
		}
		id, ok := ce.Args[1].(*ast.Ident)
		if !ok {
			out = append(out, "etag-expression:"+exprText(ce.Args[1]))
			return true
		}
		def := definedFrom(fl.Body, id.Name)
		switch {
		case def == nil:
			out = append(out, "etag-from-outside-the-callback:"+id.Name)
		case exprText(def.Fun) == "etagFromResponse" && len(def.Args) == 1 && exprText(def.Args[0]) == param:
			out = append(out, "etag-of-the-response-handed-to-the-callback")
		default:
			out = append(out, "etag-defined-by:"+exprText(def))
		}
		return true
	})
	return out
}

// c19ResponseFlow: in retrieveAndSaveFile, R := wrapped.Do(request); the placer is called with R and io.Copy reads R.Body.
func c19ResponseFlow(fd *ast.FuncDecl) []string {
	if fd == nil || fd.Body == nil || fd.Type.Params == nil {
		return nil
	}
	placer := ""
	for _, p := range fd.Type.Params.List {
		if exprText(p.Type) == "cachePlacer" && len(p.Names) == 1 {
			placer = p.Names[0].Name
		}
	}
	resp := ""
	ast.Inspect(fd.Body, func(n ast.Node) bool {
		as, ok := n.(*ast.AssignStmt)
		if !ok || len(as.Rhs) != 1 || len(as.Lhs) == 0 {
			return true
		}
		if ce, ok := as.Rhs[0].(*ast.CallExpr); ok && strings.HasSuffix(exprText(ce.Fun), ".wrapped.Do") && resp == "" {
			if id, ok := as.Lhs[0].(*ast.Ident); ok {
				resp = id.Name
			}
		}
		return true
	})
	if placer == "" || resp == "" {
		fail("C19: retrieveAndSaveFile: no cachePlacer parameter or no response from wrapped.Do")
		return nil
	}
	norm := func(e ast.Expr) string {
		t := exprText(e)
		if t == resp {
			return "R"
		}
		if strings.HasPrefix(t, resp+".") {
			return "R." + strings.TrimPrefix(t, resp+".")
		}
		return t
	}
	var out []string
	ast.Inspect(fd.Body, func(n ast.Node) bool {
		ce, ok := n.(*ast.CallExpr)
		if !ok {
			return true
		}
		switch f := exprText(ce.Fun); {
		case f == placer && len(ce.Args) == 1:
			out = append(out, "placer("+norm(ce.Args[0])+")")
		case f == "io.Copy" && len(ce.Args) == 2:
			out = append(out, "io.Copy(_, "+norm(ce.Args[1])+")")
		}
		return true
	})
	return out
}

// c19TempSites: the creating calls of one download function and where the published path comes from.
func c19TempSites(fd *ast.FuncDecl, fname string) (sites, flows []string) {
	if fd == nil || fd.Body == nil {
		return
	}
	creators := map[string]bool{"os.CreateTemp": true, "os.MkdirTemp": true, "os.Create": true, "os.OpenFile": true, "os.WriteFile": true, "os.Mkdir": true}
	tempVar := map[string]string{} // identifier -> creating call that defines it
	ast.Inspect(fd.Body, func(n ast.Node) bool {
		switch x := n.(type) {
		case *ast.AssignStmt:
			if len(x.Rhs) == 1 && len(x.Lhs) > 0 {
				if ce, ok := x.Rhs[0].(*ast.CallExpr); ok && creators[exprText(ce.Fun)] {
					if id, ok := x.Lhs[0].(*ast.Ident); ok {
						tempVar[id.Name] = exprText(ce.Fun)
					}
				}
			}
		case *ast.CallExpr:
			if creators[exprText(x.Fun)] {
				pat := "_"
				if len(x.Args) == 2 {
					if s, ok := strLit(x.Args[1]); ok {
						pat = s
					}
				}
				sites = append(sites, fname+":"+exprText(x.Fun)+"("+pat+")")
			}
		}
		return true
	})
	// origin of a path expression: X.Name() or X where X was defined by a creating call
	origin := func(e ast.Expr) string {
		t := exprText(e)
		if ce, ok := e.(*ast.CallExpr); ok && len(ce.Args) == 0 {
			if se, ok := ce.Fun.(*ast.SelectorExpr); ok && se.Sel.Name == "Name" {
				if c, ok := tempVar[exprText(se.X)]; ok {
					return "result-of-" + c
				}
			}
		}
		if c, ok := tempVar[t]; ok {
			return "result-of-" + c
		}
		return "other:" + t
	}
	ast.Inspect(fd.Body, func(n ast.Node) bool {
		ce, ok := n.(*ast.CallExpr)
		if !ok {
			return true
		}
		switch f := exprText(ce.Fun); {
		case f == "paths.AdvertiseCachedFile" && len(ce.Args) == 2:
			flows = append(flows, fname+":advertise-src="+origin(ce.Args[0]))
		case f == "os.Rename" && len(ce.Args) == 2:
			flows = append(flows, fname+":rename-src="+origin(ce.Args[0]))
		case f == "newExpandApkWriter" && len(ce.Args) >= 1:
			flows = append(flows, fname+":stream-files-dir="+origin(ce.Args[0]))
		}
		return true
	})
	return
}
