package main

import (
	"go/ast"
	"go/token"
	"strings"
)

// C19, request coalescing: the SHAPE of the four coalescing sites — what is looked at before
// fn is executed, what is stored afterwards and under which condition. Local names do not
// matter: the callback is the function literal handed to <…>.Do, "fn" is whatever the
// callback calls to do the work, the map is recognised by its Load/Store methods.
//
// Tokens of a callback (top-level statements of the function literal, in source order):
//
//	load-return     if v, ok := <map>.Load(key); ok { return … }          (the leader looks again)
//	stat-return     if _, err := os.Stat(…); err == nil { return … }       (the file is there)
//	call-fn         … := <work>(…) / return <work>(…)
//	if-err-return   if err != nil { return … }   (nothing stored inside)
//	store           <map>.Store(…) / <cache>.store(…)
//	return          return …
func c19FlightShapes(g *gen, list func([]string) string) {
	// ---- flightCache.Do ---------------------------------------------------------
	fd := findFunc("pkg/apk/apk/cache.go", "flightCache", "Do")
	g.def("flight_do_shape", "list string", list(c19DoShape(fd, "flightCache.Do", ".flight.Do", func(ce *ast.CallExpr) bool {
		// the work: a call of the func-typed parameter of Do
		if fd == nil || fd.Type.Params == nil {
			return false
		}
		for _, p := range fd.Type.Params.List {
			if _, ok := p.Type.(*ast.FuncType); ok {
				for _, n := range p.Names {
					if exprText(ce.Fun) == n.Name {
						return true
					}
				}
			}
		}
		return false
	})), "flightCache.Do: fast path, then the callback handed to the singleflight group, "+g.pos(fd))

	// ---- cacheTransport.head ------------------------------------------------------
	fd = findFunc("pkg/apk/apk/cache.go", "cacheTransport", "head")
	g.def("head_shape", "list string", list(c19DoShape(fd, "cacheTransport.head", ".headFlight.Do", func(ce *ast.CallExpr) bool {
		return strings.HasSuffix(exprText(ce.Fun), ".wrapped.Do")
	})), "cacheTransport.head: the etag cache is consulted, then headFlight.Do(HEAD; store), "+g.pos(fd))

	// Cache.load / Cache.store do nothing without an etag cache (NewCache(false))
	var guards []string
	for _, m := range []string{"load", "store"} {
		fm := findFunc("pkg/apk/apk/cache.go", "Cache", m)
		guards = append(guards, "Cache."+m+":"+c19NilGuard(fm))
	}
	g.def("etag_cache_guards", "list string", list(guards), "Cache.load / Cache.store return at once when the etag cache is nil")

	// ---- cacheTransport.get ---------------------------------------------------------
	fd = findFunc("pkg/apk/apk/cache.go", "cacheTransport", "get")
	g.def("get_shape", "list string", list(c19DoShape(fd, "cacheTransport.get", ".getFlight.Do", func(ce *ast.CallExpr) bool {
		return strings.HasSuffix(exprText(ce.Fun), ".retrieveAndSaveFile")
	})), "cacheTransport.get: getFlight.Do(stat the HEAD etag's file; else download), "+g.pos(fd))

	// ---- fetchOffline: which directory entries are candidates -------------------------------
	fd = findFunc("pkg/apk/apk/cache.go", "cacheTransport", "fetchOffline")
	g.def("offline_filter", "list string", list(c19OfflineFilter(fd)),
		"fetchOffline: entries skipped before the modification times are compared (`if <name has suffix S> { continue }` inside the loop over the directory), "+g.pos(fd))

	// ---- cacheFileFromEtag: which part of the etag goes into the file name -------------------
	fd = findFunc("pkg/apk/apk/cache.go", "", "cacheFileFromEtag")
	use, exts := c19EtagNameUse(fd)
	g.def("etag_name_use", "list string", list(use),
		"cacheFileFromEtag: the file name is filepath.Join(<dir>, X+ext); whole = X is the etag parameter itself and nothing assigns to it, "+g.pos(fd))
	g.def("etag_name_exts", "list string", list(exts), "the extensions: initial value of ext, then the one assigned for the index")

	// ---- apkCache.get -----------------------------------------------------------------
	fd = findFunc("pkg/apk/apk/implementation.go", "apkCache", "get")
	g.def("apk_cache_shape", "list string", list(c19OnceShape(fd)), "apkCache.get: sync.Once per key, what the once stores and what happens to a failed entry afterwards, "+g.pos(fd))
}

// isErrNotNil: `err != nil` (whatever the identifier is called, it must be an identifier compared with nil)
func isErrCond(e ast.Expr, op token.Token) bool {
	be, ok := e.(*ast.BinaryExpr)
	if !ok || be.Op != op {
		return false
	}
	_, l := be.X.(*ast.Ident)
	r, rok := be.Y.(*ast.Ident)
	return l && rok && r.Name == "nil"
}

func hasReturn(b *ast.BlockStmt) bool {
	found := false
	ast.Inspect(b, func(n ast.Node) bool {
		if _, ok := n.(*ast.FuncLit); ok {
			return false
		}
		if _, ok := n.(*ast.ReturnStmt); ok {
			found = true
		}
		return !found
	})
	return found
}

func callsMethod(n ast.Node, suffix string) bool {
	found := false
	ast.Inspect(n, func(x ast.Node) bool {
		if ce, ok := x.(*ast.CallExpr); ok && strings.HasSuffix(exprText(ce.Fun), suffix) {
			found = true
		}
		return !found
	})
	return found
}

func callsWork(n ast.Node, isWork func(*ast.CallExpr) bool) bool {
	found := false
	ast.Inspect(n, func(x ast.Node) bool {
		if _, ok := x.(*ast.FuncLit); ok {
			return false
		}
		if ce, ok := x.(*ast.CallExpr); ok && isWork(ce) {
			found = true
		}
		return !found
	})
	return found
}

// classify one top-level statement of a callback
func c19Token(st ast.Stmt, isWork func(*ast.CallExpr) bool) string {
	switch x := st.(type) {
	case *ast.IfStmt:
		switch {
		case x.Init != nil && callsMethod(x.Init, ".Load") && hasReturn(x.Body):
			return "load-return"
		case x.Init != nil && callsMethod(x.Init, "os.Stat") && isErrCond(x.Cond, token.EQL) && hasReturn(x.Body):
			return "stat-return"
		case isErrCond(x.Cond, token.NEQ) && hasReturn(x.Body) && x.Else == nil:
			if callsMethod(x.Body, ".Store") || callsMethod(x.Body, ".store") {
				return "if-err-store-return"
			}
			return "if-err-return"
		}
		return "other:if " + exprText(x.Cond)
	case *ast.AssignStmt:
		if callsWork(x, isWork) {
			return "call-fn"
		}
		return "" // a plain assignment (request clone, method, …) is not part of the shape
	case *ast.ExprStmt:
		if callsMethod(x, ".Store") || callsMethod(x, ".store") {
			return "store"
		}
		return ""
	case *ast.ReturnStmt:
		if callsWork(x, isWork) {
			return "call-fn"
		}
		return "return"
	case *ast.DeferStmt, *ast.DeclStmt:
		return ""
	}
	return "other:" + strings.SplitN(exprText(st), "\n", 2)[0]
}

// c19DoShape: "fast:load-return" when the function returns from a map lookup before reaching
// the group, then "cb:<token>" for the callback of the first call whose callee ends in doSuffix.
func c19DoShape(fd *ast.FuncDecl, what, doSuffix string, isWork func(*ast.CallExpr) bool) []string {
	if fd == nil || fd.Body == nil {
		return nil
	}
	var out []string
	var cb *ast.FuncLit
	// the statements before the one that contains the group call: a lookup followed by a return
	sawLookup := false
	for _, st := range fd.Body.List {
		holds := false
		ast.Inspect(st, func(n ast.Node) bool {
			if ce, ok := n.(*ast.CallExpr); ok && cb == nil && strings.HasSuffix(exprText(ce.Fun), doSuffix) {
				for _, a := range ce.Args {
					if fl, ok := a.(*ast.FuncLit); ok {
						cb = fl
					}
				}
				holds = true
			}
			return cb == nil
		})
		if holds {
			break
		}
		if as, ok := st.(*ast.AssignStmt); ok && (callsMethod(as, ".Load") || callsMethod(as, ".load")) {
			sawLookup = true
		}
		if is, ok := st.(*ast.IfStmt); ok && hasReturn(is.Body) {
			// `x, ok := m.Load(k); if ok { return … }` or `if x, ok := m.Load(k); ok { return … }`
			inInit := is.Init != nil && (callsMethod(is.Init, ".Load") || callsMethod(is.Init, ".load"))
			if sawLookup || inInit {
				out = append(out, "fast:load-return")
				sawLookup = false
			}
		}
	}
	if cb == nil {
		fail("C19: %s no longer hands a function literal to a call ending in %s", what, doSuffix)
		return nil
	}
	for _, st := range cb.Body.List {
		if t := c19Token(st, isWork); t != "" {
			out = append(out, "cb:"+t)
		}
	}
	return out
}

// c19NilGuard: the first statement is `if … == nil … { return … }`
func c19NilGuard(fd *ast.FuncDecl) string {
	if fd == nil || fd.Body == nil || len(fd.Body.List) == 0 {
		return "?"
	}
	if is, ok := fd.Body.List[0].(*ast.IfStmt); ok && strings.Contains(exprText(is.Cond), "etagCache == nil") && hasReturn(is.Body) {
		return "nil-etag-cache-returns"
	}
	return "no-guard"
}

// c19OnceShape: apkCache.get.
//
//	once:LoadOrStore            a sync.Once per key, created with LoadOrStore
//	once.Do:call-fn             the once's function calls the work (expandPackage)
//	once.Do:store-unconditional … and stores the result whatever it is   |  once.Do:store-after-err-return
//	after:load                  the result is read back from the result map
//	after:if-err-forget-once    a failed entry's once is deleted afterwards (Delete / CompareAndDelete on the
//	                            map the once came from, under `if <…>.err != nil` / `if err != nil`)
func c19OnceShape(fd *ast.FuncDecl) []string {
	if fd == nil || fd.Body == nil {
		return nil
	}
	var out []string
	onceMap := ""
	var cb *ast.FuncLit
	seenDo := false
	for _, st := range fd.Body.List {
		if as, ok := st.(*ast.AssignStmt); ok && len(as.Rhs) == 1 {
			if ce, ok := as.Rhs[0].(*ast.CallExpr); ok && strings.HasSuffix(exprText(ce.Fun), ".LoadOrStore") && strings.Contains(exprText(ce), "sync.Once") {
				onceMap = strings.TrimSuffix(exprText(ce.Fun), ".LoadOrStore")
				out = append(out, "once:LoadOrStore")
				continue
			}
		}
		if !seenDo {
			ast.Inspect(st, func(n ast.Node) bool {
				if ce, ok := n.(*ast.CallExpr); ok && cb == nil && strings.HasSuffix(exprText(ce.Fun), ".Do") {
					for _, a := range ce.Args {
						if fl, ok := a.(*ast.FuncLit); ok {
							cb = fl
						}
					}
				}
				return cb == nil
			})
			if cb != nil {
				seenDo = true
				guarded := false
				for _, s2 := range cb.Body.List {
					switch t := c19Token(s2, func(ce *ast.CallExpr) bool { return exprText(ce.Fun) == "expandPackage" }); t {
					case "call-fn":
						out = append(out, "once.Do:call-fn")
					case "if-err-return":
						guarded = true
					case "store":
						if guarded {
							out = append(out, "once.Do:store-after-err-return")
						} else {
							out = append(out, "once.Do:store-unconditional")
						}
					case "", "return":
					default:
						out = append(out, "once.Do:"+t)
					}
				}
				continue
			}
		}
		if seenDo {
			if as, ok := st.(*ast.AssignStmt); ok && callsMethod(as, ".Load") {
				out = append(out, "after:load")
			}
			if is, ok := st.(*ast.IfStmt); ok && isErrNotNilExpr(is.Cond) && onceMap != "" &&
				(callsMethod(is.Body, onceMap+".Delete") || callsMethod(is.Body, onceMap+".CompareAndDelete")) {
				out = append(out, "after:if-err-forget-once")
			}
		}
	}
	if onceMap == "" || cb == nil {
		fail("C19: apkCache.get no longer uses a sync.Once per key (LoadOrStore + Do)")
		return nil
	}
	return out
}

// `<anything>.err != nil` or `err != nil`
func isErrNotNilExpr(e ast.Expr) bool {
	be, ok := e.(*ast.BinaryExpr)
	if !ok || be.Op != token.NEQ {
		return false
	}
	r, rok := be.Y.(*ast.Ident)
	if !rok || r.Name != "nil" {
		return false
	}
	switch x := be.X.(type) {
	case *ast.Ident:
		return true
	case *ast.SelectorExpr:
		return strings.Contains(strings.ToLower(x.Sel.Name), "err")
	}
	return false
}

// c19OfflineFilter: inside a range loop of fetchOffline, `if strings.HasSuffix(<…>.Name(), "S") { continue }`
// (or filepath.Ext(<…>.Name()) == "S") gives "skip-suffix:S". The loop over os.ReadDir's result must exist.
func c19OfflineFilter(fd *ast.FuncDecl) []string {
	if fd == nil || fd.Body == nil {
		return nil
	}
	out := []string{}
	loops := 0
	ast.Inspect(fd.Body, func(n ast.Node) bool {
		rs, ok := n.(*ast.RangeStmt)
		if !ok {
			return true
		}
		loops++
		for _, st := range rs.Body.List {
			is, ok := st.(*ast.IfStmt)
			if !ok || len(is.Body.List) != 1 {
				continue
			}
			if bs, ok := is.Body.List[0].(*ast.BranchStmt); !ok || bs.Tok != token.CONTINUE {
				continue
			}
			switch c := is.Cond.(type) {
			case *ast.CallExpr:
				if exprText(c.Fun) == "strings.HasSuffix" && len(c.Args) == 2 && strings.HasSuffix(exprText(c.Args[0]), ".Name()") {
					if lit, ok := strLit(c.Args[1]); ok {
						out = append(out, "skip-suffix:"+lit)
						continue
					}
				}
				out = append(out, "skip:"+exprText(c))
			case *ast.BinaryExpr:
				if ce, ok := c.X.(*ast.CallExpr); ok && c.Op == token.EQL && exprText(ce.Fun) == "filepath.Ext" && len(ce.Args) == 1 && strings.HasSuffix(exprText(ce.Args[0]), ".Name()") {
					if lit, ok := strLit(c.Y); ok {
						out = append(out, "skip-suffix:"+lit)
						continue
					}
				}
				out = append(out, "skip:"+exprText(c))
			default:
				out = append(out, "skip:"+exprText(is.Cond))
			}
		}
		return true
	})
	if loops == 0 {
		fail("C19: fetchOffline no longer loops over the directory entries")
	}
	return out
}

// c19EtagNameUse: in cacheFileFromEtag(cacheFile, etag): the (only) filepath.Join whose last argument is a
// concatenation X + <ext variable>; X must be the second parameter; any assignment to that parameter, or any
// other expression in X's place, is reported instead of "whole".
func c19EtagNameUse(fd *ast.FuncDecl) (use, exts []string) {
	if fd == nil || fd.Body == nil || fd.Type.Params == nil {
		return nil, nil
	}
	var params []string
	for _, p := range fd.Type.Params.List {
		for _, n := range p.Names {
			params = append(params, n.Name)
		}
	}
	if len(params) != 2 {
		fail("C19: cacheFileFromEtag no longer has two parameters")
		return nil, nil
	}
	etag := params[1]
	extVar := ""
	found := false
	ast.Inspect(fd.Body, func(n ast.Node) bool {
		switch x := n.(type) {
		case *ast.AssignStmt:
			for i, l := range x.Lhs {
				if id, ok := l.(*ast.Ident); ok && id.Name == etag {
					use = append(use, "reassigned:"+exprText(x))
				}
				if i < len(x.Rhs) {
					if lit, ok := strLit(x.Rhs[i]); ok && strings.HasPrefix(lit, ".") {
						if id, ok := l.(*ast.Ident); ok && (extVar == "" || extVar == id.Name) {
							extVar = id.Name
							exts = append(exts, lit)
						}
					}
				}
			}
		case *ast.CallExpr:
			if exprText(x.Fun) == "filepath.Join" && len(x.Args) >= 2 {
				if be, ok := x.Args[len(x.Args)-1].(*ast.BinaryExpr); ok && be.Op == token.ADD {
					if r, ok := be.Y.(*ast.Ident); ok && r.Name == extVar {
						found = true
						if l, ok := be.X.(*ast.Ident); !ok || l.Name != etag {
							use = append(use, "name-from:"+exprText(be.X))
						}
					}
				}
			}
		}
		return true
	})
	if !found {
		fail("C19: cacheFileFromEtag: no filepath.Join(<dir>, <etag part> + <ext>) found")
		return nil, nil
	}
	if len(use) == 0 {
		use = []string{"whole"}
	}
	return use, exts
}
