package main

import (
	"fmt"
	"go/ast"
	"go/token"
)

// genC20 writes Generated/TransportShape.v: the yes/no facts about the TEXT of the
// range-retry reader, of its two callers and of the cache transport's download
// that decide what the C20 models do (Model/TransportReq.v, Model/TransportCache.v):
//
//	range_header_appended               reset writes the Range header with Header.Add (true) or Header.Set (false)
//	request_copy_shares_header          the per-attempt request is r.req.WithContext(..) (shallow: same Header map) / r.req.Clone(..) (own map)
//	body_installed_before_status_check  `r.body = resp.Body` stands before the statement that tests resp.StatusCode
//	failed_reset_closes_response        Read: the branch taken when reset reports an error closes <resp>.Body
//	failed_reset_ends_read              ... and ends in a return
//	retry_budget                        number of leading `true` entries of the retry schedule
//	callers_accept_only_200             FetchPackage and fetchRepositoryIndex both return an error when StatusCode != http.StatusOK
//	readall_error_returned              fetchRepositoryIndex returns the error of io.ReadAll whenever there is one (the condition is exactly `err != nil`)
//	copy_error_fails_download           retrieveAndSaveFile: an error of io.Copy is what the copying step returns, and the download ends there
//	failed_copy_removes_temp            ... after os.Remove of the temporary file
//	copy_precedes_advertise             the copying step stands before paths.AdvertiseCachedFile
//	copy_goes_into_temporary_file       io.Copy's destination is the os.CreateTemp file, and AdvertiseCachedFile links <that file>.Name() under another name
//
// A shape that is not recognised is a broken tie (fail), never a guess.
func genC20() {
	g := newGen("TransportShape", "From Apko Require Import Base.Prelude.")
	const rel = "pkg/apk/apk/transport.go"
	b := func(v bool) string {
		if v {
			return "true"
		}
		return "false"
	}

	// ---- reset -------------------------------------------------------------------
	if fd := findFunc(rel, "rangeRetryReader", "reset"); fd != nil && fd.Body != nil {
		recv := ""
		if fd.Recv != nil && len(fd.Recv.List) > 0 && len(fd.Recv.List[0].Names) > 0 {
			recv = fd.Recv.List[0].Names[0].Name
		}
		// the Range header
		var hdrCalls []*ast.CallExpr
		var copies []string
		var copyNode ast.Node
		ast.Inspect(fd.Body, func(n ast.Node) bool {
			ce, ok := n.(*ast.CallExpr)
			if !ok {
				return true
			}
			sel, ok := ce.Fun.(*ast.SelectorExpr)
			if !ok {
				return true
			}
			if inner, ok := sel.X.(*ast.SelectorExpr); ok && inner.Sel.Name == "Header" && len(ce.Args) >= 1 {
				if s, ok := strLit(ce.Args[0]); ok && s == "Range" {
					hdrCalls = append(hdrCalls, ce)
				}
			}
			if inner, ok := sel.X.(*ast.SelectorExpr); ok && inner.Sel.Name == "req" {
				if id, ok := inner.X.(*ast.Ident); ok && id.Name == recv && (sel.Sel.Name == "WithContext" || sel.Sel.Name == "Clone") {
					copies = append(copies, sel.Sel.Name)
					copyNode = ce
				}
			}
			return true
		})
		if len(hdrCalls) != 1 {
			fail("%s: reset: expected exactly one <req>.Header.<Set|Add>(\"Range\", ..) call, found %d", rel, len(hdrCalls))
		} else {
			switch m := hdrCalls[0].Fun.(*ast.SelectorExpr).Sel.Name; m {
			case "Set", "Add":
				g.def("range_header_appended", "bool", b(m == "Add"), fmt.Sprintf("reset writes the Range header with Header.%s at %s", m, g.pos(hdrCalls[0])))
			default:
				fail("%s: reset: the Range header is written with Header.%s, neither Set nor Add", rel, m)
			}
		}
		if len(copies) != 1 {
			fail("%s: reset: expected exactly one %s.req.WithContext(..) or %s.req.Clone(..), found %d", rel, recv, recv, len(copies))
		} else {
			g.def("request_copy_shares_header", "bool", b(copies[0] == "WithContext"),
				fmt.Sprintf("the request of an attempt is %s.req.%s(..) at %s", recv, copies[0], g.pos(copyNode)))
		}
		// where r.body is assigned, relative to the statement that tests the status code
		statusIdx, installIdx := -1, -1
		for i, st := range fd.Body.List {
			if as, ok := st.(*ast.AssignStmt); ok && len(as.Lhs) == 1 && len(as.Rhs) == 1 {
				l, lok := as.Lhs[0].(*ast.SelectorExpr)
				r, rok := as.Rhs[0].(*ast.SelectorExpr)
				if lok && rok && l.Sel.Name == "body" && r.Sel.Name == "Body" {
					if id, ok := l.X.(*ast.Ident); ok && id.Name == recv && installIdx < 0 {
						installIdx = i
					}
				}
				continue
			}
			if statusIdx >= 0 {
				continue
			}
			ast.Inspect(st, func(n ast.Node) bool {
				if se, ok := n.(*ast.SelectorExpr); ok && se.Sel.Name == "StatusCode" {
					statusIdx = i
				}
				return statusIdx < 0
			})
		}
		if statusIdx < 0 || installIdx < 0 {
			fail("%s: reset: the statement testing resp.StatusCode (%d) or the assignment %s.body = resp.Body (%d) is not a top-level statement", rel, statusIdx, recv, installIdx)
		} else {
			g.def("body_installed_before_status_check", "bool", b(installIdx < statusIdx),
				fmt.Sprintf("reset: %s.body = resp.Body is statement %d, the status code is tested in statement %d (%s)", recv, installIdx, statusIdx, g.pos(fd.Body.List[installIdx])))
		}
	}

	// ---- Read ----------------------------------------------------------------------
	if fd := findFunc(rel, "rangeRetryReader", "Read"); fd != nil && fd.Body != nil {
		var loop *ast.RangeStmt
		budget := -1
		ast.Inspect(fd.Body, func(n ast.Node) bool {
			rs, ok := n.(*ast.RangeStmt)
			if !ok || loop != nil {
				return true
			}
			cl, ok := rs.X.(*ast.CompositeLit)
			if !ok {
				return true
			}
			loop = rs
			budget = 0
			for _, e := range cl.Elts {
				if id, ok := e.(*ast.Ident); ok && id.Name == "true" {
					budget++
				} else {
					break
				}
			}
			return false
		})
		if loop == nil {
			fail("%s: Read: no loop over a retry schedule literal", rel)
		} else {
			g.def("retry_budget", "nat", fmt.Sprintf("%d", budget), "leading true entries of the retry schedule at "+g.pos(loop))
			// resp, rerr := r.reset(err)  —  as a statement of its own or as the Init of the if that tests rerr
			respVar, errVar := "", ""
			var test *ast.IfStmt
			isReset := func(s ast.Stmt) bool {
				as, ok := s.(*ast.AssignStmt)
				if !ok || len(as.Rhs) != 1 || len(as.Lhs) != 2 {
					return false
				}
				ce, ok := as.Rhs[0].(*ast.CallExpr)
				if !ok {
					return false
				}
				sel, ok := ce.Fun.(*ast.SelectorExpr)
				if !ok || sel.Sel.Name != "reset" {
					return false
				}
				if id, ok := as.Lhs[0].(*ast.Ident); ok {
					respVar = id.Name
				}
				if id, ok := as.Lhs[1].(*ast.Ident); ok {
					errVar = id.Name
				}
				return true
			}
			for i, st := range loop.Body.List {
				if is, ok := st.(*ast.IfStmt); ok && is.Init != nil && isReset(is.Init) {
					test = is
					break
				}
				if isReset(st) && i+1 < len(loop.Body.List) {
					if is, ok := loop.Body.List[i+1].(*ast.IfStmt); ok {
						test = is
					}
					break
				}
			}
			okCond := false
			if test != nil {
				if be, ok := test.Cond.(*ast.BinaryExpr); ok && be.Op == token.NEQ {
					x, xok := be.X.(*ast.Ident)
					y, yok := be.Y.(*ast.Ident)
					okCond = xok && yok && x.Name == errVar && y.Name == "nil" && errVar != "" && errVar != "_"
				}
			}
			if !okCond {
				fail("%s: Read: no `<resp>, <err> := r.reset(..)` followed by `if <err> != nil {..}` in the retry loop", rel)
			} else {
				closes, returns := false, false
				ast.Inspect(test.Body, func(n ast.Node) bool {
					if ce, ok := n.(*ast.CallExpr); ok {
						if sel, ok := ce.Fun.(*ast.SelectorExpr); ok && sel.Sel.Name == "Close" {
							if inner, ok := sel.X.(*ast.SelectorExpr); ok && inner.Sel.Name == "Body" {
								if id, ok := inner.X.(*ast.Ident); ok && id.Name == respVar && respVar != "_" {
									closes = true
								}
							}
						}
					}
					return true
				})
				if n := len(test.Body.List); n > 0 {
					_, returns = test.Body.List[n-1].(*ast.ReturnStmt)
				}
				g.def("failed_reset_closes_response", "bool", b(closes), fmt.Sprintf("Read: the branch `if %s != nil` closes %s.Body, %s", errVar, respVar, g.pos(test)))
				g.def("failed_reset_ends_read", "bool", b(returns), fmt.Sprintf("Read: the branch `if %s != nil` ends in a return, %s", errVar, g.pos(test)))
			}
		}
	}

	// ---- the two callers --------------------------------------------------------------
	only200 := true
	where := ""
	for _, c := range []struct{ rel, recv, name string }{
		{"pkg/apk/apk/implementation.go", "APK", "FetchPackage"},
		{"pkg/apk/apk/index.go", "", "fetchRepositoryIndex"},
	} {
		fd := findFunc(c.rel, c.recv, c.name)
		if fd == nil || fd.Body == nil {
			only200 = false
			continue
		}
		found := false
		sawRoundTrip := false
		ast.Inspect(fd.Body, func(n ast.Node) bool {
			if ce, ok := n.(*ast.CallExpr); ok {
				if sel, ok := ce.Fun.(*ast.SelectorExpr); ok && sel.Sel.Name == "RoundTrip" {
					sawRoundTrip = true
				}
			}
			is, ok := n.(*ast.IfStmt)
			if !ok || !sawRoundTrip || found {
				return true
			}
			be, ok := is.Cond.(*ast.BinaryExpr)
			if !ok || be.Op != token.NEQ {
				return true
			}
			x, xok := be.X.(*ast.SelectorExpr)
			y, yok := be.Y.(*ast.SelectorExpr)
			if !xok || !yok || x.Sel.Name != "StatusCode" || y.Sel.Name != "StatusOK" {
				return true
			}
			if k := len(is.Body.List); k > 0 {
				if rs, ok := is.Body.List[k-1].(*ast.ReturnStmt); ok && len(rs.Results) > 0 {
					if id, ok := rs.Results[len(rs.Results)-1].(*ast.Ident); !ok || id.Name != "nil" {
						found = true
						where += c.name + " " + g.pos(is) + "; "
					}
				}
			}
			return true
		})
		if !found {
			only200 = false
			fail("%s: %s: no `if <res>.StatusCode != http.StatusOK { ..; return .., <error> }` after the RoundTrip call", c.rel, c.name)
		}
	}
	g.def("callers_accept_only_200", "bool", b(only200), "both callers refuse every status but 200: "+where)

	// fetchRepositoryIndex: b, err := io.ReadAll(res.Body); if err != nil { return nil, <error> } — the read error is
	// returned whenever there is one (true); any other condition in front of that return (false)
	if fd := findFunc("pkg/apk/apk/index.go", "", "fetchRepositoryIndex"); fd != nil && fd.Body != nil {
		found := false
		var visit func(list []ast.Stmt)
		visit = func(list []ast.Stmt) {
			for i, st := range list {
				if blk, ok := st.(*ast.BlockStmt); ok {
					visit(blk.List)
				}
				as, ok := st.(*ast.AssignStmt)
				if !ok || len(as.Rhs) != 1 || len(as.Lhs) != 2 || found {
					continue
				}
				ce, ok := as.Rhs[0].(*ast.CallExpr)
				if !ok {
					continue
				}
				sel, ok := ce.Fun.(*ast.SelectorExpr)
				if !ok || sel.Sel.Name != "ReadAll" {
					continue
				}
				errVar := ""
				if id, ok := as.Lhs[1].(*ast.Ident); ok {
					errVar = id.Name
				}
				if i+1 >= len(list) || errVar == "" || errVar == "_" {
					continue
				}
				is, ok := list[i+1].(*ast.IfStmt)
				if !ok {
					continue
				}
				found = true
				plain := false
				if be, ok := is.Cond.(*ast.BinaryExpr); ok && be.Op == token.NEQ {
					x, xok := be.X.(*ast.Ident)
					y, yok := be.Y.(*ast.Ident)
					plain = xok && yok && x.Name == errVar && y.Name == "nil"
				}
				returns := false
				if k := len(is.Body.List); k > 0 {
					if rs, ok := is.Body.List[k-1].(*ast.ReturnStmt); ok && len(rs.Results) > 0 {
						id, isIdent := rs.Results[len(rs.Results)-1].(*ast.Ident)
						returns = !isIdent || id.Name != "nil"
					}
				}
				g.def("readall_error_returned", "bool", b(plain && returns),
					fmt.Sprintf("fetchRepositoryIndex: the statement after io.ReadAll is `if %s { ..; return .., <error> }`, %s", exprText(is.Cond), g.pos(is)))
			}
		}
		visit(fd.Body.List)
		if !found {
			fail("pkg/apk/apk/index.go: fetchRepositoryIndex: no `<b>, <err> := io.ReadAll(..)` followed by an if statement")
		}
	}

	// ---- the cache transport's download ---------------------------------------------------
	const crel = "pkg/apk/apk/cache.go"
	if fd := findFunc(crel, "cacheTransport", "retrieveAndSaveFile"); fd != nil && fd.Body != nil {
		isCopyIf := func(s ast.Stmt) (*ast.IfStmt, bool) {
			is, ok := s.(*ast.IfStmt)
			if !ok || is.Init == nil {
				return nil, false
			}
			as, ok := is.Init.(*ast.AssignStmt)
			if !ok || len(as.Rhs) != 1 {
				return nil, false
			}
			ce, ok := as.Rhs[0].(*ast.CallExpr)
			if !ok {
				return nil, false
			}
			sel, ok := ce.Fun.(*ast.SelectorExpr)
			if !ok || sel.Sel.Name != "Copy" {
				return nil, false
			}
			if id, ok := sel.X.(*ast.Ident); !ok || id.Name != "io" {
				return nil, false
			}
			return is, true
		}
		returnsError := func(is *ast.IfStmt) bool {
			be, ok := is.Cond.(*ast.BinaryExpr)
			if !ok || be.Op != token.NEQ {
				return false
			}
			if y, ok := be.Y.(*ast.Ident); !ok || y.Name != "nil" {
				return false
			}
			k := len(is.Body.List)
			if k == 0 {
				return false
			}
			rs, ok := is.Body.List[k-1].(*ast.ReturnStmt)
			if !ok || len(rs.Results) == 0 {
				return false
			}
			id, isIdent := rs.Results[len(rs.Results)-1].(*ast.Ident)
			return !isIdent || id.Name != "nil"
		}
		decides, removes := false, false
		var step ast.Stmt
		var advertise ast.Node
		for _, st := range fd.Body.List {
			// form 1: if err := func() error { ..; if _, err := io.Copy(..); err != nil { return <error> }; return nil }(); err != nil { ..; return "", err }
			if is, ok := st.(*ast.IfStmt); ok && is.Init != nil && step == nil {
				if as, ok := is.Init.(*ast.AssignStmt); ok && len(as.Rhs) == 1 {
					if ce, ok := as.Rhs[0].(*ast.CallExpr); ok {
						if fl, ok := ce.Fun.(*ast.FuncLit); ok {
							var inner *ast.IfStmt
							for k, s2 := range fl.Body.List {
								if ci, ok := isCopyIf(s2); ok {
									inner = ci
								}
								// n, err := io.Copy(..) as a statement of its own, tested by the next one
								if as2, ok := s2.(*ast.AssignStmt); ok && len(as2.Rhs) == 1 && k+1 < len(fl.Body.List) {
									if ce2, ok := as2.Rhs[0].(*ast.CallExpr); ok {
										if sel2, ok := ce2.Fun.(*ast.SelectorExpr); ok && sel2.Sel.Name == "Copy" {
											if id2, ok := sel2.X.(*ast.Ident); ok && id2.Name == "io" {
												if nx, ok := fl.Body.List[k+1].(*ast.IfStmt); ok && nx.Init == nil {
													inner = nx
												}
											}
										}
									}
								}
							}
							if inner != nil {
								step = st
								unnamed := fl.Type.Results != nil && len(fl.Type.Results.List) == 1 && len(fl.Type.Results.List[0].Names) == 0
								decides = unnamed && returnsError(inner) && returnsError(is)
							}
						}
					}
				}
				// form 2: if _, err := io.Copy(..); err != nil { ..; return "", <error> } directly in the function
				if ci, ok := isCopyIf(st); ok && step == nil {
					step = st
					decides = returnsError(ci)
				}
				if step == st {
					ast.Inspect(is.Body, func(n ast.Node) bool {
						if ce, ok := n.(*ast.CallExpr); ok {
							if sel, ok := ce.Fun.(*ast.SelectorExpr); ok && sel.Sel.Name == "Remove" {
								if id, ok := sel.X.(*ast.Ident); ok && id.Name == "os" {
									removes = true
								}
							}
						}
						return true
					})
				}
			}
			ast.Inspect(st, func(n ast.Node) bool {
				if ce, ok := n.(*ast.CallExpr); ok && advertise == nil {
					if sel, ok := ce.Fun.(*ast.SelectorExpr); ok && sel.Sel.Name == "AdvertiseCachedFile" {
						advertise = ce
					}
				}
				return true
			})
		}
		// where the copy goes: <t>, err := os.CreateTemp(..); io.Copy(<t>, ..); AdvertiseCachedFile(<t>.Name(), <other>) —
		// the bytes go into a file that carries a temporary name until it is advertised under another one
		tempVar := ""
		ast.Inspect(fd.Body, func(n ast.Node) bool {
			if as, ok := n.(*ast.AssignStmt); ok && len(as.Rhs) == 1 && len(as.Lhs) >= 1 && tempVar == "" {
				if ce, ok := as.Rhs[0].(*ast.CallExpr); ok {
					if sel, ok := ce.Fun.(*ast.SelectorExpr); ok && sel.Sel.Name == "CreateTemp" {
						if id, ok := as.Lhs[0].(*ast.Ident); ok {
							tempVar = id.Name
						}
					}
				}
			}
			return true
		})
		copyIntoTemp, advertiseTemp := false, false
		ast.Inspect(fd.Body, func(n ast.Node) bool {
			ce, ok := n.(*ast.CallExpr)
			if !ok {
				return true
			}
			sel, ok := ce.Fun.(*ast.SelectorExpr)
			if !ok {
				return true
			}
			if id, ok := sel.X.(*ast.Ident); ok && id.Name == "io" && sel.Sel.Name == "Copy" && len(ce.Args) == 2 {
				if dst, ok := ce.Args[0].(*ast.Ident); ok && tempVar != "" && dst.Name == tempVar {
					copyIntoTemp = true
				}
			}
			if sel.Sel.Name == "AdvertiseCachedFile" && len(ce.Args) == 2 {
				if c0, ok := ce.Args[0].(*ast.CallExpr); ok && len(c0.Args) == 0 {
					if s0, ok := c0.Fun.(*ast.SelectorExpr); ok && s0.Sel.Name == "Name" {
						if id, ok := s0.X.(*ast.Ident); ok && tempVar != "" && id.Name == tempVar {
							advertiseTemp = exprText(ce.Args[1]) != exprText(ce.Args[0])
						}
					}
				}
			}
			return true
		})
		g.def("copy_goes_into_temporary_file", "bool", b(copyIntoTemp && advertiseTemp),
			fmt.Sprintf("retrieveAndSaveFile: io.Copy writes into the os.CreateTemp file (%v) and that file's name is what AdvertiseCachedFile links under the final name (%v)", copyIntoTemp, advertiseTemp))
		if step == nil || advertise == nil {
			fail("%s: retrieveAndSaveFile: the step that copies the response into the temporary file (io.Copy) or the call of paths.AdvertiseCachedFile was not found", crel)
		} else {
			g.def("copy_error_fails_download", "bool", b(decides), "retrieveAndSaveFile: an error of io.Copy is returned by the copying step and ends the download, "+g.pos(step))
			g.def("failed_copy_removes_temp", "bool", b(removes), "retrieveAndSaveFile: the failing branch removes the temporary file, "+g.pos(step))
			g.def("copy_precedes_advertise", "bool", b(step.Pos() < advertise.Pos()), "retrieveAndSaveFile: the copying step stands before AdvertiseCachedFile at "+g.pos(advertise))
		}
	}
	g.write()
}
