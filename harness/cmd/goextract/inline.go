package main

// Helper inlining for findFunc.  A very common harmless edit moves a block of a
// function into a new unexported helper ("extract function").  The generators
// recognise statement shapes inside ONE function, so such an edit used to hide
// the statements they look for.  findFunc therefore returns the function with
// every call to a same-package unexported helper that has exactly ONE call site
// in the package expanded in place: the call statement becomes a block that
// binds the parameters and holds the helper's body, `return e` rewritten to an
// assignment to the call's left-hand sides.  The result is printed and parsed
// again, so positions are consistent.  It is NOT a semantics-preserving inliner
// (control flow after an inner return is not reproduced); it only has to keep the
// statements findable, in the order in which they run on the straight-line path.
// Helpers that are called from several places are shared code, not an extracted
// block, and stay as they are.  Only helpers that are NEW with respect to the
// recorded base tree (funchash.base.json, -base) are expanded: on the unchanged
// tree nothing is inlined and every generator sees exactly the source text.

import (
	"bytes"
	"crypto/sha256"
	"encoding/hex"
	"encoding/json"
	"go/ast"
	"go/parser"
	"go/printer"
	"go/token"
	"os"
	"path/filepath"
	"strings"
)

type pkgInfo struct {
	funcs map[string]*ast.FuncDecl // unexported plain functions and methods by name (methods only when the name is unique)
	calls map[string]int           // call sites per name in the whole package
}

var pkgCache = map[string]*pkgInfo{}

// function keys (file:Recv.name) of the recorded base tree; nil = unknown (nothing is inlined)
var baseFuncs map[string]bool

func loadBaseFuncs(path string) {
	b, err := os.ReadFile(path)
	if err != nil {
		return
	}
	m := map[string]string{}
	if json.Unmarshal(b, &m) != nil {
		return
	}
	baseFuncs = map[string]bool{}
	baseHash = m
	for k := range m {
		baseFuncs[k] = true
	}
	// the local names of every function of the base tree (funclocals.base.json beside the hashes): a local that is new relative to
	// them and merely names a pure expression is substituted away in a changed function (aliases.go)
	if lb, err := os.ReadFile(filepath.Join(filepath.Dir(path), "funclocals.base.json")); err == nil {
		l := map[string][]string{}
		if json.Unmarshal(lb, &l) == nil {
			baseLocals = l
		}
	}
}

func packageInfo(rel string) *pkgInfo {
	dir := filepath.Dir(rel)
	if p, ok := pkgCache[dir]; ok {
		return p
	}
	p := &pkgInfo{funcs: map[string]*ast.FuncDecl{}, calls: map[string]int{}}
	pkgCache[dir] = p
	ents, err := os.ReadDir(filepath.Join(*repo, dir))
	if err != nil {
		return p
	}
	dup := map[string]bool{}
	var fs []*ast.File
	for _, e := range ents {
		n := e.Name()
		if e.IsDir() || !strings.HasSuffix(n, ".go") || strings.HasSuffix(n, "_test.go") || strings.HasSuffix(n, "_verif.go") {
			continue
		}
		f := load(filepath.Join(dir, n))
		if f == nil {
			continue
		}
		fs = append(fs, f)
		for _, d := range f.Decls {
			fd, ok := d.(*ast.FuncDecl)
			if !ok || fd.Body == nil || ast.IsExported(fd.Name.Name) || fd.Name.Name == "init" || fd.Name.Name == "_" {
				continue
			}
			key := filepath.Join(dir, n) + ":"
			if fd.Recv != nil && len(fd.Recv.List) > 0 {
				key += recvName(fd.Recv.List[0].Type) + "."
			}
			if baseFuncs == nil || baseFuncs[key+fd.Name.Name] {
				continue // no base recorded, or the function was already there: not an extracted block
			}
			if _, seen := p.funcs[fd.Name.Name]; seen {
				dup[fd.Name.Name] = true
			}
			p.funcs[fd.Name.Name] = fd
		}
	}
	for n := range dup {
		delete(p.funcs, n)
	}
	for _, f := range fs {
		ast.Inspect(f, func(n ast.Node) bool {
			switch x := n.(type) {
			case *ast.Ident:
				// any mention that is not the declaration itself counts (calls, method values, function values)
				if fd, ok := p.funcs[x.Name]; ok && fd.Name != x {
					p.calls[x.Name]++
				}
			}
			return true
		})
	}
	return p
}

func printNode(n ast.Node) string {
	var b bytes.Buffer
	_ = printer.Fprint(&b, token.NewFileSet(), n)
	return b.String()
}

// callOf: the helper call a statement consists of, with the left-hand sides it assigns to
func callOf(s ast.Stmt) (call *ast.CallExpr, lhs []ast.Expr, form int) {
	switch x := s.(type) {
	case *ast.AssignStmt:
		if len(x.Rhs) == 1 {
			if c, ok := x.Rhs[0].(*ast.CallExpr); ok {
				return c, x.Lhs, 1
			}
		}
	case *ast.ExprStmt:
		if c, ok := x.X.(*ast.CallExpr); ok {
			return c, nil, 2
		}
	case *ast.ReturnStmt:
		if len(x.Results) == 1 {
			if c, ok := x.Results[0].(*ast.CallExpr); ok {
				return c, nil, 3
			}
		}
	case *ast.IfStmt:
		// `if h(args) {…}` / `if !h(args) {…}`: the helper decides the branch
		if x.Init == nil {
			c := x.Cond
			if u, ok := c.(*ast.UnaryExpr); ok && u.Op == token.NOT {
				c = u.X
			}
			if ce, ok := c.(*ast.CallExpr); ok {
				return ce, []ast.Expr{ast.NewIdent("inlinedResult")}, 4
			}
		}
	case *ast.DeclStmt:
		if gd, ok := x.Decl.(*ast.GenDecl); ok && gd.Tok == token.VAR && len(gd.Specs) == 1 {
			if vs, ok := gd.Specs[0].(*ast.ValueSpec); ok && len(vs.Values) == 1 {
				if c, ok := vs.Values[0].(*ast.CallExpr); ok {
					var l []ast.Expr
					for _, n := range vs.Names {
						l = append(l, n)
					}
					return c, l, 1
				}
			}
		}
	}
	return nil, nil, 0
}

func calleeName(c *ast.CallExpr) (name string, recv ast.Expr) {
	switch f := c.Fun.(type) {
	case *ast.Ident:
		return f.Name, nil
	case *ast.SelectorExpr:
		return f.Sel.Name, f.X
	}
	return "", nil
}

// expansion of one call statement as source text; "" = not expandable
func expandCall(p *pkgInfo, self string, s ast.Stmt) string {
	call, lhs, form := callOf(s)
	if call == nil {
		return ""
	}
	name, recvArg := calleeName(call)
	h, ok := p.funcs[name]
	if !ok || name == self || p.calls[name] != 1 || h.Body == nil || call.Ellipsis != token.NoPos {
		return ""
	}
	if (h.Recv != nil) != (recvArg != nil) {
		return ""
	}
	var params []string
	for _, f := range h.Type.Params.List {
		if _, variadic := f.Type.(*ast.Ellipsis); variadic {
			return ""
		}
		if len(f.Names) == 0 {
			params = append(params, "_")
		}
		for _, n := range f.Names {
			params = append(params, n.Name)
		}
	}
	if len(params) != len(call.Args) {
		return ""
	}
	var b strings.Builder
	b.WriteString("{\n")
	subst := map[string]string{} // parameter -> argument text, for arguments that are plain references
	bind := func(pn string, a ast.Expr) {
		at := printNode(a)
		if pn == "_" || pn == at {
			return
		}
		if simpleRef(a) && !assignedIn(h.Body, pn) {
			subst[pn] = at
			return
		}
		b.WriteString(pn + " := " + at + "\n")
	}
	if h.Recv != nil && len(h.Recv.List) == 1 && len(h.Recv.List[0].Names) == 1 {
		bind(h.Recv.List[0].Names[0].Name, recvArg)
	}
	for i, pn := range params {
		bind(pn, call.Args[i])
	}
	// the helper's body, re-parsed so that the cached tree is not modified
	src := "package p\nfunc _() " + printNode(h.Body)
	hf, err := parser.ParseFile(token.NewFileSet(), "", src, 0)
	if err != nil {
		return ""
	}
	body := hf.Decls[0].(*ast.FuncDecl).Body
	if len(subst) > 0 {
		// a parameter bound to a plain reference is replaced by that reference (the generators look for `switch actuals[6]`, not for
		// `switch s` under `s := actuals[6]`); field names of selectors and keys of composite literals are left alone
		skip := map[*ast.Ident]bool{}
		ast.Inspect(body, func(n ast.Node) bool {
			switch x := n.(type) {
			case *ast.SelectorExpr:
				skip[x.Sel] = true
			case *ast.KeyValueExpr:
				if id, ok := x.Key.(*ast.Ident); ok {
					skip[id] = true
				}
			}
			return true
		})
		ast.Inspect(body, func(n ast.Node) bool {
			if id, ok := n.(*ast.Ident); ok && !skip[id] {
				if t, ok := subst[id.Name]; ok {
					id.Name = t
				}
			}
			return true
		})
	}
	var lhsText []string
	for _, l := range lhs {
		lhsText = append(lhsText, printNode(l))
	}
	var rewrite func(list []ast.Stmt) []ast.Stmt
	var rewriteStmt func(s ast.Stmt) ast.Stmt
	rewriteStmt = func(s ast.Stmt) ast.Stmt {
		switch x := s.(type) {
		case *ast.ReturnStmt:
			if form == 3 {
				return x
			}
			if (form == 1 || form == 4) && len(x.Results) == len(lhs) && len(lhs) > 0 {
				var l []ast.Expr
				for _, t := range lhsText {
					l = append(l, ast.NewIdent(t))
				}
				return &ast.AssignStmt{Lhs: l, Tok: token.ASSIGN, Rhs: x.Results}
			}
			if len(x.Results) > 0 {
				// values are dropped by the call statement; keep the expressions visible
				var l []ast.Expr
				for range x.Results {
					l = append(l, ast.NewIdent("_"))
				}
				return &ast.AssignStmt{Lhs: l, Tok: token.ASSIGN, Rhs: x.Results}
			}
			return &ast.EmptyStmt{}
		case *ast.BlockStmt:
			x.List = rewrite(x.List)
		case *ast.IfStmt:
			x.Body.List = rewrite(x.Body.List)
			if x.Else != nil {
				x.Else = rewriteStmt(x.Else)
			}
		case *ast.ForStmt:
			x.Body.List = rewrite(x.Body.List)
		case *ast.RangeStmt:
			x.Body.List = rewrite(x.Body.List)
		case *ast.SwitchStmt:
			x.Body.List = rewrite(x.Body.List)
		case *ast.TypeSwitchStmt:
			x.Body.List = rewrite(x.Body.List)
		case *ast.SelectStmt:
			x.Body.List = rewrite(x.Body.List)
		case *ast.CaseClause:
			x.Body = rewrite(x.Body)
		case *ast.CommClause:
			x.Body = rewrite(x.Body)
		case *ast.LabeledStmt:
			x.Stmt = rewriteStmt(x.Stmt)
		}
		return s
	}
	rewrite = func(list []ast.Stmt) []ast.Stmt {
		for i := range list {
			list[i] = rewriteStmt(list[i])
		}
		return list
	}
	body.List = rewrite(body.List)
	for _, st := range body.List {
		b.WriteString(printNode(st))
		b.WriteString("\n")
	}
	if form == 4 {
		// the if statement itself, its condition now reading the helper's result
		is := s.(*ast.IfStmt)
		cond := "inlinedResult"
		if _, neg := is.Cond.(*ast.UnaryExpr); neg {
			cond = "!inlinedResult"
		}
		b.WriteString("if " + cond + " " + printNode(is.Body))
		if is.Else != nil {
			b.WriteString(" else " + printNode(is.Else))
		}
		b.WriteString("\n")
	}
	b.WriteString("}")
	return b.String()
}

// inlineHelpers: fd with single-use helpers expanded (up to three rounds); fd itself when nothing applies
func inlineHelpers(rel string, fd *ast.FuncDecl) *ast.FuncDecl {
	if fd == nil || fd.Body == nil || os.Getenv("GOEXTRACT_NOINLINE") != "" {
		return fd
	}
	p := packageInfo(rel)
	cur := fd
	for round := 0; round < 3; round++ {
		type repl struct {
			from, to token.Pos
			text     string
		}
		var rs []repl
		var visit func(list []ast.Stmt)
		visitStmt := func(s ast.Stmt) {}
		visit = func(list []ast.Stmt) {
			for _, s := range list {
				if t := expandCall(p, fd.Name.Name, s); t != "" {
					rs = append(rs, repl{s.Pos(), s.End(), t})
					continue
				}
				visitStmt(s)
			}
		}
		visitStmt = func(s ast.Stmt) {
			switch x := s.(type) {
			case *ast.BlockStmt:
				visit(x.List)
			case *ast.IfStmt:
				visit(x.Body.List)
				if x.Else != nil {
					visitStmt(x.Else)
				}
			case *ast.ForStmt:
				visit(x.Body.List)
			case *ast.RangeStmt:
				visit(x.Body.List)
			case *ast.SwitchStmt:
				visit(x.Body.List)
			case *ast.TypeSwitchStmt:
				visit(x.Body.List)
			case *ast.SelectStmt:
				visit(x.Body.List)
			case *ast.CaseClause:
				visit(x.Body)
			case *ast.CommClause:
				visit(x.Body)
			case *ast.LabeledStmt:
				visitStmt(x.Stmt)
			case *ast.GoStmt:
				if fl, ok := x.Call.Fun.(*ast.FuncLit); ok {
					visit(fl.Body.List)
				}
			case *ast.DeferStmt:
				if fl, ok := x.Call.Fun.(*ast.FuncLit); ok {
					visit(fl.Body.List)
				}
			}
		}
		visit(cur.Body.List)
		if len(rs) == 0 {
			break
		}
		// splice the expansions into the function's own source text (positions of cur refer to srcOf(cur))
		src, base := sourceOf(cur)
		if src == "" {
			break
		}
		var out strings.Builder
		last := 0
		okSplice := true
		for _, r := range rs {
			a, z := int(r.from-base), int(r.to-base)
			if a < last || z > len(src) || a > z {
				okSplice = false
				break
			}
			out.WriteString(src[last:a])
			out.WriteString(r.text)
			last = z
		}
		if !okSplice {
			break
		}
		out.WriteString(src[last:])
		text := "package p\n" + out.String()
		nf, err := parser.ParseFile(fset, rel+"(inlined)", text, 0)
		if err != nil || len(nf.Decls) != 1 {
			break
		}
		nfd, ok := nf.Decls[0].(*ast.FuncDecl)
		if !ok {
			break
		}
		inlinedSrc[fset.File(nfd.Pos())] = []byte(text)
		cur = nfd
	}
	return cur
}

// sourceOf: the text of the declaration and the position of its first byte, so that node positions index into it
func sourceOf(fd *ast.FuncDecl) (string, token.Pos) {
	tf := fset.File(fd.Pos())
	if tf == nil {
		return "", 0
	}
	data, ok := inlinedSrc[tf]
	if !ok {
		b, err := os.ReadFile(tf.Name())
		if err != nil {
			return "", 0
		}
		data = b
	}
	a, z := tf.Offset(fd.Pos()), tf.Offset(fd.End())
	if a < 0 || z > len(data) || a > z {
		return "", 0
	}
	return string(data[a:z]), fd.Pos()
}

var inlinedSrc = map[*token.File][]byte{}

// simpleRef: an argument that can stand wherever the parameter stood: identifier, selector chain, index by a literal or identifier, literal
func simpleRef(e ast.Expr) bool {
	switch x := e.(type) {
	case *ast.Ident, *ast.BasicLit:
		return true
	case *ast.SelectorExpr:
		return simpleRef(x.X)
	case *ast.IndexExpr:
		return simpleRef(x.X) && simpleRef(x.Index)
	case *ast.ParenExpr:
		return simpleRef(x.X)
	}
	return false
}

// assignedIn: is the name assigned, incremented or its address taken somewhere in the body?
func assignedIn(body *ast.BlockStmt, name string) bool {
	found := false
	ast.Inspect(body, func(n ast.Node) bool {
		switch x := n.(type) {
		case *ast.AssignStmt:
			for _, l := range x.Lhs {
				if id, ok := l.(*ast.Ident); ok && id.Name == name {
					found = true
				}
			}
		case *ast.IncDecStmt:
			if id, ok := x.X.(*ast.Ident); ok && id.Name == name {
				found = true
			}
		case *ast.UnaryExpr:
			if id, ok := x.X.(*ast.Ident); ok && x.Op == token.AND && id.Name == name {
				found = true
			}
		case *ast.RangeStmt:
			for _, e := range []ast.Expr{x.Key, x.Value} {
				if id, ok := e.(*ast.Ident); ok && id.Name == name {
					found = true
				}
			}
		}
		return true
	})
	return found
}

// ---- if-chains as switches ---------------------------------------------------------------------
// `if X == a {..} else if X == b {..} else {..}` is how a `switch X` is sometimes rewritten (and the other way round).  The generators
// read switches; in a function whose text differs from the recorded base, a chain whose first two or more conditions compare ONE
// expression with constants is presented as the switch it stands for (the rest of the chain becomes the default clause).

func eqTest(e ast.Expr) (tag, val ast.Expr, ok bool) {
	if p, isP := e.(*ast.ParenExpr); isP {
		return eqTest(p.X)
	}
	b, isB := e.(*ast.BinaryExpr)
	if !isB || b.Op != token.EQL {
		return nil, nil, false
	}
	return b.X, b.Y, true
}

func chainToSwitch(s *ast.IfStmt) ast.Stmt {
	var tagText string
	var tag ast.Expr
	var clauses []ast.Stmt
	cur := s
	var rest ast.Stmt
	for {
		if cur.Init != nil {
			rest = cur
			break
		}
		x, y, ok := eqTest(cur.Cond)
		if !ok {
			rest = cur
			break
		}
		xt, yt := printNode(x), printNode(y)
		var val ast.Expr
		switch {
		case tag == nil:
			// the tag is decided by the second condition; remember both readings of the first
			tag, tagText, val = x, xt, y
		case xt == tagText:
			val = y
		case yt == tagText:
			val = x
		default:
			val = nil
		}
		if val == nil {
			rest = cur
			break
		}
		clauses = append(clauses, &ast.CaseClause{List: []ast.Expr{val}, Body: cur.Body.List})
		if cur.Else == nil {
			break
		}
		if next, ok := cur.Else.(*ast.IfStmt); ok {
			cur = next
			continue
		}
		rest = cur.Else
		break
	}
	if len(clauses) < 2 {
		return s
	}
	if rest != nil {
		var body []ast.Stmt
		if blk, ok := rest.(*ast.BlockStmt); ok {
			body = blk.List
		} else {
			body = []ast.Stmt{rest}
		}
		clauses = append(clauses, &ast.CaseClause{Body: body})
	}
	return &ast.SwitchStmt{Tag: tag, Body: &ast.BlockStmt{List: clauses}}
}

func rewriteChains(list []ast.Stmt) {
	for i, st := range list {
		if is, ok := st.(*ast.IfStmt); ok {
			list[i] = chainToSwitch(is)
		}
		ast.Inspect(list[i], func(n ast.Node) bool {
			switch x := n.(type) {
			case *ast.BlockStmt:
				if n != list[i] {
					rewriteChains(x.List)
					return false
				}
			case *ast.CaseClause:
				rewriteChains(x.Body)
				return false
			case *ast.CommClause:
				rewriteChains(x.Body)
				return false
			}
			return true
		})
		if blk, ok := list[i].(*ast.BlockStmt); ok {
			rewriteChains(blk.List)
		}
	}
}

// funcChanged: does the declaration's text differ from the one recorded for the base tree (unknown base: false)?
func funcChanged(rel string, fd *ast.FuncDecl) bool {
	if baseHash == nil {
		return false
	}
	key := rel + ":"
	if fd.Recv != nil && len(fd.Recv.List) > 0 {
		key += recvName(fd.Recv.List[0].Type) + "."
	}
	// the recorded hashes are of the declaration as funcHashes prints it: parsed WITHOUT comments
	nf, ok := noCommentFiles[rel]
	if !ok {
		nf, _ = parser.ParseFile(token.NewFileSet(), filepath.Join(*repo, rel), nil, 0)
		noCommentFiles[rel] = nf
	}
	if nf == nil {
		return false
	}
	for _, d := range nf.Decls {
		x, ok := d.(*ast.FuncDecl)
		if !ok || x.Name.Name != fd.Name.Name {
			continue
		}
		r := ""
		if x.Recv != nil && len(x.Recv.List) > 0 {
			r = recvName(x.Recv.List[0].Type) + "."
		}
		if rel+":"+r != key {
			continue
		}
		var buf bytes.Buffer
		_ = printer.Fprint(&buf, token.NewFileSet(), x)
		h := sha256.Sum256(buf.Bytes())
		return baseHash[key+fd.Name.Name] != hex.EncodeToString(h[:8])
	}
	return false
}

var baseHash map[string]string
var noCommentFiles = map[string]*ast.File{}

// normaliseChanged: for a function that differs from the base, if-chains presented as switches
func normaliseChanged(rel string, orig, fd *ast.FuncDecl) *ast.FuncDecl {
	if fd == nil || fd.Body == nil || os.Getenv("GOEXTRACT_NOINLINE") != "" || !funcChanged(rel, orig) {
		return fd
	}
	src := "package p\n" + printNode(fd)
	f, err := parser.ParseFile(token.NewFileSet(), "", src, 0)
	if err != nil || len(f.Decls) != 1 {
		return fd
	}
	c := f.Decls[0].(*ast.FuncDecl)
	before := printNode(c)
	if nc := substituteNewAliases(funcKey(rel, orig), c); nc != nil {
		c = nc
	}
	splitMinBounds(c)
	expandSlicesEqualPrefix(c)
	expandSlicesCompare(c)
	splitSingleExit(c)
	defaultAsTrailer(c)
	restoreCaseOrder(funcKey(rel, orig), c)
	rewriteChains(c.Body.List)
	earlyContinue(c.Body)
	after := printNode(c)
	if after == before {
		return fd
	}
	text := "package p\n" + after
	nf, err := parser.ParseFile(fset, rel+"(normalised)", text, 0)
	if err != nil || len(nf.Decls) != 1 {
		return fd
	}
	nfd := nf.Decls[0].(*ast.FuncDecl)
	inlinedSrc[fset.File(nfd.Pos())] = []byte(text)
	return nfd
}

// earlyContinue: `for … { …; if c { A } else { B } }` is presented as `for … { …; if c { A; continue }; B }` (the form the
// sources use throughout and the generators were written against)
func earlyContinue(root ast.Node) {
	ast.Inspect(root, func(n ast.Node) bool {
		var body *ast.BlockStmt
		switch x := n.(type) {
		case *ast.ForStmt:
			body = x.Body
		case *ast.RangeStmt:
			body = x.Body
		}
		if body == nil || len(body.List) == 0 {
			return true
		}
		last, ok := body.List[len(body.List)-1].(*ast.IfStmt)
		if !ok || last.Else == nil {
			return true
		}
		els, ok := last.Else.(*ast.BlockStmt)
		if !ok {
			return true
		}
		last.Body.List = append(last.Body.List, &ast.BranchStmt{Tok: token.CONTINUE})
		last.Else = nil
		body.List = append(body.List, els.List...)
		return true
	})
}
