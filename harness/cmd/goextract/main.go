// goextract regenerates coq/Generated/*.v from the current Go sources of the
// repository: regular expressions (through Go's own regexp/syntax parser),
// constants, enum orders, literal tables and format strings. It translates no
// control flow. A symbol it cannot find is an error (a broken tie).
package main

import (
	"bytes"
	"crypto/sha256"
	"encoding/hex"
	"encoding/json"
	"flag"
	"fmt"
	"go/ast"
	"go/parser"
	"go/printer"
	"go/token"
	"os"
	"path/filepath"
	"regexp/syntax"
	"sort"
	"strconv"
	"strings"
)

var (
	repo        = flag.String("repo", "/repo", "repository root")
	outDir      = flag.String("out", "", "output directory (coq/Generated)")
	fallbackDir = flag.String("fallback", "", "directory with the last committed good copies of the generated files")
	baseFile    = flag.String("base", "", "funchash.base.json of the clean tree (functions not listed there and called from one place are inlined into their caller)")
	fset        = token.NewFileSet()
	files       = map[string]*ast.File{}
	errs        []string
)

func fail(format string, a ...any) { errs = append(errs, fmt.Sprintf(format, a...)) }

func load(rel string) *ast.File {
	if f, ok := files[rel]; ok {
		return f
	}
	f, err := parser.ParseFile(fset, filepath.Join(*repo, rel), nil, parser.ParseComments)
	if err != nil {
		fail("parse %s: %v", rel, err)
		files[rel] = nil
		return nil
	}
	files[rel] = f
	return f
}

// ---- lookup helpers ------------------------------------------------------

// findValue returns the expression bound to a package-level or function-local
// var/const `name` in file rel (first declaration or := assignment).
func findValue(rel, name string) ast.Expr {
	f := load(rel)
	if f == nil {
		return nil
	}
	var found ast.Expr
	ast.Inspect(f, func(n ast.Node) bool {
		if found != nil {
			return false
		}
		switch x := n.(type) {
		case *ast.ValueSpec:
			for i, id := range x.Names {
				if id.Name == name && i < len(x.Values) {
					found = x.Values[i]
				}
			}
		case *ast.AssignStmt:
			for i, l := range x.Lhs {
				if id, ok := l.(*ast.Ident); ok && id.Name == name && i < len(x.Rhs) && x.Tok == token.DEFINE {
					found = x.Rhs[i]
				}
			}
		}
		return true
	})
	if found == nil {
		fail("%s: no value for %q", rel, name)
	}
	return found
}

func findFunc(rel, recv, name string) *ast.FuncDecl {
	f := load(rel)
	if f == nil {
		return nil
	}
	for _, d := range f.Decls {
		fd, ok := d.(*ast.FuncDecl)
		if !ok || fd.Name.Name != name {
			continue
		}
		r := ""
		if fd.Recv != nil && len(fd.Recv.List) > 0 {
			r = recvName(fd.Recv.List[0].Type)
		}
		if r == recv {
			return normaliseChanged(rel, fd, inlineHelpers(rel, fd))
		}
	}
	fail("%s: no func %s.%s", rel, recv, name)
	return nil
}

func recvName(e ast.Expr) string {
	switch x := e.(type) {
	case *ast.StarExpr:
		return recvName(x.X)
	case *ast.Ident:
		return x.Name
	case *ast.IndexExpr:
		return recvName(x.X)
	}
	return ""
}

func strLit(e ast.Expr) (string, bool) {
	switch x := e.(type) {
	case *ast.BasicLit:
		if x.Kind == token.STRING {
			s, err := strconv.Unquote(x.Value)
			return s, err == nil
		}
	case *ast.BinaryExpr:
		if x.Op == token.ADD {
			a, ok1 := strLit(x.X)
			b, ok2 := strLit(x.Y)
			return a + b, ok1 && ok2
		}
	case *ast.ParenExpr:
		return strLit(x.X)
	}
	return "", false
}

func intLit(e ast.Expr) (int64, bool) {
	switch x := e.(type) {
	case *ast.BasicLit:
		if x.Kind == token.INT {
			v, err := strconv.ParseInt(x.Value, 0, 64)
			return v, err == nil
		}
		if x.Kind == token.CHAR {
			s, err := strconv.Unquote(x.Value)
			if err == nil && len(s) > 0 {
				return int64([]rune(s)[0]), true
			}
		}
	case *ast.ParenExpr:
		return intLit(x.X)
	case *ast.UnaryExpr:
		if x.Op == token.SUB {
			v, ok := intLit(x.X)
			return -v, ok
		}
	case *ast.BinaryExpr:
		a, ok1 := intLit(x.X)
		b, ok2 := intLit(x.Y)
		if ok1 && ok2 {
			switch x.Op {
			case token.ADD:
				return a + b, true
			case token.SUB:
				return a - b, true
			case token.MUL:
				return a * b, true
			case token.SHL:
				return a << uint(b), true
			case token.OR:
				return a | b, true
			}
		}
	case *ast.CallExpr: // conversions like int64(5)
		if len(x.Args) == 1 {
			return intLit(x.Args[0])
		}
	}
	return 0, false
}

// regexLiteral finds `name = regexp.MustCompile(<lit>)`.
func regexLiteral(rel, name string) (string, bool) {
	e := findValue(rel, name)
	if e == nil {
		return "", false
	}
	c, ok := e.(*ast.CallExpr)
	if !ok || len(c.Args) != 1 {
		fail("%s: %s is not regexp.MustCompile(lit)", rel, name)
		return "", false
	}
	s, ok := strLit(c.Args[0])
	if !ok {
		fail("%s: %s pattern is not a literal", rel, name)
	}
	return s, ok
}

// ---- Gallina printing ----------------------------------------------------

func coqStr(s string) string {
	for i := 0; i < len(s); i++ {
		if s[i] < 0x20 || s[i] > 0x7e {
			var b []string
			for j := 0; j < len(s); j++ {
				b = append(b, strconv.Itoa(int(s[j])))
			}
			return "(sb [" + strings.Join(b, ";") + "]%N)"
		}
	}
	return `"` + strings.ReplaceAll(s, `"`, `""`) + `"%string`
}

// Regex AST into Base.Regex.re. Bytes, not runes: every class must be inside
// ASCII or be the complement of an ASCII set sitting directly under a
// repetition (see DESIGN 6.1); otherwise refuse.
func reTerm(r *syntax.Regexp, underRep bool, where string) string {
	sub := func(i int, rep bool) string { return reTerm(r.Sub[i], rep, where) }
	switch r.Op {
	case syntax.OpEmptyMatch:
		return "Eps"
	case syntax.OpNoMatch:
		return "Emp"
	case syntax.OpLiteral:
		if r.Flags&syntax.FoldCase != 0 {
			fail("%s: case-folded literal not supported", where)
		}
		var parts []string
		for _, c := range r.Rune {
			if c > 127 {
				fail("%s: non-ASCII literal", where)
			}
			parts = append(parts, fmt.Sprintf("%d", c))
		}
		return "(Lit [" + strings.Join(parts, ";") + "]%N)"
	case syntax.OpCharClass:
		var rs []string
		for i := 0; i+1 < len(r.Rune); i += 2 {
			lo, hi := r.Rune[i], r.Rune[i+1]
			if lo > 127 {
				fail("%s: class range starts above ASCII", where)
			}
			if hi > 127 {
				if hi != 0x10FFFF || !underRep {
					fail("%s: non-ASCII class not directly under a repetition", where)
				}
				hi = 255
			}
			rs = append(rs, fmt.Sprintf("(%d,%d)", lo, hi))
		}
		return "(Cls [" + strings.Join(rs, ";") + "]%N)"
	case syntax.OpAnyCharNotNL:
		if !underRep {
			fail("%s: '.' not under a repetition", where)
		}
		return "(Cls [(0,9);(11,255)]%N)"
	case syntax.OpAnyChar:
		return "(Cls [(0,255)]%N)"
	case syntax.OpBeginText, syntax.OpBeginLine:
		return "Bot"
	case syntax.OpEndText:
		return "Eot"
	case syntax.OpCapture:
		return fmt.Sprintf("(Grp %d %s)", r.Cap, sub(0, false))
	case syntax.OpStar:
		return "(Star " + sub(0, true) + ")"
	case syntax.OpPlus:
		return "(Plus " + sub(0, true) + ")"
	case syntax.OpQuest:
		return "(Opt " + sub(0, false) + ")"
	case syntax.OpConcat:
		t := "Eps"
		for i := len(r.Sub) - 1; i >= 0; i-- {
			if t == "Eps" {
				t = sub(i, false)
			} else {
				t = "(Cat " + sub(i, false) + " " + t + ")"
			}
		}
		return t
	case syntax.OpAlternate:
		t := ""
		for i := len(r.Sub) - 1; i >= 0; i-- {
			if t == "" {
				t = sub(i, false)
			} else {
				t = "(Alt " + sub(i, false) + " " + t + ")"
			}
		}
		return t
	}
	fail("%s: unsupported regex op %v", where, r.Op)
	return "Emp"
}

type gen struct {
	name    string
	buf     bytes.Buffer
	errsAt0 int
}

func newGen(name, header string) *gen {
	g := &gen{name: name, errsAt0: len(errs)}
	fmt.Fprintf(&g.buf, "(* GENERATED by goextract from %s — do not edit. *)\n%s\n", "the repository's Go sources", header)
	return g
}
func (g *gen) pos(n ast.Node) string {
	if n == nil {
		return "?"
	}
	p := fset.Position(n.Pos())
	rel, _ := filepath.Rel(*repo, p.Filename)
	return fmt.Sprintf("%s:%d", rel, p.Line)
}
func (g *gen) def(name, typ, term, comment string) {
	// keep comment text from opening/closing Coq comments or strings
	c := strings.NewReplacer("(*", "( *", "*)", "* )", "\"", "'").Replace(comment)
	fmt.Fprintf(&g.buf, "(* %s *)\nDefinition %s : %s := %s.\n", c, name, typ, term)
}

// write stores the generated file. If this generator reported an error (a
// symbol or idiom it needs is gone: a broken tie, reported by exit status 1),
// the last good file is kept — or restored from the committed fallback copy —
// so that the model still runs and the search for a failing input can proceed.
func (g *gen) write() {
	p := filepath.Join(*outDir, g.name+".v")
	if len(errs) > g.errsAt0 {
		if _, err := os.Stat(p); err != nil && *fallbackDir != "" {
			if b, err := os.ReadFile(filepath.Join(*fallbackDir, g.name+".v")); err == nil {
				_ = os.WriteFile(p, b, 0o644)
			}
		}
		return
	}
	old, _ := os.ReadFile(p)
	if !bytes.Equal(old, g.buf.Bytes()) {
		if err := os.WriteFile(p, g.buf.Bytes(), 0o644); err != nil {
			fail("write %s: %v", p, err)
		}
	}
}

func (g *gen) regex(coqName, rel, goName string) {
	s, ok := regexLiteral(rel, goName)
	if !ok {
		return
	}
	re, err := syntax.Parse(s, syntax.Perl)
	if err != nil {
		fail("%s: %s does not parse: %v", rel, goName, err)
		return
	}
	g.def(coqName, "re", reTerm(re, false, rel+":"+goName), fmt.Sprintf("%s %s = %q", rel, goName, s))
	g.def(coqName+"_src", "string", coqStr(s), "pattern text")
}

// iotaBlock returns name->value for a const block using iota (simple forms).
func iotaBlock(rel, first string) map[string]int64 {
	f := load(rel)
	res := map[string]int64{}
	if f == nil {
		return res
	}
	for _, d := range f.Decls {
		gd, ok := d.(*ast.GenDecl)
		if !ok || gd.Tok != token.CONST {
			continue
		}
		has := false
		for _, s := range gd.Specs {
			for _, id := range s.(*ast.ValueSpec).Names {
				if id.Name == first {
					has = true
				}
			}
		}
		if !has {
			continue
		}
		var lastExpr ast.Expr
		for i, s := range gd.Specs {
			vs := s.(*ast.ValueSpec)
			if len(vs.Values) > 0 {
				lastExpr = vs.Values[0]
			}
			v, ok := evalIota(lastExpr, int64(i))
			if !ok {
				fail("%s: cannot evaluate const %s", rel, vs.Names[0].Name)
			}
			for _, id := range vs.Names {
				res[id.Name] = v
			}
		}
		return res
	}
	fail("%s: no const block with %s", rel, first)
	return res
}

func evalIota(e ast.Expr, iota int64) (int64, bool) {
	switch x := e.(type) {
	case *ast.Ident:
		if x.Name == "iota" {
			return iota, true
		}
	case *ast.BinaryExpr:
		a, ok1 := evalIota(x.X, iota)
		b, ok2 := evalIota(x.Y, iota)
		if ok1 && ok2 {
			switch x.Op {
			case token.ADD:
				return a + b, true
			case token.SUB:
				return a - b, true
			case token.MUL:
				return a * b, true
			case token.SHL:
				return a << uint(b), true
			}
		}
	case *ast.ParenExpr:
		return evalIota(x.X, iota)
	case *ast.CallExpr:
		if len(x.Args) == 1 {
			return evalIota(x.Args[0], iota)
		}
	}
	return intLit(e)
}

// ---- function body hashes (change-directed amplification) ---------------

func funcHashes() map[string]string {
	res := map[string]string{}
	root := *repo
	_ = filepath.Walk(root, func(p string, info os.FileInfo, err error) error {
		if err != nil {
			return nil
		}
		if info.IsDir() {
			b := info.Name()
			if b == ".git" || b == "testdata" || b == "vendor" || b == "node_modules" {
				return filepath.SkipDir
			}
			return nil
		}
		if !strings.HasSuffix(p, ".go") || strings.HasSuffix(p, "_test.go") || strings.HasSuffix(p, "_verif.go") {
			return nil
		}
		rel, _ := filepath.Rel(root, p)
		f, err := parser.ParseFile(fset, p, nil, 0)
		if err != nil {
			return nil
		}
		for _, d := range f.Decls {
			var buf bytes.Buffer
			key := ""
			switch x := d.(type) {
			case *ast.FuncDecl:
				r := ""
				if x.Recv != nil && len(x.Recv.List) > 0 {
					r = recvName(x.Recv.List[0].Type) + "."
				}
				key = rel + ":" + r + x.Name.Name
				_ = printer.Fprint(&buf, token.NewFileSet(), x)
				funcLocalsOut[key] = localNames(x)
				if co := caseOrders(x); len(co) > 0 {
					funcLocalsOut[key+"#cases"] = co
				}
			case *ast.GenDecl:
				if x.Tok == token.IMPORT {
					continue
				}
				_ = printer.Fprint(&buf, token.NewFileSet(), x)
				h := sha256.Sum256(buf.Bytes())
				key = rel + ":decl:" + hex.EncodeToString(h[:4])
			}
			h := sha256.Sum256(buf.Bytes())
			res[key] = hex.EncodeToString(h[:8])
		}
		return nil
	})
	return res
}

func main() {
	flag.Parse()
	if *outDir == "" {
		fmt.Fprintln(os.Stderr, "need -out")
		os.Exit(2)
	}
	_ = os.MkdirAll(*outDir, 0o755)
	if *baseFile != "" {
		loadBaseFuncs(*baseFile)
	}

	genTransport()
	genRegexes()
	genVersionConsts()
	genExtra()

	hp := filepath.Join(filepath.Dir(filepath.Dir(*outDir)), "build", "funchash.json")
	_ = os.MkdirAll(filepath.Dir(hp), 0o755)
	b, _ := json.Marshal(funcHashes())
	_ = os.WriteFile(hp, b, 0o644)
	lb, _ := json.Marshal(funcLocalsOut)
	_ = os.WriteFile(filepath.Join(filepath.Dir(hp), "funclocals.json"), lb, 0o644)

	if len(errs) > 0 {
		sort.Strings(errs)
		for _, e := range errs {
			fmt.Fprintln(os.Stderr, "goextract:", e)
		}
		os.Exit(1)
	}
}

// ---- generated files -----------------------------------------------------

func genTransport() {
	g := newGen("Transport", "From Apko Require Import Base.Prelude.")
	const rel = "pkg/apk/apk/transport.go"
	fd := findFunc(rel, "rangeRetryReader", "Read")
	var sched []string
	var node ast.Node
	if fd != nil {
		ast.Inspect(fd, func(n ast.Node) bool {
			rs, ok := n.(*ast.RangeStmt)
			if !ok || sched != nil {
				return true
			}
			cl, ok := rs.X.(*ast.CompositeLit)
			if !ok {
				return true
			}
			node = rs
			for _, e := range cl.Elts {
				id, ok := e.(*ast.Ident)
				if !ok || (id.Name != "true" && id.Name != "false") {
					fail("%s: retry schedule element is not a bool literal", rel)
					return false
				}
				sched = append(sched, id.Name)
			}
			return false
		})
	}
	if sched == nil {
		fail("%s: retry schedule literal not found in rangeRetryReader.Read", rel)
	}
	g.def("retry_schedule", "list bool", "["+strings.Join(sched, "; ")+"]", "retry schedule of rangeRetryReader.Read at "+g.pos(node))
	g.write()
}
