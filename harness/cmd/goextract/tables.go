package main

import (
	"bytes"
	"fmt"
	"go/ast"
	"go/printer"
	"go/token"
	"sort"
	"strings"
)

func exprText(e ast.Node) string {
	var b bytes.Buffer
	_ = printer.Fprint(&b, token.NewFileSet(), e)
	return b.String()
}

// switchAssignTable: in fd, the switch whose tag prints as tag; every case with
// string literals and a body `x = Ident` gives (literal, Ident). A default
// clause is reported as ("<default>", "<default>").
func switchAssignTable(fd *ast.FuncDecl, tag string) (res [][2]string, node ast.Node) {
	if fd == nil {
		return nil, nil
	}
	ast.Inspect(fd, func(n ast.Node) bool {
		sw, ok := n.(*ast.SwitchStmt)
		if !ok || sw.Tag == nil || res != nil || (exprText(sw.Tag) != tag && canonRef(fd, sw.Tag) != tag) {
			return true
		}
		node = sw
		for _, c := range sw.Body.List {
			cc := c.(*ast.CaseClause)
			rhs := "<other>"
			if len(cc.Body) == 1 {
				if as, ok := cc.Body[0].(*ast.AssignStmt); ok && len(as.Rhs) >= 1 && len(as.Rhs) == len(as.Lhs) {
					rhs = exprText(as.Rhs[0]) // `x = V`, or `x, ok = V, true` (a helper's `return V, true` after inlining)
				} else if rs, ok := cc.Body[0].(*ast.ReturnStmt); ok && len(rs.Results) >= 1 {
					rhs = exprText(rs.Results[0])
				}
			}
			if cc.List == nil {
				res = append(res, [2]string{"<default>", rhs})
				continue
			}
			for _, e := range cc.List {
				if s, ok := strLit(e); ok {
					res = append(res, [2]string{s, rhs})
				} else {
					res = append(res, [2]string{"<expr>" + exprText(e), rhs})
				}
			}
		}
		return false
	})
	return res, node
}

// canonRef: an expression with the local names that are defined once by `x := <plain reference>` replaced by what they stand for
// (matcher := parts[0][3]  and  operator := groups[3] under groups := parts[0]  both read parts[0][3])
func canonRef(fd *ast.FuncDecl, e ast.Expr) string {
	defs := map[string]ast.Expr{}
	count := map[string]int{}
	ast.Inspect(fd, func(n ast.Node) bool {
		if as, ok := n.(*ast.AssignStmt); ok && len(as.Lhs) == len(as.Rhs) {
			for i, l := range as.Lhs {
				if id, ok := l.(*ast.Ident); ok {
					count[id.Name]++
					if as.Tok.String() == ":=" && simpleRef(as.Rhs[i]) {
						defs[id.Name] = as.Rhs[i]
					}
				}
			}
		}
		return true
	})
	var canon func(e ast.Expr, depth int) string
	canon = func(e ast.Expr, depth int) string {
		switch x := e.(type) {
		case *ast.Ident:
			if d, ok := defs[x.Name]; ok && count[x.Name] == 1 && depth < 6 {
				return canon(d, depth+1)
			}
			return x.Name
		case *ast.SelectorExpr:
			return canon(x.X, depth) + "." + x.Sel.Name
		case *ast.IndexExpr:
			return canon(x.X, depth) + "[" + canon(x.Index, depth) + "]"
		case *ast.ParenExpr:
			return canon(x.X, depth)
		}
		return exprText(e)
	}
	return canon(e, 0)
}

// concatAsFormat: a + "/" + b read as the Sprintf format "%s/%s" with operands [a b] (string operands only: the caller knows the types)
func concatAsFormat(e ast.Expr) (format string, args []string, ok bool) {
	var parts []ast.Expr
	var flat func(e ast.Expr) bool
	flat = func(e ast.Expr) bool {
		switch x := e.(type) {
		case *ast.ParenExpr:
			return flat(x.X)
		case *ast.BinaryExpr:
			if x.Op.String() != "+" {
				return false
			}
			return flat(x.X) && flat(x.Y)
		}
		parts = append(parts, e)
		return true
	}
	if !flat(e) || len(parts) < 2 {
		return "", nil, false
	}
	var b strings.Builder
	for _, p := range parts {
		if s, isLit := strLit(p); isLit {
			b.WriteString(strings.ReplaceAll(s, "%", "%%"))
			continue
		}
		b.WriteString("%s")
		args = append(args, exprText(p))
	}
	return b.String(), args, true
}

func genRegexes() {
	g := newGen("Regexes", "From Apko Require Import Base.Prelude Base.Regex.")
	g.regex("version_regex", "pkg/apk/apk/version.go", "versionRegex")
	g.regex("package_name_regex", "pkg/apk/apk/version.go", "packageNameRegex")
	g.regex("signature_file_regex", "pkg/apk/apk/index.go", "signatureFileRegex")
	g.regex("valid_id_chars_re", "pkg/sbom/generator/spdx/spdx.go", "validIDCharsRe")
	// Longest() calls in init()
	f := load("pkg/apk/apk/version.go")
	longest := map[string]bool{}
	if f != nil {
		ast.Inspect(f, func(n ast.Node) bool {
			c, ok := n.(*ast.CallExpr)
			if !ok {
				return true
			}
			if se, ok := c.Fun.(*ast.SelectorExpr); ok && se.Sel.Name == "Longest" {
				if id, ok := se.X.(*ast.Ident); ok {
					longest[id.Name] = true
				}
			}
			return true
		})
	}
	g.def("version_regex_longest", "bool", fmt.Sprint(longest["versionRegex"]), "versionRegex.Longest() called in init")
	g.def("package_name_regex_longest", "bool", fmt.Sprint(longest["packageNameRegex"]), "packageNameRegex.Longest() called in init")
	g.write()
}

func genVersionConsts() {
	const rel = "pkg/apk/apk/version.go"
	g := newGen("VersionConsts", "From Apko Require Import Base.Prelude.\nOpen Scope Z_scope.")
	pre := iotaBlock(rel, "packageVersionPreModifierNone")
	post := iotaBlock(rel, "packageVersionPostModifierNone")
	cmp := iotaBlock(rel, "greater")
	dep := iotaBlock(rel, "versionAny")
	emit := func(m map[string]int64, prefix string, names ...string) {
		for _, n := range names {
			v, ok := m[n]
			if !ok {
				fail("%s: const %s missing", rel, n)
			}
			g.def(prefix+strings.TrimPrefix(strings.TrimPrefix(n, "packageVersionPreModifier"), "packageVersionPostModifier"), "Z", fmt.Sprintf("(%d)", v), n)
		}
	}
	emit(pre, "pre_", "packageVersionPreModifierNone", "packageVersionPreModifierAlpha", "packageVersionPreModifierBeta", "packageVersionPreModifierPre", "packageVersionPreModifierRC", "packageVersionPreModifierMax")
	emit(post, "post_", "packageVersionPostModifierNone", "packageVersionPostModifierCVS", "packageVersionPostModifierSVN", "packageVersionPostModifierGit", "packageVersionPostModifierHG", "packageVersionPostModifierP")
	emit(cmp, "cmp_", "greater", "equal", "less")
	emit(dep, "dep_", "versionAny", "versionEqual", "versionGreater", "versionLess", "versionGreaterEqual", "versionLessEqual", "versionTilde")

	fd := findFunc(rel, "", "ParseVersion")
	table := func(coq, tag string, m map[string]int64) {
		t, node := switchAssignTable(fd, tag)
		if t == nil {
			fail("%s: switch on %s not found in ParseVersion", rel, tag)
			return
		}
		var items []string
		for _, kv := range t {
			if kv[0] == "<default>" {
				continue
			}
			v, ok := m[kv[1]]
			if !ok {
				fail("%s: switch %s: case %q assigns unknown %s", rel, tag, kv[0], kv[1])
			}
			items = append(items, fmt.Sprintf("(%s, (%d))", coqStr(kv[0]), v))
		}
		g.def(coq, "list (string * Z)", "["+strings.Join(items, "; ")+"]", "switch "+tag+" at "+g.pos(node))
	}
	table("pre_suffix_table", "actuals[6]", pre)
	table("post_suffix_table", "actuals[9]", post)

	// operator strings of ResolvePackageNameVersionPin / resolveVersion
	g.write()
}

// sortedKeys is a small helper for deterministic output.
func sortedKeys[V any](m map[string]V) []string {
	ks := make([]string, 0, len(m))
	for k := range m {
		ks = append(ks, k)
	}
	sort.Strings(ks)
	return ks
}

func genExtra() {
	genC19()
	genC03()
	genC12()
	genC18()
	genC16()
	genC17()
	genC13()
	genC04()
	genC09()
	genC01()
	genC08()
	genC07()
	genC15()
	genC14()
	genC06()
	genC10()
	genC11()
	genC20()
	genC05()
	genC02()
}
