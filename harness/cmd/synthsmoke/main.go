// synthsmoke: builds a tiny synthetic repository and prints where it is (manual smoke test).
package main

import (
	"archive/tar"
	"fmt"
	"os"

	"verifharness/synthrepo"
)

func main() {
	dir := os.Args[1]
	key, err := synthrepo.NewKey("synth@verif-0001.rsa.pub")
	if err != nil {
		panic(err)
	}
	pkgs := []*synthrepo.Pkg{
		{Name: "base", Version: "1.0-r0", Origin: "base", Files: []synthrepo.File{
			{Name: "etc", Type: tar.TypeDir, Mode: 0o755},
			{Name: "etc/base.conf", Mode: 0o644, Content: []byte("hello\n")},
			{Name: "usr", Type: tar.TypeDir, Mode: 0o755}, {Name: "usr/bin", Type: tar.TypeDir, Mode: 0o755},
			{Name: "usr/bin/tool", Mode: 0o755, Content: []byte("#!/bin/sh\n"), UID: 0, GID: 0},
			{Name: "usr/bin/tool2", Type: tar.TypeLink, Linkname: "usr/bin/tool", Mode: 0o755},
			{Name: "usr/bin/sym", Type: tar.TypeSymlink, Linkname: "tool", Mode: 0o777},
		}},
		{Name: "app", Version: "2.1-r3", Origin: "app", Deps: []string{"base>=1.0"}, Provides: []string{"cmd:app=2.1-r3"}, Files: []synthrepo.File{
			{Name: "usr", Type: tar.TypeDir, Mode: 0o755}, {Name: "usr/bin", Type: tar.TypeDir, Mode: 0o755},
			{Name: "usr/bin/app", Mode: 0o4755, Content: []byte("app"), UID: 1000, GID: 1000, Xattrs: map[string]string{"user.k": "v"}},
		}},
	}
	r, err := synthrepo.Write(dir, key, pkgs)
	if err != nil {
		panic(err)
	}
	fmt.Println(r.KeyPath())
}
