// Package gal prints Go values as Gallina terms and writes Cases_*.v files.
package gal

import (
	"encoding/json"
	"fmt"
	"os"
	"path/filepath"
	"strings"
)

// Str prints a Coq string term. Printable ASCII becomes a literal, anything
// else goes through Prelude.sb on a list of byte values.
func Str(s string) string {
	ok := true
	for i := 0; i < len(s); i++ {
		if s[i] < 0x20 || s[i] > 0x7e {
			ok = false
			break
		}
	}
	if ok {
		return `"` + strings.ReplaceAll(s, `"`, `""`) + `"%string`
	}
	return "(sb " + Bytes([]byte(s)) + ")"
}

func Bytes(b []byte) string {
	var sb strings.Builder
	sb.WriteString("[")
	for i, c := range b {
		if i > 0 {
			sb.WriteString(";")
		}
		fmt.Fprintf(&sb, "%d", c)
	}
	sb.WriteString("]%N")
	return sb.String()
}

func N(n uint64) string   { return fmt.Sprintf("%d%%N", n) }
func Nat(n int) string {
	if n > 1000 {
		return fmt.Sprintf("(N.to_nat %d%%N)", n)
	}
	return fmt.Sprintf("%d%%nat", n)
}
func Z(n int64) string {
	if n < 0 {
		return fmt.Sprintf("(%d)%%Z", n)
	}
	return fmt.Sprintf("%d%%Z", n)
}
func Bool(b bool) string {
	if b {
		return "true"
	}
	return "false"
}

func List(items []string) string { return "[" + strings.Join(items, "; ") + "]" }

func StrList(ss []string) string {
	out := make([]string, len(ss))
	for i, s := range ss {
		out[i] = Str(s)
	}
	return List(out)
}

func Opt(present bool, v string) string {
	if !present {
		return "None"
	}
	return "(Some " + v + ")"
}

func Pair(a, b string) string { return "(" + a + ", " + b + ")" }

func App(f string, args ...string) string {
	return "(" + f + " " + strings.Join(args, " ") + ")"
}

// Case is one generated case: the Gallina term handed to Coq, a JSON-able
// description for replay files, and classification keys for the evidence.
type Case struct {
	Term    string
	Desc    any
	Class   string // distribution bucket
	Trivial bool
	Key     string // distinctness key ("" = use Term)
}

// Writer shards cases into Cases_<k>.v files under dir plus an index.json.
type Writer struct {
	Dir     string
	Require string // e.g. "From Apko Require Import Corr.C20."
	Type    string // Coq type of one case
	Check   string // Coq function case -> list string
	Shard   int
	cases   []Case
	Extra   map[string]any
}

func (w *Writer) Add(c Case) { w.cases = append(w.cases, c) }
func (w *Writer) Len() int   { return len(w.cases) }

func (w *Writer) Flush() error {
	if w.Shard <= 0 {
		w.Shard = 500
	}
	if err := os.MkdirAll(w.Dir, 0o755); err != nil {
		return err
	}
	old, _ := filepath.Glob(filepath.Join(w.Dir, "Cases_*"))
	for _, f := range old {
		os.Remove(f)
	}
	type idx struct {
		Shards       []string       `json:"shards"`
		ShardSize    int            `json:"shard_size"`
		Evaluations  int            `json:"evaluations"`
		Distinct     int            `json:"distinct_nontrivial"`
		Distribution map[string]int `json:"distribution"`
		Descs        []any          `json:"descs"`
		Extra        map[string]any `json:"extra,omitempty"`
	}
	ix := idx{ShardSize: w.Shard, Evaluations: len(w.cases), Distribution: map[string]int{}, Extra: w.Extra}
	seen := map[string]bool{}
	for _, c := range w.cases {
		ix.Distribution[c.Class]++
		k := c.Key
		if k == "" {
			k = c.Term
		}
		if !c.Trivial && !seen[k] {
			seen[k] = true
			ix.Distinct++
		}
		ix.Descs = append(ix.Descs, c.Desc)
	}
	for s := 0; s*w.Shard < len(w.cases); s++ {
		name := fmt.Sprintf("Cases_%d.v", s)
		var sb strings.Builder
		sb.WriteString(w.Require + "\n")
		fmt.Fprintf(&sb, "Definition cases : list (%s) := [\n", w.Type)
		hi := (s + 1) * w.Shard
		if hi > len(w.cases) {
			hi = len(w.cases)
		}
		for i := s * w.Shard; i < hi; i++ {
			sb.WriteString("  " + w.cases[i].Term)
			if i+1 < hi {
				sb.WriteString(";")
			}
			sb.WriteString("\n")
		}
		sb.WriteString("].\n")
		fmt.Fprintf(&sb, "Definition R := Eval vm_compute in (report_from %s %d%%N cases).\nPrint R.\n", w.Check, s*w.Shard)
		if err := os.WriteFile(filepath.Join(w.Dir, name), []byte(sb.String()), 0o644); err != nil {
			return err
		}
		ix.Shards = append(ix.Shards, name)
	}
	b, err := json.Marshal(ix)
	if err != nil {
		return err
	}
	return os.WriteFile(filepath.Join(w.Dir, "index.json"), b, 0o644)
}

// PCG-ish deterministic PRNG (splitmix64) so every choice derives from one seed.
type Rand struct{ s uint64 }

func NewRand(seed uint64) *Rand { return &Rand{s: seed*0x9E3779B97F4A7C15 + 0x1234567} }
func (r *Rand) U64() uint64 {
	r.s += 0x9E3779B97F4A7C15
	z := r.s
	z = (z ^ (z >> 30)) * 0xBF58476D1CE4E5B9
	z = (z ^ (z >> 27)) * 0x94D049BB133111EB
	return z ^ (z >> 31)
}
func (r *Rand) Intn(n int) int {
	if n <= 0 {
		return 0
	}
	return int(r.U64() % uint64(n))
}
func (r *Rand) Bool() bool        { return r.U64()&1 == 1 }
func (r *Rand) Chance(p, q int) bool { return r.Intn(q) < p }
func Pick[T any](r *Rand, xs []T) T { return xs[r.Intn(len(xs))] }
