module verifharness

go 1.23.4

require chainguard.dev/apko v0.23.0

require (
	chainguard.dev/go-grpc-kit v0.17.7 // indirect
	chainguard.dev/sdk v0.1.31 // indirect
	cloud.google.com/go/auth v0.16.0 // indirect
	cloud.google.com/go/auth/oauth2adapt v0.2.8 // indirect
	cloud.google.com/go/compute/metadata v0.6.0 // indirect
	filippo.io/edwards25519 v1.1.0 // indirect
	github.com/beorn7/perks v1.0.1 // indirect
	github.com/cespare/xxhash/v2 v2.3.0 // indirect
	github.com/chainguard-dev/clog v1.7.0 // indirect
	github.com/felixge/httpsnoop v1.0.4 // indirect
	github.com/go-jose/go-jose/v3 v3.0.4 // indirect
	github.com/go-logr/logr v1.4.2 // indirect
	github.com/go-logr/stdr v1.2.2 // indirect
	github.com/google/s2a-go v0.1.9 // indirect
	github.com/googleapis/enterprise-certificate-proxy v0.3.6 // indirect
	github.com/googleapis/gax-go/v2 v2.14.1 // indirect
	github.com/grpc-ecosystem/go-grpc-middleware v1.4.0 // indirect
	github.com/grpc-ecosystem/go-grpc-prometheus v1.2.1-0.20210315223345-82c243799c99 // indirect
	github.com/grpc-ecosystem/grpc-gateway/v2 v2.24.0 // indirect
	github.com/hashicorp/go-cleanhttp v0.5.2 // indirect
	github.com/hashicorp/go-retryablehttp v0.7.7 // indirect
	github.com/kelseyhightower/envconfig v1.4.0 // indirect
	github.com/klauspost/compress v1.18.0 // indirect
	github.com/munnerz/goautoneg v0.0.0-20191010083416-a7dc8b61c822 // indirect
	github.com/pkg/errors v0.9.1 // indirect
	github.com/prometheus/client_golang v1.20.5 // indirect
	github.com/prometheus/client_model v0.6.1 // indirect
	github.com/prometheus/common v0.62.0 // indirect
	github.com/prometheus/procfs v0.15.1 // indirect
	go.lsp.dev/uri v0.3.0 // indirect
	go.opentelemetry.io/auto/sdk v1.1.0 // indirect
	go.opentelemetry.io/contrib/instrumentation/google.golang.org/grpc/otelgrpc v0.60.0 // indirect
	go.opentelemetry.io/contrib/instrumentation/net/http/otelhttp v0.60.0 // indirect
	go.opentelemetry.io/otel v1.35.0 // indirect
	go.opentelemetry.io/otel/metric v1.35.0 // indirect
	go.opentelemetry.io/otel/trace v1.35.0 // indirect
	go.step.sm/crypto v0.60.0 // indirect
	golang.org/x/crypto v0.37.0 // indirect
	golang.org/x/exp v0.0.0-20241108190413-2d47ceb2692f // indirect
	golang.org/x/net v0.39.0 // indirect
	golang.org/x/oauth2 v0.29.0 // indirect
	golang.org/x/sync v0.13.0 // indirect
	golang.org/x/sys v0.32.0 // indirect
	golang.org/x/text v0.24.0 // indirect
	golang.org/x/time v0.11.0 // indirect
	google.golang.org/api v0.229.0 // indirect
	google.golang.org/genproto/googleapis/api v0.0.0-20250303144028-a0af3efb3deb // indirect
	google.golang.org/genproto/googleapis/rpc v0.0.0-20250414145226-207652e42e2e // indirect
	google.golang.org/grpc v1.71.1 // indirect
	google.golang.org/protobuf v1.36.6 // indirect
	gopkg.in/ini.v1 v1.67.0 // indirect
)

replace chainguard.dev/apko => /repo
