module verifharness

go 1.23.4

require (
	chainguard.dev/apko v0.23.0
	github.com/chainguard-dev/clog v1.7.0
	github.com/charmbracelet/log v0.4.1
	github.com/google/go-containerregistry v0.20.3
	github.com/google/shlex v0.0.0-20191202100458-e7afc7fbc510
	github.com/sigstore/cosign/v2 v2.4.3
	go.lsp.dev/uri v0.3.0
	golang.org/x/sys v0.32.0
)

require (
	chainguard.dev/go-grpc-kit v0.17.7 // indirect
	chainguard.dev/sdk v0.1.31 // indirect
	cloud.google.com/go/auth v0.16.0 // indirect
	cloud.google.com/go/auth/oauth2adapt v0.2.8 // indirect
	cloud.google.com/go/compute/metadata v0.6.0 // indirect
	dario.cat/mergo v1.0.1 // indirect
	filippo.io/edwards25519 v1.1.0 // indirect
	github.com/ProtonMail/go-crypto v1.1.5 // indirect
	github.com/asaskevich/govalidator v0.0.0-20230301143203-a9d515a09cc2 // indirect
	github.com/aymanbagabas/go-osc52/v2 v2.0.1 // indirect
	github.com/beorn7/perks v1.0.1 // indirect
	github.com/blang/semver v3.5.1+incompatible // indirect
	github.com/cespare/xxhash/v2 v2.3.0 // indirect
	github.com/charmbracelet/lipgloss v1.0.0 // indirect
	github.com/charmbracelet/x/ansi v0.4.2 // indirect
	github.com/cloudflare/circl v1.6.0 // indirect
	github.com/common-nighthawk/go-figure v0.0.0-20210622060536-734e95fb86be // indirect
	github.com/containerd/stargz-snapshotter/estargz v0.16.3 // indirect
	github.com/cyberphone/json-canonicalization v0.0.0-20231011164504-785e29786b46 // indirect
	github.com/cyphar/filepath-securejoin v0.4.1 // indirect
	github.com/distribution/reference v0.6.0 // indirect
	github.com/docker/cli v27.5.0+incompatible // indirect
	github.com/docker/distribution v2.8.3+incompatible // indirect
	github.com/docker/docker v27.5.0+incompatible // indirect
	github.com/docker/docker-credential-helpers v0.8.2 // indirect
	github.com/docker/go-connections v0.5.0 // indirect
	github.com/docker/go-units v0.5.0 // indirect
	github.com/dustin/go-humanize v1.0.1 // indirect
	github.com/emirpasic/gods v1.18.1 // indirect
	github.com/felixge/httpsnoop v1.0.4 // indirect
	github.com/go-chi/chi v4.1.2+incompatible // indirect
	github.com/go-git/gcfg v1.5.1-0.20230307220236-3a3c6141e376 // indirect
	github.com/go-git/go-billy/v5 v5.6.2 // indirect
	github.com/go-git/go-git/v5 v5.14.0 // indirect
	github.com/go-jose/go-jose/v3 v3.0.4 // indirect
	github.com/go-jose/go-jose/v4 v4.0.5 // indirect
	github.com/go-logfmt/logfmt v0.6.0 // indirect
	github.com/go-logr/logr v1.4.2 // indirect
	github.com/go-logr/stdr v1.2.2 // indirect
	github.com/go-openapi/analysis v0.23.0 // indirect
	github.com/go-openapi/errors v0.22.0 // indirect
	github.com/go-openapi/jsonpointer v0.21.0 // indirect
	github.com/go-openapi/jsonreference v0.21.0 // indirect
	github.com/go-openapi/loads v0.22.0 // indirect
	github.com/go-openapi/runtime v0.28.0 // indirect
	github.com/go-openapi/spec v0.21.0 // indirect
	github.com/go-openapi/strfmt v0.23.0 // indirect
	github.com/go-openapi/swag v0.23.0 // indirect
	github.com/go-openapi/validate v0.24.0 // indirect
	github.com/gogo/protobuf v1.3.2 // indirect
	github.com/golang/groupcache v0.0.0-20241129210726-2c02b8208cf8 // indirect
	github.com/google/go-cmp v0.7.0 // indirect
	github.com/google/s2a-go v0.1.9 // indirect
	github.com/google/uuid v1.6.0 // indirect
	github.com/googleapis/enterprise-certificate-proxy v0.3.6 // indirect
	github.com/googleapis/gax-go/v2 v2.14.1 // indirect
	github.com/grpc-ecosystem/go-grpc-middleware v1.4.0 // indirect
	github.com/grpc-ecosystem/go-grpc-prometheus v1.2.1-0.20210315223345-82c243799c99 // indirect
	github.com/grpc-ecosystem/grpc-gateway/v2 v2.24.0 // indirect
	github.com/hashicorp/go-cleanhttp v0.5.2 // indirect
	github.com/hashicorp/go-retryablehttp v0.7.7 // indirect
	github.com/jbenet/go-context v0.0.0-20150711004518-d14ea06fba99 // indirect
	github.com/jedisct1/go-minisign v0.0.0-20230811132847-661be99b8267 // indirect
	github.com/josharian/intern v1.0.0 // indirect
	github.com/kelseyhightower/envconfig v1.4.0 // indirect
	github.com/kevinburke/ssh_config v1.2.0 // indirect
	github.com/klauspost/compress v1.18.0 // indirect
	github.com/klauspost/pgzip v1.2.6 // indirect
	github.com/letsencrypt/boulder v0.0.0-20240722223108-48439e453245 // indirect
	github.com/lucasb-eyer/go-colorful v1.2.0 // indirect
	github.com/mailru/easyjson v0.7.7 // indirect
	github.com/mattn/go-isatty v0.0.20 // indirect
	github.com/mitchellh/go-homedir v1.1.0 // indirect
	github.com/mitchellh/mapstructure v1.5.1-0.20231216201459-8508981c8b6c // indirect
	github.com/moby/docker-image-spec v1.3.1 // indirect
	github.com/muesli/termenv v0.16.0 // indirect
	github.com/munnerz/goautoneg v0.0.0-20191010083416-a7dc8b61c822 // indirect
	github.com/oklog/ulid v1.3.1 // indirect
	github.com/opencontainers/go-digest v1.0.0 // indirect
	github.com/opencontainers/image-spec v1.1.0 // indirect
	github.com/package-url/packageurl-go v0.1.3 // indirect
	github.com/pjbgf/sha1cd v0.3.2 // indirect
	github.com/pkg/errors v0.9.1 // indirect
	github.com/prometheus/client_golang v1.20.5 // indirect
	github.com/prometheus/client_model v0.6.1 // indirect
	github.com/prometheus/common v0.62.0 // indirect
	github.com/prometheus/procfs v0.15.1 // indirect
	github.com/rivo/uniseg v0.4.7 // indirect
	github.com/sassoftware/relic v7.2.1+incompatible // indirect
	github.com/secure-systems-lab/go-securesystemslib v0.9.0 // indirect
	github.com/sergi/go-diff v1.3.2-0.20230802210424-5b0b94c5c0d3 // indirect
	github.com/sigstore/protobuf-specs v0.4.0 // indirect
	github.com/sigstore/rekor v1.3.9 // indirect
	github.com/sigstore/sigstore v1.8.15 // indirect
	github.com/sirupsen/logrus v1.9.3 // indirect
	github.com/skeema/knownhosts v1.3.1 // indirect
	github.com/spf13/cobra v1.9.1 // indirect
	github.com/spf13/pflag v1.0.6 // indirect
	github.com/theupdateframework/go-tuf v0.7.0 // indirect
	github.com/titanous/rocacheck v0.0.0-20171023193734-afe73141d399 // indirect
	github.com/vbatts/tar-split v0.11.6 // indirect
	github.com/xanzy/ssh-agent v0.3.3 // indirect
	go.mongodb.org/mongo-driver v1.14.0 // indirect
	go.opentelemetry.io/auto/sdk v1.1.0 // indirect
	go.opentelemetry.io/contrib/instrumentation/google.golang.org/grpc/otelgrpc v0.60.0 // indirect
	go.opentelemetry.io/contrib/instrumentation/net/http/otelhttp v0.60.0 // indirect
	go.opentelemetry.io/otel v1.35.0 // indirect
	go.opentelemetry.io/otel/metric v1.35.0 // indirect
	go.opentelemetry.io/otel/trace v1.35.0 // indirect
	go.step.sm/crypto v0.60.0 // indirect
	go.uber.org/multierr v1.11.0 // indirect
	go.uber.org/zap v1.27.0 // indirect
	golang.org/x/crypto v0.37.0 // indirect
	golang.org/x/exp v0.0.0-20241108190413-2d47ceb2692f // indirect
	golang.org/x/net v0.39.0 // indirect
	golang.org/x/oauth2 v0.29.0 // indirect
	golang.org/x/sync v0.13.0 // indirect
	golang.org/x/term v0.31.0 // indirect
	golang.org/x/text v0.24.0 // indirect
	golang.org/x/time v0.11.0 // indirect
	google.golang.org/api v0.229.0 // indirect
	google.golang.org/genproto/googleapis/api v0.0.0-20250303144028-a0af3efb3deb // indirect
	google.golang.org/genproto/googleapis/rpc v0.0.0-20250414145226-207652e42e2e // indirect
	google.golang.org/grpc v1.71.1 // indirect
	google.golang.org/protobuf v1.36.6 // indirect
	gopkg.in/ini.v1 v1.67.0 // indirect
	gopkg.in/warnings.v0 v0.1.2 // indirect
	gopkg.in/yaml.v3 v3.0.1 // indirect
	k8s.io/apimachinery v0.32.3 // indirect
	sigs.k8s.io/release-utils v0.11.1 // indirect
)

replace chainguard.dev/apko => /repo
