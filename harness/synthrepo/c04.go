package synthrepo

// Additions for C04/C05: hand-made tar blocks (meta-headers without a following
// entry, arbitrary names, raw blocks), so that archives which archive/tar's
// writer refuses to produce can still be generated.

import (
	"bytes"
	"compress/flate"
	"crypto"
	"crypto/rsa"
	"crypto/sha1" //nolint:gosec
	"crypto/sha256"
	"encoding/binary"
	"fmt"
	"hash/crc32"
	"sort"
)

// RawHeader returns one 512-byte ustar header block.
func RawHeader(name string, size int64, typeflag byte, mode int64) []byte {
	b := make([]byte, 512)
	copy(b[0:100], name)
	copy(b[100:108], fmt.Sprintf("%07o\x00", mode))
	copy(b[108:116], "0000000\x00")
	copy(b[116:124], "0000000\x00")
	copy(b[124:136], fmt.Sprintf("%011o\x00", size))
	copy(b[136:148], "00000000000\x00")
	copy(b[148:156], "        ")
	b[156] = typeflag
	copy(b[257:263], "ustar\x00")
	copy(b[263:265], "00")
	var sum int64
	for _, c := range b {
		sum += int64(c)
	}
	copy(b[148:156], fmt.Sprintf("%06o\x00 ", sum))
	return b
}

// Pad512 pads b with zeros to a multiple of 512.
func Pad512(b []byte) []byte {
	if r := len(b) % 512; r != 0 {
		b = append(append([]byte{}, b...), make([]byte, 512-r)...)
	}
	return b
}

// RawEntry is a header block followed by the padded content.
func RawEntry(name string, content []byte, typeflag byte) []byte {
	return append(RawHeader(name, int64(len(content)), typeflag, 0o644), Pad512(content)...)
}

// PaxRecords renders PAX extended-header records (sorted by key).
func PaxRecords(recs map[string]string) []byte {
	keys := make([]string, 0, len(recs))
	for k := range recs {
		keys = append(keys, k)
	}
	sort.Strings(keys)
	var out bytes.Buffer
	for _, k := range keys {
		body := " " + k + "=" + recs[k] + "\n"
		n := len(body) + 1
		for len(fmt.Sprintf("%d", n))+len(body) != n {
			n = len(fmt.Sprintf("%d", n)) + len(body)
		}
		fmt.Fprintf(&out, "%d%s", n, body)
	}
	return out.Bytes()
}

// PaxMeta is a PAX extended header ('x') with the given records and NO entry
// after it: put last in a segment it stays pending.
func PaxMeta(recs map[string]string) []byte {
	return RawEntry("PaxHeaders.0/pending", PaxRecords(recs), 'x')
}

// PaxGlobal is a PAX global header ('g') under the given name.
func PaxGlobal(name string, recs map[string]string) []byte {
	return RawEntry(name, PaxRecords(recs), 'g')
}

// GnuLongName is a GNU 'L' meta-header carrying a long name for the NEXT entry.
func GnuLongName(name string) []byte {
	return RawEntry("././@LongLink", append([]byte(name), 0), 'L')
}

// GnuLongLink is a GNU 'K' meta-header carrying a long link name for the NEXT entry.
func GnuLongLink(name string) []byte {
	return RawEntry("././@LongLink", append([]byte(name), 0), 'K')
}

// EOA is the end-of-archive marker.
func EOA() []byte { return make([]byte, 1024) }

// GzStored wraps raw in one gzip member made of stored (uncompressed) deflate
// blocks, so byte positions in the member are predictable.
func GzStored(raw []byte) []byte {
	var out bytes.Buffer
	out.Write([]byte{0x1f, 0x8b, 8, 0, 0, 0, 0, 0, 0, 0xff})
	fw, _ := flate.NewWriter(&out, flate.NoCompression)
	fw.Write(raw)
	fw.Close()
	var tr [8]byte
	binary.LittleEndian.PutUint32(tr[0:4], crc32.ChecksumIEEE(raw))
	binary.LittleEndian.PutUint32(tr[4:8], uint32(len(raw)))
	out.Write(tr[:])
	return out.Bytes()
}

// IndexBody builds the signed part of an index archive from raw tar bytes
// (one gzip member).
func IndexBody(entries [][]byte, eoa bool) ([]byte, error) {
	var raw []byte
	for _, e := range entries {
		raw = append(raw, e...)
	}
	if eoa {
		raw = append(raw, EOA()...)
	}
	return Gz(raw)
}

// SigEntryRaw is the raw tar bytes of one signature entry.
func SigEntryRaw(name string, sig []byte) []byte { return RawEntry(name, sig, '0') }

// Sign returns key's PKCS1v15 signature over signed with the digest of sigAlg
// ("RSA" = SHA-1, anything else SHA-256).
func Sign(signed []byte, key *Key, sigAlg string) ([]byte, error) {
	if sigAlg == "RSA" {
		d := sha1.Sum(signed) //nolint:gosec
		return rsa.SignPKCS1v15(nil, key.Priv, crypto.SHA1, d[:])
	}
	d := sha256.Sum256(signed)
	return rsa.SignPKCS1v15(nil, key.Priv, crypto.SHA256, d[:])
}
