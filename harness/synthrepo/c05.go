package synthrepo

import "fmt"

// Additions for the C05 harness: raw tar segments as gzip members, so that a
// served .apk can be assembled from arbitrary members (a control member whose
// first entry is named .SIGN.*, data split over several members, ...).

// Segment returns one gzip member holding the tar entries; withEOA adds the
// end-of-archive marker, pax records per-file checksums / xattrs as PAX records.
func Segment(entries []File, withEOA bool, pax bool) ([]byte, error) {
	return tarSegment(entries, withEOA, pax)
}

// Pkginfo renders the .PKGINFO text of p with the given datahash value.
func (p *Pkg) Pkginfo(datahash string, size uint64) []byte { return p.pkginfo(datahash, size) }

// RawHeaderLink is RawHeader with a link name (symbolic and hard links).
func RawHeaderLink(name, linkname string, typeflag byte, mode int64) []byte {
	b := RawHeader(name, 0, typeflag, mode)
	copy(b[157:257], linkname)
	copy(b[148:156], "        ")
	var sum int64
	for _, c := range b {
		sum += int64(c)
	}
	copy(b[148:156], fmt.Sprintf("%06o\x00 ", sum))
	return b
}

// RawEntryAfter is a header block followed by the content and then, instead of zero
// padding, the given bytes (cut or zero-filled to the block boundary).
func RawEntryAfter(name string, content []byte, typeflag byte, after []byte) []byte {
	body := Pad512(content)
	copy(body[len(content):], after)
	return append(RawHeader(name, int64(len(content)), typeflag, 0o644), body...)
}
